/-
  Lemmas for Props/ComposeDhcpWire.lean:
  * the reference option walk (`Spec.Dhcp4Wire.tlvsAt`, absolute offsets, a sequence) against the two loops of the
    model (`Model.dhcpValidateOpts`, `Model.Dhcp4Opt.parseLoop`: re-slicing, a map);
  * the fixed header `EncodeDHCP4` writes, field by field, under the reference reading;
  * the shape of the replies of the server handlers (`mkReply` / `nakReply`) and their encodability.
-/
import PacketVerif.Model.Dhcp4ReplyBytes
import PacketVerif.Spec.Dhcp4Wire
import PacketVerif.Lemmas.ComposeDhcp
import PacketVerif.Props.C12
namespace PV.Lemmas.Dhcp4Wire
open PV PV.Model PV.Model.Dhcp4Srv PV.Model.Dhcp4Opt PV.Model.Dhcp4Frame PV.Spec PV.Spec.Dhcp4Wire
open PV.Lemmas.Dhcp4OptPerm (optGet_optSet)

/-! ### the option walk -/

theorem byteAt_eq (p : Bytes) (k : Nat) (h : k < p.length) : byteAt p k = p[k]'h := by
  unfold byteAt; rw [List.getElem?_eq_getElem h]; rfl

theorem at_byteAt (p : Bytes) (k : Nat) : at_ p k = (byteAt p k).toNat := rfl

theorem drop_two (p : Bytes) (k : Nat) (h : k + 2 ≤ p.length) :
    p.drop k = byteAt p k :: byteAt p (k + 1) :: p.drop (k + 2) := by
  rw [List.drop_eq_getElem_cons (by omega : k < p.length), List.drop_eq_getElem_cons (by omega : k + 1 < p.length),
    byteAt_eq p k (by omega), byteAt_eq p (k + 1) (by omega)]

theorem byteAt_ne {p : Bytes} {k : Nat} {n : Nat} (hn : n < 256) (h : ¬ at_ p k = n) : (byteAt p k == UInt8.ofNat n) = false := by
  rw [at_byteAt] at h
  apply Bool.eq_false_iff.2
  intro e
  apply h
  have := eq_of_beq e
  rw [this, UInt8.toNat_ofNat']
  omega

theorem byteAt_eq_of {p : Bytes} {k : Nat} {n : Nat} (hn : n < 256) (h : at_ p k = n) : byteAt p k = UInt8.ofNat n := by
  rw [at_byteAt] at h
  apply UInt8.toNat_inj.1
  rw [h, UInt8.toNat_ofNat']
  omega

/-- the reference walk and the validation loop of `IsValid` agree: unreadable = `ErrParseFrame` -/
theorem tlvsAt_validate (p : Bytes) : ∀ (fuel k : Nat), k ≤ p.length →
    (tlvsAt p fuel k = none → dhcpValidateOpts fuel (p.drop k) = .err .parseFrame)
    ∧ (∀ l, tlvsAt p fuel k = some l → dhcpValidateOpts fuel (p.drop k) = .ok ())
  | 0, k, _ => by
    refine ⟨fun h => ?_, fun _ _ => rfl⟩
    simp [tlvsAt] at h
  | fuel + 1, k, hk => by
    unfold tlvsAt
    by_cases h2 : p.length < k + 2
    · rw [if_pos h2]
      refine ⟨fun h => (by cases h), fun _ _ => ?_⟩
      unfold dhcpValidateOpts
      have hl : (p.drop k).length < 2 := by rw [List.length_drop]; omega
      match hd : p.drop k with
      | [] => rfl
      | [_] => rfl
      | a :: b :: r => rw [hd] at hl; simp at hl; omega
    · rw [if_neg h2, drop_two p k (by omega)]
      unfold dhcpValidateOpts
      simp only []
      by_cases h255 : at_ p k = 255
      · rw [if_pos h255, byteAt_eq_of (by omega) h255]
        exact ⟨fun h => (by cases h), fun _ _ => rfl⟩
      · rw [if_neg h255]
        have e255 : (byteAt p k == 255) = false := byteAt_ne (n := 255) (by omega) h255
        rw [e255]
        by_cases h0 : at_ p k = 0
        · rw [if_pos h0, byteAt_eq_of (by omega) h0]
          have := tlvsAt_validate p fuel (k + 1) (by omega)
          rw [List.drop_eq_getElem_cons (by omega : k + 1 < p.length), ← byteAt_eq p (k + 1) (by omega)] at this
          simpa using this
        · rw [if_neg h0]
          have e0 : (byteAt p k == 0) = false := byteAt_ne (n := 0) (by omega) h0
          rw [e0]
          simp only [Bool.false_eq_true, if_false, List.length_cons, List.length_drop]
          by_cases ht : p.length < k + 2 + at_ p (k + 1)
          · rw [if_pos ht, if_pos (by rw [← at_byteAt]; omega)]
            exact ⟨fun _ => rfl, fun _ h => (by cases h)⟩
          · rw [if_neg ht, if_neg (by rw [← at_byteAt]; omega)]
            have := tlvsAt_validate p fuel (k + 2 + at_ p (k + 1)) (by omega)
            rw [List.drop_drop, ← at_byteAt, show k + 2 + at_ p (k + 1) = k + 2 + at_ p (k + 1) from rfl]
            constructor
            · intro h
              apply this.1
              cases ht' : tlvsAt p fuel (k + 2 + at_ p (k + 1)) with
              | none => rfl
              | some l => rw [ht'] at h; cases h
            · intro l h
              cases ht' : tlvsAt p fuel (k + 2 + at_ p (k + 1)) with
              | none => rw [ht'] at h; cases h
              | some l' => exact this.2 l' ht'

/-- the reference walk and `ParseOptions` agree: the map is the sequence folded with "the last occurrence wins" -/
theorem tlvsAt_parse (p : Bytes) : ∀ (fuel k g : Nat) (acc : Opts) (l : List (UInt8 × Bytes)), k ≤ p.length →
    p.length - k ≤ fuel → p.length - k < g → tlvsAt p fuel k = some l →
    parseLoop g (p.drop k) acc = .ok (l.foldl (fun a e => optSet a e.1 e.2) acc)
  | 0, k, g, acc, l, hk, hf, hg, h => by
    simp only [tlvsAt, Option.some.injEq] at h
    subst h
    have : p.drop k = [] := List.drop_eq_nil_of_le (by omega)
    rw [this]
    cases g with
    | zero => omega
    | succ g => simp [parseLoop]
  | fuel + 1, k, g, acc, l, hk, hf, hg, h => by
    cases g with
    | zero => omega
    | succ g =>
      unfold tlvsAt at h
      unfold parseLoop
      have hlen : (p.drop k).length = p.length - k := List.length_drop
      by_cases h2 : p.length < k + 2
      · rw [if_pos h2] at h
        simp only [Option.some.injEq] at h
        subst h
        rw [if_pos (by omega)]
        rfl
      · rw [if_neg h2] at h
        rw [if_neg (by omega), Props.C03Dhcp.idx_ok (by omega)]
        simp only [Outcome.bind_ok]
        have e0 : (p.drop k)[0]'(by omega) = byteAt p k := by
          rw [List.getElem_drop, byteAt_eq p k (by omega)]; rfl
        have e1 : (p.drop k)[1]'(by omega) = byteAt p (k + 1) := by
          rw [List.getElem_drop, byteAt_eq p (k + 1) (by omega)]
        rw [e0]
        by_cases h255 : at_ p k = 255
        · rw [if_pos h255] at h
          simp only [Option.some.injEq] at h
          subst h
          rw [byteAt_eq_of (by omega) h255]
          rfl
        · rw [if_neg h255] at h
          have e255 : (byteAt p k == 255) = false := byteAt_ne (n := 255) (by omega) h255
          rw [e255]
          simp only [Bool.false_eq_true, if_false]
          by_cases h0 : at_ p k = 0
          · rw [if_pos h0] at h
            rw [byteAt_eq_of (by omega) h0]
            simp only [show ((UInt8.ofNat 0 == 0) = true) from rfl, if_true]
            rw [Props.C03Dhcp.sliceFrom_ok (by omega)]
            simp only [Outcome.bind_ok, List.drop_drop]
            exact tlvsAt_parse p fuel (k + 1) g acc l (by omega) (by omega) (by omega) h
          · rw [if_neg h0] at h
            have e0' : (byteAt p k == 0) = false := byteAt_ne (n := 0) (by omega) h0
            rw [e0']
            simp only [Bool.false_eq_true, if_false]
            rw [Props.C03Dhcp.idx_ok (by omega)]
            simp only [Outcome.bind_ok]
            rw [e1, ← at_byteAt]
            by_cases ht : p.length < k + 2 + at_ p (k + 1)
            · rw [if_pos ht] at h; cases h
            · rw [if_neg ht] at h
              rw [if_neg (by omega), Props.C03Dhcp.slice_ok (by omega) (by omega), Props.C03Dhcp.sliceFrom_ok (by omega)]
              simp only [Outcome.bind_ok, List.drop_drop]
              cases ht' : tlvsAt p fuel (k + 2 + at_ p (k + 1)) with
              | none => rw [ht'] at h; cases h
              | some l' =>
                rw [ht'] at h
                simp only [Option.map_some, Option.some.injEq] at h
                subst h
                have hv : ((p.drop k).take (2 + at_ p (k + 1))).drop 2 = field p (k + 2) (at_ p (k + 1)) := by
                  unfold field
                  rw [List.drop_take, List.drop_drop]
                  congr 1
                  omega
                rw [hv, List.foldl_cons]
                have := tlvsAt_parse p fuel (k + 2 + at_ p (k + 1)) g (optSet acc (byteAt p k) (field p (k + 2) (at_ p (k + 1)))) l'
                  (by omega) (by omega) (by omega) ht'
                rw [show k + (2 + at_ p (k + 1)) = k + 2 + at_ p (k + 1) by omega]
                exact this

/-- lookup in the folded map = last occurrence in the sequence -/
theorem optGet_foldl (l : List (UInt8 × Bytes)) : ∀ (acc : Opts) (c : UInt8),
    optGet (l.foldl (fun a e => optSet a e.1 e.2) acc) c = (lastOf l c).or (optGet acc c) := by
  induction l with
  | nil => intro acc c; simp [lastOf]
  | cons e l ih =>
    intro acc c
    rw [List.foldl_cons, ih, optGet_optSet]
    unfold lastOf
    rw [List.reverse_cons, List.find?_append]
    cases hf : l.reverse.find? (fun x => x.1 == c) with
    | some v => simp
    | none =>
      by_cases hc : c = e.1
      · subst hc; simp
      · have : (e.1 == c) = false := by simpa using fun h => hc h.symm
        simp [this, hc]

/-! ### `IsValid` / `ParseOptions` / `msgOf` under the reference reading -/

/-- **`DHCP4.IsValid` accepts exactly the payloads the reference can read** that have op 1 or 2 and hlen 6 and at
    least two bytes of options -/
theorem dhcpValid_iff (p : Bytes) :
    dhcpValid p = .ok () ↔ 242 ≤ p.length ∧ (at_ p 0 = 1 ∨ at_ p 0 = 2) ∧ at_ p 2 = 6 ∧ ∃ l, options p = some l := by
  unfold dhcpValid options
  by_cases h : p.length < 240
  · rw [if_pos h]
    constructor
    · intro h'; cases h'
    · intro ⟨h', _⟩; omega
  · rw [if_neg h, PV.Lemmas.byteN_at p 0 (by omega), PV.Lemmas.byteN_at p 2 (by omega)]
    simp only [Outcome.bind_ok, List.length_drop]
    have hv := tlvsAt_validate p (p.length - 240) 240 (by omega)
    by_cases hop : at_ p 0 = 1 ∨ at_ p 0 = 2
    · have h1 : ¬ ((at_ p 0 != 1) = true ∧ (at_ p 0 != 2) = true) := by
        intro ⟨a, b⟩
        rcases hop with e | e <;> simp [e] at a b
      rw [if_neg h1]
      by_cases hl : at_ p 2 = 6
      · have h2 : ¬ (at_ p 2 != 6) = true := by simp [hl]
        rw [if_neg h2]
        by_cases h242 : p.length - 240 < 2
        · rw [if_pos h242]
          constructor
          · intro h'; cases h'
          · intro ⟨h', _⟩; omega
        · rw [if_neg h242]
          cases ht : tlvsAt p (p.length - 240) 240 with
          | none =>
            rw [hv.1 ht]
            constructor
            · intro h'; cases h'
            · intro ⟨_, _, _, l, hl'⟩; cases hl'
          | some l =>
            rw [hv.2 l ht]
            exact ⟨fun _ => ⟨by omega, hop, hl, l, rfl⟩, fun _ => rfl⟩
      · have h2 : (at_ p 2 != 6) = true := by simpa using hl
        rw [if_pos h2]
        constructor
        · intro h'; cases h'
        · intro ⟨_, _, h', _⟩; exact absurd h' hl
    · have h1 : (at_ p 0 != 1) = true ∧ (at_ p 0 != 2) = true := by
        constructor <;> simp only [bne_iff_ne, ne_eq] <;> intro e <;> exact hop (by simp [e])
      rw [if_pos h1]
      constructor
      · intro h'; cases h'
      · intro ⟨_, h', _⟩; exact absurd h' hop

/-- **`ParseOptions` is the reference's option sequence, folded** -/
theorem parseOptions_ref {p : Bytes} {l : List (UInt8 × Bytes)} (hl : 240 ≤ p.length) (h : options p = some l) :
    parseOptions p = .ok (l.foldl (fun a e => optSet a e.1 e.2) []) := by
  unfold parseOptions optionsOf
  have : (if p.length > 240 then p.drop 240 else []) = p.drop 240 := by
    split
    · rfl
    · exact (List.drop_eq_nil_of_le (by omega)).symm
  simp only [this]
  have hg : p.length - 240 < (p.drop 240).length + 1 := by rw [List.length_drop]; omega
  exact tlvsAt_parse p (p.length - 240) 240 ((p.drop 240).length + 1) [] l hl (Nat.le_refl _) hg h

theorem optGet_ref {p : Bytes} {l : List (UInt8 × Bytes)} {o : Opts} (hl : 240 ≤ p.length) (h : options p = some l)
    (ho : parseOptions p = .ok o) (c : UInt8) : optGet o c = lastOf l c := by
  rw [parseOptions_ref hl h] at ho
  cases ho
  rw [optGet_foldl]
  simp [PV.Lemmas.Dhcp4OptPerm.optGet_nil]

theorem idx_byteAt (p : Bytes) (k : Nat) (h : k < p.length) : idx p k = .ok (byteAt p k) := by
  rw [PV.Lemmas.idx_ok' p k h, byteAt_eq p k h]

/-- the message the handlers are given, field by field in the reference's vocabulary -/
def msgRef (rx : Rx) (p : Bytes) (o : Opts) : Msg :=
  { chaddr := field p 28 6, cidOpt := optGet o 61, reqOpt := optGet o 50, srvOpt := optGet o 54, xid := field p 4 4,
    ciaddr := u32 p 12, yiaddr := u32 p 16, srcIP := rx.srcIP, bflag := u16 p 10 / 32768 == 1 }

theorem msgOf_ref (rx : Rx) (p : Bytes) (o : Opts) (h : 240 ≤ p.length) : msgOf rx p o = .ok (msgRef rx p o) := by
  unfold msgOf
  rw [PV.Lemmas.slice_field p 28 34 (by omega) (by omega), PV.Lemmas.slice_field p 4 8 (by omega) (by omega)]
  rw [idx_byteAt p 12 (by omega), idx_byteAt p 13 (by omega), idx_byteAt p 14 (by omega), idx_byteAt p 15 (by omega),
    idx_byteAt p 16 (by omega), idx_byteAt p 17 (by omega), idx_byteAt p 18 (by omega), idx_byteAt p 19 (by omega),
    idx_byteAt p 10 (by omega)]
  simp only [Outcome.bind_ok, Outcome.pure_eq]
  unfold msgRef
  congr 2
  have h1 : u16 p 10 / 32768 = (byteAt p 10).toNat / 128 := by
    unfold u16
    rw [at_byteAt, at_byteAt]
    have := UInt8.toNat_lt (byteAt p (10 + 1))
    omega
  rw [h1]

/-! ### which payloads are served: the reference reading of a request -/

/-- the message of the server machine that the reference's reading of a request stands for -/
def refMsg (rx : Rx) (cm : ClientMsg) : Msg :=
  { chaddr := cm.chaddr, cidOpt := cm.clientId, reqOpt := cm.requested, srvOpt := cm.serverId, xid := cm.xid,
    ciaddr := cm.ciaddr, yiaddr := cm.yiaddr, srcIP := rx.srcIP, bflag := cm.broadcast }

/-- … and the operation: DISCOVER (1), REQUEST (3), DECLINE (4), RELEASE (7) -/
def refOp (now : Nat) (rx : Rx) (cm : ClientMsg) : Op :=
  if cm.mtype = 1 then .discover now (refMsg rx cm)
  else if cm.mtype = 3 then .request now (refMsg rx cm)
  else if cm.mtype = 4 then .decline (refMsg rx cm)
  else .release (refMsg rx cm)

/-- the reference's reading of `p`, spelled out -/
def cmOf (p : Bytes) (l : List (UInt8 × Bytes)) (t : UInt8) : ClientMsg :=
  { mtype := t, xid := field p 4 4, chaddr := field p 28 6, ciaddr := u32 p 12, yiaddr := u32 p 16,
    broadcast := u16 p 10 / 32768 == 1, clientId := lastOf l 61, requested := lastOf l 50, serverId := lastOf l 54,
    params := lastOf l 55 }

theorem readClient_eq {p : Bytes} {l : List (UInt8 × Bytes)} (hlen : 240 ≤ p.length) (hopts : options p = some l)
    (hop : at_ p 0 = 1 ∨ at_ p 0 = 2) (h6 : at_ p 2 = 6) (t : UInt8) (h53 : lastOf l 53 = some [t])
    (ht : t = 1 ∨ t = 3 ∨ t = 4 ∨ t = 7) : readClient p = some (cmOf p l t) := by
  unfold readClient Dhcp4Wire.read
  rw [if_neg (by omega), hopts]
  simp [fixed, Wire.opt, hop, h6, h53, ht, cmOf]

theorem readClient_some {p : Bytes} {cm : ClientMsg} (h : readClient p = some cm) :
    240 ≤ p.length ∧ ∃ l t, options p = some l ∧ (at_ p 0 = 1 ∨ at_ p 0 = 2) ∧ at_ p 2 = 6 ∧ lastOf l 53 = some [t]
      ∧ (t = 1 ∨ t = 3 ∨ t = 4 ∨ t = 7) ∧ cm = cmOf p l t := by
  unfold readClient Dhcp4Wire.read at h
  by_cases hl : p.length < 240
  · rw [if_pos hl] at h; cases h
  · rw [if_neg hl] at h
    cases ho : options p with
    | none => rw [ho] at h; cases h
    | some l =>
      rw [ho] at h
      simp only [] at h
      split at h
      · rename_i hc
        have hc' : (at_ p 0 = 1 ∨ at_ p 0 = 2) ∧ at_ p 2 = 6 := hc
        split at h
        · rename_i t h53
          have h53' : lastOf l 53 = some [t] := h53
          split at h
          · rename_i ht
            cases h
            exact ⟨by omega, l, t, rfl, hc'.1, hc'.2, h53', ht, rfl⟩
          · cases h
        · cases h
      · cases h

/-- an option area that holds an option has at least two bytes -/
theorem options_nonempty {p : Bytes} {l : List (UInt8 × Bytes)} (h : options p = some l) (hne : l ≠ []) : 242 ≤ p.length := by
  apply Classical.byContradiction
  intro hlt
  unfold options at h
  cases hf : p.length - 240 with
  | zero => rw [hf] at h; simp [tlvsAt] at h; exact hne h
  | succ n =>
    rw [hf] at h
    unfold tlvsAt at h
    rw [if_pos (by omega)] at h
    cases h
    exact hne rfl

theorem lastOf_some_ne_nil {l : List (UInt8 × Bytes)} {c : UInt8} {v : Bytes} (h : lastOf l c = some v) : l ≠ [] := by
  intro e; subst e; simp [lastOf] at h

/-- the dispatch on a payload whose option 53 is one byte naming a served type -/
theorem classify_of_type {now : Nat} {rx : Rx} {p : Bytes} {o : Opts} {t : UInt8} (hv : dhcpValid p = .ok ())
    (hp : rx.dstPort ≠ 68) (ho : parseOptions p = .ok o) (h53 : optGet o 53 = some [t])
    (ht : t = 1 ∨ t = 3 ∨ t = 4 ∨ t = 7) :
    classify now rx p = .ok (.server
      (if t = 1 then .discover now (msgRef rx p o) else if t = 3 then .request now (msgRef rx p o)
       else if t = 4 then .decline (msgRef rx p o) else .release (msgRef rx p o))) := by
  have hl := PV.Lemmas.dhcpValid_len p hv
  unfold classify
  rw [hv]
  simp only []
  rw [if_neg (by simpa using hp), ho]
  simp only [Outcome.bind_ok]
  rw [h53]
  simp only [msgOf_ref rx p o hl, Outcome.bind_ok]
  rcases ht with rfl | rfl | rfl | rfl <;> rfl

/-- **served ⇔ the reference reads a DISCOVER / REQUEST / DECLINE / RELEASE not addressed to the client port, and then
    the handler works on exactly the reference's fields** -/
theorem decode_iff_ref (now : Nat) (rx : Rx) (p : Bytes) (op : Op) :
    Dhcp4Frame.decode now rx p = .ok (some op) ↔ rx.dstPort ≠ 68 ∧ ∃ cm, readClient p = some cm ∧ op = refOp now rx cm := by
  constructor
  · intro h
    obtain ⟨hv, hp, o, t, m, ho, h53, hm, hc⟩ := PV.Lemmas.ComposeDhcp.classify_server (PV.Lemmas.ComposeDhcp.decode_some h)
    obtain ⟨h242, hop, h6, l, hopts⟩ := (dhcpValid_iff p).1 hv
    have hg := optGet_ref (by omega) hopts ho
    rw [msgOf_ref rx p o (by omega)] at hm
    cases hm
    have ht : t = 1 ∨ t = 3 ∨ t = 4 ∨ t = 7 := by
      rcases hc with ⟨e, _⟩ | ⟨e, _⟩ | ⟨e, _⟩ | ⟨e, _⟩ <;> simp [e]
    refine ⟨hp, cmOf p l t, readClient_eq (by omega) hopts hop h6 t (by rw [← hg, h53]) ht, ?_⟩
    have hmsg : refMsg rx (cmOf p l t) = msgRef rx p o := by
      unfold refMsg cmOf msgRef
      simp only [hg]
    unfold refOp
    rw [hmsg]
    rcases hc with ⟨e, e'⟩ | ⟨e, e'⟩ | ⟨e, e'⟩ | ⟨e, e'⟩ <;> subst e <;> rw [e'] <;> rfl
  · intro ⟨hp, cm, hr, hop'⟩
    obtain ⟨hlen, l, t, hopts, hop, h6, h53, ht, hcm⟩ := readClient_some hr
    have h242 := options_nonempty hopts (lastOf_some_ne_nil h53)
    have hv : dhcpValid p = .ok () := (dhcpValid_iff p).2 ⟨h242, hop, h6, l, hopts⟩
    have ho := parseOptions_ref hlen hopts
    have hg := optGet_ref hlen hopts ho
    have hc := classify_of_type (now := now) hv hp ho (by rw [hg, h53]) ht
    unfold Dhcp4Frame.decode
    rw [hc]
    simp only [Outcome.bind_ok]
    have hmsg : refMsg rx (cmOf p l t) = msgRef rx p (l.foldl (fun a e => optSet a e.1 e.2) []) := by
      unfold refMsg cmOf msgRef
      simp only [hg]
    rw [hop', hcm]
    unfold refOp
    rw [hmsg]
    rfl

/-! ### the fixed header `EncodeDHCP4` writes, under the reference reading -/

theorem field_mid (pre x post : Bytes) : field (pre ++ x ++ post) pre.length x.length = x := by
  unfold field
  rw [List.append_assoc, List.drop_left, List.take_left]

theorem field_at {L pre x post : Bytes} {k n : Nat} (e : L = pre ++ x ++ post) (hk : pre.length = k) (hn : x.length = n) :
    field L k n = x := by
  subst e hk hn
  exact field_mid _ _ _

theorem at_of_field {L x : Bytes} {k n : Nat} (h : field L k n = x) (i j : Nat) (hi : i < x.length) (hj : j = k + i) :
    at_ L j = at_ x i := by
  subst hj
  rw [← PV.Lemmas.at_drop, ← h]
  unfold field at_
  have hn : i < n := by
    rw [← h] at hi
    unfold field at hi
    rw [List.length_take] at hi
    omega
  rw [List.getElem?_take_of_lt hn]

/-- the 240 bytes `EncodeDHCP4` leaves in front of the options for a BOOTREPLY with cleared flags: `x` = transaction id,
    `ci` / `yi` = ciaddr / yiaddr, `ch` = the six bytes of the hardware address -/
def hdrW (x ci yi ch : Bytes) : Bytes :=
  [2, 1, 6, 0] ++ x ++ [0, 0] ++ [0, 0] ++ ci ++ yi ++ zeros 8 ++ (ch ++ zeros 10) ++ zeros 192 ++ [99, 130, 83, 99]

theorem hdrW_length (x ci yi ch : Bytes) (hx : x.length = 4) (hci : ci.length = 4) (hyi : yi.length = 4) (hch : ch.length = 6) :
    (hdrW x ci yi ch).length = 240 := by
  simp only [hdrW, List.length_append, List.length_cons, List.length_nil, zeros, List.length_replicate, hx, hci, hyi, hch]

def be4of (x : Bytes) : Nat := ((at_ x 0 * 256 + at_ x 1) * 256 + at_ x 2) * 256 + at_ x 3

theorem zeros_add (a b : Nat) : zeros (a + b) = zeros a ++ zeros b := by
  unfold zeros; rw [List.replicate_append_replicate]

set_option linter.unusedSimpArgs false in
/-- **the reference reads back the header the encoder wrote, field by field** -/
theorem fixed_hdrW (x ci yi ch rest : Bytes) (hx : x.length = 4) (hci : ci.length = 4) (hyi : yi.length = 4)
    (hch : ch.length = 6) :
    fixed (hdrW x ci yi ch ++ rest) =
      { op := 2, htype := 1, hlen := 6, hops := 0, xid := x, secs := 0, flags := 0, ciaddr := be4of ci, yiaddr := be4of yi,
        siaddr := 0, giaddr := 0, chaddr := ch, chpad := zeros 10, sname := zeros 64, file := zeros 128, cookie := magic } := by
  have f0 : field (hdrW x ci yi ch ++ rest) 0 4 = [2, 1, 6, 0] :=
    field_at (pre := []) (post := x ++ [0, 0] ++ [0, 0] ++ ci ++ yi ++ zeros 8 ++ (ch ++ zeros 10) ++ zeros 192 ++ [99, 130, 83, 99] ++ rest)
      (by simp [hdrW, List.append_assoc]) rfl rfl
  have f4 : field (hdrW x ci yi ch ++ rest) 4 4 = x :=
    field_at (pre := [2, 1, 6, 0]) (post := [0, 0] ++ [0, 0] ++ ci ++ yi ++ zeros 8 ++ (ch ++ zeros 10) ++ zeros 192 ++ [99, 130, 83, 99] ++ rest)
      (by simp [hdrW, List.append_assoc]) rfl hx
  have f8 : field (hdrW x ci yi ch ++ rest) 8 4 = [0, 0, 0, 0] :=
    field_at (pre := [2, 1, 6, 0] ++ x) (post := ci ++ yi ++ zeros 8 ++ (ch ++ zeros 10) ++ zeros 192 ++ [99, 130, 83, 99] ++ rest)
      (by simp [hdrW, List.append_assoc]) (by simp only [List.length_append, List.length_cons, List.length_nil, zeros, List.length_replicate, hx, hci, hyi, hch]) rfl
  have f12 : field (hdrW x ci yi ch ++ rest) 12 4 = ci :=
    field_at (pre := [2, 1, 6, 0] ++ x ++ [0, 0] ++ [0, 0]) (post := yi ++ zeros 8 ++ (ch ++ zeros 10) ++ zeros 192 ++ [99, 130, 83, 99] ++ rest)
      (by simp [hdrW, List.append_assoc]) (by simp only [List.length_append, List.length_cons, List.length_nil, zeros, List.length_replicate, hx, hci, hyi, hch]) hci
  have f16 : field (hdrW x ci yi ch ++ rest) 16 4 = yi :=
    field_at (pre := [2, 1, 6, 0] ++ x ++ [0, 0] ++ [0, 0] ++ ci) (post := zeros 8 ++ (ch ++ zeros 10) ++ zeros 192 ++ [99, 130, 83, 99] ++ rest)
      (by simp [hdrW, List.append_assoc]) (by simp only [List.length_append, List.length_cons, List.length_nil, zeros, List.length_replicate, hx, hci, hyi, hch]) hyi
  have f20 : field (hdrW x ci yi ch ++ rest) 20 8 = zeros 8 :=
    field_at (pre := [2, 1, 6, 0] ++ x ++ [0, 0] ++ [0, 0] ++ ci ++ yi) (post := (ch ++ zeros 10) ++ zeros 192 ++ [99, 130, 83, 99] ++ rest)
      (by simp [hdrW, List.append_assoc]) (by simp only [List.length_append, List.length_cons, List.length_nil, zeros, List.length_replicate, hx, hci, hyi, hch]) (by simp only [List.length_append, List.length_cons, List.length_nil, zeros, List.length_replicate, hx, hci, hyi, hch])
  have f28 : field (hdrW x ci yi ch ++ rest) 28 6 = ch :=
    field_at (pre := [2, 1, 6, 0] ++ x ++ [0, 0] ++ [0, 0] ++ ci ++ yi ++ zeros 8) (post := zeros 10 ++ zeros 192 ++ [99, 130, 83, 99] ++ rest)
      (by simp [hdrW, List.append_assoc]) (by simp only [List.length_append, List.length_cons, List.length_nil, zeros, List.length_replicate, hx, hci, hyi, hch]) hch
  have f34 : field (hdrW x ci yi ch ++ rest) 34 10 = zeros 10 :=
    field_at (pre := [2, 1, 6, 0] ++ x ++ [0, 0] ++ [0, 0] ++ ci ++ yi ++ zeros 8 ++ ch) (post := zeros 192 ++ [99, 130, 83, 99] ++ rest)
      (by simp [hdrW, List.append_assoc]) (by simp only [List.length_append, List.length_cons, List.length_nil, zeros, List.length_replicate, hx, hci, hyi, hch]) (by simp only [List.length_append, List.length_cons, List.length_nil, zeros, List.length_replicate, hx, hci, hyi, hch])
  have f44 : field (hdrW x ci yi ch ++ rest) 44 64 = zeros 64 :=
    field_at (pre := [2, 1, 6, 0] ++ x ++ [0, 0] ++ [0, 0] ++ ci ++ yi ++ zeros 8 ++ ch ++ zeros 10) (post := zeros 128 ++ [99, 130, 83, 99] ++ rest)
      (by rw [hdrW, show (192 : Nat) = 64 + 128 from rfl, zeros_add]; simp [List.append_assoc]) (by simp only [List.length_append, List.length_cons, List.length_nil, zeros, List.length_replicate, hx, hci, hyi, hch]) (by simp only [List.length_append, List.length_cons, List.length_nil, zeros, List.length_replicate, hx, hci, hyi, hch])
  have f108 : field (hdrW x ci yi ch ++ rest) 108 128 = zeros 128 :=
    field_at (pre := [2, 1, 6, 0] ++ x ++ [0, 0] ++ [0, 0] ++ ci ++ yi ++ zeros 8 ++ ch ++ zeros 10 ++ zeros 64) (post := [99, 130, 83, 99] ++ rest)
      (by rw [hdrW, show (192 : Nat) = 64 + 128 from rfl, zeros_add]; simp [List.append_assoc]) (by simp only [List.length_append, List.length_cons, List.length_nil, zeros, List.length_replicate, hx, hci, hyi, hch]) (by simp only [List.length_append, List.length_cons, List.length_nil, zeros, List.length_replicate, hx, hci, hyi, hch])
  have f236 : field (hdrW x ci yi ch ++ rest) 236 4 = magic :=
    field_at (pre := [2, 1, 6, 0] ++ x ++ [0, 0] ++ [0, 0] ++ ci ++ yi ++ zeros 8 ++ (ch ++ zeros 10) ++ zeros 192) (post := rest)
      (by simp [hdrW, magic, List.append_assoc]) (by simp only [List.length_append, List.length_cons, List.length_nil, zeros, List.length_replicate, hx, hci, hyi, hch]) rfl
  have hz8 : ∀ i, at_ (zeros 8) i = 0 := by
    intro i
    unfold at_ zeros
    by_cases hi : i < 8
    · rw [List.getElem?_replicate_of_lt hi]; rfl
    · rw [List.getElem?_eq_none (by simp; omega)]; rfl
  unfold fixed u16 u32
  rw [f4, f28, f34, f44, f108, f236]
  rw [at_of_field f0 0 0 (by decide) rfl, at_of_field f0 1 1 (by decide) rfl, at_of_field f0 2 2 (by decide) rfl,
    at_of_field f0 3 3 (by decide) rfl]
  rw [at_of_field f8 0 8 (by decide) rfl, at_of_field f8 1 (8 + 1) (by decide) rfl, at_of_field f8 2 10 (by decide) rfl,
    at_of_field f8 3 (10 + 1) (by decide) rfl]
  rw [at_of_field f12 0 12 (by omega) rfl, at_of_field f12 1 (12 + 1) (by omega) rfl, at_of_field f12 2 (12 + 2) (by omega) rfl,
    at_of_field f12 3 (12 + 3) (by omega) rfl]
  rw [at_of_field f16 0 16 (by omega) rfl, at_of_field f16 1 (16 + 1) (by omega) rfl, at_of_field f16 2 (16 + 2) (by omega) rfl,
    at_of_field f16 3 (16 + 3) (by omega) rfl]
  rw [at_of_field f20 0 20 (by simp only [zeros, List.length_replicate]; omega) rfl, at_of_field f20 1 (20 + 1) (by simp only [zeros, List.length_replicate]; omega) rfl,
    at_of_field f20 2 (20 + 2) (by simp only [zeros, List.length_replicate]; omega) rfl, at_of_field f20 3 (20 + 3) (by simp only [zeros, List.length_replicate]; omega) rfl,
    at_of_field f20 4 24 (by simp only [zeros, List.length_replicate]; omega) rfl, at_of_field f20 5 (24 + 1) (by simp only [zeros, List.length_replicate]; omega) rfl,
    at_of_field f20 6 (24 + 2) (by simp only [zeros, List.length_replicate]; omega) rfl, at_of_field f20 7 (24 + 3) (by simp only [zeros, List.length_replicate]; omega) rfl]
  simp only [hz8]
  rfl

/-! ### the bytes of a reply -/

theorem field_append_left (p s : Bytes) (k n : Nat) (h : k + n ≤ p.length) : ((p ++ s).drop k).take n = field p k n := by
  unfold field
  rw [List.drop_append_of_le_length (by omega), List.take_append_of_le_length (by rw [List.length_drop]; omega)]

/-- ciaddr of the reply header: written (zero) for a NAK, the request's bytes 12..15 otherwise -/
def ciW (p : Bytes) (r : Reply) : Bytes := if r.typ = .nak then ip4Bytes r.ciaddr else field p 12 4

/-- **the packet `EncodeDHCP4` returns for a reply, spelled out**: the header with the request's transaction id and
    hardware address, the option bytes, the end option, zero padding up to 300 bytes -/
theorem replyBytes_eq (p spare : Bytes) (prl : Option Bytes) (r : Reply) (tail : List UInt8) (placed : Bytes) (pos : Nat)
    (hp : 240 ≤ p.length) (hb : 300 ≤ (p ++ spare).length)
    (happ : appendOptions (p ++ spare).length (optSet (wireOpts r) 53 [mtOf r.typ]) (replyArgs r prl).order tail = .ok (placed, pos))
    (hpos : 240 + pos < (p ++ spare).length) :
    replyBytes p spare prl r tail =
      .ok (hdrW (field p 4 4) (ciW p r) (ip4Bytes r.yiaddr) (field p 28 6) ++ placed ++ [255]
            ++ zeros (300 - (hdrW (field p 4 4) (ciW p r) (ip4Bytes r.yiaddr) (field p 28 6) ++ placed ++ [255]).length)) := by
  unfold replyBytes encodeDHCP4
  rw [if_neg (by omega)]
  have happ' : appendOptions (p ++ spare).length (optSet (replyArgs r prl).opts 53 [(replyArgs r prl).mt]) (replyArgs r prl).order tail
      = .ok (placed, pos) := happ
  simp only []
  rw [happ']
  simp only [Outcome.bind_ok]
  rw [if_neg (by omega)]
  have e4 := field_append_left p spare 4 4 (by omega)
  have e12 := field_append_left p spare 12 4 (by omega)
  have e28 := field_append_left p spare 28 6 (by omega)
  unfold hdrW ciW
  by_cases hn : r.typ = .nak
  · simp only [replyArgs, hn, if_true, e4, e28, Bool.false_eq_true, if_false]
  · simp only [replyArgs, hn, if_false, e4, e12, e28, Bool.false_eq_true]

/-! ### the reference reads the option area `AppendOptions` wrote -/

open PV.Props.C03Dhcp (tlv flatten WF)

theorem at_append_cons (pre : Bytes) (v : UInt8) (post : Bytes) : at_ (pre ++ v :: post) pre.length = v.toNat := by
  unfold at_
  rw [List.getElem?_append_right (Nat.le_refl _)]
  simp

theorem byteAt_append_cons (pre : Bytes) (v : UInt8) (post : Bytes) : byteAt (pre ++ v :: post) pre.length = v := by
  unfold byteAt
  rw [List.getElem?_append_right (Nat.le_refl _)]
  simp

/-- the reference walk over well-formed options followed by the end option yields exactly the options written, in
    wire order, whatever precedes (`pre`: the header) and follows (`pad`) -/
theorem tlvsAt_flatten : ∀ (seq : List (UInt8 × Bytes)) (pre pad : Bytes) (fuel : Nat), (∀ e, e ∈ seq → WF e) →
    seq.length < fuel → tlvsAt (pre ++ flatten seq ++ 255 :: pad) fuel pre.length = some seq
  | [], pre, pad, fuel, _, hf => by
    cases fuel with
    | zero => omega
    | succ f =>
      unfold tlvsAt
      simp only [flatten, List.map_nil, List.flatten_nil, List.append_nil]
      split
      · rfl
      · rw [at_append_cons]
        rfl
  | e :: seq, pre, pad, fuel, hw, hf => by
    cases fuel with
    | zero => omega
    | succ f =>
      obtain ⟨h0, h255, hl⟩ := hw e (List.mem_cons_self ..)
      have hL : pre ++ flatten (e :: seq) ++ 255 :: pad
          = pre ++ e.1 :: (UInt8.ofNat e.2.length :: (e.2 ++ (flatten seq ++ 255 :: pad))) := by
        simp [flatten, tlv]
      have hL1 : pre ++ flatten (e :: seq) ++ 255 :: pad
          = (pre ++ [e.1]) ++ UInt8.ofNat e.2.length :: (e.2 ++ (flatten seq ++ 255 :: pad)) := by
        simp [flatten, tlv]
      have hL2 : pre ++ flatten (e :: seq) ++ 255 :: pad
          = (pre ++ [e.1, UInt8.ofNat e.2.length]) ++ e.2 ++ (flatten seq ++ 255 :: pad) := by
        simp [flatten, tlv]
      have hL3 : pre ++ flatten (e :: seq) ++ 255 :: pad = (pre ++ tlv e) ++ flatten seq ++ 255 :: pad := by
        simp [flatten, tlv]
      have hk : at_ (pre ++ flatten (e :: seq) ++ 255 :: pad) pre.length = e.1.toNat := by rw [hL, at_append_cons]
      have hb : byteAt (pre ++ flatten (e :: seq) ++ 255 :: pad) pre.length = e.1 := by rw [hL, byteAt_append_cons]
      have hsz : at_ (pre ++ flatten (e :: seq) ++ 255 :: pad) (pre.length + 1) = e.2.length := by
        have := at_append_cons (pre ++ [e.1]) (UInt8.ofNat e.2.length) (e.2 ++ (flatten seq ++ 255 :: pad))
        rw [← hL1] at this
        simp only [List.length_append, List.length_cons, List.length_nil] at this
        rw [this, UInt8.toNat_ofNat']
        omega
      have hv : field (pre ++ flatten (e :: seq) ++ 255 :: pad) (pre.length + 2) e.2.length = e.2 :=
        field_at hL2 (by simp) rfl
      have hlen : (pre ++ flatten (e :: seq) ++ 255 :: pad).length = pre.length + 2 + e.2.length + ((flatten seq).length + 1 + pad.length) := by
        rw [hL]
        simp only [List.length_append, List.length_cons]
        omega
      have hne255 : ¬ e.1.toNat = 255 := fun h => h255 (UInt8.toNat_inj.1 h)
      have hne0 : ¬ e.1.toNat = 0 := fun h => h0 (UInt8.toNat_inj.1 h)
      unfold tlvsAt
      rw [if_neg (by rw [hlen]; omega), hk, if_neg hne255, if_neg hne0, hsz, if_neg (by rw [hlen]; omega), hb, hv]
      have ih := tlvsAt_flatten seq (pre ++ tlv e) pad f (fun x hx => hw x (List.mem_cons_of_mem _ hx)) (by simp at hf; omega)
      rw [← hL3] at ih
      have hpl : (pre ++ tlv e).length = pre.length + 2 + e.2.length := by simp [tlv]; omega
      rw [hpl] at ih
      rw [ih]
      rfl

/-! ### encodable replies -/

/-- a reply the encoder can write and the reference can read back: option codes 1..254, values of at most 255 bytes,
    each code once, and the message type option agrees with the reply type -/
structure ReplyWF (r : Reply) : Prop where
  codes : ∀ e, e ∈ r.opts → 0 < e.1 ∧ e.1 < 255 ∧ e.2.length ≤ 255
  nodup : (r.opts.map (·.1)).Nodup
  mtype : r.opts.lookup 53 = some [mtOf r.typ]

theorem ofNat_eq_iff {k : Nat} (hk : k < 256) (c : UInt8) : UInt8.ofNat k = c ↔ c.toNat = k := by
  constructor
  · intro h; rw [← h, UInt8.toNat_ofNat']; omega
  · intro h; apply UInt8.toNat_inj.1; rw [UInt8.toNat_ofNat', h]; omega

theorem optGet_wire (l : List (Nat × Bytes)) (h : ∀ e, e ∈ l → e.1 < 256) (c : UInt8) :
    optGet (l.map (fun e => (UInt8.ofNat e.1, e.2))) c = l.lookup c.toNat := by
  induction l with
  | nil => rfl
  | cons e l ih =>
    obtain ⟨k, v⟩ := e
    have hk : k < 256 := h (k, v) (List.mem_cons_self ..)
    rw [List.map_cons, PV.Lemmas.Dhcp4OptPerm.optGet_cons, List.lookup_cons,
      ih (fun x hx => h x (List.mem_cons_of_mem _ hx))]
    by_cases hc : c.toNat = k
    · rw [if_pos ((ofNat_eq_iff hk c).2 hc)]
      simp [hc]
    · rw [if_neg (fun e => hc ((ofNat_eq_iff hk c).1 e))]
      have : (c.toNat == k) = false := by simpa using hc
      simp [this]

theorem wire_keys_nodup (l : List (Nat × Bytes)) (h : ∀ e, e ∈ l → e.1 < 256) (hn : (l.map (·.1)).Nodup) :
    ((l.map (fun e => (UInt8.ofNat e.1, e.2))).map (·.1)).Nodup := by
  induction l with
  | nil => simp
  | cons e l ih =>
    simp only [List.map_cons, List.nodup_cons] at hn ⊢
    refine ⟨?_, ih (fun x hx => h x (List.mem_cons_of_mem _ hx)) hn.2⟩
    intro hm
    obtain ⟨x, hx, e1⟩ := List.mem_map.1 hm
    obtain ⟨y, hy, e2⟩ := List.mem_map.1 hx
    subst e2
    have hy' := h y (List.mem_cons_of_mem _ hy)
    have he' := h e (List.mem_cons_self ..)
    have : y.1 = e.1 := by
      have := (ofNat_eq_iff hy' (UInt8.ofNat e.1)).1 e1
      rw [UInt8.toNat_ofNat'] at this
      omega
    exact hn.1 (List.mem_map.2 ⟨y, hy, this⟩)

theorem wireOpts_nodup {r : Reply} (h : ReplyWF r) : ((wireOpts r).map (·.1)).Nodup :=
  wire_keys_nodup r.opts (fun e he => by have := h.codes e he; omega) h.nodup

theorem wireOpts_wf {r : Reply} (h : ReplyWF r) : ∀ e, e ∈ wireOpts r → WF e := by
  intro e he
  obtain ⟨x, hx, rfl⟩ := List.mem_map.1 he
  obtain ⟨h0, h255, hl⟩ := h.codes x hx
  refine ⟨?_, ?_, hl⟩
  · intro e0
    have := (ofNat_eq_iff (by omega : x.1 < 256) 0).1 e0
    simp at this
    omega
  · intro e0
    have := (ofNat_eq_iff (by omega : x.1 < 256) 255).1 e0
    simp at this
    omega

theorem optGet_wireOpts {r : Reply} (h : ReplyWF r) (c : UInt8) : optGet (wireOpts r) c = r.opts.lookup c.toNat :=
  optGet_wire r.opts (fun e he => by have := h.codes e he; omega) c

/-- the encoder's own message type option changes nothing: the reply map already holds it -/
theorem optSet53_perm {r : Reply} (h : ReplyWF r) : (optSet (wireOpts r) 53 [mtOf r.typ]).Perm (wireOpts r) := by
  apply PV.Lemmas.Dhcp4OptPerm.perm_of_optGet (PV.Lemmas.Dhcp4OptPerm.nodup_optSet (wireOpts_nodup h) _ _) (wireOpts_nodup h)
  intro c
  rw [optGet_optSet]
  by_cases hc : c = 53
  · subst hc
    rw [if_pos rfl, optGet_wireOpts h]
    exact h.mtype.symm
  · rw [if_neg hc]

theorem flatten_wireOpts (r : Reply) : (flatten (wireOpts r)).length = optsLen r.opts := by
  rw [PV.Props.C03Dhcp.flatten_length]
  unfold wireOpts optsLen
  rw [List.map_map]
  rfl

theorem length_le_flatten (s : List (UInt8 × Bytes)) : s.length ≤ (flatten s).length := by
  induction s with
  | nil => simp
  | cons e s ih => simp [flatten, tlv] at ih ⊢; omega

theorem lastOf_eq_optGet (l : List (UInt8 × Bytes)) (c : UInt8) : lastOf l c = optGet l.reverse c := rfl

/-- the header the reference must find in the reply to request `p` -/
def replyFixed (p : Bytes) (r : Reply) : Fixed :=
  { op := 2, htype := 1, hlen := 6, hops := 0, xid := field p 4 4, secs := 0, flags := 0,
    ciaddr := be4of (ciW p r), yiaddr := be4of (ip4Bytes r.yiaddr), siaddr := 0, giaddr := 0,
    chaddr := field p 28 6, chpad := zeros 10, sname := zeros 64, file := zeros 128, cookie := magic }

/-- **encode, then read with the reference**: for an encodable reply that fits the buffer, `EncodeDHCP4` over the
    request returns a packet of 300 bytes or more inside the buffer, the reference reads it, finds the header
    `replyFixed`, the options exactly in the order `AppendOptions` emits them, each once, and every option has the
    value the abstract reply records -/
theorem reply_wire (p spare : Bytes) (prl : Option Bytes) (r : Reply) (tail : List UInt8) (hwf : ReplyWF r)
    (hp : 240 ≤ p.length) (hcap : 300 ≤ (p ++ spare).length) (hroom : 240 + optsLen r.opts < (p ++ spare).length)
    (hsz : optsLen r.opts ≤ 1024) (ht : tail.Nodup)
    (hc : ∀ e, e ∈ (orderedPhase (fullOrder (replyArgs r prl).order) (optSet (wireOpts r) 53 [mtOf r.typ])).2 → e.1 ∈ tail) :
    ∃ bytes w, replyBytes p spare prl r tail = .ok bytes ∧ 300 ≤ bytes.length ∧ bytes.length ≤ (p ++ spare).length ∧
      Dhcp4Wire.read bytes = some w ∧ w.fx = replyFixed p r ∧
      w.opts = emitSeq (optSet (wireOpts r) 53 [mtOf r.typ]) (replyArgs r prl).order tail ∧
      w.opts.Perm (wireOpts r) ∧ (∀ c, w.opt c = r.opts.lookup c.toNat) := by
  have hnM := PV.Lemmas.Dhcp4OptPerm.nodup_optSet (wireOpts_nodup hwf) 53 [mtOf r.typ]
  have hperm := PV.Props.C03Dhcp.emitSeq_perm _ (replyArgs r prl).order tail hnM ht hc
  have hpermW := hperm.trans (optSet53_perm hwf)
  have hl : (flatten (emitSeq (optSet (wireOpts r) 53 [mtOf r.typ]) (replyArgs r prl).order tail)).length = optsLen r.opts := by
    rw [PV.Props.C03Dhcp.flatten_length_perm hpermW, flatten_wireOpts]
  have happ := PV.Props.C03Dhcp.appendOptions_ok (p ++ spare).length _ (replyArgs r prl).order tail (by omega)
    (by rw [hl]; exact hsz) (by rw [hl]; omega)
  have hb := replyBytes_eq p spare prl r tail _ _ hp hcap happ (by rw [hl]; exact hroom)
  have hx : (field p 4 4).length = 4 := PV.Lemmas.field_length p 4 4 (by omega)
  have hch : (field p 28 6).length = 6 := PV.Lemmas.field_length p 28 6 (by omega)
  have hyi : (ip4Bytes r.yiaddr).length = 4 := rfl
  have hci : (ciW p r).length = 4 := by
    unfold ciW
    split
    · rfl
    · exact PV.Lemmas.field_length p 12 4 (by omega)
  have hH := hdrW_length (field p 4 4) (ciW p r) (ip4Bytes r.yiaddr) (field p 28 6) hx hci hyi hch
  generalize hseq : emitSeq (optSet (wireOpts r) 53 [mtOf r.typ]) (replyArgs r prl).order tail = seq at *
  generalize hHd : hdrW (field p 4 4) (ciW p r) (ip4Bytes r.yiaddr) (field p 28 6) = H at *
  have hblen : (H ++ flatten seq ++ [255]).length = 240 + optsLen r.opts + 1 := by
    simp only [List.length_append, hH, hl, List.length_cons, List.length_nil]
  rw [hblen] at hb
  generalize hk : 300 - (240 + optsLen r.opts + 1) = k at *
  have hre : H ++ flatten seq ++ [255] ++ zeros k = H ++ flatten seq ++ 255 :: zeros k := by simp
  rw [hre] at hb
  have htot : (H ++ flatten seq ++ 255 :: zeros k).length = 240 + optsLen r.opts + 1 + k := by
    simp only [List.length_append, hH, hl, List.length_cons, zeros, List.length_replicate]
    omega
  have hwfs : ∀ e, e ∈ seq → WF e := fun e he => wireOpts_wf hwf e (hpermW.mem_iff.1 he)
  have hopts : options (H ++ flatten seq ++ 255 :: zeros k) = some seq := by
    unfold options
    rw [← hH]
    apply tlvsAt_flatten seq H (zeros k) _ hwfs
    rw [htot, hH]
    have := length_le_flatten seq
    omega
  have hrev : seq.reverse.Perm (wireOpts r) := (List.reverse_perm _).trans hpermW
  have hnrev : ((seq.reverse).map (·.1)).Nodup := (hrev.map _).nodup_iff.2 (wireOpts_nodup hwf)
  refine ⟨_, ⟨fixed (H ++ flatten seq ++ 255 :: zeros k), seq⟩, hb, by rw [htot]; omega, by rw [htot]; omega, ?_, ?_, rfl, hpermW, ?_⟩
  · unfold Dhcp4Wire.read
    rw [if_neg (by rw [htot]; omega), hopts]
  · show fixed (H ++ flatten seq ++ 255 :: zeros k) = replyFixed p r
    rw [List.append_assoc, ← hHd, fixed_hdrW _ _ _ _ _ hx hci hyi hch]
    rfl
  · intro c
    show lastOf seq c = _
    rw [lastOf_eq_optGet, PV.Lemmas.Dhcp4OptPerm.optGet_perm hrev hnrev c, optGet_wireOpts hwf]

/-! ### the replies of the server handlers are encodable -/

theorem mkReply_wf (cfg : Dhcp4Srv.Cfg) (m : Msg) (t : RType) (l : Lease) (a : Option IP) (ht : t ≠ .nak) :
    ReplyWF (mkReply cfg m t l a) ∧ optsLen (mkReply cfg m t l a).opts ≤ 53 := by
  refine ⟨⟨?_, ?_, ?_⟩, ?_⟩
  · intro e he
    unfold mkReply replyOpts at he
    cases hs : l.sub <;> rw [hs] at he <;> simp only [List.append_nil, List.cons_append, List.nil_append, List.mem_cons, List.not_mem_nil, or_false] at he <;>
      rcases he with rfl | rfl | rfl | rfl | rfl | rfl | rfl | rfl | rfl <;> simp [maskBytes, ip4Bytes] <;>
      rcases he with rfl | rfl | rfl | rfl | rfl | rfl <;> simp [maskBytes, ip4Bytes]
  · unfold mkReply replyOpts
    cases l.sub <;> simp
  · unfold mkReply replyOpts
    cases l.sub <;> cases t <;> first | exact absurd rfl ht | simp [List.lookup, mtOf]
  · unfold mkReply replyOpts optsLen
    cases l.sub <;> simp [maskBytes, ip4Bytes]

theorem nakReply_wf (m : Msg) (srv : IP) (c : Cid) (hc : c.length ≤ 255) :
    ReplyWF (nakReply m srv c) ∧ optsLen (nakReply m srv c).opts ≤ 266 := by
  refine ⟨⟨?_, by simp [nakReply], by simp [nakReply, mtOf]⟩, ?_⟩
  · intro e he
    simp only [nakReply, List.mem_cons, List.not_mem_nil, or_false] at he
    rcases he with rfl | rfl | rfl <;> simp [ip4Bytes, hc]
  · simp [nakReply, optsLen, ip4Bytes]
    omega

/-- every reply of a message handler: an encodable OFFER / ACK built by `mkReply`, or a NAK built by `nakPacket`,
    echoing the request's transaction id and hardware address -/
theorem handleMsg_reply {cfg : Dhcp4Srv.Cfg} {s : State} {op : Op} {m : Msg} (hm : Props.C11.msgOf op = some m) {r : Reply}
    (hr : r ∈ (handleMsg cfg s op).2) :
    r.xid = m.xid ∧ r.chaddr = m.chaddr ∧
      ((r.typ ≠ .nak ∧ r.ciaddr = m.ciaddr ∧ ∃ l a, r = mkReply cfg m r.typ l a)
        ∨ (r.typ = .nak ∧ r.ciaddr = 0 ∧ r.yiaddr = 0 ∧ ∃ srv, r = nakReply m srv (clientId m))) := by
  cases op with
  | discover now m' =>
    simp only [Props.C11.msgOf, Option.some.injEq] at hm; subst hm
    simp only [handleMsg] at hr
    rcases PV.Lemmas.Dhcp4Srv.discover_outcome cfg s now m' with ⟨cur, e⟩ | ⟨s1, ip, _, _, _, e, _⟩ <;> rw [e] at hr
    · cases hr
    · simp only [List.mem_singleton] at hr
      subst hr
      exact ⟨rfl, rfl, Or.inl ⟨by simp [mkReply], rfl, _, _, rfl⟩⟩
  | request now m' =>
    simp only [Props.C11.msgOf, Option.some.injEq] at hm; subst hm
    simp only [handleMsg] at hr
    rcases Props.C12.request_replies cfg s now m' with e | ⟨srv, e⟩ | ⟨_, _, e⟩ <;> rw [e] at hr
    · cases hr
    · simp only [List.mem_singleton] at hr
      subst hr
      exact ⟨rfl, rfl, Or.inr ⟨rfl, rfl, rfl, srv, rfl⟩⟩
    · rw [PV.Lemmas.Dhcp4Srv.ackLease_eq] at hr
      simp only [List.mem_singleton] at hr
      subst hr
      exact ⟨rfl, rfl, Or.inl ⟨by simp [mkReply], rfl, _, _, rfl⟩⟩
  | decline m' =>
    simp only [handleMsg] at hr
    rcases PV.Lemmas.Dhcp4Srv.decline_outcome cfg s m' with e | e <;> rw [e] at hr <;> cases hr
  | release m' =>
    simp only [handleMsg, release] at hr
    cases hr
  | minuteTick _ => cases hm
  | capture _ => cases hm
  | releaseCapture _ => cases hm
  | hostSeen _ _ => cases hm
  | hostGone _ => cases hm

/-- the client identifier of a message read off a payload is at most 255 bytes long (option 61 as parsed, or the
    six bytes of the hardware address) -/
theorem clientId_msgRef_len (rx : Rx) (p : Bytes) (o : Opts) (hp : 240 ≤ p.length) (ho : parseOptions p = .ok o) :
    (clientId (msgRef rx p o)).length ≤ 255 := by
  have h6 : (field p 28 6).length = 6 := PV.Lemmas.field_length p 28 6 (by omega)
  unfold clientId msgRef
  simp only []
  cases hc : optGet o 61 with
  | none => simp only []; omega
  | some c =>
    simp only []
    split
    · omega
    · exact (PV.Props.C03Dhcp.roundtrip_needs_wf p o o ho (List.Perm.refl _) _ (PV.Lemmas.Dhcp4OptPerm.optGet_mem hc)).2.2

/-! ### from `processRaw` to the message read off the bytes -/

theorem decode_msgRef {now : Nat} {rx : Rx} {p : Bytes} {op : Op} (h : Dhcp4Frame.decode now rx p = .ok (some op)) :
    240 ≤ p.length ∧ ∃ o, parseOptions p = .ok o ∧ Props.C11.msgOf op = some (msgRef rx p o) := by
  obtain ⟨hv, _, o, t, m, ho, _, hm, hc⟩ := PV.Lemmas.ComposeDhcp.classify_server (PV.Lemmas.ComposeDhcp.decode_some h)
  have hl := PV.Lemmas.dhcpValid_len p hv
  rw [msgOf_ref rx p o hl] at hm
  cases hm
  refine ⟨hl, o, ho, ?_⟩
  rcases hc with ⟨_, e⟩ | ⟨_, e⟩ | ⟨_, e⟩ | ⟨_, e⟩ <;> rw [e] <;> rfl

theorem be4of_ip4Bytes (n : Nat) : be4of (ip4Bytes n) = n % 4294967296 := PV.Lemmas.Dhcp4Srv.be32_ip4Bytes n

theorem be4of_field (p : Bytes) (k : Nat) : be4of (field p k 4) = u32 p k := by
  unfold be4of u32
  by_cases h : k + 4 ≤ p.length
  · have hl := PV.Lemmas.field_length p k 4 h
    rw [← at_of_field (L := p) (k := k) (n := 4) rfl 0 k (by omega) rfl,
      ← at_of_field (L := p) (k := k) (n := 4) rfl 1 (k + 1) (by omega) rfl,
      ← at_of_field (L := p) (k := k) (n := 4) rfl 2 (k + 2) (by omega) rfl,
      ← at_of_field (L := p) (k := k) (n := 4) rfl 3 (k + 3) (by omega) rfl]
  · -- not needed below (the payload has 240 bytes); both sides read the same bytes anyway
    have e : ∀ i, at_ (field p k 4) i = if i < 4 then at_ p (k + i) else 0 := by
      intro i
      unfold at_ field
      by_cases hi : i < 4
      · rw [if_pos hi, List.getElem?_take_of_lt hi, List.getElem?_drop]
      · rw [if_neg hi, List.getElem?_eq_none (by rw [List.length_take]; omega)]
        rfl
    rw [e 0, e 1, e 2, e 3]
    simp

end PV.Lemmas.Dhcp4Wire
