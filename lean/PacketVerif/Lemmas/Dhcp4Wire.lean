/-
  Lemmas for Props/ComposeDhcpWire.lean:
  * the reference option walk (`Spec.Dhcp4Wire.tlvsAt`, absolute offsets, a sequence) against the two loops of the
    model (`Model.dhcpValidateOpts`, `Model.Dhcp4Opt.parseLoop`: re-slicing, a map);
  * the fixed header `EncodeDHCP4` writes, field by field, under the reference reading;
  * the shape of the replies of the server handlers (`mkReply` / `nakReply`) and their encodability.
-/
import PacketVerif.Model.Dhcp4ReplyBytes
import PacketVerif.Spec.Dhcp4Wire
import PacketVerif.Lemmas.ComposeDhcp
import PacketVerif.Props.C12
namespace PV.Lemmas.Dhcp4Wire
open PV PV.Model PV.Model.Dhcp4Srv PV.Model.Dhcp4Opt PV.Model.Dhcp4Frame PV.Spec PV.Spec.Dhcp4Wire
open PV.Lemmas.Dhcp4OptPerm (optGet_optSet)

/-! ### the option walk -/

theorem byteAt_eq (p : Bytes) (k : Nat) (h : k < p.length) : byteAt p k = p[k]'h := by
  unfold byteAt; rw [List.getElem?_eq_getElem h]; rfl

theorem at_byteAt (p : Bytes) (k : Nat) : at_ p k = (byteAt p k).toNat := rfl

theorem drop_two (p : Bytes) (k : Nat) (h : k + 2 ≤ p.length) :
    p.drop k = byteAt p k :: byteAt p (k + 1) :: p.drop (k + 2) := by
  rw [List.drop_eq_getElem_cons (by omega : k < p.length), List.drop_eq_getElem_cons (by omega : k + 1 < p.length),
    byteAt_eq p k (by omega), byteAt_eq p (k + 1) (by omega)]

theorem byteAt_ne {p : Bytes} {k : Nat} {n : Nat} (hn : n < 256) (h : ¬ at_ p k = n) : (byteAt p k == UInt8.ofNat n) = false := by
  rw [at_byteAt] at h
  apply Bool.eq_false_iff.2
  intro e
  apply h
  have := eq_of_beq e
  rw [this, UInt8.toNat_ofNat']
  omega

theorem byteAt_eq_of {p : Bytes} {k : Nat} {n : Nat} (hn : n < 256) (h : at_ p k = n) : byteAt p k = UInt8.ofNat n := by
  rw [at_byteAt] at h
  apply UInt8.toNat_inj.1
  rw [h, UInt8.toNat_ofNat']
  omega

/-- the reference walk and the validation loop of `IsValid` agree: unreadable = `ErrParseFrame` -/
theorem tlvsAt_validate (p : Bytes) : ∀ (fuel k : Nat), k ≤ p.length →
    (tlvsAt p fuel k = none → dhcpValidateOpts fuel (p.drop k) = .err .parseFrame)
    ∧ (∀ l, tlvsAt p fuel k = some l → dhcpValidateOpts fuel (p.drop k) = .ok ())
  | 0, k, _ => by
    refine ⟨fun h => ?_, fun _ _ => rfl⟩
    simp [tlvsAt] at h
  | fuel + 1, k, hk => by
    unfold tlvsAt
    by_cases h2 : p.length < k + 2
    · rw [if_pos h2]
      refine ⟨fun h => (by cases h), fun _ _ => ?_⟩
      unfold dhcpValidateOpts
      have hl : (p.drop k).length < 2 := by rw [List.length_drop]; omega
      match hd : p.drop k with
      | [] => rfl
      | [_] => rfl
      | a :: b :: r => rw [hd] at hl; simp at hl; omega
    · rw [if_neg h2, drop_two p k (by omega)]
      unfold dhcpValidateOpts
      simp only []
      by_cases h255 : at_ p k = 255
      · rw [if_pos h255, byteAt_eq_of (by omega) h255]
        exact ⟨fun h => (by cases h), fun _ _ => rfl⟩
      · rw [if_neg h255]
        have e255 : (byteAt p k == 255) = false := byteAt_ne (n := 255) (by omega) h255
        rw [e255]
        by_cases h0 : at_ p k = 0
        · rw [if_pos h0, byteAt_eq_of (by omega) h0]
          have := tlvsAt_validate p fuel (k + 1) (by omega)
          rw [List.drop_eq_getElem_cons (by omega : k + 1 < p.length), ← byteAt_eq p (k + 1) (by omega)] at this
          simpa using this
        · rw [if_neg h0]
          have e0 : (byteAt p k == 0) = false := byteAt_ne (n := 0) (by omega) h0
          rw [e0]
          simp only [Bool.false_eq_true, if_false, List.length_cons, List.length_drop]
          by_cases ht : p.length < k + 2 + at_ p (k + 1)
          · rw [if_pos ht, if_pos (by rw [← at_byteAt]; omega)]
            exact ⟨fun _ => rfl, fun _ h => (by cases h)⟩
          · rw [if_neg ht, if_neg (by rw [← at_byteAt]; omega)]
            have := tlvsAt_validate p fuel (k + 2 + at_ p (k + 1)) (by omega)
            rw [List.drop_drop, ← at_byteAt, show k + 2 + at_ p (k + 1) = k + 2 + at_ p (k + 1) from rfl]
            constructor
            · intro h
              apply this.1
              cases ht' : tlvsAt p fuel (k + 2 + at_ p (k + 1)) with
              | none => rfl
              | some l => rw [ht'] at h; cases h
            · intro l h
              cases ht' : tlvsAt p fuel (k + 2 + at_ p (k + 1)) with
              | none => rw [ht'] at h; cases h
              | some l' => exact this.2 l' ht'

/-- the reference walk and `ParseOptions` agree: the map is the sequence folded with "the last occurrence wins" -/
theorem tlvsAt_parse (p : Bytes) : ∀ (fuel k g : Nat) (acc : Opts) (l : List (UInt8 × Bytes)), k ≤ p.length →
    p.length - k ≤ fuel → p.length - k < g → tlvsAt p fuel k = some l →
    parseLoop g (p.drop k) acc = .ok (l.foldl (fun a e => optSet a e.1 e.2) acc)
  | 0, k, g, acc, l, hk, hf, hg, h => by
    simp only [tlvsAt, Option.some.injEq] at h
    subst h
    have : p.drop k = [] := List.drop_eq_nil_of_le (by omega)
    rw [this]
    cases g with
    | zero => omega
    | succ g => simp [parseLoop]
  | fuel + 1, k, g, acc, l, hk, hf, hg, h => by
    cases g with
    | zero => omega
    | succ g =>
      unfold tlvsAt at h
      unfold parseLoop
      have hlen : (p.drop k).length = p.length - k := List.length_drop
      by_cases h2 : p.length < k + 2
      · rw [if_pos h2] at h
        simp only [Option.some.injEq] at h
        subst h
        rw [if_pos (by omega)]
        rfl
      · rw [if_neg h2] at h
        rw [if_neg (by omega), Props.C03Dhcp.idx_ok (by omega)]
        simp only [Outcome.bind_ok]
        have e0 : (p.drop k)[0]'(by omega) = byteAt p k := by
          rw [List.getElem_drop, byteAt_eq p k (by omega)]; rfl
        have e1 : (p.drop k)[1]'(by omega) = byteAt p (k + 1) := by
          rw [List.getElem_drop, byteAt_eq p (k + 1) (by omega)]
        rw [e0]
        by_cases h255 : at_ p k = 255
        · rw [if_pos h255] at h
          simp only [Option.some.injEq] at h
          subst h
          rw [byteAt_eq_of (by omega) h255]
          rfl
        · rw [if_neg h255] at h
          have e255 : (byteAt p k == 255) = false := byteAt_ne (n := 255) (by omega) h255
          rw [e255]
          simp only [Bool.false_eq_true, if_false]
          by_cases h0 : at_ p k = 0
          · rw [if_pos h0] at h
            rw [byteAt_eq_of (by omega) h0]
            simp only [show ((UInt8.ofNat 0 == 0) = true) from rfl, if_true]
            rw [Props.C03Dhcp.sliceFrom_ok (by omega)]
            simp only [Outcome.bind_ok, List.drop_drop]
            exact tlvsAt_parse p fuel (k + 1) g acc l (by omega) (by omega) (by omega) h
          · rw [if_neg h0] at h
            have e0' : (byteAt p k == 0) = false := byteAt_ne (n := 0) (by omega) h0
            rw [e0']
            simp only [Bool.false_eq_true, if_false]
            rw [Props.C03Dhcp.idx_ok (by omega)]
            simp only [Outcome.bind_ok]
            rw [e1, ← at_byteAt]
            by_cases ht : p.length < k + 2 + at_ p (k + 1)
            · rw [if_pos ht] at h; cases h
            · rw [if_neg ht] at h
              rw [if_neg (by omega), Props.C03Dhcp.slice_ok (by omega) (by omega), Props.C03Dhcp.sliceFrom_ok (by omega)]
              simp only [Outcome.bind_ok, List.drop_drop]
              cases ht' : tlvsAt p fuel (k + 2 + at_ p (k + 1)) with
              | none => rw [ht'] at h; cases h
              | some l' =>
                rw [ht'] at h
                simp only [Option.map_some, Option.some.injEq] at h
                subst h
                have hv : ((p.drop k).take (2 + at_ p (k + 1))).drop 2 = field p (k + 2) (at_ p (k + 1)) := by
                  unfold field
                  rw [List.drop_take, List.drop_drop]
                  congr 1
                  omega
                rw [hv, List.foldl_cons]
                have := tlvsAt_parse p fuel (k + 2 + at_ p (k + 1)) g (optSet acc (byteAt p k) (field p (k + 2) (at_ p (k + 1)))) l'
                  (by omega) (by omega) (by omega) ht'
                rw [show k + (2 + at_ p (k + 1)) = k + 2 + at_ p (k + 1) by omega]
                exact this

/-- lookup in the folded map = last occurrence in the sequence -/
theorem optGet_foldl (l : List (UInt8 × Bytes)) : ∀ (acc : Opts) (c : UInt8),
    optGet (l.foldl (fun a e => optSet a e.1 e.2) acc) c = (lastOf l c).or (optGet acc c) := by
  induction l with
  | nil => intro acc c; simp [lastOf]
  | cons e l ih =>
    intro acc c
    rw [List.foldl_cons, ih, optGet_optSet]
    unfold lastOf
    rw [List.reverse_cons, List.find?_append]
    cases hf : l.reverse.find? (fun x => x.1 == c) with
    | some v => simp
    | none =>
      by_cases hc : c = e.1
      · subst hc; simp
      · have : (e.1 == c) = false := by simpa using fun h => hc h.symm
        simp [this, hc]

/-! ### `IsValid` / `ParseOptions` / `msgOf` under the reference reading -/

/-- **`DHCP4.IsValid` accepts exactly the payloads the reference can read** that have op 1 or 2 and hlen 6 and at
    least two bytes of options -/
theorem dhcpValid_iff (p : Bytes) :
    dhcpValid p = .ok () ↔ 242 ≤ p.length ∧ (at_ p 0 = 1 ∨ at_ p 0 = 2) ∧ at_ p 2 = 6 ∧ ∃ l, options p = some l := by
  unfold dhcpValid options
  by_cases h : p.length < 240
  · rw [if_pos h]
    constructor
    · intro h'; cases h'
    · intro ⟨h', _⟩; omega
  · rw [if_neg h, PV.Lemmas.byteN_at p 0 (by omega), PV.Lemmas.byteN_at p 2 (by omega)]
    simp only [Outcome.bind_ok, List.length_drop]
    have hv := tlvsAt_validate p (p.length - 240) 240 (by omega)
    by_cases hop : at_ p 0 = 1 ∨ at_ p 0 = 2
    · have h1 : ¬ ((at_ p 0 != 1) = true ∧ (at_ p 0 != 2) = true) := by
        intro ⟨a, b⟩
        rcases hop with e | e <;> simp [e] at a b
      rw [if_neg h1]
      by_cases hl : at_ p 2 = 6
      · have h2 : ¬ (at_ p 2 != 6) = true := by simp [hl]
        rw [if_neg h2]
        by_cases h242 : p.length - 240 < 2
        · rw [if_pos h242]
          constructor
          · intro h'; cases h'
          · intro ⟨h', _⟩; omega
        · rw [if_neg h242]
          cases ht : tlvsAt p (p.length - 240) 240 with
          | none =>
            rw [hv.1 ht]
            constructor
            · intro h'; cases h'
            · intro ⟨_, _, _, l, hl'⟩; cases hl'
          | some l =>
            rw [hv.2 l ht]
            exact ⟨fun _ => ⟨by omega, hop, hl, l, rfl⟩, fun _ => rfl⟩
      · have h2 : (at_ p 2 != 6) = true := by simpa using hl
        rw [if_pos h2]
        constructor
        · intro h'; cases h'
        · intro ⟨_, _, h', _⟩; exact absurd h' hl
    · have h1 : (at_ p 0 != 1) = true ∧ (at_ p 0 != 2) = true := by
        constructor <;> simp only [bne_iff_ne, ne_eq] <;> intro e <;> exact hop (by simp [e])
      rw [if_pos h1]
      constructor
      · intro h'; cases h'
      · intro ⟨_, h', _⟩; exact absurd h' hop

/-- **`ParseOptions` is the reference's option sequence, folded** -/
theorem parseOptions_ref {p : Bytes} {l : List (UInt8 × Bytes)} (hl : 240 ≤ p.length) (h : options p = some l) :
    parseOptions p = .ok (l.foldl (fun a e => optSet a e.1 e.2) []) := by
  unfold parseOptions optionsOf
  have : (if p.length > 240 then p.drop 240 else []) = p.drop 240 := by
    split
    · rfl
    · exact (List.drop_eq_nil_of_le (by omega)).symm
  simp only [this]
  have hg : p.length - 240 < (p.drop 240).length + 1 := by rw [List.length_drop]; omega
  exact tlvsAt_parse p (p.length - 240) 240 ((p.drop 240).length + 1) [] l hl (Nat.le_refl _) hg h

theorem optGet_ref {p : Bytes} {l : List (UInt8 × Bytes)} {o : Opts} (hl : 240 ≤ p.length) (h : options p = some l)
    (ho : parseOptions p = .ok o) (c : UInt8) : optGet o c = lastOf l c := by
  rw [parseOptions_ref hl h] at ho
  cases ho
  rw [optGet_foldl]
  simp [PV.Lemmas.Dhcp4OptPerm.optGet_nil]

theorem idx_byteAt (p : Bytes) (k : Nat) (h : k < p.length) : idx p k = .ok (byteAt p k) := by
  rw [PV.Lemmas.idx_ok' p k h, byteAt_eq p k h]

/-- the message the handlers are given, field by field in the reference's vocabulary -/
def msgRef (rx : Rx) (p : Bytes) (o : Opts) : Msg :=
  { chaddr := field p 28 6, cidOpt := optGet o 61, reqOpt := optGet o 50, srvOpt := optGet o 54, xid := field p 4 4,
    ciaddr := u32 p 12, yiaddr := u32 p 16, srcIP := rx.srcIP, bflag := u16 p 10 / 32768 == 1 }

theorem msgOf_ref (rx : Rx) (p : Bytes) (o : Opts) (h : 240 ≤ p.length) : msgOf rx p o = .ok (msgRef rx p o) := by
  unfold msgOf
  rw [PV.Lemmas.slice_field p 28 34 (by omega) (by omega), PV.Lemmas.slice_field p 4 8 (by omega) (by omega)]
  rw [idx_byteAt p 12 (by omega), idx_byteAt p 13 (by omega), idx_byteAt p 14 (by omega), idx_byteAt p 15 (by omega),
    idx_byteAt p 16 (by omega), idx_byteAt p 17 (by omega), idx_byteAt p 18 (by omega), idx_byteAt p 19 (by omega),
    idx_byteAt p 10 (by omega)]
  simp only [Outcome.bind_ok, Outcome.pure_eq]
  unfold msgRef
  congr 2
  have h1 : u16 p 10 / 32768 = (byteAt p 10).toNat / 128 := by
    unfold u16
    rw [at_byteAt, at_byteAt]
    have := UInt8.toNat_lt (byteAt p (10 + 1))
    omega
  rw [h1]

/-! ### which payloads are served: the reference reading of a request -/

/-- the message of the server machine that the reference's reading of a request stands for -/
def refMsg (rx : Rx) (cm : ClientMsg) : Msg :=
  { chaddr := cm.chaddr, cidOpt := cm.clientId, reqOpt := cm.requested, srvOpt := cm.serverId, xid := cm.xid,
    ciaddr := cm.ciaddr, yiaddr := cm.yiaddr, srcIP := rx.srcIP, bflag := cm.broadcast }

/-- … and the operation: DISCOVER (1), REQUEST (3), DECLINE (4), RELEASE (7) -/
def refOp (now : Nat) (rx : Rx) (cm : ClientMsg) : Op :=
  if cm.mtype = 1 then .discover now (refMsg rx cm)
  else if cm.mtype = 3 then .request now (refMsg rx cm)
  else if cm.mtype = 4 then .decline (refMsg rx cm)
  else .release (refMsg rx cm)

/-- the reference's reading of `p`, spelled out -/
def cmOf (p : Bytes) (l : List (UInt8 × Bytes)) (t : UInt8) : ClientMsg :=
  { mtype := t, xid := field p 4 4, chaddr := field p 28 6, ciaddr := u32 p 12, yiaddr := u32 p 16,
    broadcast := u16 p 10 / 32768 == 1, clientId := lastOf l 61, requested := lastOf l 50, serverId := lastOf l 54,
    params := lastOf l 55 }

theorem readClient_eq {p : Bytes} {l : List (UInt8 × Bytes)} (hlen : 240 ≤ p.length) (hopts : options p = some l)
    (hop : at_ p 0 = 1 ∨ at_ p 0 = 2) (h6 : at_ p 2 = 6) (t : UInt8) (h53 : lastOf l 53 = some [t])
    (ht : t = 1 ∨ t = 3 ∨ t = 4 ∨ t = 7) : readClient p = some (cmOf p l t) := by
  unfold readClient Dhcp4Wire.read
  rw [if_neg (by omega), hopts]
  simp [fixed, Wire.opt, hop, h6, h53, ht, cmOf]

theorem readClient_some {p : Bytes} {cm : ClientMsg} (h : readClient p = some cm) :
    240 ≤ p.length ∧ ∃ l t, options p = some l ∧ (at_ p 0 = 1 ∨ at_ p 0 = 2) ∧ at_ p 2 = 6 ∧ lastOf l 53 = some [t]
      ∧ (t = 1 ∨ t = 3 ∨ t = 4 ∨ t = 7) ∧ cm = cmOf p l t := by
  unfold readClient Dhcp4Wire.read at h
  by_cases hl : p.length < 240
  · rw [if_pos hl] at h; cases h
  · rw [if_neg hl] at h
    cases ho : options p with
    | none => rw [ho] at h; cases h
    | some l =>
      rw [ho] at h
      simp only [] at h
      split at h
      · rename_i hc
        have hc' : (at_ p 0 = 1 ∨ at_ p 0 = 2) ∧ at_ p 2 = 6 := hc
        split at h
        · rename_i t h53
          have h53' : lastOf l 53 = some [t] := h53
          split at h
          · rename_i ht
            cases h
            exact ⟨by omega, l, t, rfl, hc'.1, hc'.2, h53', ht, rfl⟩
          · cases h
        · cases h
      · cases h

/-- an option area that holds an option has at least two bytes -/
theorem options_nonempty {p : Bytes} {l : List (UInt8 × Bytes)} (h : options p = some l) (hne : l ≠ []) : 242 ≤ p.length := by
  apply Classical.byContradiction
  intro hlt
  unfold options at h
  cases hf : p.length - 240 with
  | zero => rw [hf] at h; simp [tlvsAt] at h; exact hne h
  | succ n =>
    rw [hf] at h
    unfold tlvsAt at h
    rw [if_pos (by omega)] at h
    cases h
    exact hne rfl

theorem lastOf_some_ne_nil {l : List (UInt8 × Bytes)} {c : UInt8} {v : Bytes} (h : lastOf l c = some v) : l ≠ [] := by
  intro e; subst e; simp [lastOf] at h

/-- the dispatch on a payload whose option 53 is one byte naming a served type -/
theorem classify_of_type {now : Nat} {rx : Rx} {p : Bytes} {o : Opts} {t : UInt8} (hv : dhcpValid p = .ok ())
    (hp : rx.dstPort ≠ 68) (ho : parseOptions p = .ok o) (h53 : optGet o 53 = some [t])
    (ht : t = 1 ∨ t = 3 ∨ t = 4 ∨ t = 7) :
    classify now rx p = .ok (.server
      (if t = 1 then .discover now (msgRef rx p o) else if t = 3 then .request now (msgRef rx p o)
       else if t = 4 then .decline (msgRef rx p o) else .release (msgRef rx p o))) := by
  have hl := PV.Lemmas.dhcpValid_len p hv
  unfold classify
  rw [hv]
  simp only []
  rw [if_neg (by simpa using hp), ho]
  simp only [Outcome.bind_ok]
  rw [h53]
  simp only [msgOf_ref rx p o hl, Outcome.bind_ok]
  rcases ht with rfl | rfl | rfl | rfl <;> rfl

/-- **served ⇔ the reference reads a DISCOVER / REQUEST / DECLINE / RELEASE not addressed to the client port, and then
    the handler works on exactly the reference's fields** -/
theorem decode_iff_ref (now : Nat) (rx : Rx) (p : Bytes) (op : Op) :
    Dhcp4Frame.decode now rx p = .ok (some op) ↔ rx.dstPort ≠ 68 ∧ ∃ cm, readClient p = some cm ∧ op = refOp now rx cm := by
  constructor
  · intro h
    obtain ⟨hv, hp, o, t, m, ho, h53, hm, hc⟩ := PV.Lemmas.ComposeDhcp.classify_server (PV.Lemmas.ComposeDhcp.decode_some h)
    obtain ⟨h242, hop, h6, l, hopts⟩ := (dhcpValid_iff p).1 hv
    have hg := optGet_ref (by omega) hopts ho
    rw [msgOf_ref rx p o (by omega)] at hm
    cases hm
    have ht : t = 1 ∨ t = 3 ∨ t = 4 ∨ t = 7 := by
      rcases hc with ⟨e, _⟩ | ⟨e, _⟩ | ⟨e, _⟩ | ⟨e, _⟩ <;> simp [e]
    refine ⟨hp, cmOf p l t, readClient_eq (by omega) hopts hop h6 t (by rw [← hg, h53]) ht, ?_⟩
    have hmsg : refMsg rx (cmOf p l t) = msgRef rx p o := by
      unfold refMsg cmOf msgRef
      simp only [hg]
    unfold refOp
    rw [hmsg]
    rcases hc with ⟨e, e'⟩ | ⟨e, e'⟩ | ⟨e, e'⟩ | ⟨e, e'⟩ <;> subst e <;> rw [e'] <;> rfl
  · intro ⟨hp, cm, hr, hop'⟩
    obtain ⟨hlen, l, t, hopts, hop, h6, h53, ht, hcm⟩ := readClient_some hr
    have h242 := options_nonempty hopts (lastOf_some_ne_nil h53)
    have hv : dhcpValid p = .ok () := (dhcpValid_iff p).2 ⟨h242, hop, h6, l, hopts⟩
    have ho := parseOptions_ref hlen hopts
    have hg := optGet_ref hlen hopts ho
    have hc := classify_of_type (now := now) hv hp ho (by rw [hg, h53]) ht
    unfold Dhcp4Frame.decode
    rw [hc]
    simp only [Outcome.bind_ok]
    have hmsg : refMsg rx (cmOf p l t) = msgRef rx p (l.foldl (fun a e => optSet a e.1 e.2) []) := by
      unfold refMsg cmOf msgRef
      simp only [hg]
    rw [hop', hcm]
    unfold refOp
    rw [hmsg]
    rfl

end PV.Lemmas.Dhcp4Wire
