/-
  The table part of `NewSession` (regenerated: Gen.SessLife.NewSession_tables) equals `Model.Tables.init`.
-/
import PacketVerif.Lemmas.TablesTieC
import PacketVerif.Gen.SessLifeGen
namespace PV.Lemmas.SessLifeTie
open PV PV.Model.Tables PV.Model.TablesGo PV.Gen.Tables PV.Gen.SessLife PV.Spec PV.Lemmas.Tables PV.Lemmas.TablesTieC

theorem H_updMac (s : Sess) (e : Nat) (f : MacRec → MacRec) (p : Nat) : H (updMac s e f) p = H s p := rfl

theorem H_updHost {s : Sess} {p : Nat} {h : HostRec} (e : hostById s p = some h) (f : HostRec → HostRec)
    (hf : ∀ x, (f x).id = x.id) : hostById (updHost s p f) p = some (f h) := by
  rw [hostById_updHost s p p f hf, e]
  simp [hostById_id e]

/-- the host `findOrCreateHostWithLock` returns is in the table (unless it panicked) -/
theorem foc_host_exists {s : Sess} (hi : Inv s) (mac : MAC) (ip : IP) (now : Int) (manuf : String)
    (hp : (findOrCreateHost s mac ip now manuf).panic = false) :
    ∃ h, hostById (findOrCreateHost s mac ip now manuf).s (findOrCreateHost s mac ip now manuf).host = some h := by
  have hi' := inv_findOrCreateHost hi mac ip now manuf
  suffices hm : ∃ p ∈ (findOrCreateHost s mac ip now manuf).s.hosts, p.2.id = (findOrCreateHost s mac ip now manuf).host by
    obtain ⟨p, hp, he⟩ := hm
    exact ⟨p.2, he ▸ hostById_of_mem hi'.hidNodup hp⟩
  have hcreate : ∀ s0 : Sess, ∃ p ∈ (createHost s0 mac ip now manuf).1.hosts, p.2.id = (createHost s0 mac ip now manuf).2 := by
    intro s0
    rw [createHost_eq]
    refine ⟨(ip, newHost (macFindOrCreate s0 mac).1 (macFindOrCreate s0 mac).2 ip now manuf), ?_, rfl⟩
    simp [linkHost]
  unfold findOrCreateHost at hp ⊢
  cases hf : s.hosts.find? (fun p => p.1 == ip) with
  | none => exact hcreate s
  | some q =>
    obtain ⟨k, h⟩ := q
    simp only [hf] at hp
    simp only
    split
    · refine ⟨(k, { h with lastSeen := now }), ?_, rfl⟩
      have hmem : (k, h) ∈ s.hosts := List.mem_of_find?_eq_some hf
      simp only [updMac, updHost, List.mem_map]
      exact ⟨(k, h), hmem, by simp⟩
    · rename_i hne
      simp only [hne, if_false] at hp
      split
      · rename_i hpp; simp [hpp] at hp
      · exact hcreate _

/-- the six stores after creating our own host = `initHost` -/
theorem hostStores_eq {s : Sess} {host : Nat} {h : HostRec} (e : hostById s host = some h) (c : Cfg) (tnow : Int) :
    (let s := updHost s host (fun x => { x with lastSeen := (tnow + 31536000000000000) });
     let s := updMac s (H s host).entry (fun m => { m with lastSeen := (H s host).lastSeen });
     let s := updMac s (H s host).entry (fun m => { m with ip4 := (H s host).ip });
     let s := updMac s (H s host).entry (fun m => { m with ip6lla := c.hostLLA });
     let s := updHost s host (fun x => { x with online := true });
     let s := updMac s (H s host).entry (fun m => { m with online := true });
     s) = initHost c tnow ⟨s, host, false⟩ := by
  have hid := hostById_id e
  have e1 := H_updHost e (fun x => { x with lastSeen := (tnow + 31536000000000000) }) (fun _ => rfl)
  simp only [initHost, e, H_updMac, H_of e1]
  have e2 : hostById (updHost (updHost s host fun x => { x with lastSeen := tnow + 31536000000000000 }) host fun x => { x with online := true }) host
      = some { h with lastSeen := tnow + 31536000000000000, online := true } := H_updHost e1 _ (fun _ => rfl)
  have e2' : ∀ (a b d : Nat) (f g k : MacRec → MacRec), H (updHost (updMac (updMac (updMac (updHost s host fun x => { x with lastSeen := tnow + 31536000000000000 }) a f) b g) d k) host fun x => { x with online := true }) host
      = { h with lastSeen := tnow + 31536000000000000, online := true } := by
    intro a b d f g k; exact H_of e2
  simp only [e2', year, hid]
  unfold updHost updMac
  simp only [List.map_map, Sess.mk.injEq, and_true]
  constructor
  · apply List.map_congr_left; intro p _
    by_cases hp : p.2.id = host <;> simp [hp, Function.comp]
  · apply List.map_congr_left; intro m _
    by_cases hm : m.id = h.entry <;> simp [hm, Function.comp]

/-- the four stores after creating the router host = `initRouter` -/
theorem routerStores_eq {s : Sess} {host : Nat} {h : HostRec} (e : hostById s host = some h) :
    (let s := updMac s (H s host).entry (fun m => { m with isRouter := true });
     let s := updMac s (H s host).entry (fun m => { m with ip4 := (H s host).ip });
     let s := updHost s host (fun x => { x with online := true });
     let s := updMac s (H s host).entry (fun m => { m with online := true });
     s) = initRouter ⟨s, host, false⟩ := by
  have hid := hostById_id e
  have e1 : ∀ (a b : Nat) (f g : MacRec → MacRec), hostById (updHost (updMac (updMac s a f) b g) host fun x => { x with online := true }) host
      = some { h with online := true } := by
    intro a b f g; exact H_updHost (s := updMac (updMac s a f) b g) e _ (fun _ => rfl)
  simp only [initRouter, e, H_updMac, H_of e, H_of (e1 _ _ _ _), hid]
  unfold updHost updMac
  simp only [List.map_map, Sess.mk.injEq, and_true]
  constructor
  · first
      | trivial
      | (apply List.map_congr_left; intro p _
         by_cases hp : p.2.id = host <;> simp [hp, Function.comp])
  · apply List.map_congr_left; intro m _
    by_cases hm : m.id = h.entry <;> simp [hm, Function.comp]

end PV.Lemmas.SessLifeTie
