/-
  Helper lemmas for the host/MAC table model (C04, C05, C06).
-/
import PacketVerif.Model.Tables
import PacketVerif.Spec.TableInv
namespace PV.Lemmas.Tables
open PV PV.Model.Tables PV.Spec

/-! ### generic list facts -/

theorem find?_of_nodup_map {α β} [BEq β] [LawfulBEq β] (f : α → β) :
    ∀ (l : List α), (l.map f).Nodup → ∀ {a}, a ∈ l → l.find? (fun x => f x == f a) = some a
  | [], _, _, h => by simp at h
  | x :: l, hn, a, h => by
    simp only [List.map_cons, List.nodup_cons] at hn
    rw [List.find?_cons]
    by_cases hx : f x = f a
    · simp only [hx, beq_self_eq_true]
      rcases List.mem_cons.1 h with rfl | h'
      · rfl
      · exact absurd (hx ▸ List.mem_map.2 ⟨a, h', rfl⟩) hn.1
    · have : (f x == f a) = false := by simp [hx]
      simp only [this]
      rcases List.mem_cons.1 h with rfl | h'
      · exact absurd rfl hx
      · exact find?_of_nodup_map f l hn.2 h'

theorem find?_mem_pred {α} {p : α → Bool} {l : List α} {a : α} (h : l.find? p = some a) : a ∈ l ∧ p a = true :=
  ⟨List.mem_of_find?_eq_some h, List.find?_some h⟩

/-! ### lookups -/

theorem findHost_some {s : Sess} {ip : IP} {h : HostRec} (e : findHost s ip = some h) : (ip, h) ∈ s.hosts := by
  unfold findHost at e
  cases hf : s.hosts.find? (fun p => p.1 == ip) with
  | none => simp [hf] at e
  | some p =>
    simp only [hf, Option.map_some, Option.some.injEq] at e
    have := find?_mem_pred hf
    have hk : p.1 = ip := by simpa using this.2
    obtain ⟨a, b⟩ := p
    simp only at e hk
    subst e hk
    exact this.1

theorem findHost_none {s : Sess} {ip : IP} (e : findHost s ip = none) : ∀ p ∈ s.hosts, p.1 ≠ ip := by
  unfold findHost at e
  simp only [Option.map_eq_none_iff] at e
  intro p hp hk
  have := List.find?_eq_none.1 e p hp
  simp [hk] at this

theorem hostById_some {s : Sess} {id : Nat} {h : HostRec} (e : hostById s id = some h) :
    ∃ k, (k, h) ∈ s.hosts ∧ h.id = id := by
  unfold hostById at e
  cases hf : s.hosts.find? (fun p => p.2.id == id) with
  | none => simp [hf] at e
  | some p =>
    simp only [hf, Option.map_some, Option.some.injEq] at e
    have := find?_mem_pred hf
    refine ⟨p.1, ?_, ?_⟩
    · rw [← e]; exact this.1
    · rw [← e]; simpa using this.2

theorem macById_some {s : Sess} {id : Nat} {m : MacRec} (e : macById s id = some m) : m ∈ s.macs ∧ m.id = id := by
  unfold macById at e
  have := find?_mem_pred e
  exact ⟨this.1, by simpa using this.2⟩

theorem findMAC_some {s : Sess} {mac : MAC} {m : MacRec} (e : findMAC s mac = some m) : m ∈ s.macs ∧ m.mac = mac := by
  unfold findMAC at e
  have := find?_mem_pred e
  exact ⟨this.1, by simpa using this.2⟩

theorem findMAC_none {s : Sess} {mac : MAC} (e : findMAC s mac = none) : ∀ m ∈ s.macs, m.mac ≠ mac := by
  unfold findMAC at e
  intro m hm hk
  have := List.find?_eq_none.1 e m hm
  simp [hk] at this

theorem hostById_of_mem {s : Sess} (hn : (s.hosts.map (·.2.id)).Nodup) {p : IP × HostRec} (hp : p ∈ s.hosts) :
    hostById s p.2.id = some p.2 := by
  unfold hostById
  rw [find?_of_nodup_map (fun q : IP × HostRec => q.2.id) s.hosts hn hp]; rfl

theorem findHost_of_mem {s : Sess} (hn : (s.hosts.map (·.1)).Nodup) {p : IP × HostRec} (hp : p ∈ s.hosts) :
    findHost s p.1 = some p.2 := by
  unfold findHost
  rw [find?_of_nodup_map (fun q : IP × HostRec => q.1) s.hosts hn hp]; rfl

theorem macById_of_mem {s : Sess} (hn : (s.macs.map (·.id)).Nodup) {m : MacRec} (hm : m ∈ s.macs) :
    macById s m.id = some m := by
  unfold macById
  exact find?_of_nodup_map (fun q : MacRec => q.id) s.macs hn hm

theorem findMAC_of_mem {s : Sess} (hn : (s.macs.map (·.mac)).Nodup) {m : MacRec} (hm : m ∈ s.macs) :
    findMAC s m.mac = some m := by
  unfold findMAC
  exact find?_of_nodup_map (fun q : MacRec => q.mac) s.macs hn hm


/-! ### field updates: `mapH` / `mapM` -/

def mapH (s : Sess) (g : HostRec → HostRec) : Sess := { s with hosts := s.hosts.map (fun p => (p.1, g p.2)) }
def mapM (s : Sess) (g : MacRec → MacRec) : Sess := { s with macs := s.macs.map g }

/-- the update keeps identity, address and links of a host -/
def KeepH (g : HostRec → HostRec) : Prop :=
  ∀ h, (g h).id = h.id ∧ (g h).ip = h.ip ∧ (g h).mac = h.mac ∧ (g h).entry = h.entry
/-- the update keeps identity, address and host list of a MAC entry -/
def KeepM (g : MacRec → MacRec) : Prop :=
  ∀ m, (g m).id = m.id ∧ (g m).mac = m.mac ∧ (g m).hostList = m.hostList

theorem updHost_eq (s : Sess) (id : Nat) (f : HostRec → HostRec) :
    updHost s id f = mapH s (fun h => if h.id = id then f h else h) := by
  unfold updHost mapH
  congr 1
  apply List.map_congr_left
  intro p _
  by_cases h : p.2.id = id <;> simp [h]

theorem updMac_eq (s : Sess) (id : Nat) (f : MacRec → MacRec) :
    updMac s id f = mapM s (fun m => if m.id = id then f m else m) := rfl

theorem markSiblings_eq (s : Sess) (l : List Nat) (ip : IP) :
    markSiblings s l ip = mapH s (fun h => if h.id ∈ l ∧ h.ip.is4 ∧ h.ip ≠ ip ∧ h.online then
      { h with online := false, dirty := true } else h) := by
  unfold markSiblings mapH
  congr 1
  apply List.map_congr_left
  intro p _
  by_cases h : p.2.id ∈ l ∧ p.2.ip.is4 = true ∧ p.2.ip ≠ ip ∧ p.2.online = true <;> simp [h]

theorem KeepH.ite {c : HostRec → Prop} [DecidablePred c] {f : HostRec → HostRec} (hf : KeepH f) :
    KeepH (fun h => if c h then f h else h) := by
  intro h
  by_cases hc : c h <;> simp [hc, hf h]

theorem KeepM.ite {c : MacRec → Prop} [DecidablePred c] {f : MacRec → MacRec} (hf : KeepM f) :
    KeepM (fun m => if c m then f m else m) := by
  intro m
  by_cases hc : c m <;> simp [hc, hf m]

theorem mem_mapH {s : Sess} {g : HostRec → HostRec} {q : IP × HostRec} :
    q ∈ (mapH s g).hosts ↔ ∃ p ∈ s.hosts, q = (p.1, g p.2) := by
  unfold mapH
  simp only [List.mem_map]
  constructor
  · rintro ⟨p, hp, rfl⟩; exact ⟨p, hp, rfl⟩
  · rintro ⟨p, hp, rfl⟩; exact ⟨p, hp, rfl⟩

theorem mem_mapM {s : Sess} {g : MacRec → MacRec} {q : MacRec} :
    q ∈ (mapM s g).macs ↔ ∃ m ∈ s.macs, q = g m := by
  unfold mapM
  simp only [List.mem_map]
  constructor
  · rintro ⟨p, hp, rfl⟩; exact ⟨p, hp, rfl⟩
  · rintro ⟨p, hp, rfl⟩; exact ⟨p, hp, rfl⟩

@[simp] theorem mapH_macs (s : Sess) (g) : (mapH s g).macs = s.macs := rfl
@[simp] theorem mapH_nextId (s : Sess) (g) : (mapH s g).nextId = s.nextId := rfl
@[simp] theorem mapM_hosts (s : Sess) (g) : (mapM s g).hosts = s.hosts := rfl
@[simp] theorem mapM_nextId (s : Sess) (g) : (mapM s g).nextId = s.nextId := rfl

/-- a host-field update that keeps identity/links and switches a host online only when its MAC
    entry is online preserves the invariant -/
theorem inv_mapH {s : Sess} (hi : Inv s) {g : HostRec → HostRec} (hg : KeepH g)
    (hon : ∀ p ∈ s.hosts, (g p.2).online = true →
      p.2.online = true ∨ ∀ m ∈ s.macs, m.id = p.2.entry → m.online = true) : Inv (mapH s g) := by
  have hk : (mapH s g).hosts.map (·.1) = s.hosts.map (·.1) := by
    unfold Tables.mapH; simp [List.map_map, Function.comp_def]
  have hid : (mapH s g).hosts.map (·.2.id) = s.hosts.map (·.2.id) := by
    unfold Tables.mapH; simp only [List.map_map]
    apply List.map_congr_left; intro p _; simp [(hg p.2).1]
  refine ⟨by rw [hk]; exact hi.keysNodup, ?_, by rw [hid]; exact hi.hidNodup, hi.macNodup, hi.midNodup,
    ?_, ?_, hi.listNodup, ?_, hi.freshM, ?_⟩
  · intro q hq
    obtain ⟨p, hp, rfl⟩ := mem_mapH.1 hq
    simp [(hg p.2).2.1, hi.keyIp p hp]
  · intro q hq
    obtain ⟨p, hp, rfl⟩ := mem_mapH.1 hq
    obtain ⟨m, hm, h1, h2, h3⟩ := hi.hostEntry p hp
    exact ⟨m, hm, by simp [(hg p.2).2.2.2, h1], by simp [(hg p.2).2.2.1, h2], by simp [(hg p.2).1, h3]⟩
  · intro m hm i hi'
    obtain ⟨p, hp, h1, h2⟩ := hi.listed m hm i hi'
    exact ⟨(p.1, g p.2), mem_mapH.2 ⟨p, hp, rfl⟩, by simp [(hg p.2).1, h1], by simp [(hg p.2).2.2.2, h2]⟩
  · intro q hq
    obtain ⟨p, hp, rfl⟩ := mem_mapH.1 hq
    simp [(hg p.2).1, hi.freshH p hp]
  · intro q hq hon' m hm hme
    obtain ⟨p, hp, rfl⟩ := mem_mapH.1 hq
    simp only [(hg p.2).2.2.2] at hme
    rcases hon p hp hon' with h | h
    · exact hi.onlineOK p hp h m hm hme
    · exact h m hm hme

/-- a MAC-field update that keeps identity/list and switches an entry offline only when none of
    its hosts is online preserves the invariant -/
theorem inv_mapM {s : Sess} (hi : Inv s) {g : MacRec → MacRec} (hg : KeepM g)
    (hon : ∀ m ∈ s.macs, m.online = true →
      (g m).online = true ∨ ∀ p ∈ s.hosts, p.2.entry = m.id → p.2.online = false) : Inv (mapM s g) := by
  have hk : (mapM s g).macs.map (·.mac) = s.macs.map (·.mac) := by
    unfold Tables.mapM; simp only [List.map_map]
    apply List.map_congr_left; intro m _; simp [(hg m).2.1]
  have hid : (mapM s g).macs.map (·.id) = s.macs.map (·.id) := by
    unfold Tables.mapM; simp only [List.map_map]
    apply List.map_congr_left; intro m _; simp [(hg m).1]
  refine ⟨hi.keysNodup, hi.keyIp, hi.hidNodup, by rw [hk]; exact hi.macNodup, by rw [hid]; exact hi.midNodup,
    ?_, ?_, ?_, hi.freshH, ?_, ?_⟩
  · intro p hp
    obtain ⟨m, hm, h1, h2, h3⟩ := hi.hostEntry p hp
    exact ⟨g m, mem_mapM.2 ⟨m, hm, rfl⟩, by simp [(hg m).1, h1], by simp [(hg m).2.1, h2], by simp [(hg m).2.2, h3]⟩
  · intro q hq i hi'
    obtain ⟨m, hm, rfl⟩ := mem_mapM.1 hq
    simp only [(hg m).2.2] at hi'
    obtain ⟨p, hp, h1, h2⟩ := hi.listed m hm i hi'
    exact ⟨p, hp, h1, by simp [(hg m).1, h2]⟩
  · intro q hq
    obtain ⟨m, hm, rfl⟩ := mem_mapM.1 hq
    simp [(hg m).2.2, hi.listNodup m hm]
  · intro q hq
    obtain ⟨m, hm, rfl⟩ := mem_mapM.1 hq
    simp [(hg m).1, hi.freshM m hm]
  · intro p hp hpo q hq hqe
    obtain ⟨m, hm, rfl⟩ := mem_mapM.1 hq
    simp only [(hg m).1] at hqe
    have hmo := hi.onlineOK p hp hpo m hm hqe
    rcases hon m hm hmo with h | h
    · exact h
    · have := h p hp hqe.symm
      simp [hpo] at this


/-! ### more generic list facts -/

theorem inj_of_nodup_map {α β} (f : α → β) :
    ∀ {l : List α}, (l.map f).Nodup → ∀ {a b}, a ∈ l → b ∈ l → f a = f b → a = b
  | [], _, _, _, h, _, _ => by simp at h
  | x :: l, hn, a, b, ha, hb, e => by
    simp only [List.map_cons, List.nodup_cons] at hn
    rcases List.mem_cons.1 ha with rfl | ha' <;> rcases List.mem_cons.1 hb with rfl | hb'
    · rfl
    · exact absurd (e ▸ List.mem_map.2 ⟨b, hb', rfl⟩) hn.1
    · exact absurd (e ▸ List.mem_map.2 ⟨a, ha', rfl⟩) hn.1
    · exact inj_of_nodup_map f hn.2 ha' hb' e

theorem eraseP_congr_mem {α} {p q : α → Bool} : ∀ {l : List α}, (∀ a ∈ l, p a = q a) → l.eraseP p = l.eraseP q
  | [], _ => rfl
  | x :: l, h => by
    have hx := h x (List.mem_cons_self ..)
    have ih := eraseP_congr_mem (l := l) (fun a ha => h a (List.mem_cons_of_mem _ ha))
    simp [List.eraseP_cons, hx, ih]

theorem mem_eraseP_of_nodup_map {α β} [BEq β] [LawfulBEq β] (f : α → β) (b : β) :
    ∀ {l : List α}, (l.map f).Nodup → ∀ {x}, x ∈ l.eraseP (fun y => f y == b) ↔ x ∈ l ∧ f x ≠ b
  | [], _, x => by simp
  | y :: l, hn, x => by
    simp only [List.map_cons, List.nodup_cons] at hn
    rw [List.eraseP_cons]
    by_cases hy : f y = b
    · simp only [hy, beq_self_eq_true, cond_true, List.mem_cons]
      constructor
      · intro hx
        refine ⟨Or.inr hx, ?_⟩
        intro hxb
        exact hn.1 (hy ▸ hxb ▸ List.mem_map.2 ⟨x, hx, rfl⟩)
      · rintro ⟨rfl | hx, hxb⟩
        · exact absurd hy hxb
        · exact hx
    · have : (f y == b) = false := by simp [hy]
      simp only [this, cond_false, List.mem_cons, mem_eraseP_of_nodup_map f b hn.2]
      constructor
      · rintro (rfl | ⟨hx, hxb⟩)
        · exact ⟨Or.inl rfl, hy⟩
        · exact ⟨Or.inr hx, hxb⟩
      · rintro ⟨rfl | hx, hxb⟩
        · exact Or.inl rfl
        · exact Or.inr ⟨hx, hxb⟩

/-! ### `MACTable.findOrCreate` -/

theorem macFindOrCreate_cases (s : Sess) (mac : MAC) :
    (∃ e, findMAC s mac = some e ∧ macFindOrCreate s mac = (s, e)) ∨
    (findMAC s mac = none ∧ macFindOrCreate s mac =
      ({ s with macs := s.macs ++ [newMac s.nextId mac], nextId := s.nextId + 1 }, newMac s.nextId mac)) := by
  unfold macFindOrCreate
  cases h : findMAC s mac with
  | some e => exact Or.inl ⟨e, rfl, rfl⟩
  | none => exact Or.inr ⟨rfl, rfl⟩

theorem inv_addMac {s : Sess} (hi : Inv s) {mac : MAC} (hn : ∀ m ∈ s.macs, m.mac ≠ mac) :
    Inv { s with macs := s.macs ++ [newMac s.nextId mac], nextId := s.nextId + 1 } := by
  refine ⟨hi.keysNodup, hi.keyIp, hi.hidNodup, ?_, ?_, ?_, ?_, ?_, ?_, ?_, ?_⟩
  · simp only [List.map_append, List.map_cons, List.map_nil]
    refine List.nodup_append.2 ⟨hi.macNodup, by simp, ?_⟩
    intro a ha b hb
    obtain ⟨m, hm, rfl⟩ := List.mem_map.1 ha
    simp only [List.mem_singleton] at hb
    subst hb
    exact hn m hm
  · simp only [List.map_append, List.map_cons, List.map_nil]
    refine List.nodup_append.2 ⟨hi.midNodup, by simp, ?_⟩
    intro a ha b hb
    obtain ⟨m, hm, rfl⟩ := List.mem_map.1 ha
    simp only [List.mem_singleton] at hb
    subst hb
    have := hi.freshM m hm
    simp only [newMac]; omega
  · intro p hp
    obtain ⟨m, hm, h⟩ := hi.hostEntry p hp
    exact ⟨m, List.mem_append_left _ hm, h⟩
  · intro m hm i hi'
    rcases List.mem_append.1 hm with hm | hm
    · exact hi.listed m hm i hi'
    · simp only [List.mem_singleton] at hm
      subst hm
      simp [newMac] at hi'
  · intro m hm
    rcases List.mem_append.1 hm with hm | hm
    · exact hi.listNodup m hm
    · simp only [List.mem_singleton] at hm
      subst hm
      simp [newMac]
  · intro p hp
    have := hi.freshH p hp
    simp only; omega
  · intro m hm
    rcases List.mem_append.1 hm with hm | hm
    · have := hi.freshM m hm
      simp only; omega
    · simp only [List.mem_singleton] at hm
      subst hm
      simp [newMac]
  · intro p hp hpo m hm hme
    rcases List.mem_append.1 hm with hm | hm
    · exact hi.onlineOK p hp hpo m hm hme
    · simp only [List.mem_singleton] at hm
      subst hm
      obtain ⟨m', hm', h1, _⟩ := hi.hostEntry p hp
      have := hi.freshM m' hm'
      simp only [newMac] at hme
      omega

/-- what `MACTable.findOrCreate` guarantees -/
theorem inv_macFindOrCreate {s : Sess} (hi : Inv s) (mac : MAC) :
    Inv (macFindOrCreate s mac).1 ∧ (macFindOrCreate s mac).2 ∈ (macFindOrCreate s mac).1.macs ∧
    (macFindOrCreate s mac).2.mac = mac ∧ (macFindOrCreate s mac).1.hosts = s.hosts ∧
    (∀ m ∈ s.macs, m ∈ (macFindOrCreate s mac).1.macs) := by
  rcases macFindOrCreate_cases s mac with ⟨e, he, h⟩ | ⟨hn, h⟩
  · rw [h]
    exact ⟨hi, (findMAC_some he).1, (findMAC_some he).2, rfl, fun m hm => hm⟩
  · rw [h]
    exact ⟨inv_addMac hi (findMAC_none hn), by simp, by simp [newMac], rfl,
      fun m hm => List.mem_append_left _ hm⟩


/-! ### `createHost` -/

def newHost (s1 : Sess) (e : MacRec) (ip : IP) (now : Int) (manuf : String) : HostRec :=
  { id := s1.nextId, ip := ip, mac := e.mac, entry := e.id, online := false,
    lastSeen := now, manuf := manuf, names := {}, dirty := true }

def linkG (e : MacRec) (hid : Nat) (now : Int) (manuf : String) (m : MacRec) : MacRec :=
  if m.id = e.id then
    { m with manuf := if manuf ≠ "" ∧ manuf ≠ m.manuf then manuf else m.manuf
             lastSeen := now
             hostList := m.hostList ++ [hid] }
  else m

/-- the second half of `createHost`: link a new host to entry `e` -/
def linkHost (s1 : Sess) (e : MacRec) (ip : IP) (now : Int) (manuf : String) : Sess :=
  { hosts := s1.hosts.filter (fun p => p.1 != ip) ++ [(ip, newHost s1 e ip now manuf)]
    macs := s1.macs.map (linkG e s1.nextId now manuf)
    nextId := s1.nextId + 1 }

theorem createHost_eq (s : Sess) (mac : MAC) (ip : IP) (now : Int) (manuf : String) :
    createHost s mac ip now manuf =
      (linkHost (macFindOrCreate s mac).1 (macFindOrCreate s mac).2 ip now manuf, (macFindOrCreate s mac).1.nextId) := by
  unfold createHost
  cases h : macFindOrCreate s mac with
  | mk s1 e => rfl

theorem filter_key_ne_self {s : Sess} {ip : IP} (hn : ∀ p ∈ s.hosts, p.1 ≠ ip) :
    s.hosts.filter (fun p => p.1 != ip) = s.hosts := by
  apply List.filter_eq_self.2
  intro p hp
  simp [hn p hp]

theorem linkG_id (e hid now manuf) (m : MacRec) : (linkG e hid now manuf m).id = m.id := by
  unfold linkG; split <;> rfl
theorem linkG_mac (e hid now manuf) (m : MacRec) : (linkG e hid now manuf m).mac = m.mac := by
  unfold linkG; split <;> rfl
theorem linkG_online (e hid now manuf) (m : MacRec) : (linkG e hid now manuf m).online = m.online := by
  unfold linkG; split <;> rfl
theorem linkG_list (e hid now manuf) (m : MacRec) :
    (linkG e hid now manuf m).hostList = if m.id = e.id then m.hostList ++ [hid] else m.hostList := by
  unfold linkG; split <;> rfl

theorem inv_linkHost {s1 : Sess} (hi : Inv s1) {e : MacRec} (he : e ∈ s1.macs) {ip : IP}
    (hn : ∀ p ∈ s1.hosts, p.1 ≠ ip) (now : Int) (manuf : String) :
    Inv (linkHost s1 e ip now manuf) := by
  have hh : (linkHost s1 e ip now manuf).hosts = s1.hosts ++ [(ip, newHost s1 e ip now manuf)] := by
    unfold linkHost; simp only; rw [filter_key_ne_self hn]
  have hmm : ∀ q, q ∈ (linkHost s1 e ip now manuf).macs ↔ ∃ m ∈ s1.macs, q = linkG e s1.nextId now manuf m := by
    intro q; unfold linkHost; simp only [List.mem_map]
    constructor
    · rintro ⟨m, hm, rfl⟩; exact ⟨m, hm, rfl⟩
    · rintro ⟨m, hm, rfl⟩; exact ⟨m, hm, rfl⟩
  have hnid : (linkHost s1 e ip now manuf).nextId = s1.nextId + 1 := rfl
  have hlt : ∀ m ∈ s1.macs, ∀ i ∈ m.hostList, i < s1.nextId := by
    intro m hm i hi'
    obtain ⟨p, hp, h1, _⟩ := hi.listed m hm i hi'
    have := hi.freshH p hp; omega
  refine ⟨?_, ?_, ?_, ?_, ?_, ?_, ?_, ?_, ?_, ?_, ?_⟩
  · rw [hh]; simp only [List.map_append, List.map_cons, List.map_nil]
    refine List.nodup_append.2 ⟨hi.keysNodup, by simp, ?_⟩
    intro a ha b hb
    obtain ⟨p, hp, rfl⟩ := List.mem_map.1 ha
    simp only [List.mem_singleton] at hb; subst hb
    exact hn p hp
  · intro p hp
    rw [hh] at hp
    rcases List.mem_append.1 hp with hp | hp
    · exact hi.keyIp p hp
    · simp only [List.mem_singleton] at hp; subst hp; rfl
  · rw [hh]; simp only [List.map_append, List.map_cons, List.map_nil]
    refine List.nodup_append.2 ⟨hi.hidNodup, by simp, ?_⟩
    intro a ha b hb
    obtain ⟨p, hp, rfl⟩ := List.mem_map.1 ha
    simp only [List.mem_singleton] at hb; subst hb
    have := hi.freshH p hp
    simp only [newHost]; omega
  · have : (linkHost s1 e ip now manuf).macs.map (·.mac) = s1.macs.map (·.mac) := by
      unfold linkHost; simp only [List.map_map]
      apply List.map_congr_left; intro m _; simp [linkG_mac]
    rw [this]; exact hi.macNodup
  · have : (linkHost s1 e ip now manuf).macs.map (·.id) = s1.macs.map (·.id) := by
      unfold linkHost; simp only [List.map_map]
      apply List.map_congr_left; intro m _; simp [linkG_id]
    rw [this]; exact hi.midNodup
  · intro p hp
    rw [hh] at hp
    rcases List.mem_append.1 hp with hp | hp
    · obtain ⟨m, hm, h1, h2, h3⟩ := hi.hostEntry p hp
      refine ⟨linkG e s1.nextId now manuf m, (hmm _).2 ⟨m, hm, rfl⟩, by simp [linkG_id, h1], by simp [linkG_mac, h2], ?_⟩
      rw [linkG_list]; split
      · exact List.mem_append_left _ h3
      · exact h3
    · simp only [List.mem_singleton] at hp; subst hp
      refine ⟨linkG e s1.nextId now manuf e, (hmm _).2 ⟨e, he, rfl⟩, by simp [linkG_id, newHost], by simp [linkG_mac, newHost], ?_⟩
      rw [linkG_list]; simp [newHost]
  · intro q hq i hi'
    obtain ⟨m, hm, rfl⟩ := (hmm q).1 hq
    rw [linkG_list] at hi'
    rw [hh, linkG_id]
    by_cases hme : m.id = e.id
    · simp only [hme, if_true, List.mem_append, List.mem_singleton] at hi'
      rcases hi' with hi' | rfl
      · obtain ⟨p, hp, h1, h2⟩ := hi.listed m hm i hi'
        exact ⟨p, List.mem_append_left _ hp, h1, h2⟩
      · exact ⟨(ip, newHost s1 e ip now manuf), by simp, by simp [newHost], by simp [newHost, hme]⟩
    · simp only [hme, if_false] at hi'
      obtain ⟨p, hp, h1, h2⟩ := hi.listed m hm i hi'
      exact ⟨p, List.mem_append_left _ hp, h1, h2⟩
  · intro q hq
    obtain ⟨m, hm, rfl⟩ := (hmm q).1 hq
    rw [linkG_list]; split
    · refine List.nodup_append.2 ⟨hi.listNodup m hm, by simp, ?_⟩
      intro a ha b hb
      simp only [List.mem_singleton] at hb; subst hb
      have := hlt m hm a ha; omega
    · exact hi.listNodup m hm
  · intro p hp
    rw [hh] at hp; rw [hnid]
    rcases List.mem_append.1 hp with hp | hp
    · have := hi.freshH p hp; omega
    · simp only [List.mem_singleton] at hp; subst hp; simp [newHost]
  · intro q hq
    obtain ⟨m, hm, rfl⟩ := (hmm q).1 hq
    rw [hnid, linkG_id]
    have := hi.freshM m hm; omega
  · intro p hp hpo q hq hqe
    obtain ⟨m, hm, rfl⟩ := (hmm q).1 hq
    rw [linkG_online]; rw [linkG_id] at hqe
    rw [hh] at hp
    rcases List.mem_append.1 hp with hp | hp
    · exact hi.onlineOK p hp hpo m hm hqe
    · simp only [List.mem_singleton] at hp; subst hp
      simp [newHost] at hpo

theorem inv_createHost {s : Sess} (hi : Inv s) (mac : MAC) {ip : IP} (hn : ∀ p ∈ s.hosts, p.1 ≠ ip)
    (now : Int) (manuf : String) : Inv (createHost s mac ip now manuf).1 := by
  rw [createHost_eq]
  obtain ⟨h1, h2, _, h4, _⟩ := inv_macFindOrCreate hi mac
  exact inv_linkHost h1 h2 (by rw [h4]; exact hn) now manuf


/-! ### `deleteHost` -/

theorem unlinkList_eq {s : Sess} (hi : Inv s) {m : MacRec} (hm : m ∈ s.macs) {k : IP} {h : HostRec}
    (hp : (k, h) ∈ s.hosts) : unlinkList s m.hostList h.ip = m.hostList.eraseP (fun i => i == h.id) := by
  unfold unlinkList
  apply eraseP_congr_mem
  intro i hi'
  obtain ⟨p, hpm, h1, _⟩ := hi.listed m hm i hi'
  have hb := hostById_of_mem hi.hidNodup hpm
  rw [h1] at hb
  simp only [hb]
  have hk1 := hi.keyIp p hpm
  have hk2 := hi.keyIp (k, h) hp
  simp only at hk2
  by_cases hid : i = h.id
  · have : p = (k, h) := inj_of_nodup_map (fun q : IP × HostRec => q.2.id) hi.hidNodup hpm hp (by simp [h1, hid])
    subst this
    simp [hid]
  · have : p.2.ip ≠ h.ip := by
      intro e
      have : p = (k, h) := inj_of_nodup_map (fun q : IP × HostRec => q.1) hi.keysNodup hpm hp (by simp [← hk1, e, hk2])
      subst this
      exact hid h1.symm
    have h2 : (p.2.ip == h.ip) = false := by simp [this]
    have h3 : (i == h.id) = false := by simp [hid]
    rw [h2, h3]

def unlinkG (hentry hid : Nat) (m : MacRec) : MacRec :=
  if m.id = hentry then { m with hostList := m.hostList.eraseP (fun i => i == hid) } else m

theorem unlinkG_id (a b) (m : MacRec) : (unlinkG a b m).id = m.id := by unfold unlinkG; split <;> rfl
theorem unlinkG_mac (a b) (m : MacRec) : (unlinkG a b m).mac = m.mac := by unfold unlinkG; split <;> rfl
theorem unlinkG_online (a b) (m : MacRec) : (unlinkG a b m).online = m.online := by unfold unlinkG; split <;> rfl

/-- the state of `deleteHost` before the empty MAC entry is dropped -/
def delState (s : Sess) (ip : IP) (h : HostRec) : Sess :=
  { hosts := s.hosts.filter (fun p => p.1 != ip), macs := s.macs.map (unlinkG h.entry h.id), nextId := s.nextId }

theorem mem_erase_id {l : List Nat} (hn : l.Nodup) {a x : Nat} :
    x ∈ l.eraseP (fun i => i == a) ↔ x ∈ l ∧ x ≠ a := by
  have := mem_eraseP_of_nodup_map (fun i : Nat => i) a (l := l) (by simpa using hn) (x := x)
  simpa using this

theorem inv_delState {s : Sess} (hi : Inv s) {ip : IP} {h : HostRec} (hp : (ip, h) ∈ s.hosts) :
    Inv (delState s ip h) := by
  have hH : ∀ p, p ∈ (delState s ip h).hosts ↔ p ∈ s.hosts ∧ p.1 ≠ ip := by
    intro p; unfold delState; simp [List.mem_filter]
  have hM : ∀ q, q ∈ (delState s ip h).macs ↔ ∃ m ∈ s.macs, q = unlinkG h.entry h.id m := by
    intro q; unfold delState; simp only [List.mem_map]
    constructor
    · rintro ⟨m, hm, rfl⟩; exact ⟨m, hm, rfl⟩
    · rintro ⟨m, hm, rfl⟩; exact ⟨m, hm, rfl⟩
  have keyInj : ∀ p ∈ s.hosts, p.1 = ip → p = (ip, h) := fun p hpm e =>
    inj_of_nodup_map (fun q : IP × HostRec => q.1) hi.keysNodup hpm hp e
  have idInj : ∀ p ∈ s.hosts, p.2.id = h.id → p = (ip, h) := fun p hpm e =>
    inj_of_nodup_map (fun q : IP × HostRec => q.2.id) hi.hidNodup hpm hp e
  refine ⟨?_, ?_, ?_, ?_, ?_, ?_, ?_, ?_, ?_, ?_, ?_⟩
  · exact List.Nodup.sublist (List.Sublist.map _ List.filter_sublist) hi.keysNodup
  · intro p hp'; exact hi.keyIp p ((hH p).1 hp').1
  · exact List.Nodup.sublist (List.Sublist.map _ List.filter_sublist) hi.hidNodup
  · have : (delState s ip h).macs.map (·.mac) = s.macs.map (·.mac) := by
      unfold delState; simp only [List.map_map]
      apply List.map_congr_left; intro m _; simp [unlinkG_mac]
    rw [this]; exact hi.macNodup
  · have : (delState s ip h).macs.map (·.id) = s.macs.map (·.id) := by
      unfold delState; simp only [List.map_map]
      apply List.map_congr_left; intro m _; simp [unlinkG_id]
    rw [this]; exact hi.midNodup
  · intro p hp'
    obtain ⟨hpm, hne⟩ := (hH p).1 hp'
    obtain ⟨m, hm, h1, h2, h3⟩ := hi.hostEntry p hpm
    refine ⟨unlinkG h.entry h.id m, (hM _).2 ⟨m, hm, rfl⟩, by simp [unlinkG_id, h1], by simp [unlinkG_mac, h2], ?_⟩
    unfold unlinkG; split
    · simp only
      refine (mem_erase_id (hi.listNodup m hm)).2 ⟨h3, ?_⟩
      intro e
      have := idInj p hpm e
      subst this
      exact hne rfl
    · exact h3
  · intro q hq i hi'
    obtain ⟨m, hm, rfl⟩ := (hM q).1 hq
    rw [unlinkG_id]
    unfold unlinkG at hi'
    by_cases hme : m.id = h.entry
    · simp only [hme, if_true] at hi'
      obtain ⟨hi1, hi2⟩ := (mem_erase_id (hi.listNodup m hm)).1 hi'
      obtain ⟨p, hpm, h1, h2⟩ := hi.listed m hm i hi1
      refine ⟨p, (hH p).2 ⟨hpm, ?_⟩, h1, h2⟩
      intro e
      have := keyInj p hpm e
      subst this
      exact hi2 h1.symm
    · simp only [hme, if_false] at hi'
      obtain ⟨p, hpm, h1, h2⟩ := hi.listed m hm i hi'
      refine ⟨p, (hH p).2 ⟨hpm, ?_⟩, h1, h2⟩
      intro e
      have := keyInj p hpm e
      subst this
      exact hme h2.symm
  · intro q hq
    obtain ⟨m, hm, rfl⟩ := (hM q).1 hq
    unfold unlinkG; split
    · exact List.Nodup.sublist List.eraseP_sublist (hi.listNodup m hm)
    · exact hi.listNodup m hm
  · intro p hp'; exact hi.freshH p ((hH p).1 hp').1
  · intro q hq
    obtain ⟨m, hm, rfl⟩ := (hM q).1 hq
    rw [unlinkG_id]; exact hi.freshM m hm
  · intro p hp' hpo q hq hqe
    obtain ⟨m, hm, rfl⟩ := (hM q).1 hq
    rw [unlinkG_online]; rw [unlinkG_id] at hqe
    exact hi.onlineOK p ((hH p).1 hp').1 hpo m hm hqe

/-- dropping a MAC entry that has no hosts (`MACTable.delete`) -/
theorem inv_eraseMac {s : Sess} (hi : Inv s) {m : MacRec} (hm : m ∈ s.macs) (he : m.hostList = []) :
    Inv { s with macs := s.macs.eraseP (fun x => x.mac == m.mac) } := by
  have hM : ∀ q, q ∈ s.macs.eraseP (fun x => x.mac == m.mac) ↔ q ∈ s.macs ∧ q.mac ≠ m.mac := fun q =>
    mem_eraseP_of_nodup_map (fun x : MacRec => x.mac) m.mac hi.macNodup
  have macInj : ∀ q ∈ s.macs, q.mac = m.mac → q = m := fun q hq e =>
    inj_of_nodup_map (fun x : MacRec => x.mac) hi.macNodup hq hm e
  refine ⟨hi.keysNodup, hi.keyIp, hi.hidNodup, ?_, ?_, ?_, ?_, ?_, hi.freshH, ?_, ?_⟩
  · exact List.Nodup.sublist (List.Sublist.map _ List.eraseP_sublist) hi.macNodup
  · exact List.Nodup.sublist (List.Sublist.map _ List.eraseP_sublist) hi.midNodup
  · intro p hp
    obtain ⟨q, hq, h1, h2, h3⟩ := hi.hostEntry p hp
    refine ⟨q, (hM q).2 ⟨hq, ?_⟩, h1, h2, h3⟩
    intro e
    have := macInj q hq e
    subst this
    rw [he] at h3
    simp at h3
  · intro q hq i hi'
    exact hi.listed q ((hM q).1 hq).1 i hi'
  · intro q hq; exact hi.listNodup q ((hM q).1 hq).1
  · intro q hq; exact hi.freshM q ((hM q).1 hq).1
  · intro p hp hpo q hq hqe
    exact hi.onlineOK p hp hpo q ((hM q).1 hq).1 hqe

theorem deleteHost_eq {s : Sess} (hi : Inv s) {ip : IP} {h : HostRec} (hf : findHost s ip = some h) :
    deleteHost s ip =
      match macById (delState s ip h) h.entry with
      | none => delState s ip h
      | some m =>
        if m.hostList.isEmpty then
          { delState s ip h with macs := (delState s ip h).macs.eraseP (fun x => x.mac == m.mac) }
        else delState s ip h := by
  have hp := findHost_some hf
  have hm : (updMac s h.entry (fun m => { m with hostList := unlinkList s m.hostList h.ip })).macs
      = (delState s ip h).macs := by
    unfold delState updMac
    simp only
    apply List.map_congr_left
    intro m hm
    unfold unlinkG
    split
    · rw [unlinkList_eq hi hm hp]
    · rfl
  have hs : ({ (updMac s h.entry (fun m => { m with hostList := unlinkList s m.hostList h.ip })) with
      hosts := (updMac s h.entry (fun m => { m with hostList := unlinkList s m.hostList h.ip })).hosts.filter
        (fun p => p.1 != ip) } : Sess) = delState s ip h := by
    show ({ hosts := _, macs := _, nextId := _ } : Sess) = _
    rw [hm]; rfl
  unfold deleteHost
  simp only [hf]
  rw [hs]
  cases macById (delState s ip h) h.entry with
  | none => rfl
  | some m =>
    simp only
    split
    · rw [hm]; rfl
    · rfl

theorem inv_deleteHost {s : Sess} (hi : Inv s) (ip : IP) : Inv (deleteHost s ip) := by
  cases hf : findHost s ip with
  | none => unfold deleteHost; simp only [hf]; exact hi
  | some h =>
    rw [deleteHost_eq hi hf]
    have hd := inv_delState hi (findHost_some hf)
    cases hm : macById (delState s ip h) h.entry with
    | none => exact hd
    | some m =>
      simp only
      split
      · rename_i he
        exact inv_eraseMac hd (macById_some hm).1 (by simpa using he)
      · exact hd


/-! ### convenience forms -/

macro "keepM" : tactic => `(tactic| (intro m; exact ⟨rfl, rfl, rfl⟩))
macro "keepH" : tactic => `(tactic| (intro h; exact ⟨rfl, rfl, rfl, rfl⟩))
macro "onSame" : tactic => `(tactic| (intro m hm; exact hm))

theorem inv_updHost {s : Sess} (hi : Inv s) (id : Nat) {f : HostRec → HostRec} (hf : KeepH f)
    (hon : ∀ h, (f h).online = true → h.online = true) : Inv (updHost s id f) := by
  rw [updHost_eq]
  refine inv_mapH hi hf.ite ?_
  intro p _ h
  left
  by_cases hc : p.2.id = id
  · simp only [hc, if_true] at h; exact hon _ h
  · simpa [hc] using h

theorem inv_updMac {s : Sess} (hi : Inv s) (id : Nat) {f : MacRec → MacRec} (hf : KeepM f)
    (hon : ∀ m, m.online = true → (f m).online = true) : Inv (updMac s id f) := by
  rw [updMac_eq]
  refine inv_mapM hi hf.ite ?_
  intro m _ h
  left
  by_cases hc : m.id = id
  · simp only [hc, if_true]; exact hon _ h
  · simpa [hc] using h

theorem deleteHost_no_key {s : Sess} (hi : Inv s) (ip : IP) : ∀ p ∈ (deleteHost s ip).hosts, p.1 ≠ ip := by
  cases hf : findHost s ip with
  | none => unfold deleteHost; simp only [hf]; exact findHost_none hf
  | some h =>
    rw [deleteHost_eq hi hf]
    have hd : ∀ p ∈ (delState s ip h).hosts, p.1 ≠ ip := by
      intro p hp; unfold delState at hp; simp [List.mem_filter] at hp; exact hp.2
    cases macById (delState s ip h) h.entry with
    | none => exact hd
    | some m =>
      simp only
      split
      · exact hd
      · exact hd

/-! ### `findOrCreateHostWithLock` -/

theorem inv_findOrCreateHost {s : Sess} (hi : Inv s) (mac : MAC) (ip : IP) (now : Int) (manuf : String) :
    Inv (findOrCreateHost s mac ip now manuf).s := by
  unfold findOrCreateHost
  cases hf : s.hosts.find? (fun p => p.1 == ip) with
  | none =>
    simp only
    apply inv_createHost hi
    intro p hp e
    have := List.find?_eq_none.1 hf p hp
    simp [e] at this
  | some p =>
    obtain ⟨k, h⟩ := p
    simp only
    split
    · simp only
      apply inv_updMac _ _ (by keepM) (by onSame)
      exact inv_updHost hi _ (by keepH) (by onSame)
    · split
      · exact hi
      · simp only
        exact inv_createHost (inv_deleteHost hi ip) mac (deleteHost_no_key hi ip) now manuf

/-! ### `onlineTransition` -/

theorem inv_onlineTransition {s : Sess} (hi : Inv s) (hid : Nat) : Inv (onlineTransition s hid) := by
  unfold onlineTransition
  cases hb : hostById s hid with
  | none => exact hi
  | some h =>
    simp only
    split
    · exact hi
    · obtain ⟨k, hp, hidEq⟩ := hostById_some hb
      have h1 : Inv (updMac s h.entry (fun m => { m with online := true })) :=
        inv_updMac hi _ (by keepM) (by intro m _; rfl)
      have h2 : Inv (updHost (updMac s h.entry (fun m => { m with online := true })) hid
          (fun x => { x with online := true, dirty := true })) := by
        rw [updHost_eq]
        refine inv_mapH h1 (KeepH.ite (by keepH)) ?_
        intro p hpm hon
        by_cases hc : p.2.id = hid
        · right
          intro m hm hme
          have hpe : p = (k, h) := inj_of_nodup_map (fun q : IP × HostRec => q.2.id) hi.hidNodup hpm hp
            (by simp [hc, hidEq])
          subst hpe
          rw [updMac_eq] at hm
          obtain ⟨m0, _, rfl⟩ := mem_mapM.1 hm
          by_cases hc2 : m0.id = h.entry
          · simp [hc2]
          · simp [hc2] at hme
        · left; simpa [hc] using hon
      split
      · cases hm : macById (updHost (updMac s h.entry (fun m => { m with online := true })) hid
            (fun x => { x with online := true, dirty := true })) h.entry with
        | none => exact h2
        | some m =>
          simp only
          split
          · rw [markSiblings_eq]
            refine inv_mapH (inv_updMac h2 _ (by keepM) (by onSame))
              (KeepH.ite (by keepH)) ?_
            intro p _ hon
            left
            split at hon
            · simp at hon
            · exact hon
          · exact h2
      · have h3 : Inv (if h.ip.isGlobalUnicast then
            updMac (updHost (updMac s h.entry (fun m => { m with online := true })) hid
              (fun x => { x with online := true, dirty := true })) h.entry (fun m => { m with ip6gua := h.ip })
            else (updHost (updMac s h.entry (fun m => { m with online := true })) hid
              (fun x => { x with online := true, dirty := true }))) := by
          split
          · exact inv_updMac h2 _ (by keepM) (by onSame)
          · exact h2
        split
        · exact inv_updMac h3 _ (by keepM) (by onSame)
        · exact h3

theorem inv_parse {s : Sess} (hi : Inv s) (c : Cfg) (ev : FrameEv) (now : Int) (manuf : String) :
    Inv (parse c s ev now manuf).s := by
  unfold parse
  split
  · exact hi
  · rename_i mac ip _
    simp only
    have h1 := inv_findOrCreateHost hi mac ip now manuf
    split
    · exact h1
    · split
      · exact h1
      · split
        · exact h1
        · exact inv_onlineTransition h1 _

/-! ### `makeOffline`, `notify` -/

theorem inv_makeOffline {s : Sess} (hi : Inv s) (hid : Nat) : Inv (makeOffline s hid).1 := by
  unfold makeOffline
  cases hb : hostById s hid with
  | none => exact hi
  | some h =>
    simp only
    have h1 : Inv (updHost s hid (fun x => { x with online := false, dirty := false })) :=
      inv_updHost hi _ (by keepH) (by intro h hh; simp at hh)
    cases hm : macById (updHost s hid (fun x => { x with online := false, dirty := false })) h.entry with
    | none => exact h1
    | some m =>
      simp only
      rw [updMac_eq]
      refine inv_mapM h1 (KeepM.ite (by keepM)) ?_
      intro m' hm' hon'
      by_cases hc : m'.id = h.entry
      · simp only [hc, if_true]
        obtain ⟨hmm, hmid⟩ := macById_some hm
        have hmeq : m = m' := inj_of_nodup_map (fun q : MacRec => q.id) h1.midNodup hmm hm' (by simp [hc, hmid])
        subst hmeq
        cases hany : (updHost s hid (fun x => { x with online := false, dirty := false })).hosts.any
            (fun p => decide (p.2.id ∈ m.hostList) && p.2.online) with
        | true => left; rfl
        | false =>
          right
          intro p hp hpe
          obtain ⟨m2, hm2, e1, _, e3⟩ := h1.hostEntry p hp
          have : m2 = m := inj_of_nodup_map (fun q : MacRec => q.id) h1.midNodup hm2 hm' (by simp [e1, hpe, hmid])
          subst this
          have := List.any_eq_false.1 hany p hp
          simp only [e3, decide_true, Bool.true_and] at this
          simpa using this
      · left; simpa [hc] using hon'

theorem inv_makeOfflineAll {s : Sess} (hi : Inv s) (l : List Nat) : Inv (makeOfflineAll s l).1 := by
  induction l generalizing s with
  | nil => exact hi
  | cons i rest ih =>
    unfold makeOfflineAll
    exact ih (inv_makeOffline hi i)

theorem inv_notifyHost {s : Sess} (hi : Inv s) (hid : Nat) (flag : Bool) : Inv (notifyHost s hid flag).1 := by
  unfold notifyHost
  cases hb : hostById s hid with
  | none => exact hi
  | some h =>
    simp only
    split
    · exact hi
    · generalize (if flag = true ∧ h.ip.is4 = true then _ else _ : List Nat) = offl
      have h1 := inv_makeOfflineAll hi offl
      split
      · exact h1
      · dsimp only
        exact inv_updHost h1 _ (by keepH) (by onSame)

theorem inv_notifyOp {s : Sess} (hi : Inv s) (host : Option Nat) (dhcp4 : Bool) (srcMAC : MAC) (flag : Bool) :
    Inv (notifyOp s host dhcp4 srcMAC flag).1 := by
  unfold notifyOp
  cases host with
  | some hid => exact inv_notifyHost hi _ _
  | none =>
    simp only
    split
    · exact hi
    · split
      · exact hi
      · split
        · exact hi
        · exact inv_notifyHost hi _ _

theorem inv_updateName {s : Sess} (hi : Inv s) (hid : Nat) (k : NameKind) (n : NameEntry) :
    Inv (updateName s hid k n) := by
  unfold updateName
  split
  · exact hi
  · simp only
    split
    · exact inv_updMac (inv_updHost hi hid (by keepH) (by onSame)) _ (by keepM) (by onSame)
    · exact inv_updHost hi hid (by keepH) (by onSame)

theorem inv_dhcpUpdate {s : Sess} (hi : Inv s) (mac : MAC) (ip : IP) (name : NameEntry) (now : Int) (manuf : String) :
    Inv (dhcpUpdate s mac ip name now manuf).1 := by
  unfold dhcpUpdate
  split
  · exact hi
  · simp only
    have h1 := inv_findOrCreateHost hi mac ip now manuf
    split
    · exact h1
    · have h2 := inv_updateName h1 (findOrCreateHost s mac ip now manuf).host .dhcp4 name
      split
      · exact h2
      · rename_i h _
        simp only
        have h3 : Inv (updMac (updateName (findOrCreateHost s mac ip now manuf).s
            (findOrCreateHost s mac ip now manuf).host .dhcp4 name) h.entry (fun m => { m with ip4offer := h.ip })) :=
          inv_updMac h2 _ (by keepM) (by onSame)
        apply inv_notifyHost
        split
        · exact h3
        · exact inv_onlineTransition h3 _

theorem inv_foldl_deleteHost {s : Sess} (hi : Inv s) (l : List IP) : Inv (l.foldl deleteHost s) := by
  induction l generalizing s with
  | nil => exact hi
  | cons i rest ih => exact ih (inv_deleteHost hi i)

theorem inv_purge {s : Sess} (hi : Inv s) (c : Cfg) (now : Int) : Inv (purge c s now).1 := by
  unfold purge
  exact inv_foldl_deleteHost (inv_makeOfflineAll hi _) _


/-! ### `step`, `init` -/

theorem inv_empty : Inv Model.Tables.empty := by
  refine ⟨?_, ?_, ?_, ?_, ?_, ?_, ?_, ?_, ?_, ?_, ?_⟩ <;> simp [Model.Tables.empty]

/-- set a host and its MAC entry online together (what `NewSession` does by hand) -/
theorem inv_setBothOnline {s : Sess} (hi : Inv s) {k : IP} {h : HostRec} (hp : (k, h) ∈ s.hosts)
    {fH : HostRec → HostRec} {fM : MacRec → MacRec} (kH : KeepH fH) (kM : KeepM fM)
    (hM : ∀ m, (fM m).online = true) : Inv (updMac (updHost s h.id fH) h.entry fM) := by
  have h1 : Inv (updMac s h.entry fM) := inv_updMac hi _ kM (fun m _ => hM m)
  have : updMac (updHost s h.id fH) h.entry fM = updHost (updMac s h.entry fM) h.id fH := rfl
  rw [this, updHost_eq]
  refine inv_mapH h1 kH.ite ?_
  intro p hpm hon
  by_cases hc : p.2.id = h.id
  · right
    intro m hm hme
    have hpe : p = (k, h) := inj_of_nodup_map (fun q : IP × HostRec => q.2.id) hi.hidNodup hpm hp (by simp [hc])
    subst hpe
    rw [updMac_eq] at hm
    obtain ⟨m0, _, rfl⟩ := mem_mapM.1 hm
    by_cases hc2 : m0.id = h.entry
    · simp [hc2, hM]
    · simp [hc2] at hme
  · left; simpa [hc] using hon

theorem inv_initHost {r : FocRes} (hi : Inv r.s) (c : Cfg) (now : Int) : Inv (initHost c now r) := by
  unfold initHost
  cases hb : hostById r.s r.host with
  | none => exact hi
  | some h =>
    obtain ⟨k, hp, _⟩ := hostById_some hb
    exact inv_setBothOnline hi hp (by keepH) (by keepM) (by intro m; rfl)

theorem inv_initRouter {r : FocRes} (hi : Inv r.s) : Inv (initRouter r) := by
  unfold initRouter
  cases hb : hostById r.s r.host with
  | none => exact hi
  | some h =>
    obtain ⟨k, hp, _⟩ := hostById_some hb
    exact inv_setBothOnline hi hp (by keepH) (by keepM) (by intro m; rfl)

theorem inv_init (c : Cfg) (now : Int) (mh mr : String) : Inv (init c now mh mr) := by
  unfold init
  exact inv_initRouter (inv_findOrCreateHost (inv_initHost (inv_findOrCreateHost inv_empty _ _ _ _) c now) _ _ _ _)

theorem inv_step {s : Sess} (hi : Inv s) (c : Cfg) (op : Op) : Inv (step c s op).1 := by
  cases op with
  | frame ev now manuf => exact inv_parse hi c ev now manuf
  | notify host dhcp4 srcMAC flag => exact inv_notifyOp hi host dhcp4 srcMAC flag
  | dhcpUpdate mac ip name now manuf => exact inv_dhcpUpdate hi mac ip name now manuf
  | setOffer mac ip name =>
    obtain ⟨h1, _⟩ := inv_macFindOrCreate hi mac
    exact inv_updMac h1 _ (by keepM) (by onSame)
  | capture mac =>
    obtain ⟨h1, _⟩ := inv_macFindOrCreate hi mac
    show Inv (if _ then _ else if _ then _ else _ : Sess × Out).1
    split
    · exact h1
    · split
      · exact h1
      · exact inv_updMac h1 _ (by keepM) (by onSame)
  | release mac =>
    simp only [step]
    split
    · exact inv_updMac hi _ (by keepM) (by onSame)
    · exact hi
  | purge now => exact inv_purge hi c now
  | setLastSeen ip t =>
    simp only [step]
    split
    · dsimp only
      exact inv_updHost hi _ (by keepH) (by onSame)
    · exact hi
  | updateName host kind name => exact inv_updateName hi host kind name
  | printTable => exact hi

/-! ### the count check of `printHostTable` -/

theorem nodup_flatMap {α β} (f : α → List β) :
    ∀ (l : List α), (∀ a ∈ l, (f a).Nodup) → l.Pairwise (fun a b => ∀ x, x ∈ f a → x ∈ f b → False) →
      (l.flatMap f).Nodup
  | [], _, _ => by simp
  | a :: r, h1, h2 => by
    rw [List.flatMap_cons]
    rw [List.pairwise_cons] at h2
    refine List.nodup_append.2 ⟨h1 a (List.mem_cons_self ..),
      nodup_flatMap f r (fun b hb => h1 b (List.mem_cons_of_mem _ hb)) h2.2, ?_⟩
    intro x hx y hy e
    obtain ⟨b, hb, hyb⟩ := List.mem_flatMap.1 hy
    exact h2.1 b hb x hx (e ▸ hyb)

theorem count_eq {s : Sess} (hi : Inv s) : (s.macs.map (fun m => m.hostList.length)).sum = s.hosts.length := by
  have hnd : (s.macs.flatMap (·.hostList)).Nodup := by
    apply nodup_flatMap _ _ hi.listNodup
    have hp : s.macs.Pairwise (fun a b => a.id ≠ b.id) := List.pairwise_map.1 hi.midNodup
    refine List.Pairwise.imp_of_mem ?_ hp
    intro a b ha hb hne x hxa hxb
    obtain ⟨p1, hp1, e1, e2⟩ := hi.listed a ha x hxa
    obtain ⟨p2, hp2, e3, e4⟩ := hi.listed b hb x hxb
    have : p1 = p2 := inj_of_nodup_map (fun q : IP × HostRec => q.2.id) hi.hidNodup hp1 hp2 (by simp [e1, e3])
    subst this
    exact hne (e2.symm.trans e4)
  have hperm : (s.macs.flatMap (·.hostList)).Perm (s.hosts.map (·.2.id)) := by
    refine (List.perm_ext_iff_of_nodup hnd hi.hidNodup).2 ?_
    intro x
    constructor
    · intro hx
      obtain ⟨m, hm, hxm⟩ := List.mem_flatMap.1 hx
      obtain ⟨p, hp, e, _⟩ := hi.listed m hm x hxm
      exact List.mem_map.2 ⟨p, hp, e⟩
    · intro hx
      obtain ⟨p, hp, e⟩ := List.mem_map.1 hx
      obtain ⟨m, hm, _, _, h3⟩ := hi.hostEntry p hp
      exact List.mem_flatMap.2 ⟨m, hm, e ▸ h3⟩
  have := hperm.length_eq
  rw [List.length_flatMap, List.length_map] at this
  exact this

end PV.Lemmas.Tables
