/-
  The DNSSL label walk of Model/Ndp.lean (`dnsslLoop`, `dnsslUnmarshal`) against the reference
  reading of the option (Spec/NdpWire.lean: `dnsName`, `dnsNames`): `dnssl_agree` is the statement
  `dnssl_exact` of Props/C14.lean.

  Route: (1) the index walk is rewritten as a walk over the remaining bytes (`loopL`); (2) the
  reference functions do not depend on their fuel once it exceeds the input length; (3) by induction
  on the fuel, `loopL` started inside a name / at the start of a name returns what the reference reads.
-/
import PacketVerif.Lemmas.NdpExact
namespace PV.Lemmas.NdpDnssl
open PV PV.Model.Ndp PV.Lemmas.Ndp PV.Spec.NdpWire PV.Lemmas.NdpExact

/-! ### the two `joinDots` agree -/

theorem joinDots_eq : ∀ l : List Bytes, PV.Model.Ndp.joinDots l = PV.Spec.NdpWire.joinDots l
  | [] => rfl
  | [_] => rfl
  | a :: b :: rest => by
    simp only [PV.Model.Ndp.joinDots, PV.Spec.NdpWire.joinDots]
    rw [joinDots_eq (b :: rest)]
    simp

/-! ### `hasPuny` is monotone under extension on both sides -/

theorem hasPuny_append_right : ∀ (x y : Bytes), hasPuny y = true → hasPuny (x ++ y) = true
  | [], _, h => h
  | c :: x, y, h => by
    simp only [List.cons_append, hasPuny, Bool.or_eq_true]
    exact Or.inr (hasPuny_append_right x y h)

theorem take4_append (x y : Bytes) (h : x.take 4 = [0x78, 0x6e, 0x2d, 0x2d]) :
    (x ++ y).take 4 = [0x78, 0x6e, 0x2d, 0x2d] := by
  match x, h with
  | a :: b :: c :: d :: r, h => simpa using h

theorem hasPuny_append_left : ∀ (x y : Bytes), hasPuny x = true → hasPuny (x ++ y) = true
  | [], _, h => by simp [hasPuny] at h
  | c :: x, y, h => by
    simp only [hasPuny, Bool.or_eq_true, beq_iff_eq] at h
    simp only [List.cons_append, hasPuny, Bool.or_eq_true, beq_iff_eq]
    rcases h with h | h
    · exact Or.inl (by simpa using take4_append (c :: x) y h)
    · exact Or.inr (hasPuny_append_left x y h)

theorem hasPuny_cons (c : UInt8) (x : Bytes) (h : hasPuny x = true) : hasPuny (c :: x) = true :=
  hasPuny_append_right [c] x h

theorem hasPuny_take (x : Bytes) (n : Nat) (h : hasPuny (x.take n) = true) : hasPuny x = true := by
  have := hasPuny_append_left (x.take n) (x.drop n) h
  rwa [List.take_append_drop] at this

theorem hasPuny_drop (x : Bytes) (n : Nat) (h : hasPuny (x.drop n) = true) : hasPuny x = true := by
  have := hasPuny_append_right (x.take n) (x.drop n) h
  rwa [List.take_append_drop] at this

/-! ### the label walk over the remaining bytes -/

/-- the four label tests of the loop -/
def labelOk (l : Bytes) : Bool := isASCII l && !l.isEmpty && !l.contains 0x2e && !l.contains 0x20

/-- `dnsslLoop` with the position `i` replaced by the bytes from `i` on -/
def loopL : Nat → Bytes → DnsslAcc → Outcome DnsslAcc
  | 0, _, _ => .hang
  | _ + 1, [], _ => .err .other
  | fuel + 1, n :: tl, acc =>
    if n.toNat ≥ tl.length then .err .other
    else if n.toNat = 0 then .ok acc
    else if labelOk (tl.take n.toNat) = false then .err .other
    else
      let acc1 : DnsslAcc := { acc with labels := acc.labels ++ [tl.take n.toNat],
                                        puny := acc.puny || hasPuny (tl.take n.toNat) }
      match tl.drop n.toNat with
      | [] => .panic
      | c :: tl2 =>
        if c = 0 then
          let acc2 : DnsslAcc := { acc1 with domains := acc1.domains ++ [PV.Model.Ndp.joinDots acc1.labels], labels := [] }
          match tl2 with
          | [] => .ok acc2
          | [z] => if z = 0 then .ok acc2 else loopL fuel [z] acc2
          | z :: y :: r => loopL fuel (z :: y :: r) acc2
        else loopL fuel (c :: tl2) acc1

theorem drop_cons_facts {v : Bytes} {i : Nat} {n : UInt8} {tl : Bytes} (h : v.drop i = n :: tl) :
    i < v.length ∧ v[i]? = some n ∧ v.drop (i + 1) = tl ∧ tl.length = v.length - i - 1 := by
  have hlt : i < v.length := by
    apply Classical.byContradiction; intro hn
    rw [List.drop_of_length_le (by omega)] at h; cases h
  rw [List.drop_eq_getElem_cons hlt] at h
  injection h with h1 h2
  refine ⟨hlt, ?_, h2, ?_⟩
  · rw [List.getElem?_eq_getElem hlt, h1]
  · rw [← h2]; simp; omega

theorem labelOk_if {α} (l : Bytes) (a b : Outcome α) :
    (if ¬ (isASCII l = true) then a
     else if (l.isEmpty = true) ∨ (l.contains 0x2e = true) ∨ (l.contains 0x20 = true) then a else b) =
    (if labelOk l = false then a else b) := by
  unfold labelOk
  cases isASCII l <;> cases l.isEmpty <;> cases l.contains 0x2e <;> cases l.contains 0x20 <;> simp

theorem dnsslLoop_eq_loopL (v : Bytes) : ∀ fuel i acc, i ≤ v.length →
    dnsslLoop v fuel i acc = loopL fuel (v.drop i) acc
  | 0, _, _, _ => rfl
  | fuel + 1, i, acc, hi => by
    rw [dnsslLoop, sliceFrom_eq_ok hi]
    simp only [Outcome.bind_ok]
    cases hb : v.drop i with
    | nil => simp [loopL]
    | cons n tl =>
      obtain ⟨hlt, hget, hd1, htl⟩ := drop_cons_facts hb
      have hidx : idx v i = .ok n := by simp [idx, hget]
      rw [loopL]
      by_cases h2 : (n :: tl).length < 2
      · have : n.toNat ≥ tl.length := by simp at h2; omega
        rw [if_pos h2, if_pos this]
      · rw [if_neg h2, hidx]
        simp only [Outcome.bind_ok]
        by_cases hge : n.toNat ≥ tl.length
        · have : ((n.toNat : Int) ≥ ((n :: tl).length : Int) - 1) := by simp; omega
          rw [if_pos this, if_pos hge]
        · have : ¬ ((n.toNat : Int) ≥ ((n :: tl).length : Int) - 1) := by simp; omega
          rw [if_neg this, if_neg hge]
          by_cases h0 : n.toNat = 0
          · rw [if_pos h0, if_pos h0]; rfl
          · rw [if_neg h0, if_neg h0]
            have hs : slice v (i + 1) (i + 1 + n.toNat) = .ok (tl.take n.toNat) := by
              rw [slice_eq_ok (by omega) (by omega), List.drop_take, hd1]
              congr 2; omega
            rw [hs]
            simp only [Outcome.bind_ok]
            rw [labelOk_if]
            by_cases hok : labelOk (tl.take n.toNat) = false
            · rw [if_pos hok, if_pos hok]
            · rw [if_neg hok, if_neg hok]
              have hd2 : v.drop (i + 1 + n.toNat) = tl.drop n.toNat := by
                rw [← hd1, List.drop_drop]
              cases hc : tl.drop n.toNat with
              | nil =>
                have := congrArg List.length hc
                simp at this; omega
              | cons c tl2 =>
                rw [hc] at hd2
                obtain ⟨hlt2, hget2, hd3, htl2⟩ := drop_cons_facts hd2
                have hidx2 : idx v (i + 1 + n.toNat) = .ok c := by simp [idx, hget2]
                rw [hidx2]
                simp only [Outcome.bind_ok]
                by_cases hc0 : c = 0
                · rw [if_pos hc0, if_pos hc0, sliceFrom_eq_ok (by omega)]
                  simp only [Outcome.bind_ok, hd3]
                  match tl2, hd3, htl2 with
                  | [], _, _ => simp
                  | [z], hd3, _ =>
                    have hidx3 : idx v (i + 1 + n.toNat + 1) = .ok z := by
                      simp [idx, (drop_cons_facts hd3).2.1]
                    simp only [List.length_cons, List.length_nil, hidx3, Outcome.bind_ok]
                    simp only [show ¬ (0 + 1 = 0) by omega, if_false, if_true]
                    by_cases hz : z = 0
                    · simp [hz]
                    · simp only [hz, if_false]
                      rw [dnsslLoop_eq_loopL v fuel _ _ (by omega), hd3]
                  | z :: y :: r, hd3, _ =>
                    simp only [List.length_cons]
                    rw [if_neg (by omega), if_neg (by omega)]
                    rw [dnsslLoop_eq_loopL v fuel _ _ (by omega), hd3]
                · rw [if_neg hc0, if_neg hc0]
                  rw [dnsslLoop_eq_loopL v fuel _ _ (by omega), hd2]

/-! ### the reference functions: unfolding, fuel independence -/

/-- the label test of the reference -/
def badLabel (l : Bytes) : Bool := l.any (fun c => c ≥ 0x80 ∨ c = 0x2e ∨ c = 0x20)

theorem dnsName_zero (f : Nat) (tl : Bytes) : dnsName (f + 1) (0 :: tl) = some ([], tl) := by
  simp [dnsName]

theorem dnsName_cons_ne (f : Nat) (n : UInt8) (tl : Bytes) (hn : n ≠ 0) :
    dnsName (f + 1) (n :: tl) =
      if tl.length < n.toNat then none
      else if badLabel (tl.take n.toNat) = true then none
      else (dnsName f (tl.drop n.toNat)).map (fun p => (tl.take n.toNat :: p.1, p.2)) := by
  simp only [dnsName, hn, if_false, badLabel]
  rfl

theorem dnsName_nil (f : Nat) : dnsName f [] = none := by
  cases f <;> rfl

theorem toNat_ne_zero {n : UInt8} (hn : n ≠ 0) : n.toNat ≠ 0 := by
  intro h; apply hn
  have : n.toNat = (0 : UInt8).toNat := by simpa using h
  exact UInt8.toNat_inj.1 this

/-- a successful read consumes at least one byte -/
theorem dnsName_len : ∀ (f : Nat) (b : Bytes) (ls : List Bytes) (r : Bytes),
    dnsName f b = some (ls, r) → r.length < b.length
  | 0, _, _, _, h => by simp [dnsName] at h
  | f + 1, [], _, _, h => by simp [dnsName] at h
  | f + 1, n :: tl, ls, r, h => by
    by_cases hn : n = 0
    · subst hn; rw [dnsName_zero] at h; cases h; simp
    · rw [dnsName_cons_ne f n tl hn] at h
      split at h
      · cases h
      · split at h
        · cases h
        · cases hd : dnsName f (tl.drop n.toNat) with
          | none => rw [hd] at h; cases h
          | some p =>
            rw [hd] at h
            simp only [Option.map_some, Option.some.injEq, Prod.mk.injEq] at h
            have := dnsName_len f _ p.1 p.2 hd
            rw [← h.2]
            simp only [List.length_drop, List.length_cons] at this ⊢
            omega

/-- a name that starts with a non-zero length byte has at least one label -/
theorem dnsName_ne_nil (f : Nat) (n : UInt8) (tl : Bytes) (hn : n ≠ 0) (r : Bytes) :
    dnsName f (n :: tl) ≠ some ([], r) := by
  cases f with
  | zero => simp [dnsName]
  | succ f =>
    rw [dnsName_cons_ne f n tl hn]
    split
    · simp
    · split
      · simp
      · cases dnsName f (tl.drop n.toNat) <;> simp

theorem dnsName_fuel : ∀ (f g : Nat) (b : Bytes), b.length < f → b.length < g → dnsName f b = dnsName g b
  | 0, _, _, h, _ => by omega
  | _ + 1, 0, _, _, h => by omega
  | f + 1, g + 1, [], _, _ => rfl
  | f + 1, g + 1, n :: tl, hf, hg => by
    by_cases hn : n = 0
    · subst hn; rw [dnsName_zero, dnsName_zero]
    · rw [dnsName_cons_ne f n tl hn, dnsName_cons_ne g n tl hn]
      simp only [List.length_cons] at hf hg
      rw [dnsName_fuel f g (tl.drop n.toNat) (by simp; omega) (by simp; omega)]

theorem dnsNames_succ (f : Nat) (b : Bytes) :
    dnsNames (f + 1) b =
      if b.all (· = 0) then some []
      else match dnsName (b.length + 1) b with
        | none => none
        | some ([], _) => none
        | some (ls, rest) => (dnsNames f rest).map (fun r => PV.Spec.NdpWire.joinDots ls :: r) := by
  rfl

theorem padClean_succ (f : Nat) (b : Bytes) :
    padClean (f + 1) b =
      if b.all (· = 0) then true
      else match dnsName (b.length + 1) b with
        | none => true
        | some ([], _) => false
        | some (_ :: _, rest) => padClean f rest := by
  rfl

theorem dnsNames_fuel : ∀ (f g : Nat) (b : Bytes), b.length < f → b.length < g → dnsNames f b = dnsNames g b
  | 0, _, _, h, _ => by omega
  | _ + 1, 0, _, _, h => by omega
  | f + 1, g + 1, b, hf, hg => by
    rw [dnsNames_succ, dnsNames_succ]
    split
    · rfl
    · cases hd : dnsName (b.length + 1) b with
      | none => rfl
      | some p =>
        obtain ⟨ls, r⟩ := p
        have hl := dnsName_len _ _ _ _ hd
        cases ls with
        | nil => rfl
        | cons l ls =>
          simp only []
          rw [dnsNames_fuel f g r (by omega) (by omega)]

theorem padClean_fuel : ∀ (f g : Nat) (b : Bytes), b.length < f → b.length < g → padClean f b = padClean g b
  | 0, _, _, h, _ => by omega
  | _ + 1, 0, _, _, h => by omega
  | f + 1, g + 1, b, hf, hg => by
    rw [padClean_succ, padClean_succ]
    split
    · rfl
    · cases hd : dnsName (b.length + 1) b with
      | none => rfl
      | some p =>
        obtain ⟨ls, r⟩ := p
        have hl := dnsName_len _ _ _ _ hd
        cases ls with
        | nil => rfl
        | cons l ls =>
          simp only []
          rw [padClean_fuel f g r (by omega) (by omega)]

/-- the code's four label tests = the reference's one, on a non-empty label -/
theorem labelOk_aux (l : Bytes) : (isASCII l && !l.contains 0x2e && !l.contains 0x20) = !badLabel l := by
  rw [Bool.eq_iff_iff]
  simp only [isASCII, badLabel, Bool.and_eq_true, List.all_eq_true, List.any_eq_false,
    decide_eq_true_eq, Bool.not_eq_eq_eq_not, Bool.not_true]
  constructor
  · rintro ⟨⟨ha, h1⟩, h2⟩ c hc hbad
    rcases hbad with h | h | h
    · have := ha c hc; exact absurd this (UInt8.not_lt.2 h)
    · subst h; simp_all
    · subst h; simp_all
  · intro h
    refine ⟨⟨?_, ?_⟩, ?_⟩
    · intro c hc
      have := h c hc
      apply Classical.byContradiction; intro hn; exact this (Or.inl (UInt8.not_lt.1 hn))
    · apply Bool.eq_false_iff.2; intro hm; exact h _ (by simpa using hm) (Or.inr (Or.inl rfl))
    · apply Bool.eq_false_iff.2; intro hm; exact h _ (by simpa using hm) (Or.inr (Or.inr rfl))

theorem labelOk_eq (l : Bytes) (h : l ≠ []) : labelOk l = !badLabel l := by
  unfold labelOk
  rw [← labelOk_aux l]
  cases l with
  | nil => exact absurd rfl h
  | cons c l => simp [Bool.and_assoc]

/-! ### the walk against the reference -/

/-- the accumulator returned when the reference reads the names `ds` from here on -/
def done (acc : DnsslAcc) (ds : List Bytes) : DnsslAcc :=
  { labels := [], domains := acc.domains ++ ds, puny := acc.puny }

theorem done_nil (acc : DnsslAcc) (h : acc.labels = []) : done acc [] = acc := by
  cases acc; simp only at h; subst h; simp [done]

/-- the walk started inside a name (at a non-zero length byte), for one fuel value -/
def MidOK (fuel : Nat) : Prop :=
  ∀ (n : UInt8) (tl : Bytes) (acc : DnsslAcc), (n :: tl).length < fuel → n ≠ 0 → hasPuny (n :: tl) = false →
    (∀ ls r, dnsName ((n :: tl).length + 1) (n :: tl) = some (ls, r) → padClean (r.length + 1) r = true) →
    loopL fuel (n :: tl) acc =
      match dnsName ((n :: tl).length + 1) (n :: tl) with
      | none => .err .other
      | some (ls, r) =>
        match dnsNames (r.length + 1) r with
        | none => .err .other
        | some ds => .ok (done acc (PV.Spec.NdpWire.joinDots (acc.labels ++ ls) :: ds))

/-- the walk started where a name starts, for one fuel value -/
def StartOK (fuel : Nat) : Prop :=
  ∀ (b : Bytes) (acc : DnsslAcc), b.length < fuel → 2 ≤ b.length → acc.labels = [] → hasPuny b = false →
    padClean (b.length + 1) b = true →
    loopL fuel b acc =
      match dnsNames (b.length + 1) b with
      | none => .err .other
      | some ds => .ok (done acc ds)

theorem all_zero_cons_ne (n : UInt8) (tl : Bytes) (hn : n ≠ 0) : ((n :: tl).all (· = 0)) = false := by
  simp [hn]

theorem start_of_mid (fuel : Nat) (hm : MidOK fuel) : StartOK fuel := by
  intro b acc hf h2 hl hp hc
  match b, h2 with
  | n :: t :: tl', _ =>
    cases fuel with
    | zero => omega
    | succ f =>
      by_cases hn : n = 0
      · subst hn
        have hlhs : loopL (f + 1) (0 :: t :: tl') acc = .ok acc := by
          rw [loopL]
          have : ¬ ((0 : UInt8).toNat ≥ (t :: tl').length) := by simp
          rw [if_neg this, if_pos (by simp)]
        rw [hlhs, dnsNames_succ]
        by_cases hall : ((0 :: t :: tl').all (· = 0)) = true
        · rw [if_pos hall]
          simp only [done_nil acc hl]
        · rw [padClean_succ, if_neg hall, dnsName_zero] at hc
          cases hc
      · have hall := all_zero_cons_ne n (t :: tl') hn
        have hpad : ∀ ls r, dnsName ((n :: t :: tl').length + 1) (n :: t :: tl') = some (ls, r) →
            padClean (r.length + 1) r = true := by
          intro ls r hd
          rw [padClean_succ, hall, hd] at hc
          have hlen := dnsName_len _ _ _ _ hd
          cases ls with
          | nil => simp at hc
          | cons l ls =>
            simp only [Bool.false_eq_true, if_false] at hc
            rw [← hc]
            exact padClean_fuel _ _ r (by omega) (by omega)
        rw [hm n (t :: tl') acc hf hn hp hpad, dnsNames_succ, hall]
        simp only [Bool.false_eq_true, if_false]
        cases hd : dnsName ((n :: t :: tl').length + 1) (n :: t :: tl') with
        | none => rfl
        | some p =>
          obtain ⟨ls, r⟩ := p
          have hlen := dnsName_len _ _ _ _ hd
          cases ls with
          | nil => exact absurd hd (dnsName_ne_nil _ n _ hn r)
          | cons l ls =>
            simp only []
            rw [dnsNames_fuel (n :: t :: tl').length (r.length + 1) r (by omega) (by omega), hl]
            cases dnsNames (r.length + 1) r with
            | none => rfl
            | some ds => simp [done]

theorem hasPuny_false_of {x y : Bytes} (h : hasPuny x = false) (hy : hasPuny y = true → hasPuny x = true) :
    hasPuny y = false := by
  cases hh : hasPuny y with
  | false => rfl
  | true => rw [hy hh] at h; cases h

theorem mid_step (fuel : Nat) (hm : MidOK fuel) : MidOK (fuel + 1) := by
  have hstart := start_of_mid fuel hm
  intro n tl acc hf hn hp hpad
  have hn0 := toNat_ne_zero hn
  simp only [List.length_cons] at hf
  have hpl : hasPuny (tl.take n.toNat) = false :=
    hasPuny_false_of hp (fun h => hasPuny_cons n tl (hasPuny_take tl _ h))
  have hpd : hasPuny (tl.drop n.toNat) = false :=
    hasPuny_false_of hp (fun h => hasPuny_cons n tl (hasPuny_drop tl _ h))
  rw [loopL]
  simp only [List.length_cons] at hpad ⊢
  rw [dnsName_cons_ne _ n tl hn] at hpad ⊢
  by_cases hge : n.toNat ≥ tl.length
  · rw [if_pos hge]
    by_cases hlt : tl.length < n.toNat
    · rw [if_pos hlt]
    · rw [if_neg hlt]
      have : tl.drop n.toNat = [] := List.drop_of_length_le (by omega)
      rw [this, dnsName_nil]
      have hnone : (if badLabel (tl.take n.toNat) = true then none
          else Option.map (fun p => (tl.take n.toNat :: p.fst, p.snd)) (none : Option (List Bytes × Bytes))) = none := by
        split <;> rfl
      rw [hnone]
  · have hlt : ¬ tl.length < n.toNat := by omega
    rw [if_neg hge, if_neg hn0, if_neg hlt]
    rw [if_neg hlt] at hpad
    have hne : tl.take n.toNat ≠ [] := by
      intro h; have := congrArg List.length h
      rw [List.length_take] at this; simp only [List.length_nil] at this; omega
    rw [labelOk_eq _ hne]
    by_cases hbad : badLabel (tl.take n.toNat) = true
    · rw [hbad]; simp only [Bool.not_true, if_true]
    · rw [if_neg hbad] at hpad
      have hbad' : badLabel (tl.take n.toNat) = false := by simpa using hbad
      rw [hbad']
      simp only [Bool.not_false, Bool.true_eq_false, Bool.false_eq_true, if_false, hpl, Bool.or_false]
      cases hc : tl.drop n.toNat with
      | nil => have := congrArg List.length hc; simp at this; omega
      | cons c tl2 =>
        rw [hc] at hpad hpd
        have hlen2 : (c :: tl2).length = tl.length - n.toNat := by rw [← hc]; simp
        simp only [List.length_cons] at hlen2
        simp only []
        by_cases hc0 : c = 0
        · subst hc0
          rw [if_pos rfl, dnsName_zero]
          rw [dnsName_zero] at hpad
          have hpad' : padClean (tl2.length + 1) tl2 = true := hpad _ _ rfl
          have hp2 : hasPuny tl2 = false := hasPuny_false_of hpd (hasPuny_cons 0 tl2)
          simp only [Option.map_some, joinDots_eq]
          match tl2, hpad', hp2, hlen2 with
          | [], _, _, _ =>
            simp [dnsNames_succ, done]
          | [z], _, _, _ =>
            by_cases hz : z = 0
            · subst hz; simp [dnsNames_succ, done]
            · have hz0 := toNat_ne_zero hz
              cases fuel with
              | zero => omega
              | succ f' =>
                have hzp : 0 < z.toNat := by omega
                simp only [hz, if_false]
                rw [loopL, if_pos (by simp)]
                simp [dnsNames_succ, hz, dnsName_cons_ne _ z [] hz, hzp]
          | z :: y :: r, hpad', hp2, hlen2 =>
            simp only []
            rw [hstart (z :: y :: r) _ (by simp only [List.length_cons] at hlen2 ⊢; omega) (by simp) rfl hp2 hpad']
            cases dnsNames ((z :: y :: r).length + 1) (z :: y :: r) with
            | none => rfl
            | some ds => simp [done]
        · rw [if_neg hc0]
          have hf2 : (c :: tl2).length < fuel := by simp only [List.length_cons]; omega
          have hfu : dnsName (tl.length + 1) (c :: tl2) = dnsName ((c :: tl2).length + 1) (c :: tl2) :=
            dnsName_fuel _ _ _ (by simp only [List.length_cons]; omega) (by omega)
          rw [hfu] at hpad ⊢
          rw [hm c tl2 _ hf2 hc0 hpd (by
            intro ls r hd
            exact hpad (tl.take n.toNat :: ls) r (by rw [hd]; rfl))]
          cases hd : dnsName ((c :: tl2).length + 1) (c :: tl2) with
          | none => rfl
          | some p =>
            obtain ⟨ls, r⟩ := p
            simp only [Option.map_some, List.append_assoc, List.singleton_append]
            cases dnsNames (r.length + 1) r with
            | none => rfl
            | some ds => simp [done]

theorem midOK : ∀ fuel, MidOK fuel
  | 0 => by intro n tl acc hf; omega
  | fuel + 1 => mid_step fuel (midOK fuel)

theorem startOK (fuel : Nat) : StartOK fuel := start_of_mid fuel (midOK fuel)

/-! ### the option -/

/-- **the DNSSL label walk reads the option as the reference does** on every framed DNSSL option whose
    names area carries no Punycode marker and is cleanly padded -/
theorem dnssl_agree (o : Tlv) (hw : o.wf) (_ht : o.type = 31) (hp : hasPuny (o.body.drop 6) = false)
    (hc : padClean ((o.body.drop 6).length + 1) (o.body.drop 6) = true) : DnsslAgree o := by
  intro _
  obtain ⟨t, len, body⟩ := o
  obtain ⟨hl1, hl2, hb⟩ := hw
  simp only at hl1 hl2 hb hp hc
  obtain ⟨b0, b1, b2, b3, b4, b5, names, rfl⟩ := six_of_len len body hl1 hb
  simp only [List.drop_succ_cons, List.drop_zero] at hp hc
  simp only [List.length_cons] at hb
  simp only [Tlv.bytes]
  unfold dnsslUnmarshal dnsslSpec
  have hlen2 : ¬ (t :: UInt8.ofNat len :: b0 :: b1 :: b2 :: b3 :: b4 :: b5 :: names).length < 2 := by
    simp only [List.length_cons]; omega
  rw [if_neg hlen2]
  simp only [idx, List.getElem?_cons_zero, List.getElem?_cons_succ, Outcome.bind_ok, ofNat_toNat_lt hl2]
  rw [sliceFrom_eq_ok (by simp only [List.length_cons]; omega)]
  simp only [Outcome.bind_ok, List.drop_succ_cons, List.drop_zero, List.length_cons]
  have hi : ¬ ((len : Int) * 8 - 2 ≠ ((names.length + 1 + 1 + 1 + 1 + 1 + 1 : Nat) : Int)) := by omega
  rw [if_neg hi, slice_eq_ok (by omega) (by simp only [List.length_cons]; omega)]
  have e1 : List.drop 2 (List.take 6 (b0 :: b1 :: b2 :: b3 :: b4 :: b5 :: names)) = [b2, b3, b4, b5] := by simp
  rw [e1]
  simp only [u32be, Outcome.bind_ok, be32_nat32]
  rw [dnsslLoop_eq_loopL _ _ _ _ (by simp only [List.length_cons]; omega)]
  simp only [List.drop_succ_cons, List.drop_zero]
  match names, hb, hp, hc with
  | [], _, _, _ => simp [loopL, dnsNames_succ]
  | [x], hb, _, _ => simp only [List.length_cons, List.length_nil] at hb; omega
  | x :: y :: r, hb, hp, hc =>
    rw [startOK _ (x :: y :: r) {} (by simp only [List.length_cons]; omega) (by simp) rfl hp hc]
    cases dnsNames ((x :: y :: r).length + 1) (x :: y :: r) with
    | none => rfl
    | some ds =>
      cases ds with
      | nil => rfl
      | cons d ds => simp [done]

/-- every option framed by the reference is well-formed -/
theorem tlvs_wf : ∀ (k : Nat) (b : Bytes) (l : List Tlv), b.length ≤ k → tlvs b = some l → ∀ o ∈ l, o.wf
  | 0, b, l, hk, h => by
    have : b = [] := List.eq_nil_of_length_eq_zero (by omega)
    subst this
    simp [tlvs] at h; subst h
    intro o ho; cases ho
  | k + 1, b, l, hk, h => by
    match b, h with
    | [], h => simp [tlvs] at h; subst h; intro o ho; cases ho
    | [x], h => simp [tlvs] at h
    | t :: lb :: rest, h =>
      rw [tlvs_cons2] at h
      by_cases h0 : lb.toNat = 0
      · simp [h0] at h
      · by_cases hfit : rest.length < lb.toNat * 8 - 2
        · simp [h0, hfit] at h
        · simp only [h0, hfit, if_false, Option.map_eq_some_iff] at h
          obtain ⟨l', hl', rfl⟩ := h
          intro o ho
          rcases List.mem_cons.1 ho with rfl | ho
          · exact tlv_wf t lb rest h0 hfit
          · exact tlvs_wf k _ l' (by simp only [List.length_cons, List.length_drop] at hk ⊢; omega) hl' o ho

end PV.Lemmas.NdpDnssl
