/-
  IPv4 broadcast address computed byte by byte (`a4[i] | ^mask[i]`) equals
  `lan + (2 ^ (32 - bits) - 1)` for a network address `lan` aligned to its prefix.
-/
import PacketVerif.Model.Dhcp4Srv
namespace PV.Lemmas.DhcpFileBcast
open PV PV.Model.Dhcp4Srv

/-- byte-wise `a | ^m` -/
def orNot (a m : UInt8) : UInt8 := a ||| ~~~m

/-- One byte of the result: if the complemented mask byte is the byte of `h1` at shift `s`,
    the Go byte is the byte of `lan ||| h1` at shift `s`. -/
theorem byte_eq (lan h1 mb s : Nat) (hc : 255 - mb % 256 = (h1 / 2 ^ s) % 256) :
    (orNot (UInt8.ofNat (lan / 2 ^ s)) (UInt8.ofNat mb)).toNat = ((lan ||| h1) / 2 ^ s) % 256 := by
  unfold orNot
  rw [UInt8.toNat_or, UInt8.toNat_not, UInt8.toNat_ofNat', UInt8.toNat_ofNat']
  have h256 : (256 : Nat) = 2 ^ 8 := by decide
  have hsz : UInt8.size - 1 - mb % 2 ^ 8 = (h1 / 2 ^ s) % 2 ^ 8 := by
    have : UInt8.size = 256 := rfl
    rw [this, ← h256]; exact hc
  rw [hsz, h256, ← Nat.shiftRight_eq_div_pow, ← Nat.shiftRight_eq_div_pow, ← Nat.shiftRight_eq_div_pow,
    Nat.shiftRight_or_distrib, Nat.or_mod_two_pow]

/-- an aligned address ORed with the host mask is the sum -/
theorem or_eq_add (lan k : Nat) (hm : lan % 2 ^ k = 0) :
    lan ||| (2 ^ k - 1) = lan + (2 ^ k - 1) := by
  have hpos : 0 < 2 ^ k := Nat.two_pow_pos k
  have hlt : 2 ^ k - 1 < 2 ^ k := by omega
  have hq : lan = 2 ^ k * (lan / 2 ^ k) := by
    have := Nat.div_add_mod lan (2 ^ k)
    omega
  rw [hq]
  exact (Nat.two_pow_add_eq_or_of_lt hlt _).symm

/-- the four bytes of a 32-bit number reassemble to it -/
theorem be32_bytes (n : Nat) (hn : n < 4294967296) (a b c d : UInt8)
    (ha : a.toNat = (n / 16777216) % 256) (hb : b.toNat = (n / 65536) % 256)
    (hc : c.toNat = (n / 256) % 256) (hd : d.toNat = n % 256) :
    be32 a b c d = n := by
  unfold be32
  omega

/-- the complemented mask bytes are the bytes of the host mask -/
theorem mask_compl (bits : Nat) (hb : bits ≤ 32) :
    255 - ((4294967296 - 2 ^ (32 - bits)) / 16777216) % 256 = ((2 ^ (32 - bits) - 1) / 16777216) % 256 ∧
    255 - ((4294967296 - 2 ^ (32 - bits)) / 65536) % 256 = ((2 ^ (32 - bits) - 1) / 65536) % 256 ∧
    255 - ((4294967296 - 2 ^ (32 - bits)) / 256) % 256 = ((2 ^ (32 - bits) - 1) / 256) % 256 ∧
    255 - (4294967296 - 2 ^ (32 - bits)) % 256 = (2 ^ (32 - bits) - 1) % 256 := by
  have h : ∀ b, b < 33 →
      255 - ((4294967296 - 2 ^ (32 - b)) / 16777216) % 256 = ((2 ^ (32 - b) - 1) / 16777216) % 256 ∧
      255 - ((4294967296 - 2 ^ (32 - b)) / 65536) % 256 = ((2 ^ (32 - b) - 1) / 65536) % 256 ∧
      255 - ((4294967296 - 2 ^ (32 - b)) / 256) % 256 = ((2 ^ (32 - b) - 1) / 256) % 256 ∧
      255 - (4294967296 - 2 ^ (32 - b)) % 256 = (2 ^ (32 - b) - 1) % 256 := by
    decide
  exact h bits (by omega)

theorem bcast_be32 (lan bits : Nat) (hb : bits ≤ 32) (hl : lan < 4294967296) (hm : lan % 2 ^ (32 - bits) = 0) :
    be32 (orNot (UInt8.ofNat (lan / 16777216)) (UInt8.ofNat ((4294967296 - 2 ^ (32 - bits)) / 16777216)))
         (orNot (UInt8.ofNat (lan / 65536)) (UInt8.ofNat ((4294967296 - 2 ^ (32 - bits)) / 65536)))
         (orNot (UInt8.ofNat (lan / 256)) (UInt8.ofNat ((4294967296 - 2 ^ (32 - bits)) / 256)))
         (orNot (UInt8.ofNat lan) (UInt8.ofNat (4294967296 - 2 ^ (32 - bits))))
      = lan + (2 ^ (32 - bits) - 1) := by
  obtain ⟨c3, c2, c1, c0⟩ := mask_compl bits hb
  have hor := or_eq_add lan (32 - bits) hm
  have hle : 2 ^ (32 - bits) ≤ 4294967296 := by
    have : 2 ^ (32 - bits) ≤ 2 ^ 32 := Nat.pow_le_pow_right (by decide) (by omega)
    simpa using this
  have hsum : lan + (2 ^ (32 - bits) - 1) < 4294967296 := by
    have hpos : 0 < 2 ^ (32 - bits) := Nat.two_pow_pos _
    -- lan = h * q, q < 2^32 / h
    have hq := Nat.div_add_mod lan (2 ^ (32 - bits))
    rw [hm, Nat.add_zero] at hq
    have hdvd : 2 ^ (32 - bits) ∣ 4294967296 := by
      have : 2 ^ (32 - bits) ∣ 2 ^ 32 := Nat.pow_dvd_pow 2 (by omega)
      simpa using this
    obtain ⟨t, ht⟩ := hdvd
    have hqt : lan / 2 ^ (32 - bits) < t := by
      apply Nat.lt_of_mul_lt_mul_left (a := 2 ^ (32 - bits))
      rw [hq, ← ht]; exact hl
    have : 2 ^ (32 - bits) * (lan / 2 ^ (32 - bits) + 1) ≤ 2 ^ (32 - bits) * t :=
      Nat.mul_le_mul_left _ hqt
    rw [Nat.mul_add, Nat.mul_one, hq, ← ht] at this
    omega
  have b3 := byte_eq lan (2 ^ (32 - bits) - 1) ((4294967296 - 2 ^ (32 - bits)) / 16777216) 24 c3
  have b2 := byte_eq lan (2 ^ (32 - bits) - 1) ((4294967296 - 2 ^ (32 - bits)) / 65536) 16 c2
  have b1 := byte_eq lan (2 ^ (32 - bits) - 1) ((4294967296 - 2 ^ (32 - bits)) / 256) 8 c1
  have b0 := byte_eq lan (2 ^ (32 - bits) - 1) (4294967296 - 2 ^ (32 - bits)) 0
    (by simpa using c0)
  rw [hor] at b3 b2 b1 b0
  have e24 : (2 : Nat) ^ 24 = 16777216 := by decide
  have e16 : (2 : Nat) ^ 16 = 65536 := by decide
  have e8 : (2 : Nat) ^ 8 = 256 := by decide
  rw [e24] at b3
  rw [e16] at b2
  rw [e8] at b1
  rw [Nat.pow_zero, Nat.div_one, Nat.div_one] at b0
  exact be32_bytes _ hsum _ _ _ _ b3 b2 b1 b0

end PV.Lemmas.DhcpFileBcast
