/-
  Helper lemmas for Props/C20Tie.lean: the generated `fastlog.Line` methods (Gen/Loops.lean, state `GLine` with an `Int`
  cursor) against the hand-written model (Model/Fastlog.lean, state `Line` with a 2048-byte buffer and a `Nat` cursor).
-/
import PacketVerif.Gen.Loops
import PacketVerif.Model.Fastlog
import PacketVerif.Lemmas.LoopGo
namespace PV.Lemmas.FastlogLoops
open PV PV.Model.LoopGo PV.Gen.Loops PV.Model.Fastlog PV.Lemmas.LoopGo

/-- a model line as the generated code sees it -/
def G (l : Line) : GLine := ⟨l.buf.1, (l.idx : Int)⟩

/-- an outcome of the model in the generated code's state type -/
def liftG : Outcome Line → Outcome GLine
  | .ok l => .ok (G l)
  | .err e => .err e
  | .panic => .panic
  | .hang => .hang

@[simp] theorem liftG_ok (l : Line) : liftG (.ok l) = .ok (G l) := rfl
@[simp] theorem liftG_panic : liftG .panic = .panic := rfl
@[simp] theorem G_buf (l : Line) : (G l).buf = l.buf.1 := rfl
@[simp] theorem G_idx (l : Line) : (G l).idx = (l.idx : Int) := rfl
@[simp] theorem buf_length (l : Line) : l.buf.1.length = 2048 := l.buf.2

theorem bind_assoc {α β γ} (x : Outcome α) (f : α → Outcome β) (g : β → Outcome γ) :
    ((x >>= f) >>= g) = (x >>= fun a => f a >>= g) := by
  cases x <;> rfl

theorem bind_pure {α} (x : Outcome α) : (x >>= fun a => pure a) = x := by
  cases x <;> rfl

/-- sequencing: a generated step that is the lifted model step, followed by continuations that agree on lifted states -/
theorem liftG_bind (x : Outcome Line) (k : GLine → Outcome GLine) (k' : Line → Outcome Line)
    (h : ∀ l, k (G l) = liftG (k' l)) : (liftG x >>= k) = liftG (x >>= k') := by
  cases x <;> simp [liftG, h] <;> rfl

/-- a read (table / argument byte) followed by continuations that agree -/
theorem val_step {α} (x : Outcome α) (k : α → Outcome GLine) (k' : α → Outcome Line)
    (h : ∀ a, k a = liftG (k' a)) : (x >>= k) = liftG (x >>= k') := by
  cases x <;> simp [h] <;> rfl

/-- `appendByte`: `l.buffer[l.index] = value; l.index++` -/
theorem appendByte_tie (l : Line) (v : UInt8) : genLine_appendByte (G l) v = liftG (appendByte l v) := by
  unfold genLine_appendByte appendByte setI
  by_cases h : l.idx < bufSize
  · have h' : (l.idx : Int) < 2048 := by unfold bufSize at h; omega
    simp [h, h', G, Buf.set]
  · have h' : ¬ (l.idx : Int) < 2048 := by unfold bufSize at h; omega
    simp [h, h']

/-- the idiom `l.index = l.index + copy(l.buffer[l.index:], s)` -/
theorem copyI_G (l : Line) (s : Bytes) :
    copyI (G l).buf (G l).idx ((G l).buf.length : Int) s =
      match copyIn l s with
      | .ok l' => .ok (l'.buf.1, (l'.idx : Int) - (l.idx : Int))
      | .err e => .err e
      | .panic => .panic
      | .hang => .hang := by
  unfold copyI copyIn copyTo
  simp only [bufSize, G_buf, G_idx, buf_length]
  by_cases h : l.idx ≤ 2048
  · have h' : (l.idx : Int) ≤ 2048 := by omega
    have hn : ((2048 : Int) - (l.idx : Int)).toNat = 2048 - l.idx := by omega
    have hfit : l.idx + min s.length (2048 - l.idx) ≤ 2048 := by omega
    simp [h, h', hn, Buf.splice, splice, hfit, Nat.min_comm]
    omega
  · have h' : ¬ (l.idx : Int) ≤ 2048 := by omega
    simp [h, h']

theorem G_upd (l l' : Line) :
    ({ buf := l'.buf.1, idx := (G l).idx + ((l'.idx : Int) - (l.idx : Int)) } : GLine) = G l' := by
  simp [G]; omega

/-- the copy idiom followed by a continuation -/
theorem copy_step (l : Line) (s : Bytes) (k : Bytes × Int → Outcome GLine) (k' : Line → Outcome Line)
    (h : ∀ l' : Line, k (l'.buf.1, (l'.idx : Int) - (l.idx : Int)) = liftG (k' l')) :
    (copyI (G l).buf (G l).idx ((G l).buf.length : Int) s >>= k) = liftG (copyIn l s >>= k') := by
  rw [copyI_G]
  cases copyIn l s <;> simp [h] <;> rfl

/-- the copy idiom as the last statement -/
theorem copy_last (l : Line) (s : Bytes) :
    (copyI (G l).buf (G l).idx ((G l).buf.length : Int) s >>= fun p =>
      (pure ({ buf := p.1, idx := (G l).idx + p.2 } : GLine) : Outcome GLine)) = liftG (copyIn l s) := by
  have := copy_step l s (fun p => pure ({ buf := p.1, idx := (G l).idx + p.2 } : GLine)) pure
    (fun l' => by simp only [G_upd]; rfl)
  rw [this, bind_pure]

theorem idxI_0 (b : Bytes) : idxI b (0 : Int) = idx b 0 := by simp [idxI]
theorem idxI_1 (b : Bytes) : idxI b (1 : Int) = idx b 1 := by simp [idxI]
theorem idxI_2 (b : Bytes) : idxI b (2 : Int) = idx b 2 := by simp [idxI]
theorem idxI_3 (b : Bytes) : idxI b (3 : Int) = idx b 3 := by simp [idxI]
theorem idxI_4 (b : Bytes) : idxI b (4 : Int) = idx b 4 := by simp [idxI]
theorem idxI_5 (b : Bytes) : idxI b (5 : Int) = idx b 5 := by simp [idxI]

/-! ### printInt -/

theorem u32_pos_iff (n : UInt32) : n > 0 ↔ n ≠ 0 := by
  constructor
  · intro h h0; subst h0; exact absurd h (by decide)
  · intro h
    have : n.toNat ≠ 0 := fun h0 => h (UInt32.toNat_inj.mp (by simpa using h0))
    show (0 : UInt32) < n
    rw [UInt32.lt_iff_toNat_lt]; simp; omega

theorem u32_div10_lt (n : UInt32) (h : n ≠ 0) : (n / 10).toNat < n.toNat := by
  have : n.toNat ≠ 0 := fun h0 => h (UInt32.toNat_inj.mp (by simpa using h0))
  rw [UInt32.toNat_div]; exact Nat.div_lt_self (by omega) (by decide)

/-- first loop of `printInt`: `for n > 0 { i++; n /= 10 }` counts the digits -/
theorem printInt_loop1_eq (fuel : Nat) : ∀ (i : Int) (n : UInt32), n.toNat < fuel →
    genLine_printInt_loop1 fuel i n = .ok (i + (countDigits n : Int), 0) := by
  induction fuel with
  | zero => intro i n h; omega
  | succ f ih =>
    intro i n h
    rw [genLine_printInt_loop1, countDigits]
    by_cases h0 : n = 0
    · subst h0; simp
    · have hp : n > 0 := (u32_pos_iff n).mpr h0
      have := ih (i + 1) (n / 10) (by have := u32_div10_lt n h0; omega)
      simp only [hp, if_true, h0, dite_false, this]
      congr 2; omega

/-- second loop of `printInt`: `for v > 0 { l.buffer[i] = byte(v%10) + '0'; i--; v /= 10 }` with `i = e - 1` -/
theorem printInt_loop2_eq (fuel : Nat) : ∀ (b : Buf) (idx : Int) (v : UInt32) (e : Nat), v.toNat < fuel →
    match printLoop b e v with
    | .ok b' => ∃ i', genLine_printInt_loop2 fuel ⟨b.1, idx⟩ v ((e : Int) - 1) = .ok (⟨b'.1, idx⟩, 0, i')
    | .panic => genLine_printInt_loop2 fuel ⟨b.1, idx⟩ v ((e : Int) - 1) = .panic
    | _ => False := by
  induction fuel with
  | zero => intro b idx v e h; omega
  | succ f ih =>
    intro b idx v e h
    rw [genLine_printInt_loop2, printLoop]
    by_cases h0 : v = 0
    · subst h0; simp
    · have hp : v > 0 := (u32_pos_iff v).mpr h0
      simp only [hp, if_true, h0, dite_false]
      by_cases he : e = 0 ∨ e > bufSize
      · have : ¬ ((0 : Int) ≤ (e : Int) - 1 ∧ (e : Int) - 1 < ((b.1.length : Nat) : Int)) := by
          rw [b.2]; unfold bufSize at *; omega
        simp only [he, if_true, setI, this, if_false, Outcome.bind_panic]
      · have hin : ((0 : Int) ≤ (e : Int) - 1 ∧ (e : Int) - 1 < ((b.1.length : Nat) : Int)) := by
          rw [b.2]; unfold bufSize at *; omega
        have hcast : ((e : Int) - 1).toNat = e - 1 := by omega
        have hnext : (e : Int) - 1 - 1 = ((e - 1 : Nat) : Int) - 1 := by omega
        have := ih (b.set (e - 1) ((v % 10).toUInt8 + 0x30)) idx (v / 10) (e - 1)
          (by have := u32_div10_lt v h0; omega)
        simp only [he, if_false, setI, hin, and_self, if_true, Outcome.bind_ok, hcast, hnext]
        exact this

end PV.Lemmas.FastlogLoops
