/-
  Helper lemmas for C03 / C07, part 1: the memory model of `Model/Encode.lean` (poke / reslice / copyAt /
  put8 / put16) under its bounds, and the symbolic-execution tactics used to run an encoder composition on a
  buffer whose first cells are explicit (`c₀ :: c₁ :: … :: tail`).
-/
import PacketVerif.Model.Encode
set_option linter.unusedSimpArgs false
namespace PV.Lemmas
open PV PV.Model

/-! ### lists of known length as explicit cells -/

theorem cons_of_length_succ {α} {l : List α} {n : Nat} (h : l.length = n + 1) :
    ∃ a t, l = a :: t ∧ t.length = n := by
  cases l with
  | nil => simp at h
  | cons a t => exact ⟨a, t, rfl, by simpa using h⟩

theorem cons_of_succ_le {α} {l : List α} {n : Nat} (h : n + 1 ≤ l.length) :
    ∃ a t, l = a :: t ∧ n ≤ t.length := by
  cases l with
  | nil => simp at h
  | cons a t => exact ⟨a, t, rfl, by simpa using h⟩

theorem nil_of_length_zero {α} {l : List α} (h : l.length = 0) : l = [] := List.eq_nil_of_length_eq_zero h

/-- `cells h` : `h : l.length = <numeral>` ↦ `l` replaced by explicit cons cells everywhere -/
syntax "cells " ident : tactic
set_option hygiene false in
macro_rules
  | `(tactic| cells $h:ident) =>
    `(tactic| ((repeat (have cells_tmp := cons_of_length_succ $h; clear $h; obtain ⟨_, _, rfl, $h:ident⟩ := cells_tmp)); (cases nil_of_length_zero $h)))

/-- `cells_le h` : `h : <numeral> ≤ l.length` ↦ the first cells of `l` made explicit -/
syntax "cells_le " ident : tactic
set_option hygiene false in
macro_rules
  | `(tactic| cells_le $h:ident) =>
    `(tactic| (repeat (have cells_tmp := cons_of_succ_le $h; clear $h; obtain ⟨_, _, rfl, $h:ident⟩ := cells_tmp)))

/-! ### poke -/

/-- `poke` as a structurally recursive function: its equations hold by `rfl`, so `simp` evaluates it on explicit
    cells by definitional steps -/
def pokeC : Bytes → Nat → Bytes → Bytes
  | [], _, bs => bs
  | x :: xs, n + 1, bs => x :: pokeC xs n bs
  | x :: xs, 0, [] => x :: xs
  | _ :: xs, 0, b :: bs => b :: pokeC xs 0 bs

theorem poke_eq_pokeC (m : Bytes) (k : Nat) (bs : Bytes) : poke m k bs = pokeC m k bs := by
  fun_induction pokeC m k bs with
  | case1 k bs => simp [poke]
  | case2 x xs n bs ih => rw [← ih]; simp [poke, Nat.add_right_comm]
  | case3 x xs => simp [poke]
  | case4 x xs b bs ih => rw [← ih]; simp [poke]

theorem pokeC_cons_succ (x : UInt8) (xs : Bytes) (n : Nat) (bs : Bytes) :
    pokeC (x :: xs) (n + 1) bs = x :: pokeC xs n bs := rfl
theorem pokeC_zero_cons (x b : UInt8) (xs bs : Bytes) :
    pokeC (x :: xs) 0 (b :: bs) = b :: pokeC xs 0 bs := rfl
theorem pokeC_zero_nil (m : Bytes) : pokeC m 0 [] = m := by cases m <;> rfl

/-- writing a payload over a not yet structured part of the buffer -/
theorem pokeC_append (A T bs : Bytes) (h : A.length = bs.length) : pokeC (A ++ T) 0 bs = bs ++ T := by
  rw [← poke_eq_pokeC]; simp [poke, ← h]

theorem split_tail (T : Bytes) (n : Nat) (h : n ≤ T.length) : ∃ A T', T = A ++ T' ∧ A.length = n :=
  ⟨T.take n, T.drop n, by simp, by simp; omega⟩

theorem ihl_45 : ((0x45 : UInt8).toNat &&& 0x0f) <<< 2 = 20 := by decide

theorem take_8_add (a0 a1 a2 a3 a4 a5 a6 a7 : UInt8) (pl T : Bytes) (n : Nat) (h : n = pl.length) :
    List.take (8 + n) (a0 :: a1 :: a2 :: a3 :: a4 :: a5 :: a6 :: a7 :: (pl ++ T)) =
      a0 :: a1 :: a2 :: a3 :: a4 :: a5 :: a6 :: a7 :: pl := by
  subst h
  rw [show 8 + pl.length = pl.length + 8 by omega]
  simp

theorem take_eq_frame (m frame T : Bytes) (n : Nat) (hm : m = frame ++ T) (hn : n = frame.length) :
    m.take n = frame := by
  subst hm hn; simp

theorem poke_zero (m bs : Bytes) : poke m 0 bs = bs ++ m.drop bs.length := by simp [poke]

theorem poke_pre (pre X : Bytes) (k i : Nat) (bs : Bytes) (h : k = pre.length + i) :
    poke (pre ++ X) k bs = pre ++ poke X i bs := by
  subst h
  have h1 : List.take (pre.length + i) pre = pre := List.take_of_length_le (by omega)
  have h2 : List.drop (pre.length + (i + bs.length)) pre = [] := List.drop_of_length_le (by omega)
  simp [poke, List.take_append, List.drop_append, Nat.add_assoc, h1, h2]

theorem poke_length (m : Bytes) (k : Nat) (bs : Bytes) (h : k + bs.length ≤ m.length) :
    (poke m k bs).length = m.length := by
  simp [poke]; omega

/-- `n ≤ m.length`, structurally: on explicit cells it evaluates to `true` in the kernel (`rfl`), which is much
    cheaper to check than a linear-arithmetic certificate per bounds check -/
def hasLen : Bytes → Nat → Bool
  | _, 0 => true
  | [], _ + 1 => false
  | _ :: xs, n + 1 => hasLen xs n

theorem hasLen_iff (m : Bytes) (n : Nat) : hasLen m n = true ↔ n ≤ m.length := by
  fun_induction hasLen m n with
  | case1 => simp
  | case2 => simp
  | case3 x xs n ih => simp [ih]

/-! ### primitives under their bounds (absolute offsets) -/

theorem reslice_abs (m : Mem) (s : Sl) (a b : Nat) (hab : a ≤ b) (hb : s.off + b ≤ m.length) :
    s.reslice m a b = .ok ⟨s.off + a, b - a⟩ := by
  unfold Sl.reslice Sl.cap
  rw [if_pos]
  omega

theorem from_abs (m : Mem) (s : Sl) (a : Nat) (hab : a ≤ s.len) (hb : s.off + s.len ≤ m.length) :
    s.from_ m a = .ok ⟨s.off + a, s.len - a⟩ :=
  reslice_abs m s a s.len hab hb

theorem put8_abs (m : Mem) (s : Sl) (i : Nat) (v : UInt8) (hi : i < s.len) (hx : s.off + i < m.length) :
    s.put8 m i v = .ok (poke m (s.off + i) [v]) := by
  unfold Sl.put8
  rw [if_pos ⟨hi, hx⟩]

theorem copyAt_abs (m : Mem) (s : Sl) (a b : Nat) (src : Bytes) (hab : a ≤ b) (hb : s.off + b ≤ m.length)
    (hs : src.length ≤ b - a) : s.copyAt m a b src = .ok (poke m (s.off + a) src) := by
  unfold Sl.copyAt
  rw [reslice_abs m s a b hab hb]
  simp only [Outcome.bind_ok, Outcome.pure_eq]
  rw [List.take_of_length_le hs]

theorem put16_abs (m : Mem) (s : Sl) (a v : Nat) (hb : s.off + (a + 2) ≤ m.length) (hv : v < 65536) :
    s.put16 m a v = .ok (poke m (s.off + a) [hi8 v, lo8 v]) := by
  unfold Sl.put16
  rw [Nat.mod_eq_of_lt hv]
  exact copyAt_abs m s a (a + 2) _ (by omega) hb (by simp)

theorem get8_abs (m : Mem) (s : Sl) (i : Nat) (hi : i < s.len) : s.get8 m i = idx m (s.off + i) := by
  unfold Sl.get8
  rw [if_pos hi]

/-! the same, stated for a memory that is syntactically a cons cell: inside `simp` they then never fire on the
    bound memory variables of the continuations (which would cost a failing discharger call each) -/

theorem reslice_cons (x : UInt8) (xs : Bytes) (s : Sl) (a b : Nat) (hab : a ≤ b)
    (hb : hasLen (x :: xs) (s.off + b) = true) : s.reslice (x :: xs) a b = .ok ⟨s.off + a, b - a⟩ :=
  reslice_abs _ s a b hab ((hasLen_iff _ _).1 hb)

theorem from_cons (x : UInt8) (xs : Bytes) (s : Sl) (a : Nat) (hab : a ≤ s.len)
    (hb : hasLen (x :: xs) (s.off + s.len) = true) : s.from_ (x :: xs) a = .ok ⟨s.off + a, s.len - a⟩ :=
  from_abs _ s a hab ((hasLen_iff _ _).1 hb)

theorem put8_cons (x : UInt8) (xs : Bytes) (s : Sl) (i : Nat) (v : UInt8) (hi : i < s.len)
    (hx : hasLen (x :: xs) (s.off + i + 1) = true) : s.put8 (x :: xs) i v = .ok (poke (x :: xs) (s.off + i) [v]) :=
  put8_abs _ s i v hi ((hasLen_iff _ _).1 hx)

theorem copyAt_cons (x : UInt8) (xs : Bytes) (s : Sl) (a b : Nat) (src : Bytes) (hab : a ≤ b)
    (hb : hasLen (x :: xs) (s.off + b) = true) (hs : src.length ≤ b - a) :
    s.copyAt (x :: xs) a b src = .ok (poke (x :: xs) (s.off + a) src) :=
  copyAt_abs _ s a b src hab ((hasLen_iff _ _).1 hb) hs

theorem put16_cons (x : UInt8) (xs : Bytes) (s : Sl) (a v : Nat)
    (hb : hasLen (x :: xs) (s.off + (a + 2)) = true) :
    s.put16 (x :: xs) a v = .ok (poke (x :: xs) (s.off + a) [hi8 (v % 65536), lo8 (v % 65536)]) := by
  unfold Sl.put16
  exact copyAt_abs _ s a (a + 2) _ (by omega) ((hasLen_iff _ _).1 hb) (by simp)

theorem get8_cons (x : UInt8) (xs : Bytes) (s : Sl) (i : Nat) (hi : i < s.len) :
    s.get8 (x :: xs) i = idx (x :: xs) (s.off + i) :=
  get8_abs _ s i hi

theorem idx_cons_zero (x : UInt8) (xs : Bytes) : idx (x :: xs) 0 = .ok x := rfl
theorem idx_cons_succ (x : UInt8) (xs : Bytes) (n : Nat) : idx (x :: xs) (n + 1) = idx xs n := rfl

theorem be16_hi8_lo8 (v : Nat) (h : v < 65536) : be16 (hi8 v) (lo8 v) = v := by
  unfold be16 hi8 lo8
  rw [UInt8.toNat_ofNat', UInt8.toNat_ofNat']
  omega

theorem take_frame (frame T : Bytes) (n : Nat) (h : n = frame.length) : (frame ++ T).take n = frame := by
  subst h; simp

/-! guarded definitions with the guard discharged (memory syntactically a cons cell, see above) -/

theorem cap_cons (x : UInt8) (xs : Bytes) (s : Sl) : s.cap (x :: xs) = (x :: xs).length - s.off := rfl

theorem encodeEther_cons (x : UInt8) (xs : Bytes) (b : Sl) (t : Nat) (src dst : Bytes)
    (h : b.off + 14 ≤ (x :: xs).length) :
    encodeEther (x :: xs) b t src dst = (do
      let e ← b.reslice (x :: xs) 0 14
      let m ← e.copyAt (x :: xs) 0 6 dst
      let m ← e.copyAt m 6 12 src
      let m ← e.put16 m 12 t
      pure (m, e)) := by
  unfold encodeEther
  rw [if_neg (by unfold Sl.cap; omega)]

theorem encodeARP_cons (x : UInt8) (xs : Bytes) (b : Sl) (op : Nat) (smac sip tmac tip : Bytes)
    (h : b.off + 28 ≤ (x :: xs).length) :
    encodeARP (x :: xs) b op smac sip tmac tip = (do
      let a ← b.reslice (x :: xs) 0 28
      let m ← a.put16 (x :: xs) 0 1
      let m ← a.put16 m 2 0x0800
      let m ← a.put8 m 4 6
      let m ← a.put8 m 5 4
      let m ← a.put16 m 6 op
      let sm ← mac6 smac
      let m ← a.copyAt m 8 14 sm
      let m ← a.copyAt m 14 18 sip
      let tm ← mac6 tmac
      let m ← a.copyAt m 18 24 tm
      let m ← a.copyAt m 24 28 tip
      pure (m, a)) := by
  unfold encodeARP
  rw [if_neg (by unfold Sl.cap; omega)]

theorem encodeUDP_cons (x : UInt8) (xs : Bytes) (p : Sl) (sp dp : Nat) (h : p.off + 8 ≤ (x :: xs).length) :
    encodeUDP (x :: xs) p sp dp = (do
      let u ← p.reslice (x :: xs) 0 8
      let m ← u.put16 (x :: xs) 0 sp
      let m ← u.put16 m 2 dp
      let m ← u.put16 m 4 0
      let m ← u.put16 m 6 0
      pure (m, some u)) := by
  unfold encodeUDP
  rw [if_neg (by unfold Sl.cap; omega)]

theorem udpAppendPayload_cons (x : UInt8) (xs : Bytes) (p : Sl) (b : Bytes)
    (h : p.off + p.len + b.length ≤ (x :: xs).length) :
    udpAppendPayload (x :: xs) p b = (do
      let p ← p.reslice (x :: xs) 0 (p.len + b.length)
      let pay ← p.from_ (x :: xs) 8
      let m := poke (x :: xs) pay.off (b.take pay.len)
      let m ← p.put16 m 4 ((8 + b.length % 65536) % 65536)
      let m ← p.put16 m 6 0
      pure (m, p)) := by
  unfold udpAppendPayload
  rw [if_neg (by unfold Sl.cap; omega)]

theorem udpAppendPayload_big (x : UInt8) (xs : Bytes) (p : Sl) (b : Bytes)
    (h0 : p.off + p.len ≤ (x :: xs).length) (h : (x :: xs).length < p.off + p.len + b.length) :
    udpAppendPayload (x :: xs) p b = .err .payloadTooBig := by
  unfold udpAppendPayload
  rw [if_pos (by unfold Sl.cap; omega)]

theorem ip4AppendPayload_cons (x : UInt8) (xs : Bytes) (p : Sl) (b : Bytes) (proto : UInt8)
    (h : p.off + p.len + b.length ≤ (x :: xs).length) :
    ip4AppendPayload (x :: xs) p b proto = (do
      let p ← p.reslice (x :: xs) 0 (p.len + b.length)
      let tl := (20 + b.length) % 65536
      let m ← p.put16 (x :: xs) 2 tl
      let pay ← ip4PayloadSl m p
      let m := poke m pay.off (b.take pay.len)
      let m ← p.put8 m 9 proto
      let cs ← ip4CksumSl m p
      let m ← putCks m p 10 cs
      pure (m, p)) := by
  unfold ip4AppendPayload
  rw [if_neg (by unfold Sl.cap; omega)]

theorem ip6AppendPayload_cons (x : UInt8) (xs : Bytes) (p : Sl) (b : Bytes) (nh : UInt8)
    (h : p.off + p.len + b.length ≤ (x :: xs).length) :
    ip6AppendPayload (x :: xs) p b nh = (do
      let p ← p.reslice (x :: xs) 0 (p.len + b.length)
      let pay ← p.from_ (x :: xs) 40
      let m := poke (x :: xs) pay.off (b.take pay.len)
      let m ← p.put16 m 4 (b.length % 65536)
      let m ← p.put8 m 6 nh
      pure (m, p)) := by
  unfold ip6AppendPayload
  rw [if_neg (by unfold Sl.cap; omega)]

theorem mac6_cells (a b c d e f : UInt8) : mac6 [a, b, c, d, e, f] = .ok [a, b, c, d, e, f] := rfl
theorem as4_cells (a b c d : UInt8) : as4 [a, b, c, d] = [a, b, c, d] := rfl
theorem as16_cells (a0 a1 a2 a3 a4 a5 a6 a7 a8 a9 a10 a11 a12 a13 a14 a15 : UInt8) :
    as16 [a0, a1, a2, a3, a4, a5, a6, a7, a8, a9, a10, a11, a12, a13, a14, a15] =
      [a0, a1, a2, a3, a4, a5, a6, a7, a8, a9, a10, a11, a12, a13, a14, a15] := rfl

theorem hi8_2054 : hi8 2054 = 8 := by decide
theorem lo8_2054 : lo8 2054 = 6 := by decide
theorem hi8_2048 : hi8 2048 = 8 := by decide
theorem lo8_2048 : lo8 2048 = 0 := by decide
theorem hi8_34525 : hi8 34525 = 0x86 := by decide
theorem lo8_34525 : lo8 34525 = 0xdd := by decide
theorem hi8_0 : hi8 0 = 0 := by decide
theorem lo8_0 : lo8 0 = 0 := by decide
theorem hi8_1 : hi8 1 = 0 := by decide
theorem lo8_1 : lo8 1 = 1 := by decide
theorem hi8_20 : hi8 20 = 0 := by decide
theorem lo8_20 : lo8 20 = 20 := by decide

/-- reading the frame back out of the cells -/
macro "frame_simp" : tactic =>
  `(tactic| simp only [Sl.bytes, List.drop_zero, List.take_succ_cons, List.take_zero, List.cons_append,
      List.nil_append, List.append_assoc, hi8_2054, lo8_2054, hi8_2048, lo8_2048, hi8_34525, lo8_34525, hi8_0, lo8_0,
      hi8_1, lo8_1, hi8_20, lo8_20])

/-! `Outcome.bind_ok` holds by `rfl`; `simp` would use it as a definitional step and leave the kernel to re-discover
    each execution step by evaluation (super-linear).  These copies are deliberately *not* `rfl`-proofs. -/
theorem bind_ok' {α β} (a : α) (f : α → Outcome β) : (Outcome.ok a >>= f) = f a := id rfl
theorem bind_err' {α β} (e : Err) (f : α → Outcome β) : (Outcome.err e >>= f) = .err e := id rfl
theorem bind_panic' {α β} (f : α → Outcome β) : (Outcome.panic >>= f) = .panic := id rfl

/-- discharger for the bounds side conditions -/
macro "mdisch" : tactic =>
  `(tactic| first | rfl | decide | assumption | omega |
      (simp only [hasLen_iff, List.length_cons, List.length_nil, List.length_append, List.length_drop, Nat.add_zero,
        Nat.zero_add]; done) |
      (simp only [hasLen_iff, List.length_cons, List.length_nil, List.length_append, List.length_drop, Nat.add_zero,
        Nat.zero_add]; omega))

/-- symbolic execution of the encoders on a memory given as explicit cells followed by a tail -/
macro "enc_exec" : tactic =>
  `(tactic| simp (disch := mdisch) only [bind_ok', bind_err', bind_panic', Outcome.pure_eq,
      encodeEther_cons, etherHdrLen, etherPayloadSl, etherSetPayload, encodeIP4, ip4IHLSl, ip4TotalLenSl,
      ip4PayloadSl, ip4CksumSl, putCks, ip4SetPayload, ip4AppendPayload_cons, encodeUDP_cons,
      udpAppendPayload_cons, udpSetPayload, encodeIP6, ip6AppendPayload_cons, ip6SetPayload, mac6_cells,
      encodeARP_cons, whole, as4_cells, as16_cells, cap_cons,
      reslice_cons, from_cons, put8_cons, put16_cons, copyAt_cons, get8_cons, idx_cons_zero, idx_cons_succ,
      be16_hi8_lo8, ihl_45, Nat.mod_eq_of_lt, Nat.add_sub_cancel_left, List.take_length, pokeC_append,
      take_8_add,
      poke_eq_pokeC, pokeC_cons_succ, pokeC_zero_cons, pokeC_zero_nil, Nat.add_zero, Nat.sub_zero,
      Nat.zero_add, List.length_cons, List.length_nil, List.length_append,
      List.length_drop, Nat.reduceAdd, Nat.reduceSub, Nat.reduceMul, Nat.reduceDiv, Nat.reduceMod, Nat.reduceLT,
      Nat.reduceGT, Nat.reduceLeDiff, Nat.reduceBEq, Nat.reduceBNe, Nat.reduceEqDiff, Bool.false_eq_true,
      ↓reduceIte, gt_iff_lt, ge_iff_le, beq_self_eq_true, Nat.lt_irrefl, Nat.le_refl, Nat.add_assoc,
      Sl.bytes, List.drop_succ_cons, List.drop_zero, List.take_succ_cons, List.take_zero, List.cons_append,
      List.nil_append])

/-- the IPv4 header as transmitted: total length `tl`, protocol, checksum over the other 18 bytes -/
def ip4HdrNoCk (tl : Nat) (ttl proto : UInt8) : Bytes := [0x45, 0xc0, hi8 tl, lo8 tl, 0, 0, 0, 0, ttl, proto]

def ip4Cks (tl : Nat) (ttl proto : UInt8) (sip dip : Bytes) : UInt16 :=
  checksum (ip4HdrNoCk tl ttl proto ++ (sip ++ dip))

def ip4Hdr (tl : Nat) (ttl proto : UInt8) (sip dip : Bytes) : Bytes :=
  ip4HdrNoCk tl ttl proto ++ [(ip4Cks tl ttl proto sip dip).toUInt8, (ip4Cks tl ttl proto sip dip >>> 8).toUInt8]
    ++ sip ++ dip

def udpHdr (sp dp len : Nat) (c0 c1 : UInt8) : Bytes :=
  [hi8 sp, lo8 sp, hi8 dp, lo8 dp, hi8 len, lo8 len, c0, c1]

def ip6Hdr (plen : Nat) (nh hop : UInt8) (sip dip : Bytes) : Bytes :=
  [0x60, 0, 0, 0, hi8 plen, lo8 plen, nh, hop] ++ sip ++ dip

/-- close `ok (m.take n) = ok frame` for `m = cells ++ tail` -/
macro "frame_close " T:term : tactic =>
  `(tactic| exact congrArg Outcome.ok (take_eq_frame _ _ $T _
      (by simp only [List.cons_append, List.nil_append, List.append_assoc, hi8_2054, lo8_2054, hi8_2048, lo8_2048,
            hi8_34525, lo8_34525, hi8_0, lo8_0, hi8_1, lo8_1, hi8_20, lo8_20, ip4Hdr, ip4HdrNoCk, ip4Cks, udpHdr,
            ip6Hdr])
      (by simp only [List.length_cons, List.length_nil, List.length_append, ip4Hdr, ip4HdrNoCk, udpHdr, ip6Hdr]; omega)))

end PV.Lemmas
