/-
  C06: the quiescent-state invariant of disciplined histories — between steps a pending
  announcement only ever sits on an online host.
-/
import PacketVerif.Lemmas.TablesExact
namespace PV.Lemmas.Tables
open PV PV.Model.Tables PV.Spec

def Quiet (s : Sess) : Prop := ∀ k y, findHost s k = some y → y.dirty = true → y.online = true

/-- quiescent except possibly for the host with id `hid` -/
def QuietBut (s : Sess) (hid : Nat) : Prop :=
  ∀ k y, findHost s k = some y → y.dirty = true → y.online = false → y.id = hid

theorem Quiet.but {s : Sess} (h : Quiet s) (hid : Nat) : QuietBut s hid := by
  intro k y hy hd ho
  have := h k y hy hd
  rw [ho] at this; cases this

theorem quiet_map {s s' : Sess} (g : HostRec → HostRec) (hf : ∀ k, findHost s' k = (findHost s k).map g)
    (hg : ∀ y, (g y).dirty = true → (g y).online = false → y.dirty = true ∧ y.online = false) (h : Quiet s) : Quiet s' := by
  intro k y' hy' hd
  rw [hf] at hy'
  cases hfy : findHost s k with
  | none => simp [hfy] at hy'
  | some y =>
    simp only [hfy, Option.map_some, Option.some.injEq] at hy'
    subst hy'
    cases ho : (g y).online with
    | true => rfl
    | false =>
      obtain ⟨a, b⟩ := hg y hd ho
      have := h k y hfy a
      rw [b] at this; cases this

theorem quiet_same {s s' : Sess} (hf : ∀ k, findHost s' k = findHost s k) (h : Quiet s) : Quiet s' := by
  intro k y hy hd; rw [hf] at hy; exact h k y hy hd

theorem offG_quiet (l : List Nat) (y : HostRec) :
    (offG l y).dirty = true → (offG l y).online = false → y.dirty = true ∧ y.online = false := by
  unfold offG
  split
  · intro h; simp at h
  · intro a b; exact ⟨a, b⟩

theorem quiet_makeOfflineAll {s : Sess} (h : Quiet s) (l : List Nat) : Quiet (makeOfflineAll s l).1 :=
  quiet_map (offG l) (findHost_makeOfflineAll s l) (offG_quiet l) h

/-- what `notify` leaves behind: the superseded hosts and the host itself are clean -/
theorem findHost_notifyHost {t : Sess} {hid : Nat} {x : HostRec} (hb : hostById t hid = some x) (hd : x.dirty = true)
    (flag : Bool) (k : IP) :
    findHost (notifyHost t hid flag).1 k =
      (findHost t k).map (fun y => if y.id = hid then { y with dirty := false } else offG (offlOf t hid x flag) y) := by
  have hnot : hid ∉ offlOf t hid x flag := by
    unfold offlOf
    split
    · split
      · simp
      · intro hm
        simp only [List.mem_filter, hb] at hm
        simp at hm
    · simp
  obtain ⟨_, _, hidx⟩ := hostById_some hb
  have hbr := hostById_makeOfflineAll t (offlOf t hid x flag) hid
  rw [hb] at hbr
  simp only [Option.map_some, offG, hidx, hnot, if_false] at hbr
  unfold notifyHost
  simp only [hb, hd, Bool.not_true, Bool.false_eq_true, if_false]
  change findHost (match hostById (makeOfflineAll t (offlOf t hid x flag)).1 hid with
    | none => makeOfflineAll t (offlOf t hid x flag)
    | some h1 => (updHost (makeOfflineAll t (offlOf t hid x flag)).1 hid (fun x => { x with dirty := false }),
        (makeOfflineAll t (offlOf t hid x flag)).2 ++ [toNotif (makeOfflineAll t (offlOf t hid x flag)).1 h1])).1 k = _
  rw [hbr]
  simp only [findHost_updHost, findHost_makeOfflineAll, Option.map_map]
  congr 1
  funext y
  simp only [Function.comp]
  by_cases hy : y.id = hid
  · have hn : y.id ∉ offlOf t hid x flag := by rw [hy]; exact hnot
    have ho : offG (offlOf t hid x flag) y = y := by unfold offG; simp [hn]
    rw [ho]
  · have : (offG (offlOf t hid x flag) y).id ≠ hid := by unfold offG; split <;> exact hy
    simp [this, hy]

theorem quiet_notifyHost_of_quiet {t : Sess} (h : Quiet t) (hid : Nat) (flag : Bool) : Quiet (notifyHost t hid flag).1 := by
  cases hb : hostById t hid with
  | none => unfold notifyHost; simp only [hb]; exact h
  | some x =>
    by_cases hd : x.dirty = true
    · refine quiet_map _ (findHost_notifyHost hb hd flag) ?_ h
      intro y
      split
      · intro a; simp at a
      · exact offG_quiet _ y
    · have : (notifyHost t hid flag).1 = t := by
        unfold notifyHost; simp only [hb]
        have : x.dirty = false := by simpa using hd
        simp [this]
      rw [this]; exact h

/-- flush: if every offline host with a pending announcement other than `x` is an IPv4 sibling of
    the (online, pending, IPv4) host `x`, Notify with the transition flag leaves a quiescent state -/
theorem quiet_notifyHost_flush {t : Sess} (hi : Inv t) {hid : Nat} {k0 : IP} {x : HostRec} (hp : (k0, x) ∈ t.hosts)
    (hidx : x.id = hid) (hd : x.dirty = true)
    (hs : ∀ k y, findHost t k = some y → y.dirty = true → y.online = false →
      x.ip.is4 = true ∧ y.mac = x.mac) : Quiet (notifyHost t hid true).1 := by
  have hb : hostById t hid = some x := by rw [← hidx]; exact hostById_of_mem hi.hidNodup hp
  intro k y' hy' hdy
  rw [findHost_notifyHost hb hd true] at hy'
  cases hfy : findHost t k with
  | none => simp [hfy] at hy'
  | some y =>
    simp only [hfy, Option.map_some, Option.some.injEq] at hy'
    obtain ⟨hym, _⟩ := findHost_mem hi hfy
    by_cases hyid : y.id = hid
    · simp only [hyid, if_true] at hy'
      subst hy'
      simp at hdy
    · simp only [hyid, if_false] at hy'
      subst hy'
      cases ho : (offG (offlOf t hid x true) y).online with
      | true => rfl
      | false =>
        exfalso
        obtain ⟨a, b⟩ := offG_quiet _ y hdy ho
        obtain ⟨c1, c2⟩ := hs k y hfy a b
        -- y must have been in the flush list
        obtain ⟨m, hm, e1, e2, _⟩ := hi.hostEntry _ hp
        simp only at e1 e2
        have hmb : macById t x.entry = some m := by rw [← e1]; exact macById_of_mem hi.midNodup hm
        have hin : y.id ∈ offlOf t hid x true := by
          unfold offlOf
          simp only [c1, and_self, if_true, hmb, List.mem_filter, hostById_of_mem hi.hidNodup hym]
          refine ⟨(mem_list_iff_entry hi hym hm).2 ((entry_iff_mac hi hym hm).2 (by rw [c2, e2])), ?_⟩
          simp [hyid, a, b]
        unfold offG at hdy
        simp [hin] at hdy


/-! ### name updates -/

theorem updateName_map (s : Sess) (hid : Nat) (kd : NameKind) (n : NameEntry) :
    ∃ g : HostRec → HostRec, (∀ k, findHost (updateName s hid kd n) k = (findHost s k).map g) ∧
      (∀ y, y.id ≠ hid → g y = y) ∧
      (∀ y, (g y).id = y.id ∧ (g y).ip = y.ip ∧ (g y).mac = y.mac ∧ (g y).entry = y.entry ∧ (g y).online = y.online ∧
        (y.dirty = true → (g y).dirty = true) ∧ ((g y).dirty = true → y.id = hid ∨ y.dirty = true)) := by
  unfold updateName
  cases hb : hostById s hid with
  | none =>
    refine ⟨id, ?_, fun _ _ => rfl, fun y => ⟨rfl, rfl, rfl, rfl, rfl, fun h => h, fun h => Or.inr h⟩⟩
    intro k; simp
  | some h0 =>
    simp only
    generalize (h0.names.get kd).merge n = r
    refine ⟨fun y => if y.id = hid then { y with names := y.names.set kd r.1, dirty := y.dirty || r.2 } else y, ?_, ?_, ?_⟩
    · intro k
      split
      · rw [findHost_updMac, findHost_updHost]
      · rw [findHost_updHost]
    · intro y hy; simp [hy]
    · intro y
      by_cases hy : y.id = hid
      · simp only [hy, if_true]
        refine ⟨trivial, trivial, trivial, trivial, trivial, ?_, ?_⟩
        · intro h; simp [h]
        · intro _; exact Or.inl trivial
      · simp only [hy, if_false]
        exact ⟨trivial, trivial, trivial, trivial, trivial, fun h => h, fun h => Or.inr h⟩

theorem quiet_updateName_online {s : Sess} (h : Quiet s) (hid : Nat) (kd : NameKind) (n : NameEntry)
    (hon : ∀ k y, findHost s k = some y → y.id = hid → y.online = true) : Quiet (updateName s hid kd n) := by
  obtain ⟨g, hg1, _, hg3⟩ := updateName_map s hid kd n
  intro k y' hy' hd
  rw [hg1] at hy'
  cases hfy : findHost s k with
  | none => simp [hfy] at hy'
  | some y =>
    simp only [hfy, Option.map_some, Option.some.injEq] at hy'
    subst hy'
    obtain ⟨_, _, _, _, e5, _, e7⟩ := hg3 y
    rw [e5]
    rcases e7 hd with a | a
    · exact hon k y hfy a
    · exact h k y hfy a

/-! ### Parse -/

theorem quietBut_foc {s : Sess} (hi : Inv s) (h : Quiet s) (mac : MAC) (ip : IP) (now : Int) (manuf : String) :
    QuietBut (findOrCreateHost s mac ip now manuf).s (findOrCreateHost s mac ip now manuf).host := by
  obtain ⟨_, x, f1, f2, _, _, _, _, f7⟩ := foc_spec hi mac ip now manuf
  intro k y hy hd ho
  by_cases hk : k = ip
  · subst hk
    rw [f1] at hy; cases hy; exact f2
  · rw [f7 k hk] at hy
    have := h k y hy hd
    rw [ho] at this; cases this

/-- after the online transition of `x` every offline host with a pending announcement is an IPv4
    sibling of `x` (the one `onlineTransition` just superseded) -/
theorem flushable_onlineTransition {t : Sess} (hi : Inv t) (hj : CurIP4 t) {ip : IP} {x : HostRec}
    (hp : (ip, x) ∈ t.hosts) (hoff : x.online = false) (hq : QuietBut t x.id) :
    ∀ k y, findHost (onlineTransition t x.id) k = some y → y.dirty = true → y.online = false →
      x.ip.is4 = true ∧ y.mac = x.mac := by
  intro k y' hy' hd ho
  rw [onlineTransition_findHost hi hj hp hoff] at hy'
  cases hfy : findHost t k with
  | none => simp [hfy] at hy'
  | some y =>
    simp only [hfy, Option.map_some, Option.some.injEq] at hy'
    subst hy'
    unfold onlG at hd ho ⊢
    by_cases hyid : y.id = x.id
    · simp [hyid] at ho
    · simp only [hyid, if_false] at hd ho ⊢
      by_cases hm : x.ip.is4 = true ∧ y.ip.is4 = true ∧ y.mac = x.mac ∧ y.online = true
      · simp only [hm, and_self, if_true]
      · simp only [hm, if_false] at hd ho
        exact absurd (hq k y hfy hd ho) hyid


theorem quiet_notifyOp_of_quiet {s : Sess} (h : Quiet s) (host : Option Nat) (dhcp4 : Bool) (srcMAC : MAC) (flag : Bool) :
    Quiet (notifyOp s host dhcp4 srcMAC flag).1 := by
  unfold notifyOp
  cases host with
  | some hid => exact quiet_notifyHost_of_quiet h _ _
  | none =>
    simp only
    split
    · exact h
    · split
      · exact h
      · split
        · exact h
        · exact quiet_notifyHost_of_quiet h _ _

theorem quiet_of_but_online {t : Sess} (hi : Inv t) {ip : IP} {x : HostRec} (hp : (ip, x) ∈ t.hosts)
    (hon : x.online = true) (hq : QuietBut t x.id) : Quiet t := by
  intro k y hy hd
  cases ho : y.online with
  | true => rfl
  | false =>
    have := hq k y hy hd ho
    obtain ⟨hym, _⟩ := findHost_mem hi hy
    have := id_inj hi hym hp this
    simp only [Prod.mk.injEq] at this
    rw [this.2, hon] at ho; cases ho

/-- Notify with the transition flag for the freshly transitioned host `x`, possibly after a name
    update of `x`, leaves a quiescent state -/
theorem quiet_flush_after {t' s1 : Sess} (hi1 : Inv s1) {ip : IP} {x' : HostRec}
    (hfx : findHost t' ip = some x') (hd : x'.dirty = true) (hon : x'.online = true)
    (hs : ∀ k y, findHost t' k = some y → y.dirty = true → y.online = false → x'.ip.is4 = true ∧ y.mac = x'.mac)
    (g : HostRec → HostRec) (hg1 : ∀ k, findHost s1 k = (findHost t' k).map g)
    (hg3 : ∀ y, (g y).id = y.id ∧ (g y).ip = y.ip ∧ (g y).mac = y.mac ∧ (g y).entry = y.entry ∧ (g y).online = y.online ∧
      (y.dirty = true → (g y).dirty = true) ∧ ((g y).dirty = true → y.id = x'.id ∨ y.dirty = true))
    (hidinj : ∀ k y, findHost t' k = some y → y.id = x'.id → y = x') :
    Quiet (notifyHost s1 x'.id true).1 := by
  have hfx1 : findHost s1 ip = some (g x') := by rw [hg1, hfx]; rfl
  obtain ⟨hp1, _⟩ := findHost_mem hi1 hfx1
  obtain ⟨a1, a2, a3, _, a5, a6, _⟩ := hg3 x'
  refine quiet_notifyHost_flush hi1 hp1 a1 (a6 hd) ?_
  intro k y hy hdy hoy
  rw [hg1] at hy
  cases hfy : findHost t' k with
  | none => simp [hfy] at hy
  | some y0 =>
    simp only [hfy, Option.map_some, Option.some.injEq] at hy
    subst hy
    obtain ⟨_, _, b3, _, b5, _, b7⟩ := hg3 y0
    rw [b5] at hoy
    rw [a2, a3, b3]
    rcases b7 hdy with c | c
    · have := hidinj k y0 hfy c
      subst this
      rw [hon] at hoy; cases hoy
    · exact hs k y0 hfy c hoy

theorem quiet_packet {s : Sess} (hi : Inv s) (hj : CurIP4 s) (hq : Quiet s) (c : Cfg) (ev : FrameEv) (now : Int)
    (manuf : String) (upd : Option (NameKind × NameEntry)) : Quiet (packet c s ev now manuf upd).1 := by
  unfold packet
  cases he : hostEvent c ev with
  | none =>
    have hpar : parse c s ev now manuf = { s := s } := by unfold parse; simp only [he]
    simp only [hpar, Bool.false_eq_true, if_false]
    exact quiet_notifyOp_of_quiet hq _ _ _ _
  | some p =>
    obtain ⟨mac, ip⟩ := p
    obtain ⟨hnp, x, f1, f2, _⟩ := foc_spec hi mac ip now manuf
    have hit := inv_findOrCreateHost hi mac ip now manuf
    have hjt := cur_findOrCreateHost hi hj mac ip now manuf
    have hqb := quietBut_foc hi hq mac ip now manuf
    generalize hr : findOrCreateHost s mac ip now manuf = r at *
    obtain ⟨hpx, _⟩ := findHost_mem hit f1
    have hbx : hostById r.s r.host = some x := by rw [← f2]; exact hostById_of_mem hit.hidNodup hpx
    rw [← f2] at hqb
    by_cases hon : x.online = true
    · have hpar : parse c s ev now manuf = { s := r.s, host := some x.id } := by
        unfold parse
        simp only [he, hr, hnp, Bool.false_eq_true, if_false, hbx, hon, if_true, f2]
      have hqt : Quiet r.s := quiet_of_but_online hit hpx hon hqb
      simp only [hpar, Bool.false_eq_true, if_false]
      apply quiet_notifyOp_of_quiet
      cases upd with
      | none => exact hqt
      | some kn =>
        obtain ⟨kd, n⟩ := kn
        simp only
        apply quiet_updateName_online hqt
        intro k y hy hyid
        obtain ⟨hym, _⟩ := findHost_mem hit hy
        have := id_inj hit hym hpx hyid
        simp only [Prod.mk.injEq] at this
        rw [this.2]; exact hon
    · have hoff : x.online = false := by simpa using hon
      have hpar : parse c s ev now manuf = { s := onlineTransition r.s x.id, host := some x.id, flag := true } := by
        unfold parse
        simp only [he, hr, hnp, Bool.false_eq_true, if_false, hbx, hoff, f2]
      have hit' := inv_onlineTransition hit x.id
      have hfx' : findHost (onlineTransition r.s x.id) ip = some { x with online := true, dirty := true } := by
        rw [onlineTransition_findHost hit hjt hpx hoff, f1]
        simp [onlG]
      have hs := flushable_onlineTransition hit hjt hpx hoff hqb
      have hidinj : ∀ k y, findHost (onlineTransition r.s x.id) k = some y → y.id = x.id →
          y = { x with online := true, dirty := true } := by
        intro k y hy hyid
        obtain ⟨hym, _⟩ := findHost_mem hit' hy
        obtain ⟨hxm, _⟩ := findHost_mem hit' hfx'
        have := id_inj hit' hym hxm hyid
        simp only [Prod.mk.injEq] at this
        exact this.2
      simp only [hpar, Bool.false_eq_true, if_false]
      show Quiet (notifyHost _ x.id true).1
      cases upd with
      | some kn =>
        obtain ⟨kd, n⟩ := kn
        simp only
        obtain ⟨g, hg1, _, hg3⟩ := updateName_map (onlineTransition r.s x.id) x.id kd n
        exact quiet_flush_after (x' := { x with online := true, dirty := true }) (inv_updateName hit' _ _ _) hfx' rfl rfl
          hs g hg1 hg3 hidinj
      | none =>
        exact quiet_flush_after (x' := { x with online := true, dirty := true }) hit' hfx' rfl rfl hs id
          (by intro k; simp) (by intro y; exact ⟨rfl, rfl, rfl, rfl, rfl, fun h => h, fun h => Or.inr h⟩) hidinj


theorem quiet_dhcpUpdate {s : Sess} (hi : Inv s) (hj : CurIP4 s) (hq : Quiet s) (mac : MAC) (ip : IP) (name : NameEntry)
    (now : Int) (manuf : String) : Quiet (dhcpUpdate s mac ip name now manuf).1 := by
  unfold dhcpUpdate
  split
  · exact hq
  · obtain ⟨hnp, x, f1, f2, _⟩ := foc_spec hi mac ip now manuf
    have hit := inv_findOrCreateHost hi mac ip now manuf
    have hjt := cur_findOrCreateHost hi hj mac ip now manuf
    have hqb := quietBut_foc hi hq mac ip now manuf
    simp only [hnp, Bool.false_eq_true, if_false]
    generalize findOrCreateHost s mac ip now manuf = r at *
    rw [← f2] at hqb ⊢
    obtain ⟨hpx, _⟩ := findHost_mem hit f1
    -- the name update
    obtain ⟨g, hg1, _, hg3⟩ := updateName_map r.s x.id .dhcp4 name
    have hiu := inv_updateName hit x.id .dhcp4 name
    have hju := (updateName_facts hjt x.id .dhcp4 name).2
    have hfu : findHost (updateName r.s x.id .dhcp4 name) ip = some (g x) := by rw [hg1, f1]; rfl
    obtain ⟨hpu, _⟩ := findHost_mem hiu hfu
    obtain ⟨a1, _, _, _, a5, _, _⟩ := hg3 x
    have hbu : hostById (updateName r.s x.id .dhcp4 name) x.id = some (g x) := by
      have := hostById_of_mem hiu.hidNodup hpu
      simp only [a1] at this
      exact this
    have hqbu : QuietBut (updateName r.s x.id .dhcp4 name) x.id := by
      intro k y hy hd ho
      rw [hg1] at hy
      cases hfy : findHost r.s k with
      | none => simp [hfy] at hy
      | some y0 =>
        simp only [hfy, Option.map_some, Option.some.injEq] at hy
        subst hy
        obtain ⟨b1, _, _, _, b5, _, b7⟩ := hg3 y0
        rw [b1]
        rcases b7 hd with c | c
        · exact c
        · rw [b5] at ho; exact hqb k y0 hfy c ho
    simp only [hbu]
    have hi3 : Inv (updMac (updateName r.s x.id .dhcp4 name) (g x).entry (fun m => { m with ip4offer := (g x).ip })) :=
      inv_updMac hiu _ (by keepM) (by onSame)
    have hj3 : CurIP4 (updMac (updateName r.s x.id .dhcp4 name) (g x).entry (fun m => { m with ip4offer := (g x).ip })) :=
      cur_updMac hju _ (by keepM) (by intro m; rfl)
    by_cases hon : (g x).online = true
    · simp only [hon, if_true]
      apply quiet_notifyHost_of_quiet
      have hqu : Quiet (updateName r.s x.id .dhcp4 name) := quiet_of_but_online hiu hpu hon (by rw [a1]; exact hqbu)
      exact quiet_same (s := updateName r.s x.id .dhcp4 name) (fun _ => rfl) hqu
    · have hoff : (g x).online = false := by simpa using hon
      simp only [hoff, Bool.false_eq_true, if_false]
      have hp3 : (ip, g x) ∈ (updMac (updateName r.s x.id .dhcp4 name) (g x).entry
          (fun m => { m with ip4offer := (g x).ip })).hosts := hpu
      have hqb3 : QuietBut (updMac (updateName r.s x.id .dhcp4 name) (g x).entry
          (fun m => { m with ip4offer := (g x).ip })) (g x).id := by rw [a1]; exact hqbu
      have hs := flushable_onlineTransition hi3 hj3 hp3 hoff hqb3
      have hit' := inv_onlineTransition hi3 (g x).id
      have hfx' : findHost (onlineTransition (updMac (updateName r.s x.id .dhcp4 name) (g x).entry
          (fun m => { m with ip4offer := (g x).ip })) (g x).id) ip = some { g x with online := true, dirty := true } := by
        rw [onlineTransition_findHost hi3 hj3 hp3 hoff]
        have : findHost (updMac (updateName r.s x.id .dhcp4 name) (g x).entry
            (fun m => { m with ip4offer := (g x).ip })) ip = some (g x) := hfu
        rw [this]
        simp [onlG]
      have hidinj : ∀ k y, findHost (onlineTransition (updMac (updateName r.s x.id .dhcp4 name) (g x).entry
          (fun m => { m with ip4offer := (g x).ip })) (g x).id) k = some y → y.id = (g x).id →
          y = { g x with online := true, dirty := true } := by
        intro k y hy hyid
        obtain ⟨hym, _⟩ := findHost_mem hit' hy
        obtain ⟨hxm, _⟩ := findHost_mem hit' hfx'
        have := id_inj hit' hym hxm hyid
        simp only [Prod.mk.injEq] at this
        exact this.2
      have := quiet_flush_after (x' := { g x with online := true, dirty := true }) hit' hfx' rfl rfl hs id
        (by intro k; simp) (by intro y; exact ⟨rfl, rfl, rfl, rfl, rfl, fun h => h, fun h => Or.inr h⟩) hidinj
      rw [a1] at this
      exact this

theorem quiet_purge {s : Sess} (hq : Quiet s) (c : Cfg) (now : Int) : Quiet (purge c s now).1 := by
  unfold purge
  simp only
  intro k y hy hd
  rw [findHost_foldl_deleteHost] at hy
  split at hy
  · cases hy
  · exact quiet_makeOfflineAll hq _ k y hy hd

/-- **the quiescent state is an invariant of disciplined histories** -/
theorem quiet_step6 {s : Sess} (hi : Inv s) (hj : CurIP4 s) (hq : Quiet s) (c : Cfg) (op : Op6)
    (hop : match op with
      | .packet .. => True
      | .api (.frame ..) => False
      | .api (.notify ..) => False
      | .api (.updateName ..) => False
      | .api _ => True) : Quiet (step6 c s op).1 := by
  cases op with
  | packet ev now manuf upd => exact quiet_packet hi hj hq c ev now manuf upd
  | api op =>
    cases op with
    | frame ev now manuf => exact absurd hop id
    | notify host dhcp4 srcMAC flag => exact absurd hop id
    | updateName host kind name => exact absurd hop id
    | dhcpUpdate mac ip name now manuf => exact quiet_dhcpUpdate hi hj hq mac ip name now manuf
    | purge now => exact quiet_purge hq c now
    | setOffer mac ip name =>
      refine quiet_same (s := s) ?_ hq
      intro k; simp only [step6, Model.Tables.step, findHost_updMac]; unfold findHost; rw [macFindOrCreate_hosts]
    | capture mac =>
      refine quiet_same (s := s) ?_ hq
      intro k
      simp only [step6, Model.Tables.step]
      split
      · unfold findHost; simp only [macFindOrCreate_hosts]
      · split
        · unfold findHost; simp only [macFindOrCreate_hosts]
        · simp only [findHost_updMac]; unfold findHost; rw [macFindOrCreate_hosts]
    | release mac =>
      refine quiet_same (s := s) ?_ hq
      intro k
      simp only [step6, Model.Tables.step]
      split <;> rfl
    | setLastSeen ip t =>
      simp only [step6, Model.Tables.step]
      split
      · dsimp only
        refine quiet_map _ (fun k' => findHost_updHost s _ _ k') ?_ hq
        intro y a b
        split at a
        · exact ⟨a, by split at b <;> exact b⟩
        · exact ⟨a, by split at b <;> exact b⟩
      · exact hq
    | printTable => exact hq

end PV.Lemmas.Tables
