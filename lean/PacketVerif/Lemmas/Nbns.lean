/-
  ProcessNBNS, last step: the name it reports is the first unique name of the RFC 1002 NODE_NAME
  array (`Spec.nodeNameArray`) of the first NBSTAT answer that has one.
-/
import PacketVerif.Lemmas.DnsMsg
namespace PV.Lemmas.Nbns
open PV PV.Model PV.Spec PV.Model.DnsMsg PV.Lemmas.Dns PV.Lemmas.Naming PV.Lemmas.DnsMsg

/-- the reference array decoder never fails on a body that holds the announced entries -/
theorem nodeNameArray_total (n : Nat) (b : Bytes) (h : n * 18 ≤ b.length) : ∃ l, nodeNameArray n b = some l := by
  obtain ⟨l, h1, _⟩ := nodeNames_eq_spec n b 0 (by omega)
  exact ⟨l, by simpa using h1⟩

/-- the reference array decoder does not look behind the announced entries (STATISTICS field) -/
theorem nodeNameArray_append : ∀ (n : Nat) (b extra : Bytes), n * 18 ≤ b.length →
    nodeNameArray n (b ++ extra) = nodeNameArray n b := by
  intro n
  induction n with
  | zero => intro b extra _; rfl
  | succ k ih =>
    intro b extra h
    have h18 : 18 ≤ b.length := by omega
    rw [nodeNameArray, nodeNameArray]
    rw [if_neg (by simp only [List.length_append]; omega), if_neg (by omega)]
    rw [List.getElem?_append_left (by omega), List.drop_append_of_le_length h18,
      List.take_append_of_le_length (by omega)]
    rw [ih (b.drop 18) extra (by simp only [List.length_drop]; omega)]

/-- RFC 1002 §4.2.18 node status RDATA (NUM_NAMES, NODE_NAME array, statistics): the first unique
    (non-group) name of the array, padding stripped.  `none`: RDATA shorter than 3 bytes or than
    the array it announces, or no unique name in the array. -/
def firstNodeName (data : Bytes) : Option Bytes :=
  match data with
  | [] => none
  | n :: rest =>
    if rest.length < 2 ∨ rest.length < n.toNat * 18 then none
    else
      match nodeNameArray n.toNat rest with
      | some (x :: _) => some x
      | _ => none

theorem nbnsNodeStatus_nil : nbnsNodeStatus [] = .err .invalidLen := rfl

/-- `processNBNSNodeStatusResponse` on every non-empty input, in terms of the reference array -/
theorem nbnsNodeStatus_cons (n : UInt8) (rest : Bytes) :
    nbnsNodeStatus (n :: rest) =
      (if rest.length < 2 then .err .invalidLen
       else if rest.length < n.toNat * 18 then .err .frameLen
       else match nodeNameArray n.toNat rest with
         | some l => .ok l
         | none => .err .frameLen) := by
  unfold nbnsNodeStatus
  rw [parseNodeNameArray_eq_spec]
  simp only [List.length_cons]
  by_cases h : rest.length < 2
  · rw [if_pos (by omega), if_pos h]
  · rw [if_neg (by omega), if_neg h]
    rfl

/-- what the caller of `processNBNSNodeStatusResponse` can observe, in reference terms -/
theorem nbnsNodeStatus_first (data : Bytes) :
    match firstNodeName data with
    | some x => ∃ l, nbnsNodeStatus data = .ok (x :: l)
    | none => nbnsNodeStatus data = .ok [] ∨ ∃ e, nbnsNodeStatus data = .err e := by
  cases data with
  | nil => exact Or.inr ⟨_, rfl⟩
  | cons n rest =>
    rw [nbnsNodeStatus_cons]
    simp only [firstNodeName]
    by_cases h2 : rest.length < 2
    · rw [if_pos (Or.inl h2), if_pos h2]
      exact Or.inr ⟨_, rfl⟩
    · by_cases h18 : rest.length < n.toNat * 18
      · rw [if_pos (Or.inr h18), if_neg h2, if_pos h18]
        exact Or.inr ⟨_, rfl⟩
      · rw [if_neg (by omega), if_neg h2, if_neg h18]
        obtain ⟨l, hl⟩ := nodeNameArray_total n.toNat rest (by omega)
        rw [hl]
        cases l with
        | nil => exact Or.inl rfl
        | cons x l => exact ⟨l, rfl⟩

/-- `firstNodeName = some x` spelled out -/
theorem firstNodeName_some {data x : Bytes} (h : firstNodeName data = some x) :
    ∃ (n : UInt8) (rest : Bytes) (l : List Bytes), data = n :: rest ∧ 2 ≤ rest.length ∧ n.toNat * 18 ≤ rest.length ∧
      nodeNameArray n.toNat rest = some (x :: l) := by
  cases data with
  | nil => simp [firstNodeName] at h
  | cons n rest =>
    simp only [firstNodeName] at h
    split at h
    · simp at h
    next hc =>
      split at h
      next y l hl =>
        injection h with h
        subst h
        exact ⟨n, rest, l, rfl, by omega, by omega, hl⟩
      · simp at h

/-- **one iteration of the ProcessNBNS answer loop**, on every parser state, with the node
    status decoder replaced by the reference: section exhausted → no name, no error; header or
    body unreadable → error; NBSTAT (type 0x21) record → its first unique name, or — when the
    RDATA is malformed or has no unique name — on to the next record; any other type → skipped. -/
theorem nbnsStep_eq_spec (p : Parser) :
    nbnsStep p =
      (match resourceHeader p secAnswers with
       | (_, .error .sectionDone) => .done (.ok { type := sNbns, name := [], err := false })
       | (_, .error _) => .done (.ok { type := sNbns, name := [], err := true })
       | (p1, .ok hdr) =>
         if hdr.rtype = 0x21 then
           match typedResource p1 (fun _ => true) unpackUnknown with
           | (_, .error _) => .done (.ok { type := sNbns, name := [], err := true })
           | (p2, .ok data) =>
             match firstNodeName data with
             | some x => .done (.ok { type := sNbns, name := x, err := false })
             | none => .next p2
         else
           match skipResource p1 secAnswers with
           | (p2, none) => .next p2
           | (_, some _) => .done (.ok { type := sNbns, name := [], err := true })) := by
  unfold nbnsStep
  cases hrh : resourceHeader p secAnswers with
  | mk p1 r =>
    cases r with
    | error e => cases e <;> rfl
    | ok hdr =>
      simp only []
      split
      · cases ht : typedResource p1 (fun _ => true) unpackUnknown with
        | mk p2 r =>
          cases r with
          | error e => rfl
          | ok data =>
            simp only []
            have hf := nbnsNodeStatus_first data
            cases hfn : firstNodeName data with
            | some x =>
              rw [hfn] at hf
              obtain ⟨l, hl⟩ := hf
              rw [hl]
            | none =>
              rw [hfn] at hf
              rcases hf with hl | ⟨e, hl⟩ <;> rw [hl]
      · rfl

/-- **the ProcessNBNS answer scan as a relation** `NbnsScan p o`: from parser state `p` (dnsmessage
    cursor inside the answer section) the scan ends with result `o`.  The first NBSTAT answer
    whose NODE_NAME array has a unique name wins; NBSTAT answers with malformed RDATA or without a
    unique name, and answers of other types, are passed over; an unreadable header or body, or a
    failing skip, ends the scan with the error flag and no name; the end of the section ends it
    with neither. -/
inductive NbnsScan : Parser → NbnsOut → Prop
  | sectionDone {p p1 : Parser} :
      resourceHeader p secAnswers = (p1, .error .sectionDone) →
      NbnsScan p { type := sNbns, name := [], err := false }
  | headerErr {p p1 : Parser} {e : PErr} :
      resourceHeader p secAnswers = (p1, .error e) → e ≠ .sectionDone →
      NbnsScan p { type := sNbns, name := [], err := true }
  | bodyErr {p p1 p2 : Parser} {hdr : RHeader} {e : PErr} :
      resourceHeader p secAnswers = (p1, .ok hdr) → hdr.rtype = 0x21 →
      typedResource p1 (fun _ => true) unpackUnknown = (p2, .error e) →
      NbnsScan p { type := sNbns, name := [], err := true }
  | found {p p1 p2 : Parser} {hdr : RHeader} {data x : Bytes} :
      resourceHeader p secAnswers = (p1, .ok hdr) → hdr.rtype = 0x21 →
      typedResource p1 (fun _ => true) unpackUnknown = (p2, .ok data) → firstNodeName data = some x →
      NbnsScan p { type := sNbns, name := x, err := false }
  | noName {p p1 p2 : Parser} {hdr : RHeader} {data : Bytes} {o : NbnsOut} :
      resourceHeader p secAnswers = (p1, .ok hdr) → hdr.rtype = 0x21 →
      typedResource p1 (fun _ => true) unpackUnknown = (p2, .ok data) → firstNodeName data = none →
      NbnsScan p2 o → NbnsScan p o
  | skipped {p p1 p2 : Parser} {hdr : RHeader} {o : NbnsOut} :
      resourceHeader p secAnswers = (p1, .ok hdr) → hdr.rtype ≠ 0x21 →
      skipResource p1 secAnswers = (p2, none) →
      NbnsScan p2 o → NbnsScan p o
  | skipErr {p p1 p2 : Parser} {hdr : RHeader} {e : PErr} :
      resourceHeader p secAnswers = (p1, .ok hdr) → hdr.rtype ≠ 0x21 →
      skipResource p1 secAnswers = (p2, some e) →
      NbnsScan p { type := sNbns, name := [], err := true }

theorem nbnsStep_done_scan (p : Parser) (r : Outcome NbnsOut) (h : nbnsStep p = .done r) :
    ∃ o, r = .ok o ∧ NbnsScan p o := by
  rw [nbnsStep_eq_spec] at h
  cases hrh : resourceHeader p secAnswers with
  | mk p1 rr =>
    rw [hrh] at h
    cases rr with
    | error e =>
      cases e with
      | sectionDone => simp only [] at h; injection h with h; exact ⟨_, h.symm, .sectionDone hrh⟩
      | notStarted => simp only [] at h; injection h with h; exact ⟨_, h.symm, .headerErr hrh (by simp)⟩
      | other => simp only [] at h; injection h with h; exact ⟨_, h.symm, .headerErr hrh (by simp)⟩
    | ok hdr =>
      simp only [] at h
      split at h
      next h21 =>
        cases ht : typedResource p1 (fun _ => true) unpackUnknown with
        | mk p2 rr =>
          rw [ht] at h
          cases rr with
          | error e => simp only [] at h; injection h with h; exact ⟨_, h.symm, .bodyErr hrh h21 ht⟩
          | ok data =>
            simp only [] at h
            cases hfn : firstNodeName data with
            | some x => rw [hfn] at h; simp only [] at h; injection h with h; exact ⟨_, h.symm, .found hrh h21 ht hfn⟩
            | none => rw [hfn] at h; simp at h
      next h21 =>
        cases hsk : skipResource p1 secAnswers with
        | mk p2 rr =>
          rw [hsk] at h
          cases rr with
          | some e => simp only [] at h; injection h with h; exact ⟨_, h.symm, .skipErr hrh h21 hsk⟩
          | none => simp at h

theorem nbnsStep_next_scan (p p' : Parser) (o : NbnsOut) (h : nbnsStep p = .next p') (hs : NbnsScan p' o) :
    NbnsScan p o := by
  rw [nbnsStep_eq_spec] at h
  cases hrh : resourceHeader p secAnswers with
  | mk p1 rr =>
    rw [hrh] at h
    cases rr with
    | error e => cases e <;> simp at h
    | ok hdr =>
      simp only [] at h
      split at h
      next h21 =>
        cases ht : typedResource p1 (fun _ => true) unpackUnknown with
        | mk p2 rr =>
          rw [ht] at h
          cases rr with
          | error e => simp at h
          | ok data =>
            simp only [] at h
            cases hfn : firstNodeName data with
            | some x => rw [hfn] at h; simp at h
            | none =>
              rw [hfn] at h
              simp only [] at h
              injection h with h
              subst h
              exact .noName hrh h21 ht hfn hs
      next h21 =>
        cases hsk : skipResource p1 secAnswers with
        | mk p2 rr =>
          rw [hsk] at h
          cases rr with
          | some e => simp at h
          | none =>
            simp only [] at h
            injection h with h
            subst h
            exact .skipped hrh h21 hsk hs

/-- the loop returns `hang` (fuel exhausted) or the result of the scan -/
theorem nbnsLoop_scan : ∀ (fuel : Nat) (p : Parser), nbnsLoop fuel p = .hang ∨ ∃ o, nbnsLoop fuel p = .ok o ∧ NbnsScan p o := by
  intro fuel
  induction fuel with
  | zero => intro p; exact Or.inl rfl
  | succ n ih =>
    intro p
    rw [nbnsLoop]
    cases hst : nbnsStep p with
    | done r =>
      obtain ⟨o, rfl, hs⟩ := nbnsStep_done_scan p r hst
      exact Or.inr ⟨o, rfl, hs⟩
    | next p' =>
      simp only []
      rcases ih p' with h | ⟨o, h1, h2⟩
      · exact Or.inl h
      · exact Or.inr ⟨o, h1, nbnsStep_next_scan p p' o hst h2⟩

/-- the scan relation is functional: it describes one result per parser state -/
theorem NbnsScan.unique {p : Parser} {o o' : NbnsOut} (h : NbnsScan p o) (h' : NbnsScan p o') : o = o' := by
  induction h generalizing o' with
  | sectionDone a => cases h' <;> simp_all
  | headerErr a b => cases h' <;> simp_all
  | bodyErr a b c => cases h' <;> simp_all
  | found a b c d => cases h' <;> simp_all
  | noName a b c d _ ih =>
    cases h' with
    | noName a' b' c' d' s' => rw [a] at a'; cases a'; rw [c] at c'; cases c'; exact ih s'
    | _ => simp_all
  | skipped a b c _ ih =>
    cases h' with
    | skipped a' b' c' s' => rw [a] at a'; cases a'; rw [c] at c'; cases c'; exact ih s'
    | _ => simp_all
  | skipErr a b c => cases h' <;> simp_all

/-- the RDATA handed to the node status decoder is the RDLENGTH bytes after the record header -/
theorem typedResource_unknown {p1 p2 : Parser} {data : Bytes}
    (h : typedResource p1 (fun _ => true) unpackUnknown = (p2, .ok data)) :
    data = (p1.msg.drop p1.off).take p1.resHeaderLength := by
  unfold typedResource at h
  split at h
  · simp at h
  · cases hu : unpackUnknown p1.msg p1.off p1.resHeaderLength with
    | error e => rw [hu] at h; simp at h
    | ok r =>
      rw [hu] at h
      simp only [] at h
      injection h with _ h
      injection h with h
      subst h
      simp only [unpackUnknown, unpackBytesN] at hu
      split at hu
      · cases hu
      · injection hu with hu
        exact hu.symm

theorem resourceHeader_length {p p1 : Parser} {hdr : RHeader} (h : resourceHeader p secAnswers = (p1, .ok hdr)) :
    p1.resHeaderLength = hdr.length := by
  unfold resourceHeader at h
  generalize (if p.resHeaderValid then { p with off := p.resHeaderOffset } else p) = p0 at h
  simp only [] at h
  cases hca : checkAdvance p0 secAnswers with
  | mk q r =>
    rw [hca] at h
    cases r with
    | some e => simp at h
    | none =>
      simp only [] at h
      cases hu : unpackRHeader q.msg q.off with
      | error e => rw [hu] at h; simp at h
      | ok v =>
        obtain ⟨hd, off⟩ := v
        rw [hu] at h
        simp only [] at h
        injection h with h1 h2
        injection h2 with h2
        subst h1; subst h2
        rfl

/-- **provenance of the reported name**: a name reported by the scan over a message `msg` is the
    first unique name of the reference NODE_NAME array of an NBSTAT answer record of that message
    (RDATA = `len` bytes at `off`, NUM_NAMES octet `n`, array and statistics `rest`) — or it is empty. -/
theorem NbnsScan.name_from {p : Parser} {o : NbnsOut} (h : NbnsScan p o) :
    (o.name = [] ∧ o.type = sNbns) ∨
    (o.type = sNbns ∧ o.err = false ∧
      ∃ (off len : Nat) (n : UInt8) (rest : Bytes) (l : List Bytes),
        (p.msg.drop off).take len = n :: rest ∧ 2 ≤ rest.length ∧ n.toNat * 18 ≤ rest.length ∧
        nodeNameArray n.toNat rest = some (o.name :: l)) := by
  induction h with
  | sectionDone _ => exact Or.inl ⟨rfl, rfl⟩
  | headerErr _ _ => exact Or.inl ⟨rfl, rfl⟩
  | bodyErr _ _ _ => exact Or.inl ⟨rfl, rfl⟩
  | skipErr _ _ _ => exact Or.inl ⟨rfl, rfl⟩
  | @found p p1 p2 hdr data x a b c d =>
    right
    obtain ⟨n, rest, l, h1, h2, h3, h4⟩ := firstNodeName_some d
    have hm : p1.msg = p.msg := by have := resourceHeader_msg p secAnswers; rw [a] at this; exact this
    have hdata := typedResource_unknown c
    rw [hm, h1] at hdata
    exact ⟨rfl, rfl, p1.off, p1.resHeaderLength, n, rest, l, hdata.symm, h2, h3, h4⟩
  | @noName p p1 p2 hdr data o a b c d _ ih =>
    have hm1 : p1.msg = p.msg := by have := resourceHeader_msg p secAnswers; rw [a] at this; exact this
    have hm2 : p2.msg = p1.msg := by
      have := typedResource_msg p1 (fun _ => true) unpackUnknown; rw [c] at this; exact this
    rw [hm2, hm1] at ih
    exact ih
  | @skipped p p1 p2 hdr o a b c _ ih =>
    have hm1 : p1.msg = p.msg := by have := resourceHeader_msg p secAnswers; rw [a] at this; exact this
    have hm2 : p2.msg = p1.msg := by have := skipResource_msg p1 secAnswers; rw [c] at this; exact this
    rw [hm2, hm1] at ih
    exact ih

/-- the whole call: every way `ProcessNBNS` returns -/
theorem processNBNS_cases (fuel : Nat) (payload : Bytes) (o : NbnsOut) (h : processNBNS fuel payload = .ok o) :
    (o = { type := [], name := [], err := true } ∧
      (payload.length < 12 ∨ (∃ e, start payload = .error e) ∨
        ∃ p hdr p1 e, start payload = .ok (p, hdr) ∧ hdr.response = true ∧ skipAllQuestions fuel p = .ok (p1, some e))) ∨
    (o = { type := [], name := [], err := false } ∧ ∃ p hdr, start payload = .ok (p, hdr) ∧ hdr.response = false) ∨
    (∃ p hdr p1, start payload = .ok (p, hdr) ∧ hdr.response = true ∧ skipAllQuestions fuel p = .ok (p1, none) ∧
      p1.msg = payload ∧ NbnsScan p1 o) := by
  unfold processNBNS at h
  split at h
  next hl => injection h with h; exact Or.inl ⟨h.symm, Or.inl hl⟩
  cases hs : start payload with
  | error e => rw [hs] at h; simp only [] at h; injection h with h; exact Or.inl ⟨h.symm, Or.inr (Or.inl ⟨e, rfl⟩)⟩
  | ok v =>
    obtain ⟨p, hdr⟩ := v
    rw [hs] at h
    simp only [] at h
    cases hresp : hdr.response with
    | false =>
      rw [hresp] at h
      simp only [Bool.not_false, if_true] at h
      injection h with h
      exact Or.inr (Or.inl ⟨h.symm, p, hdr, rfl, hresp⟩)
    | true =>
      rw [hresp] at h
      simp only [Bool.not_true, Bool.false_eq_true, if_false] at h
      cases hq : skipAllQuestions fuel p with
      | ok w =>
        obtain ⟨p1, r⟩ := w
        rw [hq] at h
        cases r with
        | some e =>
          simp only [] at h
          injection h with h
          exact Or.inl ⟨h.symm, Or.inr (Or.inr ⟨p, hdr, p1, e, rfl, hresp, hq⟩)⟩
        | none =>
          simp only [] at h
          rcases nbnsLoop_scan fuel p1 with hh | ⟨o', h1, h2⟩
          · rw [hh] at h; cases h
          · rw [h1] at h
            injection h with h
            subst h
            have hm := skipAllQuestions_msg fuel p p1 none hq
            rw [start_msg payload p hdr hs] at hm
            exact Or.inr (Or.inr ⟨p, hdr, p1, rfl, hresp, hq, hm, h2⟩)
      | err e => rw [hq] at h; cases h
      | panic => rw [hq] at h; cases h
      | hang => rw [hq] at h; cases h

/-- with enough fuel the call returns a result: no Go error value, no panic, no hang -/
theorem processNBNS_total (fuel : Nat) (payload : Bytes) (hf : nbnsBound payload ≤ fuel) :
    ∃ o, processNBNS fuel payload = .ok o := by
  have ht := processNBNS_terminates payload fuel hf
  cases hr : processNBNS fuel payload with
  | ok o => exact ⟨o, rfl⟩
  | panic => exact absurd hr ht.1
  | hang => exact absurd hr ht.2
  | err e =>
    exfalso
    unfold processNBNS at hr
    split at hr
    · cases hr
    cases hs : start payload with
    | error e => rw [hs] at hr; cases hr
    | ok v =>
      obtain ⟨p, hdr⟩ := v
      rw [hs] at hr
      simp only [] at hr
      split at hr
      · cases hr
      · unfold nbnsBound at hf
        rw [hs] at hf
        simp only [] at hf
        have hm2 := mu2_le p
        obtain ⟨p1, r, h1, _, _⟩ := skipAllQuestions_terminates fuel p (inv_of_start hs) (by omega)
        rw [h1] at hr
        cases r with
        | some e => cases hr
        | none =>
          simp only [] at hr
          rcases nbnsLoop_scan fuel p1 with hh | ⟨o', hh, _⟩ <;> (rw [hh] at hr; cases hr)

/-! ### a concrete NBSTAT response (non-vacuity of the theorems of `Props/C17.lean`) -/


/-- NBSTAT response: header (response, ANCOUNT 1), answer with root owner name, type 0x21, RDLENGTH 19,
    RDATA = NUM_NAMES 1, the unique name "U1" space/NUL padded, flags 0x0400 -/
def sampleNbns : Bytes :=
  [0,1,0x84,0,0,0,0,1,0,0,0,0,  0, 0,0x21, 0,1, 0,0,0,0, 0,19,
   1, 85,49,32,32,32,32,32,32,32,32,32,32,32,32,32,0, 4,0]

def sampleP0 : Parser :=
  { msg := sampleNbns, qd := 0, an := 1, ns := 0, ar := 0, sect := 2,
    off := 12,
    index := 0,
    resHeaderValid := false, resHeaderOffset := 0, resHeaderType := 0, resHeaderLength := 0 }
def sampleP1 : Parser := { sampleP0 with sect := 3 }
set_option maxRecDepth 100000 in
theorem sample_start : start sampleNbns = .ok (sampleP0, { id := 1, response := true }) := by rfl
theorem sample_skip : skipAllQuestions 5 sampleP0 = .ok (sampleP1, none) := by rfl
theorem sample_name : unpackName sampleNbns 12 = .ok ([46], 13) := by
  unfold unpackName
  rw [unpackNameLoop]
  rfl
theorem sample_hdr : unpackRHeader sampleNbns 12 = .ok ({ name := [46], rtype := 0x21, rclass := 1, ttl := 0, length := 19 }, 23) := by
  unfold unpackRHeader
  rw [sample_name]
  rfl
def sampleP2 : Parser := { sampleP1 with resHeaderValid := true, resHeaderOffset := 12, resHeaderType := 0x21, resHeaderLength := 19, off := 23 }
theorem sample_resourceHeader : resourceHeader sampleP1 secAnswers = (sampleP2, .ok { name := [46], rtype := 0x21, rclass := 1, ttl := 0, length := 19 }) := by
  unfold resourceHeader
  have h1 : (if sampleP1.resHeaderValid = true then { sampleP1 with off := sampleP1.resHeaderOffset } else sampleP1) = sampleP1 := by rfl
  have h2 : checkAdvance sampleP1 secAnswers = (sampleP1, none) := by rfl
  have h3 : unpackRHeader sampleP1.msg sampleP1.off = .ok ({ name := [46], rtype := 0x21, rclass := 1, ttl := 0, length := 19 }, 23) := sample_hdr
  rw [h1]
  simp only []
  rw [h2]
  simp only []
  rw [h3]
  rfl
theorem sample_step : nbnsStep sampleP1 = .done (.ok { type := sNbns, name := [85,49], err := false }) := by
  rw [nbnsStep_eq_spec, sample_resourceHeader]
  rfl
theorem sample_processNBNS : processNBNS 5 sampleNbns = .ok { type := sNbns, name := [85,49], err := false } := by
  unfold processNBNS
  rw [if_neg (by decide), sample_start]
  simp only [Bool.not_true, Bool.false_eq_true, if_false]
  rw [sample_skip]
  simp only []
  rw [nbnsLoop, sample_step]

end PV.Lemmas.Nbns
