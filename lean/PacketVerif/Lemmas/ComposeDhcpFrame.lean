/-
  Helper definitions and lemmas of Props/ComposeDhcpFrame (builder D): the request frame as the references of
  `Spec/Wire` read it (`readReq`), the handler's `Rx` from that reading, and what an accepting verdict of
  `Spec.Wire.wfUDP4` says about a frame.
-/
import PacketVerif.Props.ComposeDhcpWire
import PacketVerif.Model.Dhcp4Frames
namespace PV.Lemmas.ComposeDhcpFrame
open PV PV.Model PV.Model.Dhcp4Srv PV.Model.Dhcp4Opt PV.Model.Dhcp4Frame PV.Spec PV.Spec.Wire

/-- what the frame reference reads in a received Ethernet II / IPv4 / UDP frame -/
structure ReqFrame where
  srcMAC : Bytes      -- Ethernet source
  srcIP : Bytes       -- IPv4 source (4 bytes)
  dstPort : Nat       -- UDP destination port
  payload : Bytes     -- UDP payload: the DHCP message
  deriving Repr, DecidableEq

/-- the request frame as the references of `Spec/Wire` read it (complete, length-consistent, checksum verifying) -/
def readReq (F : Bytes) : Option ReqFrame :=
  match decEth F with
  | none => none
  | some e =>
    if e.etype ≠ 0x0800 then none
    else match decIp4 e.payload with
      | none => none
      | some ip =>
        if ip.proto ≠ 17 then none
        else match decUdp ip.payload with
          | none => none
          | some u => some ⟨e.src, ip.src, u.dport, u.payload⟩

/-- an IPv4 address of the wire as the number the handler model works with -/
def ipNat (b : Bytes) : Nat := u8 b 0 * 16777216 + u8 b 1 * 65536 + u8 b 2 * 256 + u8 b 3

/-- what `ProcessPacket` reads of the frame besides the payload (`Model.Dhcp4Frame.Rx`), from the reference's reading;
    `cap` = capacity of the receive buffer behind the payload -/
def rxOf (q : ReqFrame) (cap : Nat) : Rx := { srcIP := ipNat q.srcIP, dstPort := q.dstPort, cap := cap }

theorem decEth_src_len {F : Bytes} {e : Eth} (h : decEth F = some e) : e.src.length = 6 := by
  unfold decEth at h
  split at h
  · cases h
  · cases h
    simp only [sub, List.length_take, List.length_drop]
    omega

theorem decIp4_src_len {p : Bytes} {ip : Ip4} (h : decIp4 p = some ip) : ip.src.length = 4 := by
  unfold decIp4 at h
  simp only at h
  split at h
  · cases h
  · rename_i h1
    simp only [not_or, Nat.not_lt] at h1
    split at h
    · cases h
    · split at h
      · cases h
      · cases h
        simp only [sub, List.length_take, List.length_drop]
        omega

theorem readReq_shape {F : Bytes} {q : ReqFrame} (h : readReq F = some q) : q.srcMAC.length = 6 ∧ q.srcIP.length = 4 := by
  unfold readReq at h
  split at h
  · cases h
  · rename_i e he
    split at h
    · cases h
    · split at h
      · cases h
      · rename_i ip hip
        split at h
        · cases h
        · split at h
          · cases h
          · cases h
            exact ⟨decEth_src_len he, decIp4_src_len hip⟩

theorem ip4Bytes_ipNat (b : Bytes) (h : b.length = 4) : ip4Bytes (ipNat b) = b := by
  match b, h with
  | [a, b, c, d], _ =>
    simp only [ipNat, u8, ip4Bytes, List.getElem?_cons_zero, List.getElem?_cons_succ, Option.getD_some]
    have ha := a.toNat_lt; have hb := b.toNat_lt; have hc := c.toNat_lt; have hd := d.toNat_lt
    have e1 : UInt8.ofNat ((a.toNat * 16777216 + b.toNat * 65536 + c.toNat * 256 + d.toNat) / 16777216) = a := by
      apply UInt8.toNat_inj.mp; rw [UInt8.toNat_ofNat']; omega
    have e2 : UInt8.ofNat ((a.toNat * 16777216 + b.toNat * 65536 + c.toNat * 256 + d.toNat) / 65536) = b := by
      apply UInt8.toNat_inj.mp; rw [UInt8.toNat_ofNat']; omega
    have e3 : UInt8.ofNat ((a.toNat * 16777216 + b.toNat * 65536 + c.toNat * 256 + d.toNat) / 256) = c := by
      apply UInt8.toNat_inj.mp; rw [UInt8.toNat_ofNat']; omega
    have e4 : UInt8.ofNat (a.toNat * 16777216 + b.toNat * 65536 + c.toNat * 256 + d.toNat) = d := by
      apply UInt8.toNat_inj.mp; rw [UInt8.toNat_ofNat']; omega
    rw [e1, e2, e3, e4]

theorem ipNat_eq_zero (b : Bytes) (h : b.length = 4) : ipNat b = 0 ↔ b = [0, 0, 0, 0] := by
  constructor
  · intro h0
    have := ip4Bytes_ipNat b h
    rw [h0] at this
    exact this.symm
  · intro e; subst e; rfl

/-- what an accepting verdict of `Spec.Wire.wfUDP4` says about the frame, reading by reading -/
theorem wfUDP4_reads {hm dm sip dip : Bytes} {sp dp : Nat} {pl f : Bytes} (h : wfUDP4 hm dm sip dip sp dp pl f = none) :
    ∃ e ip u, decEth f = some e ∧ e.etype = 0x0800 ∧ e.src = hm ∧ e.dst = dm ∧ decIp4 e.payload = some ip ∧ ip.proto = 17 ∧
      ip.src = sip ∧ ip.dst = dip ∧ decUdp ip.payload = some u ∧ u.sport = sp ∧ u.dport = dp ∧ u.payload = pl := by
  unfold wfUDP4 at h
  split at h
  · cases h
  · rename_i e he
    split at h
    · cases h
    · rename_i h1
      split at h
      · cases h
      · rename_i h2
        split at h
        · cases h
        · rename_i h3
          split at h
          · cases h
          · rename_i ip hip
            split at h
            · cases h
            · rename_i h4
              split at h
              · cases h
              · rename_i h5
                split at h
                · cases h
                · rename_i u hu
                  split at h
                  · cases h
                  · rename_i h6
                    split at h
                    · cases h
                    · rename_i h7
                      refine ⟨e, ip, u, he, ?_, ?_, ?_, hip, ?_, ?_, ?_, hu, ?_, ?_, ?_⟩ <;> simp_all <;> omega

end PV.Lemmas.ComposeDhcpFrame
