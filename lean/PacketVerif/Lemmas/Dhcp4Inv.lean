/-
  The lease-table invariant of the DHCP server model and its preservation by every operation.
-/
import PacketVerif.Lemmas.Dhcp4Srv
namespace PV.Lemmas.Dhcp4Srv
open PV PV.Model.Dhcp4Srv

/-- per-lease well-formedness: every stored address was validated for the lease's subnet,
    an allocated lease has an address, a lease in discover state has an offer -/
structure LeaseOK (cfg : Cfg) (v : Lease) : Prop where
  ipUsable : ∀ ip, v.ip = some ip → usable cfg v.sub ip = true
  offerUsable : ∀ ip, v.offer = some ip → usable cfg v.sub ip = true
  allocSome : v.state = .allocated → v.ip.isSome = true
  discSome : v.state = .discover → v.offer.isSome = true

/-- table invariant: allocated leases of different clients have different addresses; every lease is
    well-formed; keys are unique -/
structure TInv (cfg : Cfg) (t : Table) : Prop where
  uniq : ∀ c1 l1 c2 l2, (c1, l1) ∈ t → (c2, l2) ∈ t →
      l1.state = .allocated → l2.state = .allocated → l1.ip = l2.ip → c1 = c2
  ok : ∀ c l, (c, l) ∈ t → LeaseOK cfg l
  keys : KeysUnique t

theorem leaseOK_fresh (cfg : Cfg) (mac : MAC) (sub : SubId) : LeaseOK cfg (freshLease mac sub) :=
  ⟨by simp [freshLease], by simp [freshLease], by simp [freshLease], by simp [freshLease]⟩

theorem tinv_nil (cfg : Cfg) : TInv cfg [] :=
  ⟨by simp, by simp, by simp [KeysUnique]⟩

/-- no allocated lease of another client carries the address of `v` -/
def NoClash (t : Table) (c : Cid) (v : Lease) : Prop :=
  v.state = .allocated → ∀ k l, (k, l) ∈ t → k ≠ c → l.state = .allocated → l.ip ≠ v.ip

theorem tinv_set {cfg : Cfg} {t : Table} (h : TInv cfg t) (c : Cid) (v : Lease)
    (hok : LeaseOK cfg v) (hc : NoClash t c v) : TInv cfg (setLease t c v) := by
  refine ⟨?_, ?_, keysUnique_setLease c v h.keys⟩
  · intro c1 l1 c2 l2 h1 h2 a1 a2 e
    rcases mem_setLease.1 h1 with ⟨rfl, rfl⟩ | ⟨n1, m1⟩ <;> rcases mem_setLease.1 h2 with ⟨rfl, rfl⟩ | ⟨n2, m2⟩
    · rfl
    · exact absurd e.symm (hc a1 c2 l2 m2 n2 a2)
    · exact absurd e (hc a2 c1 l1 m1 n1 a1)
    · exact h.uniq c1 l1 c2 l2 m1 m2 a1 a2 e
  · intro k l hm
    rcases mem_setLease.1 hm with ⟨rfl, rfl⟩ | ⟨_, m⟩
    · exact hok
    · exact h.ok k l m

theorem tinv_del {cfg : Cfg} {t : Table} (h : TInv cfg t) (c : Cid) : TInv cfg (delLease t c) := by
  refine ⟨?_, ?_, keysUnique_delLease c h.keys⟩
  · intro c1 l1 c2 l2 h1 h2
    exact h.uniq c1 l1 c2 l2 (mem_delLease.1 h1).2 (mem_delLease.1 h2).2
  · intro k l hm
    exact h.ok k l (mem_delLease.1 hm).2

theorem mem_freeLeases {t : Table} {now : Nat} {k : Cid} {l : Lease} (h : (k, l) ∈ freeLeases t now) :
    ∃ l0, (k, l0) ∈ t ∧ (l = l0 ∨ (l = { l0 with state := .free } ∧ l0.expiry < now)) := by
  unfold freeLeases at h
  obtain ⟨e, he, hx⟩ := List.mem_map.1 h
  cases e with
  | mk k0 l0 =>
    by_cases hc : (l0.state != .free && decide (l0.expiry < now)) = true
    · simp only [hc, if_true] at hx
      simp only [Prod.mk.injEq] at hx
      obtain ⟨rfl, rfl⟩ := hx
      simp only [Bool.and_eq_true, decide_eq_true_eq] at hc
      exact ⟨l0, he, Or.inr ⟨rfl, hc.2⟩⟩
    · simp only [hc] at hx
      simp only [Bool.false_eq_true, if_false, Prod.mk.injEq] at hx
      obtain ⟨rfl, rfl⟩ := hx
      exact ⟨l0, he, Or.inl rfl⟩

theorem freeLeases_keys (t : Table) (now : Nat) : (freeLeases t now).map (·.1) = t.map (·.1) := by
  unfold freeLeases
  rw [List.map_map]
  apply List.map_congr_left
  intro e _
  simp only [Function.comp]
  split <;> rfl

theorem tinv_free {cfg : Cfg} {t : Table} (h : TInv cfg t) (now : Nat) : TInv cfg (freeLeases t now) := by
  refine ⟨?_, ?_, ?_⟩
  · intro c1 l1 c2 l2 h1 h2 a1 a2 e
    obtain ⟨p1, m1, r1⟩ := mem_freeLeases h1
    obtain ⟨p2, m2, r2⟩ := mem_freeLeases h2
    rcases r1 with rfl | ⟨rfl, _⟩
    · rcases r2 with rfl | ⟨rfl, _⟩
      · exact h.uniq c1 _ c2 _ m1 m2 a1 a2 e
      · simp at a2
    · simp at a1
  · intro k l hm
    obtain ⟨p, m, r⟩ := mem_freeLeases hm
    have hp := h.ok k p m
    rcases r with rfl | ⟨rfl, _⟩
    · exact hp
    · exact ⟨hp.ipUsable, hp.offerUsable, by simp, by simp⟩
  · unfold KeysUnique; rw [freeLeases_keys]; exact h.keys

/-- the lease `findOrCreate` hands out is well-formed, and it is either the table entry or fresh -/
theorem foc_ok {cfg : Cfg} {s : State} (h : TInv cfg s.table) (c : Cid) (mac : MAC) :
    LeaseOK cfg (findOrCreate s c mac) := by
  rcases findOrCreate_cases s c mac with hm | hf
  · exact h.ok _ _ hm.1
  · rw [hf]; exact leaseOK_fresh cfg _ _

/-- a lease that keeps state/address of the lease found for `c` cannot clash -/
theorem foc_noClash {cfg : Cfg} {s : State} (h : TInv cfg s.table) (c : Cid) (mac : MAC) (v : Lease)
    (hv : v.state = .allocated → (findOrCreate s c mac).state = .allocated ∧ v.ip = (findOrCreate s c mac).ip) :
    NoClash s.table c v := by
  intro a k l hm hk hl heq
  obtain ⟨a0, e0⟩ := hv a
  rcases findOrCreate_cases s c mac with hm0 | hf
  · exact hk (h.uniq k l c _ hm hm0.1 hl a0 (heq.trans e0))
  · rw [hf] at a0; simp [freshLease] at a0

theorem setCursor_table (s : State) (sub : SubId) (n : IP) : (setCursor s sub n).table = s.table := by
  cases sub <;> rfl

/-- the candidate of `handleDiscover` after the state switch: current address / previous offer / nothing -/
def discCand (l0 : Lease) (now : Nat) (m : Msg) : Lease :=
  match l0.state with
  | .allocated => { l0 with offer := if l0.expiry < now then none else l0.ip }
  | .discover => if l0.xid != m.xid then { l0 with offer := none } else l0
  | .free => l0

theorem discCand_props (l : Lease) (now : Nat) (m : Msg) :
    (discCand l now m).ip = l.ip ∧ (discCand l now m).sub = l.sub ∧ (discCand l now m).mac = l.mac ∧
    (∀ ip, (discCand l now m).offer = some ip → l.offer = some ip ∨ l.ip = some ip) := by
  cases l with
  | mk st mac ip offer xid sub expiry =>
    cases st
    · simp only [discCand]; exact ⟨trivial, trivial, trivial, fun _ h => Or.inl h⟩
    · by_cases hx : (xid != m.xid) = true
      · simp only [discCand, hx, if_true]; exact ⟨trivial, trivial, trivial, by intro a h; simp at h⟩
      · have hx' : (xid != m.xid) = false := by simpa using hx
        simp only [discCand, hx', Bool.false_eq_true, if_false]; exact ⟨trivial, trivial, trivial, fun _ h => Or.inl h⟩
    · simp only [discCand]
      refine ⟨trivial, trivial, trivial, ?_⟩
      intro a h
      by_cases he : expiry < now
      · simp [he] at h
      · simp only [he, if_false] at h; exact Or.inr h

/-- the lease after the state switch and the re-check (`inUse`, `takenByOther`) of `handleDiscover` -/
def discLease (s : State) (now : Nat) (m : Msg) : Lease :=
  let c := clientId m
  let la := discCand (findOrCreate s c m.chaddr) now m
  if inUse s.table c la.offer || takenByOther s la.mac la.offer then { la with offer := none } else la

theorem discLease_props (s : State) (now : Nat) (m : Msg) (l : Lease)
    (hl : findOrCreate s (clientId m) m.chaddr = l) :
    (discLease s now m).ip = l.ip ∧ (discLease s now m).sub = l.sub ∧ (discLease s now m).mac = l.mac ∧
    (∀ ip, (discLease s now m).offer = some ip →
      (inUse s.table (clientId m) (some ip) = false ∧ takenByOther s l.mac (some ip) = false)
        ∧ (l.offer = some ip ∨ l.ip = some ip)) := by
  unfold discLease
  simp only [hl]
  obtain ⟨h1, h2, h3, h4⟩ := discCand_props l now m
  by_cases hu : (inUse s.table (clientId m) (discCand l now m).offer
      || takenByOther s (discCand l now m).mac (discCand l now m).offer) = true
  · simp only [hu, if_true]
    exact ⟨h1, h2, h3, by intro ip h; simp at h⟩
  · simp only [hu]
    refine ⟨h1, h2, h3, ?_⟩
    intro ip h
    simp only [Bool.false_eq_true, if_false] at h
    rw [h, h3] at hu
    simp only [Bool.or_eq_true, not_or, Bool.not_eq_true] at hu
    exact ⟨hu, h4 ip h⟩

/-- the lease stored by a successful `handleDiscover` -/
def offerLease (s : State) (now : Nat) (m : Msg) (ip : IP) : Lease :=
  { discLease s now m with offer := some ip, state := .discover, xid := m.xid }

/-- outcome of `handleDiscover`: either exhausted (lease deleted, no reply) or one OFFER of an address that is
    the re-validated previous offer / current address, or a freshly allocated available address -/
theorem discover_outcome (cfg : Cfg) (s : State) (now : Nat) (m : Msg) :
    (∃ cur, discover cfg s now m =
        ({ setCursor s (discLease s now m).sub cur with table := delLease s.table (clientId m) }, []))
    ∨ (∃ (s1 : State) (ip : IP), s1.table = s.table ∧ s1.hosts = s.hosts ∧ s1.captured = s.captured ∧
        discover cfg s now m = ({ s1 with table := setLease s.table (clientId m) (offerLease s now m ip) },
                                 [mkReply cfg m .offer (offerLease s now m ip) (some ip)]) ∧
        ((discLease s now m).offer = some ip ∨
          available cfg s (clientId m) (discLease s now m).sub ip = true)) := by
  have hd : discover cfg s now m =
      (match (discLease s now m).offer with
       | some _ =>
          ({ s with table := setLease s.table (clientId m) { discLease s now m with state := .discover, xid := m.xid } },
           [mkReply cfg m .offer { discLease s now m with state := .discover, xid := m.xid } (discLease s now m).offer])
       | none =>
          match allocIPOffer cfg s (clientId m) (discLease s now m).sub (addrFromSlice (optBytes m.reqOpt)) with
          | (some ip, cur) =>
            ({ setCursor s (discLease s now m).sub cur with
                table := setLease (setCursor s (discLease s now m).sub cur).table (clientId m)
                  { discLease s now m with offer := some ip, state := .discover, xid := m.xid } },
             [mkReply cfg m .offer { discLease s now m with offer := some ip, state := .discover, xid := m.xid } (some ip)])
          | (none, cur) =>
            ({ setCursor s (discLease s now m).sub cur with table := delLease s.table (clientId m) }, [])) := by
    rfl
  rw [hd]
  cases ho : (discLease s now m).offer with
  | some ip =>
    right
    refine ⟨s, ip, rfl, rfl, rfl, ?_, Or.inl rfl⟩
    simp only [offerLease, ho]
  | none =>
    simp only []
    cases ha : allocIPOffer cfg s (clientId m) (discLease s now m).sub (addrFromSlice (optBytes m.reqOpt)) with
    | mk r cur =>
      cases r with
      | none => left; exact ⟨cur, rfl⟩
      | some ip =>
        right
        refine ⟨setCursor s (discLease s now m).sub cur, ip, setCursor_table _ _ _, ?_, ?_, ?_, Or.inr (allocIPOffer_some ha)⟩
        · cases (discLease s now m).sub <;> rfl
        · cases (discLease s now m).sub <;> rfl
        · simp only [offerLease, setCursor_table]


/-- the lease stored by the ACK tail of `handleRequest` -/
def ackedLease (cfg : Cfg) (now : Nat) (l : Lease) : Lease :=
  { (if l.state = .discover then { l with ip := l.offer, offer := none } else l) with
      state := .allocated, expiry := now + (cfg.sub l.sub).dur }

theorem ackLease_eq (cfg : Cfg) (s : State) (now : Nat) (m : Msg) (c : Cid) (l : Lease) :
    ackLease cfg s now m c l =
      ({ s with table := setLease s.table c (ackedLease cfg now l) },
       [mkReply cfg m .ack (ackedLease cfg now l) (ackedLease cfg now l).ip]) := rfl

def freedLease (l : Lease) : Lease := { l with state := .free, ip := none }

theorem verdict_kept {cfg : Cfg} {s : State} {now : Nat} {m : Msg} {l l' : Lease}
    (h : (verdict cfg s now m l).kept = some l') :
    l' = l ∨ (l' = freedLease l ∧ l.state ≠ .discover) := by
  unfold verdict at h
  simp only [] at h
  have hos : otherServer l = l ∨ (otherServer l = freedLease l ∧ l.state ≠ .discover) := by
    unfold otherServer
    by_cases hd : l.state = .discover
    · left; simp [hd]
    · right; simp [hd, freedLease]
  repeat' split at h
  all_goals first
    | (simp only [Verdict.kept, Option.some.injEq] at h; rw [← h]; exact hos)
    | (simp only [Verdict.kept, Option.some.injEq] at h; exact Or.inl h.symm)
    | (simp [Verdict.kept] at h; done)

/-- what must hold of the lease found for the client when `handleRequest` decides to ACK -/
structure AckCond (cfg : Cfg) (s : State) (now : Nat) (m : Msg) (l : Lease) : Prop where
  notFree : l.state ≠ .free
  mac : l.mac = m.chaddr
  disc : l.state = .discover → reqKind m = .selecting ∧ l.xid = m.xid ∧ l.offer = some (reqIPOf m)
            ∧ inUse s.table (clientId m) l.offer = false
  alloc : l.state = .allocated → l.ip = some (reqIPOf m)
  server : reqKind m = .selecting → reqAddr m.srvOpt = (cfg.sub (selSub s m.chaddr)).server
  nonsel : reqKind m ≠ .selecting → l.state = .allocated
  fresh : reqKind m = .renewing → ¬ l.expiry < now
  inSub : (reqKind m = .rebinding ∨ reqKind m = .rebooting) →
            (cfg.sub (selSub s m.chaddr)).contains (reqIPOf m) = true
  untracked : takenByOther s l.mac (some (reqIPOf m)) = false

theorem verdict_ack {cfg : Cfg} {s : State} {now : Nat} {m : Msg} {l : Lease}
    (h : verdict cfg s now m l = .ack) : AckCond cfg s now m l := by
  unfold verdict at h
  simp only [] at h
  cases hk : reqKind m <;> simp only [hk] at h
  · -- selecting
    by_cases h1 : (reqAddr m.srvOpt != (cfg.sub (selSub s m.chaddr)).server) = true
    · simp only [h1, if_true] at h
      split at h <;> simp at h
    · have h1' : (reqAddr m.srvOpt != (cfg.sub (selSub s m.chaddr)).server) = false := by simpa using h1
      simp only [h1', Bool.false_eq_true, if_false] at h
      by_cases hb : selBad s m l = true
      · simp [hb] at h
      · simp at h1
        unfold selBad at hb
        cases hs : l.state <;> simp [hs] at hb <;> constructor <;> simp_all
        · rw [← hb.2.1.1.2]; exact hb.2.1.2
        · rw [← hb.2.1.1.2, ← hb.1]; exact hb.2.2
        · rw [← hb.2.1, ← hb.1]; exact hb.2.2
  · -- renewing
    by_cases hb : renewBad s now m l = true
    · simp [hb] at h
    · unfold renewBad at hb
      cases hs : l.state <;> simp [hs] at hb <;> constructor <;> simp_all
      obtain ⟨⟨⟨h1, h2⟩, _⟩, h4⟩ := hb
      rw [← h1, ← h2]; exact h4
  · -- rebinding
    by_cases h0 : (l.state == .free && attacks cfg s m.chaddr) = true
    · simp [h0] at h
    · by_cases hb : rebootBad s (cfg.sub (selSub s m.chaddr)) m l = true
      · simp [h0, hb] at h
      · unfold rebootBad at hb
        cases hs : l.state <;> cases hi : l.ip <;> simp [hs, hi] at hb <;> constructor <;> simp_all
        · obtain ⟨⟨⟨rfl, _⟩, h2⟩, _⟩ := hb; exact h2
        · rw [← hb.1.1.2]; exact hb.2
  · -- rebooting
    by_cases h0 : (l.state == .free && attacks cfg s m.chaddr) = true
    · simp [h0] at h
    · by_cases hb : rebootBad s (cfg.sub (selSub s m.chaddr)) m l = true
      · simp [h0, hb] at h
      · unfold rebootBad at hb
        cases hs : l.state <;> cases hi : l.ip <;> simp [hs, hi] at hb <;> constructor <;> simp_all
        · obtain ⟨⟨⟨rfl, _⟩, h2⟩, _⟩ := hb; exact h2
        · rw [← hb.1.1.2]; exact hb.2

/-- outcome of `handleRequest` -/
theorem request_outcome (cfg : Cfg) (s : State) (now : Nat) (m : Msg) :
    request cfg s now m = (s, [])
    ∨ (∃ l' rs, (verdict cfg s now m (findOrCreate s (clientId m) m.chaddr)).kept = some l' ∧
        request cfg s now m = ({ s with table := setLease s.table (clientId m) l' }, rs) ∧
        ∀ r, r ∈ rs → r.typ = .nak)
    ∨ (verdict cfg s now m (findOrCreate s (clientId m) m.chaddr) = .ack ∧
        request cfg s now m = ackLease cfg s now m (clientId m) (findOrCreate s (clientId m) m.chaddr)) := by
  unfold request
  simp only []
  by_cases h0 : (reqIPOf m == 0) = true
  · left; simp [h0]
  · right
    simp only [h0]
    cases hv : verdict cfg s now m (findOrCreate s (clientId m) m.chaddr) with
    | nak srv l' =>
      left
      exact ⟨l', [nakReply m srv (clientId m)], rfl, by simp, by intro r hr; simp at hr; rw [hr]; rfl⟩
    | silent l' =>
      left
      exact ⟨l', [], rfl, by simp, by intro r hr; simp at hr⟩
    | ack => right; exact ⟨rfl, by simp⟩


theorem leaseOK_offerLease {cfg : Cfg} {s : State} (h : TInv cfg s.table) (now : Nat) (m : Msg) (ip : IP)
    (hip : (discLease s now m).offer = some ip ∨ available cfg s (clientId m) (discLease s now m).sub ip = true) :
    LeaseOK cfg (offerLease s now m ip) := by
  obtain ⟨e1, e2, _, e4⟩ := discLease_props s now m _ rfl
  have h0 := foc_ok h (clientId m) m.chaddr
  refine ⟨?_, ?_, by simp [offerLease], by simp [offerLease]⟩
  · intro a ha
    simp only [offerLease] at ha ⊢
    rw [e2]; rw [e1] at ha; exact h0.ipUsable a ha
  · intro a ha
    simp only [offerLease, Option.some.injEq] at ha ⊢
    subst ha
    rcases hip with hk | hav
    · rw [e2]
      rcases (e4 _ hk).2 with ho | hi
      · exact h0.offerUsable _ ho
      · exact h0.ipUsable _ hi
    · exact (available_usable hav).1

theorem tinv_discover {cfg : Cfg} {s : State} (h : TInv cfg s.table) (now : Nat) (m : Msg) :
    TInv cfg (discover cfg s now m).1.table := by
  rcases discover_outcome cfg s now m with ⟨cur, e⟩ | ⟨s1, ip, _, _, _, e, hip⟩
  · rw [e]; exact tinv_del h _
  · rw [e]
    exact tinv_set h _ _ (leaseOK_offerLease h now m ip hip) (by intro a; simp [offerLease] at a)

theorem leaseOK_freed {cfg : Cfg} {l : Lease} (h : LeaseOK cfg l) : LeaseOK cfg (freedLease l) :=
  ⟨by simp [freedLease], h.offerUsable, by simp [freedLease], by simp [freedLease]⟩

theorem leaseOK_acked {cfg : Cfg} {s : State} {now : Nat} {m : Msg} {l : Lease} (h : LeaseOK cfg l)
    (ha : AckCond cfg s now m l) (now' : Nat) : LeaseOK cfg (ackedLease cfg now' l) := by
  unfold ackedLease
  by_cases hd : l.state = .discover
  · simp only [hd, if_true]
    refine ⟨?_, by simp, ?_, by simp⟩
    · intro a e; exact h.offerUsable a e
    · intro _; simp [(ha.disc hd).2.2.1]
  · simp only [hd, if_false]
    have hal : l.state = .allocated := by
      cases hs : l.state
      · exact absurd hs ha.notFree
      · exact absurd hs hd
      · rfl
    refine ⟨h.ipUsable, h.offerUsable, ?_, by simp⟩
    intro _; simp [ha.alloc hal]

theorem ackedLease_ip {cfg : Cfg} {s : State} {now : Nat} {m : Msg} {l : Lease}
    (ha : AckCond cfg s now m l) (now' : Nat) : (ackedLease cfg now' l).ip = some (reqIPOf m) := by
  unfold ackedLease
  by_cases hd : l.state = .discover
  · simp only [hd, if_true]; exact (ha.disc hd).2.2.1
  · simp only [hd, if_false]
    have hal : l.state = .allocated := by
      cases hs : l.state
      · exact absurd hs ha.notFree
      · exact absurd hs hd
      · rfl
    exact ha.alloc hal

theorem noClash_acked {cfg : Cfg} {s : State} (h : TInv cfg s.table) {now : Nat} {m : Msg}
    (ha : AckCond cfg s now m (findOrCreate s (clientId m) m.chaddr)) (now' : Nat) :
    NoClash s.table (clientId m) (ackedLease cfg now' (findOrCreate s (clientId m) m.chaddr)) := by
  intro _ k l hm hk hl
  rw [ackedLease_ip ha]
  by_cases hd : (findOrCreate s (clientId m) m.chaddr).state = .discover
  · obtain ⟨_, _, ho, hu⟩ := ha.disc hd
    rw [← ho]
    exact inUse_false hu hm hk (by rw [hl]; simp)
  · have hal : (findOrCreate s (clientId m) m.chaddr).state = .allocated := by
      cases hs : (findOrCreate s (clientId m) m.chaddr).state
      · exact absurd hs ha.notFree
      · exact absurd hs hd
      · rfl
    intro heq
    rcases findOrCreate_cases s (clientId m) m.chaddr with hm0 | hf
    · exact hk (h.uniq k l _ _ hm hm0.1 hl hal (heq.trans (ha.alloc hal).symm))
    · rw [hf] at hal; simp [freshLease] at hal

theorem tinv_request {cfg : Cfg} {s : State} (h : TInv cfg s.table) (now : Nat) (m : Msg) :
    TInv cfg (request cfg s now m).1.table := by
  rcases request_outcome cfg s now m with e | ⟨l', rs, hk, e, _⟩ | ⟨hv, e⟩
  · rw [e]; exact h
  · rw [e]
    have h0 := foc_ok h (clientId m) m.chaddr
    rcases verdict_kept hk with rfl | ⟨rfl, _⟩
    · exact tinv_set h _ _ h0 (foc_noClash h _ m.chaddr _ (fun a => ⟨a, rfl⟩))
    · exact tinv_set h _ _ (leaseOK_freed h0) (by intro a; simp [freedLease] at a)
  · rw [e, ackLease_eq]
    have ha := verdict_ack hv
    exact tinv_set h _ _ (leaseOK_acked (foc_ok h _ _) ha now) (noClash_acked h ha now)

def declinedLease (l : Lease) : Lease := { l with state := .free, ip := none, offer := none }

theorem decline_outcome (cfg : Cfg) (s : State) (m : Msg) :
    decline cfg s m = ({ s with table := setLease s.table (clientId m) (findOrCreate s (clientId m) m.chaddr) }, [])
    ∨ decline cfg s m =
        ({ s with table := setLease s.table (clientId m) (declinedLease (findOrCreate s (clientId m) m.chaddr)) }, []) := by
  unfold decline
  simp only []
  split
  · left; rfl
  · split
    · left; rfl
    · right; rfl

theorem tinv_decline {cfg : Cfg} {s : State} (h : TInv cfg s.table) (m : Msg) :
    TInv cfg (decline cfg s m).1.table := by
  have h0 := foc_ok h (clientId m) m.chaddr
  rcases decline_outcome cfg s m with e | e <;> rw [e]
  · exact tinv_set h _ _ h0 (foc_noClash h _ m.chaddr _ (fun a => ⟨a, rfl⟩))
  · exact tinv_set h _ _ ⟨by simp [declinedLease], by simp [declinedLease], by simp [declinedLease], by simp [declinedLease]⟩
      (by intro a; simp [declinedLease] at a)

theorem tinv_release {cfg : Cfg} {s : State} (h : TInv cfg s.table) (m : Msg) :
    TInv cfg (release cfg s m).1.table :=
  tinv_set h _ _ (foc_ok h _ _) (foc_noClash h _ m.chaddr _ (fun a => ⟨a, rfl⟩))


end PV.Lemmas.Dhcp4Srv
