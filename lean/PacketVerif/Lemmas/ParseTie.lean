/-
  Helper lemmas for the Parse tie (Props/C01ParseTie.lean): the regenerated Lean translation of the body of
  `(*Session).Parse` (Gen/ParseGen.lean, written by tools/goextract/parse.go) against `Model.parse`.

  * `ne_*`, `uni_tie`: the re-translated getter bodies (`NE.eval v <term>`) are the model's readers
    (`byteN`, `be16At`, `ip4IHL`, the group bit of the source MAC) on EVERY byte string (no length hypothesis);
  * `j2_eq`/`j3_eq`/`j4_eq`: the three small join points (after the UDP port switch, after the two echo-reply ifs);
  * `j1_tie`: the join point after the EtherType switch (`switch proto { … }`) is `Model.parseProto` applied to
    `ether[offsetPayload:]`, for every frame whose payload offset is non-zero and inside the packet.
-/
import PacketVerif.Gen.ParseGen
import PacketVerif.Lemmas.Parse
import PacketVerif.Props.C01ValidTie
namespace PV.Lemmas.ParseTie
open PV PV.Model PV.Gen PV.Gen.Valid PV.Lemmas

theorem ne_byte (p : Bytes) (k : Nat) : NE.eval p (.byte k) = byteN p k := rfl

theorem ne_be16 (p : Bytes) (k : Nat) : NE.eval p (NE.be16 k) = be16At p k := by
  simp only [NE.be16, NE.eval, be16At]
  cases idx p k <;> cases idx p (k+1) <;> simp [be16, Props.C01ValidTie.shl8_or]

theorem j2_eq (cfg : Cfg) (p : Bytes) (fr : Frame) (udp : Bytes) :
    genParse_j2 cfg p fr udp = .ok ⟨{ fr with offPayload := fr.offPayload + 8 }, none⟩ := by
  simp [genParse_j2, opN, NE.eval]

theorem j3_eq (cfg : Cfg) (p : Bytes) (fr : Frame) : genParse_j3 cfg p fr = .ok ⟨{ fr with pid := 6 }, none⟩ := rfl
theorem j4_eq (cfg : Cfg) (p : Bytes) (fr : Frame) : genParse_j4 cfg p fr = .ok ⟨{ fr with pid := 7 }, none⟩ := rfl

macro "port_step" c:term : tactic =>
  `(tactic| (
    by_cases h : $c
    · (simp only [h, if_true] <;> rfl)
    simp only [h, if_false]))

theorem j1_udp (cfg : Cfg) (p : Bytes) (fr : Frame) (h0 : fr.offPayload ≠ 0) (hle : fr.offPayload ≤ p.length) :
    genParse_j1 cfg p fr 17 = parseProto fr 17 (p.drop fr.offPayload) := by
  simp only [genParse_j1, parseProto]
  simp only [BEq.rfl, if_true]
  simp only [genFramePayloadB, h0, ne_eq, not_false_eq_true, decide_true, if_true]
  simp only [sliceFrom_ok p _ hle, Outcome.bind_ok, Props.C01ValidTie.udp_tie]
  simp only [vUDP, lenAtLeast_eq, ne_be16]
  by_cases h8 : 8 ≤ (p.drop fr.offPayload).length
  · simp only [if_pos h8, guard_ok]
    cases hsp : be16At (p.drop fr.offPayload) 0 <;> try rfl
    rename_i sp
    cases hdp : be16At (p.drop fr.offPayload) 2 <;> try rfl
    rename_i dp
    simp only [Outcome.bind_ok, j2_eq]
    unfold udpClass
    simp only [Bool.or_eq_true, decide_eq_true_eq, beq_iff_eq]
    port_step (sp = 443 ∨ dp = 443)
    port_step (dp = 67 ∨ dp = 68)
    port_step (dp = 546 ∨ dp = 547)
    port_step (sp = 53 ∨ dp = 53)
    port_step (sp = 5353 ∨ dp = 5353)
    port_step (sp = 5355 ∨ dp = 5355)
    port_step (sp = 123 ∨ dp = 123)
    port_step (sp = 1900 ∨ dp = 1900)
    port_step (sp = 3702 ∨ dp = 3702)
    port_step (dp = 137 ∨ dp = 138)
    port_step (dp = 32412 ∨ dp = 32414)
    port_step (sp = 10001 ∨ dp = 10001)
    rfl
  · simp only [if_neg h8, guard_err]; rfl

theorem j1_tcp (cfg : Cfg) (p : Bytes) (fr : Frame) (h0 : fr.offPayload ≠ 0) (hle : fr.offPayload ≤ p.length) :
    genParse_j1 cfg p fr 6 = parseProto fr 6 (p.drop fr.offPayload) := by
  simp only [genParse_j1, parseProto]
  simp (config := {decide := true}) only [if_false, if_true]
  simp only [genFramePayloadB, h0, ne_eq, not_false_eq_true, decide_true, if_true]
  simp only [sliceFrom_ok p _ hle, Outcome.bind_ok, Props.C01ValidTie.tcp_tie]
  simp only [vTCP, ne_be16]
  cases tcpValid (p.drop fr.offPayload) <;> try rfl

theorem j1_icmp4 (cfg : Cfg) (p : Bytes) (fr : Frame) (h0 : fr.offPayload ≠ 0) (hle : fr.offPayload ≤ p.length) :
    genParse_j1 cfg p fr 1 = parseProto fr 1 (p.drop fr.offPayload) := by
  simp only [genParse_j1, parseProto, parseICMP]
  simp (config := {decide := true}) only [if_false, if_true]
  simp only [genFramePayloadB, h0, ne_eq, not_false_eq_true, decide_true, if_true]
  simp only [sliceFrom_ok p _ hle, Outcome.bind_ok, Props.C01ValidTie.icmp_tie, Props.C01ValidTie.icmpEcho_tie]
  simp only [vICMP, vICMPEcho, lenAtLeast_eq, ne_be16, ne_byte, rel, j3_eq]
  by_cases h8 : 8 ≤ (p.drop fr.offPayload).length
  · simp only [if_pos h8, guard_ok]
    cases byteN (p.drop fr.offPayload) 0 <;> rfl
  · simp only [if_neg h8, guard_err]

theorem j1_icmp6 (cfg : Cfg) (p : Bytes) (fr : Frame) (h0 : fr.offPayload ≠ 0) (hle : fr.offPayload ≤ p.length) :
    genParse_j1 cfg p fr 58 = parseProto fr 58 (p.drop fr.offPayload) := by
  simp only [genParse_j1, parseProto, parseICMP]
  simp (config := {decide := true}) only [if_false, if_true]
  simp only [genFramePayloadB, h0, ne_eq, not_false_eq_true, decide_true, if_true]
  simp only [sliceFrom_ok p _ hle, Outcome.bind_ok, Props.C01ValidTie.icmp_tie, Props.C01ValidTie.icmpEcho_tie]
  simp only [vICMP, vICMPEcho, lenAtLeast_eq, ne_be16, ne_byte, rel, j4_eq]
  by_cases h8 : 8 ≤ (p.drop fr.offPayload).length
  · simp only [if_pos h8, guard_ok]
    cases byteN (p.drop fr.offPayload) 0 <;> rfl
  · simp only [if_neg h8, guard_err]

theorem j1_other (cfg : Cfg) (p : Bytes) (fr : Frame) (proto : Nat) (pay : Bytes)
    (h17 : proto ≠ 17) (h6 : proto ≠ 6) (h1 : proto ≠ 1) (h58 : proto ≠ 58) :
    genParse_j1 cfg p fr proto = parseProto fr proto pay := by
  simp only [genParse_j1, parseProto, beq_iff_eq, h17, h6, h1, h58, if_false]
  by_cases h2 : proto = 2
  · simp only [h2, if_true]; rfl
  · simp only [h2, if_false]; rfl

/-- the statements after the EtherType switch = the model's transport switch on `ether[offsetPayload:]` -/
theorem j1_tie (cfg : Cfg) (p : Bytes) (fr : Frame) (proto : Nat) (h0 : fr.offPayload ≠ 0) (hle : fr.offPayload ≤ p.length) :
    genParse_j1 cfg p fr proto = parseProto fr proto (p.drop fr.offPayload) := by
  by_cases h17 : proto = 17
  · subst h17; exact j1_udp cfg p fr h0 hle
  by_cases h6 : proto = 6
  · subst h6; exact j1_tcp cfg p fr h0 hle
  by_cases h1 : proto = 1
  · subst h1; exact j1_icmp4 cfg p fr h0 hle
  by_cases h58 : proto = 58
  · subst h58; exact j1_icmp6 cfg p fr h0 hle
  exact j1_other cfg p fr proto _ h17 h6 h1 h58

theorem ne_ihl (p : Bytes) : NE.eval p (.shl (.and (.byte 0) (.const 15)) 2) = ip4IHL p := by
  simp only [NE.eval, ip4IHL, byteN]
  cases idx p 0 <;> rfl

theorem bnot_beq (a b : Bytes) : (!(a == b)) = (a != b) := rfl

theorem ne_const (p : Bytes) (n : Nat) : NE.eval p (.const n) = .ok n := rfl

theorem uni_bit (v : UInt8) : (!decide (v.toNat &&& 1 = 0)) = (v &&& 0x01 != 0) := by
  rw [group_bit, Nat.and_one_is_mod]
  by_cases h : v.toNat % 2 = 0
  · simp [h]
  · have : v.toNat % 2 = 1 := by omega
    simp [this]

theorem uni_tie (src : Bytes) :
    notB (rel (fun a b => decide (a = b)) (NE.eval src (.and (.byte 0) (.const 1))) (pure 0)) =
      (do let s0 ← idx src 0; pure (s0 &&& 0x01 != 0)) := by
  simp only [notB, rel, NE.eval]
  cases idx src 0 with
  | ok a => simp only [Outcome.bind_ok, Outcome.pure_eq]; rw [← uni_bit]
  | _ => rfl

/-- the bytes a returned slice value denotes (`nil` = []) -/
def spanBytes (p : Bytes) : Val → Bytes
  | .span o l => (p.drop o).take l
  | _ => []

end PV.Lemmas.ParseTie
