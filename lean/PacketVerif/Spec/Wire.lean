/-
  Reference wire decoder for *transmitted* frames (C03, C07), written from the RFCs:
  a frame is accepted only as a complete, length-consistent packet (Ethernet II, ARP per RFC 826,
  IPv4 per RFC 791 with verifying header checksum, IPv6 per RFC 8200, UDP per RFC 768, ICMP per
  RFC 792/4443 with verifying checksum incl. the IPv6 pseudo header).  Independent of
  `Model/Encode` (no buffers, no in-place writes) and of `Model/Parse`.
-/
import PacketVerif.Basic
import PacketVerif.Spec.Rfc1071
namespace PV.Spec.Wire
open PV PV.Spec

def u8 (p : Bytes) (k : Nat) : Nat := (p[k]?.getD 0).toNat
def u16 (p : Bytes) (k : Nat) : Nat := u8 p k * 256 + u8 p (k+1)
def sub (p : Bytes) (k n : Nat) : Bytes := (p.drop k).take n

structure Eth where
  dst : Bytes
  src : Bytes
  etype : Nat
  payload : Bytes
  deriving Repr, DecidableEq

def decEth (f : Bytes) : Option Eth :=
  if f.length < 14 then none else some ⟨sub f 0 6, sub f 6 6, u16 f 12, f.drop 14⟩

structure Arp where
  op : Nat
  sha : Bytes
  spa : Bytes
  tha : Bytes
  tpa : Bytes
  deriving Repr, DecidableEq

/-- RFC 826 Ethernet/IPv4 ARP: exactly 28 bytes (transmitted frames carry no trailer) -/
def decArp (p : Bytes) : Option Arp :=
  if p.length ≠ 28 ∨ u16 p 0 ≠ 1 ∨ u16 p 2 ≠ 0x0800 ∨ u8 p 4 ≠ 6 ∨ u8 p 5 ≠ 4 then none
  else some ⟨u16 p 6, sub p 8 6, sub p 14 4, sub p 18 6, sub p 24 4⟩

structure Ip4 where
  src : Bytes
  dst : Bytes
  proto : Nat
  ttl : Nat
  payload : Bytes
  deriving Repr, DecidableEq

/-- RFC 791: version 4, IHL ≥ 5, TotalLen = bytes present, header checksum verifies, not a fragment -/
def decIp4 (p : Bytes) : Option Ip4 :=
  let ihl := u8 p 0 % 16 * 4
  if p.length < 20 ∨ u8 p 0 / 16 ≠ 4 ∨ ihl < 20 ∨ p.length < ihl ∨ u16 p 2 ≠ p.length then none
  else if fold16 (sumBE (p.take ihl)) ≠ 65535 then none
  else if u16 p 6 % 16384 ≠ 0 then none   -- MF set or fragment offset ≠ 0
  else some ⟨sub p 12 4, sub p 16 4, u8 p 9, u8 p 8, p.drop ihl⟩

structure Udp where
  sport : Nat
  dport : Nat
  cksum : Nat
  payload : Bytes
  deriving Repr, DecidableEq

/-- RFC 768: length field = bytes present ≥ 8 -/
def decUdp (p : Bytes) : Option Udp :=
  if p.length < 8 ∨ u16 p 4 ≠ p.length then none else some ⟨u16 p 0, u16 p 2, u16 p 6, p.drop 8⟩

structure Ip6 where
  src : Bytes
  dst : Bytes
  next : Nat
  hop : Nat
  payload : Bytes
  deriving Repr, DecidableEq

/-- RFC 8200: version 6, payload length = bytes present after the 40-byte header -/
def decIp6 (p : Bytes) : Option Ip6 :=
  if p.length < 40 ∨ u8 p 0 / 16 ≠ 6 ∨ u16 p 4 + 40 ≠ p.length then none
  else some ⟨sub p 8 16, sub p 24 16, u8 p 6, u8 p 7, p.drop 40⟩

/-- ICMPv4 message whose checksum verifies -/
def icmp4Ok (p : Bytes) : Bool := decide (8 ≤ p.length) && decide (fold16 (sumBE p) = 65535)

/-- upper-layer pseudo header of RFC 8200 §8.1 -/
def pseudo6 (src dst : Bytes) (len next : Nat) : Bytes :=
  src ++ dst ++ [UInt8.ofNat (len / 16777216), UInt8.ofNat (len / 65536), UInt8.ofNat (len / 256), UInt8.ofNat len,
                 0, 0, 0, UInt8.ofNat next]

def icmp6Ok (src dst p : Bytes) : Bool :=
  decide (8 ≤ p.length) && decide (fold16 (sumBE (pseudo6 src dst p.length 58 ++ p)) = 65535)

/-- UDP over IPv6: checksum is mandatory (non-zero) and must verify with the pseudo header -/
def udp6CksumOk (src dst p : Bytes) : Bool :=
  decide (u16 p 6 ≠ 0) && decide (fold16 (sumBE (pseudo6 src dst p.length 17 ++ p)) = 65535)

/-- Ethernet group address for an IPv6 multicast destination: 33:33 ‖ last four address bytes -/
def mcastMAC6 (dst : Bytes) : Bytes := [0x33, 0x33] ++ sub dst 12 4

/-- clear a 16-bit field -/
def zero16 (p : Bytes) (k : Nat) : Bytes := (p.set k 0).set (k+1) 0

/-! ### well-formedness verdicts for each kind of transmitted frame (`none` = well-formed) -/

def wfARP (hostMAC dst : Bytes) (op : Nat) (sha spa tha tpa : Bytes) (f : Bytes) : Option String :=
  match decEth f with
  | none => some "not an Ethernet frame"
  | some e =>
    if e.etype ≠ 0x0806 then some "EtherType is not ARP"
    else if e.src ≠ hostMAC then some "Ethernet source is not the host NIC MAC"
    else if e.dst ≠ dst then some "Ethernet destination differs from the requested one"
    else match decArp e.payload with
      | none => some "ARP body is not a complete Ethernet/IPv4 ARP packet (length, htype, ptype, hlen, plen)"
      | some a =>
        if a ≠ ⟨op, sha, spa, tha, tpa⟩ then some "ARP fields differ from the requested ones" else none

def wfUDP4 (hostMAC dstMAC sip dip : Bytes) (sp dp : Nat) (payload f : Bytes) : Option String :=
  match decEth f with
  | none => some "not an Ethernet frame"
  | some e =>
    if e.etype ≠ 0x0800 then some "EtherType is not IPv4"
    else if e.src ≠ hostMAC then some "Ethernet source is not the host NIC MAC"
    else if e.dst ≠ dstMAC then some "Ethernet destination differs from the requested one"
    else match decIp4 e.payload with
      | none => some "IPv4 header not complete/consistent (version, IHL, TotalLen, checksum, fragment)"
      | some ip =>
        if ip.proto ≠ 17 then some "IPv4 protocol is not UDP"
        else if ip.src ≠ sip ∨ ip.dst ≠ dip then some "IPv4 addresses differ from the requested ones"
        else match decUdp ip.payload with
          | none => some "UDP header not complete/consistent (length)"
          | some u =>
            if u.sport ≠ sp ∨ u.dport ≠ dp then some "UDP ports differ from the requested ones"
            else if u.payload ≠ payload then some "UDP payload differs from the requested one"
            else none

def wfUDP6 (hostMAC dstMAC sip dip : Bytes) (sp dp : Nat) (payload f : Bytes) : Option String :=
  match decEth f with
  | none => some "not an Ethernet frame"
  | some e =>
    if e.etype ≠ 0x86dd then some "EtherType is not IPv6"
    else if e.src ≠ hostMAC then some "Ethernet source is not the host NIC MAC"
    else if e.dst ≠ dstMAC then some "Ethernet destination differs from the requested one"
    else match decIp6 e.payload with
      | none => some "IPv6 header not complete/consistent (version, payload length)"
      | some ip =>
        if ip.next ≠ 17 then some "IPv6 next header is not UDP"
        else if ip.src ≠ sip ∨ ip.dst ≠ dip then some "IPv6 addresses differ from the requested ones"
        else if u8 dip 0 == 0xff ∧ e.dst ≠ mcastMAC6 dip then some "IPv6 multicast destination without the matching 33:33 MAC"
        else match decUdp ip.payload with
          | none => some "UDP header not complete/consistent (length)"
          | some u =>
            if u.sport ≠ sp ∨ u.dport ≠ dp then some "UDP ports differ from the requested ones"
            else if u.payload ≠ payload then some "UDP payload differs from the requested one"
            else if !udp6CksumOk sip dip ip.payload then some "UDP checksum over IPv6 is zero or does not verify (mandatory, RFC 8200 8.1)"
            else none

/-- `msg` is the ICMP message the caller asked for, with a zero checksum field -/
def wfICMP4 (hostMAC dstMAC sip dip msg f : Bytes) : Option String :=
  match decEth f with
  | none => some "not an Ethernet frame"
  | some e =>
    if e.etype ≠ 0x0800 then some "EtherType is not IPv4"
    else if e.src ≠ hostMAC then some "Ethernet source is not the host NIC MAC"
    else if e.dst ≠ dstMAC then some "Ethernet destination differs from the requested one"
    else match decIp4 e.payload with
      | none => some "IPv4 header not complete/consistent (version, IHL, TotalLen, checksum, fragment)"
      | some ip =>
        if ip.proto ≠ 1 then some "IPv4 protocol is not ICMP"
        else if ip.src ≠ sip ∨ ip.dst ≠ dip then some "IPv4 addresses differ from the requested ones"
        else if !icmp4Ok ip.payload then some "ICMP message too short or checksum does not verify"
        else if zero16 ip.payload 2 ≠ zero16 msg 2 then some "ICMP message differs from the requested one"
        else none

def isNDP (t : Nat) : Bool := 133 ≤ t && t ≤ 137

/-- link-local scope: fe80::/10 unicast or ffx2::/16 multicast -/
def linkLocal6 (a : Bytes) : Bool :=
  (u8 a 0 == 0xfe && u8 a 1 / 64 == 2) || (u8 a 0 == 0xff && u8 a 1 % 16 == 2)

def wfICMP6 (hostMAC dstMAC sip dip msg f : Bytes) : Option String :=
  match decEth f with
  | none => some "not an Ethernet frame"
  | some e =>
    if e.etype ≠ 0x86dd then some "EtherType is not IPv6"
    else if e.src ≠ hostMAC then some "Ethernet source is not the host NIC MAC"
    else if e.dst ≠ dstMAC then some "Ethernet destination differs from the requested one"
    else match decIp6 e.payload with
      | none => some "IPv6 header not complete/consistent (version, payload length)"
      | some ip =>
        if ip.next ≠ 58 then some "IPv6 next header is not ICMPv6"
        else if ip.src ≠ sip ∨ ip.dst ≠ dip then some "IPv6 addresses differ from the requested ones"
        else if u8 dip 0 == 0xff ∧ e.dst ≠ mcastMAC6 dip then some "IPv6 multicast destination without the matching 33:33 MAC"
        else if !icmp6Ok sip dip ip.payload then some "ICMPv6 message too short or checksum (with pseudo header) does not verify"
        else if isNDP (u8 ip.payload 0) ∧ linkLocal6 dip ∧ ip.hop ≠ 255 then some "link-local neighbour-discovery message with hop limit other than 255"
        else if zero16 ip.payload 2 ≠ zero16 msg 2 then some "ICMPv6 message differs from the requested one"
        else none

/-- structural well-formedness of *any* frame the library transmits (no expected field values): complete
    Ethernet/ARP, Ethernet/IPv4/{UDP,ICMP}, Ethernet/IPv6/{UDP,ICMPv6} with consistent lengths and verifying
    checksums, host MAC as Ethernet source, hop limit 255 for link-local neighbour discovery -/
def wfAny (hostMAC f : Bytes) : Option String :=
  match decEth f with
  | none => some "not an Ethernet frame"
  | some e =>
    if e.src ≠ hostMAC then some "Ethernet source is not the host NIC MAC"
    else if e.etype == 0x0806 then
      (if (decArp e.payload).isSome then none else some "ARP body is not a complete Ethernet/IPv4 ARP packet")
    else if e.etype == 0x0800 then
      match decIp4 e.payload with
      | none => some "IPv4 header not complete/consistent (version, IHL, TotalLen, checksum, fragment)"
      | some ip =>
        if ip.proto == 17 then (if (decUdp ip.payload).isSome then none else some "UDP header not complete/consistent (length)")
        else if ip.proto == 1 then (if icmp4Ok ip.payload then none else some "ICMP message too short or checksum does not verify")
        else none
    else if e.etype == 0x86dd then
      match decIp6 e.payload with
      | none => some "IPv6 header not complete/consistent (version, payload length)"
      | some ip =>
        if u8 ip.dst 0 == 0xff ∧ e.dst ≠ mcastMAC6 ip.dst then some "IPv6 multicast destination without the matching 33:33 MAC"
        else if ip.next == 58 then
          (if !icmp6Ok ip.src ip.dst ip.payload then some "ICMPv6 message too short or checksum (with pseudo header) does not verify"
           else if isNDP (u8 ip.payload 0) ∧ linkLocal6 ip.dst ∧ ip.hop ≠ 255 then some "link-local neighbour-discovery message with hop limit other than 255"
           else none)
        else if ip.next == 17 then
          (if (decUdp ip.payload).isNone then some "UDP header not complete/consistent (length)"
           else if !udp6CksumOk ip.src ip.dst ip.payload then some "UDP checksum over IPv6 is zero or does not verify"
           else none)
        else none
    else none

end PV.Spec.Wire
