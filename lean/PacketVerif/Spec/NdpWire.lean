/-
  Independent reference decoder for router advertisements and NDP options, written from the RFCs
  (RFC 4861 §4.2, §4.6; RFC 4191 §2.2, §2.3; RFC 8106 §5.1, §5.2) – structurally unrelated to
  Model/Ndp.lean: options are first framed into (type, length, body) triples by structural recursion,
  every option body is then read by pattern matching on its fixed layout and by arithmetic on the
  byte values (no bit operations, no indices).

  Policy of the reference decoder (what "reads" means for a record that holds one value per kind):
    * framing: a length of zero or an option overrunning the message makes the message invalid;
    * source / target link-layer address and prefix information have a fixed size on Ethernet
      (1 resp. 4 units); another size makes the message invalid;
    * MTU, route information, RDNSS, DNSSL that do not follow their format are ignored;
      unknown types are ignored;
    * the last valid MTU / link-layer address / route information / DNSSL wins; prefixes accumulate
      in order; RDNSS addresses accumulate in order with the lifetime of the last valid RDNSS option.
-/
import PacketVerif.Basic
namespace PV.Spec.NdpWire
open PV

structure Tlv where
  type : UInt8
  len : Nat          -- units of 8 bytes, ≥ 1
  body : Bytes       -- the 8·len − 2 bytes after type and length
  deriving DecidableEq, Repr

/-- frame the option area; `none` = invalid message -/
def tlvs (b : Bytes) : Option (List Tlv) :=
  match b with
  | [] => some []
  | [_] => none
  | t :: l :: rest =>
    if l.toNat = 0 then none
    else if rest.length < l.toNat * 8 - 2 then none
    else (tlvs (rest.drop (l.toNat * 8 - 2))).map (fun r => ⟨t, l.toNat, rest.take (l.toNat * 8 - 2)⟩ :: r)
termination_by b.length
decreasing_by simp; omega

def nat32 (a b c d : UInt8) : Nat := a.toNat * 16777216 + b.toNat * 65536 + c.toNat * 256 + d.toNat
def nat16 (a b : UInt8) : Nat := a.toNat * 256 + b.toNat

structure SPrefix where
  plen : Nat
  onLink : Bool
  auto : Bool
  valid : Nat
  preferred : Nat
  pfx : Bytes
  deriving DecidableEq, Repr

structure SRoute where
  plen : Nat
  pref : Nat
  lifetime : Nat
  pfx : Bytes
  deriving DecidableEq, Repr

/-- keep the first `n` bits of the byte at position `i` of a prefix (RFC 4861: bits after the prefix
    length are ignored by the receiver) -/
def keepBits (n i : Nat) (x : UInt8) : UInt8 :=
  let k := n - 8 * i              -- bits of this byte inside the prefix
  if k ≥ 8 then x else UInt8.ofNat (x.toNat / 2 ^ (8 - k) * 2 ^ (8 - k))

def maskTo (a : Bytes) (n : Nat) : Bytes :=
  if n > 128 then [] else a.mapIdx (fun i x => keepBits n i x)

inductive Decoded where
  | lla (target : Bool) (mac : Bytes)
  | mtu (v : Nat)
  | pfx (p : SPrefix)
  | route (r : SRoute)
  | rdnss (lifetime : Nat) (servers : List Bytes)
  | dnssl (lifetime : Nat) (names : List Bytes)
  | ignored
  | invalid            -- makes the whole message invalid
  deriving DecidableEq, Repr

/-- 16-byte groups of an RDNSS address area; a trailing partial group is not an address -/
def groups16 : Bytes → List Bytes
  | a0 :: a1 :: a2 :: a3 :: a4 :: a5 :: a6 :: a7 :: a8 :: a9 :: a10 :: a11 :: a12 :: a13 :: a14 :: a15 :: rest =>
    [a0, a1, a2, a3, a4, a5, a6, a7, a8, a9, a10, a11, a12, a13, a14, a15] :: groups16 rest
  | _ => []

/-- one domain name of a DNSSL option: labels up to the zero terminator; result = labels, rest -/
def dnsName : Nat → Bytes → Option (List Bytes × Bytes)
  | 0, _ => none
  | _ + 1, [] => none
  | fuel + 1, n :: rest =>
    if n = 0 then some ([], rest)
    else if rest.length < n.toNat then none
    else
      let label := rest.take n.toNat
      if label.any (fun c => c ≥ 0x80 ∨ c = 0x2e ∨ c = 0x20) then none
      else (dnsName fuel (rest.drop n.toNat)).map (fun (ls, r) => (label :: ls, r))

def joinDots : List Bytes → Bytes
  | [] => []
  | [l] => l
  | l :: rest => l ++ [0x2e] ++ joinDots rest

/-- the names of a DNSSL option: one or more names, then zero padding -/
def dnsNames : Nat → Bytes → Option (List Bytes)
  | 0, _ => none
  | fuel + 1, b =>
    if b.all (· = 0) then some []
    else match dnsName (b.length + 1) b with
      | none => none
      | some ([], _) => none          -- an empty name inside the list
      | some (ls, rest) => (dnsNames fuel rest).map (fun r => joinDots ls :: r)

def decodeOne (o : Tlv) : Decoded :=
  if o.type = 1 ∨ o.type = 2 then
    match o.body with
    | [m0, m1, m2, m3, m4, m5] => .lla (o.type = 2) [m0, m1, m2, m3, m4, m5]
    | _ => .invalid
  else if o.type = 5 then
    match o.body with
    | [_, _, a, b, c, d] => .mtu (nat32 a b c d)
    | _ => .ignored
  else if o.type = 3 then
    match o.body with
    | [pl, fl, v0, v1, v2, v3, p0, p1, p2, p3, _, _, _, _,
       a0, a1, a2, a3, a4, a5, a6, a7, a8, a9, a10, a11, a12, a13, a14, a15] =>
      .pfx { plen := pl.toNat, onLink := fl.toNat ≥ 128, auto := fl.toNat / 64 % 2 = 1,
             valid := nat32 v0 v1 v2 v3, preferred := nat32 p0 p1 p2 p3,
             pfx := maskTo [a0, a1, a2, a3, a4, a5, a6, a7, a8, a9, a10, a11, a12, a13, a14, a15] pl.toNat }
    | _ => .invalid
  else if o.type = 24 then
    match o.body with
    | pl :: fl :: l0 :: l1 :: l2 :: l3 :: pbytes =>
      let pref := fl.toNat / 8 % 4
      -- RFC 4191: length 1, 2 or 3 depending on the prefix length; reserved preference ⇒ ignore
      let lenOk := (pl.toNat = 0 ∧ o.len ≤ 3) ∨ (1 ≤ pl.toNat ∧ pl.toNat ≤ 64 ∧ (o.len = 2 ∨ o.len = 3)) ∨
                   (65 ≤ pl.toNat ∧ pl.toNat ≤ 128 ∧ o.len = 3)
      if lenOk ∧ pref ≠ 2 then
        .route { plen := pl.toNat, pref := pref, lifetime := nat32 l0 l1 l2 l3, pfx := pbytes.take (pl.toNat / 8) }
      else .ignored
    | _ => .ignored
  else if o.type = 25 then
    match o.body with
    | _ :: _ :: l0 :: l1 :: l2 :: l3 :: addrs =>
      match groups16 addrs with
      | [] => .ignored
      | g => .rdnss (nat32 l0 l1 l2 l3) g
    | _ => .ignored
  else if o.type = 31 then
    match o.body with
    | _ :: _ :: l0 :: l1 :: l2 :: l3 :: names =>
      match dnsNames (names.length + 1) names with
      | some (n :: ns) => .dnssl (nat32 l0 l1 l2 l3) (n :: ns)
      | _ => .ignored
    | _ => .ignored
  else .ignored

/-- the record a reader keeps -/
structure Summary where
  mtu : Nat := 0
  prefixes : List SPrefix := []
  rdnssLifetime : Nat := 0
  rdnssServers : List Bytes := []
  slla : Option Bytes := none
  tlla : Option Bytes := none
  dnsslLifetime : Nat := 0
  dnsslNames : List Bytes := []
  route : Option SRoute := none
  deriving DecidableEq, Repr

def Summary.add (s : Summary) : Decoded → Option Summary
  | .lla false m => some { s with slla := some m }
  | .lla true m => some { s with tlla := some m }
  | .mtu v => some { s with mtu := v }
  | .pfx p => some { s with prefixes := s.prefixes ++ [p] }
  | .route r => some { s with route := some r }
  | .rdnss lt srv => some { s with rdnssLifetime := lt, rdnssServers := s.rdnssServers ++ srv }
  | .dnssl lt n => some { s with dnsslLifetime := lt, dnsslNames := n }
  | .ignored => some s
  | .invalid => none

def summarise : Summary → List Tlv → Option Summary
  | s, [] => some s
  | s, o :: rest => match s.add (decodeOne o) with
    | none => none
    | some s' => summarise s' rest

/-- reference reading of an option area -/
def decodeOptions (b : Bytes) : Option Summary :=
  match tlvs b with
  | none => none
  | some l => summarise {} l

/-- fixed part of a router advertisement (RFC 4861 §4.2, RFC 4191 §2.2) -/
structure RaFixed where
  curHopLimit : Nat
  managed : Bool
  other : Bool
  preference : Nat
  lifetime : Nat
  reachable : Nat
  retrans : Nat
  deriving DecidableEq, Repr

def decodeRaFixed : Bytes → Option (RaFixed × Bytes)
  | _ :: _ :: _ :: _ :: hop :: fl :: l1 :: l0 :: r3 :: r2 :: r1 :: r0 :: t3 :: t2 :: t1 :: t0 :: opts =>
    some ({ curHopLimit := hop.toNat, managed := fl.toNat ≥ 128, other := fl.toNat / 64 % 2 = 1,
            preference := fl.toNat / 8 % 4, lifetime := nat16 l1 l0,
            reachable := nat32 r3 r2 r1 r0, retrans := nat32 t3 t2 t1 t0 }, opts)
  | _ => none

end PV.Spec.NdpWire
