/-
  Reference reading of the forged neighbour advertisement of C14's statement – "a learned router's
  address bound to our MAC, override flag set, hop limit 255" – on a transmitted frame, with the
  independent decoders of `Spec/Wire.lean` (`decEth`, `decIp6`, `icmp6Ok`) and the RFC 4861 §4.4 layout of
  a neighbour advertisement:

      0 type 136   1 code 0   2 checksum   4 flags R|S|O (0x80, 0x40, 0x20)   8 target address (16)
     24 option: type 2 (target link-layer address), length 1 (8 bytes), 26 the MAC (6)        = 32 bytes

  `none` = the frame is that advertisement.
-/
import PacketVerif.Spec.Wire
namespace PV.Spec.NaWire
open PV PV.Spec.Wire

/-- `hostMAC`: our NIC; `dstMAC` / `dstIP`: the attacked host; `routerIP`: the router address that is
    being bound to our MAC -/
def wfForgedNA (hostMAC dstMAC routerIP dstIP f : Bytes) : Option String :=
  match decEth f with
  | none => some "not an Ethernet frame"
  | some e =>
    if e.etype ≠ 0x86dd then some "EtherType is not IPv6"
    else if e.src ≠ hostMAC then some "Ethernet source is not our MAC"
    else if e.dst ≠ dstMAC then some "Ethernet destination is not the attacked host's MAC"
    else match decIp6 e.payload with
      | none => some "IPv6 header not complete / consistent"
      | some ip =>
        if ip.next ≠ 58 then some "next header is not ICMPv6"
        else if ip.hop ≠ 255 then some "hop limit is not 255 (receivers discard the advertisement)"
        else if ip.src ≠ routerIP then some "IPv6 source is not the router address being forged"
        else if ip.dst ≠ dstIP then some "IPv6 destination is not the attacked host's address / all-nodes"
        else if !icmp6Ok ip.src ip.dst ip.payload then some "ICMPv6 checksum does not verify"
        else if ip.payload.length ≠ 32 then some "not a neighbour advertisement with one link-layer option"
        else if u8 ip.payload 0 ≠ 136 ∨ u8 ip.payload 1 ≠ 0 then some "not ICMPv6 type 136 code 0"
        else if u8 ip.payload 4 ≠ 0x20 then some "flags are not: override set, router and solicited clear"
        else if u8 ip.payload 5 ≠ 0 ∨ u8 ip.payload 6 ≠ 0 ∨ u8 ip.payload 7 ≠ 0 then some "reserved bits set"
        else if sub ip.payload 8 16 ≠ routerIP then some "target address is not the router's"
        else if u8 ip.payload 24 ≠ 2 ∨ u8 ip.payload 25 ≠ 1 then some "no target link-layer address option"
        else if sub ip.payload 26 6 ≠ hostMAC then some "target link-layer address is not our MAC"
        else none

end PV.Spec.NaWire
