/-
  C05 — the consistency invariant of the host table and the MAC table, written from the
  property statement, with an executable checker (`violated`) that the correspondence driver
  evaluates on every dumped implementation state.
-/
import PacketVerif.Model.Tables
namespace PV.Spec
open PV PV.Model.Tables

/-- The C05 invariant.
    * `keysNodup`  – `HostTable.Table` is a map (representation fact of the model);
    * `keyIp`      – every tracked host is indexed under its own IP;
    * `hidNodup`   – distinct keys hold distinct `*Host` objects;
    * `macNodup`   – MAC entries are unique per address;  `midNodup` – and are distinct objects;
    * `hostEntry`  – every host's `MACEntry` pointer is an entry of the MAC table whose address
                     equals the host's MAC and whose `HostList` contains this very host;
    * `listed`     – every host listed under a MAC entry is present in the host index under the
                     same identity and points back to that entry (so it belongs to exactly one entry);
    * `listNodup`  – and is listed there once;
    * `fresh`      – allocation ids already used are below the allocation counter;
    * `onlineOK`   – an online host implies its MAC entry is marked online. -/
structure Inv (s : Sess) : Prop where
  keysNodup : (s.hosts.map (·.1)).Nodup
  keyIp : ∀ p ∈ s.hosts, p.2.ip = p.1
  hidNodup : (s.hosts.map (·.2.id)).Nodup
  macNodup : (s.macs.map (·.mac)).Nodup
  midNodup : (s.macs.map (·.id)).Nodup
  hostEntry : ∀ p ∈ s.hosts, ∃ m ∈ s.macs, m.id = p.2.entry ∧ m.mac = p.2.mac ∧ p.2.id ∈ m.hostList
  listed : ∀ m ∈ s.macs, ∀ i ∈ m.hostList, ∃ p ∈ s.hosts, p.2.id = i ∧ p.2.entry = m.id
  listNodup : ∀ m ∈ s.macs, m.hostList.Nodup
  freshH : ∀ p ∈ s.hosts, p.2.id < s.nextId
  freshM : ∀ m ∈ s.macs, m.id < s.nextId
  onlineOK : ∀ p ∈ s.hosts, p.2.online = true → ∀ m ∈ s.macs, m.id = p.2.entry → m.online = true

/-- the clauses of `Inv`, decided, with their names -/
def checks (s : Sess) : List (Bool × String) :=
  [ (decide ((s.hosts.map (·.1)).Nodup), "keysNodup"),
    (decide (∀ p ∈ s.hosts, p.2.ip = p.1), "keyIp"),
    (decide ((s.hosts.map (·.2.id)).Nodup), "hidNodup"),
    (decide ((s.macs.map (·.mac)).Nodup), "macNodup"),
    (decide ((s.macs.map (·.id)).Nodup), "midNodup"),
    (decide (∀ p ∈ s.hosts, ∃ m ∈ s.macs, m.id = p.2.entry ∧ m.mac = p.2.mac ∧ p.2.id ∈ m.hostList), "hostEntry"),
    (decide (∀ m ∈ s.macs, ∀ i ∈ m.hostList, ∃ p ∈ s.hosts, p.2.id = i ∧ p.2.entry = m.id), "listed"),
    (decide (∀ m ∈ s.macs, m.hostList.Nodup), "listNodup"),
    (decide (∀ p ∈ s.hosts, p.2.id < s.nextId), "freshH"),
    (decide (∀ m ∈ s.macs, m.id < s.nextId), "freshM"),
    (decide (∀ p ∈ s.hosts, p.2.online = true → ∀ m ∈ s.macs, m.id = p.2.entry → m.online = true), "onlineOK") ]

/-- name of the first violated clause, `none` when the invariant holds -/
def violated (s : Sess) : Option String :=
  ((checks s).find? (fun c => !c.1)).map (·.2)

/-- `Session.PrintTable` (the count check in `printHostTable`) -/
def printTable (s : Sess) : Outcome Unit :=
  if printTablePanics s then .panic else .ok ()

end PV.Spec
