/-
  Reference for the NetBIOS node status response body (RFC 1002 §4.2.18): NUM_NAMES followed by
  18-byte NODE_NAME entries.  Written by structural recursion on the remaining bytes (the model
  indexes into the whole array with an 18-byte stride).
-/
import PacketVerif.Basic
namespace PV.Spec
open PV

/-- strip trailing padding: NULs, then spaces (RFC 1002 names are space padded; some stacks pad with NUL) -/
def stripPad (nm : Bytes) : Bytes :=
  ((nm.reverse.dropWhile (· == 0)).dropWhile (· == 32)).reverse

/-- RFC 1002 §4.2.18 NODE_NAME array: `n` entries of 18 bytes (16-byte name, 16-bit NAME_FLAGS with
    G = 0x8000); the unique (non-group) names in order, padding stripped.  `none`: array too short. -/
def nodeNameArray : (n : Nat) → Bytes → Option (List Bytes)
  | 0, _ => some []
  | n + 1, b =>
    if b.length < 18 then none
    else
      match b[16]?, nodeNameArray n (b.drop 18) with
      | some fl, some rest => some (if fl.toNat < 128 then stripPad (b.take 16) :: rest else rest)
      | _, _ => none
end PV.Spec
