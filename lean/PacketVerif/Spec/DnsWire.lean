/-
  Reference definition of the DNS wire format, written from RFC 1035 §3.1, §4.1.2–4.1.4
  (independent of the model: declarative derivations instead of a buffer-appending scanner).

  * A domain name is a sequence of labels; on the wire each label is a length octet 1..63
    followed by that many octets; the name ends with the zero octet (root).
  * §4.1.4 compression: a name may end with a pointer (two octets, top bits `11`, 14-bit offset
    from the start of the message) to a *prior occurrence* of a name.  "Prior" is made
    structural here: the target must lie strictly before the start of the name that contains the
    pointer, so derivations are finite and loop-free by construction.
  * §3.1: the total length of a name (length octets + label octets + the root octet) is ≤ 255.
-/
import PacketVerif.Basic
namespace PV.Spec
open PV

/-- `NameAt m start pos ls e d`: reading the message `m` at `pos`, inside a name that started at
    `start`, yields the labels `ls`; the name's own wire encoding ends at `e` (first octet after
    the zero octet or after the pointer); `d` pointers were followed. -/
inductive NameAt (m : Bytes) : (start pos : Nat) → List Bytes → (e d : Nat) → Prop
  /-- the zero octet: root label, end of name -/
  | root {start pos : Nat} : m[pos]? = some 0 → NameAt m start pos [] (pos + 1) 0
  /-- an ordinary label: length octet `n` with top bits `00`, 1 ≤ n ≤ 63, all `n` octets inside the message -/
  | label {start pos : Nat} {n : UInt8} {rest : List Bytes} {e d : Nat} :
      m[pos]? = some n → 1 ≤ n.toNat → n.toNat ≤ 63 → pos + 1 + n.toNat ≤ m.length →
      NameAt m start (pos + 1 + n.toNat) rest e d →
      NameAt m start pos (((m.drop (pos + 1)).take n.toNat) :: rest) e d
  /-- a compression pointer to a prior occurrence -/
  | ptr {start pos : Nat} {hi lo : UInt8} {rest : List Bytes} {e d : Nat} :
      m[pos]? = some hi → 192 ≤ hi.toNat → m[pos + 1]? = some lo →
      (hi.toNat - 192) * 256 + lo.toNat < start →
      NameAt m ((hi.toNat - 192) * 256 + lo.toNat) ((hi.toNat - 192) * 256 + lo.toNat) rest e d →
      NameAt m start pos rest (pos + 2) (d + 1)

/-- length of the uncompressed wire form: one length octet per label, the label octets, the root octet -/
def wireLen (ls : List Bytes) : Nat := (ls.map (fun l => l.length + 1)).sum + 1

/-- RFC 1035 §3.1 wire form of an uncompressed name: every label as a length octet followed by
    its octets, then the root octet -/
def wireLabels : List Bytes → Bytes
  | [] => []
  | l :: rest => UInt8.ofNat l.length :: l ++ wireLabels rest

def wireOf (ls : List Bytes) : Bytes := wireLabels ls ++ [0]

/-- presentation form without the trailing dot: labels joined by `.` (octets are not escaped) -/
def text : List Bytes → Bytes
  | [] => []
  | [l] => l
  | l :: rest => l ++ 46 :: text rest

/-- A well-formed (possibly compressed) name at `off`: a finite derivation and RFC 1035 §3.1 size. -/
def WfName (m : Bytes) (off : Nat) (ls : List Bytes) (e d : Nat) : Prop :=
  NameAt m off off ls e d ∧ wireLen ls ≤ 255

/-! ### executable counterpart (used by the driver as the impl-vs-spec oracle)

`nameAt?` decides `NameAt` by recursion on the pair (start, remaining bytes): following a
pointer strictly decreases `start`, reading a label strictly decreases the remaining bytes. -/

def nameAt? (m : Bytes) (start pos : Nat) : Option (List Bytes × Nat × Nat) :=
  match h : m[pos]? with
  | none => none
  | some n =>
    if n.toNat = 0 then some ([], pos + 1, 0)
    else if n.toNat ≤ 63 then
      if pos + 1 + n.toNat ≤ m.length then
        match nameAt? m start (pos + 1 + n.toNat) with
        | some (rest, e, d) => some (((m.drop (pos + 1)).take n.toNat) :: rest, e, d)
        | none => none
      else none
    else if hge : 192 ≤ n.toNat then
      match m[pos + 1]? with
      | none => none
      | some lo =>
        if hlt : (n.toNat - 192) * 256 + lo.toNat < start then
          match nameAt? m ((n.toNat - 192) * 256 + lo.toNat) ((n.toNat - 192) * 256 + lo.toNat) with
          | some (rest, _, d) => some (rest, pos + 2, d + 1)
          | none => none
        else none
    else none
termination_by (start, m.length - pos)
decreasing_by
  · have := (List.getElem?_eq_some_iff.mp h).1
    exact Prod.Lex.right _ (by omega)
  · exact Prod.Lex.left _ _ hlt

/-- executable spec of "the name at `off`": text, end of the encoding, pointers followed;
    `none` = not a well-formed name. -/
def decodeName? (m : Bytes) (off : Nat) : Option (Bytes × Nat × Nat) :=
  match nameAt? m off off with
  | some (ls, e, d) => if wireLen ls ≤ 255 then some (text ls, e, d) else none
  | none => none

/-! ### questions and resource records (RFC 1035 §4.1.2, §4.1.3) -/

structure Question where
  name : Bytes
  qtype : Nat
  qclass : Nat
  deriving DecidableEq, Repr

/-- fixed part of a resource record after the owner name, and its RDATA -/
structure RR where
  name : Bytes
  rtype : Nat
  rclass : Nat
  ttl : Nat
  rdata : Bytes
  /-- offset of RDATA in the message (names inside RDATA may be compressed relative to the message) -/
  rdataOff : Nat
  deriving DecidableEq, Repr

def u16At (m : Bytes) (i : Nat) : Option Nat :=
  match m[i]?, m[i+1]? with
  | some a, some b => some (be16 a b)
  | _, _ => none

def u32At (m : Bytes) (i : Nat) : Option Nat :=
  match m[i]?, m[i+1]?, m[i+2]?, m[i+3]? with
  | some a, some b, some c, some d => some (be32 a b c d)
  | _, _, _, _ => none

/-- question at `off`: name, QTYPE, QCLASS; returns the offset after it -/
def questionAt? (m : Bytes) (off : Nat) : Option (Question × Nat) := do
  let (nm, e, _) ← decodeName? m off
  let t ← u16At m e
  let c ← u16At m (e + 2)
  pure ({ name := nm, qtype := t, qclass := c }, e + 4)

/-- `count` consecutive questions starting at `off`; the questions and the offset after them -/
def questionsAt? (m : Bytes) : (count : Nat) → (off : Nat) → Option (List Question × Nat)
  | 0, off => some ([], off)
  | n + 1, off => do
    let (q, o) ← questionAt? m off
    let (qs, o') ← questionsAt? m n o
    pure (q :: qs, o')

/-- resource record at `off`; RDATA must lie inside the message -/
def rrAt? (m : Bytes) (off : Nat) : Option (RR × Nat) := do
  let (nm, e, _) ← decodeName? m off
  let t ← u16At m e
  let c ← u16At m (e + 2)
  let ttl ← u32At m (e + 4)
  let rdl ← u16At m (e + 8)
  if e + 10 + rdl ≤ m.length then
    pure ({ name := nm, rtype := t, rclass := c, ttl := ttl,
            rdata := (m.drop (e + 10)).take rdl, rdataOff := e + 10 }, e + 10 + rdl)
  else none

/-- `count` consecutive records starting at `off` -/
def rrsAt? (m : Bytes) : (count : Nat) → (off : Nat) → Option (List RR × Nat)
  | 0, off => some ([], off)
  | n + 1, off => do
    let (r, o) ← rrAt? m off
    let (rs, o') ← rrsAt? m n o
    pure (r :: rs, o')

end PV.Spec
