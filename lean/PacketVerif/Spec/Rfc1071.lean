/-
  RFC 1071 Internet checksum, written from the RFC text over natural numbers:
  (1) adjacent octets are paired to form 16-bit big-endian integers (an odd trailing octet is
  padded on the right with zero), (2) the 1's complement sum is formed by adding with
  end-around carry, (3) the checksum is the 1's complement of that sum.
  Independent of `Model.checksum` (different word order, unbounded arithmetic, iterated fold).
-/
import PacketVerif.Basic
namespace PV.Spec

/-- sum of the big-endian 16-bit words of a byte string -/
def sumBE : Bytes → Nat
  | a :: b :: rest => (a.toNat * 256 + b.toNat) + sumBE rest
  | [a] => a.toNat * 256
  | [] => 0

/-- end-around carry: fold the carries back in until the value fits 16 bits -/
def fold16 (n : Nat) : Nat :=
  if h : n < 65536 then n else fold16 (n / 65536 + n % 65536)
decreasing_by omega

/-- the 16-bit checksum value as a big-endian number (first stored byte = high byte) -/
def rfc1071 (b : Bytes) : Nat := 65535 - fold16 (sumBE b)

/-- a received block verifies when its 1's complement sum (checksum included) is all ones -/
def verifies (b : Bytes) : Prop := fold16 (sumBE b) = 65535

/-- byte swap of a 16-bit value -/
def swap16 (v : Nat) : Nat := (v % 256) * 256 + v / 256

end PV.Spec
