/-
  Reference reading of a DHCPv4 message (the UDP payload), written from RFC 2131 §2 (figure 1: the fixed BOOTP
  format), RFC 2132 §2 (option encoding: pad = 0, end = 255, every other option = code, length, value), §9.6
  (message type, option 53) and RFC 1497 (magic cookie 99.130.83.99), as a specification over ABSOLUTE offsets of the
  payload (cursor vocabulary of `Spec.decode`: `at_`, `field`); no slices, no `Outcome`, no option MAP: the option
  area is read as the SEQUENCE of (code, value) on the wire and the value of an option is its last occurrence.
  Independent of `Model.dhcpValid`, `Model.Dhcp4Opt.parseOptions` (re-slicing loops with fuel, a map with
  delete-and-insert), `Model.Dhcp4Opt.encodeDHCP4` and `Model.Dhcp4Frame.msgOf`.

       0 op   1 htype   2 hlen   3 hops      4 xid (4)        8 secs (2)   10 flags (2: bit 15 = broadcast)
      12 ciaddr (4)    16 yiaddr (4)    20 siaddr (4)    24 giaddr (4)    28 chaddr (16: hlen bytes + padding)
      44 sname (64)   108 file (128)   236 magic cookie (4)   240 options …

  What the reference fixes as the library's documented reading (and where that is laxer than the RFCs — the three
  relaxations are named in `Strict`, the theorems state them as the exact difference):
  * an option whose length byte runs past the end of the payload makes the whole message unreadable (`none`);
  * fewer than two bytes left in the option area end the walk (a lone last byte is ignored, as is everything after
    the end option);
  * an option that occurs several times has the value of its LAST occurrence (RFC 3396 concatenation is not done);
  * option overload (option 52: options continued in sname / file) is not followed.
-/
import PacketVerif.Spec.Decode
namespace PV.Spec.Dhcp4Wire
open PV PV.Spec

/-- the byte at an absolute offset -/
def byteAt (p : Bytes) (k : Nat) : UInt8 := p[k]?.getD 0

/-- big-endian 32-bit field at an absolute offset -/
def u32 (p : Bytes) (k : Nat) : Nat :=
  ((at_ p k * 256 + at_ p (k + 1)) * 256 + at_ p (k + 2)) * 256 + at_ p (k + 3)

def magic : Bytes := [99, 130, 83, 99]

/-- the option area from absolute offset `k` on, as the sequence of (code, value) in wire order; pads skipped, the walk
    ends at the end option or when fewer than two bytes are left; `none`: an option runs past the end of the payload.
    `fuel`: one unit per option or pad (the number of bytes left is always enough) -/
def tlvsAt (p : Bytes) : Nat → Nat → Option (List (UInt8 × Bytes))
  | 0, _ => some []
  | fuel + 1, k =>
    if p.length < k + 2 then some []
    else if at_ p k = 255 then some []
    else if at_ p k = 0 then tlvsAt p fuel (k + 1)
    else if p.length < k + 2 + at_ p (k + 1) then none
    else (tlvsAt p fuel (k + 2 + at_ p (k + 1))).map (fun l => (byteAt p k, field p (k + 2) (at_ p (k + 1))) :: l)

/-- the options of a message (fuel: the number of bytes of the option area) -/
def options (p : Bytes) : Option (List (UInt8 × Bytes)) := tlvsAt p (p.length - 240) 240

/-- the value of an option: its last occurrence on the wire -/
def lastOf (l : List (UInt8 × Bytes)) (c : UInt8) : Option Bytes := (l.reverse.find? (fun e => e.1 == c)).map (·.2)

/-- the fixed part (RFC 2131 figure 1) -/
structure Fixed where
  op : Nat
  htype : Nat
  hlen : Nat
  hops : Nat
  xid : Bytes
  secs : Nat
  flags : Nat
  ciaddr : Nat
  yiaddr : Nat
  siaddr : Nat
  giaddr : Nat
  chaddr : Bytes        -- the first six bytes of the hardware address field (Ethernet)
  chpad : Bytes         -- its remaining ten bytes
  sname : Bytes
  file : Bytes
  cookie : Bytes
  deriving DecidableEq, Repr

def fixed (p : Bytes) : Fixed :=
  { op := at_ p 0, htype := at_ p 1, hlen := at_ p 2, hops := at_ p 3, xid := field p 4 4, secs := u16 p 8, flags := u16 p 10,
    ciaddr := u32 p 12, yiaddr := u32 p 16, siaddr := u32 p 20, giaddr := u32 p 24, chaddr := field p 28 6,
    chpad := field p 34 10, sname := field p 44 64, file := field p 108 128, cookie := field p 236 4 }

/-- a readable message: the fixed part and the options in wire order -/
structure Wire where
  fx : Fixed
  opts : List (UInt8 × Bytes)
  deriving DecidableEq, Repr

def Wire.opt (w : Wire) (c : UInt8) : Option Bytes := lastOf w.opts c

/-- **the reference reading of a payload**: at least the 240 bytes of fixed part and cookie, every option inside the
    payload -/
def read (p : Bytes) : Option Wire :=
  if p.length < 240 then none
  else match options p with
    | none => none
    | some l => some { fx := fixed p, opts := l }

/-- what RFC 2131 asks of a client message beyond what the library checks: op = BOOTREQUEST, Ethernet hardware type,
    the magic cookie -/
def Strict (p : Bytes) : Prop := at_ p 0 = 1 ∧ at_ p 1 = 1 ∧ field p 236 4 = magic

instance (p : Bytes) : Decidable (Strict p) := by unfold Strict; infer_instance

/-- a client message the server has a handler for (RFC 2132 §9.6: 1 DISCOVER, 3 REQUEST, 4 DECLINE, 7 RELEASE) -/
structure ClientMsg where
  mtype : UInt8
  xid : Bytes
  chaddr : Bytes
  ciaddr : Nat
  yiaddr : Nat
  broadcast : Bool
  clientId : Option Bytes      -- option 61
  requested : Option Bytes     -- option 50
  serverId : Option Bytes      -- option 54
  params : Option Bytes        -- option 55 (parameter request list)
  deriving DecidableEq, Repr

/-- **the reference reading of a request** (lax in exactly the three points of `Strict`): a readable message with
    op 1 or 2, a six-byte hardware address, whose option 53 has exactly one byte t ∈ {1, 3, 4, 7} -/
def readClient (p : Bytes) : Option ClientMsg :=
  match read p with
  | none => none
  | some w =>
    if (w.fx.op = 1 ∨ w.fx.op = 2) ∧ w.fx.hlen = 6 then
      match w.opt 53 with
      | some [t] =>
        if t = 1 ∨ t = 3 ∨ t = 4 ∨ t = 7 then
          some { mtype := t, xid := w.fx.xid, chaddr := w.fx.chaddr, ciaddr := w.fx.ciaddr, yiaddr := w.fx.yiaddr,
                 broadcast := w.fx.flags / 32768 == 1, clientId := w.opt 61, requested := w.opt 50, serverId := w.opt 54,
                 params := w.opt 55 }
        else none
      | _ => none
    else none

/-- the RFC-strict reading: the same, for payloads that also have op = BOOTREQUEST, htype = 1 and the cookie -/
def readClientStrict (p : Bytes) : Option ClientMsg := if Strict p then readClient p else none

end PV.Spec.Dhcp4Wire
