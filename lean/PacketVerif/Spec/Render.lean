/-
  Reference renderings of the values a log line carries, written from the property statement
  (C20) and the textual conventions of the Go standard library they name:
   * decimal numerals (`strconv`): positional, most significant digit first, no leading zeros,
     `-` for negatives;
   * fixed-width lower-case hexadecimal;
   * MAC: six two-digit hex octets joined by `:` (`net.HardwareAddr.String`);
   * IPv4 dotted decimal; IPv6 per RFC 5952 (`Spec/Rfc5952.lean`); IPv4-mapped IPv6 in the mixed
     form `::ffff:a.b.c.d` for `netip.Addr`, as plain dotted IPv4 for `net.IP`;
   * booleans `true`/`false`; `time.Duration` text (`1h2m3.5s`, `1.5ms`, `0s`);
   * a field is ` name=value`, strings are quoted, a line is its prefix followed by its fields.
  No buffer and no cursor here: these functions produce the text a field *should* have.  They are
  themselves compared with the standard library on every run (`spec` protocol op).
-/
import PacketVerif.Basic
import PacketVerif.Model.FastlogField
import PacketVerif.Spec.Rfc5952
namespace PV.Spec.Render
open PV PV.Fastlog PV.Spec.Rfc5952

/-! ### numerals -/

def digit (n : Nat) : UInt8 := UInt8.ofNat (48 + n)

/-- number of decimal digits of `n` (at least one) -/
def width (n : Nat) : Nat := if n < 10 then 1 else width (n / 10) + 1
termination_by n
decreasing_by omega

/-- decimal numeral of `n`: digit `i` (from the left, `w` digits) is `n / 10^(w-1-i) % 10` -/
def decimal (n : Nat) : Bytes :=
  (List.range (width n)).map (fun i => digit (n / 10 ^ (width n - 1 - i) % 10))

def decimalInt (z : Int) : Bytes :=
  if z < 0 then 0x2d :: decimal z.natAbs else decimal z.natAbs

def hex8 (v : Nat) : Bytes := hexFixed 2 v
def hex16 (v : Nat) : Bytes := hexFixed 4 v

/-- one or two hex digits (no leading zero) -/
def hexShort (v : Nat) : Bytes := if v < 16 then [hexChar v] else hexFixed 2 v

/-! ### addresses -/

def mac (m : Bytes) : Bytes := ([0x3a] : Bytes).intercalate (m.map (fun b => hex8 b.toNat))

def ipv4 (a : Bytes) : Bytes := ([0x2e] : Bytes).intercalate (a.map (fun b => decimal b.toNat))

def sNil : Bytes := [0x6e, 0x69, 0x6c]

/-- ::ffff:0:0/96 -/
def isMapped (a : Bytes) : Bool := a.length == 16 && a.take 12 == [0, 0, 0, 0, 0, 0, 0, 0, 0, 0, 0xff, 0xff]

/-- text of a zone-less `netip.Addr` given by its bytes (none = the zero Addr) -/
def addrText (a : Bytes) : Bytes :=
  if a.length = 4 then ipv4 a
  else if a.length = 16 then
    if isMapped a then [0x3a, 0x3a, 0x66, 0x66, 0x66, 0x66, 0x3a] ++ ipv4 (a.drop 12) else rfc5952 a
  else sNil

/-- text of a `net.IP` (nil and malformed lengths print `nil`; the latter are outside the
    reference, see checks.json) -/
def ipSliceText : Option Bytes → Bytes
  | none => sNil
  | some a =>
    if a.length = 4 then ipv4 a
    else if a.length = 16 then (if isMapped a then ipv4 (a.drop 12) else rfc5952 a)
    else sNil

/-! ### durations -/

def dropTrailingZeros (l : Bytes) : Bytes := (l.reverse.dropWhile (· == 0x30)).reverse

/-- `u / 10^e` with up to `e` fraction digits, trailing zeros (and then the point) omitted -/
def fraction (u e : Nat) : Bytes :=
  let fp := u % 10 ^ e
  let ds := dropTrailingZeros ((List.range e).map (fun i => digit (fp / 10 ^ (e - 1 - i) % 10)))
  decimal (u / 10 ^ e) ++ (if ds = [] then [] else 0x2e :: ds)

/-- text of the magnitude `u` nanoseconds: `0s`; below one second the largest unit ns/µs/ms that
    keeps the integer part non-zero; otherwise hours and minutes when non-zero, then seconds -/
def durationBody (u : Nat) : Bytes :=
  if u = 0 then [0x30, 0x73]
  else if u < 10 ^ 3 then decimal u ++ [0x6e, 0x73]
  else if u < 10 ^ 6 then fraction u 3 ++ [0xc2, 0xb5, 0x73]
  else if u < 10 ^ 9 then fraction u 6 ++ [0x6d, 0x73]
  else
    let secs := u / 10 ^ 9
    (if secs ≥ 3600 then decimal (secs / 3600) ++ [0x68] else []) ++
    (if secs ≥ 60 then decimal (secs / 60 % 60) ++ [0x6d] else []) ++
    fraction (u % (60 * 10 ^ 9)) 9 ++ [0x73]

def duration (d : Int) : Bytes :=
  if d < 0 then 0x2d :: durationBody d.natAbs else durationBody d.natAbs

/-! ### fields and lines -/

def boolText (v : Bool) : Bytes := if v then [0x74, 0x72, 0x75, 0x65] else [0x66, 0x61, 0x6c, 0x73, 0x65]

/-- ` name=body` -/
def named (name body : Bytes) : Bytes := [0x20] ++ name ++ [0x3d] ++ body

def quoted (v : Bytes) : Bytes := [0x22] ++ v ++ [0x22]

/-- module column: six characters (cut / padded with spaces) and `:` -/
def moduleCol (name : Bytes) : Bytes :=
  name.take 6 ++ List.replicate (6 - name.length) 0x20 ++ [0x3a]

def msgText (m : Bytes) : Bytes := if m = [] then [] else [0x20] ++ quoted m

def moduleText (name m : Bytes) : Bytes :=
  (if name = [] then [] else moduleCol name) ++ msgText m

/-- elements followed by `,` each, separated by a blank: `a, b,` (the format of the array appenders) -/
def listBody (xs : List Bytes) : Bytes :=
  if xs = [] then [] else ([0x2c, 0x20] : Bytes).intercalate xs ++ [0x2c]

def ipElem : Option Bytes → Bytes
  | none => []
  | some a => ipSliceText (some a)

def renderField : Field → Bytes
  | .str n v => named n (quoted v)
  | .label n => [0x20] ++ n
  | .bool n v => named n (boolText v)
  | .int n v => named n (decimalInt v)
  | .u8 n v => named n (decimal v.toNat)
  | .u16 n v => named n (decimal v.toNat)
  | .u32 n v => named n (decimal v.toNat)
  | .x8 n v => named n ([0x30, 0x78] ++ hex8 v.toNat)
  | .x16 n v => named n ([0x30, 0x78] ++ hex16 v.toNat)
  | .mac n v => named n (if v.length = 6 then mac v else sNil)
  | .ip n a => named n (addrText a)
  | .ipSlice n a => named n (ipSliceText a)
  | .byteArray n v => named n ([0x5b] ++ ([0x20] : Bytes).intercalate (v.map (fun b => hex8 b.toNat)) ++ [0x5d])
  | .stringArray n v => named n ([0x5b] ++ listBody (v.map quoted) ++ [0x5d])
  | .ipArray n v => named n ([0x5b] ++ listBody (v.map ipElem) ++ [0x5d])
  | .duration n d => named n (duration d)
  | .nameText n t => named n t
  | .error t => [0x20, 0x65, 0x72, 0x72, 0x6f, 0x72, 0x3d, 0x5b] ++ t ++ [0x5d]
  | .bytes n v => named n v
  | .stringer t => [0x20] ++ t
  | .module n m => [0x0a] ++ moduleText n m
  | .lf => [0x0a]
  | .printInt v => decimal v.toNat
  | .writeHex v => hex8 v.toNat
  | .writeHexNLZ v => hexShort v.toNat
  | .appendIP6 a => if a.length = 16 then rfc5952 a else sNil
  | .appendByte v => [v]
  | .newModule n m => moduleText n m

/-- concatenation of the reference renderings -/
def renderFields (fs : List Field) : Bytes := (fs.map renderField).flatten

/-- a line started by `Logger.Msg(msg)` of a logger created with `New(module)` -/
def linePrefix (module m : Bytes) : Bytes :=
  (if module = [] then moduleCol [] else moduleCol module) ++ msgText m

end PV.Spec.Render
