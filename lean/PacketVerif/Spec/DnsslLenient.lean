/-
  A second reference reading of the names area of a DNSSL option (RFC 8106 5.2): the receiver that STOPS at
  the first empty name.  RFC 8106 obliges the sender to pad the option with zeros and says nothing about a
  receiver that finds other bytes after the empty name that ends the list; `Spec.NdpWire.dnsNames` is the strict
  receiver (everything after the names must be zero, else the option is ignored), `dnsNamesLenient` is the other
  admissible one: names are read one after the other (RFC 1035 3.1 label sequences, `Spec.NdpWire.dnsName`) until
  an empty name or the end of the area; what follows the empty name is not looked at.  A name that does not
  parse (label running past the area, missing terminator, bad character) invalidates the option in both.
-/
import PacketVerif.Spec.NdpWire
namespace PV.Spec.DnsslLenient
open PV PV.Spec.NdpWire

def dnsNamesLenient : Nat → Bytes → Option (List Bytes)
  | 0, _ => none
  | _ + 1, [] => some []
  | fuel + 1, n :: tl =>
    match dnsName ((n :: tl).length + 1) (n :: tl) with
    | none => none
    | some ([], _) => some []                  -- the empty name ends the list; the rest is padding, whatever it holds
    | some (ls, rest) => (dnsNamesLenient fuel rest).map (fun r => joinDots ls :: r)

/-- lifetime and names of a DNSSL option body (reserved(2) lifetime(4) names…); at least one name -/
def decodeDnsslLenient (body : Bytes) : Option (Nat × List Bytes) :=
  match body with
  | _ :: _ :: l0 :: l1 :: l2 :: l3 :: names =>
    match dnsNamesLenient (names.length + 1) names with
    | some (n :: ns) => some (nat32 l0 l1 l2 l3, n :: ns)
    | _ => none
  | _ => none

end PV.Spec.DnsslLenient
