/-
  Reference reading of an ARP packet in an Ethernet frame, written from RFC 826 (packet layout),
  RFC 894 (Ethernet II framing, EtherType 0x0806) and RFC 5227 §1.1 (probe = request with an all-zero
  sender protocol address, announcement = request whose sender and target protocol addresses are
  equal), as a specification over absolute frame offsets (cursor vocabulary of `Spec.decode`:
  `at_`, `u16`, `field`); no slices, no `Outcome`.  Independent of `Model.parse` / `Model.Ndp.arpClassify`.

      0  destination MAC     6  source MAC      12  EtherType 0x0806
     14  htype = 1          16  ptype = 0x0800  18  hlen = 6   19  plen = 4   20  operation
     22  sender hardware address (6)   28  sender protocol address (4)
     32  target hardware address (6)   38  target protocol address (4)          = 42 bytes

  What the reference fixes as the library's documented behaviour (and what it deliberately is NOT):
  * only untagged Ethernet II frames are ARP: a frame with an 802.1Q / 802.1ad tag has EtherType
    0x8100 / 0x88a8 at offset 12 and is not decoded further by the library;
  * a frame whose Ethernet source address has the group bit set is not decoded at all;
  * trailing bytes after the 28 bytes of ARP (Ethernet padding) are ignored;
  * the Ethernet source and the sender hardware address are NOT required to agree (a bridge relays
    the packet), the target hardware address is not looked at.
-/
import PacketVerif.Spec.Decode
namespace PV.Spec.ArpWire
open PV PV.Spec

structure ArpMsg where
  op : Nat
  sha : Bytes
  spa : Bytes
  tha : Bytes
  tpa : Bytes
  deriving DecidableEq, Repr

/-- an Ethernet II frame carrying an IPv4-over-Ethernet ARP packet -/
def decodeArpFrame (p : Bytes) : Option ArpMsg :=
  if p.length < 42 then none
  else if u16 p 12 ≠ 0x0806 then none
  else if u16 p 14 ≠ 1 ∨ u16 p 16 ≠ 0x0800 ∨ at_ p 18 ≠ 6 ∨ at_ p 19 ≠ 4 then none
  else some { op := u16 p 20, sha := field p 22 6, spa := field p 28 4, tha := field p 32 6, tpa := field p 38 4 }

/-- 169.254.0.0/16 -/
def linkLocal4 (ip : Bytes) : Bool := at_ ip 0 == 169 && at_ ip 1 == 254

inductive Kind where
  | request | probe | announcement | reply
  | ignored      -- link-local addresses, operation other than 1 / 2
  deriving DecidableEq, Repr

def kindOf (a : ArpMsg) : Kind :=
  if linkLocal4 a.spa || linkLocal4 a.tpa then .ignored
  else if a.op = 2 then .reply
  else if a.op = 1 then
    if a.spa = a.tpa then .announcement
    else if a.spa = [0, 0, 0, 0] then .probe
    else .request
  else .ignored

/-- the Ethernet source address is an individual address -/
def srcIndividual (p : Bytes) : Bool := at_ p 6 % 2 == 0

end PV.Spec.ArpWire
