/-
  C04 / C06 — the reference model written from the property statements: an abstract map
  `IP ⇀ (MAC, online, lastSeen)` with the discovery, IP-change, re-binding and ageing rules, and
  the notifications that map alone predicts.  No pointers, no MAC table, no dirty bits.
-/
import PacketVerif.Model.Tables
namespace PV.Spec
open PV PV.Model.Tables

structure AEntry where
  mac : MAC
  online : Bool
  lastSeen : Int
  deriving DecidableEq, Repr, Inhabited

/-- the tracked (MAC, IP, online) triples (+ the time the address was last seen) -/
abbrev HostMap := IP → Option AEntry

/-- **Creation rule.**  A frame creates / refreshes a host exactly when its Ethernet source is a
    unicast MAC other than our own and it carries an IPv4 source or ARP sender inside the home LAN,
    or an IPv6 link-local source, or an IPv6 global unicast source not sent by the router.
    The address is bound to the Ethernet source, for ARP to the announced sender hardware address. -/
def unicast : MAC → Bool
  | b :: _ => b.toNat % 2 == 0
  | [] => false

def seen (c : Cfg) (ev : FrameEv) : Option (MAC × IP) :=
  let fromOther : Bool := unicast ev.srcMAC && decide (ev.srcMAC ≠ c.hostMAC)
  match ev.kind with
  | .ip4 => if fromOther ∧ c.lanContains ev.srcIP then some (ev.srcMAC, ev.srcIP) else none
  | .arp => if fromOther ∧ c.lanContains ev.srcIP then some (ev.arpMAC, ev.srcIP) else none
  | .ip6 =>
    if fromOther ∧ (ev.srcIP.isLinkLocalUnicast ∨ (ev.srcIP.isGlobalUnicast ∧ ev.srcMAC ≠ c.routerMAC))
    then some (ev.srcMAC, ev.srcIP) else none
  | .other => none

/-- the address was already tracked online for this very MAC (repeat traffic) -/
def repeatOf (m : HostMap) (mac : MAC) (ip : IP) : Bool :=
  match m ip with
  | some e => decide (e.mac = mac) && e.online
  | none => false

/-- **Seen rule.**  `ip` is now bound to `mac` (re-binding it if another MAC held it) and online
    with `lastSeen = now`.  If this is not repeat traffic and `ip` is IPv4, every other IPv4
    address of `mac` goes offline. -/
def see (m : HostMap) (mac : MAC) (ip : IP) (now : Int) : HostMap := fun k =>
  if k = ip then some { mac := mac, online := true, lastSeen := now }
  else match m k with
    | some e =>
      if !repeatOf m mac ip ∧ ip.is4 ∧ k.is4 ∧ e.mac = mac then some { e with online := false }
      else some e
    | none => none

/-- **Ageing rule.**  Decided for every address from the map as it is when purge starts: an
    offline address silent for longer than `PurgeDeadline` is removed, an online address silent
    for longer than `OfflineDeadline` goes offline. -/
def age (c : Cfg) (m : HostMap) (now : Int) : HostMap := fun k =>
  match m k with
  | none => none
  | some e =>
    if !e.online ∧ e.lastSeen < now - c.purgeDL then none
    else if e.online ∧ e.lastSeen < now - c.offlineDL then some { e with online := false }
    else some e

def step (c : Cfg) (m : HostMap) : Op → HostMap
  | .frame ev now _ =>
    match seen c ev with
    | some (mac, ip) => see m mac ip now
    | none => m
  | .dhcpUpdate mac ip _ now _ =>
    if ip.isValid ∧ ¬ ip.isUnspecified then see m mac ip now else m
  | .purge now => age c m now
  | .setLastSeen ip t => fun k =>
    if k = ip then (m k).map (fun e => { e with lastSeen := t }) else m k
  | _ => m

/-- right after `NewSession`: our own address (never expiring) and the router's, both online -/
def init (c : Cfg) (now : Int) : HostMap := fun k =>
  if k = c.routerIP4 then some { mac := c.routerMAC, online := true, lastSeen := now }
  else if k = c.hostIP4 then some { mac := c.hostMAC, online := true, lastSeen := now + year }
  else none

def run (c : Cfg) (m : HostMap) (ops : List Op) : HostMap := ops.foldl (step c) m

/-! ### C06: the notifications the map predicts -/

/-- an announced transition: address, owner, new state -/
structure Event where
  mac : MAC
  ip : IP
  online : Bool
  deriving DecidableEq, Repr, Inhabited

/-- an address that was online before and is offline (still tracked, same MAC) after -/
def offEvent (pre post : HostMap) (k : IP) : Option Event :=
  match pre k, post k with
  | some a, some b => if a.online ∧ !b.online ∧ a.mac = b.mac then some ⟨b.mac, k, false⟩ else none
  | _, _ => none

/-- an address that is online after the step but was not online for that MAC before -/
def onEvent (pre post : HostMap) (k : IP) : Option Event :=
  match post k with
  | some b => if b.online ∧ !repeatOf pre b.mac k then some ⟨b.mac, k, true⟩ else none
  | none => none

/-- transitions of one step over a finite list `keys` of candidate addresses (the addresses
    tracked before the step and the one the step is about): one offline event per `offEvent`,
    one online event per `onEvent`.  Offline events come first. -/
def diff (keys : List IP) (pre post : HostMap) : List Event :=
  keys.filterMap (offEvent pre post) ++ keys.filterMap (onEvent pre post)

/-- `Spec.transitions`: what must be announced for the step `op` taken from map `m` -/
def transitions (c : Cfg) (keys : List IP) (m : HostMap) (op : Op) : List Event :=
  diff keys m (step c m op)


/-! ### C06: what a consumer of the channel knows -/

/-- the consumer's view: last announced (MAC, online) per address -/
abbrev View := IP → Option (MAC × Bool)

def View.apply (v : View) (n : Notif) : View := fun k => if k = n.ip then some (n.mac, n.online) else v k

def View.applyAll (v : View) (ns : List Notif) : View := ns.foldl View.apply v

end PV.Spec
