/-
  RFC 5952 §4 canonical text of an IPv6 address, written from the RFC:
   §4.1  leading zeros in a 16-bit field are suppressed (a zero field is "0");
   §4.2.1 "::" shortens as much as possible, §4.2.2 is not used for a single 16-bit 0 field,
   §4.2.3 the longest run of consecutive zero fields is shortened, the first on a tie;
   §4.3  hexadecimal digits a–f are lower case.
  Independent of the model: no buffer, no cursor; the address is split around the chosen run and
  the two halves are joined with ":".
-/
import PacketVerif.Basic
namespace PV.Spec.Rfc5952
open PV

/-- lower-case hexadecimal digit -/
def hexChar (n : Nat) : UInt8 := if n < 10 then UInt8.ofNat (48 + n) else UInt8.ofNat (87 + n)

/-- `w` hexadecimal digits of `n`, most significant first -/
def hexFixed : Nat → Nat → Bytes
  | 0, _ => []
  | w + 1, n => hexFixed w (n / 16) ++ [hexChar (n % 16)]

/-- leading `0` characters removed, but at least one digit kept -/
def dropLead (s : Bytes) : Bytes :=
  match s.dropWhile (· == 0x30) with
  | [] => [0x30]
  | r => r

/-- a 16-bit field without leading zeros (§4.1); the zero field is "0" -/
def hexField (n : Nat) : Bytes := dropLead (hexFixed 4 n)

/-- the 16-bit fields of a byte string, big-endian -/
def fields : Bytes → List Nat
  | hi :: lo :: rest => (hi.toNat * 256 + lo.toNat) :: fields rest
  | _ => []

/-- number of consecutive zero fields at the head -/
def zerosAtHead : List Nat → Nat
  | 0 :: t => zerosAtHead t + 1
  | _ => 0

/-- `(start, length)` of the run to shorten: scanning the start positions left to right, a
    candidate replaces the current choice only when it is strictly longer (so the first of the
    longest wins) and has at least two fields (§4.2.2) -/
def bestRun (g : List Nat) : Option (Nat × Nat) :=
  (List.range g.length).foldl
    (fun best i =>
      let n := zerosAtHead (g.drop i)
      match best with
      | none => if n ≥ 2 then some (i, n) else none
      | some (s, m) => if n > m then some (i, n) else some (s, m))
    none

def colon : Bytes := [0x3a]

/-- canonical text of the fields `g` -/
def text (g : List Nat) : Bytes :=
  match bestRun g with
  | none => colon.intercalate (g.map hexField)
  | some (s, n) =>
    colon.intercalate ((g.take s).map hexField) ++ [0x3a, 0x3a] ++
      colon.intercalate ((g.drop (s + n)).map hexField)

/-- RFC 5952 text of a 16-byte address -/
def rfc5952 (a : Bytes) : Bytes := text (fields a)

end PV.Spec.Rfc5952
