/-
  Reference reading of "an Ethernet frame carrying a router advertisement", from RFC 894 (EtherType
  0x86dd), RFC 8200 §3 (fixed IPv6 header: payload length at 4, next header at 6, hop limit at 7,
  source at 8, destination at 24) and RFC 4443 / RFC 4861 §4.2 (ICMPv6 type 134), over absolute frame
  offsets (`at_`, `u16`, `field`).  Independent of `Model.parse` and of the handler model.

      0 dst MAC   6 src MAC   12 0x86dd   14 IPv6 header (40)   54 ICMPv6: type, code, checksum, …

  What the reference fixes as the library's behaviour – and what the library does NOT check (RFC 4861
  §6.1.2 asks a host to discard the advertisement otherwise):
  * the IPv6 payload length must fill the frame exactly (`payload length + 54 = frame length`): a frame
    with trailing bytes after the IPv6 packet is rejected;  the version nibble is not looked at;
  * the ICMPv6 message must follow the fixed header directly (next header 58): a router advertisement
    behind a hop-by-hop or any other extension header is not seen;
  * NOT checked: hop limit 255, link-local source address, ICMPv6 checksum, code 0, the destination
    address, and that the advertised option lengths fit (that is the option parser's job);
  * only untagged frames (EtherType at offset 12) from an individual Ethernet source address.
-/
import PacketVerif.Spec.Decode
namespace PV.Spec.RaFrame
open PV PV.Spec
open PV.Model (Netip.isLinkLocalUnicast Netip.isGlobalUnicast)

structure RaPkt where
  etherSrc : Bytes
  ipSrc : Bytes
  hopLimit : Nat
  icmp : Bytes          -- the ICMPv6 message (type 134 first)
  deriving DecidableEq, Repr

def decodeRaFrame (p : Bytes) : Option RaPkt :=
  if p.length < 62 then none                         -- 14 + 40 + 8
  else if u16 p 12 ≠ 0x86dd then none
  else if u16 p 18 + 54 ≠ p.length then none
  else if at_ p 20 ≠ 58 then none
  else if at_ p 54 ≠ 134 then none
  else some { etherSrc := field p 6 6, ipSrc := field p 22 16, hopLimit := at_ p 21, icmp := p.drop 54 }

/-- the Ethernet source address is an individual address -/
def srcIndividual (p : Bytes) : Bool := at_ p 6 % 2 == 0

/-- the discovery rule of the host table for an IPv6 sender (C04): not our own MAC, and a link-local
    address or a global address not forwarded by the router -/
def senderTracked (hostMAC routerMAC : Bytes) (esrc ip : Bytes) : Bool :=
  esrc != hostMAC && (Netip.isLinkLocalUnicast ip || (Netip.isGlobalUnicast ip && esrc != routerMAC))

end PV.Spec.RaFrame
