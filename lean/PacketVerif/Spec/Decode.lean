/-
  Reference frame decoder for C02, written from the RFCs (894/1042 Ethernet, 802.1Q/802.1ad,
  791 IPv4, 8200 IPv6, 768 UDP, 9293 TCP, 792/4443 ICMP, 826 ARP) and from the classification
  table documented in layer_frame.go, **as a specification**: cursor + table lookups over
  offsets, no slices, no `Outcome`.  Independent of `Model.parse` (nested re-slicing, staged
  `IsValid` calls, explicit panics).

  What the reference fixes (the library's documented behaviour):
  * frames whose source MAC has the group bit set are classified `Ether` and not decoded further;
  * EtherType < 1536 is an 802.3 length (`8023`);
  * the payload reported for a recognised UDP service starts after the UDP header, otherwise the
    payload stays at the transport header; for TCP/ICMP/IGMP/other IP protocols it stays at the
    IP payload;
  * IPv4 may carry link-layer padding after TotalLen; IPv6 must fill the frame exactly
    (`PayloadLen + 40 = bytes after the Ethernet header`) – the library's notion of
    length-consistent for IPv6;
  * an error is reported iff a mandatory header on the selected path is truncated or
    length-inconsistent; the result then keeps what was decoded before the failing header.
-/
import PacketVerif.Basic
import PacketVerif.Model.Netip
namespace PV.Spec

open PV.Model (Netip.prefixContains Netip.isLinkLocalUnicast Netip.isGlobalUnicast)

structure SCfg where
  hostMAC : Bytes
  routerMAC : Bytes
  lanAddr : Bytes
  lanBits : Nat

structure Decoded where
  pid : Nat := 0
  ip4 : Nat := 0          -- start offset of the IPv4 header (0 = absent)
  ip6 : Nat := 0
  udp : Nat := 0
  tcp : Nat := 0
  pay : Nat := 0          -- start offset of the payload
  srcMAC : Bytes := []
  dstMAC : Bytes := []
  srcIP : Bytes := []
  dstIP : Bytes := []
  srcPort : Nat := 0
  dstPort : Nat := 0
  host : Option (Bytes × Bytes) := none   -- tracked (MAC, IP) by the discovery rule of C04
  echo : Option Nat := none                -- identifier of a decoded echo reply
  err : Bool := false
  deriving Repr, DecidableEq

/-- byte at offset (0 when absent – only used below a length guard) -/
def at_ (p : Bytes) (k : Nat) : Nat := (p[k]?.getD 0).toNat
def u16 (p : Bytes) (k : Nat) : Nat := at_ p k * 256 + at_ p (k + 1)
def field (p : Bytes) (k n : Nat) : Bytes := (p.drop k).take n

/-- EtherType → PayloadID for the types that are classified but not decoded -/
def l2Table : List (Nat × Nat) :=
  [(0x8808, 23), (0x8899, 24), (0x88cc, 25), (0x890d, 26), (0x893a, 27), (0x6970, 28), (0x880a, 29)]

inductive Side | src | dst | either
/-- documented UDP service table, first match wins -/
def udpTable : List (Side × Nat × Nat) :=
  [(.either, 443, 14), (.dst, 67, 10), (.dst, 68, 10), (.dst, 546, 11), (.dst, 547, 11),
   (.either, 53, 12), (.either, 5353, 13), (.either, 5355, 21), (.either, 123, 15),
   (.either, 1900, 16), (.either, 3702, 17), (.dst, 137, 18), (.dst, 138, 18),
   (.dst, 32412, 19), (.dst, 32414, 19), (.either, 10001, 20)]

def udpService (sp dp : Nat) : Option Nat :=
  (udpTable.find? fun (s, port, _) =>
    match s with
    | .src => sp == port
    | .dst => dp == port
    | .either => sp == port || dp == port).map (·.2.2)

/-- transport layer at offset `o` (the IP payload), protocol number `proto` -/
def transport (p : Bytes) (d : Decoded) (proto o : Nat) : Decoded :=
  let avail := p.length - o
  if proto == 17 then
    if avail < 8 then { d with pid := 8, err := true }
    else
      let sp := u16 p o; let dp := u16 p (o + 2)
      let d := { d with udp := o, srcPort := sp, dstPort := dp }
      match udpService sp dp with
      | some pid => { d with pid := pid, pay := o + 8 }
      | none => { d with pid := 8 }
  else if proto == 6 then
    let doff := at_ p (o + 12) / 16 * 4
    if avail < 20 ∨ doff < 20 ∨ avail < doff then { d with pid := 9, err := true }
    else { d with pid := 9, tcp := o, srcPort := u16 p o, dstPort := u16 p (o + 2) }
  else if proto == 1 ∨ proto == 58 then
    if avail < 8 then { d with err := true }
    else
      let reply := if proto == 1 then 0 else 129
      { d with pid := if proto == 1 then 6 else 7,
               echo := if at_ p o == reply then some (u16 p (o + 4)) else none }
  else if proto == 2 then { d with pid := 22 }
  else d

def decode (cfg : SCfg) (p : Bytes) : Decoded :=
  if p.length < 14 then { err := true } else
  let et := u16 p 12
  let hdr := if et == 0x8100 then 18 else if et == 0x88a8 then 22 else 14
  if p.length < hdr then { err := true } else
  let src := field p 6 6
  let d : Decoded := { pid := 1, pay := hdr, srcMAC := src, dstMAC := field p 0 6 }
  if at_ p 6 % 2 == 1 then d                           -- group source address: not decoded
  else if et < 1536 then { d with pid := 2 }
  else if et == 0x0800 then
    let o := hdr; let avail := p.length - o
    let ihl := at_ p o % 16 * 4; let tl := u16 p (o + 2)
    if avail < 20 ∨ ihl < 20 ∨ avail < ihl ∨ tl < ihl ∨ avail < tl then { d with pid := 4, err := true }
    else
      let sip := field p (o + 12) 4
      let track := src != cfg.hostMAC && Netip.prefixContains cfg.lanAddr cfg.lanBits sip
      let d := { d with pid := 4, ip4 := o, pay := o + ihl, srcIP := sip, dstIP := field p (o + 16) 4,
                        host := if track then some (src, sip) else none }
      transport p d (at_ p (o + 9)) (o + ihl)
  else if et == 0x86dd then
    let o := hdr; let avail := p.length - o
    if avail < 40 ∨ u16 p (o + 4) + 40 ≠ avail then { d with pid := 5, err := true }
    else
      let sip := field p (o + 8) 16
      let track := src != cfg.hostMAC &&
        (Netip.isLinkLocalUnicast sip || (Netip.isGlobalUnicast sip && src != cfg.routerMAC))
      let d := { d with pid := 5, ip6 := o, pay := o + 40, srcIP := sip, dstIP := field p (o + 24) 16,
                        host := if track then some (src, sip) else none }
      transport p d (at_ p (o + 6)) (o + 40)
  else if et == 0x0806 then
    let o := hdr
    if p.length - o < 28 ∨ at_ p (o + 4) ≠ 6 then { d with pid := 3, err := true }
    else
      let sip := field p (o + 14) 4
      let track := src != cfg.hostMAC && Netip.prefixContains cfg.lanAddr cfg.lanBits sip
      { d with pid := 3, host := if track then some (field p (o + 8) 6, sip) else none }
  else
    match l2Table.lookup et with
    | some pid => { d with pid := pid }
    | none => d

end PV.Spec
