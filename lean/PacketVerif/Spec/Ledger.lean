/-
  Reference ("ledger") reading of C11 / C12, written from the property statements: what an
  observer of the wire can say about the server.  It shares only the message / reply / config
  *types* with the model; it knows nothing about the lease table.

  * `Ledger` : the acknowledgements currently in force (address, client id, end of lease),
    maintained from the observed ops and replies only:
      - an ACK to client c for address a records (a, c, now + lease time announced in the ACK);
      - any message of client c (DISCOVER / DECLINE / RELEASE / REQUEST) ends c's earlier
        acknowledgement unless that same message is acknowledged again;
      - a minute tick at `now` ends the acknowledgements whose lease time has run out.
  * `reserved` : addresses that must never be offered / acknowledged to a client.
  * `Conforms` : C12's content requirements on an OFFER / ACK.
-/
import PacketVerif.Model.Dhcp4Srv
namespace PV.Spec.Ledger
open PV PV.Model.Dhcp4Srv

structure Binding where
  ip : IP
  cid : Cid
  expiry : Nat
  deriving DecidableEq, Repr

abbrev Ledger := List Binding

/-- no address is acknowledged to two different client identifiers -/
def Unique (L : Ledger) : Prop :=
  ∀ b1 b2, b1 ∈ L → b2 ∈ L → b1.ip = b2.ip → b1.cid = b2.cid

/-- address `ip` is not acknowledged to a client other than `c` -/
def FreeFor (L : Ledger) (c : Cid) (ip : IP) : Prop :=
  ∀ b, b ∈ L → b.ip = ip → b.cid = c

/-- value of an option in a reply -/
def optOf (r : Reply) (code : Nat) : Option Bytes := r.opts.lookup code

/-- lease time (seconds) announced in a reply: option 51, big-endian -/
def leaseSecs (r : Reply) : Nat :=
  match optOf r 51 with
  | some [a, b, c, d] => be32 a b c d
  | _ => 0

/-- the client a message op speaks for -/
def subject : Op → Option Cid
  | .discover _ m => some (clientId m)
  | .request _ m => some (clientId m)
  | .decline m => some (clientId m)
  | .release m => some (clientId m)
  | _ => none

def opNow : Op → Nat
  | .discover now _ => now
  | .request now _ => now
  | .minuteTick now => now
  | _ => 0

/-- ledger after observing one op and the replies it produced -/
def observe (L : Ledger) (op : Op) (rs : List Reply) : Ledger :=
  match op with
  | .minuteTick now => L.filter (fun b => !(decide (b.expiry < now)))
  | _ =>
    match subject op with
    | some c =>
      L.filter (fun b => b.cid != c)
        ++ (rs.filter (fun r => r.typ == .ack)).map (fun r => ⟨r.yiaddr, c, opNow op + leaseSecs r⟩)
    | none => L

/-- the subnet a client belongs to, by its capture state -/
def clientNet (cfg : Cfg) (captured : Bool) : Subnet := if captured then cfg.net2 else cfg.net1

def inNet (n : Subnet) (ip : IP) : Prop := ip / 2 ^ (32 - n.bits) = n.lan / 2 ^ (32 - n.bits)

/-- statically reserved addresses (for a client of subnet `n`) -/
def Reserved (cfg : Cfg) (n : Subnet) (ip : IP) : Prop :=
  ip = cfg.host ∨ ip = cfg.router ∨ ip = n.lan ∨ ip = n.lan / 2 ^ (32 - n.bits) * 2 ^ (32 - n.bits) + (2 ^ (32 - n.bits) - 1)
    ∨ ¬ inNet n ip

/-- the session tracks `ip` for a MAC other than `mac` -/
def TrackedByOther (hosts : List (IP × MAC)) (ip : IP) (mac : MAC) : Prop :=
  ∃ m, hosts.lookup ip = some m ∧ m ≠ mac

def be4 (ip : IP) : Bytes :=
  [UInt8.ofNat (ip / 2 ^ 24), UInt8.ofNat (ip / 2 ^ 16), UInt8.ofNat (ip / 2 ^ 8), UInt8.ofNat ip]

/-- C12: content of an OFFER / ACK for a client whose capture state is `captured` -/
structure Conforms (cfg : Cfg) (captured : Bool) (m : Msg) (r : Reply) : Prop where
  inSubnet : inNet (clientNet cfg captured) r.yiaddr
  router : optOf r 3 = some (be4 (clientNet cfg captured).gw)
  dns : optOf r 6 = some (be4 (clientNet cfg captured).dns)
  mask : optOf r 1 = some (be4 (2 ^ 32 - 2 ^ (32 - (clientNet cfg captured).bits)))
  serverId : optOf r 54 = some (be4 (clientNet cfg captured).server)
  leaseTime : optOf r 51 = some (be4 (clientNet cfg captured).dur)
  xid : r.xid = m.xid
  chaddr : r.chaddr = m.chaddr

/-- C12 with the values the statement names, for a server constructed by `Config.New` from `n`: the netfilter subnet
    with OUR netfilter address as router and the family DNS server when captured, the home LAN with the REAL router and
    the configured DNS server otherwise, the matching mask, OUR address as server identifier, four hours -/
structure ConformsNew (n : NewCfg) (captured : Bool) (m : Msg) (r : Reply) : Prop where
  inSubnet : r.yiaddr / 2 ^ (32 - (if captured then n.nfBits else n.homeBits))
              = (if captured then n.nfAddr else n.homeLan) / 2 ^ (32 - (if captured then n.nfBits else n.homeBits))
  router : optOf r 3 = some (be4 (if captured then n.nfAddr else n.router))
  dns : optOf r 6 = some (be4 (if captured then familyDNS else n.dns.getD n.router))
  mask : optOf r 1 = some (be4 (2 ^ 32 - 2 ^ (32 - (if captured then n.nfBits else n.homeBits))))
  serverId : optOf r 54 = some (be4 n.host)
  leaseTime : optOf r 51 = some (be4 14400)
  xid : r.xid = m.xid
  chaddr : r.chaddr = m.chaddr

/-! ### what an observer of the wire knows about offers and leases (C12: "an ACK confirms the address offered in that
    transaction or the client's current lease") -/

/-- an OFFER seen on the wire: to which client, in which transaction, which address -/
structure OfferRec where
  cid : Cid
  xid : Bytes
  ip : IP
  deriving DecidableEq, Repr

/-- `offers`: the OFFER last sent to each client that was neither superseded by a later DISCOVER of that client nor
    consumed by an ACK; `held`: the address last acknowledged to each client -/
structure Observed where
  offers : List OfferRec
  held : List (Cid × IP)
  deriving DecidableEq, Repr

def ackedOf (c : Cid) (rs : List Reply) : List (Cid × IP) :=
  (rs.filter (fun r => r.typ == .ack)).map (fun r => (c, r.yiaddr))

def offeredOf (c : Cid) (rs : List Reply) : List OfferRec :=
  (rs.filter (fun r => r.typ == .offer)).map (fun r => ⟨c, r.xid, r.yiaddr⟩)

def isDiscover : Op → Bool
  | .discover .. => true
  | _ => false

/-- the observer's knowledge after one op and its replies: a DISCOVER of client c replaces c's outstanding offer by the
    OFFER sent in reply (if any); an ACK to c consumes c's offer and makes the acknowledged address c's lease -/
def watch (W : Observed) (op : Op) (rs : List Reply) : Observed :=
  match subject op with
  | none => W
  | some c =>
    { offers := if isDiscover op || !(ackedOf c rs).isEmpty then W.offers.filter (fun o => o.cid != c) ++ offeredOf c rs
                else W.offers,
      held := if (ackedOf c rs).isEmpty then W.held else W.held.filter (fun e => e.1 != c) ++ ackedOf c rs }

end PV.Spec.Ledger
