import PacketVerif.Drv.Checksum
import PacketVerif.Drv.Views
import PacketVerif.Drv.Encode
import PacketVerif.Drv.Dns
import PacketVerif.Drv.Tables
import PacketVerif.Drv.Ping
import PacketVerif.Drv.Ndp
import PacketVerif.Drv.Icmp6Hunt
import PacketVerif.Drv.ArpHunt
import PacketVerif.Drv.Fastlog
import PacketVerif.Drv.Dhcp4Srv
import PacketVerif.Drv.Dhcp4File
import PacketVerif.Drv.Dhcp4Restart
import PacketVerif.Drv.Dhcp4Opt
import PacketVerif.Drv.Handlers
import PacketVerif.Drv.Ssdp
import PacketVerif.Drv.PingMulti
import PacketVerif.Drv.MdnsHist
open PV

/-- dispatch one protocol line to the module that knows the op -/
def dispatch (line : String) : String :=
  match (line.trimAscii.toString.splitOn " ").filter (· ≠ "") with
  | [] => "bad-op"
  | cmd :: args =>
    let hs : List (String → List String → Option String) := [
      Drv.Checksum.handle,
      Drv.Views.handle,
      Drv.Encode.handle,
      Drv.Dns.handle,
      Drv.Tables.handle,
      Drv.Ping.handle,
      Drv.Ndp.handle,
      Drv.Icmp6Hunt.handle,
      Drv.ArpHunt.handle,
      Drv.Fastlog.handle,
      Drv.Dhcp4Srv.handle,
      Drv.Dhcp4File.handle,
      Drv.Dhcp4Restart.handle,
      Drv.Dhcp4Opt.handle,
      Drv.Handlers.handle,
      Drv.Ssdp.handle,
      Drv.PingMulti.handle,
      Drv.MdnsHist.handle
    ]
    match hs.findSome? (fun h => h cmd args) with
    | some r => r
    | none => "bad-op"

partial def loop (hin : IO.FS.Stream) (hout : IO.FS.Stream) : IO Unit := do
  let line ← hin.getLine
  if line.isEmpty then return ()
  hout.putStrLn (dispatch line)
  hout.flush
  loop hin hout

def main : IO Unit := do
  loop (← IO.getStdin) (← IO.getStdout)
