//go:build verif

package dns_naming

import "sync"

// VerifMutex returns the handler mutex (DNS table, mDNS cache) for the schedule search (harness/sched).
func (h *DNSHandler) VerifMutex() *sync.RWMutex { return &h.mutex }
