//go:build verif

package dns_naming

import "github.com/irai/packet"

// VerifNewC07 builds a DNSHandler without binding multicast sockets (send paths only).
func VerifNewC07(session *packet.Session) *DNSHandler {
	h := new(DNSHandler)
	h.session = session
	h.DNSTable = make(map[string]packet.DNSEntry, 16)
	h.mdnsCache = make(map[string]cache)
	return h
}

func (h *DNSHandler) VerifSendMDNS(buf []byte, srcAddr packet.Addr, dstAddr packet.Addr) error {
	return h.sendMDNS(buf, srcAddr, dstAddr)
}
