//go:build verif

package dns_naming

import (
	"encoding/hex"
	"sort"
	"time"
)

// VerifMDNSCacheShift moves the expiry of every entry of the (mac, id) response cache d into the past: for the
// cache this is the wall clock advancing by d (the handler reads time.Now() directly; nothing else in
// ProcessMDNS depends on the time).
func (h *DNSHandler) VerifMDNSCacheShift(d time.Duration) {
	h.mutex.Lock()
	for k, c := range h.mdnsCache {
		c.expiry = c.expiry.Add(-d)
		h.mdnsCache[k] = c
	}
	h.mutex.Unlock()
}

// VerifMDNSCacheKeys returns the keys of the response cache in hex, sorted (one observation under the lock).
func (h *DNSHandler) VerifMDNSCacheKeys() []string {
	h.mutex.Lock()
	keys := make([]string, 0, len(h.mdnsCache))
	for k := range h.mdnsCache {
		keys = append(keys, hex.EncodeToString([]byte(k)))
	}
	h.mutex.Unlock()
	sort.Strings(keys)
	return keys
}
