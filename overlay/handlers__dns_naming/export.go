//go:build verif

package dns_naming

import (
	"github.com/irai/packet"
)

// Socket-free constructor and wrappers of unexported helpers for the /verif harness.
// Injected at build time with `go build -tags verif -overlay`; nothing here exists in /repo.

func VerifNew(session *packet.Session) *DNSHandler {
	h := new(DNSHandler)
	h.session = session
	h.DNSTable = make(map[string]packet.DNSEntry, 256)
	h.mdnsCache = make(map[string]cache)
	return h
}

// VerifResetMDNSCache forgets the (mac,id) response cache so that every frame is parsed.
func (h *DNSHandler) VerifResetMDNSCache() {
	h.mutex.Lock()
	h.mdnsCache = make(map[string]cache)
	h.mutex.Unlock()
}

func (h *DNSHandler) VerifResetDNSTable() {
	h.mutex.Lock()
	h.DNSTable = make(map[string]packet.DNSEntry, 256)
	h.mutex.Unlock()
}

func VerifParseNodeNameArray(b []byte) ([]string, error) { return parseNodeNameArray(b) }

func VerifDecodeNBNSName(b []byte) (int, string, error) { return decodeNBNSName(b) }

func VerifEncodeNBNSName(name string) []byte { return encodeNBNSName(name) }

func VerifParseTXT(txt []string) string { return parseTXT(txt) }
