//go:build verif

package dhcp4_spoofer

import (
	"bytes"
	"crypto/sha256"
	"encoding/hex"
	"net/netip"
	"os"
	"sort"
	"time"

	yaml "gopkg.in/yaml.v2"
)

// Exports for the /verif step-mode harness (C11/C12/C18).  Injected with `go build -overlay`.

// VerifLease is a value copy of one lease table entry.
type VerifLease struct {
	Key     string // map key
	CID     []byte
	State   int
	MAC     []byte
	IP      netip.Addr
	Offer   netip.Addr
	XID     []byte
	Subnet  int // 1 = h.net1, 2 = h.net2, 0 = neither / nil
	Expiry  time.Time
	SameKey bool // key == string(ClientID)
}

// VerifSubnet is a value copy of a subnet.
type VerifSubnet struct {
	Nil       bool
	Cfg       SubnetConfig
	Broadcast netip.Addr
	NextIP    netip.Addr
}

type VerifState struct {
	Mode   int
	Net1   VerifSubnet
	Net2   VerifSubnet
	Leases []VerifLease // sorted by key
}

func dumpSubnet(s *dhcpSubnet) VerifSubnet {
	if s == nil {
		return VerifSubnet{Nil: true}
	}
	return VerifSubnet{Cfg: s.SubnetConfig, Broadcast: s.broadcast, NextIP: s.nextIP}
}

// VerifDump copies the handler state under the handler lock.
func (h *Handler) VerifDump() VerifState {
	h.Lock()
	defer h.Unlock()
	st := VerifState{Mode: int(h.mode), Net1: dumpSubnet(h.net1), Net2: dumpSubnet(h.net2)}
	for k, l := range h.table {
		v := VerifLease{Key: k, CID: append([]byte{}, l.ClientID...), State: int(l.State), MAC: append([]byte{}, l.Addr.MAC...),
			IP: l.Addr.IP, Offer: l.IPOffer, XID: append([]byte{}, l.XID...), Expiry: l.DHCPExpiry, SameKey: k == string(l.ClientID)}
		switch {
		case l.subnet != nil && l.subnet == h.net1:
			v.Subnet = 1
		case l.subnet != nil && l.subnet == h.net2:
			v.Subnet = 2
		}
		st.Leases = append(st.Leases, v)
	}
	sort.Slice(st.Leases, func(i, j int) bool { return st.Leases[i].Key < st.Leases[j].Key })
	return st
}

// VerifAge moves the expiry of the lease of clientID into the past by d (as if d of real time had passed for it).
func (h *Handler) VerifAge(clientID []byte, d time.Duration) bool {
	h.Lock()
	defer h.Unlock()
	l := h.table[string(clientID)]
	if l == nil {
		return false
	}
	l.DHCPExpiry = l.DHCPExpiry.Add(-d)
	return true
}

// VerifAgeFile does on the lease file what VerifAge does in memory: the record of clientID (if the file holds one)
// gets its expiry moved into the past by d, as if the ACK that wrote it had happened d earlier.  Everything else in
// the file is kept; it is decoded and encoded with the record type saveConfig / loadByteArray use.
func (h *Handler) VerifAgeFile(clientID []byte, d time.Duration) bool {
	h.Lock()
	defer h.Unlock()
	if h.filename == "" {
		return false
	}
	source, err := os.ReadFile(h.filename)
	if err != nil {
		return false
	}
	table := struct {
		Net1   *SubnetConfig
		Net2   *SubnetConfig
		Leases []Lease
	}{}
	// an integrity line (`# sha256: <hex>`) is a YAML comment for the decoder; it is written again below when the
	// file had one (computed here, independently of the library, so that this file builds against any version)
	sealed := bytes.HasPrefix(source, []byte("# sha256: "))
	if err := yaml.Unmarshal(source, &table); err != nil {
		return false
	}
	found := false
	for i := range table.Leases {
		if bytes.Equal(table.Leases[i].ClientID, clientID) {
			table.Leases[i].DHCPExpiry = table.Leases[i].DHCPExpiry.Add(-d)
			found = true
		}
	}
	if !found {
		return false
	}
	stream, err := yaml.Marshal(&table)
	if err != nil {
		return false
	}
	if sealed {
		sum := sha256.Sum256(stream)
		stream = append([]byte("# sha256: "+hex.EncodeToString(sum[:])+"\n"), stream...)
	}
	return os.WriteFile(h.filename, stream, os.ModePerm) == nil
}

// VerifSave rewrites the lease file the way handleRequest does after an ACK.
func (h *Handler) VerifSave() error {
	h.Lock()
	defer h.Unlock()
	return h.saveConfig(h.filename)
}

// VerifFileLease is one lease record as decoded from the lease file by yaml.v2.
type VerifFileLease struct {
	CID    []byte
	CIDNil bool
	State  int
	MAC    []byte
	IP     netip.Addr
	Offer  netip.Addr
	XID    []byte
	Expiry time.Time
}

// VerifFile is what yaml.Unmarshal produced for a lease file (the input of the logic under test).
type VerifFile struct {
	Err       bool
	Net1      *SubnetConfig
	Net2      *SubnetConfig
	LeasesNil bool
	Leases    []VerifFileLease
}

// VerifDecode runs the same yaml.Unmarshal as loadByteArray into the same record type.
func VerifDecode(source []byte) VerifFile {
	table := struct {
		Net1   *SubnetConfig
		Net2   *SubnetConfig
		Leases []Lease
	}{}
	if err := yaml.Unmarshal(source, &table); err != nil {
		return VerifFile{Err: true}
	}
	out := VerifFile{Net1: table.Net1, Net2: table.Net2, LeasesNil: table.Leases == nil}
	for _, l := range table.Leases {
		out.Leases = append(out.Leases, VerifFileLease{CID: l.ClientID, CIDNil: l.ClientID == nil, State: int(l.State),
			MAC: l.Addr.MAC, IP: l.Addr.IP, Offer: l.IPOffer, XID: l.XID, Expiry: l.DHCPExpiry})
	}
	return out
}
