//go:build verif

package dhcp4_spoofer

import (
	"net"

	"github.com/irai/packet"
)

func VerifSendDHCP4Packet(conn net.PacketConn, srcAddr packet.Addr, dstAddr packet.Addr, p packet.DHCP4) error {
	return sendDHCP4Packet(conn, srcAddr, dstAddr, p)
}
