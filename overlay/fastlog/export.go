//go:build verif

package fastlog

import "net"

// Exports for the /verif correspondence harness (C20). Injected at build time with
// `go build -tags verif -overlay`; nothing here exists in /repo.

// VerifBufSize is the line buffer size.
const VerifBufSize = bufSize

// VerifNewLine returns a private line (not from the pool) whose buffer is filled with
// `fill` and whose write cursor is `start`.
func VerifNewLine(start int, fill byte) *Line {
	l := new(Line)
	for i := range l.buffer {
		l.buffer[i] = fill
	}
	l.index = start
	return l
}

// VerifFill overwrites the whole buffer of a line obtained from Logger.Msg after the
// position `from` (pool buffers carry stale text of earlier lines).
func (l *Line) VerifFill(from int, fill byte) {
	for i := from; i < len(l.buffer); i++ {
		l.buffer[i] = fill
	}
}

// VerifState returns the cursor and a copy of the whole buffer.
func (l *Line) VerifState() (int, []byte) {
	b := make([]byte, len(l.buffer))
	copy(b, l.buffer[:])
	return l.index, b
}

func (l *Line) VerifPrintInt(v uint32) *Line { return l.printInt(v) }
func (l *Line) VerifWriteHex(v byte) *Line   { l.writeHex(v); return l }
func (l *Line) VerifWriteHexNoLeadingZeros(v byte) *Line {
	l.writeHexNoleadingZeros(v)
	return l
}
func (l *Line) VerifAppendIP6(ip net.IP) *Line   { l.appendIP6(ip); return l }
func (l *Line) VerifAppendByte(v byte) *Line     { l.appendByte(v); return l }
func (l *Line) VerifNewModule(m, s string) *Line { return l.newModule(m, s) }
