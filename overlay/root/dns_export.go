//go:build verif

package packet

// Exports of the unexported DNS decoders / name-merge state for the /verif harness (C17, C08dns).
// Injected at build time with `go build -tags verif -overlay`; nothing here exists in /repo.

func VerifDecodeName(data []byte, offset int, buffer *[]byte, level int) ([]byte, int, error) {
	return decodeName(data, offset, buffer, level)
}

func VerifEncodeName(name []byte, data []byte, offset int) int { return encodeName(name, data, offset) }

func (e *DNSEntry) VerifDecodeRRs(count int, p DNS, offset int, buffer []byte) (int, bool, error) {
	return e.decodeRRs(count, p, offset, buffer)
}

// (VerifSetDirty is exported by tables_export.go)
