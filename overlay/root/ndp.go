//go:build verif

package packet

// Exports for the C08 (NDP share) / C14 correspondence harness.

func VerifNewParseOptions(b []byte) (NewOptions, error) { return newParseOptions(b) }

// VerifFrame builds a Frame over ether with the payload starting at off, as Parse would for that
// payload id (used to hand arbitrary payloads directly to a handler's ProcessPacket).
func (h *Session) VerifFrame(ether []byte, off int, id PayloadID) Frame {
	f := Frame{ether: ether, Session: h, PayloadID: id, offsetPayload: off}
	if len(ether) >= 14 {
		f.SrcAddr.MAC = Ether(ether).Src()
		f.DstAddr.MAC = Ether(ether).Dst()
	}
	return f
}
