//go:build verif

package packet

import (
	"net"
	"time"
)

// Exports for the /verif correspondence harness. Injected at build time with
// `go build -tags verif -overlay`; nothing here exists in /repo.

func VerifSetMonitorNICFrequency(d time.Duration) { monitorNICFrequency = d }

func (h *Session) VerifPurge(now time.Time) error { return h.purge(now) }

func (h *Session) VerifICMP4SendPacket(src Addr, dst Addr, p ICMP) error {
	return h.icmp4SendPacket(src, dst, p)
}

func (h *Session) VerifICMP6SendPacket(src Addr, dst Addr, b []byte) error {
	return h.icmp6SendPacket(src, dst, b)
}

func (h *Session) VerifArpRequest(dst net.HardwareAddr, sender Addr, target Addr) error {
	return h.arpRequest(dst, sender, target)
}
