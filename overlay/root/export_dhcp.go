//go:build verif

package packet

import (
	"net"
	"net/netip"
	"sort"
)

// Exports used by the DHCP step-mode harness (C11/C12/C18): the two session oracles the
// DHCP server consults (FindIP, IsCaptured) are dumped and driven directly.

// VerifSetHost makes the session track ip for mac (what Parse does for a new source address).
func (h *Session) VerifSetHost(ip netip.Addr, mac net.HardwareAddr) {
	h.findOrCreateHostWithLock(Addr{MAC: mac, IP: ip})
}

// VerifDeleteHost removes the host entry of ip (what purge does).
func (h *Session) VerifDeleteHost(ip netip.Addr) {
	h.mutex.Lock()
	h.deleteHost(ip)
	h.mutex.Unlock()
}

// VerifHosts returns every tracked (ip, mac) pair sorted by ip.
func (h *Session) VerifHosts() []Addr {
	h.mutex.RLock()
	defer h.mutex.RUnlock()
	out := make([]Addr, 0, len(h.HostTable.Table))
	for ip, host := range h.HostTable.Table {
		out = append(out, Addr{IP: ip, MAC: CopyMAC(host.MACEntry.MAC)})
	}
	sort.Slice(out, func(i, j int) bool { return out[i].IP.Less(out[j].IP) })
	return out
}

// VerifCaptured returns the MACs in capture mode, sorted.
func (h *Session) VerifCaptured() []net.HardwareAddr {
	h.mutex.RLock()
	defer h.mutex.RUnlock()
	out := []net.HardwareAddr{}
	for _, e := range h.MACTable.Table {
		if e.Captured {
			out = append(out, CopyMAC(e.MAC))
		}
	}
	sort.Slice(out, func(i, j int) bool { return string(out[i]) < string(out[j]) })
	return out
}

// VerifDHCP4ValidateOptions exposes the unexported option validation of DHCP4.IsValid.
func VerifDHCP4ValidateOptions(p DHCP4) error { return p.validateOptions() }
