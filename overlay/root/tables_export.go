//go:build verif

package packet

import "sync"

// Exports for the host/MAC table correspondence (C04, C05, C06). Injected at build time with
// `go build -tags verif -overlay`; nothing here exists in /repo.

// VerifDirty reads the unexported "notification pending" bit.
func (host *Host) VerifDirty() bool { return host.dirty }

// VerifSetDirty writes the unexported "notification pending" bit.
func (host *Host) VerifSetDirty(b bool) { host.dirty = b }

// VerifFlags returns the processing flags Parse left in the frame (0x01 = online transition).
func (frame Frame) VerifFlags() uint { return frame.flags }

// verifTimersStopped records the sessions whose closeChan was already closed by VerifStopTimers.
var verifTimersStopped sync.Map

// VerifStopTimers ends the two background goroutines NewSession starts (the minute loop that runs
// purge(time.Now()) and the NIC monitor that SIGTERMs the process when no IP packet was parsed for
// three minutes). The harness drives purge explicitly on a virtual clock; a wall-clock purge in the
// background would change the tables between two observations.
func (h *Session) VerifStopTimers() {
	if _, done := verifTimersStopped.LoadOrStore(h, true); !done {
		close(h.closeChan)
	}
}

// VerifStop ends the session's goroutines and closes the connection without the one second
// sleep of Close and without closing the notification channel.
func (h *Session) VerifStop() {
	h.mutex.Lock()
	if h.closed {
		h.mutex.Unlock()
		return
	}
	h.closed = true
	h.mutex.Unlock()
	h.VerifStopTimers()
	verifTimersStopped.Delete(h)
	h.Conn.Close()
}
