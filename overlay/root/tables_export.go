//go:build verif

package packet

// Exports for the host/MAC table correspondence (C04, C05, C06). Injected at build time with
// `go build -tags verif -overlay`; nothing here exists in /repo.

// VerifDirty reads the unexported "notification pending" bit.
func (host *Host) VerifDirty() bool { return host.dirty }

// VerifSetDirty writes the unexported "notification pending" bit.
func (host *Host) VerifSetDirty(b bool) { host.dirty = b }

// VerifFlags returns the processing flags Parse left in the frame (0x01 = online transition).
func (frame Frame) VerifFlags() uint { return frame.flags }

// VerifStop ends the session's goroutines and closes the connection without the one second
// sleep of Close and without closing the notification channel.
func (h *Session) VerifStop() {
	if h.closed {
		return
	}
	h.closed = true
	close(h.closeChan)
	h.Conn.Close()
}
