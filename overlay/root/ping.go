//go:build verif

package packet

import "sort"

// Exports for the C19 (ping) correspondence harness.

// VerifICMPTableIDs returns the identifiers currently registered in icmpTable (sorted) – one atomic
// observation under the table lock.
func VerifICMPTableIDs() []uint16 {
	icmpTable.Lock()
	ids := make([]uint16, 0, len(icmpTable.table))
	for k := range icmpTable.table {
		ids = append(ids, k)
	}
	icmpTable.Unlock()
	sort.Slice(ids, func(i, j int) bool { return ids[i] < ids[j] })
	return ids
}

func VerifICMPNextID() uint16 {
	icmpTable.Lock()
	defer icmpTable.Unlock()
	return icmpTable.id
}

// VerifICMPReset empties the table and sets the next identifier.
func VerifICMPReset(next uint16) {
	icmpTable.Lock()
	icmpTable.table = make(map[uint16]*icmpEntry)
	icmpTable.id = next
	icmpTable.Unlock()
}

// VerifICMPProbe registers a waiter for every id, runs f, and reports which waiters were completed
// (channel closed, msgRecv set, entry removed); the remaining probe entries are removed.
func VerifICMPProbe(ids []uint16, f func()) (notified []uint16) {
	ent := map[uint16]*icmpEntry{}
	icmpTable.Lock()
	for _, id := range ids {
		if _, dup := ent[id]; dup {
			continue
		}
		e := &icmpEntry{wakeup: make(chan bool)}
		ent[id] = e
		icmpTable.table[id] = e
	}
	icmpTable.Unlock()
	f()
	icmpTable.Lock()
	for id, e := range ent {
		closed := false
		select {
		case <-e.wakeup:
			closed = true
		default:
		}
		_, still := icmpTable.table[id]
		if closed && e.msgRecv && !still {
			notified = append(notified, id)
		} else if closed || e.msgRecv || !still {
			notified = append(notified, 0xffff) // inconsistent completion – never expected
		}
		delete(icmpTable.table, id)
	}
	icmpTable.Unlock()
	sort.Slice(notified, func(i, j int) bool { return notified[i] < notified[j] })
	return notified
}
