//go:build verif

package packet

import "sync"

// Exports for the schedule search (harness/sched): the harness holds a lock of the library to park an
// operation at its next acquisition of that lock.  Nothing here exists in /repo.

// VerifMutex returns the session mutex (guards HostTable.Table, MACTable.Table, closed).
func (h *Session) VerifMutex() *sync.RWMutex { return &h.mutex }

// VerifICMPTableMutex returns the mutex of the ping waiter table.
func VerifICMPTableMutex() sync.Locker { return &icmpTable.Mutex }
