//go:build verif

package arp_spoofer

import "sync"

// VerifMutex returns the handler mutex (hunt list, closed) for the schedule search (harness/sched).
func (h *Handler) VerifMutex() *sync.RWMutex { return &h.arpMutex }
