//go:build verif

package arp_spoofer

// Exports for the C08 handler-body harness (harness/c08hnd).

// VerifMuFree reports whether arpMutex is free (a call that returned must have released it).
func (h *Handler) VerifMuFree() bool {
	if !h.arpMutex.TryLock() {
		return false
	}
	h.arpMutex.Unlock()
	return true
}
