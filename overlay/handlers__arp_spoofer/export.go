//go:build verif

package arp_spoofer

import (
	"sort"

	"github.com/irai/packet"
)

// Exports for the C13 correspondence harness.

// VerifHuntList returns the hunt list sorted by MAC – one observation under the mutex.
func (h *Handler) VerifHuntList() []packet.Addr {
	h.arpMutex.Lock()
	defer h.arpMutex.Unlock()
	out := make([]packet.Addr, 0, len(h.huntList))
	for _, v := range h.huntList {
		out = append(out, v)
	}
	sort.Slice(out, func(i, j int) bool { return string(out[i].MAC) < string(out[j].MAC) })
	return out
}

// VerifSetHunt replaces the hunt list without starting spoof loops (function-mode probes of ProcessPacket).
func (h *Handler) VerifSetHunt(addrs []packet.Addr) {
	h.arpMutex.Lock()
	defer h.arpMutex.Unlock()
	h.huntList = make(map[string]packet.Addr, len(addrs))
	for _, a := range addrs {
		h.huntList[string(a.MAC)] = a
	}
}
