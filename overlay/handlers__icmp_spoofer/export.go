//go:build verif

package icmp_spoofer

import (
	"net"
	"net/netip"
	"sort"
)

// Exports for the C14 / C08 (NDP share) correspondence harness.

// VerifSetRepeat sets the process-global RA throttle counter.
func VerifSetRepeat(v int) { repeat = v }
func VerifRepeat() int     { return repeat }

func (h *Handler6) VerifHuntLen() int {
	h.Lock()
	defer h.Unlock()
	return h.huntList.Len()
}

func (h *Handler6) VerifHunted(mac net.HardwareAddr) bool {
	h.Lock()
	defer h.Unlock()
	return h.huntList.Index(mac) != -1
}

// VerifRouters returns the learned routers sorted by address, and the address of the default router.
func (h *Handler6) VerifRouters() (list []Router, def netip.Addr) {
	h.Lock()
	defer h.Unlock()
	for _, r := range h.LANRouters {
		list = append(list, *r)
	}
	sort.Slice(list, func(i, j int) bool { return list[i].Addr.IP.Less(list[j].Addr.IP) })
	if h.Router != nil {
		def = h.Router.Addr.IP
	}
	return
}

func (h *Handler6) VerifClosed() bool { h.Lock(); defer h.Unlock(); return h.closed }
