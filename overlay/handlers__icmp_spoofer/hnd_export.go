//go:build verif

package icmp_spoofer

import "github.com/irai/packet"

// Exports for the C08 handler-body harness (harness/c08hnd).

// VerifSetHunt replaces the hunt list without starting spoof loops (function-mode probes of ProcessPacket).
func (h *Handler6) VerifSetHunt(addrs []packet.Addr) {
	h.Lock()
	defer h.Unlock()
	h.huntList = packet.AddrList{}
	for _, a := range addrs {
		h.huntList.Add(a)
	}
}

// VerifCloseChan returns the channel closeChan currently refers to.
func (h *Handler6) VerifCloseChan() chan bool {
	h.Lock()
	defer h.Unlock()
	return h.closeChan
}
