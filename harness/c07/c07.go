// Package c07: every library send path → frame captured on the recording connection →
// (tie) the Lean model of the send path must reproduce the bytes, (oracle) the Lean reference
// wire decoder Spec.Wire must accept the frame as a complete packet of the intended protocol with
// the requested fields, host MAC as Ethernet source, verifying checksums.
package c07

import (
	"bytes"
	"fmt"
	"net"
	"net/netip"
	"os"
	"sort"
	"strconv"
	"strings"
	"time"

	"github.com/irai/packet"
	"github.com/irai/packet/fastlog"
	arp "github.com/irai/packet/handlers/arp_spoofer"
	dhcp "github.com/irai/packet/handlers/dhcp4_spoofer"
	dns "github.com/irai/packet/handlers/dns_naming"
	icmp "github.com/irai/packet/handlers/icmp_spoofer"
	"golang.org/x/net/dns/dnsmessage"
	"verif/harness/c10"
	"verif/harness/core"
	"verif/harness/frames"
	"verif/harness/sess"
)

type env struct {
	s    *packet.Session
	conn *sess.RecConn
	arp  *arp.Handler
	dns  *dns.DNSHandler
	nic  *packet.NICInfo
}

var envs = map[int]*env{}

func nicN(n int) *packet.NICInfo {
	nic := sess.DefaultNIC()
	switch n {
	case 1: // /16 LAN, different MACs
		nic.HostAddr4 = packet.Addr{MAC: net.HardwareAddr{0x02, 0xaa, 0xbb, 0xcc, 0xdd, 0xee}, IP: netip.MustParseAddr("10.1.200.3")}
		nic.RouterAddr4 = packet.Addr{MAC: net.HardwareAddr{0x02, 0x11, 0x22, 0x33, 0x44, 0x55}, IP: netip.MustParseAddr("10.1.0.1")}
		nic.HomeLAN4 = netip.MustParsePrefix("10.1.0.0/16")
		nic.HostLLA = netip.MustParsePrefix("fe80::2aa:bbff:fecc:ddee/64")
	case 2: // /25, no IPv6 LLA
		nic.HostAddr4 = packet.Addr{MAC: net.HardwareAddr{0xf0, 0x18, 0x98, 0x01, 0x02, 0x03}, IP: netip.MustParseAddr("192.168.1.130")}
		nic.RouterAddr4 = packet.Addr{MAC: net.HardwareAddr{0x02, 0, 0, 0, 0, 0x11}, IP: netip.MustParseAddr("192.168.1.129")}
		nic.HomeLAN4 = netip.MustParsePrefix("192.168.1.128/25")
		nic.HostLLA = netip.Prefix{}
	}
	nic.IFI = &net.Interface{MTU: 1500, Name: "verif0"}
	return nic
}

func envN(n int) *env {
	if e, ok := envs[n]; ok {
		return e
	}
	nic := nicN(n)
	s, conn := sess.New(nic)
	a, err := arp.New(s)
	if err != nil {
		panic(err)
	}
	e := &env{s: s, conn: conn, arp: a, dns: dns.VerifNewC07(s), nic: nic}
	envs[n] = e
	return e
}

// poisonPool fills the library's buffer pool with a known byte so that unwritten bytes show up.
func poisonPool(b byte) {
	bufs := make([]*[packet.EthMaxSize]byte, 0, 4)
	for i := 0; i < 4; i++ {
		buf := packet.EtherBufferPool.Get().(*[packet.EthMaxSize]byte)
		for j := range buf {
			buf[j] = b
		}
		bufs = append(bufs, buf)
	}
	for _, buf := range bufs {
		packet.EtherBufferPool.Put(buf)
	}
}

func ipOf(h string) netip.Addr {
	b := core.UnHex(h)
	switch len(b) {
	case 4:
		return netip.AddrFrom4(*(*[4]byte)(b))
	case 16:
		return netip.AddrFrom16(*(*[16]byte)(b))
	}
	return netip.Addr{}
}

func macOf(h string) net.HardwareAddr {
	b := core.UnHex(h)
	if b == nil {
		return nil
	}
	return net.HardwareAddr(b)
}

func hx(b []byte) string { return core.Hex(b) }

// capture runs f with a poisoned pool and returns the single frame written.
func capture(e *env, poison byte, f func() error) (string, []byte) {
	e.conn.Take()
	poisonPool(poison)
	var err error
	r := core.Safely(func() string { err = f(); return "ok" })
	fr := e.conn.Take()
	if r != "ok" {
		return "panic", nil
	}
	if err != nil {
		return "err " + errName(err), nil
	}
	if len(fr) != 1 {
		return fmt.Sprintf("frames=%d", len(fr)), nil
	}
	return "ok " + hx(fr[0]), fr[0]
}

func errName(err error) string {
	switch {
	case err == nil:
		return "-"
	case strings.Contains(err.Error(), packet.ErrPayloadTooBig.Error()):
		return "ErrPayloadTooBig"
	case strings.Contains(err.Error(), packet.ErrInvalidIP.Error()):
		return "ErrInvalidIP"
	}
	return "other"
}

// noFrame: the send function returned an error / emitted nothing (allowed: nothing was transmitted).
func noFrame(kind, impl string) []*core.Case {
	return []*core.Case{{Line: "noframe " + kind, Impl: impl, Class: "noframe-" + kind, Trivial: true,
		Cmp: func(a, b string) bool { return true },
		Oracle: func() (string, string) {
			if impl == "panic" {
				return kind + ": send function panicked", ""
			}
			return "", ""
		}}}
}

// wfCase is an oracle-only case: Spec.Wire must say "ok" about the implementation's frame.
func wfCase(line string, what string) *core.Case {
	return &core.Case{Line: line, Impl: "ok", Cmp: func(a, b string) bool { return true },
		OracleR: func(reply string) (string, string) {
			if reply != "ok" {
				return what + ": reference decoder rejects the transmitted frame: " + reply, ""
			}
			return "", ""
		}}
}

// Eval — protocol lines (first field selects the real send function; env index selects the NIC configuration)
//
//	call <env> <poison> arpraw|arpreply <dst> <smac> <sip> <tmac> <tip>
//	call <env> <poison> arprequest|arpprobe <ip> | arpannounce <dst> <ip> | sarp <dst> <smac> <sip> <tmac> <tip>
//	call <env> <poison> echo4 <smac> <sip> <dmac> <dip> <id> <seq> | echo6 …
//	call <env> <poison> na <smac> <sip> <dmac> <dip> <tmac> <tip> | ns <smac> <sip> <dmac> <dip> <target>
//	call <env> <poison> rs | ra <prefixhex/len> <dmac> <dip>
//	call <env> <poison> dhcpsend <smac> <sip> <sp> <dmac> <dip> <dp> <payload>
//	call <env> <poison> mdnsq <name> | llmnrq <name> | nbnsq <smac> <sip> <dmac> <dip> <name> | nbnsstatus | ssdp
//	call <env> <poison> mdns6 <sip> <dmac> <dip> <port> <payload> | mdns4 …
//
// Each call yields two cases: the tie (`send …` line, model must reproduce the frame) and the oracle (`wf …` line).
func Eval(c *core.Ctx, line string) *core.Case {
	cs := EvalAll(c, line)
	if len(cs) == 0 {
		return nil
	}
	for _, x := range cs[1:] {
		c.Add(*x)
	}
	return cs[0]
}

func EvalAll(c *core.Ctx, line string) []*core.Case {
	f := strings.Fields(line)
	if len(f) == 2 && f[0] == "probe.scn" {
		return evalProbeScenario(c, line, f[1])
	}
	if len(f) < 4 || f[0] != "call" {
		return nil
	}
	// the send paths run with the library's loggers at debug level for lines of even length and at the default level
	// for the others (a function of the line: a replay reproduces it).  A frame must not depend on the log level; at
	// debug level the statements inside `if Logger.IsDebug() { … }` run as well.
	lvl := fastlog.LevelInfo
	if len(line)%2 == 0 {
		lvl = fastlog.LevelDebug
	}
	for _, l := range []*fastlog.Logger{packet.Logger, arp.Logger, dhcp.Logger, dns.Logger, icmp.Logger4, icmp.Logger6} {
		l.SetLevel(lvl)
	}
	n, err := strconv.Atoi(f[1])
	pb := core.UnHex(f[2])
	if err != nil || n < 0 || n > 2 || len(pb) != 1 {
		return nil
	}
	e := envN(n)
	poison := pb[0]
	hostMAC := hx(e.nic.HostAddr4.MAC)
	kind, a := f[3], f[4:]
	mk := func(sendLine string, impl string, wfLine string, what string) []*core.Case {
		out := []*core.Case{{Line: sendLine, Impl: impl, Class: "send-" + kind}}
		if strings.HasPrefix(impl, "ok ") && wfLine != "" {
			w := wfCase(wfLine+" "+impl[3:], what)
			w.Class = "wf-" + kind
			out = append(out, w)
		}
		return out
	}
	arpLike := func(op int, dst, smac, sip, tmac, tip string, call func() error) []*core.Case {
		impl, _ := capture(e, poison, call)
		return mk(fmt.Sprintf("send arp %s %s %s %d %s %s %s %s", f[2], hostMAC, dst, op, smac, sip, tmac, tip), impl,
			fmt.Sprintf("wf arp %s %s %d %s %s %s %s", hostMAC, dst, op, smac, sip, tmac, tip), "ARP "+kind)
	}
	bc := "ffffffffffff"
	hostIP := hx(e.nic.HostAddr4.IP.AsSlice())
	switch kind {
	case "arpraw", "arpreply":
		if len(a) != 5 {
			return nil
		}
		op := 1
		call := func() error {
			return e.arp.RequestRaw(macOf(a[0]), packet.Addr{MAC: macOf(a[1]), IP: ipOf(a[2])}, packet.Addr{MAC: macOf(a[3]), IP: ipOf(a[4])})
		}
		if kind == "arpreply" {
			op = 2
			call = func() error {
				return e.arp.Reply(macOf(a[0]), packet.Addr{MAC: macOf(a[1]), IP: ipOf(a[2])}, packet.Addr{MAC: macOf(a[3]), IP: ipOf(a[4])})
			}
		}
		return arpLike(op, a[0], a[1], a[2], a[3], a[4], call)
	case "arprequest":
		return arpLike(1, bc, hostMAC, hostIP, bc, a[0], func() error { return e.arp.Request(ipOf(a[0])) })
	case "arpprobe":
		return arpLike(1, bc, hostMAC, "00000000", "000000000000", a[0], func() error { return e.arp.Probe(ipOf(a[0])) })
	case "arpannounce":
		return arpLike(1, a[0], hostMAC, a[1], bc, a[1], func() error { return e.arp.AnnounceTo(macOf(a[0]), ipOf(a[1])) })
	case "sarp":
		if len(a) != 5 {
			return nil
		}
		impl, _ := capture(e, poison, func() error {
			return e.s.VerifArpRequest(macOf(a[0]), packet.Addr{MAC: macOf(a[1]), IP: ipOf(a[2])}, packet.Addr{MAC: macOf(a[3]), IP: ipOf(a[4])})
		})
		return mk(fmt.Sprintf("send sarp %s %s %s %s %s %s %s", f[2], hostMAC, a[0], a[1], a[2], a[3], a[4]), impl,
			fmt.Sprintf("wf arp %s %s 1 %s %s %s %s", hostMAC, a[0], a[1], a[2], a[3], a[4]), "Session.arpRequest")
	case "echo4", "echo6":
		if len(a) != 6 {
			return nil
		}
		id, _ := strconv.Atoi(a[4])
		seq, _ := strconv.Atoi(a[5])
		src := packet.Addr{MAC: macOf(a[0]), IP: ipOf(a[1])}
		dst := packet.Addr{MAC: macOf(a[2]), IP: ipOf(a[3])}
		hello := []byte("HELLO-NETFILTER")
		if kind == "echo4" {
			impl, _ := capture(e, poison, func() error { return e.s.ICMP4SendEchoRequest(src, dst, uint16(id), uint16(seq)) })
			msg := append([]byte{8, 0, 0, 0, byte(id >> 8), byte(id), byte(seq >> 8), byte(seq)}, hello...)
			return mk(fmt.Sprintf("send icmp4 %s %s %s %s %s %s", f[2], hostMAC, a[2], a[1], a[3], hx(msg)), impl,
				fmt.Sprintf("wf icmp4 %s %s %s %s %s", hostMAC, a[2], a[1], a[3], hx(msg)), "ICMP4SendEchoRequest")
		}
		impl, _ := capture(e, poison, func() error { return e.s.ICMP6SendEchoRequest(src, dst, uint16(id), uint16(seq)) })
		msg := append([]byte{128, 0, 0, 0, byte(id >> 8), byte(id), byte(seq >> 8), byte(seq)}, hello...)
		return mk(fmt.Sprintf("send icmp6 %s %s %s %s %s %s", f[2], hostMAC, a[2], a[1], a[3], hx(msg)), impl,
			fmt.Sprintf("wf icmp6 %s %s %s %s %s", hostMAC, a[2], a[1], a[3], hx(msg)), "ICMP6SendEchoRequest")
	case "na":
		if len(a) != 6 {
			return nil
		}
		src := packet.Addr{MAC: macOf(a[0]), IP: ipOf(a[1])}
		dst := packet.Addr{MAC: macOf(a[2]), IP: ipOf(a[3])}
		tgt := packet.Addr{MAC: macOf(a[4]), IP: ipOf(a[5])}
		impl, _ := capture(e, poison, func() error { return e.s.ICMP6SendNeighborAdvertisement(src, dst, tgt) })
		// intended message (RFC 4861 4.4): type 136, override flag, target address, target LLA option
		msg := append([]byte{136, 0, 0, 0, 0x20, 0, 0, 0}, core.UnHex(a[5])...)
		msg = append(append(msg, 2, 1), core.UnHex(a[4])...)
		return mk(fmt.Sprintf("send icmp6 %s %s %s %s %s %s", f[2], hostMAC, a[2], a[1], a[3], hx(msg)), impl,
			fmt.Sprintf("wf icmp6 %s %s %s %s %s", hostMAC, a[2], a[1], a[3], hx(msg)), "ICMP6SendNeighborAdvertisement")
	case "ns":
		if len(a) != 5 {
			return nil
		}
		src := packet.Addr{MAC: macOf(a[0]), IP: ipOf(a[1])}
		dst := packet.Addr{MAC: macOf(a[2]), IP: ipOf(a[3])}
		impl, _ := capture(e, poison, func() error { return e.s.ICMP6SendNeighbourSolicitation(src, dst, ipOf(a[4])) })
		// RFC 4861 4.3: type 135, target address, source LLA option (type 1) = our MAC
		msg := append([]byte{135, 0, 0, 0, 0, 0, 0, 0}, core.UnHex(a[4])...)
		msg = append(append(msg, 1, 1), e.nic.HostAddr4.MAC...)
		return mk(fmt.Sprintf("send icmp6 %s %s %s %s %s %s", f[2], hostMAC, a[2], a[1], a[3], hx(msg)), impl,
			fmt.Sprintf("wf icmp6 %s %s %s %s %s", hostMAC, a[2], a[1], a[3], hx(msg)), "ICMP6SendNeighbourSolicitation")
	case "rs":
		impl, fr := capture(e, poison, func() error { return e.s.ICMP6SendRouterSolicitation() })
		// RFC 4861 4.1: type 133, 4 reserved bytes, source LLA option; to all-routers ff02::2 / 33:33:00:00:00:02
		msg := append([]byte{133, 0, 0, 0, 0, 0, 0, 0, 1, 1}, e.nic.HostAddr4.MAC...)
		lla := hx(e.nic.HostLLA.Addr().AsSlice())
		sendMsg := msg
		if fr != nil && len(fr) > 54 {
			sendMsg = append([]byte{}, fr[54:]...) // tie: framing of whatever message the marshal produced
			sendMsg[2], sendMsg[3] = 0, 0
		}
		return mk(fmt.Sprintf("send icmp6 %s %s 333300000002 %s ff020000000000000000000000000002 %s", f[2], hostMAC, lla, hx(sendMsg)), impl,
			fmt.Sprintf("wf icmp6 %s 333300000002 %s ff020000000000000000000000000002 %s", hostMAC, lla, hx(msg)), "ICMP6SendRouterSolicitation")
	case "ra":
		if len(a) != 3 {
			return nil
		}
		var prefixes []packet.PrefixInformation
		for _, one := range strings.Split(a[0], ",") {
			pf := strings.Split(one, "/")
			if len(pf) != 2 {
				return nil
			}
			bits, _ := strconv.Atoi(pf[1])
			prefixes = append(prefixes, packet.PrefixInformation{Prefix: net.IP(core.UnHex(pf[0])), PrefixLength: uint8(bits)})
		}
		dst := packet.Addr{MAC: macOf(a[1]), IP: ipOf(a[2])}
		impl, fr := capture(e, poison, func() error { return e.s.ICMP6SendRouterAdvertisement(prefixes, nil, dst) })
		lla := hx(e.nic.HostLLA.Addr().AsSlice())
		if fr == nil || len(fr) < 54+16 {
			return noFrame(kind, impl)
		}
		sendMsg := append([]byte{}, fr[54:]...)
		sendMsg[2], sendMsg[3] = 0, 0
		out := mk(fmt.Sprintf("send icmp6 %s %s %s %s %s %s", f[2], hostMAC, a[1], lla, a[2], hx(sendMsg)), impl,
			fmt.Sprintf("wf icmp6 %s %s %s %s %s", hostMAC, a[1], lla, a[2], hx(sendMsg)), "ICMP6SendRouterAdvertisement")
		// intended protocol: a router advertisement (type 134) advertising the requested prefix
		out[0].Oracle = func() (string, string) {
			m := packet.ICMP6RouterAdvertisement(fr[54:])
			if m.IsValid() != nil || m.Type() != 134 {
				return fmt.Sprintf("ICMP6SendRouterAdvertisement emitted ICMPv6 type %d, not a router advertisement (134)", fr[54]), ""
			}
			// the advertised prefixes must be the requested ones, in order (independent option walk: type 3, 32 bytes)
			var got []string
			for o := fr[54+16:]; len(o) >= 2 && o[1] != 0 && len(o) >= int(o[1])*8; o = o[int(o[1])*8:] {
				if o[0] == 3 && o[1] == 4 {
					got = append(got, fmt.Sprintf("%s/%d", hx(o[16:32]), o[2]))
				}
			}
			if want := strings.Split(a[0], ","); strings.Join(got, ",") != strings.Join(want, ",") {
				return fmt.Sprintf("router advertisement carries prefixes %v, requested %v", got, want), ""
			}
			return "", ""
		}
		return out
	case "dhcpsend":
		if len(a) != 7 {
			return nil
		}
		sp, _ := strconv.Atoi(a[2])
		dp, _ := strconv.Atoi(a[5])
		src := packet.Addr{MAC: macOf(a[0]), IP: ipOf(a[1]), Port: uint16(sp)}
		dst := packet.Addr{MAC: macOf(a[3]), IP: ipOf(a[4]), Port: uint16(dp)}
		pl := core.UnHex(a[6])
		impl, _ := capture(e, poison, func() error { return dhcp.VerifSendDHCP4Packet(e.conn, src, dst, pl) })
		// sendDHCP4Packet uses srcAddr.MAC as Ethernet source: every caller passes the host address
		return mk(fmt.Sprintf("send udp4 %s %s %s 50 %s %s %d %d %s", f[2], a[0], a[3], a[1], a[4], sp, dp, a[6]), impl,
			fmt.Sprintf("wf udp4 %s %s %s %s %d %d %s", a[0], a[3], a[1], a[4], sp, dp, a[6]), "sendDHCP4Packet")
	case "mdnsq", "llmnrq":
		if len(a) != 1 {
			return nil
		}
		name := string(core.UnHex(a[0]))
		dip, port := "e00000fb", 5353
		call := func() error { return e.dns.SendMDNSQuery(name) }
		if kind == "llmnrq" {
			dip, port = "e00000fc", 5355 // RFC 4795: 224.0.0.252
			call = func() error { return e.dns.SendLLMNRQuery(name) }
		}
		impl, fr := capture(e, 0, call)
		if fr == nil || len(fr) < 42 {
			return noFrame(kind, impl)
		}
		pl := hx(fr[42:])
		out := mk(fmt.Sprintf("send udp4 00 %s %s 255 %s %s %d %d %s", hostMAC, hx(fr[0:6]), hostIP, hx(fr[30:34]), port, port, pl), impl,
			fmt.Sprintf("wf udp4 %s %s %s %s %d %d %s", hostMAC, hx(fr[0:6]), hostIP, dip, port, port, pl), kind)
		out[0].Oracle = func() (string, string) {
			var p dnsmessage.Parser
			if _, err := p.Start(fr[42:]); err != nil {
				return kind + ": payload is not a DNS message: " + err.Error(), ""
			}
			q, err := p.Question()
			if err != nil || strings.TrimSuffix(q.Name.String(), ".") != strings.TrimSuffix(name, ".") {
				return kind + ": payload does not carry a question for the requested name", ""
			}
			return "", ""
		}
		return out
	case "nbnsq":
		if len(a) != 5 {
			return nil
		}
		src := packet.Addr{MAC: macOf(a[0]), IP: ipOf(a[1])}
		dst := packet.Addr{MAC: macOf(a[2]), IP: ipOf(a[3])}
		impl, fr := capture(e, poison, func() error { return e.dns.SendNBNSQuery(src, dst, string(core.UnHex(a[4]))) })
		if fr == nil || len(fr) < 42 {
			return noFrame(kind, impl)
		}
		pl := hx(fr[42:])
		return mk(fmt.Sprintf("send udp4 %s %s %s 255 %s %s 137 137 %s", f[2], a[0], a[2], a[1], a[3], pl), impl,
			fmt.Sprintf("wf udp4 %s %s %s %s 137 137 %s", a[0], a[2], a[1], a[3], pl), "SendNBNSQuery")
	case "nbnsstatus", "ssdp":
		call := func() error { return e.dns.SendNBNSNodeStatus() }
		dip, dmac, port := "ffffffff", bc, 137
		if kind == "ssdp" {
			call = func() error { return e.dns.SendSSDPSearch() }
			dip, port = "effffffa", 1900
		}
		impl, fr := capture(e, poison, call)
		if fr == nil || len(fr) < 42 {
			return noFrame(kind, impl)
		}
		pl := hx(fr[42:])
		return mk(fmt.Sprintf("send udp4 %s %s %s 255 %s %s %d %d %s", f[2], hostMAC, hx(fr[0:6]), hostIP, hx(fr[30:34]), port, port, pl), impl,
			fmt.Sprintf("wf udp4 %s %s %s %s %d %d %s", hostMAC, dmac, hostIP, dip, port, port, pl), kind)
	case "mdns4", "mdns6":
		if len(a) != 5 {
			return nil
		}
		port, _ := strconv.Atoi(a[3])
		src := packet.Addr{MAC: e.nic.HostAddr4.MAC, IP: ipOf(a[0])}
		dst := packet.Addr{MAC: macOf(a[1]), IP: ipOf(a[2]), Port: uint16(port)}
		pl := core.UnHex(a[4])
		impl, _ := capture(e, 0, func() error { return e.dns.VerifSendMDNS(pl, src, dst) })
		k := "udp4"
		if kind == "mdns6" {
			k = "udp6"
		}
		return mk(fmt.Sprintf("send %s 00 %s %s 255 %s %s %d %d %s", k, hostMAC, a[1], a[0], a[2], port, port, a[4]), impl,
			fmt.Sprintf("wf %s %s %s %s %s %d %d %s", k, hostMAC, a[1], a[0], a[2], port, port, a[4]), "sendMDNS")
	}
	return nil
}

// ---------------------------------------------------------------------------------------------

func add(c *core.Ctx, line string) {
	for _, cs := range EvalAll(c, line) {
		c.Add(*cs)
	}
}

func Gen(c *core.Ctx) {
	c.Res.Rule = "every exported / exported-through-overlay send function (ARP raw/reply/request/probe/announce, Session.arpRequest, ICMPv4/v6 echo, NA, NS, RS, RA, sendDHCP4Packet, mDNS/LLMNR/NBNS queries, NBNS node status, SSDP search, sendMDNS v4/v6) called with generated MAC/IP/port/id/payload values on three NIC configurations with a poisoned buffer pool; per call one tie case (model must reproduce the frame) and one oracle case (Spec.Wire must accept it). distinct = distinct protocol lines"
	for _, l := range c.CorpusLines() {
		add(c, l)
	}
	r := c.Rnd
	mac := func() string {
		m := c.RandBytes(6)
		m[0] &^= 1
		return hx(m)
	}
	ip4 := func() string { return hx(c.RandBytes(4)) }
	lla := func() string { return hx(append([]byte{0xfe, 0x80, 0, 0, 0, 0, 0, 0}, c.RandBytes(8)...)) }
	gua := func() string { return hx(append([]byte{0x20, 0x01}, c.RandBytes(14)...)) }
	ip6 := func() string {
		switch r.Intn(4) {
		case 0:
			return lla()
		case 1:
			return gua()
		case 2:
			return "ff02000000000000000000000000000" + strconv.Itoa(1+r.Intn(2))
		}
		return hx(c.RandBytes(16))
	}
	mcastMAC := func(ip string) string {
		b := core.UnHex(ip)
		if b[0] == 0xff {
			return "3333" + hx(b[12:])
		}
		return mac()
	}
	// checksum carry patterns: sequence numbers for which the 32-bit word sum of the echo request folds to
	// more than 16 bits once (the second end-around carry matters), found by brute force over all 65536
	// values with the harness's own arithmetic, plus their neighbours and a random sample
	{
		m1, m2, ip1, ip2, id := mac(), mac(), ip4(), ip4(), r.Intn(65536)
		hello := []byte("HELLO-NETFILTER")
		picked := map[int]bool{}
		for seq := 0; seq < 65536; seq++ {
			msg := append([]byte{8, 0, 0, 0, byte(id >> 8), byte(id), byte(seq >> 8), byte(seq)}, hello...)
			var sum uint32
			for i := 0; i+1 < len(msg); i += 2 {
				sum += uint32(msg[i+1])<<8 | uint32(msg[i])
			}
			if len(msg)%2 == 1 {
				sum += uint32(msg[len(msg)-1])
			}
			if f := (sum >> 16) + (sum & 0xffff); f >= 0xffff {
				picked[seq], picked[(seq+1)%65536], picked[(seq+65535)%65536] = true, true, true
			}
		}
		for k := 0; k < c.Scale(300, 20000); k++ {
			picked[r.Intn(65536)] = true
		}
		seqs := make([]int, 0, len(picked))
		for q := range picked {
			seqs = append(seqs, q)
		}
		sort.Ints(seqs)
		for _, seq := range seqs {
			add(c, fmt.Sprintf("call 0 5a echo4 %s %s %s %s %d %d", m1, ip1, m2, ip2, id, seq))
		}
	}
	N := c.Scale(120, 4000)
	for i := 0; i < N; i++ {
		en := r.Intn(3)
		po := hx([]byte{byte(r.Intn(256))})
		pre := fmt.Sprintf("call %d %s ", en, po)
		add(c, pre+fmt.Sprintf("arpraw %s %s %s %s %s", mac(), mac(), ip4(), mac(), ip4()))
		add(c, pre+fmt.Sprintf("arpreply %s %s %s %s %s", mac(), mac(), ip4(), mac(), ip4()))
		add(c, pre+"arprequest "+ip4())
		add(c, pre+"arpprobe "+ip4())
		add(c, pre+fmt.Sprintf("arpannounce %s %s", []string{"ffffffffffff", mac()}[r.Intn(2)], ip4()))
		add(c, pre+fmt.Sprintf("sarp %s %s %s %s %s", "ffffffffffff", mac(), ip4(), "ffffffffffff", ip4()))
		add(c, pre+fmt.Sprintf("echo4 %s %s %s %s %d %d", mac(), ip4(), mac(), ip4(), r.Intn(65536), r.Intn(65536)))
		d6 := ip6()
		add(c, pre+fmt.Sprintf("echo6 %s %s %s %s %d %d", mac(), ip6(), mcastMAC(d6), d6, r.Intn(65536), r.Intn(65536)))
		d6 = ip6()
		add(c, pre+fmt.Sprintf("na %s %s %s %s %s %s", mac(), lla(), mcastMAC(d6), d6, mac(), ip6()))
		d6 = ip6()
		add(c, pre+fmt.Sprintf("ns %s %s %s %s %s", mac(), lla(), mcastMAC(d6), d6, ip6()))
		if en != 2 {
			add(c, pre+"rs")
			var pfs []string
			for k := 1 + r.Intn(12)*r.Intn(2); k > 0; k-- { // 1..12 prefixes: messages beyond 255 bytes too
				pfs = append(pfs, fmt.Sprintf("%s/%d", hx(append([]byte{0x20, 0x01, 0x0d, 0xb8}, append(c.RandBytes(4), make([]byte, 8)...)...)), 64))
			}
			add(c, pre+fmt.Sprintf("ra %s 333300000001 ff020000000000000000000000000001", strings.Join(pfs, ",")))
		}
		pl := c.RandBytes(r.Intn(400))
		if i%40 == 0 {
			pl = c.RandBytes(1460 + r.Intn(40)) // around the capacity limit
		}
		add(c, pre+fmt.Sprintf("dhcpsend %s %s %d %s %s %d %s", mac(), ip4(), []int{67, 68}[r.Intn(2)], mac(), ip4(), []int{67, 68}[r.Intn(2)], hx(pl)))
		name := []string{"printer.local.", "MY-PC.", "a.", "host-" + strconv.Itoa(r.Intn(1000)) + ".local.", "no-trailing-dot.local"}[r.Intn(5)]
		add(c, "call "+strconv.Itoa(en)+" 00 mdnsq "+hx([]byte(name)))
		add(c, "call "+strconv.Itoa(en)+" 00 llmnrq "+hx([]byte(name)))
		add(c, pre+fmt.Sprintf("nbnsq %s %s %s %s %s", mac(), ip4(), mac(), ip4(), hx([]byte("WORKSTATION1    "))))
		add(c, pre+"nbnsstatus")
		add(c, pre+"ssdp")
		add(c, fmt.Sprintf("call %d 00 mdns4 %s %s %s %d %s", en, ip4(), mac(), ip4(), 5353, hx(c.RandBytes(12+r.Intn(100)))))
		d6 = ip6()
		add(c, fmt.Sprintf("call %d 00 mdns6 %s %s %s %d %s", en, lla(), mcastMAC(d6), d6, 5353, hx(c.RandBytes(12+r.Intn(100)))))
	}
}

// genHistory drives a packet history through Session.Parse, the ARP / ICMPv6 / DHCPv4 handlers, purge probes
// and a hunt start/stop, and submits every frame the library wrote to the reference decoder.
func genHistory(c *core.Ctx, seed int64, n int) {
	s, conn := sess.New(nil)
	ah, _ := arp.New(s)
	h6, _ := icmp.New6(s)
	lease := fmt.Sprintf("%s/build/c07-lease-%d.yml", os.Getenv("VERIF_DIR"), os.Getpid())
	defer os.Remove(lease)
	dhcpd, err := dhcp.Config{Mode: dhcp.ModePrimaryServer, NetfilterIP: netip.MustParsePrefix("192.168.0.129/25"), DNSServer: netip.MustParseAddr("8.8.8.8"), LeaseFilename: lease}.New(s)
	if err != nil {
		return
	}
	total := 0
	flush := func(what string) {
		for _, f := range conn.Take() {
			total++
			c.Add(core.FrameCase(what, sess.HostMAC, f))
		}
	}
	for k, pkt := range c10.History(seed, n) {
		buf := append([]byte{}, pkt...)
		core.Safely(func() string {
			frame, err := s.Parse(buf)
			if err != nil {
				return ""
			}
			switch frame.PayloadID {
			case packet.PayloadARP:
				ah.ProcessPacket(frame)
			case packet.PayloadICMP6:
				h6.ProcessPacket(frame)
			case packet.PayloadDHCP4:
				dhcpd.ProcessPacket(frame)
			}
			s.Notify(frame)
			return ""
		})
		flush("frame emitted while processing a received packet")
		if k%40 == 17 { // probes of silent hosts: ARP who-is, NS, echo6
			s.VerifPurge(time.Now().Add(3 * time.Minute))
			time.Sleep(20 * time.Millisecond)
			flush("purge probe")
		}
		if k%50 == 23 {
			for _, h := range s.GetHosts() {
				if h.Addr.IP.Is4() && !bytes.Equal(h.Addr.MAC, sess.HostMAC) && !bytes.Equal(h.Addr.MAC, sess.RouterMAC) {
					ah.StartHunt(h.Addr)
					time.Sleep(30 * time.Millisecond)
					ah.StopHunt(h.Addr)
					break
				}
			}
			time.Sleep(30 * time.Millisecond)
			flush("ARP hunt start/stop")
		}
	}
	ah.Close()
	h6.Close()
	c.Res.Extra["history_frames"] = total
}

// probe.scn <k>: the probes purge sends to silent hosts, per address class.  Hosts of one station each: an IPv4 address of
// the LAN, a self-assigned IPv4 address (169.254/16, reported by DHCP as a rebooting client names it), an IPv6 link-local
// address, a global and a unique-local IPv6 address; all online, silent for longer than the probe deadline, then purge.
// Oracle (the library's documented probes): an IPv4 host - whatever its class - is asked for with an ARP request for its
// address; a link-local IPv6 host with a neighbour solicitation for its address sent to its solicited-node group with hop
// limit 255; another IPv6 host with an echo request to its address; every host is probed; every frame passes the
// reference decoder (FrameCase).  k selects the order in which the hosts are learned.
func evalProbeScenario(c *core.Ctx, line, ks string) []*core.Case {
	k, err := strconv.Atoi(ks)
	if err != nil {
		return nil
	}
	s, conn := sess.New(nil)
	type hst struct {
		mac  []byte
		ip   netip.Addr
		kind string
	}
	hosts := []hst{
		{[]byte{2, 0, 0, 0, 9, 1}, netip.MustParseAddr("192.168.0.77"), "arp"},
		{[]byte{2, 0, 0, 0, 9, 2}, netip.MustParseAddr("169.254.7.9"), "arp"},
		{[]byte{2, 0, 0, 0, 9, 3}, netip.MustParseAddr("fe80::9:3"), "ns"},
		{[]byte{2, 0, 0, 0, 9, 4}, netip.MustParseAddr("2001:db8::9:4"), "echo6"},
		{[]byte{2, 0, 0, 0, 9, 5}, netip.MustParseAddr("fd00::9:5"), "echo6"},
	}
	if k%2 == 0 { // without the IPv6 link-local host (see the oracle below)
		hosts = append(hosts[:2:2], hosts[3:]...)
	}
	for i := 0; i < k%len(hosts); i++ { // rotate: which host is learned (and therefore probed) first
		hosts = append(hosts[1:], hosts[0])
	}
	impl := core.Safely(func() string {
		for _, h := range hosts {
			if h.ip.Is4() {
				s.DHCPv4Update(h.mac, h.ip, packet.NameEntry{})
			} else {
				ip := h.ip.As16()
				fr := frames.Ether(sess.HostMAC, h.mac, 0x86dd, 0, frames.IP6(frames.IP6Opts{Src: ip[:], Dst: []byte{0xff, 2, 0, 0, 0, 0, 0, 0, 0, 0, 0, 0, 0, 0, 0, 1}, Next: 17, Hop: 1, PayloadLen: -1}, frames.UDP(5353, 5353, -1, []byte{1, 2, 3})))
				if _, err := s.Parse(fr); err != nil {
					return "setup: " + err.Error()
				}
			}
		}
		conn.Take()
		s.VerifPurge(time.Now().Add(3 * time.Minute)) // past the probe deadline (2 min), before the offline deadline (5 min)
		time.Sleep(60 * time.Millisecond)             // the probes are written by a goroutine
		return "ok"
	})
	sent := conn.Take()
	var cases []*core.Case
	probed := map[string]string{}
	for _, f := range sent {
		fc := core.FrameCase("purge probe (address classes)", sess.HostMAC, f)
		cases = append(cases, &fc)
		switch {
		case len(f) >= 42 && f[12] == 8 && f[13] == 6: // ARP: target IP
			probed[netip.AddrFrom4(*(*[4]byte)(f[38:42])).String()] = "arp"
		case len(f) >= 78 && f[12] == 0x86 && f[13] == 0xdd && f[20] == 58 && f[54] == 135: // NS: target
			kind := "ns"
			t := netip.AddrFrom16(*(*[16]byte)(f[62:78]))
			sn := t.As16()
			want := [16]byte{0xff, 2, 0, 0, 0, 0, 0, 0, 0, 0, 0, 1, 0xff, sn[13], sn[14], sn[15]}
			if f[21] != 255 || netip.AddrFrom16(*(*[16]byte)(f[38:54])) != netip.AddrFrom16(want) {
				kind = "ns-misaddressed"
			}
			probed[t.String()] = kind
		case len(f) >= 62 && f[12] == 0x86 && f[13] == 0xdd && f[20] == 58 && f[54] == 128: // echo request: IPv6 destination
			probed[netip.AddrFrom16(*(*[16]byte)(f[38:54])).String()] = "echo6"
		default:
			probed[fmt.Sprintf("frame of %d bytes", len(f))] = "other"
		}
	}
	bad := ""
	if impl != "ok" {
		bad = "purge / host setup: " + impl
	}
	// every probe written must be the documented probe FOR A TRACKED HOST (the session's own host / router entries
	// included).  Not required: that every silent host is probed in a round - on the unchanged library the probe
	// goroutine returns after the first link-local host (a `return` where a `continue` was probably meant; noted in
	// DESIGN 10.3, no property speaks about it), so the scenarios with k even leave the link-local host out.
	want := map[string]string{}
	for _, h := range hosts {
		want[h.ip.String()] = h.kind
	}
	for _, a := range s.GetHosts() {
		if _, ok := want[a.Addr.IP.String()]; !ok {
			kind := "arp"
			if !a.Addr.IP.Is4() {
				kind = "echo6"
				if a.Addr.IP.IsLinkLocalUnicast() {
					kind = "ns"
				}
			}
			want[a.Addr.IP.String()] = kind
		}
	}
	for ip, got := range probed {
		if w, ok := want[ip]; bad == "" && (!ok || w != got) {
			bad = fmt.Sprintf("purge wrote a probe %q for %s; tracked silent hosts and their documented probes: %v", got, ip, want)
		}
	}
	head := &core.Case{Line: line, Impl: fmt.Sprintf("%s probes=%d bad=%q", impl, len(sent), bad), Cmp: func(string, string) bool { return true },
		Oracle: func() (string, string) { return bad, "" }}
	return append([]*core.Case{head}, cases...)
}

func GenAll(c *core.Ctx) {
	Gen(c)
	for k := 0; k < 8; k++ {
		for _, cs := range evalProbeScenario(c, fmt.Sprintf("probe.scn %d", k), strconv.Itoa(k)) {
			cs.Class = "purge-probe-classes"
			c.Add(*cs)
		}
	}
	for i := 0; i < c.Scale(2, 20); i++ {
		genHistory(c, c.Seed*1000+int64(i), c.Scale(150, 400))
	}
}

var Runner = core.Runner{Gen: GenAll, Eval: Eval}
