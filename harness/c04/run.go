package c04

import (
	"bufio"
	"errors"
	"fmt"
	"hash/maphash"
	"io"
	"net"
	"net/netip"
	"os"
	"sort"
	"strconv"
	"strings"
	"time"

	"github.com/irai/packet"
	"github.com/irai/packet/fastlog"
	"verif/harness/core"
	"verif/harness/sess"
)

// send the `tbl.spec` line of a step as well
const sendSpec = true

// specFor: `tbl.spec` is sent for every op except DHCPv4Update, whose event check on the Lean
// side does not yet account for re-announcements caused by name changes / pending dirty state.
func specFor(kind string) bool { return sendSpec }

const (
	pC04 = 0
	pC05 = 1
	pC06 = 2
)

var propName = [3]string{"C04", "C05", "C06"}

func propIdx(p string) int {
	switch p {
	case "C04":
		return pC04
	case "C05":
		return pC05
	}
	return pC06
}

var devNull *os.File
var runners int

func init() {
	fastlog.DefaultIOWriter = io.Discard
	packet.Logger.Disable()
	devNull, _ = os.OpenFile(os.DevNull, os.O_WRONLY, 0)
}

// quietly runs f with os.Stdout pointing at /dev/null (PrintTable uses fmt.Printf)
func quietly(f func()) {
	old := os.Stdout
	if devNull != nil {
		os.Stdout = devNull
	}
	defer func() { os.Stdout = old }()
	f()
}

// ---------------------------------------------------------------------------------------------
// universe
// ---------------------------------------------------------------------------------------------

var (
	macOwn    = sess.HostMAC
	macRouter = sess.RouterMAC
	macC1     = net.HardwareAddr{0x02, 0, 0, 0, 0, 0x21}
	macC2     = net.HardwareAddr{0x02, 0, 0, 0, 0, 0x22}
	macMcast  = net.HardwareAddr{0x01, 0, 0x5e, 0, 0, 0x01}
	macCisco  = net.HardwareAddr{0x00, 0x00, 0x0c, 0, 0, 0x31} // a prefix with a manufacturer entry

	ipA      = netip.MustParseAddr("192.168.0.50")
	ipB      = netip.MustParseAddr("192.168.0.51")
	ipRouter = sess.RouterIP4
	ipOwn    = sess.HostIP4
	ipOff    = netip.MustParseAddr("10.0.0.1")
	ipZero   = netip.MustParseAddr("0.0.0.0")
	ipLLA    = netip.MustParseAddr("fe80::21")
	ipGUA    = netip.MustParseAddr("2001:db8::21")
	ipLL4    = netip.MustParseAddr("169.254.1.1")
	ip4in6   = netip.MustParseAddr("::ffff:192.168.0.50")
	ipMc6    = netip.MustParseAddr("ff02::1")
	ipLoop6  = netip.MustParseAddr("::1")
	ipZero6  = netip.MustParseAddr("::")
	ipBcast  = netip.MustParseAddr("255.255.255.255")
	ipLLA2   = netip.MustParseAddr("fe80::22")

	allMACs = []net.HardwareAddr{macOwn, macRouter, macC1, macC2, macMcast, macCisco}
	allIPs  = []netip.Addr{ipA, ipB, ipRouter, ipOwn, ipOff, ipZero, ipLLA, ipGUA, ipLL4, ip4in6, ipMc6, ipLoop6, ipZero6, ipBcast, ipLLA2}
)

// ---------------------------------------------------------------------------------------------
// sessions: fresh ones from NewSession, or one re-initialised from a snapshot of the tables a
// fresh session has (the exploration runs millions of histories; every NewSession leaves two
// tickers and a 128-slot channel behind)
// ---------------------------------------------------------------------------------------------

type tmplT struct {
	macs  []*packet.MACEntry
	hosts map[netip.Addr]*packet.Host
}

var (
	poolS    *packet.Session
	poolConn *sess.RecConn
	tmpl     *tmplT
)

func copyTables(macs []*packet.MACEntry, hosts map[netip.Addr]*packet.Host) ([]*packet.MACEntry, map[netip.Addr]*packet.Host) {
	mm := make(map[*packet.MACEntry]*packet.MACEntry, len(macs))
	hm := make(map[*packet.Host]*packet.Host, len(hosts))
	nh := make(map[netip.Addr]*packet.Host, 64)
	for k, h := range hosts {
		c := *h
		c.Addr.MAC = append(net.HardwareAddr{}, h.Addr.MAC...)
		hm[h] = &c
		nh[k] = &c
	}
	nm := make([]*packet.MACEntry, 0, len(macs))
	for _, e := range macs {
		c := &packet.MACEntry{MAC: append(net.HardwareAddr{}, e.MAC...), Captured: e.Captured, IP4: e.IP4, IP4Offer: e.IP4Offer,
			IP6GUA: e.IP6GUA, IP6LLA: e.IP6LLA, IP6Offer: e.IP6Offer, Online: e.Online, IsRouter: e.IsRouter,
			Manufacturer: e.Manufacturer, DHCP4Name: e.DHCP4Name, MDNSName: e.MDNSName, SSDPName: e.SSDPName,
			LLMNRName: e.LLMNRName, NBNSName: e.NBNSName, LastSeen: e.LastSeen}
		for _, h := range e.HostList {
			c.HostList = append(c.HostList, hm[h])
		}
		mm[e] = c
		nm = append(nm, c)
	}
	for _, h := range hm {
		h.MACEntry = mm[h.MACEntry]
		h.Addr.MAC = h.MACEntry.MAC
	}
	return nm, nh
}

func drain(s *packet.Session) (out []packet.Notification) {
	for {
		select {
		case n := <-s.C:
			out = append(out, n)
		default:
			return out
		}
	}
}

// normalise rewrites every wall-clock stamp the library just wrote to the virtual now.  Only stamps taken inside
// the call window [t0, t1] are rewritten: a wall-clock stamp outside it means the library applied an offset to
// time.Now() (or kept a stale one), which is reported.
func normalise(s *packet.Session, v, t0, t1 time.Time) (bad string) {
	fix := func(what string, t *time.Time) {
		if !isReal(*t) {
			return
		}
		if t.Before(t0) || t.After(t1) {
			if bad == "" {
				bad = fmt.Sprintf("%s: LastSeen is %v away from the call that wrote it (not time.Now() of the call)", what, t.Sub(t0).Round(time.Millisecond))
			}
		}
		*t = v
	}
	for ip, h := range s.HostTable.Table {
		if h != nil {
			fix("host "+ip.String(), &h.LastSeen)
		}
	}
	for _, e := range s.MACTable.Table {
		if e != nil {
			fix("mac entry "+e.MAC.String(), &e.LastSeen)
		}
	}
	return bad
}

// afterNewSession puts the state NewSession built on the virtual clock
func afterNewSession(s *packet.Session, v, t0 time.Time) {
	normalise(s, v, t0, time.Now())
	if h := s.HostTable.Table[s.NICInfo.HostAddr4.IP]; h != nil {
		h.LastSeen = v.Add(year)
		if h.MACEntry != nil {
			h.MACEntry.LastSeen = v.Add(year)
		}
	}
}

func freshSession() (*packet.Session, *sess.RecConn) {
	t0 := time.Now()
	s, conn := sess.New(nil)
	afterNewSession(s, startV(), t0)
	return s, conn
}

func pooledSession() (*packet.Session, *sess.RecConn) {
	if poolS == nil {
		poolS, poolConn = freshSession()
		m, h := copyTables(poolS.MACTable.Table, poolS.HostTable.Table)
		tmpl = &tmplT{m, h}
	}
	poolS.MACTable.Table, poolS.HostTable.Table = copyTables(tmpl.macs, tmpl.hosts)
	drain(poolS)
	poolConn.Take()
	return poolS, poolConn
}

// ---------------------------------------------------------------------------------------------
// one run of a history
// ---------------------------------------------------------------------------------------------

type runner struct {
	c      *core.Ctx
	s      *packet.Session
	conn   *sess.RecConn
	fresh  bool
	V      time.Time
	cfg    string
	cur    string
	curOK  bool
	light  bool // prefix replay: no dumps, no checks, no lines
	emit   bool
	class  string
	fr     packet.Frame
	frSpec frameSpec
	haveFr bool
	ref    *refModel
	c06    *c06State
	fail   [3]string
	failAt [3]int
	known  [3]string // id of the known finding whose shape the first failure has (no matcher registered at present)
	hopIdx int
	dead   bool
	steps  int
	clog   bool // the application never reads Session.C: the channel is full during every library call
}

// clogged: histories run with a full notification channel (set around the clogged stage of Gen and around tbl.clog
// lines).  Reading C is optional for an application; the tracked state must follow the C04 rules and the C05
// invariants whether or not anybody reads it.  Notifications are dropped by the library in that situation, so the
// C06 oracle does not apply and no tbl.step lines are emitted (the model's step includes the notifications).
var clogged bool

type outT struct {
	op      string
	hostKey string
	flag    bool
	panicv  any
	err     string
}

var (
	seenLines = map[[2]uint64]struct{}{}
	seedA     = maphash.MakeSeed()
	seedB     = maphash.MakeSeed()
	stLines   int
	stSteps   int
	stHist    int
	stFail    [3]int
)

func hashA(s string) uint64 { return maphash.String(seedA, s) }
func hashB(s string) uint64 { return maphash.String(seedB, s) }

// debugging aid: C04_DUMP_LINES=<file> writes every distinct protocol line there
var dumpLines *bufio.Writer

func init() {
	if p := os.Getenv("C04_DUMP_LINES"); p != "" {
		if f, err := os.Create(p); err == nil {
			dumpLines = bufio.NewWriterSize(f, 1<<20)
		}
	}
}

func add(c *core.Ctx, cs core.Case) {
	if dumpLines != nil {
		dumpLines.WriteString(cs.Line)
		dumpLines.WriteByte('\n')
	}
	c.Add(cs)
}

func firstTime(line string) bool {
	k := [2]uint64{maphash.String(seedA, line), maphash.String(seedB, line)}
	if _, ok := seenLines[k]; ok {
		return false
	}
	seenLines[k] = struct{}{}
	return true
}

func acceptCmp(impl, model string) bool { return model == "accept" }

func newRunner(c *core.Ctx, fresh bool, class string) *runner {
	r := &runner{c: c, fresh: fresh, class: class, V: startV(), clog: clogged}
	// every fourth history runs with the session logger at debug level (output discarded): every log line of Parse,
	// the tables, purge and notify is formatted, so a panicking log call is seen; the others run with logging disabled
	runners++
	if runners%4 == 1 {
		packet.Logger.SetLevel(fastlog.LevelDebug)
	} else {
		packet.Logger.Disable()
	}
	if fresh {
		r.s, r.conn = freshSession()
	} else {
		r.s, r.conn = pooledSession()
	}
	r.cfg = cfgTok(r.s)
	r.ref = newRef(r.s, r.V)
	r.c06 = newC06(r.s)
	return r
}

func (r *runner) close() {
	if r.fresh {
		r.s.VerifStop()
	}
	r.conn.Take()
}

func (r *runner) report(p int, what string) {
	if what == "" || (r.clog && p == pC06) {
		return
	}
	if r.fail[p] == "" {
		r.fail[p] = what
		r.failAt[p] = r.hopIdx
	}
}

func (r *runner) vns() string { return strconv.FormatInt(r.V.Sub(B).Nanoseconds(), 10) }

func (r *runner) redump() {
	r.cur, r.curOK, _ = dump(r.s, B)
}

// lib performs one library call as one model step.
func (r *runner) lib(kind string, call func(o *outT)) []packet.Notification {
	if r.dead {
		return nil
	}
	pre, preOK := r.cur, r.curOK
	o := outT{hostKey: "-", err: "-"}
	if r.clog {
		for len(r.s.C) < cap(r.s.C) {
			r.s.C <- packet.Notification{}
		}
	}
	t0 := time.Now()
	func() {
		defer func() {
			if x := recover(); x != nil {
				o.panicv = x
			}
		}()
		call(&o)
	}()
	op := o.op
	if bad := normalise(r.s, r.V, t0, time.Now()); bad != "" {
		r.report(pC04, kind+": "+bad)
	}
	notifs := drain(r.s)
	if r.clog {
		notifs = nil // only the fillers (and whatever the call managed to squeeze in) - not an observation
	}
	r.steps++
	if o.panicv != nil {
		r.dead = true
		r.report(pC05, fmt.Sprintf("%s panics: %v", kind, o.panicv))
	}
	if r.light {
		return notifs
	}
	post, ok, why := dump(r.s, B)
	r.cur, r.curOK = post, ok
	w := checkC05(r.s)
	if w == "" && !ok {
		w = "state not dumpable: " + why
	}
	r.report(pC05, w)
	r.report(pC04, r.ref.compare(r.s, allIPs, allMACs))
	if r.emit && !r.clog && preOK && ok && op != "" {
		nt := "-"
		if len(notifs) > 0 {
			l := make([]string, len(notifs))
			for i, n := range notifs {
				l[i] = notifTok(n, B)
			}
			if kind == "purge" { // map order inside purge; the driver compares these as a multiset
				sort.Strings(l)
			}
			nt = strings.Join(l, "+")
		}
		out := nt + "!" + o.hostKey + "!" + boolTok(o.flag) + "!" + boolTok(o.panicv != nil) + "!" + o.err
		body := r.cfg + " " + pre + " " + op + " " + post + " " + out
		stSteps++
		if firstTime(body) {
			stLines++
			triv := pre == post && len(notifs) == 0
			cl := r.class + ":" + kind
			add(r.c, core.Case{Line: "tbl.step " + body, Impl: "accept", Cmp: acceptCmp, Class: cl, Trivial: triv})
			if specFor(kind) {
				add(r.c, core.Case{Line: "tbl.spec " + body, Impl: "ok", Class: cl + "/spec", Trivial: true})
			}
			if firstTime("i " + post) {
				add(r.c, core.Case{Line: "tbl.inv " + post, Impl: "ok", Class: cl + "/inv", Trivial: true})
			}
		}
	}
	return notifs
}

func errTok(err error) string {
	switch {
	case err == nil:
		return "-"
	case errors.Is(err, packet.ErrInvalidIP):
		return "ErrInvalidIP"
	case errors.Is(err, packet.ErrIsRouter):
		return "ErrIsRouter"
	}
	return "other"
}

func (r *runner) parseStep(f frameSpec) []packet.Notification {
	b := f.build()
	owner := f.src
	srcTok, ipT, arpT := macTok(f.src), "-", "-"
	mk := f.modelKind()
	if mk != "other" {
		ipT = ipTok(f.ip)
	}
	if mk == "arp" {
		arpT = macTok(f.arp)
		owner = f.arp
	}
	if f.kind == "short" {
		srcTok = "-"
	}
	r.ref.frame(r.s, f, r.V)
	tok := func(d bool) string {
		return "frame," + srcTok + "," + mk + "," + ipT + "," + arpT + "," + boolTok(d) + "," + r.vns() + "," + strTok(packet.FindManufacturer(owner))
	}
	r.haveFr, r.frSpec, r.fr = true, f, packet.Frame{}
	return r.lib("frame", func(o *outT) {
		o.op = tok(false)
		fr, _ := r.s.Parse(b)
		// a receive loop reuses its buffer: keep private copies of the addresses the later Notify reads and
		// overwrite the packet buffer — nothing the session retained may change (the tables are dumped afterwards)
		fr.SrcAddr.MAC = append(net.HardwareAddr(nil), fr.SrcAddr.MAC...)
		fr.DstAddr.MAC = append(net.HardwareAddr(nil), fr.DstAddr.MAC...)
		for i := range b {
			b[i] = 0xee
		}
		r.fr = fr
		if fr.Host != nil {
			o.hostKey = ipTok(fr.Host.Addr.IP)
		}
		o.flag = fr.VerifFlags()&1 == 1
		o.op = tok(fr.PayloadID == packet.PayloadDHCP4)
	})
}

func (r *runner) frameStale() bool {
	if !r.haveFr {
		return true
	}
	if r.fr.Host == nil {
		return false
	}
	return r.s.HostTable.Table[r.fr.Host.Addr.IP] != r.fr.Host
}

func (r *runner) notifyStep() []packet.Notification {
	if r.frameStale() {
		return nil
	}
	fr := r.fr
	hk := "-"
	if fr.Host != nil {
		hk = ipTok(fr.Host.Addr.IP)
	}
	op := "notify," + hk + "," + boolTok(fr.PayloadID == packet.PayloadDHCP4) + "," + macTok(fr.SrcAddr.MAC) + "," + boolTok(fr.VerifFlags()&1 == 1)
	return r.lib("notify", func(o *outT) {
		o.op = op
		r.s.Notify(fr)
	})
}

func hostName(h *packet.Host, kind string) packet.NameEntry {
	switch kind {
	case "dhcp4":
		return h.DHCP4Name
	case "mdns":
		return h.MDNSName
	case "ssdp":
		return h.SSDPName
	case "llmnr":
		return h.LLMNRName
	}
	return h.NBNSName
}

func (r *runner) nameStep(h *packet.Host, kind string, n nameSpec) {
	if h == nil || r.s.HostTable.Table[h.Addr.IP] != h {
		return
	}
	e := n.entry(kind, r.V)
	before := hostName(h, kind)
	op := "name," + ipTok(h.Addr.IP) + "," + kind + "," + nameTok(e, B)
	r.lib("name", func(o *outT) {
		o.op = op
		switch kind {
		case "dhcp4":
			h.UpdateDHCP4Name(e)
		case "mdns":
			h.UpdateMDNSName(e)
		case "ssdp":
			h.UpdateSSDPName(e)
		case "llmnr":
			h.UpdateLLMNRName(e)
		default:
			h.UpdateNBNSName(e)
		}
	})
	after := hostName(h, kind)
	if before.Name != after.Name || before.Model != after.Model || before.OS != after.OS || before.Manufacturer != after.Manufacturer {
		r.c06.pending[h.Addr.IP] = true
	}
}

func (r *runner) dhcpStep(mac net.HardwareAddr, ip netip.Addr, n nameSpec) []packet.Notification {
	e := n.entry("dhcp4", r.V)
	h0 := r.s.FindIP(ip)
	var n0 packet.NameEntry
	if h0 != nil {
		n0 = h0.DHCP4Name
	}
	r.ref.dhcp(mac, ip, r.V)
	op := "dhcp," + macTok(mac) + "," + ipTok(ip) + "," + nameTok(e, B) + "," + r.vns() + "," + strTok(packet.FindManufacturer(mac))
	nf := r.lib("dhcp", func(o *outT) {
		o.op = op
		o.err = errTok(r.s.DHCPv4Update(mac, ip, e))
	})
	if h1 := r.s.FindIP(ip); h1 != nil && h1 == h0 {
		a := h1.DHCP4Name
		if a.Name != n0.Name || a.Model != n0.Model || a.OS != n0.OS || a.Manufacturer != n0.Manufacturer {
			r.c06.pending[ip] = true
		}
	}
	return nf
}

// exec runs one history operation (one to three library calls)
func (r *runner) exec(h hop) {
	if r.dead {
		return
	}
	var nf []packet.Notification
	single := false
	var announced []netip.Addr // hosts this step notifies about: a pending name change must go out with it
	switch h.k {
	case 'F':
		nf = r.parseStep(h.fr)
		if h.nk != "" && !r.dead && r.fr.Host != nil {
			r.nameStep(r.fr.Host, h.nk, h.name)
		}
		if !r.dead && r.fr.Host != nil && !r.frameStale() {
			announced = append(announced, r.fr.Host.Addr.IP)
		}
		nf = append(nf, r.notifyStep()...)
		single = true
	case 'P':
		r.c06.active = false
		nf = r.parseStep(h.fr)
	case 'N':
		r.c06.active = false
		nf = r.notifyStep()
	case 'D':
		nf = r.parseStep(h.fr)
		nf = append(nf, r.dhcpStep(h.mac, h.ip, h.name)...)
		announced = append(announced, h.ip)
		nf = append(nf, r.notifyStep()...)
		single = true
	case 'U':
		nf = r.dhcpStep(h.mac, h.ip, h.name)
		announced = append(announced, h.ip)
		single = true
	case 'O':
		e := h.name.entry("dhcp4", r.V)
		r.ref.macs[string(h.mac)] = true
		op := "offer," + macTok(h.mac) + "," + ipTok(h.ip) + "," + nameTok(e, B)
		nf = r.lib("offer", func(o *outT) {
			o.op = op
			r.s.SetDHCPv4IPOffer(h.mac, h.ip, e)
		})
	case 'C':
		r.ref.macs[string(h.mac)] = true
		nf = r.lib("capture", func(o *outT) {
			o.op = "capture," + macTok(h.mac)
			o.err = errTok(r.s.Capture(h.mac))
		})
	case 'R':
		nf = r.lib("release", func(o *outT) {
			o.op = "release," + macTok(h.mac)
			o.err = errTok(r.s.Release(h.mac))
		})
	case 'T':
		r.V = r.V.Add(time.Duration(h.d))
		return
	case 'G':
		r.ref.purge(r.s, r.V)
		nf = r.lib("purge", func(o *outT) {
			o.op = "purge," + r.vns()
			r.s.VerifPurge(r.V)
		})
	case 'M':
		r.nameStep(r.s.FindIP(h.ip), h.nk, h.name)
	case 'L':
		nf = r.lib("print", func(o *outT) {
			o.op = "print"
			quietly(r.s.PrintTable)
		})
	case 'S':
		t := time.Time{}
		if !h.z {
			t = r.V.Add(time.Duration(h.d))
		}
		r.ref.setls(h.ip, t)
		nf = r.lib("setls", func(o *outT) {
			o.op = "setls," + ipTok(h.ip) + "," + timeTok(t, B)
			if x := r.s.FindIP(h.ip); x != nil {
				x.LastSeen = t
			}
		})
	}
	if r.dead {
		return
	}
	if r.light {
		r.c06.apply(nf)
		return
	}
	what := r.c06.endOfStep(r.s, r.ref, nf, single)
	if what == "" && r.c06.active {
		// "one further notification when a learned name changes": the step notified about these hosts
		// (Notify for the frame's host, DHCPv4Update's own announcement), so no name change may stay pending
		for _, ip := range announced {
			if r.c06.pending[ip] && r.s.FindIP(ip) != nil {
				what = fmt.Sprintf("lost notification: the name learned for %s changed and the step notified about that host, but no notification carried the change", ip)
				break
			}
		}
	}
	r.report(pC06, what)
}

// finish: PrintTable must not panic on the final state
func (r *runner) finish() {
	if !r.dead && !r.light {
		func() {
			defer func() {
				if x := recover(); x != nil {
					r.report(pC05, fmt.Sprintf("PrintTable panics: %v", x))
				}
			}()
			quietly(r.s.PrintTable)
		}()
	}
	r.close()
}

// runHist runs a whole history with checks; emit = queue the model lines
func runHist(c *core.Ctx, hs []hop, fresh, emit bool, class string) *runner {
	r := newRunner(c, fresh, class)
	r.emit = emit
	r.redump()
	for i, h := range hs {
		r.hopIdx = i
		r.exec(h)
		if r.dead {
			break
		}
	}
	r.hopIdx = len(hs)
	r.finish()
	stHist++
	return r
}
