package c04

import (
	"encoding/hex"
	"fmt"
	"net"
	"net/netip"
	"sort"
	"strconv"
	"strings"
	"time"

	"github.com/irai/packet"
)

// B is the base of virtual time: every time is dumped as nanoseconds since B.
var B = time.Now().Round(0)

const year = 365 * 24 * time.Hour

func startV() time.Time { return B.Add(1000 * time.Hour) }

// a time stamped by the library from the wall clock (as opposed to a virtual one)
func isReal(t time.Time) bool { return !t.IsZero() && t.Before(B.Add(500*time.Hour)) }

func timeTok(t time.Time, base time.Time) string {
	if t.IsZero() {
		return "z"
	}
	return strconv.FormatInt(t.Sub(base).Nanoseconds(), 10)
}

func strTok(s string) string {
	if s == "" {
		return "-"
	}
	return hex.EncodeToString([]byte(s))
}

func macTok(m net.HardwareAddr) string {
	if len(m) == 0 {
		return "-"
	}
	return hex.EncodeToString(m)
}

func ipTok(a netip.Addr) string {
	if !a.IsValid() {
		return "-"
	}
	if a.Is4() {
		b := a.As4()
		return "4:" + hex.EncodeToString(b[:])
	}
	b := a.As16()
	return "6:" + hex.EncodeToString(b[:])
}

func boolTok(b bool) string {
	if b {
		return "1"
	}
	return "0"
}

func nameTok(n packet.NameEntry, base time.Time) string {
	if n == (packet.NameEntry{}) {
		return "~"
	}
	return strTok(n.Type) + ";" + strTok(n.Name) + ";" + strTok(n.Model) + ";" + strTok(n.Manufacturer) + ";" + strTok(n.OS) + ";" + timeTok(n.Expire, base)
}

func namesTok(d, m, s, l, n packet.NameEntry, base time.Time) string {
	z := packet.NameEntry{}
	if d == z && m == z && s == z && l == z && n == z {
		return "~"
	}
	return nameTok(d, base) + "/" + nameTok(m, base) + "/" + nameTok(s, base) + "/" + nameTok(l, base) + "/" + nameTok(n, base)
}

func notifTok(n packet.Notification, base time.Time) string {
	return macTok(n.Addr.MAC) + "," + ipTok(n.Addr.IP) + "," + boolTok(n.Online) + "," + strTok(n.Manufacturer) + "," +
		namesTok(n.DHCP4Name, n.MDNSName, n.SSDPName, n.LLMNRName, n.NBNSName, base) + "," + boolTok(n.IsRouter)
}

func cfgTok(s *packet.Session) string {
	n := s.NICInfo
	lanValid := n.HomeLAN4.IsValid() && n.HomeLAN4.Addr().Is4()
	base, bits := "00000000", 0
	if lanValid {
		b := n.HomeLAN4.Addr().As4()
		base, bits = hex.EncodeToString(b[:]), n.HomeLAN4.Bits()
	}
	return strings.Join([]string{macTok(n.HostAddr4.MAC), ipTok(n.HostAddr4.IP), macTok(n.RouterAddr4.MAC), ipTok(n.RouterAddr4.IP),
		boolTok(lanValid), base, strconv.Itoa(bits), ipTok(n.HostLLA.Addr()),
		strconv.FormatInt(int64(s.ProbeDeadline), 10), strconv.FormatInt(int64(s.OfflineDeadline), 10), strconv.FormatInt(int64(s.PurgeDeadline), 10)}, ",")
}

// dump renders the two tables as the state token of Drv/Tables.lean, times relative to base.
// It fails (ok=false, why) when a pointer does not resolve; a Go panic while walking the
// structure (nil MACEntry, ...) is also reported that way.
func dump(s *packet.Session, base time.Time) (tok string, ok bool, why string) {
	defer func() {
		if r := recover(); r != nil {
			tok, ok, why = "", false, fmt.Sprint("walking the tables panics: ", r)
		}
	}()
	entryIdx := make(map[*packet.MACEntry]int, len(s.MACTable.Table))
	for i, e := range s.MACTable.Table {
		if e == nil {
			return "", false, fmt.Sprintf("MACTable.Table[%d] is nil", i)
		}
		if _, dup := entryIdx[e]; !dup {
			entryIdx[e] = i
		}
	}
	hosts := make([]string, 0, len(s.HostTable.Table))
	for k, h := range s.HostTable.Table {
		if h == nil {
			return "", false, "HostTable.Table[" + k.String() + "] is nil"
		}
		if h.MACEntry == nil {
			return "", false, "host " + k.String() + " has a nil MACEntry"
		}
		idx, found := entryIdx[h.MACEntry]
		if !found {
			return "", false, "host " + k.String() + ": its MACEntry (" + h.MACEntry.MAC.String() + ") is not an element of MACTable.Table"
		}
		hosts = append(hosts, ipTok(k)+","+ipTok(h.Addr.IP)+","+macTok(h.Addr.MAC)+","+strconv.Itoa(idx)+","+boolTok(h.Online)+","+
			boolTok(h.VerifDirty())+","+timeTok(h.LastSeen, base)+","+strTok(h.Manufacturer)+","+
			namesTok(h.DHCP4Name, h.MDNSName, h.SSDPName, h.LLMNRName, h.NBNSName, base))
	}
	sort.Strings(hosts)
	macs := make([]string, 0, len(s.MACTable.Table))
	for _, e := range s.MACTable.Table {
		hl := make([]string, 0, len(e.HostList))
		for _, h := range e.HostList {
			if h == nil {
				return "", false, "MAC entry " + e.MAC.String() + " lists a nil host"
			}
			if t, found := s.HostTable.Table[h.Addr.IP]; !found || t != h {
				return "", false, "MAC entry " + e.MAC.String() + " lists host " + h.Addr.IP.String() + " which is not the object stored in the host table under that IP"
			}
			hl = append(hl, ipTok(h.Addr.IP))
		}
		hls := "-"
		if len(hl) > 0 {
			hls = strings.Join(hl, "&")
		}
		macs = append(macs, macTok(e.MAC)+","+boolTok(e.Captured)+","+ipTok(e.IP4)+","+ipTok(e.IP4Offer)+","+ipTok(e.IP6GUA)+","+
			ipTok(e.IP6LLA)+","+ipTok(e.IP6Offer)+","+boolTok(e.Online)+","+boolTok(e.IsRouter)+","+hls+","+strTok(e.Manufacturer)+","+
			namesTok(e.DHCP4Name, e.MDNSName, e.SSDPName, e.LLMNRName, e.NBNSName, base)+","+timeTok(e.LastSeen, base))
	}
	hs, ms := "-", "-"
	if len(hosts) > 0 {
		hs = strings.Join(hosts, "+")
	}
	if len(macs) > 0 {
		ms = strings.Join(macs, "+")
	}
	return hs + "!" + ms, true, ""
}
