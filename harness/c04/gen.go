// Package c04: step-mode correspondence of the host/MAC table state machine with the Lean model
// (Model/Tables.lean through Drv/Tables.lean) and the Go-side oracles of C04 (host tracking
// rules), C05 (table consistency) and C06 (notifications).  The three runners share everything;
// they differ in which oracle's failures are reported as property violations.
package c04

import (
	"fmt"
	"math/rand"
	"net"
	"net/netip"
	"os"
	"runtime/pprof"
	"strings"
	"time"

	"github.com/irai/packet"
	"verif/harness/core"
)

var Runner = core.Runner{Gen: Gen, Eval: Eval}

// ---------------------------------------------------------------------------------------------
// alphabets of the bounded-exhaustive exploration
// ---------------------------------------------------------------------------------------------

func hF(kind string, src net.HardwareAddr, ip netip.Addr, arp net.HardwareAddr) hop {
	return hop{k: 'F', fr: frameSpec{kind: kind, src: src, ip: ip, arp: arp}}
}
func hFn(kind string, src net.HardwareAddr, ip netip.Addr, nk, name string) hop {
	h := hF(kind, src, ip, nil)
	h.nk, h.name = nk, nameSpec{name: name}
	return h
}
func hP(kind string, src net.HardwareAddr, ip netip.Addr) hop {
	h := hF(kind, src, ip, nil)
	h.k = 'P'
	return h
}
func hD(mac net.HardwareAddr, ip netip.Addr, name string) hop {
	return hop{k: 'D', mac: mac, ip: ip, name: nameSpec{name: name}, fr: frameSpec{kind: "dhcp4", src: mac, ip: ipZero}}
}
func hU(mac net.HardwareAddr, ip netip.Addr, name string) hop {
	return hop{k: 'U', mac: mac, ip: ip, name: nameSpec{name: name}}
}
func hO(mac net.HardwareAddr, ip netip.Addr, name string) hop {
	return hop{k: 'O', mac: mac, ip: ip, name: nameSpec{name: name}}
}
func hC(mac net.HardwareAddr) hop { return hop{k: 'C', mac: mac} }
func hR(mac net.HardwareAddr) hop { return hop{k: 'R', mac: mac} }
func hT(d time.Duration) hop      { return hop{k: 'T', d: int64(d)} }
func hM(ip netip.Addr, nk, name string) hop {
	return hop{k: 'M', ip: ip, nk: nk, name: nameSpec{name: name}}
}
func hS(ip netip.Addr, d time.Duration) hop { return hop{k: 'S', ip: ip, d: int64(d)} }

const (
	offDL   = packet.DefaultOfflineDeadline
	purgeDL = packet.DefaultPurgeDeadline
	probeDL = packet.DefaultProbeDeadline
)

// core: the operations every rule of C04/C06 needs at least once
func alphaCore() []hop {
	return []hop{
		hF("ip4", macC1, ipA, nil),
		hF("ip4", macC1, ipB, nil),
		hF("ip4", macC2, ipA, nil),
		hT(offDL + 1),
		{k: 'G'},
		hU(macC1, ipB, ""),
		// the first six form the "small" alphabet
		hT(purgeDL + 1),
		hF("arpr", macC1, ipB, macC2),
		hF("ip6", macC1, ipLLA, nil),
		hD(macC1, ipA, "a"),
		hM(ipA, "llmnr", "a"),
	}
}

// tiny: the last operation of the deepest histories (IP change, re-binding, ageing)
func alphaTiny() []hop {
	return []hop{hF("ip4", macC1, ipB, nil), hF("ip4", macC2, ipA, nil), {k: 'G'}}
}

func alphaMid() []hop {
	return append(alphaCore(),
		hF("ip4", macRouter, ipRouter, nil),
		hF("ip4", macRouter, ipA, nil),
		hF("ip4", macC1, ipRouter, nil),
		hF("ip4", macC1, ipOff, nil),
		hF("ip4", macOwn, ipA, nil),
		hF("ip4", macMcast, ipA, nil),
		hF("ip6", macC1, ipGUA, nil),
		hF("ip6", macRouter, ipGUA, nil),
		hF("arpq", macC1, ipA, macC1),
		hF("arpq", macC1, ipB, macOwn),
		hF("arpq", macC1, ipA, macMcast),
		hFn("ip4", macC1, ipB, "llmnr", "b"),
		hP("ip4", macC1, ipB),
		hP("ip4", macC2, ipA),
		hop{k: 'N'},
		hD(macC1, ipB, ""),
		hU(macC2, ipA, "a"),
		hO(macC1, ipA, ""),
		hC(macC1),
		hT(time.Second),
		hT(offDL),
		hop{k: 'L'},
		hS(ipA, -(offDL+1)),
	)
}

func alphaFull() []hop {
	return append(alphaMid(),
		hF("ip4", macC1, ipZero, nil),
		hF("ip4", macC2, ipB, nil),
		hF("ip4", macC2, ipRouter, nil),
		hF("ip4", macRouter, ipOff, nil),
		hF("udp4", macC1, ipA, nil),
		hF("dhcp4", macC1, ipA, nil),
		hF("ip4e", macC2, ipB, nil),
		hF("ip6", macC2, ipLLA, nil),
		hF("ip6", macRouter, ipLLA, nil),
		hF("ip6", macOwn, ipLLA, nil),
		hF("ip6", macOwn, ipGUA, nil),
		hF("ip6", macMcast, ipLLA, nil),
		hF("arpr", macC1, ipB, macC1),
		hF("arpr", macC2, ipB, macC1),
		hF("arpq", macOwn, ipA, macC1),
		hF("arpq", macRouter, ipRouter, macRouter),
		hF("arpq", macC1, ipA, macRouter),
		hF("arpq", macC1, ipOff, macC1),
		hF("arpq", macMcast, ipA, macC1),
		hF("arpr", macC1, ipRouter, macC1),
		hF("lldp", macC1, netip.Addr{}, nil),
		hF("l8023", macC1, netip.Addr{}, nil),
		hF("short", macC1, netip.Addr{}, nil),
		hF("ip4t", macC1, ipA, nil),
		hF("ip6t", macC1, ipLLA, nil),
		hFn("ip4", macC1, ipA, "llmnr", "a"),
		hFn("ip6", macC1, ipLLA, "mdns", "a"),
		hP("ip4", macC1, ipA),
		hD(macC2, ipA, ""),
		hD(macC1, ipOff, ""),
		hD(macC1, ipZero, ""),
		hD(macRouter, ipB, ""),
		hU(macC1, ipA, ""),
		hU(macRouter, ipA, ""),
		hU(macOwn, ipOwn, ""),
		hU(macC1, ipLLA, ""),
		hU(macC1, netip.Addr{}, ""),
		hO(macC1, ipB, "a"),
		hO(macC2, ipA, ""),
		hC(macRouter),
		hC(macC2),
		hR(macC1),
		hT(purgeDL),
		hM(ipA, "llmnr", "b"),
		hM(ipB, "mdns", "a"),
		hM(ipRouter, "nbns", "a"),
		hM(ipA, "llmnr", ""),
		hS(ipA, -(purgeDL+1)),
		hS(ipB, -(offDL+1)),
		hop{k: 'S', ip: ipA, z: true},
	)
}

// ---------------------------------------------------------------------------------------------
// reporting
// ---------------------------------------------------------------------------------------------

var (
	knownWitness = map[string]string{}
	otherEx      [3][]string
	reported     = map[string]bool{}
	shrinkRuns   int
	shrinkLimit  = 4000
)

func failsProp(c *core.Ctx, hs []hop, p int, known string) (bool, string) {
	r := runHist(c, hs, false, false, "shrink")
	stHist--
	return r.fail[p] != "" && r.known[p] == known, r.fail[p]
}

// shrink drops operations greedily while the property's oracle still fails
func shrink(c *core.Ctx, hs []hop, p int, known string) ([]hop, string) {
	cur := append([]hop{}, hs...)
	_, what := failsProp(c, cur, p, known)
	for changed := true; changed && shrinkRuns < shrinkLimit; {
		changed = false
		for i := len(cur) - 1; i >= 0 && shrinkRuns < shrinkLimit; i-- {
			t := append(append([]hop{}, cur[:i]...), cur[i+1:]...)
			shrinkRuns++
			if ok, w := failsProp(c, t, p, known); ok {
				cur, what, changed = t, w, true
			}
		}
	}
	return cur, what
}

// account records the oracle verdicts of one finished run
func account(c *core.Ctx, r *runner, hs []hop) {
	sel := propIdx(c.Prop)
	for p := 0; p < 3; p++ {
		if r.fail[p] == "" {
			continue
		}
		stFail[p]++
		end := r.failAt[p] + 1
		if end > len(hs) {
			end = len(hs)
		}
		if p != sel {
			if len(otherEx[p]) < 3 {
				otherEx[p] = append(otherEx[p], r.fail[p]+"   ["+histString(hs[:end])+"]")
			}
			continue
		}
		key := r.fail[p]
		if len(key) > 40 {
			key = key[:40]
		}
		if r.known[p] != "" {
			key = r.known[p]
			if c.Known[key] && reported[key] {
				c.Res.KnownHits[key]++
				continue
			}
		}
		if reported[key] || len(reported) >= 6 {
			continue
		}
		reported[key] = true
		small, what := shrink(c, hs[:end], p, r.known[p])
		if what == "" {
			small, what = hs[:end], r.fail[p]
		}
		line := histString(small)
		if r.clog {
			line = "tbl.clog" + strings.TrimPrefix(line, "tbl.hist")
			what += " (history run with a full notification channel: nobody reads Session.C)"
		}
		c.Violate(core.Violation{Kind: "property", What: propName[p] + ": " + what, Replay: []string{line}, Known: r.known[p]})
		if r.known[p] != "" {
			knownWitness[r.known[p]] = histString(small)
		}
	}
}

// ---------------------------------------------------------------------------------------------
// Eval
// ---------------------------------------------------------------------------------------------

func Eval(c *core.Ctx, line string) *core.Case {
	f := strings.Fields(line)
	if len(f) == 0 {
		return nil
	}
	switch f[0] {
	case "tbl.step":
		return &core.Case{Line: line, Impl: "accept", Cmp: acceptCmp}
	case "tbl.init":
		return &core.Case{Line: line, Impl: "accept"}
	case "tbl.inv", "tbl.spec":
		return &core.Case{Line: line, Impl: "ok"}
	case "tbl.conc":
		// concurrent stage (conc.go); decided for C05 only, no model counterpart
		if len(f) != 4 || c.Prop != "C05" {
			return nil
		}
		var seed, g, rounds int
		fmt.Sscan(f[1], &seed)
		fmt.Sscan(f[2], &g)
		fmt.Sscan(f[3], &rounds)
		bad := concRound(int64(seed), g, rounds)
		return &core.Case{Line: "tbl.inv -!-", Impl: "ok", Trivial: true, Class: "concurrent", Cmp: func(a, b string) bool { return true },
			Oracle: func() (string, string) {
				if bad == "" {
					return "", ""
				}
				return "C05: " + bad + "   [" + line + "]", ""
			}}
	case "tbl.hist", "tbl.clog":
		if len(f) > 2 {
			return nil
		}
		if f[0] == "tbl.clog" {
			clogged = true
			defer func() { clogged = false }()
		}
		txt := ""
		if len(f) == 2 {
			txt = f[1]
		}
		hs, ok := parseHist(txt)
		if !ok {
			return nil
		}
		r := runHist(c, hs, true, true, "hist")
		sel := propIdx(c.Prop)
		what, kid := r.fail[sel], r.known[sel]
		for p := 0; p < 3; p++ {
			if r.fail[p] != "" {
				stFail[p]++
				if c.Verbose {
					fmt.Printf("oracle %s fails at op %d: %s\n", propName[p], r.failAt[p], r.fail[p])
				}
			}
		}
		fin := "tbl.inv " + r.cur
		if !r.curOK {
			fin = "tbl.inv -!-"
		}
		return &core.Case{Line: fin, Impl: "ok", Trivial: true, Class: "hist/final",
			Oracle: func() (string, string) {
				if what == "" {
					return "", ""
				}
				return propName[sel] + ": " + what + "   [" + line + "]", kid
			}}
	}
	return nil
}

// ---------------------------------------------------------------------------------------------
// Gen
// ---------------------------------------------------------------------------------------------

func selfCheck(c *core.Ctx) {
	r := newRunner(c, true, "init")
	st, ok, why := dump(r.s, B)
	if !ok {
		c.Violate(core.Violation{Kind: "tie", What: "state after NewSession is not dumpable: " + why})
		r.close()
		return
	}
	c.Add(core.Case{Line: "tbl.init " + r.cfg + " " + r.vns() + " " + strTok(packet.FindManufacturer(macOwn)) + " " +
		strTok(packet.FindManufacturer(macRouter)) + " " + st, Impl: "accept", Class: "init"})
	c.Add(core.Case{Line: "tbl.inv " + st, Impl: "ok", Class: "init", Trivial: true})
	r.close()
	p := newRunner(c, false, "init")
	st2, _, _ := dump(p.s, B)
	p.close()
	p = newRunner(c, false, "init") // second use of the pooled session
	st3, _, _ := dump(p.s, B)
	p.close()
	if st2 != st || st3 != st {
		c.Violate(core.Violation{Kind: "tie", What: "harness self-check: the re-initialised session differs from a fresh one"})
	}
}

type node struct{ hist []hop }

// explore: breadth-first over distinct implementation states
func explore(c *core.Ctx, maxDepth int, alpha func(depth int) []hop, extra map[string]any) {
	seen := map[[2]uint64]struct{}{}
	mark := func(k string) bool {
		h := [2]uint64{hashA(k), hashB(k)}
		if _, ok := seen[h]; ok {
			return false
		}
		seen[h] = struct{}{}
		return true
	}
	r0 := newRunner(c, false, "bfs")
	mark(stateKey(r0))
	r0.close()
	frontier := []node{{}}
	trans := 0
	perDepth := []int{}
	done := 0
	for d := 1; d <= maxDepth && len(frontier) > 0; d++ {
		ops := alpha(d)
		var next []node
		for _, n := range frontier {
			for _, op := range ops {
				if d == maxDepth && op.k == 'T' {
					continue
				}
				r := newRunner(c, false, "bfs")
				r.light = true
				for i, h := range n.hist {
					r.hopIdx = i
					r.exec(h)
				}
				r.light, r.emit = false, true
				r.redump()
				r.hopIdx = len(n.hist)
				r.exec(op)
				trans++
				hs := append(append(make([]hop, 0, len(n.hist)+1), n.hist...), op)
				if !r.dead && d < maxDepth && mark(stateKey(r)) {
					next = append(next, node{hs})
				}
				r.hopIdx = len(hs)
				r.finish()
				stHist++
				account(c, r, hs)
			}
		}
		perDepth = append(perDepth, len(next))
		frontier = next
		done = d
	}
	extra["bfs_max_depth_completed"] = done
	extra["bfs_distinct_states"] = len(seen)
	extra["bfs_new_states_per_depth"] = perDepth
	extra["bfs_transitions"] = trans
}

func stateKey(r *runner) string {
	st, ok, _ := dump(r.s, r.V)
	if !ok {
		st = "undumpable"
	}
	fk := "-"
	if r.haveFr {
		fk = r.frSpec.String() + boolTok(r.frameStale()) + boolTok(r.fr.Host != nil) + fmt.Sprint(r.fr.VerifFlags(), r.fr.PayloadID)
	}
	return st + "|" + r.ref.key(r.V) + "|" + r.c06.key() + "|" + fk
}

// ---------------------------------------------------------------------------------------------
// random histories over the larger universe
// ---------------------------------------------------------------------------------------------

func pick[T any](rnd *rand.Rand, xs []T, w []int) T {
	t := 0
	for _, x := range w {
		t += x
	}
	n := rnd.Intn(t)
	for i, x := range w {
		if n < x {
			return xs[i]
		}
		n -= x
	}
	return xs[len(xs)-1]
}

var (
	rMACs   = []net.HardwareAddr{macC1, macC2, macCisco, macRouter, macOwn, macMcast}
	rMACw   = []int{35, 25, 10, 12, 8, 10}
	rIP4s   = []netip.Addr{ipA, ipB, ipRouter, ipOwn, ipOff, ipZero, ipLL4, ipBcast}
	rIP4w   = []int{32, 26, 9, 6, 9, 6, 7, 5}
	rIP6s   = []netip.Addr{ipLLA, ipLLA2, ipGUA, ip4in6, ipMc6, ipLoop6, ipZero6}
	rIP6w   = []int{35, 15, 25, 10, 5, 5, 5}
	rKinds  = []string{"ip4", "udp4", "dhcp4", "ip4e", "ip6", "udp6", "arpq", "arpr", "lldp", "xeth", "l8023", "short", "ip4t", "ip4l", "ip6t"}
	rKindw  = []int{36, 5, 5, 4, 15, 3, 12, 10, 1, 1, 1, 1, 2, 2, 2}
	rNames  = []string{"", "a", "b"}
	rNKinds = []string{"dhcp4", "mdns", "ssdp", "llmnr", "nbns"}
	rDurs   = []time.Duration{time.Second, time.Minute, probeDL + 1, offDL, offDL + 1, purgeDL, purgeDL + 1, purgeDL - offDL}
	rDurw   = []int{10, 10, 5, 10, 25, 10, 25, 5}
)

func randName(rnd *rand.Rand) nameSpec {
	n := nameSpec{name: rNames[rnd.Intn(3)]}
	if rnd.Intn(8) == 0 {
		n.model = "m"
	}
	if rnd.Intn(8) == 0 {
		n.exp, n.hasExp = int64(time.Hour), true
	}
	return n
}

func randAnyIP(rnd *rand.Rand) netip.Addr {
	if rnd.Intn(10) < 7 {
		return pick(rnd, rIP4s, rIP4w)
	}
	return pick(rnd, rIP6s, rIP6w)
}

func randFrame(rnd *rand.Rand) frameSpec {
	f := frameSpec{kind: pick(rnd, rKinds, rKindw), src: pick(rnd, rMACs, rMACw)}
	switch f.kind {
	case "ip4", "udp4", "dhcp4", "ip4e", "ip4t", "ip4l":
		f.ip = pick(rnd, rIP4s, rIP4w)
	case "ip6", "udp6", "ip6t":
		f.ip = pick(rnd, rIP6s, rIP6w)
	case "arpq", "arpr":
		f.ip = pick(rnd, rIP4s, rIP4w)
		f.arp = f.src
		if rnd.Intn(10) < 4 {
			f.arp = pick(rnd, rMACs, rMACw)
		}
	}
	return f
}

func randHop(rnd *rand.Rand, withPN bool) hop {
	n := rnd.Intn(100)
	switch {
	case n < 44:
		h := hop{k: 'F', fr: randFrame(rnd)}
		if rnd.Intn(7) == 0 {
			h.nk, h.name = rNKinds[rnd.Intn(5)], randName(rnd)
		}
		return h
	case n < 52:
		if !withPN {
			return hop{k: 'F', fr: randFrame(rnd)}
		}
		if n < 48 {
			return hop{k: 'P', fr: randFrame(rnd)}
		}
		return hop{k: 'N'}
	case n < 58:
		h := hD(pick(rnd, rMACs, rMACw), pick(rnd, rIP4s, rIP4w), "")
		h.name = randName(rnd)
		return h
	case n < 63:
		h := hU(pick(rnd, rMACs, rMACw), randAnyIP(rnd), "")
		if rnd.Intn(20) == 0 {
			h.ip = netip.Addr{}
		}
		h.name = randName(rnd)
		return h
	case n < 66:
		h := hO(pick(rnd, rMACs, rMACw), pick(rnd, rIP4s, rIP4w), "")
		if rnd.Intn(10) == 0 {
			h.ip = netip.Addr{}
		}
		h.name = randName(rnd)
		return h
	case n < 69:
		return hC(pick(rnd, rMACs, rMACw))
	case n < 71:
		return hR(pick(rnd, rMACs, rMACw))
	case n < 81:
		return hT(pick(rnd, rDurs, rDurw))
	case n < 90:
		return hop{k: 'G'}
	case n < 95:
		return hop{k: 'M', ip: randAnyIP(rnd), nk: rNKinds[rnd.Intn(5)], name: randName(rnd)}
	case n < 97:
		return hop{k: 'L'}
	default:
		h := hS(randAnyIP(rnd), -pick(rnd, rDurs, rDurw))
		if rnd.Intn(10) == 0 {
			h.z, h.d = true, 0
		}
		return h
	}
}

func Gen(c *core.Ctx) {
	c.Res.Rule = "a step (one library call) is trivial when it leaves the dumped tables unchanged and emits no notification; " +
		"the tbl.inv / tbl.spec lines of a step ride along with its tbl.step line and are not counted"
	ex := c.Res.Extra
	if p := os.Getenv("C04_PROF"); p != "" {
		if f, err := os.Create(p); err == nil {
			pprof.StartCPUProfile(f)
			defer pprof.StopCPUProfile()
		}
	}
	c.Model = enableFanout(c.Model)
	selfCheck(c)

	// 1. corpus
	for _, l := range c.CorpusLines() {
		if strings.HasPrefix(l, "tbl.hist") {
			hs, ok := parseHist(strings.TrimSpace(strings.TrimPrefix(l, "tbl.hist")))
			if !ok {
				c.Violate(core.Violation{Kind: "tie", What: "corpus line does not parse: " + l})
				continue
			}
			r := runHist(c, hs, true, true, "corpus")
			account(c, r, hs)
			continue
		}
		if cs := Eval(c, l); cs != nil {
			cs.Class = "corpus"
			c.Add(*cs)
		}
	}
	corpusH := stHist

	// 1b. concurrent stage (C05 only: "all quiescent points of the concurrent executions")
	if c.Prop == "C05" {
		for k := 0; k < c.Scale(3, 30); k++ {
			if cs := Eval(c, fmt.Sprintf("tbl.conc %d 8 %d", c.Rnd.Intn(1<<20), c.Scale(1000, 3000))); cs != nil {
				c.Add(*cs)
			}
		}
	}

	// 2. bounded-exhaustive exploration
	full, mid, cor := alphaFull(), alphaMid(), alphaCore()
	depth := c.Scale(4, 6)
	small, tiny := cor[:6], alphaTiny()
	levels := [][]hop{full, mid, small, small}
	planTxt := "quick: full at depth 1, mid at 2, small (first 6 core ops) at 3-4"
	if c.Thorough() {
		levels = [][]hop{full, mid, mid, small, small, tiny}
		planTxt = "thorough: full at depth 1, mid at 2-3, small (first 6 core ops) at 4-5, tiny (3 ops) at 6"
	}
	ex["bfs_alphabet_sizes"] = fmt.Sprintf("full=%d mid=%d core=%d small=%d tiny=%d; a clock advance is not tried as the last operation of a history", len(full), len(mid), len(cor), len(small), len(tiny))
	plan := func(d int) []hop { return levels[d-1] }
	ex["bfs_alphabet"] = planTxt
	explore(c, depth, plan, ex)
	bfsH := stHist - corpusH

	// 3. seeded random histories
	nh := c.Scale(300, 3000)
	for i := 0; i < nh; i++ {
		n := 10 + c.Rnd.Intn(191)
		if !c.Thorough() { // quick: same bound, skewed towards short histories
			u := c.Rnd.Float64()
			n = 10 + int(190*u*u)
		}
		withPN := i%2 == 1
		hs := make([]hop, n)
		for j := range hs {
			hs[j] = randHop(c.Rnd, withPN)
		}
		r := runHist(c, hs, i%50 == 0, true, "random")
		account(c, r, hs)
	}
	// 4. the same kind of random histories with a full notification channel (nobody reads Session.C): the state
	//    oracles of C04 and C05 only; no model lines (added after wave-8 seed C04-w8s1)
	if c.Prop != "C06" {
		clogged = true
		nc := c.Scale(60, 600)
		for i := 0; i < nc; i++ {
			n := 10 + c.Rnd.Intn(120)
			hs := make([]hop, n)
			for j := range hs {
				hs[j] = randHop(c.Rnd, i%2 == 1)
			}
			r := runHist(c, hs, i%20 == 0, false, "clogged")
			account(c, r, hs)
		}
		clogged = false
		ex["histories_clogged"] = nc
	}
	c.Flush()
	if dumpLines != nil {
		dumpLines.Flush()
	}
	ex["histories_corpus"] = corpusH
	ex["histories_bfs"] = bfsH
	ex["histories_random"] = nh
	ex["steps"] = stSteps
	ex["distinct_step_lines"] = stLines
	ex["oracle_failures"] = map[string]int{"C04": stFail[0], "C05": stFail[1], "C06": stFail[2]}
	for p := 0; p < 3; p++ {
		if len(otherEx[p]) > 0 {
			ex["unreported_failures_of_"+propName[p]] = otherEx[p]
		}
	}
	if len(knownWitness) > 0 {
		ex["known_finding_witnesses"] = knownWitness
	}
	ex["shrink_runs"] = shrinkRuns
	ex["send_spec"] = sendSpec
}
