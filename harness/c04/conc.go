package c04

// Concurrent stage of the C05 check.  The statement quantifies over "all quiescent points of the concurrent executions
// explored for C09": the supported pattern is one packet goroutine plus any number of API goroutines.  A history here is
// a set of API goroutines that introduce MAC addresses the session has never seen (Capture, SetDHCPv4IPOffer,
// DHCPv4Update, Release; plus the read-only calls) while the packet goroutine parses frames of other stations; at
// quiescence the table invariant of C05 (sess.TableInvariant) must hold, no goroutine may have panicked and none may
// be blocked.  There is no model counterpart (the table model is sequential: every reachable sequential state satisfies
// the invariant by Props/C05, and the lock discipline that makes concurrent executions equivalent to sequential ones is
// C09's lockset tie); this stage is exploration, added after wave-7 seed C05-w7s2 (Capture under the read lock).

import (
	"fmt"
	"math/rand"
	"net"
	"net/netip"
	"sync"
	"time"

	"github.com/irai/packet"
	"verif/harness/sess"
)

func concRound(seed int64, g, rounds int) string {
	s, _ := sess.New(nil)
	var mu sync.Mutex
	problem := ""
	note := func(f string, a ...any) {
		mu.Lock()
		if problem == "" {
			problem = fmt.Sprintf(f, a...)
		}
		mu.Unlock()
	}
	done := make(chan struct{})
	go func() {
		defer close(done)
		for rd := 0; rd < rounds; rd++ {
			var wg sync.WaitGroup
			start := make(chan struct{})
			// all API goroutines of a round introduce the SAME few new MACs: the interesting interleavings are two
			// first sightings of one address
			macs := make([]net.HardwareAddr, 3)
			for k := range macs {
				macs[k] = net.HardwareAddr{2, 0xc5, byte(seed), byte(rd >> 8), byte(rd), byte(k)}
			}
			burst := -1
			if rd%2 == 0 {
				burst = []int{0, 2, 4, 5}[(rd/2)%4]
				if rd%4 == 0 {
					burst = 0
				}
			}
			for i := 0; i < g; i++ {
				wg.Add(1)
				go func(i int) {
					defer wg.Done()
					defer func() {
						if r := recover(); r != nil {
							note("API goroutine panicked: %v", r)
						}
					}()
					rnd := rand.New(rand.NewSource(seed*7919 + int64(rd)*131 + int64(i)))
					<-start
					for k := 0; k < 4; k++ {
						m := macs[rnd.Intn(len(macs))]
						ip := netip.AddrFrom4([4]byte{192, 168, 0, byte(100 + rnd.Intn(100))})
						op := rnd.Intn(7)
						if k == 0 {
							// every goroutine opens with a first sighting of one of two addresses
							m, op = macs[i%2], rnd.Intn(4)
						}
						if burst >= 0 {
							// burst round: all goroutines make the SAME call on the same new addresses at once
							// (writers queued on the session lock would otherwise serialise the callers)
							if k > 0 {
								break
							}
							op = burst
						}
						switch op {
						case 0, 1:
							s.Capture(m)
						case 2, 3:
							s.SetDHCPv4IPOffer(m, ip, packet.NameEntry{Type: "dhcp4", Name: "n"})
						case 4:
							s.Release(m)
						case 5:
							s.IsCaptured(m)
						default:
							s.FindMACEntry(m)
						}
					}
				}(i)
			}
			// the packet goroutine of the supported pattern
			wg.Add(1)
			go func() {
				if burst >= 0 {
					wg.Done()
					return
				}
				defer wg.Done()
				defer func() {
					if r := recover(); r != nil {
						note("packet goroutine panicked: %v", r)
					}
				}()
				<-start
				for k := 0; k < 4; k++ {
					fs := frameSpec{kind: "ip4", src: net.HardwareAddr{2, 0, 0, 0, 9, byte(k)}, ip: netip.AddrFrom4([4]byte{192, 168, 0, byte(10 + k)})}
					if fr, err := s.Parse(fs.build()); err == nil {
						s.Notify(fr)
					}
					// the DHCP handler's table update runs on the packet goroutine too
					s.DHCPv4Update(macs[k%len(macs)], netip.AddrFrom4([4]byte{192, 168, 0, byte(200 + k)}), packet.NameEntry{Type: "dhcp4", Name: "n"})
				}
			}()
			close(start)
			wg.Wait()
		}
	}()
	select {
	case <-done:
	case <-time.After(100 * time.Second): // load-tolerant: a round takes well under a second
		return fmt.Sprintf("concurrent API rounds did not finish within 100 s (blocked goroutines) seed=%d", seed)
	}
	if problem != "" {
		return problem
	}
	if inv := sess.TableInvariant(s); inv != "" {
		return "table invariant broken at quiescence after concurrent Capture/SetDHCPv4IPOffer/DHCPv4Update/Release of new MAC addresses: " + inv
	}
	return ""
}
