package c04

import (
	"bytes"
	"fmt"
	"net"
	"net/netip"
	"sort"
	"strings"
	"time"

	"github.com/irai/packet"
)

// ---------------------------------------------------------------------------------------------
// C05: structural invariant checked on the real tables with pointer identity
// ---------------------------------------------------------------------------------------------

func checkC05(s *packet.Session) (what string) {
	defer func() {
		if r := recover(); r != nil {
			what = fmt.Sprint("walking the tables panics: ", r)
		}
	}()
	inTable := make(map[*packet.MACEntry]bool, len(s.MACTable.Table))
	for i, e := range s.MACTable.Table {
		if e == nil {
			return fmt.Sprintf("MACTable.Table[%d] is nil", i)
		}
		inTable[e] = true
		for j := 0; j < i; j++ {
			if bytes.Equal(s.MACTable.Table[j].MAC, e.MAC) {
				return "two MAC entries for " + e.MAC.String()
			}
		}
	}
	for k, h := range s.HostTable.Table {
		if h == nil {
			return "nil host under " + k.String()
		}
		if h.Addr.IP != k {
			return "host " + h.Addr.IP.String() + " is indexed under " + k.String()
		}
		if h.MACEntry == nil {
			return "host " + k.String() + " has no MACEntry"
		}
		if !inTable[h.MACEntry] {
			return "host " + k.String() + ": MACEntry " + h.MACEntry.MAC.String() + " is not in MACTable.Table"
		}
		if !bytes.Equal(h.MACEntry.MAC, h.Addr.MAC) {
			return "host " + k.String() + " has MAC " + h.Addr.MAC.String() + " but hangs under entry " + h.MACEntry.MAC.String()
		}
		n := 0
		for _, x := range h.MACEntry.HostList {
			if x == h {
				n++
			}
		}
		if n != 1 {
			return fmt.Sprintf("host %s occurs %d times in the HostList of its MAC entry %s", k, n, h.MACEntry.MAC)
		}
		for _, e := range s.MACTable.Table {
			if e == h.MACEntry {
				continue
			}
			for _, x := range e.HostList {
				if x == h {
					return "host " + k.String() + " is also listed under MAC entry " + e.MAC.String()
				}
			}
		}
		if h.Online && !h.MACEntry.Online {
			return "host " + k.String() + " is online but its MAC entry " + h.MACEntry.MAC.String() + " is marked offline"
		}
	}
	for _, e := range s.MACTable.Table {
		for _, x := range e.HostList {
			if x == nil {
				return "MAC entry " + e.MAC.String() + " lists a nil host"
			}
			if t, ok := s.HostTable.Table[x.Addr.IP]; !ok || t != x {
				return "MAC entry " + e.MAC.String() + " lists host " + x.Addr.IP.String() + " which is not the object in the host table under that IP"
			}
			if x.MACEntry != e {
				return "MAC entry " + e.MAC.String() + " lists host " + x.Addr.IP.String() + " whose MACEntry pointer is a different entry"
			}
		}
	}
	return ""
}

// ---------------------------------------------------------------------------------------------
// C04: reference map  ip -> (mac, online, lastSeen)  + set of known MAC entries
// ---------------------------------------------------------------------------------------------

type refEnt struct {
	mac    string // raw bytes
	online bool
	ls     time.Time
}

type refModel struct {
	hosts map[netip.Addr]refEnt
	macs  map[string]bool
}

func newRef(s *packet.Session, v time.Time) *refModel {
	r := &refModel{hosts: map[netip.Addr]refEnt{}, macs: map[string]bool{}}
	n := s.NICInfo
	r.hosts[n.HostAddr4.IP] = refEnt{string(n.HostAddr4.MAC), true, v.Add(year)}
	r.macs[string(n.HostAddr4.MAC)] = true
	r.hosts[n.RouterAddr4.IP] = refEnt{string(n.RouterAddr4.MAC), true, v}
	r.macs[string(n.RouterAddr4.MAC)] = true
	return r
}

func (r *refModel) addrsOf(mac string) int {
	n := 0
	for _, e := range r.hosts {
		if e.mac == mac {
			n++
		}
	}
	return n
}

func (r *refModel) drop(ip netip.Addr) {
	e, ok := r.hosts[ip]
	if !ok {
		return
	}
	delete(r.hosts, ip)
	if r.addrsOf(e.mac) == 0 {
		delete(r.macs, e.mac)
	}
}

// see: the address ip was seen in use by mac at time v
func (r *refModel) see(mac net.HardwareAddr, ip netip.Addr, v time.Time) {
	m := string(mac)
	old, had := r.hosts[ip]
	if had && old.mac != m {
		r.drop(ip)
		had = false
	}
	repeat := had && old.online
	r.hosts[ip] = refEnt{m, true, v}
	r.macs[m] = true
	if !repeat && ip.Is4() {
		for k, e := range r.hosts {
			if k != ip && k.Is4() && e.mac == m && e.online {
				e.online = false
				r.hosts[k] = e
			}
		}
	}
}

// frame: the creation rule of the property statement
func (r *refModel) frame(s *packet.Session, f frameSpec, v time.Time) {
	n := s.NICInfo
	if len(f.src) != 6 || f.src[0]&1 != 0 || bytes.Equal(f.src, n.HostAddr4.MAC) {
		return
	}
	switch f.modelKind() {
	case "ip4":
		if n.HomeLAN4.Contains(f.ip) {
			r.see(f.src, f.ip, v)
		}
	case "arp":
		if n.HomeLAN4.Contains(f.ip) {
			r.see(f.arp, f.ip, v)
		}
	case "ip6":
		if f.ip.IsLinkLocalUnicast() || (f.ip.IsGlobalUnicast() && !bytes.Equal(f.src, n.RouterAddr4.MAC)) {
			r.see(f.src, f.ip, v)
		}
	}
}

func (r *refModel) dhcp(mac net.HardwareAddr, ip netip.Addr, v time.Time) {
	if ip.IsValid() && !ip.IsUnspecified() {
		r.see(mac, ip, v)
	}
}

func (r *refModel) purge(s *packet.Session, now time.Time) {
	del, off := now.Add(-s.PurgeDeadline), now.Add(-s.OfflineDeadline)
	var rm, of []netip.Addr
	for k, e := range r.hosts {
		if !e.online && e.ls.Before(del) {
			rm = append(rm, k)
		} else if e.online && e.ls.Before(off) {
			of = append(of, k)
		}
	}
	for _, k := range of {
		e := r.hosts[k]
		e.online = false
		r.hosts[k] = e
	}
	for _, k := range rm {
		r.drop(k)
	}
}

func (r *refModel) setls(ip netip.Addr, t time.Time) {
	if e, ok := r.hosts[ip]; ok {
		e.ls = t
		r.hosts[ip] = e
	}
}

func (r *refModel) clone() *refModel {
	c := &refModel{hosts: make(map[netip.Addr]refEnt, len(r.hosts)), macs: make(map[string]bool, len(r.macs))}
	for k, v := range r.hosts {
		c.hosts[k] = v
	}
	for k, v := range r.macs {
		c.macs[k] = v
	}
	return c
}

// canonical text (times relative to v), used in the exploration's state key
func (r *refModel) key(v time.Time) string {
	l := make([]string, 0, len(r.hosts)+len(r.macs))
	for k, e := range r.hosts {
		l = append(l, ipTok(k)+"="+macTok(net.HardwareAddr(e.mac))+boolTok(e.online)+timeTok(e.ls, v))
	}
	for m := range r.macs {
		l = append(l, "m"+macTok(net.HardwareAddr(m)))
	}
	sort.Strings(l)
	return strings.Join(l, " ")
}

func sameSet(a, b []string) bool {
	if len(a) != len(b) {
		return false
	}
	sort.Strings(a)
	sort.Strings(b)
	for i := range a {
		if a[i] != b[i] {
			return false
		}
	}
	return true
}

// compare the reference with what the exported queries show
func (r *refModel) compare(s *packet.Session, ips []netip.Addr, macs []net.HardwareAddr) (what string) {
	defer func() {
		if x := recover(); x != nil {
			what = fmt.Sprint("a query panics: ", x)
		}
	}()
	for _, ip := range ips {
		h := s.FindIP(ip)
		e, ok := r.hosts[ip]
		switch {
		case h == nil && ok:
			return "FindIP(" + ip.String() + ") = nil, the reference tracks it for " + net.HardwareAddr(e.mac).String()
		case h != nil && !ok:
			return "FindIP(" + ip.String() + ") = " + h.Addr.MAC.String() + ", the reference does not track this address"
		case h != nil:
			if string(h.Addr.MAC) != e.mac || h.Addr.IP != ip {
				return fmt.Sprintf("FindIP(%s) is bound to %s/%s, reference says %s", ip, h.Addr.MAC, h.Addr.IP, net.HardwareAddr(e.mac))
			}
			if h.Online != e.online {
				return fmt.Sprintf("FindIP(%s).Online = %v, reference says %v", ip, h.Online, e.online)
			}
			if !h.LastSeen.Equal(e.ls) {
				return fmt.Sprintf("FindIP(%s).LastSeen = B%+d ns, reference says B%+d ns", ip, h.LastSeen.Sub(B), e.ls.Sub(B))
			}
		}
	}
	var got, want []string
	for _, h := range s.GetHosts() {
		got = append(got, macTok(h.Addr.MAC)+" "+h.Addr.IP.String()+" "+boolTok(h.Online))
	}
	for k, e := range r.hosts {
		want = append(want, macTok(net.HardwareAddr(e.mac))+" "+k.String()+" "+boolTok(e.online))
	}
	if !sameSet(got, want) {
		return "GetHosts = {" + strings.Join(got, "; ") + "}, reference = {" + strings.Join(want, "; ") + "}"
	}
	for _, m := range macs {
		known := r.macs[string(m)]
		if (s.FindMACEntry(m) != nil) != known {
			return fmt.Sprintf("FindMACEntry(%s) != nil is %v, reference says %v", m, !known, known)
		}
		var w []string
		for k, e := range r.hosts {
			if e.mac == string(m) {
				w = append(w, k.String())
			}
		}
		var g1, g2 []string
		for _, a := range s.IPAddrs(m) {
			if !bytes.Equal(a.MAC, m) {
				return fmt.Sprintf("IPAddrs(%s) returns an address of %s", m, a.MAC)
			}
			g1 = append(g1, a.IP.String())
		}
		for _, a := range s.FindByMAC(m) {
			if !bytes.Equal(a.MAC, m) {
				return fmt.Sprintf("FindByMAC(%s) returns an address of %s", m, a.MAC)
			}
			g2 = append(g2, a.IP.String())
		}
		w2 := append([]string{}, w...)
		if !sameSet(g1, w) {
			return fmt.Sprintf("IPAddrs(%s) = %v, reference = %v", m, g1, w)
		}
		if !sameSet(g2, w2) {
			return fmt.Sprintf("FindByMAC(%s) = %v, reference = %v", m, g2, w2)
		}
	}
	return ""
}

// ---------------------------------------------------------------------------------------------
// C06: the consumer's view built from the notifications
// ---------------------------------------------------------------------------------------------

type annEnt struct {
	mac    string
	online bool
}

type c06State struct {
	active  bool // Notify has followed every Parse so far
	ann     map[netip.Addr]annEnt
	pending map[netip.Addr]bool // a host-level name change awaits its notification
	silent  map[netip.Addr]bool // created by NewSession and not announced yet
}

func newC06(s *packet.Session) *c06State {
	return &c06State{active: true, ann: map[netip.Addr]annEnt{}, pending: map[netip.Addr]bool{},
		silent: map[netip.Addr]bool{s.NICInfo.HostAddr4.IP: true, s.NICInfo.RouterAddr4.IP: true}}
}

func (c *c06State) key() string {
	l := []string{boolTok(c.active)}
	for k, e := range c.ann {
		l = append(l, "a"+ipTok(k)+macTok(net.HardwareAddr(e.mac))+boolTok(e.online))
	}
	for k, p := range c.pending {
		if p {
			l = append(l, "p"+ipTok(k))
		}
	}
	for k, p := range c.silent {
		if p {
			l = append(l, "s"+ipTok(k))
		}
	}
	sort.Strings(l)
	return strings.Join(l, " ")
}

// apply only replays the notifications into the consumer's view (prefix replay)
func (c *c06State) apply(notifs []packet.Notification) {
	for _, n := range notifs {
		c.ann[n.Addr.IP] = annEnt{string(n.Addr.MAC), n.Online}
		c.pending[n.Addr.IP] = false
		c.silent[n.Addr.IP] = false
	}
}

// endOfStep applies the notifications of one completed step and checks (a)-(d).
// single = the step may announce at most one online transition (frame / DHCP steps).
func (c *c06State) endOfStep(s *packet.Session, ref *refModel, notifs []packet.Notification, single bool) string {
	if !c.active {
		return ""
	}
	what := ""
	fail := func(f string, a ...any) {
		if what == "" {
			what = fmt.Sprintf(f, a...)
		}
	}
	onl, seenOnline := 0, false
	for _, n := range notifs {
		ip := n.Addr.IP
		// (c) order
		if n.Online {
			onl++
			seenOnline = true
		} else if seenOnline {
			fail("offline notification for %s arrives after an online notification of the same step", ip)
		}
		// (b) news
		old, had := c.ann[ip]
		now := annEnt{string(n.Addr.MAC), n.Online}
		if had && old == now && !c.pending[ip] {
			fail("duplicate notification: %s %s online=%v was already announced and no name change is pending", n.Addr.MAC, ip, n.Online)
		}
		c.ann[ip] = now
		c.pending[ip] = false
		c.silent[ip] = false
		// (d) fields against the tracked state at the end of the step
		h := s.FindIP(ip)
		if h == nil {
			fail("notification for %s (online=%v) but FindIP finds no such host", ip, n.Online)
			continue
		}
		if !bytes.Equal(h.Addr.MAC, n.Addr.MAC) || h.Addr.IP != ip {
			fail("notification address %s/%s differs from the tracked host %s/%s", n.Addr.MAC, ip, h.Addr.MAC, h.Addr.IP)
		}
		if h.Online != n.Online {
			fail("notification %s online=%v but the tracked host has Online=%v", ip, n.Online, h.Online)
		}
		e := s.FindMACEntry(n.Addr.MAC)
		if e == nil {
			fail("notification for %s: no MAC entry for %s", ip, n.Addr.MAC)
			continue
		}
		switch {
		case n.DHCP4Name != e.DHCP4Name:
			fail("notification %s carries DHCP4Name %q, tracked %q", ip, n.DHCP4Name.Name, e.DHCP4Name.Name)
		case n.MDNSName != e.MDNSName:
			fail("notification %s carries MDNSName %q, tracked %q", ip, n.MDNSName.Name, e.MDNSName.Name)
		case n.SSDPName != e.SSDPName:
			fail("notification %s carries SSDPName %q, tracked %q", ip, n.SSDPName.Name, e.SSDPName.Name)
		case n.LLMNRName != e.LLMNRName:
			fail("notification %s carries LLMNRName %q, tracked %q", ip, n.LLMNRName.Name, e.LLMNRName.Name)
		case n.NBNSName != e.NBNSName:
			fail("notification %s carries NBNSName %q, tracked %q", ip, n.NBNSName.Name, e.NBNSName.Name)
		case n.Manufacturer != e.Manufacturer:
			fail("notification %s carries manufacturer %q, tracked %q", ip, n.Manufacturer, e.Manufacturer)
		case n.IsRouter != e.IsRouter:
			fail("notification %s carries IsRouter=%v, tracked %v", ip, n.IsRouter, e.IsRouter)
		}
	}
	if single && onl > 1 {
		fail("%d online notifications in one frame/DHCP step", onl)
	}
	// (a) nothing lost
	keys := make([]netip.Addr, 0, len(ref.hosts))
	for k := range ref.hosts {
		keys = append(keys, k)
	}
	sort.Slice(keys, func(i, j int) bool { return keys[i].Less(keys[j]) })
	for _, k := range keys {
		e := ref.hosts[k]
		if c.silent[k] {
			continue
		}
		a, ok := c.ann[k]
		if !ok {
			fail("lost notification: %s %s (online=%v) is tracked but was never announced", net.HardwareAddr(e.mac), k, e.online)
		} else if a.mac != e.mac || a.online != e.online {
			fail("lost notification: %s is %s online=%v, the last announcement said %s online=%v", k, net.HardwareAddr(e.mac), e.online, net.HardwareAddr(a.mac), a.online)
		}
	}
	return what
}
