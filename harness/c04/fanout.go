package c04

import (
	"bufio"
	"os"
	"os/exec"
	"runtime"
	"sync"
)

// The compiled Lean model answers about 3 500 table lines per second and core pipes every batch
// through ONE model process.  To use the machine's cores without touching core, Gen points
// core's model path at this very executable with PKTMODEL_FANOUT=<real pktmodel>: started
// without arguments and with that variable set, the harness binary only splits its input over
// several pktmodel processes and prints their replies in input order (same protocol: one
// reply line per input line).

const fanoutEnv = "PKTMODEL_FANOUT"

func init() {
	if m := os.Getenv(fanoutEnv); m != "" && len(os.Args) == 1 {
		fanout(m)
		os.Exit(0)
	}
}

func enableFanout(model string) string {
	exe, err := os.Executable()
	if err != nil || runtime.NumCPU() < 2 {
		return model
	}
	os.Setenv(fanoutEnv, model)
	return exe
}

func fanout(model string) {
	var lines []string
	sc := bufio.NewScanner(os.Stdin)
	sc.Buffer(make([]byte, 1<<20), 1<<26)
	for sc.Scan() {
		lines = append(lines, sc.Text())
	}
	n := runtime.NumCPU()
	if n > 8 {
		n = 8
	}
	if m := (len(lines) + 499) / 500; m < n {
		n = m
	}
	if n < 1 {
		n = 1
	}
	out := make([][]string, n)
	var wg sync.WaitGroup
	per := (len(lines) + n - 1) / n
	for i := 0; i < n; i++ {
		lo, hi := i*per, (i+1)*per
		if lo > len(lines) {
			lo = len(lines)
		}
		if hi > len(lines) {
			hi = len(lines)
		}
		wg.Add(1)
		go func(i int, part []string) {
			defer wg.Done()
			res := make([]string, 0, len(part))
			if len(part) > 0 {
				cmd := exec.Command(model)
				cmd.Env = append(os.Environ(), fanoutEnv+"=")
				stdin, _ := cmd.StdinPipe()
				stdout, _ := cmd.StdoutPipe()
				cmd.Stderr = os.Stderr
				if err := cmd.Start(); err == nil {
					go func() {
						w := bufio.NewWriterSize(stdin, 1<<20)
						for _, l := range part {
							w.WriteString(l)
							w.WriteByte('\n')
						}
						w.Flush()
						stdin.Close()
					}()
					rs := bufio.NewScanner(stdout)
					rs.Buffer(make([]byte, 1<<20), 1<<26)
					for rs.Scan() {
						res = append(res, rs.Text())
					}
					cmd.Wait()
				}
			}
			for len(res) < len(part) {
				res = append(res, "model-died")
			}
			out[i] = res[:len(part)]
		}(i, lines[lo:hi])
	}
	wg.Wait()
	w := bufio.NewWriterSize(os.Stdout, 1<<20)
	for _, p := range out {
		for _, l := range p {
			w.WriteString(l)
			w.WriteByte('\n')
		}
	}
	w.Flush()
}
