package c04

import (
	"encoding/binary"
	"encoding/hex"
	"fmt"
	"net"
	"net/netip"
	"strings"
)

// Independent frame builder (none of the library's encoders are used).
//
//	kind   wire format                                                   model kind
//	ip4    Ethernet II + IPv4 (protocol 253, 4 payload bytes)            ip4
//	udp4   Ethernet II + IPv4 + UDP 5353->5353                           ip4
//	dhcp4  Ethernet II + IPv4 + UDP 68->67 (+ 8 payload bytes)           ip4
//	ip4e   Ethernet II + IPv4 (protocol UDP, 4 payload bytes: the UDP    ip4
//	       layer is rejected after the host logic ran)
//	ip6    Ethernet II + IPv6 (next header 59, no payload)               ip6
//	udp6   Ethernet II + IPv6 + UDP 546->547                             ip6
//	arpq   Ethernet II + ARP request (28 bytes, hlen 6, plen 4)          arp
//	arpr   Ethernet II + ARP reply                                       arp
//	lldp   ethertype 0x88cc                                              other
//	xeth   ethertype 0x1234                                              other
//	l8023  802.3 length frame (length 100)                               other
//	short  10 bytes (no Ethernet header)                                 other
//	ip4t   Ethernet II + 10 bytes of an IPv4 header                      other
//	ip4l   Ethernet II + IPv4 header whose total length exceeds the frame other
//	ip6t   Ethernet II + IPv6 header whose payload length is wrong       other
type frameSpec struct {
	kind string
	src  net.HardwareAddr // Ethernet source
	ip   netip.Addr       // IPv4/IPv6 source or ARP sender protocol address
	arp  net.HardwareAddr // ARP sender hardware address
}

var bcastMAC = net.HardwareAddr{0xff, 0xff, 0xff, 0xff, 0xff, 0xff}

func (f frameSpec) modelKind() string {
	switch f.kind {
	case "ip4", "udp4", "dhcp4", "ip4e":
		return "ip4"
	case "ip6", "udp6":
		return "ip6"
	case "arpq", "arpr":
		return "arp"
	}
	return "other"
}

func (f frameSpec) valid() bool {
	if len(f.src) != 6 {
		return false
	}
	switch f.kind {
	case "ip4", "udp4", "dhcp4", "ip4e", "ip4t", "ip4l":
		return f.ip.Is4()
	case "ip6", "udp6", "ip6t":
		return f.ip.Is6()
	case "arpq", "arpr":
		return f.ip.Is4() && len(f.arp) == 6
	case "lldp", "xeth", "l8023", "short":
		return true
	}
	return false
}

func ipSum(b []byte) uint16 {
	var s uint32
	for i := 0; i+1 < len(b); i += 2 {
		s += uint32(b[i])<<8 | uint32(b[i+1])
	}
	for s > 0xffff {
		s = s&0xffff + s>>16
	}
	return ^uint16(s)
}

func eth(dst, src net.HardwareAddr, typ uint16, payload []byte) []byte {
	b := make([]byte, 14+len(payload))
	copy(b[0:6], dst)
	copy(b[6:12], src)
	binary.BigEndian.PutUint16(b[12:14], typ)
	copy(b[14:], payload)
	return b
}

func ip4hdr(src netip.Addr, dst [4]byte, proto byte, plen int) []byte {
	h := make([]byte, 20)
	h[0] = 0x45
	binary.BigEndian.PutUint16(h[2:4], uint16(20+plen))
	h[8] = 64
	h[9] = proto
	s := src.As4()
	copy(h[12:16], s[:])
	copy(h[16:20], dst[:])
	binary.BigEndian.PutUint16(h[10:12], ipSum(h))
	return h
}

func udphdr(sport, dport uint16, plen int) []byte {
	u := make([]byte, 8+plen)
	binary.BigEndian.PutUint16(u[0:2], sport)
	binary.BigEndian.PutUint16(u[2:4], dport)
	binary.BigEndian.PutUint16(u[4:6], uint16(8+plen))
	return u
}

func ip6hdr(src netip.Addr, next byte, plen int) []byte {
	h := make([]byte, 40)
	h[0] = 0x60
	binary.BigEndian.PutUint16(h[4:6], uint16(plen))
	h[6] = next
	h[7] = 255
	s := src.As16()
	copy(h[8:24], s[:])
	copy(h[24:40], []byte{0xff, 0x02, 0, 0, 0, 0, 0, 0, 0, 0, 0, 0, 0, 0, 0, 1})
	return h
}

func (f frameSpec) build() []byte {
	bc4 := [4]byte{255, 255, 255, 255}
	switch f.kind {
	case "ip4":
		return eth(bcastMAC, f.src, 0x0800, append(ip4hdr(f.ip, bc4, 253, 4), 1, 2, 3, 4))
	case "udp4":
		return eth(bcastMAC, f.src, 0x0800, append(ip4hdr(f.ip, [4]byte{224, 0, 0, 251}, 17, 12), udphdr(5353, 5353, 4)...))
	case "dhcp4":
		return eth(bcastMAC, f.src, 0x0800, append(ip4hdr(f.ip, bc4, 17, 16), udphdr(68, 67, 8)...))
	case "ip4e":
		return eth(bcastMAC, f.src, 0x0800, append(ip4hdr(f.ip, bc4, 17, 4), 0, 68, 0, 67))
	case "ip6":
		return eth(net.HardwareAddr{0x33, 0x33, 0, 0, 0, 1}, f.src, 0x86dd, ip6hdr(f.ip, 59, 0))
	case "udp6":
		return eth(net.HardwareAddr{0x33, 0x33, 0, 0, 0, 1}, f.src, 0x86dd, append(ip6hdr(f.ip, 17, 12), udphdr(546, 547, 4)...))
	case "arpq", "arpr":
		a := make([]byte, 28)
		binary.BigEndian.PutUint16(a[0:2], 1)
		binary.BigEndian.PutUint16(a[2:4], 0x0800)
		a[4], a[5] = 6, 4
		op := uint16(1)
		if f.kind == "arpr" {
			op = 2
		}
		binary.BigEndian.PutUint16(a[6:8], op)
		copy(a[8:14], f.arp)
		s := f.ip.As4()
		copy(a[14:18], s[:])
		copy(a[24:28], []byte{192, 168, 0, 129})
		return eth(bcastMAC, f.src, 0x0806, a)
	case "lldp":
		return eth(bcastMAC, f.src, 0x88cc, []byte{2, 7, 4, 0, 0, 0, 0, 0, 0})
	case "xeth":
		return eth(bcastMAC, f.src, 0x1234, []byte{1, 2, 3, 4, 5, 6, 7, 8})
	case "l8023":
		return eth(bcastMAC, f.src, 100, make([]byte, 100))
	case "short":
		return append(append([]byte{}, bcastMAC...), f.src[:4]...)
	case "ip4t":
		return eth(bcastMAC, f.src, 0x0800, ip4hdr(f.ip, bc4, 253, 0)[:10])
	case "ip4l":
		return eth(bcastMAC, f.src, 0x0800, ip4hdr(f.ip, bc4, 253, 40))
	case "ip6t":
		return eth(bcastMAC, f.src, 0x86dd, ip6hdr(f.ip, 59, 8))
	}
	return nil
}

// text form:  kind/srcMAC/ip/arpMAC   (ip in Go's textual form or `-`, arpMAC hex or `-`)
func (f frameSpec) String() string {
	ip, arp := "-", "-"
	if f.ip.IsValid() {
		ip = f.ip.String()
	}
	if len(f.arp) > 0 {
		arp = hex.EncodeToString(f.arp)
	}
	return fmt.Sprintf("%s/%s/%s/%s", f.kind, hex.EncodeToString(f.src), ip, arp)
}

func parseMAC(s string) (net.HardwareAddr, bool) {
	if s == "-" {
		return nil, true
	}
	b, err := hex.DecodeString(s)
	if err != nil || len(b) != 6 {
		return nil, false
	}
	return net.HardwareAddr(b), true
}

func parseIP(s string) (netip.Addr, bool) {
	if s == "-" {
		return netip.Addr{}, true
	}
	a, err := netip.ParseAddr(s)
	if err != nil || a.Zone() != "" {
		return netip.Addr{}, false
	}
	return a, true
}

func parseFrameSpec(s string) (frameSpec, bool) {
	p := strings.Split(s, "/")
	if len(p) != 4 {
		return frameSpec{}, false
	}
	var f frameSpec
	var ok bool
	f.kind = p[0]
	if f.src, ok = parseMAC(p[1]); !ok {
		return f, false
	}
	if f.ip, ok = parseIP(p[2]); !ok {
		return f, false
	}
	if f.arp, ok = parseMAC(p[3]); !ok {
		return f, false
	}
	return f, f.valid()
}
