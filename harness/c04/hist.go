package c04

import (
	"encoding/hex"
	"net"
	"net/netip"
	"strconv"
	"strings"
	"time"

	"github.com/irai/packet"
)

// A history is a list of harness-level operations.  Text form (replay lines):
//
//	tbl.hist <op>|<op>|...
//
//	F,<frame>[,<kind>,<name>]     Parse(frame) [; Host.Update<kind>Name(name) on frame.Host] ; Notify(frame)
//	P,<frame>                     Parse(frame) only; the returned Frame is remembered
//	N                             Notify(remembered Frame)   (skipped when its Host is no longer the table's object)
//	D,<mac>,<srcip>,<ip>,<name>   Parse(DHCP frame mac/srcip, UDP 68->67) ; DHCPv4Update(mac, ip, name) ; Notify(frame)
//	U,<mac>,<ip>,<name>           DHCPv4Update(mac, ip, name)
//	O,<mac>,<ip>,<name>           SetDHCPv4IPOffer(mac, ip, name)
//	C,<mac>   R,<mac>             Capture / Release
//	T,<ns>                        virtual clock += ns
//	G                             purge(virtual now)
//	M,<ip>,<kind>,<name>          FindIP(ip).Update<kind>Name(name)   (no-op when untracked)
//	L                             PrintTable()
//	S,<ip>,<delta ns|z>           FindIP(ip).LastSeen = virtual now + delta  (z = time.Time{})
//
//	<frame> = kind/srcMAC/ip/arpMAC (frames.go);  <mac> = 12 hex;  <ip> = Go text form or `-`;
//	<kind> = dhcp4|mdns|ssdp|llmnr|nbns;  <name> = `-` | name | name~model~<expire delta ns>
type hop struct {
	k    byte
	fr   frameSpec
	mac  net.HardwareAddr
	ip   netip.Addr // D: offered/updated address, U/O/M/S: the address
	nk   string
	name nameSpec
	d    int64
	z    bool
}

type nameSpec struct {
	name, model string
	exp         int64
	hasExp      bool
}

func (n nameSpec) String() string {
	if n.model == "" && !n.hasExp {
		if n.name == "" {
			return "-"
		}
		return n.name
	}
	e := ""
	if n.hasExp {
		e = strconv.FormatInt(n.exp, 10)
	}
	return n.name + "~" + n.model + "~" + e
}

func parseName(s string) (nameSpec, bool) {
	if s == "-" {
		return nameSpec{}, true
	}
	p := strings.Split(s, "~")
	switch len(p) {
	case 1:
		return nameSpec{name: p[0]}, true
	case 3:
		n := nameSpec{name: p[0], model: p[1]}
		if p[2] != "" {
			v, err := strconv.ParseInt(p[2], 10, 64)
			if err != nil {
				return n, false
			}
			n.exp, n.hasExp = v, true
		}
		return n, true
	}
	return nameSpec{}, false
}

func (n nameSpec) entry(typ string, v time.Time) packet.NameEntry {
	e := packet.NameEntry{Type: typ, Name: n.name, Model: n.model}
	if n.hasExp {
		e.Expire = v.Add(time.Duration(n.exp))
	}
	return e
}

func ipText(a netip.Addr) string {
	if !a.IsValid() {
		return "-"
	}
	return a.String()
}

func (h hop) String() string {
	switch h.k {
	case 'F':
		if h.nk != "" {
			return "F," + h.fr.String() + "," + h.nk + "," + h.name.String()
		}
		return "F," + h.fr.String()
	case 'P':
		return "P," + h.fr.String()
	case 'N', 'G', 'L':
		return string(h.k)
	case 'D':
		return "D," + hex.EncodeToString(h.mac) + "," + ipText(h.fr.ip) + "," + ipText(h.ip) + "," + h.name.String()
	case 'U', 'O':
		return string(h.k) + "," + hex.EncodeToString(h.mac) + "," + ipText(h.ip) + "," + h.name.String()
	case 'C', 'R':
		return string(h.k) + "," + hex.EncodeToString(h.mac)
	case 'T':
		return "T," + strconv.FormatInt(h.d, 10)
	case 'M':
		return "M," + ipText(h.ip) + "," + h.nk + "," + h.name.String()
	case 'S':
		if h.z {
			return "S," + ipText(h.ip) + ",z"
		}
		return "S," + ipText(h.ip) + "," + strconv.FormatInt(h.d, 10)
	}
	return "?"
}

func histString(hs []hop) string {
	p := make([]string, len(hs))
	for i, h := range hs {
		p[i] = h.String()
	}
	return "tbl.hist " + strings.Join(p, "|")
}

func validKind(k string) bool {
	switch k {
	case "dhcp4", "mdns", "ssdp", "llmnr", "nbns":
		return true
	}
	return false
}

func parseHop(s string) (h hop, ok bool) {
	f := strings.Split(s, ",")
	if len(f[0]) != 1 {
		return h, false
	}
	h.k = f[0][0]
	need := func(n int) bool { return len(f) == n }
	switch h.k {
	case 'F':
		if !need(2) && !need(4) {
			return h, false
		}
		if h.fr, ok = parseFrameSpec(f[1]); !ok {
			return h, false
		}
		if len(f) == 4 {
			h.nk = f[2]
			if !validKind(h.nk) {
				return h, false
			}
			if h.name, ok = parseName(f[3]); !ok {
				return h, false
			}
		}
		return h, true
	case 'P':
		if !need(2) {
			return h, false
		}
		h.fr, ok = parseFrameSpec(f[1])
		return h, ok
	case 'N', 'G', 'L':
		return h, need(1)
	case 'D':
		if !need(5) {
			return h, false
		}
		if h.mac, ok = parseMAC(f[1]); !ok || h.mac == nil {
			return h, false
		}
		src, ok1 := parseIP(f[2])
		if !ok1 || !src.Is4() {
			return h, false
		}
		h.fr = frameSpec{kind: "dhcp4", src: h.mac, ip: src}
		if h.ip, ok = parseIP(f[3]); !ok {
			return h, false
		}
		h.name, ok = parseName(f[4])
		return h, ok
	case 'U', 'O':
		if !need(4) {
			return h, false
		}
		if h.mac, ok = parseMAC(f[1]); !ok || h.mac == nil {
			return h, false
		}
		if h.ip, ok = parseIP(f[2]); !ok {
			return h, false
		}
		h.name, ok = parseName(f[3])
		return h, ok
	case 'C', 'R':
		if !need(2) {
			return h, false
		}
		h.mac, ok = parseMAC(f[1])
		return h, ok && h.mac != nil
	case 'T':
		if !need(2) {
			return h, false
		}
		v, err := strconv.ParseInt(f[1], 10, 64)
		h.d = v
		return h, err == nil && v >= 0 && v <= int64(48*time.Hour)
	case 'M':
		if !need(4) || !validKind(f[2]) {
			return h, false
		}
		if h.ip, ok = parseIP(f[1]); !ok {
			return h, false
		}
		h.nk = f[2]
		h.name, ok = parseName(f[3])
		return h, ok
	case 'S':
		if !need(3) {
			return h, false
		}
		if h.ip, ok = parseIP(f[1]); !ok {
			return h, false
		}
		if f[2] == "z" {
			h.z = true
			return h, true
		}
		v, err := strconv.ParseInt(f[2], 10, 64)
		h.d = v
		return h, err == nil && v <= int64(48*time.Hour) && v >= -int64(200*time.Hour)
	}
	return h, false
}

func parseHist(s string) ([]hop, bool) {
	s = strings.TrimSpace(s)
	if s == "" {
		return nil, true
	}
	var out []hop
	for _, p := range strings.Split(s, "|") {
		h, ok := parseHop(p)
		if !ok {
			return nil, false
		}
		out = append(out, h)
	}
	return out, true
}
