// Package c14: correspondence + oracle for C14 (ICMPv6 spoofing confined to hunted hosts; routers
// learned exactly).
//
//	nd.ra     function mode: router advertisements built by the independent option builder are fed
//	          through Session.Parse + Handler6.ProcessPacket of a fresh handler; the learned router
//	          table must equal the Lean model's and the independent Go decoder's reading.
//	nd.frame  function mode over RAW frames: generated frames (router advertisements with any hop limit /
//	          source address class / Ethernet source, payload-length mismatch, extension headers, 802.1Q tags,
//	          ICMPv6 carried by IPv4, other ICMPv6 types, truncation at every length, bit flips, random bytes)
//	          go through the real Session.Parse, the PayloadID dispatch and Handler6.ProcessPacket of a fresh
//	          handler; Parse result, returned error and router table vs the Lean composition
//	          `Model.Icmp6Frame.processFrame`, and vs an independent Go reading of the frame.
//	nd.trace  trace-acceptance mode: StartHunt/StopHunt/Close/RA sequences in real time on the real
//	          handler; the ordered log (API call/return, NA frames written) must be accepted by the
//	          Lean hunt machine and satisfy the Go-side oracle.  The recording connection can hold one
//	          forged NA inside WriteTo (steps a<m>, b<ms>): StopHunt / Close are then called while a
//	          batch is in flight – they must not return before the batch is on the wire.
package c14

import (
	"encoding/binary"
	"encoding/hex"
	"errors"
	"fmt"
	"net"
	"net/netip"
	"reflect"
	"sort"
	"strconv"
	"strings"
	"sync"
	"time"

	"github.com/irai/packet"
	"github.com/irai/packet/fastlog"
	"github.com/irai/packet/handlers/icmp_spoofer"
	"verif/harness/core"
	"verif/harness/ndpgen"
	"verif/harness/sess"
)

var raMu sync.Mutex // `repeat` is process-global: RA injections are serialised and set it explicitly

func hx(b []byte) string {
	if len(b) == 0 {
		return "-"
	}
	return hex.EncodeToString(b)
}

// ---------------------------------------------------------------------------------------------
// logging connection

type event struct {
	tok string
	at  time.Duration
}

type tlog struct {
	mu  sync.Mutex
	t0  time.Time
	evs []event
	nas []naFrame
}

type naFrame struct {
	at               time.Duration
	idx              int
	dstMAC, srcMAC   []byte
	dstIP, target    netip.Addr
	tlla             []byte
	override, router bool
	hop              byte
	raw              []byte
}

// refNA: independent reading of a forged neighbour advertisement on the wire (RFC 8200 header, RFC 4861 4.4
// layout, RFC 4443 checksum with pseudo header): our MAC as Ethernet source and target link-layer address, hop
// limit 255, IPv6 source = target address = the router's, flags = override only, checksum verifies.
func refNA(b, hostMAC []byte, wantDst []netip.Addr) string {
	if len(b) != 14+40+32 {
		return fmt.Sprintf("length %d, expected 86", len(b))
	}
	ip, icmp := b[14:54], b[54:]
	switch {
	case string(b[6:12]) != string(hostMAC):
		return "Ethernet source is not our MAC"
	case ip[0]>>4 != 6 || binary.BigEndian.Uint16(ip[4:6]) != 32 || ip[6] != 58:
		return "IPv6 header: version / payload length / next header"
	case ip[7] != 255:
		return fmt.Sprintf("hop limit %d", ip[7])
	case string(ip[8:24]) != string(icmp[8:24]):
		return "IPv6 source is not the router address being forged (= target address)"
	case icmp[0] != 136 || icmp[1] != 0:
		return "not type 136 code 0"
	case icmp[4] != 0x20 || icmp[5] != 0 || icmp[6] != 0 || icmp[7] != 0:
		return fmt.Sprintf("flags %02x%02x%02x%02x, expected override only (20000000)", icmp[4], icmp[5], icmp[6], icmp[7])
	case icmp[24] != 2 || icmp[25] != 1 || string(icmp[26:32]) != string(hostMAC):
		return "target link-layer address option is not our MAC"
	}
	dst := netip.AddrFrom16(*(*[16]byte)(ip[24:40]))
	okDst := false
	for _, w := range wantDst {
		if w == dst {
			okDst = true
		}
	}
	if !okDst {
		return fmt.Sprintf("IPv6 destination %s is neither the address StartHunt was given nor ff02::1 for an address-less target", dst)
	}
	// checksum over pseudo header + message
	sum := uint32(0)
	add := func(p []byte) {
		for i := 0; i+1 < len(p); i += 2 {
			sum += uint32(p[i])<<8 | uint32(p[i+1])
		}
	}
	add(ip[8:40])
	sum += 32 + 58
	add(icmp)
	for sum>>16 != 0 {
		sum = sum&0xffff + sum>>16
	}
	if sum != 0xffff {
		return "ICMPv6 checksum does not verify"
	}
	return ""
}

func (l *tlog) add(tok string) (int, time.Duration) {
	l.mu.Lock()
	defer l.mu.Unlock()
	at := time.Since(l.t0)
	l.evs = append(l.evs, event{tok, at})
	return len(l.evs) - 1, at
}

// gate holds one forged NA inside WriteTo: the frame is on the wire (and logged) only when WriteTo
// returns.  A held write is released by release() or, whatever the scenario does, after maxHold.
type gate struct {
	mu      sync.Mutex
	armed   []byte        // destination MAC whose next NA is held (nil: none)
	blocked chan struct{} // receives one token when a write is being held
	open    chan struct{} // closed to let the held write go on
}

const maxHold = 3 * time.Second

func newGate() *gate { return &gate{blocked: make(chan struct{}, 1), open: make(chan struct{})} }

func (g *gate) arm(mac []byte) {
	g.mu.Lock()
	g.armed = append([]byte{}, mac...)
	g.mu.Unlock()
}

func (g *gate) release() {
	g.mu.Lock()
	g.armed = nil
	select {
	case <-g.open:
	default:
		close(g.open)
	}
	g.mu.Unlock()
}

// hold blocks the calling WriteTo when the gate is armed for dst.
func (g *gate) hold(dst []byte) {
	g.mu.Lock()
	if g.armed == nil || string(g.armed) != string(dst) {
		g.mu.Unlock()
		return
	}
	g.armed = nil
	open := g.open
	g.mu.Unlock()
	select {
	case g.blocked <- struct{}{}:
	default:
	}
	select {
	case <-open:
	case <-time.After(maxHold):
	}
}

type lconn struct {
	log    *tlog
	gate   *gate
	closed chan struct{}
	once   sync.Once
}

func (c *lconn) ReadFrom(b []byte) (int, net.Addr, error) { <-c.closed; return 0, nil, net.ErrClosed }
func (c *lconn) WriteTo(b []byte, addr net.Addr) (int, error) {
	if len(b) >= 14+40+24 && b[12] == 0x86 && b[13] == 0xdd && b[20] == 58 && b[54] == 136 {
		l := c.log
		icmp := b[54:]
		f := naFrame{dstMAC: append([]byte{}, b[0:6]...), srcMAC: append([]byte{}, b[6:12]...), hop: b[21],
			dstIP: netip.AddrFrom16(*(*[16]byte)(b[38:54])), target: netip.AddrFrom16(*(*[16]byte)(icmp[8:24])),
			override: icmp[4]&0x20 != 0, router: icmp[4]&0x80 != 0}
		if len(icmp) >= 32 && icmp[24] == 2 && icmp[25] == 1 {
			f.tlla = append([]byte{}, icmp[26:32]...)
		}
		if c.gate != nil {
			c.gate.hold(f.dstMAC) // a slow link: the frame leaves when WriteTo returns
		}
		f.raw = append([]byte{}, b...)
		l.mu.Lock()
		f.at = time.Since(l.t0)
		f.idx = len(l.evs)
		t := f.target.As16()
		l.evs = append(l.evs, event{"N" + hx(f.dstMAC) + ":" + hx(t[:]) + ":" + hx(f.raw), f.at})
		l.nas = append(l.nas, f)
		l.mu.Unlock()
	}
	return len(b), nil
}
func (c *lconn) Close() error                       { c.once.Do(func() { close(c.closed) }); return nil }
func (c *lconn) LocalAddr() net.Addr                { return nil }
func (c *lconn) SetDeadline(t time.Time) error      { return nil }
func (c *lconn) SetReadDeadline(t time.Time) error  { return nil }
func (c *lconn) SetWriteDeadline(t time.Time) error { return nil }

func newHandler() (*packet.Session, *icmp_spoofer.Handler6, *tlog) {
	s, h, l, _ := newGatedHandler()
	return s, h, l
}

func newGatedHandler() (*packet.Session, *icmp_spoofer.Handler6, *tlog, *gate) {
	l := &tlog{t0: time.Now()}
	g := newGate()
	s, err := packet.Config{Conn: &lconn{log: l, gate: g, closed: make(chan struct{})}, NICInfo: sess.DefaultNIC()}.NewSession("")
	if err != nil {
		panic(err)
	}
	h, _ := icmp_spoofer.New6(s)
	return s, h, l, g
}

func frame6(srcMAC []byte, src, dst netip.Addr, payload []byte) []byte {
	b := make([]byte, 14+40+len(payload))
	copy(b[0:6], []byte{0x33, 0x33, 0, 0, 0, 1})
	copy(b[6:12], srcMAC)
	b[12], b[13] = 0x86, 0xdd
	ip := b[14:54]
	ip[0] = 0x60
	binary.BigEndian.PutUint16(ip[4:6], uint16(len(payload)))
	ip[6], ip[7] = 58, 255
	s, d := src.As16(), dst.As16()
	copy(ip[8:24], s[:])
	copy(ip[24:40], d[:])
	copy(b[54:], payload)
	return b
}

var allNodes = netip.MustParseAddr("ff02::1")

// poison overwrites a frame buffer the way the next received frame would.
func poison(b []byte) {
	for i := range b {
		b[i] = 0xee
	}
}

// ---------------------------------------------------------------------------------------------
// nd.ra – function mode

type raTok struct {
	rep     int
	h       bool
	eth, ip []byte
	payload []byte
}

func parseRaTok(t string) (raTok, bool) {
	f := strings.Split(t, "/")
	if len(f) != 5 {
		return raTok{}, false
	}
	rep, err := strconv.Atoi(f[0])
	if err != nil {
		return raTok{}, false
	}
	r := raTok{rep: rep, h: f[1] == "1", eth: core.UnHex(f[2]), ip: core.UnHex(f[3]), payload: core.UnHex(f[4])}
	if len(r.eth) != 6 || len(r.ip) != 16 {
		return raTok{}, false
	}
	return r, true
}

func (r raTok) String() string {
	h := "0"
	if r.h {
		h = "1"
	}
	return fmt.Sprintf("%d/%s/%s/%s/%s", r.rep, h, hx(r.eth), hx(r.ip), hx(r.payload))
}

func hdrCanon(r icmp_spoofer.Router) string {
	b := func(v bool) string {
		if v {
			return "1"
		}
		return "0"
	}
	// Router.Prefixes must be the prefixes of the stored options (what StartRADVS re-advertises); Router.MTU and
	// Router.RDNSS are only set for our own RADVS router: a learned router keeps them zero / nil
	pfx := "P1"
	if !reflect.DeepEqual(r.Prefixes, r.Options.Prefixes) && !(len(r.Prefixes) == 0 && len(r.Options.Prefixes) == 0) {
		pfx = "P0"
	}
	rd := "R-"
	if r.RDNSS != nil {
		rd = "R+"
	}
	return fmt.Sprintf("%d/%s/%s/%d/%d/%d/%d/%s/M%d/%s", r.CurHopLimit, b(r.ManagedFlag), b(r.OtherCondigFlag), r.Preference,
		uint64(r.DefaultLifetime/time.Second), r.ReacheableTime, r.RetransTimer, pfx, r.MTU, rd)
}

func routersCanon(h *icmp_spoofer.Handler6) (string, string) {
	list, def := h.VerifRouters()
	d := "-"
	if def.IsValid() {
		a := def.As16()
		d = hx(a[:])
	}
	if len(list) == 0 {
		return "-", d
	}
	items := []string{}
	for _, r := range list {
		a := r.Addr.IP.As16()
		items = append(items, fmt.Sprintf("%s@%s@%s@%s", hx(a[:]), hx(r.Addr.MAC), hdrCanon(r), strings.ReplaceAll(ndpgen.Canon(r.Options), " ", "|")))
	}
	sort.Strings(items)
	return strings.Join(items, ";"), d
}

func evalRa(c *core.Ctx, line string) *core.Case {
	f := strings.Fields(line)
	var toks []raTok
	for _, t := range f[1:] {
		r, ok := parseRaTok(t)
		if !ok {
			return nil
		}
		toks = append(toks, r)
	}
	if len(toks) == 0 {
		return nil
	}
	raMu.Lock()
	defer raMu.Unlock()
	var s *packet.Session
	var h *icmp_spoofer.Handler6
	res := ""
	hostMismatch := ""
	impl := "panic"
	ndpgen.Quietly(func() {
		impl = core.Safely(func() string {
			s, h, _ = newHandler()
			for i := range toks {
				t := &toks[i]
				icmp_spoofer.VerifSetRepeat(t.rep)
				// a receive loop reads every frame into the same buffer: the frame is processed in place and
				// the buffer is overwritten as soon as ProcessPacket has returned; the router table is read
				// only afterwards, so anything retained that aliases the packet shows up as garbage
				buf := frame6(t.eth, netip.AddrFrom16(*(*[16]byte)(t.ip)), allNodes, t.payload)
				fr, err := s.Parse(buf)
				// `pkt.Host != nil` is the host table's discovery rule on the sender, computed here from the frame
				// (not read back from the implementation): own MAC never, link-local always, global unless sent by the router
				src := netip.AddrFrom16(*(*[16]byte)(t.ip))
				t.h = string(t.eth) != string(sess.HostMAC) &&
					(src.IsLinkLocalUnicast() || (src.IsGlobalUnicast() && string(t.eth) != string(sess.RouterMAC)))
				if err == nil && (fr.Host != nil) != t.h {
					hostMismatch = fmt.Sprintf("Parse attached host=%v to the frame of an advertisement from %s (Ethernet source %s); the discovery rule says %v", fr.Host != nil, src, hx(t.eth), t.h)
				}
				if err == nil {
					err = h.ProcessPacket(fr)
				}
				poison(buf)
				if err == nil {
					res += "1"
				} else {
					res += "0"
				}
			}
			rt, def := routersCanon(h)
			return fmt.Sprintf("res=%s def=%s routers=%s", res, def, rt)
		})
	})
	if h != nil {
		h.Close()
	}
	ss := make([]string, len(toks))
	for i, t := range toks {
		ss[i] = t.String()
	}
	nl := "nd.ra " + strings.Join(ss, " ")
	return &core.Case{Line: nl, Impl: impl, Trivial: false,
		Cmp: func(a, b string) bool {
			return ndpgen.SameModuloPuny(strings.ReplaceAll(a, "|", " "), strings.ReplaceAll(b, "|", " "))
		},
		Oracle: func() (string, string) {
			if hostMismatch != "" {
				return hostMismatch, ""
			}
			return raOracle(toks, impl)
		}}
}

// raOracle: the learned table against the independent reference decoder.
func raOracle(toks []raTok, impl string) (string, string) {
	if impl == "panic" {
		return "ProcessPacket panicked on a router advertisement", ""
	}
	type ent struct{ mac, hdr, opts string }
	tbl := map[string]*ent{}
	def := "-"
	res := ""
	unclear := false
	for _, t := range toks {
		p := t.payload
		if len(p) < 16 {
			res += "0"
			continue
		}
		if (t.rep+1)%4 != 0 {
			res += "1"
			continue
		}
		if !t.h {
			res += "0"
			continue
		}
		ref, ok := ndpgen.RefDecode(p[16:])
		if ref.Unclear {
			unclear = true
		}
		if !ok {
			res += "0"
			continue
		}
		res += "1"
		fl := p[5]
		b := func(v bool) string {
			if v {
				return "1"
			}
			return "0"
		}
		hdr := fmt.Sprintf("%d/%s/%s/%d/%d/%d/%d/P1/M0/R-", p[4], b(fl >= 128), b(fl/64%2 == 1), fl/8%4,
			binary.BigEndian.Uint16(p[6:8]), binary.BigEndian.Uint32(p[8:12]), binary.BigEndian.Uint32(p[12:16]))
		k := hx(t.ip)
		e, found := tbl[k]
		if !found {
			mac := t.eth
			if len(ref.SLLA) == 6 {
				mac = ref.SLLA
			}
			e = &ent{mac: hx(mac)}
			tbl[k] = e
			def = k
		}
		e.hdr, e.opts = hdr, strings.ReplaceAll(ndpgen.RefCanon(ref), " ", "|")
	}
	keys := []string{}
	for k := range tbl {
		keys = append(keys, k)
	}
	sort.Strings(keys)
	items := []string{}
	for _, k := range keys {
		items = append(items, fmt.Sprintf("%s@%s@%s@%s", k, tbl[k].mac, tbl[k].hdr, tbl[k].opts))
	}
	rt := "-"
	if len(items) > 0 {
		rt = strings.Join(items, ";")
	}
	want := fmt.Sprintf("res=%s def=%s routers=%s", res, def, rt)
	if unclear {
		// outside the region where the reading of a DNSSL option is unambiguous: compare everything else
		strip := func(s string) string {
			out := []string{}
			for _, f := range strings.FieldsFunc(s, func(r rune) bool { return r == '|' || r == ' ' }) {
				if strings.HasPrefix(f, "dnssl=") {
					f = "dnssl=?"
				}
				out = append(out, f)
			}
			return strings.Join(out, " ")
		}
		if strip(impl) == strip(want) || strings.HasPrefix(impl, "res=") && strings.Split(impl, " ")[0] != strings.Split(want, " ")[0] {
			return "", ""
		}
	}
	if impl != want {
		return "router table after the advertisements differs from the independent decoder:\n  impl: " + impl + "\n  ref : " + want, ""
	}
	return "", ""
}

// ---------------------------------------------------------------------------------------------
// nd.trace – real-time scenarios
//
// scn steps (comma separated):  s<m>:<cls>  StartHunt(MAC m, address class n|4|l|g)
//                                x<m>:<cls>  StopHunt            c  Close
//                                r<k>:<rep>  inject an RA of router k with `repeat` set to rep first
//                                w<ms>       sleep
//                                a<m>        arm the gate: the next forged NA to MAC m is held inside WriteTo
//                                b<ms>       wait (at most 6 s) until a write is held, release it <ms> ms later
//                                            (the following step runs while the batch is in flight)

func macOf(m int) net.HardwareAddr { return net.HardwareAddr{0x02, 0xcc, 0, 0, 0, byte(m)} }
func addrOf(m int, cls byte) packet.Addr {
	a := packet.Addr{MAC: macOf(m)}
	switch cls {
	case '4':
		a.IP = netip.AddrFrom4([4]byte{192, 168, 0, byte(50 + m)})
	case 'l':
		a.IP = netip.MustParseAddr(fmt.Sprintf("fe80::50:%x", m))
	case 'g':
		a.IP = netip.MustParseAddr(fmt.Sprintf("2001:db8::%x", m))
	}
	return a
}
func routerMAC(k int) []byte    { return []byte{0x02, 0, 0, 0, 1, byte(k)} }
func routerIP(k int) netip.Addr { return netip.MustParseAddr(fmt.Sprintf("fe80::1:%x", k)) }

type apiOp struct {
	kind            byte // S X C R
	m               int
	cls             byte
	k               int
	callAt, retAt   time.Duration
	callIdx, retIdx int
	res             string
	huntLenAfter    int
	rep             int
}

const tail = 3300 * time.Millisecond

func runTrace(scn string) (evs []event, nas []naFrame, ops []*apiOp, hostMAC []byte, panicked string) {
	s, h, l, g := newGatedHandler()
	hostMAC = append([]byte{}, s.NICInfo.HostAddr4.MAC...)
	n := 0
	step := func(st string) {
		op, arg := st[0], st[1:]
		switch op {
		case 'w':
			ms, _ := strconv.Atoi(arg)
			time.Sleep(time.Duration(ms) * time.Millisecond)
		case 'a':
			m, _ := strconv.Atoi(arg)
			g.arm(macOf(m))
		case 'b':
			ms, _ := strconv.Atoi(arg)
			select {
			case <-g.blocked:
				time.AfterFunc(time.Duration(ms)*time.Millisecond, g.release)
			case <-time.After(6 * time.Second):
				g.release() // nothing was sent to that MAC: disarm
			}
		case 's', 'x':
			f := strings.Split(arg, ":")
			if len(f) != 2 || len(f[1]) != 1 {
				return
			}
			m, _ := strconv.Atoi(f[0])
			a := addrOf(m, f[1][0])
			o := &apiOp{m: m, cls: f[1][0]}
			k := n
			n++
			if op == 's' {
				o.kind = 'S'
				o.callIdx, o.callAt = l.add(fmt.Sprintf("Sc%d:%s:%c", k, hx(a.MAC), o.cls))
				st, err := h.StartHunt(a)
				switch {
				case err != nil:
					o.res = "e"
				case st == packet.StageNoChange:
					o.res = "n"
				default:
					o.res = "h"
				}
				o.retIdx, o.retAt = l.add(fmt.Sprintf("Sr%d:%s", k, o.res))
				o.huntLenAfter = h.VerifHuntLen()
			} else {
				o.kind = 'X'
				eff := "1"
				if a.IP.IsValid() && !a.IP.IsLinkLocalUnicast() {
					eff = "0"
				}
				o.res = eff
				o.callIdx, o.callAt = l.add(fmt.Sprintf("Xc%d:%s:%s", k, hx(a.MAC), eff))
				h.StopHunt(a)
				o.retIdx, o.retAt = l.add(fmt.Sprintf("Xr%d", k))
				o.huntLenAfter = h.VerifHuntLen()
			}
			ops = append(ops, o)
		case 'c':
			o := &apiOp{kind: 'C'}
			k := n
			n++
			o.callIdx, o.callAt = l.add(fmt.Sprintf("Cc%d", k))
			h.Close()
			o.retIdx, o.retAt = l.add(fmt.Sprintf("Cr%d", k))
			ops = append(ops, o)
		case 'r':
			f := strings.Split(arg, ":")
			if len(f) != 2 {
				return
			}
			rk, _ := strconv.Atoi(f[0])
			rep, _ := strconv.Atoi(f[1])
			opts := ndpgen.Join(ndpgen.LLA(1, routerMAC(rk)), ndpgen.MTU(1500))
			ra := ndpgen.RA(64, 0x40, 1800, 0, 0, opts)
			ip := routerIP(rk).As16()
			tok := raTok{rep: rep, h: true, eth: routerMAC(rk), ip: ip[:], payload: ra}
			o := &apiOp{kind: 'R', k: rk, rep: rep}
			k := n
			n++
			raMu.Lock()
			defer raMu.Unlock()
			icmp_spoofer.VerifSetRepeat(rep)
			o.callIdx, o.callAt = l.add(fmt.Sprintf("Rc%d:%s", k, tok.String()))
			var err error
			ndpgen.Quietly(func() {
				buf := frame6(tok.eth, routerIP(rk), allNodes, ra)
				fr, e := s.Parse(buf)
				if e == nil {
					e = h.ProcessPacket(fr)
				}
				err = e
				poison(buf) // the receive buffer is reused
			})
			o.res = "1"
			if err != nil {
				o.res = "0"
			}
			o.retIdx, o.retAt = l.add(fmt.Sprintf("Rr%d:%s", k, o.res))
			ops = append(ops, o)
		}
	}
	for _, st := range strings.Split(scn, ",") {
		if st == "" {
			continue
		}
		func() {
			defer func() {
				if r := recover(); r != nil {
					panicked = fmt.Sprintf("step %s panicked: %v", st, r)
				}
			}()
			step(st)
		}()
		if panicked != "" {
			break
		}
	}
	if panicked == "" {
		time.Sleep(tail)
	}
	g.release()
	l.mu.Lock()
	evs = append(evs, l.evs...)
	nas = append(nas, l.nas...)
	l.mu.Unlock()
	if panicked == "" { // a panic inside a critical section of the handler leaks its mutex: Close would block
		h.Close()
	}
	go s.Close() // sleeps one second
	return
}

func traceOracle(evs []event, nas []naFrame, ops []*apiOp, hostMAC []byte) (string, string) {
	hunted := map[int]bool{}
	// 1. API results, idempotence, set semantics of the hunt list
	for _, o := range ops {
		switch o.kind {
		case 'S':
			want := "h"
			switch o.cls {
			case '4':
				want = "e"
			case 'g':
				want = "n"
			}
			if o.res != want {
				return fmt.Sprintf("StartHunt(mac %d, class %c) returned %q, expected %q", o.m, o.cls, o.res, want), ""
			}
			if want == "h" {
				hunted[o.m] = true
			}
			if o.huntLenAfter != len(hunted) {
				return fmt.Sprintf("hunt list holds %d entries after StartHunt(mac %d, class %c); %d distinct MACs are hunted", o.huntLenAfter, o.m, o.cls, len(hunted)), ""
			}
		case 'X':
			if o.res == "1" {
				delete(hunted, o.m)
			}
			if o.huntLenAfter != len(hunted) {
				return fmt.Sprintf("hunt list holds %d entries after StopHunt(mac %d, class %c); %d distinct MACs are hunted", o.huntLenAfter, o.m, o.cls, len(hunted)), ""
			}
		}
	}
	// 2. every forged NA (log order: the log is totally ordered, a frame is logged when WriteTo returns)
	for _, f := range nas {
		m := int(f.dstMAC[5])
		// hunted interval: last accepted StartHunt called before the frame, no effective StopHunt / Close returned since
		state := "never"
		var since time.Duration
		for _, o := range ops {
			if o.kind == 'S' && o.m == m && o.res == "h" && o.callIdx < f.idx {
				state = "hunted"
			}
			if o.kind == 'X' && o.m == m && o.res == "1" && o.retIdx < f.idx && state == "hunted" {
				state = "stopped"
				since = f.at - o.retAt
			}
		}
		for _, o := range ops {
			if o.kind == 'C' && o.retIdx < f.idx && state != "never" {
				if state != "stopped" || f.at-o.retAt > since {
					since = f.at - o.retAt
				}
				state = "stopped"
				break
			}
		}
		switch {
		case state == "never":
			return fmt.Sprintf("forged NA to %s which was never hunted", hx(f.dstMAC)), ""
		case state == "stopped":
			return fmt.Sprintf("forged NA to %s written %v after StopHunt/Close had returned (no further forged advertisement may reach a host after StopHunt or Close)", hx(f.dstMAC), since), ""
		}
		learned := false
		for _, o := range ops {
			if o.kind == 'R' && o.res == "1" && (o.rep+1)%4 == 0 && o.callAt <= f.at && routerIP(o.k) == f.target {
				learned = true
			}
		}
		if !learned {
			return fmt.Sprintf("forged NA for %s before any router advertisement from it was processed", f.target), ""
		}
		if string(f.tlla) != string(hostMAC) || string(f.srcMAC) != string(hostMAC) || !f.override || f.hop != 255 {
			return fmt.Sprintf("forged NA malformed: tlla=%s src=%s override=%v hop=%d", hx(f.tlla), hx(f.srcMAC), f.override, f.hop), ""
		}
		// every field of the frame; destination = the address of an accepted StartHunt for this MAC (or ff02::1)
		var wantDst []netip.Addr
		for _, o := range ops {
			if o.kind == 'S' && o.m == m && o.res == "h" && o.callIdx < f.idx {
				if o.cls == 'l' {
					wantDst = append(wantDst, addrOf(m, 'l').IP)
				} else {
					wantDst = append(wantDst, allNodes)
				}
			}
		}
		if w := refNA(f.raw, hostMAC, wantDst); w != "" {
			return fmt.Sprintf("forged NA to %s for router %s is not the advertisement the property describes: %s", hx(f.dstMAC), f.target, w), ""
		}
	}
	// 2b. rate: one loop per MAC writes one NA per router and cycle (>= 2 s) unless an RA / Close wakes it
	for i, f := range nas {
		for j := i + 1; j < len(nas); j++ {
			g := nas[j]
			if string(g.dstMAC) != string(f.dstMAC) || g.target != f.target {
				continue
			}
			if g.at-f.at >= 1800*time.Millisecond {
				break
			}
			m := int(f.dstMAC[5])
			woken, starts, on := false, 0, false
			for _, o := range ops {
				if (o.kind == 'R' || o.kind == 'C') && o.callAt <= g.at && o.retAt >= f.at {
					woken = true
				}
				if o.kind == 'S' && o.m == m && o.res == "h" && !on && o.callAt <= g.at {
					starts++
					on = true
				}
				if o.kind == 'X' && o.m == m && o.res == "1" {
					on = false
				}
			}
			if !woken && starts <= 1 {
				return fmt.Sprintf("two forged NA (router %s) to %s only %v apart with no RA in between: more than one loop attacks the MAC", f.target, hx(f.dstMAC), g.at-f.at), ""
			}
			break
		}
	}
	// 3. periodic while hunted and a router is known: no silence longer than one cycle (2.8 s) + slack
	if len(ops) == 0 {
		return "", ""
	}
	end := ops[len(ops)-1].retAt + tail
	for _, o := range ops {
		if o.kind == 'C' && o.callAt < end {
			end = o.callAt
		}
	}
	routerAt := time.Duration(-1)
	for _, o := range ops {
		if o.kind == 'R' && o.res == "1" && (o.rep+1)%4 == 0 && routerAt < 0 {
			routerAt = o.retAt
		}
	}
	const maxGap = 3900 * time.Millisecond // cycle 2-2.8 s + 1.1 s slack for a loaded machine
	check := func(m int, a, b time.Duration) string {
		if b > end {
			b = end
		}
		if routerAt < 0 {
			return ""
		}
		if routerAt > a {
			a = routerAt
		}
		if b <= a {
			return ""
		}
		last := a
		for _, f := range nas {
			if int(f.dstMAC[5]) == m && f.at >= a && f.at <= b {
				if f.at-last > maxGap {
					return fmt.Sprintf("no forged NA to hunted mac %d for %v (cycle is 2-2.8 s)", m, f.at-last)
				}
				last = f.at
			}
		}
		if b-last > maxGap {
			return fmt.Sprintf("no forged NA to hunted mac %d for %v (cycle is 2-2.8 s)", m, b-last)
		}
		return ""
	}
	for m := 0; m < 8; m++ {
		var from time.Duration = -1
		for _, o := range ops {
			if o.kind == 'S' && o.m == m && o.res == "h" && from < 0 {
				from = o.retAt
			}
			if from >= 0 && o.kind == 'X' && o.m == m && o.res == "1" {
				if w := check(m, from, o.callAt); w != "" {
					return w, ""
				}
				from = -1
			}
		}
		if from >= 0 {
			if w := check(m, from, end); w != "" {
				return w, ""
			}
		}
	}
	return "", ""
}

func evalTrace(c *core.Ctx, line string) *core.Case {
	defer core.Tick() // liveness for the stall watchdog: traces run for seconds before their cases are added
	// traces run with the handler logger at debug level (output discarded): every log line of the handler and of its
	// spoof loops is formatted, so a panicking log call is a panic of the trace
	icmp_spoofer.Logger6.SetLevel(fastlog.LevelDebug)
	scn := ""
	for _, f := range strings.Fields(line) {
		if strings.HasPrefix(f, "scn=") {
			scn = f[4:]
		}
	}
	if scn == "" {
		return nil
	}
	evs, nas, ops, hostMAC, panicked := runTrace(scn)
	toks := make([]string, len(evs))
	for i, e := range evs {
		toks[i] = fmt.Sprintf("%s@%d", e.tok, e.at.Milliseconds())
	}
	nl := "nd.trace scn=" + scn + " host=" + hx(hostMAC) + " " + strings.Join(toks, " ")
	if panicked != "" {
		return &core.Case{Line: nl, Impl: "panic", Trivial: false,
			Oracle: func() (string, string) { return "the ICMPv6 handler panicked: " + panicked, "" }}
	}
	return &core.Case{Line: nl, Impl: "accept", Trivial: len(ops) == 0,
		Oracle: func() (string, string) { return traceOracle(evs, nas, ops, hostMAC) }}
}

// ---------------------------------------------------------------------------------------------
// nd.frame – raw frames through Parse + dispatch + ProcessPacket

func errClass(err error) string {
	switch {
	case err == nil:
		return "nil"
	case errors.Is(err, packet.ErrFrameLen):
		return "ErrFrameLen"
	case errors.Is(err, packet.ErrInvalidMAC):
		return "ErrInvalidMAC"
	case errors.Is(err, packet.ErrParseFrame):
		return "ErrParseFrame"
	}
	return "other"
}

// refRaFrame: independent reading of the frame (RFC 8200 fixed header at absolute offsets, ICMPv6 type 134
// directly after it, payload length filling the frame) and of the sender's place in the host table.
func refRaFrame(p []byte) (tok raTok, isRA bool) {
	if len(p) < 62 || p[6]&1 == 1 || p[12] != 0x86 || p[13] != 0xdd {
		return
	}
	if (int(p[18])<<8|int(p[19]))+54 != len(p) || p[20] != 58 || p[54] != 134 {
		return
	}
	src := netip.AddrFrom16(*(*[16]byte)(p[22:38]))
	esrc := p[6:12]
	tracked := string(esrc) != string(sess.HostMAC) &&
		(src.IsLinkLocalUnicast() || (src.IsGlobalUnicast() && string(esrc) != string(sess.RouterMAC)))
	return raTok{h: tracked, eth: append([]byte{}, esrc...), ip: append([]byte{}, p[22:38]...), payload: append([]byte{}, p[54:]...)}, true
}

func evalFrame(c *core.Ctx, line string) *core.Case {
	f := strings.Fields(line)
	if len(f) != 7 {
		return nil
	}
	rep, err := strconv.Atoi(f[5])
	if err != nil {
		return nil
	}
	p := core.UnHex(f[6])
	raMu.Lock()
	defer raMu.Unlock()
	var h *icmp_spoofer.Handler6
	table, ret := "", "-"
	impl := "panic"
	ndpgen.Quietly(func() {
		impl = core.Safely(func() string {
			var s *packet.Session
			s, h, _ = newHandler()
			icmp_spoofer.VerifSetRepeat(rep)
			buf := append([]byte{}, p...) // the receive buffer: processed in place, overwritten afterwards
			fr, perr := s.Parse(buf)
			// the dispatch of the library's packet loop: an error drops the frame, PayloadICMP6 goes to the ICMPv6 handler
			if perr == nil && fr.PayloadID == packet.PayloadICMP6 {
				ret = errClass(h.ProcessPacket(fr))
			}
			poison(buf)
			rt, def := routersCanon(h)
			table = fmt.Sprintf("def=%s routers=%s", def, rt)
			pe := 0
			if perr != nil {
				pe = 1
			}
			return fmt.Sprintf("perr=%d pid=%d ret=%s %s", pe, int(fr.PayloadID), ret, table)
		})
	})
	if h != nil && impl != "panic" {
		h.Close()
	}
	return &core.Case{Line: line, Impl: impl, Trivial: len(p) < 62,
		Cmp: func(a, b string) bool {
			return ndpgen.SameModuloPuny(strings.ReplaceAll(a, "|", " "), strings.ReplaceAll(strings.SplitN(b, " | ", 2)[0], "|", " "))
		},
		Oracle: func() (string, string) {
			if impl == "panic" {
				return "Parse / Handler6.ProcessPacket panicked on a raw frame", ""
			}
			tok, isRA := refRaFrame(p)
			if !isRA {
				if table != "def=- routers=-" {
					return "a frame that is not a router advertisement changed the router table: " + table, ""
				}
				return "", ""
			}
			tok.rep = rep
			res := "1"
			if ret != "nil" {
				res = "0"
			}
			return raOracle([]raTok{tok}, "res="+res+" "+table)
		}}
}

// genFrames: raw frames for the function mode.
func genFrames(c *core.Ctx) []string {
	r := c.Rnd
	lan := []byte{192, 168, 0, 0}
	prefix := fmt.Sprintf("nd.frame %s %s %s 24", hx(sess.HostMAC), hx(sess.RouterMAC), hx(lan))
	var lines []string
	emit := func(rep int, frame []byte) {
		lines = append(lines, fmt.Sprintf("%s %d %s", prefix, rep, hx(frame)))
	}
	srcs := []netip.Addr{routerIP(1), routerIP(2), netip.MustParseAddr("2001:db8::99"), netip.MustParseAddr("::"),
		netip.MustParseAddr("ff02::1"), netip.MustParseAddr("::1"), netip.MustParseAddr("fec0::1"), netip.MustParseAddr("::ffff:192.168.0.9")}
	mk := func() (int, []byte) {
		opts := ndpgen.RandOptions(r, 4)
		if r.Intn(5) == 0 {
			opts = ndpgen.Mutate(r, opts)
		}
		ra := ndpgen.RA(byte(r.Intn(256)), byte(r.Intn(256)), uint16(r.Intn(65536)), r.Uint32(), r.Uint32(), opts)
		src := srcs[0]
		if r.Intn(3) == 0 {
			src = srcs[r.Intn(len(srcs))]
		}
		esrc := routerMAC(1)
		switch r.Intn(8) {
		case 0:
			esrc = sess.RouterMAC
		case 1:
			esrc = sess.HostMAC
		}
		fr := frame6(esrc, src, allNodes, ra)
		if r.Intn(2) == 0 {
			fr[21] = byte(r.Intn(256)) // hop limit is not checked
		}
		rep := -1
		if r.Intn(5) == 0 {
			rep = r.Intn(6) - 2
		}
		return rep, fr
	}
	n := c.Scale(2500, 60000)
	for i := 0; i < n; i++ {
		rep, fr := mk()
		switch r.Intn(16) {
		case 0: // truncation at every length
			fr = fr[:r.Intn(len(fr)+1)]
		case 1: // trailing bytes / payload length mismatch
			if r.Intn(2) == 0 {
				fr = append(fr, make([]byte, 1+r.Intn(4))...)
			} else {
				fr[19] ^= byte(1 + r.Intn(7))
			}
		case 2: // 802.1Q / 802.1ad tag
			tag := [][]byte{{0x81, 0x00, 0x00, 0x05}, {0x88, 0xa8, 0x00, 0x05, 0x81, 0x00, 0x00, 0x06}}[r.Intn(2)]
			fr = append(append(append([]byte{}, fr[:12]...), tag...), fr[12:]...)
		case 3: // group bit in the Ethernet source
			fr[6] |= 1
		case 4: // hop-by-hop extension header in front of the ICMPv6 message
			ext := []byte{58, 0, 1, 4, 0, 0, 0, 0}
			icmp := append([]byte{}, fr[54:]...)
			fr = append(append(append([]byte{}, fr[:54]...), ext...), icmp...)
			fr[20] = 0
			binary.BigEndian.PutUint16(fr[18:20], uint16(len(fr)-54))
		case 5: // other next header
			fr[20] = []byte{17, 6, 1, 59, 0, 43, 44}[r.Intn(7)]
		case 6: // other ICMPv6 type
			fr[54] = []byte{133, 135, 136, 137, 128, 129, 130, 131, 143, 1, 2, 3, 200}[r.Intn(13)]
		case 7: // ICMPv6 carried by IPv4 (protocol 58): there is no IPv6 header
			icmp := append([]byte{}, fr[54:]...)
			ip4 := []byte{0x45, 0, 0, 0, 0, 0, 0, 0, 64, 58, 0, 0, 192, 168, 0, 9, 192, 168, 0, 129}
			binary.BigEndian.PutUint16(ip4[2:4], uint16(20+len(icmp)))
			fr = append(append(append([]byte{}, fr[:12]...), 0x08, 0x00), append(ip4, icmp...)...)
			if r.Intn(2) == 0 {
				fr[14+20] = []byte{135, 134, 200, 136}[r.Intn(4)]
			}
		case 8: // short ICMPv6 message: 0..15 bytes
			k := r.Intn(16)
			fr = fr[:54+k]
			binary.BigEndian.PutUint16(fr[18:20], uint16(k))
		case 9: // bit flip anywhere
			fr[r.Intn(len(fr))] ^= byte(1 << uint(r.Intn(8)))
		case 10: // other EtherType
			et := []uint16{0x0800, 0x0806, 0x86de, 0x05dc, 0x88cc}[r.Intn(5)]
			fr[12], fr[13] = byte(et>>8), byte(et)
		case 11: // random bytes
			fr = c.RandBytes(r.Intn(120))
		}
		emit(rep, fr)
	}
	// truncation of one well-formed advertisement at every length
	base := frame6(routerMAC(1), routerIP(1), allNodes, ndpgen.RA(64, 0x40, 1800, 0, 0, ndpgen.Join(ndpgen.LLA(1, routerMAC(1)), ndpgen.MTU(1500))))
	for k := 0; k <= len(base); k++ {
		fr := append([]byte{}, base[:k]...)
		emit(-1, fr)
		if k >= 54 { // … and with the payload length field following the truncation
			g := append([]byte{}, fr...)
			binary.BigEndian.PutUint16(g[18:20], uint16(k-54))
			emit(-1, g)
		}
	}
	return lines
}

func Eval(c *core.Ctx, line string) *core.Case {
	switch {
	case strings.HasPrefix(line, "nd.frame "):
		return evalFrame(c, line)
	case strings.HasPrefix(line, "nd.ra "):
		return evalRa(c, line)
	case strings.HasPrefix(line, "nd.trace "):
		return evalTrace(c, line)
	}
	return nil
}

func add(c *core.Ctx, class, line string) {
	if cs := Eval(c, line); cs != nil {
		cs.Class = class
		c.Add(*cs)
	}
}

func genScenario(c *core.Ctx) string {
	r := c.Rnd
	var st []string
	nm := 1 + r.Intn(3)
	cls := "lnln4g"
	routerKnown := false
	steps := 3 + r.Intn(5)
	for i := 0; i < steps; i++ {
		switch x := r.Intn(10); {
		case x < 3:
			st = append(st, fmt.Sprintf("s%d:%c", r.Intn(nm), cls[r.Intn(len(cls))]))
		case x < 5:
			st = append(st, fmt.Sprintf("x%d:%c", r.Intn(nm), "lnlng4"[r.Intn(6)]))
		case x < 7:
			rep := -1
			if r.Intn(4) == 0 {
				rep = r.Intn(3)
			}
			st = append(st, fmt.Sprintf("r%d:%d", 1+r.Intn(2), rep))
			routerKnown = routerKnown || rep == -1
		case x < 8 && i > 2:
			st = append(st, "c")
		case x == 8 && routerKnown && i > 1:
			// StopHunt / Close / StartHunt / RA while a batch is in flight (held inside WriteTo)
			m := r.Intn(nm)
			st = append(st, fmt.Sprintf("a%d", m), fmt.Sprintf("b%d", []int{150, 400}[r.Intn(2)]))
			switch r.Intn(4) {
			case 0:
				st = append(st, "c")
			case 1:
				st = append(st, fmt.Sprintf("s%d:l", r.Intn(nm)))
			default:
				st = append(st, fmt.Sprintf("x%d:%c", m, "ln"[r.Intn(2)]))
			}
		default:
			st = append(st, fmt.Sprintf("w%d", []int{5, 50, 400, 1200, 2300}[r.Intn(5)]))
		}
	}
	return strings.Join(st, ",")
}

// Gen is the C14 correspondence run.
func Gen(c *core.Ctx) {
	c.Res.Rule = "nd.frame: raw frames (router advertisements with option lists from the independent builder, any hop limit, link-local / global / unspecified / multicast / loopback / site-local / IPv4-mapped sources, Ethernet source = a neighbour / the router / ourselves / a group address, payload length mismatch and trailing bytes, hop-by-hop header, other next headers, other ICMPv6 types, ICMPv6 carried by IPv4, ICMPv6 messages of 0..15 bytes, 802.1Q / 802.1ad tags, other EtherTypes, truncation at every length, bit flips, random bytes; throttle open and closed) through Session.Parse, the PayloadID dispatch and Handler6.ProcessPacket of a fresh handler – Parse result, returned error and router table vs the Lean composition processFrame vs an independent Go reading of the frame.  nd.ra: sequences of 1–3 router advertisements (random fixed part, option lists from the independent builder: prefix, MTU, RDNSS, DNSSL, route information, source/target LLA, unknown types; mutated option areas incl. zero-length and truncated options; throttle open and closed; known and unknown senders; repeated senders) processed in place by a fresh handler, the frame buffer overwritten after every ProcessPacket as a receive loop does, the table read afterwards – learned table vs Lean model vs independent Go decoder.  nd.trace: real-time scenarios (StartHunt/StopHunt over up to 3 MACs with IPv4, global, link-local and address-less targets, Close, router advertisements, router advertisements after Close, pauses up to 2.3 s, 3.3 s tail; StopHunt / Close / StartHunt called while a forged NA is held inside the connection's WriteTo – a batch in flight) run in parallel, one handler each; the ordered log must be accepted by the Lean hunt machine (StopHunt / Close take the mutex the sending loop holds: an NA after their return has no interleaving); the oracle checks every NA (hunted – none after StopHunt/Close returned –, router learned, fields), the API results, list size and the cycle period"
	for _, l := range c.CorpusLines() {
		add(c, "corpus", l)
	}
	r := c.Rnd
	eth := func(k int) []byte { return routerMAC(k) }
	mk := func(rep int, k int, src netip.Addr, opts []byte) raTok {
		ip := src.As16()
		return raTok{rep: rep, h: true, eth: eth(k), ip: ip[:],
			payload: ndpgen.RA(byte(r.Intn(256)), byte(r.Intn(256)), uint16(r.Intn(65536)), r.Uint32(), r.Uint32(), opts)}
	}
	n := c.Scale(6000, 300000)
	boundary := ndpgen.Boundary(r)
	for i := 0; i < n+len(boundary); i++ {
		cnt := 1 + r.Intn(3)
		if i >= n {
			cnt = 1
		}
		toks := []string{}
		for j := 0; j < cnt; j++ {
			opts := ndpgen.RandOptions(r, 5)
			if i >= n {
				// every option type x size x inner-length threshold (ndpgen.Boundary), one advertisement each
				opts = boundary[i-n]
			} else if r.Intn(4) == 0 {
				opts = ndpgen.Mutate(r, opts)
			}
			rep := -1
			if r.Intn(6) == 0 {
				rep = r.Intn(8) - 2
			}
			k := 1 + r.Intn(2)
			src := routerIP(k)
			switch r.Intn(12) {
			case 0:
				src = allNodes // sender not in the host table
			case 1:
				src = netip.MustParseAddr("2001:db8::99")
			}
			t := mk(rep, k, src, opts)
			if r.Intn(20) == 0 {
				t.payload = t.payload[:r.Intn(len(t.payload)+1)]
				if len(t.payload) < 8 {
					t.payload = append(t.payload, make([]byte, 8-len(t.payload))...)
					t.payload[0] = 134
				}
			}
			toks = append(toks, t.String())
		}
		add(c, "ra", "nd.ra "+strings.Join(toks, " "))
	}
	// raw frames through Parse + dispatch + ProcessPacket
	for _, l := range genFrames(c) {
		add(c, "frame", l)
	}
	// real-time scenarios, in parallel
	fixed := []string{
		"s0:l,r1:-1,w2500,x0:l", "r1:-1,s0:n,w300,x0:n", "s0:l,w300,r1:-1,w2600,c", "s0:4,s0:g,r1:-1,w500",
		"s0:l,s0:l,s0:n,r1:-1,r2:-1,w2900,x0:g,w300,x0:l", "s0:l,s1:n,r1:0,w600,r1:-1,w400,x0:l,w2500,x1:n",
		"r1:-1,s0:l,w100,x0:l,w50,s0:l,w2900,x0:l", "s0:l,r1:-1,c,w200,s1:l,r2:-1",
		// several cycles while hunted (the periodic bound needs more than one cycle): LLA target and address-less target
		"s0:l,r1:-1,w2900,w2900,w2900,x0:l", "r1:-1,r2:-1,s0:n,s1:l,w2900,w2900,w1500,x1:l,w2900,x0:n",
		// StopHunt / Close called while a forged NA is held inside WriteTo: they return only after the batch
		"s0:l,a0,r1:-1,b500,x0:l,w300", "s0:n,r1:-1,r2:-1,w200,a0,b500,c,w300", "s0:l,s1:n,r1:-1,r2:-1,a1,b400,x1:n,w200,a0,b400,x0:l",
		"s0:l,a0,r1:-1,b300,x0:l,s0:l,w2500,x0:l",
		// a router advertisement delivered after Close while the hunt list is not empty
		"s0:l,c,r1:-1,w100", "s0:l,s1:n,r1:-1,w100,c,r1:-1,r2:-1",
	}
	ns := c.Scale(24, 400)
	scns := append([]string{}, fixed...)
	for i := 0; i < ns; i++ {
		scns = append(scns, genScenario(c))
	}
	cases := make([]*core.Case, len(scns))
	par := c.Scale(32, 48)
	sem := make(chan struct{}, par)
	var wg sync.WaitGroup
	for i, sc := range scns {
		wg.Add(1)
		sem <- struct{}{}
		go func(i int, sc string) {
			defer wg.Done()
			defer func() { <-sem }()
			cases[i] = evalTrace(c, "nd.trace scn="+sc)
		}(i, sc)
	}
	wg.Wait()
	for i, cs := range cases {
		if cs != nil {
			cs.Class = "trace"
			if i < len(fixed) {
				cs.Class = "trace-fixed"
			}
			c.Add(*cs)
		}
	}
	c.Res.Extra["traces_validated_against_impl"] = len(scns)
}

var Runner = core.Runner{Gen: Gen, Eval: Eval}

// FrameRunner is the raw-frame function mode alone (Parse + dispatch + Handler6.ProcessPacket on any bytes);
// C08 ("no input panics") runs it as one of its areas.
var FrameRunner = core.Runner{
	Gen: func(c *core.Ctx) {
		c.Res.Rule = "nd.frame: raw frames through Session.Parse, the PayloadID dispatch and Handler6.ProcessPacket (see C14)"
		for _, l := range genFrames(c) {
			add(c, "nd-frame", l)
		}
	},
	Eval: func(c *core.Ctx, line string) *core.Case {
		if strings.HasPrefix(line, "nd.frame ") {
			return evalFrame(c, line)
		}
		return nil
	},
}

// GenFrameLines exposes the raw-frame generator (nd.frame lines), RoutersCanon the router-table dump, to the
// C08 handler-body harness.
func GenFrameLines(c *core.Ctx) []string { return genFrames(c) }

func RoutersCanon(h *icmp_spoofer.Handler6) (string, string) { return routersCanon(h) }
