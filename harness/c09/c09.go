// Package c09: randomized multi-core stress of the supported concurrency pattern under the race
// detector (the binary is built with -race): one packet goroutine (Parse → handlers → Notify),
// the purge, the spoofing loops and N API callers.  This is exploration / search support for C09 —
// the lock-protocol theorems are in Props/C09*.lean.  Observed: data races (GORACE log files parsed by
// ./check), recovered panics, watchdog (no progress ⇒ deadlock suspicion), the C05 table invariants
// at quiescent points, goroutine count after Close.
package c09

import (
	"fmt"
	"math/rand"
	"net"
	"net/netip"
	"os"
	"runtime"
	"strings"
	"sync"
	"sync/atomic"
	"time"

	"github.com/irai/packet"
	arp "github.com/irai/packet/handlers/arp_spoofer"
	icmp "github.com/irai/packet/handlers/icmp_spoofer"
	"verif/harness/core"
	"verif/harness/frames"
	"verif/harness/sess"
)

var (
	hostMAC   = []byte{2, 0, 0, 0, 0, 1}
	routerMAC = []byte{2, 0, 0, 0, 0, 0x11}
	bcast     = []byte{0xff, 0xff, 0xff, 0xff, 0xff, 0xff}
)

func clientMAC(i int) []byte { return []byte{2, 0, 0, 0, 1, byte(i)} }
func clientIP(i int) []byte  { return []byte{192, 168, 0, byte(20 + i)} }
func clientLLA(i int) []byte {
	return []byte{0xfe, 0x80, 0, 0, 0, 0, 0, 0, 0, 0, 0, 0, 0, 0, 1, byte(i)}
}

// routerAdvertisement is what the LAN router multicasts every few seconds: ProcessPacket wakes the
// ICMPv6 spoof loops (it replaces the wake-up channel they select on) and learns the router, after
// which the loops write forged neighbour advertisements.
func routerAdvertisement(k int) []byte {
	rmac := []byte{2, 0, 0, 0, 0, byte(0x11 + k)}
	lla := []byte{0xfe, 0x80, 0, 0, 0, 0, 0, 0, 0, 0, 0, 0, 0, 0, 0, byte(0x11 + k)}
	ra := frames.RA(64, 0x40, 1800, append(frames.RASLLAOpt(rmac), frames.RAMTUOpt(1500)...))
	return frames.Ether([]byte{0x33, 0x33, 0, 0, 0, 1}, rmac, 0x86dd, 0, frames.IP6(frames.IP6Opts{PayloadLen: -1, Next: 58, Hop: 255, Src: lla,
		Dst: []byte{0xff, 2, 0, 0, 0, 0, 0, 0, 0, 0, 0, 0, 0, 0, 0, 1}}, ra))
}

func frameFor(r *rand.Rand) []byte {
	i := r.Intn(6)
	if r.Intn(12) == 0 {
		return routerAdvertisement(r.Intn(2))
	}
	switch r.Intn(6) {
	case 0:
		return frames.Ether(bcast, clientMAC(i), 0x0806, 0, frames.ARP(1+r.Intn(2), 6, 4, clientMAC(i), clientIP(r.Intn(6)), bcast, []byte{192, 168, 0, 11}))
	case 1:
		return frames.Ether(hostMAC, clientMAC(i), 0x86dd, 0, frames.IP6(frames.IP6Opts{PayloadLen: -1, Next: 58, Hop: 255, Src: clientLLA(i), Dst: clientLLA(7)}, frames.ICMP(135, 0, 0, 0, append(clientLLA(9), 1, 1, 2, 0, 0, 0, 1, byte(i)))))
	case 2:
		return frames.Ether(hostMAC, clientMAC(i), 0x0800, 0, frames.IP4(frames.IP4Opts{TotalLen: -1, Proto: 1, Src: clientIP(i), Dst: []byte{192, 168, 0, 129}, TTL: 9}, frames.ICMP(0, 0, r.Intn(4), 1, []byte("x"))))
	default:
		sp := frames.Pick(r, frames.Ports)
		return frames.Ether(hostMAC, clientMAC(i), 0x0800, 0, frames.IP4(frames.IP4Opts{TotalLen: -1, Proto: 17, Src: clientIP(r.Intn(8)), Dst: []byte{8, 8, 8, 8}, TTL: 9}, frames.UDP(sp, 53, -1, []byte{1, 2, 3, 4})))
	}
}

func tableInvariant(s *packet.Session) string { return sess.TableInvariant(s) }

type stats struct{ frames, api, purges, notifs int64 }

func round(c *core.Ctx, seed int64, dur time.Duration, nAPI int) (problems []string, st stats) {
	var mu sync.Mutex
	report := func(s string) {
		mu.Lock()
		problems = append(problems, s)
		mu.Unlock()
	}
	guard := func(name string, f func()) {
		defer func() {
			if r := recover(); r != nil {
				buf := make([]byte, 2048)
				n := runtime.Stack(buf, false)
				report(fmt.Sprintf("panic in %s goroutine: %v\n%s", name, r, buf[:n]))
			}
		}()
		f()
	}
	s, conn := sess.New(nil)
	conn.FailEvery = 5 + int(seed%4) // write faults: every 5th..8th frame is not sent (a failed write must not leave a lock behind)
	ah, err := arp.New(s)
	if err != nil {
		return []string{"arp.New: " + err.Error()}, st
	}
	h6, err := icmp.New6(s)
	if err != nil {
		return []string{"icmp.New6: " + err.Error()}, st
	}
	base := runtime.NumGoroutine()
	stop := make(chan struct{})
	var wg sync.WaitGroup
	var progress int64
	// notification drainer
	wg.Add(1)
	go func() {
		defer wg.Done()
		for {
			select {
			case _, ok := <-s.C:
				if !ok {
					return
				}
				atomic.AddInt64(&st.notifs, 1)
			case <-stop:
				return
			}
		}
	}()
	// packet loop
	wg.Add(1)
	go guard("packet", func() {
		defer wg.Done()
		r := rand.New(rand.NewSource(seed))
		buf := make([]byte, packet.EthMaxSize)
		for {
			select {
			case <-stop:
				return
			default:
			}
			fr := frameFor(r)
			n := copy(buf, fr)
			frame, err := s.Parse(buf[:n])
			if err == nil {
				switch frame.PayloadID {
				case packet.PayloadARP:
					ah.ProcessPacket(frame)
				case packet.PayloadICMP6:
					h6.ProcessPacket(frame)
				}
				s.Notify(frame)
			}
			atomic.AddInt64(&st.frames, 1)
			atomic.AddInt64(&progress, 1)
			if r.Intn(8) == 0 {
				runtime.Gosched()
			}
		}
	})
	// purge with virtual time running ahead
	wg.Add(1)
	go guard("purge", func() {
		defer wg.Done()
		r := rand.New(rand.NewSource(seed + 1))
		for {
			select {
			case <-stop:
				return
			case <-time.After(time.Duration(1+r.Intn(5)) * time.Millisecond):
			}
			ahead := []time.Duration{0, 3 * time.Minute, 6 * time.Minute, 62 * time.Minute}[r.Intn(4)]
			s.VerifPurge(time.Now().Add(ahead))
			atomic.AddInt64(&st.purges, 1)
			atomic.AddInt64(&progress, 1)
		}
	})
	// API callers
	for k := 0; k < nAPI; k++ {
		wg.Add(1)
		k := k
		go guard("api", func() {
			defer wg.Done()
			r := rand.New(rand.NewSource(seed + 10 + int64(k)))
			for {
				select {
				case <-stop:
					return
				default:
				}
				i := r.Intn(6)
				mac := net.HardwareAddr(clientMAC(i))
				ip := netip.AddrFrom4(*(*[4]byte)(clientIP(i)))
				switch r.Intn(17) {
				case 0:
					s.FindIP(ip)
				case 1:
					for _, h := range s.GetHosts() {
						_ = h.Addr
					}
				case 2:
					s.IPAddrs(mac)
				case 3:
					s.FindByMAC(mac)
				case 4:
					s.FindMACEntry(mac)
				case 5:
					s.PrintTable()
				case 6:
					s.Capture(mac)
				case 7:
					s.Release(mac)
				case 8:
					s.IsCaptured(mac)
				case 9:
					s.SetDHCPv4IPOffer(mac, ip, packet.NameEntry{Name: "n"})
					s.DHCPv4IPOffer(mac)
				case 10:
					ah.StartHunt(packet.Addr{MAC: mac, IP: ip})
				case 11:
					ah.StopHunt(packet.Addr{MAC: mac, IP: ip})
				case 12:
					ah.IsHunting(ip)
				case 13:
					h6.StartHunt(packet.Addr{MAC: mac, IP: netip.AddrFrom16(*(*[16]byte)(clientLLA(i)))})
				case 14:
					h6.StopHunt(packet.Addr{MAC: mac, IP: netip.AddrFrom16(*(*[16]byte)(clientLLA(i)))})
				case 15:
					s.FindIP(ip)
					ah.IsHunting(ip)
				case 16:
					// the router table is read by API callers while the packet loop learns from router advertisements
					rt := h6.FindRouter(netip.AddrFrom16([16]byte{0xfe, 0x80, 0, 0, 0, 0, 0, 0, 0, 0, 0, 0, 0, 0, 0, byte(0x11 + i%2)}))
					_ = rt.ManagedFlag
				}
				atomic.AddInt64(&st.api, 1)
				atomic.AddInt64(&progress, 1)
				if r.Intn(4) == 0 {
					time.Sleep(time.Duration(r.Intn(200)) * time.Microsecond)
				}
			}
		})
	}
	// watchdog
	deadline := time.After(dur)
	last := int64(-1)
	tick := time.NewTicker(10 * time.Second)
loop:
	for {
		select {
		case <-deadline:
			break loop
		case <-tick.C:
			p := atomic.LoadInt64(&progress)
			if p == last {
				buf := make([]byte, 1<<16)
				n := runtime.Stack(buf, true)
				report("watchdog: no goroutine made progress for 10 s (deadlock?)\n" + string(buf[:n]))
				break loop
			}
			last = p
		}
	}
	tick.Stop()
	close(stop)
	done := make(chan struct{})
	go func() { wg.Wait(); close(done) }()
	select {
	case <-done:
	case <-time.After(30 * time.Second):
		report("goroutines did not stop within 30 s after the stop signal")
		// the blocked goroutines still own the counters and the problem list: hand back private copies
		mu.Lock()
		ps := append([]string{}, problems...)
		mu.Unlock()
		return ps, stats{atomic.LoadInt64(&st.frames), atomic.LoadInt64(&st.api), atomic.LoadInt64(&st.purges), atomic.LoadInt64(&st.notifs)}
	}
	// quiescent point: table invariants
	if inv := tableInvariant(s); inv != "" {
		report("table invariant broken at quiescence: " + inv)
	}
	guard("printtable", func() { s.PrintTable() })
	// the packet loop notices a Close late: one more router advertisement is delivered to a closed
	// handler whose hunt list is not empty (StartHunt, Close, RA)
	guard("icmp6 hunt", func() {
		h6.StartHunt(packet.Addr{MAC: net.HardwareAddr(clientMAC(7)), IP: netip.AddrFrom16(*(*[16]byte)(clientLLA(7)))})
	})
	guard("close", func() {
		ah.Close()
		h6.Close()
	})
	raDone := make(chan struct{})
	go func() {
		defer close(raDone)
		guard("router advertisement after Close (StartHunt, Close, RA)", func() {
			for k := 0; k < 4; k++ { // the handler looks at every fourth advertisement
				buf := routerAdvertisement(k % 2)
				if frame, err := s.Parse(buf); err == nil {
					h6.ProcessPacket(frame)
				}
			}
		})
	}()
	select {
	case <-raDone:
	case <-time.After(30 * time.Second):
		report("ProcessPacket(router advertisement) after Close did not return within 30 s")
	}
	// the application's goroutines notice a Close late as well: every API call once more on the closed handlers
	// (a call may refuse, it must not panic or block); hunts started here are stopped again
	lateDone := make(chan struct{})
	go func() {
		defer close(lateDone)
		for i := 0; i < 3; i++ {
			mac, ip := net.HardwareAddr(clientMAC(8+i)), netip.AddrFrom4(*(*[4]byte)(clientIP(8 + i)))
			lla := netip.AddrFrom16(*(*[16]byte)(clientLLA(8 + i)))
			guard("arp StartHunt after Close", func() { ah.StartHunt(packet.Addr{MAC: mac, IP: ip}) })
			guard("arp IsHunting after Close", func() { ah.IsHunting(ip) })
			guard("arp StopHunt after Close", func() { ah.StopHunt(packet.Addr{MAC: mac, IP: ip}) })
			guard("arp PrintTable after Close", func() { ah.PrintTable() })
			guard("icmp6 StartHunt after Close", func() { h6.StartHunt(packet.Addr{MAC: mac, IP: lla}) })
			guard("icmp6 StopHunt after Close", func() { h6.StopHunt(packet.Addr{MAC: mac, IP: lla}) })
			guard("icmp6 FindRouter after Close", func() { h6.FindRouter(lla) })
			guard("icmp6 PrintTable after Close", func() { h6.PrintTable() })
			guard("arp Close twice", func() { ah.Close() })
			guard("icmp6 Close twice", func() { h6.Close() })
		}
	}()
	select {
	case <-lateDone:
	case <-time.After(30 * time.Second):
		buf := make([]byte, 1<<16)
		report("an API call on a closed handler did not return within 30 s\n" + string(buf[:runtime.Stack(buf, true)]))
	}
	guard("close session", func() {
		s.VerifStop() // Close() without the second close of closeChan (sess.New stopped the timers)
	})
	time.Sleep(300 * time.Millisecond)
	if n := runtime.NumGoroutine(); n > base {
		// spoof loops end at their next check; give them one more cycle
		time.Sleep(8 * time.Second)
		if n = runtime.NumGoroutine(); n > base {
			report(fmt.Sprintf("Close left background goroutines running: %d before the run, %d after Close", base, n))
		}
	}
	return
}

func Gen(c *core.Ctx) {
	c.Res.Rule = "stress rounds: one packet goroutine (Parse→ARP/ICMPv6 handlers→Notify; ARP, NS, echo, UDP and router advertisements that wake the ICMPv6 hunt loops) + purge with virtual time + N API goroutines over 17 API calls (incl. Handler6.FindRouter) + notification drainer, random yields/sleeps, under the Go race detector; per round: recovered panics, watchdog, C05 invariant and PrintTable at quiescence, StartHunt→Close→router advertisement, goroutine count after Close. evaluations = API calls + frames + purges; distinct = rounds × goroutine mixes (measured as distinct (seed, nAPI) pairs)"
	rounds := c.Scale(2, 12)
	per := time.Duration(c.Scale(2500, 8000)) * time.Millisecond
	total := stats{}
	mixes := map[string]bool{}
	for i := 0; i < rounds; i++ {
		nAPI := []int{2, 4, 8, 14}[(int(c.Seed)+i)%4]
		seed := c.Seed*1000 + int64(i)
		mixes[fmt.Sprintf("%d/%d", seed, nAPI)] = true
		probs, st := round(c, seed, per, nAPI)
		total.frames += st.frames
		total.api += st.api
		total.purges += st.purges
		total.notifs += st.notifs
		for _, p := range probs {
			c.Violate(core.Violation{Kind: "property", What: p, Replay: []string{fmt.Sprintf("stress seed=%d apiGoroutines=%d duration=%s", seed, nAPI, per)}})
		}
	}
	c.Res.Evaluations = int(total.frames + total.api + total.purges)
	c.Res.Extra["frames_parsed"] = total.frames
	c.Res.Extra["api_calls"] = total.api
	c.Res.Extra["purges"] = total.purges
	c.Res.Extra["notifications"] = total.notifs
	c.Res.Extra["rounds"] = rounds
	c.Res.Extra["race_detector"] = strings.Contains(strings.Join(os.Environ(), " "), "GORACE")
	for k := range mixes {
		c.Res.Samples = append(c.Res.Samples, "stress "+k)
	}
	c.Res.Extra["distinct_override"] = len(mixes) * 16
}

func Eval(c *core.Ctx, line string) *core.Case { return nil }

var Runner = core.Runner{Gen: Gen, Eval: Eval}
