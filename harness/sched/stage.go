package sched

import (
	"fmt"
	"os"
	"sort"
	"strconv"
	"strings"

	"verif/harness/core"
)

// Scenario is one family of two-goroutine histories with the oracle of the properties it serves.
type Scenario struct {
	Name string
	// Props: the properties whose statement the oracle evaluates (the scenario runs in their checks).
	Props []string
	// Entries: the library functions whose critical sections the scenario interleaves (names as in
	// Gen/AtomicFacts); when the atomicity tie is broken ./check passes the changed functions as a hint and
	// the matching scenarios are run with more repetitions.
	Entries []string
	// Variants: the operation pair / park point enumeration, 0 … Variants-1.
	Variants int
	// Slow scenarios (≥ 1 s per run) are run once per check only.
	Slow bool
	// Run executes variant v; what == "" when the property held on the history, else the description of the
	// failure; trace is the schedule that was executed.
	Run func(v int, seed int64) (what, trace string)
}

var scenarios []Scenario

func register(s Scenario) { scenarios = append(scenarios, s) }

func serves(s Scenario, prop string) bool {
	for _, p := range s.Props {
		if p == prop {
			return true
		}
	}
	return false
}

func hinted(s Scenario, hint string) bool {
	if hint == "" {
		return false
	}
	for _, e := range s.Entries {
		if strings.Contains(hint, e) {
			return true
		}
	}
	return false
}

// Line format:  sched.run <scenario> <variant> <seed>
const Cmd = "sched.run"

// Gen adds the schedule-search cases of the property to the run.  VERIF_SCHED_HINT (set by ./check when a theorem
// of Props/C09AtomicTie no longer checks) carries the atomicity diagnosis: scenarios that interleave a function
// named there are repeated with more seeds.
func Gen(c *core.Ctx) {
	hint := os.Getenv("VERIF_SCHED_HINT")
	var ran []string
	for _, s := range scenarios {
		if !serves(s, c.Prop) {
			continue
		}
		reps := c.Scale(1, 4)
		if hinted(s, hint) || (hint != "" && !s.Slow) {
			reps = c.Scale(4, 12)
		}
		if s.Slow {
			reps = 1
		}
		for r := 0; r < reps; r++ {
			for v := 0; v < s.Variants; v++ {
				line := fmt.Sprintf("%s %s %d %d", Cmd, s.Name, v, c.Seed*1000+int64(r))
				if cs := Eval(c, line); cs != nil {
					c.Add(*cs)
				}
			}
		}
		ran = append(ran, fmt.Sprintf("%s×%d×%d", s.Name, s.Variants, reps))
	}
	sort.Strings(ran)
	c.Res.Extra["schedule_search"] = strings.Join(ran, " ")
	if hint != "" {
		c.Res.Extra["schedule_search_hint"] = "atomicity tie broken: deep search"
	}
}

// Eval runs one schedule-search line on the real code.  There is no model counterpart (the model side of the
// statement is the serializability theorem of Props/C09Atomic*; this stage only exhibits failures).
func Eval(c *core.Ctx, line string) *core.Case {
	f := strings.Fields(line)
	if len(f) != 4 || f[0] != Cmd {
		return nil
	}
	v, e1 := strconv.Atoi(f[2])
	seed, e2 := strconv.ParseInt(f[3], 10, 64)
	if e1 != nil || e2 != nil {
		return nil
	}
	for _, s := range scenarios {
		if s.Name != f[1] || v < 0 || v >= s.Variants {
			continue
		}
		what, trace := s.Run(v, seed)
		impl := "held"
		if what != "" {
			impl = "failed"
		}
		prop := c.Prop
		return &core.Case{Line: line, Impl: impl, Trivial: true, Class: "schedule", Cmp: func(a, b string) bool { return true },
			Oracle: func() (string, string) {
				if what == "" {
					return "", ""
				}
				return fmt.Sprintf("%s: concurrent history %s/%d on the real code: %s\n   schedule: %s\n   interleaved functions: %s",
					prop, s.Name, v, what, trace, strings.Join(s.Entries, ", ")), ""
			}}
	}
	return nil
}

// Wrap adds the schedule search to a property's runner.
func Wrap(r core.Runner) core.Runner {
	return core.Runner{
		Gen: func(c *core.Ctx) {
			if c.First() { // sharded run: the schedule search runs in the first shard only
				Gen(c)
			}
			r.Gen(c)
		},
		Eval: func(c *core.Ctx, line string) *core.Case {
			if strings.HasPrefix(line, Cmd+" ") {
				return Eval(c, line)
			}
			return r.Eval(c, line)
		},
	}
}
