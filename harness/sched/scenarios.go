package sched

// The scenarios: per lock class of the library one or more (operation pair, park point) families with the oracle of
// the property the pair belongs to.  Every oracle holds for ALL schedules of a correct library.

import (
	"bytes"
	"encoding/binary"
	"fmt"
	"net"
	"net/netip"
	"sync"
	"time"

	"github.com/irai/packet"
	"github.com/irai/packet/handlers/arp_spoofer"
	dn "github.com/irai/packet/handlers/dns_naming"
	"github.com/irai/packet/handlers/icmp_spoofer"

	"verif/harness/dnsgen"
	"verif/harness/dnsimpl"
	"verif/harness/sess"
)

func mac(seed int64, k int) net.HardwareAddr {
	return net.HardwareAddr{0x02, 0x5c, byte(seed >> 8), byte(seed), 0, byte(k)}
}

func ip4(k int) netip.Addr { return netip.AddrFrom4([4]byte{192, 168, 0, byte(k)}) }

func cksum(b []byte) uint16 {
	var sum uint32
	for i := 0; i+1 < len(b); i += 2 {
		sum += uint32(b[i])<<8 | uint32(b[i+1])
	}
	if len(b)%2 == 1 {
		sum += uint32(b[len(b)-1]) << 8
	}
	for sum > 0xffff {
		sum = sum&0xffff + sum>>16
	}
	return ^uint16(sum)
}

// ip4Frame: Ethernet II / IPv4 / payload, independent of the library's encoders
func ip4Frame(dst, src net.HardwareAddr, sip, dip netip.Addr, proto byte, payload []byte) []byte {
	b := make([]byte, 14+20+len(payload))
	copy(b[0:6], dst)
	copy(b[6:12], src)
	b[12], b[13] = 0x08, 0x00
	ip := b[14:34]
	ip[0] = 0x45
	binary.BigEndian.PutUint16(ip[2:4], uint16(20+len(payload)))
	ip[8] = 64
	ip[9] = proto
	s4, d4 := sip.As4(), dip.As4()
	copy(ip[12:16], s4[:])
	copy(ip[16:20], d4[:])
	binary.BigEndian.PutUint16(ip[10:12], cksum(ip))
	copy(b[34:], payload)
	return b
}

func ip6Frame(dst, src net.HardwareAddr, sip, dip netip.Addr, next byte, payload []byte) []byte {
	b := make([]byte, 14+40+len(payload))
	copy(b[0:6], dst)
	copy(b[6:12], src)
	b[12], b[13] = 0x86, 0xdd
	ip := b[14:54]
	ip[0] = 0x60
	binary.BigEndian.PutUint16(ip[4:6], uint16(len(payload)))
	ip[6] = next
	ip[7] = 64
	s6, d6 := sip.As16(), dip.As16()
	copy(ip[8:24], s6[:])
	copy(ip[24:40], d6[:])
	copy(b[54:], payload)
	return b
}

func udp(sport, dport uint16, n int) []byte {
	u := make([]byte, 8+n)
	binary.BigEndian.PutUint16(u[0:2], sport)
	binary.BigEndian.PutUint16(u[2:4], dport)
	binary.BigEndian.PutUint16(u[4:6], uint16(8+n))
	return u
}

func panics(gs ...*G) string {
	for i, g := range gs {
		if g != nil && g.Panicked != "" {
			return fmt.Sprintf("operation %c panicked: %s", 'A'+i, g.Panicked)
		}
	}
	return ""
}

func drain(s *packet.Session) (ns []packet.Notification) {
	for {
		select {
		case n, ok := <-s.C:
			if !ok {
				return
			}
			ns = append(ns, n)
		default:
			return
		}
	}
}

// ---------------------------------------------------------------------------------------------
// session tables: creation of a host for a known MAC (findOrCreateHostWithLock slow path) vs. the readers

func tblCreateRead(v int, seed int64) (string, string) {
	s, _ := sess.New(nil)
	defer s.VerifStop()
	m := mac(seed, 1)
	ip1, ip2 := ip4(40), ip4(41)
	fr1 := ip4Frame(sess.HostMAC, m, ip1, sess.HostIP4, 17, udp(4000, 4001, 4))
	if _, err := s.Parse(fr1); err != nil {
		return "", "setup frame not parsed: " + err.Error()
	}
	e := s.FindMACEntry(m)
	if e == nil {
		return "", "setup: no MAC entry"
	}
	a := func() {
		switch v % 2 {
		case 0:
			s.Parse(ip4Frame(sess.HostMAC, m, ip2, sess.HostIP4, 17, udp(4000, 4001, 4)))
		default:
			s.DHCPv4Update(m, ip2, packet.NameEntry{Type: "dhcp4", Name: "n"})
		}
	}
	var seen *packet.Host
	var listed, byMAC bool
	b := func() {
		// one reader: once the host is visible through FindIP it must be visible through IPAddrs / FindByMAC too
		seen = s.FindIP(ip2)
		for _, x := range s.IPAddrs(m) {
			if x.IP == ip2 {
				listed = true
			}
		}
		for _, x := range s.FindByMAC(m) {
			if x.IP == ip2 {
				byMAC = true
			}
		}
	}
	// the park lock is the row of the MAC entry: an API user reading the entry's fields holds it (documented pattern)
	ga, gb, trace, stuck := Park(&e.Row, a, b)
	trace = "A = " + []string{"Parse(frame of a known MAC from a new IPv4 address)", "DHCPv4Update(known MAC, new IPv4 address)"}[v%2] +
		", B = FindIP(new address); IPAddrs(mac); FindByMAC(mac); park lock = MACEntry.Row of the MAC; " + trace
	if stuck {
		return "an operation did not return within 20 s after the row lock was released", trace
	}
	if p := panics(ga, gb); p != "" {
		return p, trace
	}
	if seen != nil && (!listed || !byMAC) {
		return fmt.Sprintf("FindIP(%s) returned the new host but IPAddrs(mac) lists it: %v, FindByMAC(mac): %v — the views of the tracked (MAC, IP) set disagree while a host is being created", ip2, listed, byMAC), trace
	}
	if inv := sess.TableInvariant(s); inv != "" {
		return "table invariant broken at quiescence: " + inv, trace
	}
	if h := s.FindIP(ip2); h == nil {
		return "the new host is not tracked at quiescence", trace
	}
	return "", trace
}

// notify (decide under the shared row lock, snapshot + clear dirty under the exclusive row lock) vs. a name update
func tblNotifyName(v int, seed int64) (string, string) {
	s, _ := sess.New(nil)
	defer s.VerifStop()
	m := mac(seed, 2)
	ip1, ip2 := ip4(50), ip4(51)
	f1, err := s.Parse(ip4Frame(sess.HostMAC, m, ip1, sess.HostIP4, 17, udp(4000, 4001, 4)))
	if err != nil {
		return "", "setup frame not parsed"
	}
	s.Notify(f1)
	drain(s)
	// the MAC moves to a new IPv4 address: Notify will announce the superseded address offline first (makeOffline →
	// sendNotification takes the session lock: the park point inside notify's window)
	f2, err := s.Parse(ip4Frame(sess.HostMAC, m, ip2, sess.HostIP4, 17, udp(4000, 4001, 4)))
	if err != nil || f2.Host == nil {
		return "", "setup frame 2 not parsed"
	}
	host := f2.Host
	name := packet.NameEntry{Type: "x", Name: fmt.Sprintf("late-%d", seed)}
	a := func() { s.Notify(f2) }
	b := func() {
		switch v % 3 {
		case 0:
			name.Type = "mdns"
			host.UpdateMDNSName(name)
		case 1:
			name.Type = "llmnr"
			host.UpdateLLMNRName(name)
		default:
			name.Type = "nbns"
			host.UpdateNBNSName(name)
		}
	}
	ga, gb, trace, stuck := Park(s.VerifMutex(), a, b)
	trace = "A = Notify(frame of a MAC seen on a new IPv4 address), B = Host.Update{MDNS,LLMNR,NBNS}Name(new name) on the notifying host; park lock = Session.mutex (taken by makeOffline → sendNotification inside notify's window); " + trace
	if stuck {
		return "an operation did not return within 20 s after the session lock was released", trace
	}
	if p := panics(ga, gb); p != "" {
		return p, trace
	}
	ns := drain(s)
	// repeat traffic: a pending change is announced by the next Notify
	if f3, err := s.Parse(ip4Frame(sess.HostMAC, m, ip2, sess.HostIP4, 17, udp(4000, 4001, 4))); err == nil {
		s.Notify(f3)
	}
	ns = append(ns, drain(s)...)
	var last *packet.Notification
	for i := range ns {
		if ns[i].Addr.IP == ip2 {
			last = &ns[i]
		}
	}
	if last == nil {
		return "no notification for the new address at all", trace
	}
	got := []packet.NameEntry{last.MDNSName, last.LLMNRName, last.NBNSName}[v%3]
	if got.Name != name.Name {
		return fmt.Sprintf("the name learned during Notify (%q) is in the tracked state but in no notification: the last notification for %s carries %q and no further one is sent (a name change is lost)", name.Name, ip2, got.Name), trace
	}
	if !last.Online {
		return "the last notification for the new address says offline while the host is tracked online", trace
	}
	return "", trace
}

// ---------------------------------------------------------------------------------------------
// Session.Close vs Session.Close (double close of closeChan / C)

func sessCloseClose(v int, seed int64) (string, string) {
	conn := sess.NewRecConn()
	s, err := packet.Config{Conn: conn, NICInfo: sess.DefaultNIC()}.NewSession("")
	if err != nil {
		return "", "setup: " + err.Error()
	}
	ga, gb, trace, stuck := Pair(s.VerifMutex(), s.Close, s.Close, 0)
	trace = "A = Session.Close, B = Session.Close, both queued behind a writer of Session.mutex; " + trace
	if stuck {
		return "Close did not return within 20 s", trace
	}
	if p := panics(ga, gb); p != "" {
		return p, trace
	}
	return "", trace
}

// ---------------------------------------------------------------------------------------------
// ARP handler: StartHunt vs StartHunt (idempotence per MAC), Close vs Close

func arpFramesTo(frames [][]byte, dst net.HardwareAddr) int {
	n := 0
	for _, f := range frames {
		if len(f) >= 14 && f[12] == 0x08 && f[13] == 0x06 && bytes.Equal(f[0:6], dst) {
			n++
		}
	}
	return n
}

func settle(conn *sess.RecConn, count func([][]byte) int) int {
	// a spoof loop writes its first forged packet as soon as it is scheduled; wait until the count is stable
	var all [][]byte
	last, stable := -1, 0
	for i := 0; i < 200 && stable < 6; i++ {
		time.Sleep(5 * time.Millisecond)
		all = append(all, conn.Take()...)
		n := count(all)
		if n == last && n > 0 {
			stable++
		} else if n != last {
			stable = 0
		}
		last = n
	}
	return last
}

func arpStartStart(v int, seed int64) (string, string) {
	s, conn := sess.New(nil)
	defer s.VerifStop()
	h, err := arp_spoofer.New(s)
	if err != nil {
		return "", "setup: " + err.Error()
	}
	defer h.Close()
	target := packet.Addr{MAC: mac(seed, 3), IP: ip4(60)}
	conn.Take()
	op := func() { h.StartHunt(target) }
	ga, gb, trace, stuck := Pair(h.VerifMutex(), op, op, v)
	trace = fmt.Sprintf("A = B = arp_spoofer.StartHunt(%s), both queued behind a writer of arpMutex; ", target.MAC) + trace
	if stuck {
		return "StartHunt did not return within 20 s", trace
	}
	if p := panics(ga, gb); p != "" {
		return p, trace
	}
	n := settle(conn, func(fs [][]byte) int { return arpFramesTo(fs, target.MAC) })
	if n != 1 {
		return fmt.Sprintf("StartHunt is not idempotent per MAC: %d forged ARP announcements reached the target at the start of the hunt (one per spoof loop; expected exactly 1)", n), trace
	}
	if l := h.VerifHuntList(); len(l) != 1 {
		return fmt.Sprintf("hunt list has %d entries after two StartHunt calls for one MAC", len(l)), trace
	}
	return "", trace
}

func arpCloseClose(v int, seed int64) (string, string) {
	s, _ := sess.New(nil)
	defer s.VerifStop()
	h, err := arp_spoofer.New(s)
	if err != nil {
		return "", "setup: " + err.Error()
	}
	cl := func() { h.Close() }
	ga, gb, trace, stuck := Pair(h.VerifMutex(), cl, cl, v)
	trace = "A = B = arp_spoofer.Handler.Close, both queued behind a writer of arpMutex; " + trace
	if stuck {
		return "Close did not return within 20 s", trace
	}
	if p := panics(ga, gb); p != "" {
		return p, trace
	}
	return "", trace
}

// ---------------------------------------------------------------------------------------------
// ICMPv6 handler: StartHunt vs StartHunt (idempotent per MAC)

func icmp6StartStart(v int, seed int64) (string, string) {
	s, _ := sess.New(nil)
	defer s.VerifStop()
	h, err := icmp_spoofer.New6(s)
	if err != nil {
		return "", "setup: " + err.Error()
	}
	defer h.Close()
	lla := netip.AddrFrom16([16]byte{0xfe, 0x80, 0, 0, 0, 0, 0, 0, 0, 0, 0, 0, 0, 0, byte(seed), 0x77})
	target := packet.Addr{MAC: mac(seed, 4), IP: lla}
	op := func() { h.StartHunt(target) }
	const loopFn = "icmp_spoofer.(*Handler6).spoofLoop"
	before := CountGoroutines(loopFn) // loops of earlier handlers may still be winding down: they only ever decrease the count
	ga, gb, trace, stuck := Pair(&h.Mutex, op, op, v)
	trace = fmt.Sprintf("A = B = icmp_spoofer.Handler6.StartHunt(%s), both queued behind a holder of the handler mutex; ", target.MAC) + trace
	if stuck {
		return "StartHunt did not return within 20 s", trace
	}
	if p := panics(ga, gb); p != "" {
		return p, trace
	}
	loops := 0
	for i := 0; i < 10; i++ {
		time.Sleep(2 * time.Millisecond)
		if n := CountGoroutines(loopFn) - before; n > loops {
			loops = n
		}
	}
	if loops >= 2 {
		return fmt.Sprintf("StartHunt is not idempotent per MAC: %d spoof loops were started by two StartHunt calls for one MAC", loops), trace
	}
	if n := h.VerifHuntLen(); n != 1 {
		return fmt.Sprintf("StartHunt is not idempotent per MAC: the hunt list has %d entries after two StartHunt calls for one MAC", n), trace
	}
	return "", trace
}

// ---------------------------------------------------------------------------------------------
// DNS naming handler: two responses for one name that is not in the table yet

func dnsAnswerAnswer(v int, seed int64) (string, string) {
	name := dnsgen.N(fmt.Sprintf("h%d.sched.example", seed))
	ipA := []byte{10, 1, byte(seed), 1}
	ipB := []byte{10, 1, byte(seed), 2}
	msg := func(id uint16, rr dnsgen.RR) []byte {
		m := dnsgen.Msg{ID: id, Flags: 0x8180, Q: []dnsgen.Question{{Name: name, Type: rr.Type, Class: 1}}, An: []dnsgen.RR{rr}}
		return dnsgen.Build(m, dnsgen.Opts{Compress: true}).Bytes
	}
	rrA := dnsgen.RR{Name: name, Type: dnsgen.TypeA, Class: 1, TTL: 60, Raw: ipA}
	rrB := dnsgen.RR{Name: name, Type: dnsgen.TypeA, Class: 1, TTL: 60, Raw: ipB}
	if v%2 == 1 {
		b6 := make([]byte, 16)
		b6[0], b6[1], b6[15] = 0x20, 0x01, byte(seed)|1
		rrB = dnsgen.RR{Name: name, Type: dnsgen.TypeAAAA, Class: 1, TTL: 60, Raw: b6}
	}
	session, _ := sess.New(nil)
	defer session.VerifStop()
	h := dn.VerifNew(session)
	var okA, okB bool
	proc := func(payload []byte, ok *bool) func() {
		fr := dnsimpl.UDPFrame(53, 40000, netip.MustParseAddr("192.168.0.129"), payload)
		return func() {
			frame, err := session.Parse(fr)
			if err != nil {
				return
			}
			e, err := h.ProcessDNS(frame)
			*ok = err == nil && e.Name != ""
		}
	}
	ga, gb, trace, stuck := Pair(h.VerifMutex(), proc(msg(1, rrA), &okA), proc(msg(2, rrB), &okB), v/2)
	trace = "A = ProcessDNS(response 1 for a new name), B = ProcessDNS(response 2 for the same name), both queued behind a writer of the handler mutex; " + trace
	if stuck {
		return "ProcessDNS did not return within 20 s", trace
	}
	if p := panics(ga, gb); p != "" {
		return p, trace
	}
	if !okA || !okB {
		return "", trace + " (a response was not accepted: nothing to judge)"
	}
	h.VerifMutex().RLock()
	e, found := h.DNSTable[string(name.Text())]
	n4, n6 := len(e.IP4Records), len(e.IP6Records)
	h.VerifMutex().RUnlock()
	want4, want6 := 2, 0
	if v%2 == 1 {
		want4, want6 = 1, 1
	}
	if !found || n4 != want4 || n6 != want6 {
		return fmt.Sprintf("both responses were accepted (ProcessDNS returned the updated entry to both callers) but the table entry for %s holds %d A / %d AAAA records (an independent decoder stores %d / %d): a record was lost", name.Text(), n4, n6, want4, want6), trace
	}
	return "", trace
}

// ---------------------------------------------------------------------------------------------
// ping: the echo reply is parsed while the request is still inside Conn.WriteTo (the park point is the external effect
// between the sections of ping / Ping6)

type replyConn struct {
	*sess.RecConn
	mu      sync.Mutex
	session *packet.Session
	peer    net.HardwareAddr
	trace   []string
}

func (c *replyConn) WriteTo(b []byte, addr net.Addr) (int, error) {
	var reply []byte
	switch {
	case len(b) >= 14+20+8 && b[12] == 0x08 && b[13] == 0x00 && b[23] == 1 && b[34] == 8:
		m := append([]byte{}, b[34:]...)
		m[0], m[2], m[3] = 0, 0, 0
		binary.BigEndian.PutUint16(m[2:4], cksum(m))
		var sip, dip [4]byte
		copy(sip[:], b[30:34])
		copy(dip[:], b[26:30])
		reply = ip4Frame(b[6:12], c.peer, netip.AddrFrom4(sip), netip.AddrFrom4(dip), 1, m)
	case len(b) >= 14+40+8 && b[12] == 0x86 && b[13] == 0xdd && b[20] == 58 && b[54] == 128:
		m := append([]byte{}, b[54:]...)
		m[0], m[2], m[3] = 129, 0, 0
		var sip, dip [16]byte
		copy(sip[:], b[38:54])
		copy(dip[:], b[22:38])
		// ICMPv6 checksum over the pseudo header
		psh := make([]byte, 40+len(m))
		copy(psh[0:16], sip[:])
		copy(psh[16:32], dip[:])
		binary.BigEndian.PutUint32(psh[32:36], uint32(len(m)))
		psh[39] = 58
		copy(psh[40:], m)
		binary.BigEndian.PutUint16(m[2:4], cksum(psh))
		reply = ip6Frame(b[6:12], c.peer, netip.AddrFrom16(sip), netip.AddrFrom16(dip), 58, m)
	}
	n, err := c.RecConn.WriteTo(b, addr)
	if reply != nil {
		_, perr := c.session.Parse(reply)
		c.mu.Lock()
		c.trace = append(c.trace, fmt.Sprintf("echo request written; matching reply parsed inside WriteTo (Parse err=%v)", perr))
		c.mu.Unlock()
	}
	return n, err
}

func pingReplyInWrite(v int, seed int64) (string, string) {
	rc := &replyConn{RecConn: sess.NewRecConn(), peer: mac(seed, 5)}
	s, err := packet.Config{Conn: rc, NICInfo: sess.DefaultNIC()}.NewSession("")
	if err != nil {
		return "", "setup: " + err.Error()
	}
	s.VerifStopTimers()
	defer s.VerifStop()
	rc.session = s
	var perr error
	dst := packet.Addr{MAC: rc.peer, IP: ip4(70)}
	a := func() { perr = s.Ping(dst, 400*time.Millisecond) }
	if v%2 == 1 {
		dst = packet.Addr{MAC: rc.peer, IP: netip.AddrFrom16([16]byte{0xfe, 0x80, 0, 0, 0, 0, 0, 0, 0, 0, 0, 0, 0, 0, 0, 0x70})}
		src := packet.Addr{MAC: sess.HostMAC, IP: sess.HostLLA.Addr()}
		a = func() { perr = s.Ping6(src, dst, 400*time.Millisecond) }
	}
	before := len(packet.VerifICMPTableIDs())
	ga := Go(a)
	stuck := !ga.Join(joinWait)
	trace := []string{"A = Ping", "A = Ping6"}[v%2] + fmt.Sprintf("(%s, 400ms), B = Parse(matching echo reply) run inside A's Conn.WriteTo; %v", dst.IP, rc.trace)
	if stuck {
		return "Ping did not return within 20 s", trace
	}
	if p := panics(ga); p != "" {
		return p, trace
	}
	if len(rc.trace) == 0 {
		return "", trace + " (no echo request was written: nothing to judge)"
	}
	if perr != nil {
		return fmt.Sprintf("the echo reply carrying the identifier of the request was parsed before the timeout, but the ping returned %v", perr), trace
	}
	if after := len(packet.VerifICMPTableIDs()); after > before {
		return fmt.Sprintf("a waiter entry is left behind after the ping returned (%d → %d entries)", before, after), trace
	}
	return "", trace
}

func init() {
	register(Scenario{Name: "tbl.create-read", Props: []string{"C04", "C05", "C09"}, Variants: 2, Run: tblCreateRead,
		Entries: []string{"packet.Session.findOrCreateHostWithLock", "packet.Session.Parse", "packet.Session.DHCPv4Update", "packet.Session.FindIP", "packet.Session.IPAddrs"}})
	register(Scenario{Name: "tbl.notify-name", Props: []string{"C06"}, Variants: 3, Run: tblNotifyName,
		Entries: []string{"packet.Session.notify", "packet.Session.Notify", "packet.Session.makeOffline", "packet.Host.UpdateMDNSName", "packet.Host.UpdateLLMNRName", "packet.Host.UpdateNBNSName"}})
	register(Scenario{Name: "sess.close-close", Props: []string{"C09"}, Variants: 1, Slow: true, Run: sessCloseClose,
		Entries: []string{"packet.Session.Close"}})
	register(Scenario{Name: "arp.start-start", Props: []string{"C13"}, Variants: 2, Run: arpStartStart,
		Entries: []string{"arp_spoofer.Handler.StartHunt"}})
	register(Scenario{Name: "arp.close-close", Props: []string{"C13", "C09"}, Variants: 2, Run: arpCloseClose,
		Entries: []string{"arp_spoofer.Handler.Close"}})
	register(Scenario{Name: "icmp6.start-start", Props: []string{"C14"}, Variants: 3, Run: icmp6StartStart,
		Entries: []string{"icmp_spoofer.Handler6.StartHunt"}})
	register(Scenario{Name: "dns.answer-answer", Props: []string{"C17"}, Variants: 4, Run: dnsAnswerAnswer,
		Entries: []string{"dns_naming.DNSHandler.ProcessDNS"}})
	register(Scenario{Name: "ping.reply-in-write", Props: []string{"C19"}, Variants: 2, Run: pingReplyInWrite,
		Entries: []string{"packet.Session.ping", "packet.Session.Ping6", "packet.Session.Ping", "packet.echoNotify"}})
}
