// Package sched is the schedule search of the atomicity tie (DESIGN §4 C09, F13): it produces concrete
// two-goroutine histories on the REAL library in which one operation is parked between two of its
// critical sections while another operation on the same key runs, and evaluates the property's own
// oracle at quiescence.  No library code is patched: the harness itself holds a lock of the library
// (reached through the verif overlay) so that an operation blocks at its next acquisition of that lock.
//
// Two mechanisms:
//
//   - barrier behind a writer (Pair): the harness holds lock X exclusively, starts operations A and B,
//     waits until both goroutines are blocked on a sync mutex (goroutine wait reason from runtime.Stack),
//     optionally lets the queue advance by one hand-over (Unlock; Lock) k times, then releases.  Readers
//     queued behind a writer of a sync.RWMutex are admitted TOGETHER and a later writer waits for all of
//     them, so a "test under RLock, act under Lock" split deterministically runs test_A, test_B, act, act.
//   - orthogonal park (Park): the harness holds a lock Y that A acquires between two sections of the
//     contested guard and that B does not need; A parks inside its window, B runs to completion, release.
//
// A third kind of park point is an external effect of A made between two sections (a connection write):
// the scenario's PacketConn runs B inside WriteTo.
//
// Everything here is search: a schedule is reported only when the property oracle fails on it, and every
// oracle is a statement that holds for ALL schedules of a correct library (so nothing is raised on the
// unchanged tree whatever the scheduler does).
package sched

import (
	"bytes"
	"fmt"
	"runtime"
	"strconv"
	"sync"
	"time"
)

// G is a harness goroutine running one library operation.
type G struct {
	id       int64
	started  chan struct{}
	done     chan struct{}
	Panicked string
}

func goid() int64 {
	var buf [64]byte
	n := runtime.Stack(buf[:], false)
	// "goroutine 123 [running]:"
	f := bytes.Fields(buf[:n])
	if len(f) < 2 {
		return -1
	}
	id, _ := strconv.ParseInt(string(f[1]), 10, 64)
	return id
}

// Go starts f on a new goroutine; a panic is recorded, not propagated.
func Go(f func()) *G {
	g := &G{started: make(chan struct{}), done: make(chan struct{})}
	go func() {
		defer close(g.done)
		defer func() {
			if r := recover(); r != nil {
				g.Panicked = fmt.Sprint(r)
			}
		}()
		g.id = goid()
		close(g.started)
		f()
	}()
	<-g.started
	return g
}

// Done reports whether the operation has returned (or panicked).
func (g *G) Done() bool {
	select {
	case <-g.done:
		return true
	default:
		return false
	}
}

// Join waits for the operation; false = still running after d.
func (g *G) Join(d time.Duration) bool {
	select {
	case <-g.done:
		return true
	case <-time.After(d):
		return false
	}
}

var stackBuf = make([]byte, 1<<20)
var stackMu sync.Mutex

// states returns the wait reason of every goroutine ("running", "sync.RWMutex.RLock", "chan receive", …).
func states() map[int64]string {
	stackMu.Lock()
	defer stackMu.Unlock()
	n := runtime.Stack(stackBuf, true)
	for n == len(stackBuf) && len(stackBuf) < 1<<26 {
		stackBuf = make([]byte, 2*len(stackBuf))
		n = runtime.Stack(stackBuf, true)
	}
	res := map[int64]string{}
	for _, blk := range bytes.Split(stackBuf[:n], []byte("\n\n")) {
		if !bytes.HasPrefix(blk, []byte("goroutine ")) {
			continue
		}
		line := blk
		if i := bytes.IndexByte(blk, '\n'); i >= 0 {
			line = blk[:i]
		}
		sp := bytes.IndexByte(line[10:], ' ')
		lb := bytes.IndexByte(line, '[')
		rb := bytes.LastIndexByte(line, ']')
		if sp < 0 || lb < 0 || rb < lb {
			continue
		}
		id, err := strconv.ParseInt(string(line[10:10+sp]), 10, 64)
		if err != nil {
			continue
		}
		st := string(line[lb+1 : rb])
		if i := bytes.IndexByte([]byte(st), ','); i >= 0 {
			st = st[:i] // "sync.Mutex.Lock, 2 minutes"
		}
		res[id] = st
	}
	return res
}

// CountGoroutines returns the number of goroutines whose stack contains the function name.
func CountGoroutines(fn string) int {
	stackMu.Lock()
	defer stackMu.Unlock()
	n := runtime.Stack(stackBuf, true)
	for n == len(stackBuf) && len(stackBuf) < 1<<26 {
		stackBuf = make([]byte, 2*len(stackBuf))
		n = runtime.Stack(stackBuf, true)
	}
	c := 0
	for _, blk := range bytes.Split(stackBuf[:n], []byte("\n\n")) {
		if bytes.Contains(blk, []byte(fn)) {
			c++
		}
	}
	return c
}

func lockWait(st string) bool {
	switch st {
	case "sync.Mutex.Lock", "sync.RWMutex.Lock", "sync.RWMutex.RLock", "semacquire":
		return true
	}
	return false
}

// WaitParked waits until every goroutine is blocked on a sync mutex or has returned.  It returns the
// number of goroutines that are blocked; ok=false when some goroutine was still running after d.
func WaitParked(d time.Duration, gs ...*G) (blocked int, ok bool) {
	deadline := time.Now().Add(d)
	for spin := 0; ; spin++ {
		st := states()
		blocked = 0
		all := true
		for _, g := range gs {
			switch {
			case g.Done():
			case lockWait(st[g.id]):
				blocked++
			default:
				all = false
			}
		}
		if all {
			return blocked, true
		}
		if time.Now().After(deadline) {
			return blocked, false
		}
		if spin < 20 {
			runtime.Gosched()
		} else {
			time.Sleep(50 * time.Microsecond)
		}
	}
}

const (
	parkWait = 300 * time.Millisecond
	joinWait = 20 * time.Second
)

// Pair is the barrier behind a writer: hold x exclusively, start a then b, wait until both are parked,
// let the queue advance `advances` times (Unlock immediately followed by Lock: the goroutines admitted by
// the hand-over run until their next acquisition of x), release, join.  The returned string describes what
// happened for the replay file ("" never means failure: the caller's oracle decides); stuck=true when an
// operation did not return within joinWait after the release.
func Pair(x sync.Locker, a, b func(), advances int) (ga, gb *G, trace string, stuck bool) {
	x.Lock()
	ga = Go(a)
	na, _ := WaitParked(parkWait, ga)
	gb = Go(b)
	nb, _ := WaitParked(parkWait, ga, gb)
	trace = fmt.Sprintf("harness holds the lock; A started (parked=%d); B started (parked=%d)", na, nb)
	if advances > 0 {
		// sync.Mutex (also the writer mutex inside an RWMutex) enters starvation mode when a woken waiter that has waited for
		// more than 1 ms finds the mutex taken again: from then on Unlock hands the mutex to the head of the queue and a
		// goroutine that asks again queues at the tail.  The hand-over below barges in front of the woken waiter, so after it
		// the queued operations alternate strictly section by section: A1, B1, A2, B2 — the schedule a write/write split needs.
		time.Sleep(3 * time.Millisecond)
	}
	for i := 0; i < advances; i++ {
		x.Unlock()
		x.Lock()
		n, _ := WaitParked(parkWait, ga, gb)
		trace += fmt.Sprintf("; hand-over %d (parked=%d, A done=%v, B done=%v)", i+1, n, ga.Done(), gb.Done())
	}
	x.Unlock()
	trace += "; released"
	if !ga.Join(joinWait) || !gb.Join(joinWait) {
		stuck = true
	}
	return
}

// Park is the orthogonal park: hold y exclusively, start a and wait until it is parked on y (or returned),
// run b to its end on a second goroutine (b must not need y; if it blocks all the same it is released
// together with a), release y, join.
func Park(y sync.Locker, a, b func()) (ga, gb *G, trace string, stuck bool) {
	y.Lock()
	ga = Go(a)
	na, _ := WaitParked(parkWait, ga)
	gb = Go(b)
	nb, _ := WaitParked(parkWait, ga, gb)
	trace = fmt.Sprintf("harness holds the park lock; A started (parked=%d, done=%v); B ran (done=%v, parked goroutines=%d)", na, ga.Done(), gb.Done(), nb)
	y.Unlock()
	trace += "; released"
	if !ga.Join(joinWait) || !gb.Join(joinWait) {
		stuck = true
	}
	return
}
