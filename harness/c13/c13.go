// Package c13: correspondence + oracle for C13 (ARP spoofing confined to hunted hosts and undone on
// StopHunt).  Trace-acceptance mode: StartHunt/StopHunt/Close sequences interleaved with received
// ARP requests / probes / other ARP packets are executed in real time on the real handler (one
// handler and session per scenario, scenarios in parallel); the ordered log of API calls and ARP
// frames written must be accepted by the Lean ARP hunt machine and satisfy the Go-side oracle.
// Function mode over RAW frames (arp.frame): generated frames (well-formed requests / probes / replies /
// announcements, every header field corrupted, truncation at every length, 802.1Q / 802.1ad tags, group
// source addresses, sender hardware address different from the Ethernet source, other EtherTypes, random)
// go through the real Session.Parse, the PayloadID dispatch and arp.ProcessPacket of a handler with a given
// hunt list and DHCP offer; Parse result, returned error and the reply written are compared with the Lean
// composition `Model.ArpFrame.arpEventOf` + machine step, and with an independent Go reading of the frame.
// The recording connection can hold one forged frame inside WriteTo (steps a<m>:<F|Y>, h): StopHunt is
// then called while the frame is in flight – it must not return before the frame is on the wire, and
// no forged frame may follow the restoring request.
package c13

import (
	"encoding/binary"
	"encoding/hex"
	"errors"
	"fmt"
	"net"
	"net/netip"
	"sort"
	"strconv"
	"strings"
	"sync"
	"time"

	"github.com/irai/packet"
	"github.com/irai/packet/fastlog"
	"github.com/irai/packet/handlers/arp_spoofer"
	"verif/harness/core"
	"verif/harness/ndpgen"
	"verif/harness/sess"
)

func hx(b []byte) string {
	if len(b) == 0 {
		return "-"
	}
	return hex.EncodeToString(b)
}

type event struct {
	tok string
	at  time.Duration
}

type frameRec struct {
	kind byte // F forged announcement, T restoring, Y spoof reply, J probe reject
	dst  []byte
	ip   []byte
	at   time.Duration
	idx  int
}

type tlog struct {
	mu      sync.Mutex
	t0      time.Time
	evs     []event
	frames  []frameRec
	pending map[int]time.Time // API calls (StartHunt, StopHunt, Close) that have not returned yet
}

// callBegin / callEnd log the call / return of an API call and keep it in `pending` in between.
func (l *tlog) callBegin(k int, tok string) (int, time.Duration) {
	l.mu.Lock()
	defer l.mu.Unlock()
	if l.pending == nil {
		l.pending = map[int]time.Time{}
	}
	l.pending[k] = time.Now()
	at := time.Since(l.t0)
	l.evs = append(l.evs, event{tok, at})
	return len(l.evs) - 1, at
}

func (l *tlog) callEnd(k int, tok string) (int, time.Duration) {
	l.mu.Lock()
	defer l.mu.Unlock()
	delete(l.pending, k)
	at := time.Since(l.t0)
	l.evs = append(l.evs, event{tok, at})
	return len(l.evs) - 1, at
}

// blockedCall: some API call has been waiting for this long (it waits for the handler mutex).
func (l *tlog) blockedCall(d time.Duration) bool {
	l.mu.Lock()
	defer l.mu.Unlock()
	for _, t := range l.pending {
		if time.Since(t) >= d {
			return true
		}
	}
	return false
}

// restoredSince: a restoring request to dst was logged at or after event index idx.
func (l *tlog) restoredSince(dst []byte, idx int) bool {
	l.mu.Lock()
	defer l.mu.Unlock()
	for _, f := range l.frames {
		if f.kind == 'T' && f.idx >= idx && string(f.dst) == string(dst) {
			return true
		}
	}
	return false
}

// gate holds one forged frame inside WriteTo (a slow link): the frame is on the wire, and logged, when
// WriteTo returns.  The held frame is let go
//   - as soon as a restoring request to the same MAC has been written meanwhile (only code that writes its
//     forged frames outside the handler's critical section gets there: the forged frame then follows the
//     restoring request), or
//   - when an API call has been waiting for callWait (code that writes inside the critical section: StopHunt
//     waits for the frame), or
//   - after maxHold, whatever the scenario does.
type gate struct {
	mu    sync.Mutex
	kind  byte   // 'F' forged announcement, 'Y' forged reply; 0: not armed
	mac   []byte // destination MAC
	held  chan struct{}
	force chan struct{}
}

const (
	callWait = 800 * time.Millisecond
	maxHold  = 9 * time.Second
)

func newGate() *gate { return &gate{held: make(chan struct{}, 1), force: make(chan struct{})} }

func (g *gate) arm(kind byte, mac []byte) {
	g.mu.Lock()
	g.kind, g.mac = kind, append([]byte{}, mac...)
	g.mu.Unlock()
}

func (g *gate) release() {
	g.mu.Lock()
	g.kind = 0
	select {
	case <-g.force:
	default:
		close(g.force)
	}
	g.mu.Unlock()
}

func (g *gate) hold(l *tlog, kind byte, dst []byte) {
	g.mu.Lock()
	if g.kind == 0 || g.kind != kind || string(g.mac) != string(dst) {
		g.mu.Unlock()
		return
	}
	g.kind = 0
	force := g.force
	g.mu.Unlock()
	l.mu.Lock()
	from := len(l.evs)
	l.mu.Unlock()
	select {
	case g.held <- struct{}{}:
	default:
	}
	deadline := time.After(maxHold)
	tick := time.NewTicker(10 * time.Millisecond)
	defer tick.Stop()
	for {
		select {
		case <-force:
			return
		case <-deadline:
			return
		case <-tick.C:
			if l.restoredSince(dst, from) || l.blockedCall(callWait) {
				return
			}
		}
	}
}

func (l *tlog) add(tok string) (int, time.Duration) {
	l.mu.Lock()
	defer l.mu.Unlock()
	at := time.Since(l.t0)
	l.evs = append(l.evs, event{tok, at})
	return len(l.evs) - 1, at
}

type lconn struct {
	log    *tlog
	gate   *gate
	closed chan struct{}
	once   sync.Once
}

func (c *lconn) ReadFrom(b []byte) (int, net.Addr, error) { <-c.closed; return 0, nil, net.ErrClosed }
func (c *lconn) WriteTo(b []byte, addr net.Addr) (int, error) {
	if len(b) >= 14+28 && b[12] == 0x08 && b[13] == 0x06 {
		arp := b[14:]
		op := binary.BigEndian.Uint16(arp[6:8])
		smac, sip, tip := arp[8:14], arp[14:18], arp[24:28]
		dst := append([]byte{}, b[0:6]...)
		host, router := []byte(sess.HostMAC), []byte(sess.RouterMAC)
		rip := sess.RouterIP4.As4()
		var kind byte
		tok := ""
		switch {
		case op == 1 && string(smac) == string(host) && string(sip) == string(rip[:]):
			kind, tok = 'F', "F"+hx(dst)
		case op == 1 && string(smac) == string(router) && string(sip) == string(rip[:]):
			kind, tok = 'T', "T"+hx(dst)
		case op == 2 && string(tip) == "\xff\xff\xff\xff":
			kind, tok = 'J', "J"+hx(dst)+":"+hx(sip)
		case op == 2 && string(smac) == string(host) && string(sip) == string(rip[:]):
			kind, tok = 'Y', "Y"+hx(dst)
		}
		if kind != 0 {
			l := c.log
			if c.gate != nil && (kind == 'F' || kind == 'Y') {
				c.gate.hold(l, kind, dst)
			}
			l.mu.Lock()
			at := time.Since(l.t0)
			l.frames = append(l.frames, frameRec{kind: kind, dst: dst, ip: append([]byte{}, sip...), at: at, idx: len(l.evs)})
			l.evs = append(l.evs, event{tok, at})
			l.mu.Unlock()
		}
	}
	return len(b), nil
}
func (c *lconn) Close() error                       { c.once.Do(func() { close(c.closed) }); return nil }
func (c *lconn) LocalAddr() net.Addr                { return nil }
func (c *lconn) SetDeadline(t time.Time) error      { return nil }
func (c *lconn) SetReadDeadline(t time.Time) error  { return nil }
func (c *lconn) SetWriteDeadline(t time.Time) error { return nil }

func macOf(m int) net.HardwareAddr { return net.HardwareAddr{0x02, 0xdd, 0, 0, 0, byte(m)} }
func ip4Of(k int) netip.Addr       { return netip.AddrFrom4([4]byte{192, 168, 0, byte(100 + k)}) }

func arpFrame(op uint16, srcMAC []byte, sip netip.Addr, tmac []byte, tip netip.Addr) []byte {
	return arpFrameVia(srcMAC, op, srcMAC, sip, tmac, tip)
}

// arpFrameVia: Ethernet source etherSrc (a bridge relaying the packet), ARP sender hardware address srcMAC.
func arpFrameVia(etherSrc []byte, op uint16, srcMAC []byte, sip netip.Addr, tmac []byte, tip netip.Addr) []byte {
	b := make([]byte, 14+28)
	copy(b[0:6], []byte{0xff, 0xff, 0xff, 0xff, 0xff, 0xff})
	copy(b[6:12], etherSrc)
	b[12], b[13] = 0x08, 0x06
	a := b[14:]
	binary.BigEndian.PutUint16(a[0:2], 1)
	binary.BigEndian.PutUint16(a[2:4], 0x0800)
	a[4], a[5] = 6, 4
	binary.BigEndian.PutUint16(a[6:8], op)
	copy(a[8:14], srcMAC)
	s4, t4 := sip.As4(), tip.As4()
	copy(a[14:18], s4[:])
	copy(a[18:24], tmac)
	copy(a[24:28], t4[:])
	return b
}

type apiOp struct {
	kind            byte // S X C Q B O
	m               int
	valid           bool
	toRouter        bool
	offer           byte
	tipIn           bool
	tip             netip.Addr
	callAt, retAt   time.Duration
	callIdx, retIdx int
	res             string
	huntLenAfter    int
	huntAfter       string // MACs in the hunt list after the call (sorted)
	esrc            int    // request: index of the Ethernet source MAC
	ipk             int    // StopHunt: index of the IPv4 passed in addr.IP
}

const tail = 7800 * time.Millisecond

// scn steps: s<m>:<k|x>  x<m>[:<k>]  c  q<m>:<0|1>[:<e>]  b<m>:<-|a|d>:<l|o>  o<m>  w<ms>
//
//	s<m>:<k>    StartHunt(MAC m, IPv4 192.168.0.(100+k)); x = an IPv6 address (invalid)
//	x<m>:<k>    StopHunt(MAC m, IPv4 192.168.0.(100+k)) – k defaults to m; the address may differ from the one
//	            StartHunt used (host changed address) or be the address of another hunted MAC
//	q<m>:<r>:<e> ARP request whose sender hardware address is MAC m, asking for the router (r=1) or another
//	            address, received in a frame whose Ethernet source is MAC e (default m; e != m: relayed by a bridge)
//	a<m>:<F|Y>  arm the gate: the next forged announcement (F) / forged reply (Y) to MAC m is held inside WriteTo
//	h           wait (at most 8 s) until a frame is held; the following steps run while it is in flight
//	&<step>     run the step in the background (a ProcessPacket whose reply is held does not return)
func runTrace(scn string) (evs []event, frames []frameRec, ops []*apiOp) {
	l := &tlog{t0: time.Now()}
	g := newGate()
	s, err := packet.Config{Conn: &lconn{log: l, gate: g, closed: make(chan struct{})}, NICInfo: sess.DefaultNIC()}.NewSession("")
	if err != nil {
		panic(err)
	}
	h, err := arp_spoofer.New(s)
	if err != nil {
		panic(err)
	}
	n := 0
	var opsMu sync.Mutex
	var bg sync.WaitGroup
	addOp := func(o *apiOp) {
		opsMu.Lock()
		ops = append(ops, o)
		opsMu.Unlock()
	}
	process := func(fr []byte) {
		ndpgen.Quietly(func() {
			f, err := s.Parse(fr)
			if err == nil {
				h.ProcessPacket(f)
			}
		})
	}
	step := func(st string, k int) {
		op, arg := st[0], st[1:]
		f := strings.Split(arg, ":")
		switch op {
		case 'w':
			ms, _ := strconv.Atoi(arg)
			time.Sleep(time.Duration(ms) * time.Millisecond)
		case 'a':
			if len(f) != 2 || len(f[1]) != 1 {
				return
			}
			m, _ := strconv.Atoi(f[0])
			g.arm(f[1][0], macOf(m))
		case 'h':
			select {
			case <-g.held:
			case <-time.After(8 * time.Second):
				g.release() // nothing of that kind was sent: disarm
			}
		case 's':
			if len(f) != 2 {
				return
			}
			m, _ := strconv.Atoi(f[0])
			o := &apiOp{kind: 'S', m: m, valid: f[1] != "x"}
			a := packet.Addr{MAC: macOf(m), IP: netip.MustParseAddr("fe80::1")}
			if o.valid {
				ik, _ := strconv.Atoi(f[1])
				a.IP = ip4Of(ik)
			}
			v := "0"
			if o.valid {
				v = "1"
			}
			o.callIdx, o.callAt = l.callBegin(k, fmt.Sprintf("Sc%d:%s:%s", k, hx(a.MAC), v))
			_, err := h.StartHunt(a)
			o.res = "o"
			if err != nil {
				o.res = "e"
			}
			o.retIdx, o.retAt = l.callEnd(k, fmt.Sprintf("Sr%d:%s", k, o.res))
			o.huntLenAfter, o.huntAfter = huntDump(h)
			addOp(o)
		case 'x':
			m, _ := strconv.Atoi(f[0])
			o := &apiOp{kind: 'X', m: m, ipk: m}
			if len(f) == 2 {
				o.ipk, _ = strconv.Atoi(f[1])
			}
			ip := ip4Of(o.ipk).As4()
			o.callIdx, o.callAt = l.callBegin(k, fmt.Sprintf("Xc%d:%s:%s", k, hx(macOf(m)), hx(ip[:])))
			h.StopHunt(packet.Addr{MAC: macOf(m), IP: ip4Of(o.ipk)})
			o.retIdx, o.retAt = l.callEnd(k, fmt.Sprintf("Xr%d", k))
			o.huntLenAfter, o.huntAfter = huntDump(h)
			addOp(o)
		case 'c':
			o := &apiOp{kind: 'C'}
			o.callIdx, o.callAt = l.callBegin(k, fmt.Sprintf("Cc%d", k))
			h.Close()
			o.retIdx, o.retAt = l.callEnd(k, fmt.Sprintf("Cr%d", k))
			addOp(o)
		case 'q':
			if len(f) != 2 && len(f) != 3 {
				return
			}
			m, _ := strconv.Atoi(f[0])
			o := &apiOp{kind: 'Q', m: m, toRouter: f[1] == "1", esrc: m}
			if len(f) == 3 {
				o.esrc, _ = strconv.Atoi(f[2])
			}
			tip := netip.AddrFrom4([4]byte{192, 168, 0, 200})
			if o.toRouter {
				tip = sess.RouterIP4
			}
			o.callIdx, o.callAt = l.add(fmt.Sprintf("Qc%d:%s:%s:%s", k, hx(macOf(o.esrc)), hx(macOf(m)), f[1]))
			process(arpFrameVia(macOf(o.esrc), 1, macOf(m), ip4Of(m), make([]byte, 6), tip))
			o.retIdx, o.retAt = l.add(fmt.Sprintf("Qr%d", k))
			addOp(o)
		case 'b':
			if len(f) != 3 || len(f[1]) != 1 || len(f[2]) != 1 {
				return
			}
			m, _ := strconv.Atoi(f[0])
			o := &apiOp{kind: 'B', m: m, offer: f[1][0], tipIn: f[2] == "l"}
			o.tip = netip.AddrFrom4([4]byte{192, 168, 0, 77})
			if !o.tipIn {
				o.tip = netip.AddrFrom4([4]byte{8, 8, 8, 8})
			}
			off := "-"
			switch o.offer {
			case 'a':
				s.SetDHCPv4IPOffer(macOf(m), o.tip, packet.NameEntry{})
				t := o.tip.As4()
				off = hx(t[:])
			case 'd':
				d := netip.AddrFrom4([4]byte{192, 168, 0, 78})
				s.SetDHCPv4IPOffer(macOf(m), d, packet.NameEntry{})
				t := d.As4()
				off = hx(t[:])
			default:
				s.SetDHCPv4IPOffer(macOf(m), netip.Addr{}, packet.NameEntry{})
			}
			t4 := o.tip.As4()
			in := "0"
			if o.tipIn {
				in = "1"
			}
			o.callIdx, o.callAt = l.add(fmt.Sprintf("Bc%d:%s:%s:%s:%s", k, hx(macOf(m)), off, hx(t4[:]), in))
			process(arpFrame(1, macOf(m), netip.AddrFrom4([4]byte{}), make([]byte, 6), o.tip))
			o.retIdx, o.retAt = l.add(fmt.Sprintf("Br%d", k))
			addOp(o)
		case 'o':
			m, _ := strconv.Atoi(arg)
			o := &apiOp{kind: 'O', m: m}
			o.callIdx, o.callAt = l.add(fmt.Sprintf("Oc%d", k))
			if m%2 == 0 {
				process(arpFrame(2, macOf(m), ip4Of(m), sess.HostMAC, sess.HostIP4)) // reply
			} else {
				process(arpFrame(1, macOf(m), ip4Of(m), []byte{0xff, 0xff, 0xff, 0xff, 0xff, 0xff}, ip4Of(m))) // announcement
			}
			o.retIdx, o.retAt = l.add(fmt.Sprintf("Or%d", k))
			addOp(o)
		}
	}
	for _, st := range strings.Split(scn, ",") {
		if st == "" {
			continue
		}
		if st == "&" {
			continue
		}
		k := n
		if strings.IndexByte("sxcqbo", strings.TrimPrefix(st, "&")[0]) >= 0 {
			n++
		}
		if st[0] == '&' {
			bg.Add(1)
			go func(st string) {
				defer bg.Done()
				step(st, k)
			}(st[1:])
			continue
		}
		step(st, k)
	}
	time.Sleep(tail)
	g.release()
	bg.Wait()
	sort.SliceStable(ops, func(i, j int) bool { return ops[i].callIdx < ops[j].callIdx })
	l.mu.Lock()
	evs = append(evs, l.evs...)
	frames = append(frames, l.frames...)
	l.mu.Unlock()
	h.Close()
	go s.Close()
	return
}

// huntDump: size and MACs (sorted) of the hunt list – one observation under the handler mutex.
func huntDump(h *arp_spoofer.Handler) (int, string) {
	l := h.VerifHuntList()
	ms := make([]string, len(l))
	for i, a := range l {
		ms[i] = hx(a.MAC)
	}
	return len(l), strings.Join(ms, ",")
}

func setString(hunted map[int]bool) string {
	ms := []string{}
	for m := 0; m < 256; m++ {
		if hunted[m] {
			ms = append(ms, hx(macOf(m)))
		}
	}
	return strings.Join(ms, ",")
}

func traceOracle(evs []event, frames []frameRec, ops []*apiOp) (string, string) {
	const cycle = 6 * time.Second
	const slack = 1500 * time.Millisecond // generous: scheduling delays on a loaded machine must not raise an alarm
	hunted := map[int]bool{}
	for _, o := range ops {
		switch o.kind {
		case 'S':
			want := "o"
			if !o.valid {
				want = "e"
			}
			if o.res != want {
				return fmt.Sprintf("StartHunt(mac %d, valid=%v) returned %q, expected %q", o.m, o.valid, o.res, want), ""
			}
			if o.valid {
				hunted[o.m] = true
			}
			if o.huntLenAfter != len(hunted) {
				return fmt.Sprintf("hunt list holds %d entries after StartHunt(mac %d); %d distinct MACs are hunted", o.huntLenAfter, o.m, len(hunted)), ""
			}
			if o.huntAfter != setString(hunted) {
				return fmt.Sprintf("hunt list holds [%s] after StartHunt(mac %d); hunted MACs are [%s]", o.huntAfter, o.m, setString(hunted)), ""
			}
		case 'X':
			delete(hunted, o.m)
			if o.huntLenAfter != len(hunted) {
				return fmt.Sprintf("hunt list holds %d entries after StopHunt(mac %d, ip index %d); %d distinct MACs are hunted", o.huntLenAfter, o.m, o.ipk, len(hunted)), ""
			}
			if o.huntAfter != setString(hunted) {
				return fmt.Sprintf("hunt list holds [%s] after StopHunt(mac %d, ip index %d); StopHunt removes exactly that MAC: [%s]", o.huntAfter, o.m, o.ipk, setString(hunted)), ""
			}
		}
	}
	var closeRet time.Duration = -1
	for _, o := range ops {
		if o.kind == 'C' && closeRet < 0 {
			closeRet = o.retAt
		}
	}
	end := time.Duration(0)
	if len(ops) > 0 {
		end = ops[len(ops)-1].retAt + tail
	}
	// hunted intervals per MAC: [startCall, stopRet]
	type ival struct {
		a, b      time.Duration
		restarted bool
	}
	ivs := map[int][]ival{}
	for m := 0; m < 8; m++ {
		var from time.Duration = -1
		for _, o := range ops {
			if o.kind == 'S' && o.m == m && o.valid && from < 0 {
				from = o.callAt
			}
			if o.kind == 'X' && o.m == m && from >= 0 {
				ivs[m] = append(ivs[m], ival{a: from, b: o.retAt})
				from = -1
			}
		}
		if from >= 0 {
			ivs[m] = append(ivs[m], ival{a: from, b: end + time.Hour})
		}
	}
	// after the restoring packet no further forged frame unless the host is hunted again (log order: a
	// frame is logged when WriteTo returns; "hunted again" = a valid StartHunt that returned after the
	// restoring request and was called before the forged frame)
	for _, t := range frames {
		if t.kind != 'T' {
			continue
		}
		for _, f := range frames {
			if (f.kind != 'F' && f.kind != 'Y') || f.idx <= t.idx || string(f.dst) != string(t.dst) {
				continue
			}
			again := false
			for _, o := range ops {
				if o.kind == 'S' && o.valid && o.m == int(t.dst[5]) && o.retIdx > t.idx && o.callIdx < f.idx {
					again = true
				}
			}
			if !again {
				what := "announcement"
				if f.kind == 'Y' {
					what = "reply"
				}
				return fmt.Sprintf("forged ARP %s to %s written %v after the restoring request to it although it was not hunted again", what, hx(f.dst), f.at-t.at), ""
			}
		}
	}
	for _, f := range frames {
		m := int(f.dst[5])
		switch f.kind {
		case 'F', 'Y':
			ok, late := false, false
			for _, iv := range ivs[m] {
				if f.at >= iv.a && f.at <= iv.b {
					ok = true
				}
				if f.at > iv.b && f.at <= iv.b+cycle+slack {
					late = true // the frame of the iteration already past its check
				}
			}
			if len(ivs[m]) == 0 {
				return fmt.Sprintf("forged ARP frame (%c) to %s which was never hunted", f.kind, hx(f.dst)), ""
			}
			if !ok && !(late && f.kind == 'F') {
				return fmt.Sprintf("forged ARP frame (%c) to %s at %v outside every hunted interval", f.kind, hx(f.dst), f.at), ""
			}
			if f.kind == 'Y' {
				inReq := false
				for _, o := range ops {
					if o.kind == 'Q' && o.m == m && o.toRouter && o.callIdx < f.idx && f.idx < o.retIdx {
						inReq = true
					}
				}
				if !inReq {
					return fmt.Sprintf("forged reply to %s without a request for the router from it", hx(f.dst)), ""
				}
			}
		case 'T':
			if len(ivs[m]) == 0 {
				return fmt.Sprintf("restoring ARP request to %s which was never hunted", hx(f.dst)), ""
			}
		case 'J':
			okj := false
			for _, o := range ops {
				if o.kind == 'B' && o.m == m && o.callIdx < f.idx && f.idx < o.retIdx && o.offer == 'd' && o.tipIn {
					okj = true
				}
			}
			if !okj {
				return fmt.Sprintf("probe-reject reply to %s although the rule (different outstanding offer, address in the home LAN) does not hold", hx(f.dst)), ""
			}
		}
	}
	// requests from hunted hosts for the router must be answered at once; probes per rule
	for _, o := range ops {
		switch o.kind {
		case 'Q':
			inside := false
			for _, iv := range ivs[o.m] {
				if o.callAt >= iv.a && o.retAt <= iv.b-5*time.Millisecond && o.callAt > iv.a {
					inside = true
				}
			}
			got := false
			for _, f := range frames {
				if f.kind == 'Y' && int(f.dst[5]) == o.m && f.idx > o.callIdx && f.idx < o.retIdx {
					got = true
				}
			}
			if inside && o.toRouter && !got && (closeRet < 0 || true) {
				return fmt.Sprintf("hunted mac %d asked for the router and got no forged reply", o.m), ""
			}
			if got && !o.toRouter {
				return fmt.Sprintf("forged reply to mac %d which did not ask for the router", o.m), ""
			}
		case 'B':
			got := false
			for _, f := range frames {
				if f.kind == 'J' && int(f.dst[5]) == o.m && f.idx > o.callIdx && f.idx < o.retIdx {
					got = true
				}
			}
			want := o.offer == 'd' && o.tipIn
			if got != want {
				return fmt.Sprintf("probe from mac %d (offer %c, address in LAN %v): reject sent=%v, rule says %v", o.m, o.offer, o.tipIn, got, want), ""
			}
		}
	}
	// undo after StopHunt: (at most one forged frame,) one restoring request within one cycle, then nothing
	for m, list := range ivs {
		for k, iv := range list {
			if iv.b > end { // still hunted at the end
				continue
			}
			next := end + time.Hour
			if k+1 < len(list) {
				next = list[k+1].a
			}
			if closeRet >= 0 && closeRet < iv.b+cycle+slack {
				continue // Close intervenes: loops end without restoring
			}
			if next < iv.b+cycle+slack {
				continue // hunted again before the cycle elapsed: the old loop may never notice the stop
			}
			var seq []frameRec
			for _, f := range frames {
				if int(f.dst[5]) == m && (f.kind == 'F' || f.kind == 'T') && f.at > iv.b && f.at < next {
					seq = append(seq, f)
				}
			}
			nF, nT := 0, 0
			for _, f := range seq {
				if f.kind == 'F' {
					nF++
					if nT > 0 {
						return fmt.Sprintf("forged frame to mac %d after the restoring request that followed StopHunt", m), ""
					}
				} else {
					nT++
				}
			}
			if nT == 0 {
				return fmt.Sprintf("no restoring ARP request to mac %d within one cycle (6 s + slack) after StopHunt returned", m), ""
			}
			if seq[nF].at-iv.b > cycle+slack {
				return fmt.Sprintf("restoring ARP request to mac %d came %v after StopHunt (cycle is 6 s)", m, seq[nF].at-iv.b), ""
			}
			starts := k + 1 // hunted intervals so far: one loop per interval (an old loop can survive a quick stop/start)
			if starts == 1 && (nF > 1 || nT > 1) {
				return fmt.Sprintf("after StopHunt(mac %d): %d forged and %d restoring frames; one loop sends at most one forged frame and exactly one restoring request", m, nF, nT), ""
			}
		}
	}
	// after Close: no restoring requests, at most the in-flight forged frame
	if closeRet >= 0 {
		cnt := map[int]int{}
		for _, f := range frames {
			if f.at > closeRet+5*time.Millisecond {
				if f.kind == 'T' {
					return fmt.Sprintf("restoring request to %s after Close", hx(f.dst)), ""
				}
				if f.kind == 'F' {
					cnt[int(f.dst[5])]++
					if f.at > closeRet+slack {
						return fmt.Sprintf("forged frame to %s %v after Close returned", hx(f.dst), f.at-closeRet), ""
					}
				}
			}
		}
	}
	// periodic while hunted; and one loop per MAC (rate)
	for m, list := range ivs {
		starts := len(list)
		for _, iv := range list {
			b := iv.b
			if b > end {
				b = end
			}
			if closeRet >= 0 && closeRet < b {
				b = closeRet
			}
			last := iv.a
			nth := 0
			for _, f := range frames {
				if f.kind == 'F' && int(f.dst[5]) == m && f.at >= iv.a && f.at <= b {
					// the loop announces at once when it starts, then on every tick of its 6 s ticker: the first
					// forged frame follows StartHunt within the slack, the k-th later one comes no later than
					// k cycles + slack after StartHunt (a ticker does not drift) – only one loop attacks the MAC here
					if len(list) == 1 && starts == 1 {
						if nth == 0 && f.at-iv.a > slack {
							return fmt.Sprintf("first forged frame to hunted mac %d came %v after StartHunt (the loop announces at once)", m, f.at-iv.a), ""
						}
						if f.at-iv.a > time.Duration(nth)*cycle+slack {
							return fmt.Sprintf("forged frame %d to hunted mac %d came %v after StartHunt: later than %d cycles of 6 s + slack", nth+1, m, f.at-iv.a, nth), ""
						}
					}
					nth++
					if f.at-last > cycle+slack {
						return fmt.Sprintf("no forged frame to hunted mac %d for %v (cycle is 6 s)", m, f.at-last), ""
					}
					if last != iv.a && f.at-last < cycle-slack && len(list) == 1 && starts == 1 {
						return fmt.Sprintf("two forged frames to mac %d only %v apart: more than one loop attacks the MAC", m, f.at-last), ""
					}
					last = f.at
				}
			}
			if b-last > cycle+slack {
				return fmt.Sprintf("no forged frame to hunted mac %d for %v (cycle is 6 s)", m, b-last), ""
			}
			if len(list) == 1 && starts == 1 && nth == 0 && b-iv.a > slack {
				return fmt.Sprintf("no forged frame to hunted mac %d within %v of StartHunt (the loop announces at once)", m, slack), ""
			}
		}
	}
	return "", ""
}

func evalTrace(c *core.Ctx, line string) *core.Case {
	defer core.Tick() // liveness for the stall watchdog: traces run for seconds before their cases are added
	// traces run with the handler logger at debug level (output discarded): every log line of the handler and of its
	// spoof loops is formatted, so a panicking log call is a panic of the trace
	arp_spoofer.Logger.SetLevel(fastlog.LevelDebug)
	scn := ""
	for _, f := range strings.Fields(line) {
		if strings.HasPrefix(f, "scn=") {
			scn = f[4:]
		}
	}
	if scn == "" {
		return nil
	}
	evs, frames, ops := runTrace(scn)
	toks := make([]string, len(evs))
	for i, e := range evs {
		toks[i] = fmt.Sprintf("%s@%d", e.tok, e.at.Milliseconds())
	}
	nl := "arp.trace scn=" + scn + " " + strings.Join(toks, " ")
	return &core.Case{Line: nl, Impl: "accept", Trivial: len(ops) == 0,
		Oracle: func() (string, string) { return traceOracle(evs, frames, ops) }}
}

// ---------------------------------------------------------------------------------------------
// arp.frame – raw frames through Parse + dispatch + ProcessPacket

func errName(err error) string {
	switch {
	case err == nil:
		return "nil"
	case errors.Is(err, packet.ErrFrameLen):
		return "ErrFrameLen"
	case errors.Is(err, packet.ErrParseFrame):
		return "ErrParseFrame"
	case errors.Is(err, packet.ErrParseProtocol):
		return "ErrParseProtocol"
	case errors.Is(err, packet.ErrInvalidLen):
		return "ErrInvalidLen"
	}
	return "other"
}

// frameOut reads the forged reply / probe reject written by one ProcessPacket call.
func frameOut(frames [][]byte, in []byte) string {
	// a reply "router IP is at our MAC" to target protocol address 255.255.255.255 is both the forged reply to a
	// sender using that address and the probe reject for the router's address: told apart by the received frame
	inProbe := len(in) >= 42 && string(in[28:32]) == "\x00\x00\x00\x00"
	out := "-"
	host := []byte(sess.HostMAC)
	rip := sess.RouterIP4.As4()
	for _, b := range frames {
		if len(b) < 14+28 || b[12] != 0x08 || b[13] != 0x06 {
			continue
		}
		arp := b[14:]
		op := binary.BigEndian.Uint16(arp[6:8])
		smac, sip, tip := arp[8:14], arp[14:18], arp[24:28]
		switch {
		case op == 2 && string(smac) == string(host) && string(sip) == string(rip[:]) && !(inProbe && string(tip) == "\xff\xff\xff\xff"):
			out = "Y:" + hx(b[0:6])
		case op == 2 && string(smac) == string(host) && string(tip) == "\xff\xff\xff\xff":
			out = "J:" + hx(b[0:6]) + ":" + hx(sip)
		default:
			out = "?" + hx(b)
		}
	}
	return out
}

// refFrame: independent reading of the frame (RFC 826 layout at absolute offsets, RFC 5227 probe /
// announcement) and of what the handler has to do with it.
func refFrame(hunt [][]byte, offerMAC, offerIP, p []byte) string {
	if len(p) < 42 || p[6]&1 == 1 || p[12] != 0x08 || p[13] != 0x06 {
		return "-"
	}
	if p[14] != 0 || p[15] != 1 || p[16] != 8 || p[17] != 0 || p[18] != 6 || p[19] != 4 {
		return "-"
	}
	op := int(p[20])<<8 | int(p[21])
	sha, spa, tpa := p[22:28], p[28:32], p[38:42]
	ll := func(ip []byte) bool { return ip[0] == 169 && ip[1] == 254 }
	if ll(spa) || ll(tpa) || op != 1 || string(spa) == string(tpa) {
		return "-"
	}
	if string(spa) == "\x00\x00\x00\x00" { // probe
		lan := sess.HomeLAN.Contains(netip.AddrFrom4([4]byte{tpa[0], tpa[1], tpa[2], tpa[3]}))
		if len(offerIP) == 4 && string(offerMAC) == string(sha) && string(offerIP) != string(tpa) && lan {
			return "J:" + hx(sha) + ":" + hx(tpa)
		}
		return "-"
	}
	rip := sess.RouterIP4.As4()
	if string(tpa) != string(rip[:]) {
		return "-"
	}
	for _, m := range hunt {
		if string(m) == string(sha) {
			return "Y:" + hx(sha)
		}
	}
	return "-"
}

func evalFrame(c *core.Ctx, line string) *core.Case {
	f := strings.Fields(line)
	if len(f) != 10 {
		return nil
	}
	var hunt [][]byte
	if f[6] != "-" {
		for _, m := range strings.Split(f[6], ",") {
			hunt = append(hunt, core.UnHex(m))
		}
	}
	offerMAC, offerIP, p := core.UnHex(f[7]), core.UnHex(f[8]), core.UnHex(f[9])
	out := "-"
	impl := core.Safely(func() string {
		s, conn := sess.New(nil)
		h, err := arp_spoofer.New(s)
		if err != nil {
			return "new: " + err.Error()
		}
		addrs := []packet.Addr{}
		for i, m := range hunt {
			addrs = append(addrs, packet.Addr{MAC: net.HardwareAddr(m), IP: ip4Of(50 + i)})
		}
		h.VerifSetHunt(addrs)
		if len(offerMAC) == 6 && len(offerIP) == 4 {
			s.SetDHCPv4IPOffer(net.HardwareAddr(offerMAC), netip.AddrFrom4([4]byte{offerIP[0], offerIP[1], offerIP[2], offerIP[3]}), packet.NameEntry{})
		}
		buf := append([]byte{}, p...) // the receive buffer
		res := ""
		ndpgen.Quietly(func() {
			fr, perr := s.Parse(buf)
			conn.Take()
			ret := "-"
			// the dispatch of the library's packet loop: an error drops the frame, PayloadARP goes to the ARP handler
			if perr == nil && fr.PayloadID == packet.PayloadARP {
				ret = errName(h.ProcessPacket(fr))
			}
			out = frameOut(conn.Take(), p)
			pe := 0
			if perr != nil {
				pe = 1
			}
			res = fmt.Sprintf("perr=%d pid=%d ret=%s out=%s", pe, int(fr.PayloadID), ret, out)
		})
		h.Close()
		return res
	})
	return &core.Case{Line: line, Impl: impl, Trivial: len(p) < 42,
		Cmp: func(a, b string) bool { return a == strings.SplitN(b, " | ", 2)[0] },
		Oracle: func() (string, string) {
			if impl == "panic" {
				return "Parse / arp.ProcessPacket panicked on a raw frame", ""
			}
			if want := refFrame(hunt, offerMAC, offerIP, p); want != out {
				return fmt.Sprintf("the ARP handler wrote %q for this frame; the reference reading of the frame says %q", out, want), ""
			}
			return "", ""
		}}
}

func Eval(c *core.Ctx, line string) *core.Case {
	if strings.HasPrefix(line, "arp.trace ") {
		return evalTrace(c, line)
	}
	if strings.HasPrefix(line, "arp.frame ") {
		return evalFrame(c, line)
	}
	return nil
}

// genFrames: raw frames for the function mode.
func genFrames(c *core.Ctx) []string {
	r := c.Rnd
	rip := sess.RouterIP4.As4()
	lan := []byte{192, 168, 0, 0}
	prefix := fmt.Sprintf("arp.frame %s %s %s 24 %s", hx(sess.HostMAC), hx(sess.RouterMAC), hx(lan), hx(rip[:]))
	var lines []string
	emit := func(hunt [][]byte, om, oip, frame []byte) {
		hs := "-"
		if len(hunt) > 0 {
			x := []string{}
			for _, m := range hunt {
				x = append(x, hx(m))
			}
			hs = strings.Join(x, ",")
		}
		lines = append(lines, fmt.Sprintf("%s %s %s %s %s", prefix, hs, hx(om), hx(oip), hx(frame)))
	}
	pad := func(b []byte) []byte { return append(b, make([]byte, 18)...) }
	ips := [][]byte{{192, 168, 0, 100}, rip[:], {192, 168, 0, 200}, {0, 0, 0, 0}, {169, 254, 1, 2}, {8, 8, 8, 8}, {192, 168, 0, 77}, {255, 255, 255, 255}}
	n := c.Scale(2500, 60000)
	for i := 0; i < n; i++ {
		m, other := macOf(r.Intn(3)), macOf(3+r.Intn(2))
		hunt := [][]byte{m}
		if r.Intn(4) == 0 {
			hunt = append(hunt, macOf(7))
		}
		if r.Intn(8) == 0 {
			hunt = nil
		}
		sha := []byte(m)
		if r.Intn(4) == 0 {
			sha = other // not hunted
		}
		esrc := sha
		if r.Intn(4) == 0 { // relayed by a bridge / sender hardware address differs from the Ethernet source
			esrc = [][]byte{m, other, macOf(6)}[r.Intn(3)]
		}
		op := []uint16{1, 1, 1, 2, 3, 0, 256}[r.Intn(7)]
		sip, tip := ips[0], ips[1]
		if r.Intn(3) == 0 {
			sip = ips[r.Intn(len(ips))]
		}
		if r.Intn(3) == 0 {
			tip = ips[r.Intn(len(ips))]
		}
		var om, oip []byte
		switch r.Intn(4) {
		case 0:
			om, oip = sha, tip
		case 1:
			om, oip = sha, []byte{192, 168, 0, 78}
		case 2:
			om, oip = other, []byte{192, 168, 0, 78}
		}
		fr := arpFrameVia(esrc, op, sha, netip.AddrFrom4([4]byte{sip[0], sip[1], sip[2], sip[3]}), make([]byte, 6), netip.AddrFrom4([4]byte{tip[0], tip[1], tip[2], tip[3]}))
		if r.Intn(2) == 0 {
			fr = pad(fr)
		}
		switch r.Intn(14) {
		case 0: // header field corruption
			k := []int{14, 15, 16, 17, 18, 19, 20, 21}[r.Intn(8)]
			fr[k] = []byte{0, 1, 4, 6, 8, 0x80, byte(r.Intn(256))}[r.Intn(7)]
		case 1: // truncation at every length
			fr = fr[:r.Intn(len(fr)+1)]
		case 2: // 802.1Q / 802.1ad tag in front of the EtherType
			tag := [][]byte{{0x81, 0x00, 0x00, 0x05}, {0x88, 0xa8, 0x00, 0x05, 0x81, 0x00, 0x00, 0x06}}[r.Intn(2)]
			fr = append(append(append([]byte{}, fr[:12]...), tag...), fr[12:]...)
		case 3: // group bit in the Ethernet source
			fr[6] |= 1
		case 4: // other EtherType
			et := []uint16{0x0800, 0x86dd, 0x0805, 0x0807, 0x8035, 0x0600, 0x05dc, 0x88cc}[r.Intn(8)]
			fr[12], fr[13] = byte(et>>8), byte(et)
		case 5: // random flip anywhere
			fr[r.Intn(len(fr))] ^= byte(1 << uint(r.Intn(8)))
		case 6: // random bytes
			fr = c.RandBytes(r.Intn(70))
		case 7: // frame sent by the host itself
			copy(fr[6:12], sess.HostMAC)
		}
		emit(hunt, om, oip, fr)
	}
	// truncation of a well-formed request of a hunted host at every length, every hlen / plen value
	base := pad(arpFrame(1, macOf(0), ip4Of(0), make([]byte, 6), sess.RouterIP4))
	for k := 0; k <= len(base); k++ {
		emit([][]byte{macOf(0)}, nil, nil, base[:k])
	}
	for v := 0; v < 256; v++ {
		for _, off := range []int{18, 19} {
			f := append([]byte{}, base...)
			f[off] = byte(v)
			emit([][]byte{macOf(0)}, nil, nil, f)
		}
	}
	return lines
}

func genScenario(c *core.Ctx) string {
	r := c.Rnd
	var st []string
	nm := 1 + r.Intn(3)
	steps := 3 + r.Intn(6)
	for i := 0; i < steps; i++ {
		m := r.Intn(nm)
		switch x := r.Intn(12); {
		case x < 3:
			ipk := []string{strconv.Itoa(m), strconv.Itoa(m), "0", "x"}[r.Intn(4)]
			st = append(st, fmt.Sprintf("s%d:%s", m, ipk))
		case x < 5:
			if r.Intn(5) < 2 { // the caller's idea of the host's address differs from the one StartHunt saw
				st = append(st, fmt.Sprintf("x%d:%d", m, []int{r.Intn(nm), r.Intn(nm), 5}[r.Intn(3)]))
			} else {
				st = append(st, fmt.Sprintf("x%d", m))
			}
		case x < 7:
			if r.Intn(5) < 2 { // relayed by a bridge: Ethernet source differs from the ARP sender
				st = append(st, fmt.Sprintf("q%d:%d:%d", r.Intn(nm+1), 1-r.Intn(4)/3, r.Intn(nm+1)))
			} else {
				st = append(st, fmt.Sprintf("q%d:%d", r.Intn(nm+1), r.Intn(2)))
			}
		case x < 8:
			st = append(st, fmt.Sprintf("b%d:%c:%c", r.Intn(nm+1), "-ad"[r.Intn(3)], "llo"[r.Intn(3)]))
		case x < 9:
			st = append(st, fmt.Sprintf("o%d", r.Intn(nm+1)))
		case x < 10 && i > 2:
			st = append(st, "c")
		case x == 10 && i > 0 && r.Intn(2) == 0:
			// a hunted (or not) host asks for the router; its reply is held while StopHunt / StartHunt / Close is called
			call := []string{fmt.Sprintf("x%d", m), fmt.Sprintf("x%d", m), fmt.Sprintf("s%d:%d", m, m), "c"}[r.Intn(4)]
			st = append(st, fmt.Sprintf("a%d:Y", m), fmt.Sprintf("&q%d:1", m), "h", call)
		default:
			st = append(st, fmt.Sprintf("w%d", []int{5, 100, 900, 3000, 6300}[r.Intn(5)]))
		}
	}
	return strings.Join(st, ",")
}

// Gen is the C13 correspondence run.
func Gen(c *core.Ctx) {
	c.Res.Rule = "arp.frame: raw frames (requests / probes / replies / announcements from hunted and other senders, sender hardware address different from the Ethernet source, every ARP header byte corrupted, all hlen / plen values, truncation at every length, 802.1Q / 802.1ad tags, group source addresses, other EtherTypes, bit flips, random bytes, DHCP offers none / equal / different / for another MAC) through Session.Parse, the PayloadID dispatch and arp.ProcessPacket – Parse result, returned error and reply written vs the Lean composition arpEventOf + machine step vs an independent Go reading of the frame.  arp.trace: real-time scenarios (StartHunt incl. invalid addresses and MACs sharing one IPv4, StopHunt incl. with another address than StartHunt used or the address of another hunted MAC, Close over up to 3 MACs, received requests for the router / another address from hunted and non-hunted ARP senders incl. frames relayed by a bridge (Ethernet source differs from the ARP sender, both directions), hunt-list content dumped after every call, probes with no / equal / different DHCP offer for in-LAN and foreign addresses, replies and announcements, pauses up to 6.3 s, 7.8 s tail; StopHunt / StartHunt / Close called while a forged reply or announcement is held inside the connection's WriteTo) run in parallel, one handler each; the ordered log must be accepted by the Lean ARP hunt machine (6 s ticker as a lower bound between forged frames of one loop); the oracle checks every forged / restoring / reject frame, API results, list size, the undo sequence after StopHunt within one cycle, no forged frame after the restoring request unless hunted again, Close, and the period"
	lines := c.CorpusLines()
	fixed := []string{
		"s0:0,w300,x0", "s0:0,s0:0,s0:1,w6300,x0", "s0:0,s1:0,w300,x0,w300", "s0:0,s1:1,q0:1,q1:0,q2:1,x1,q1:1",
		"s0:x,q0:1,b0:d:l,b1:d:o,b2:a:l,b0:-:l", "s0:0,w200,c", "s0:0,w6300,w3000,x0", "s0:0,x0,w50,s0:0,w6300,x0",
		"s0:0,s1:1,s2:2,w500,x1,o1,o2,w6300,c",
		// two full cycles while hunted: the k-th forged frame is due k cycles after StartHunt
		"s0:0,w6300,w6300,x0",
		// requests relayed by a bridge: hunted Ethernet source / non-hunted ARP sender and the reverse
		"s0:0,w100,q1:1:0,q0:1:1,q1:0:0,q0:0:1,w200", "s0:0,s1:1,w200,q2:1:1,q1:1:2,q0:1:0,q2:1:2",
		// StopHunt with another address than StartHunt used; with the address of another hunted MAC; shared IPv4
		"s0:0,w200,x0:5,w300,q0:1", "s0:3,w200,x0,w300,q0:1", "s0:0,s1:1,w200,x1:0,w300,q0:1,q1:1",
		"s0:0,s1:0,s2:2,w200,x1:0,q0:1,q1:1,w300,x0:2,q2:1",
		// StopHunt called while a forged frame is held inside WriteTo: the immediate reply (ProcessPacket in the
		// background), the announcement of a second loop that survived a quick StopHunt / StartHunt
		"s0:0,w500,a0:Y,&q0:1,h,x0,w300,q0:1", "s0:0,w200,x0,w3000,s0:0,w1000,a0:F,h,x0",
		"s0:0,s1:1,w300,a1:Y,&q1:1,h,x1,q0:1,w200,x0", "s0:0,w4000,a0:F,h,x0,w100,s0:0,w300,x0",
	}
	ns := c.Scale(28, 1200)
	scns := []string{}
	for _, l := range lines {
		for _, f := range strings.Fields(l) {
			if strings.HasPrefix(f, "scn=") {
				scns = append(scns, f[4:])
			}
		}
	}
	nc := len(scns)
	scns = append(scns, fixed...)
	for i := 0; i < ns; i++ {
		scns = append(scns, genScenario(c))
	}
	cases := make([]*core.Case, len(scns))
	sem := make(chan struct{}, c.Scale(48, 64))
	var wg sync.WaitGroup
	for i, sc := range scns {
		wg.Add(1)
		sem <- struct{}{}
		go func(i int, sc string) {
			defer wg.Done()
			defer func() { <-sem }()
			cases[i] = evalTrace(c, "arp.trace scn="+sc)
		}(i, sc)
	}
	wg.Wait()
	for i, cs := range cases {
		if cs != nil {
			switch {
			case i < nc:
				cs.Class = "corpus"
			case i < nc+len(fixed):
				cs.Class = "trace-fixed"
			default:
				cs.Class = "trace"
			}
			c.Add(*cs)
		}
	}
	c.Res.Extra["traces_validated_against_impl"] = len(scns)
	// function mode over raw frames
	for _, l := range lines {
		if strings.HasPrefix(l, "arp.frame ") {
			if cs := evalFrame(c, l); cs != nil {
				cs.Class = "corpus-frame"
				c.Add(*cs)
			}
		}
	}
	nf := 0
	for _, l := range genFrames(c) {
		if cs := evalFrame(c, l); cs != nil {
			cs.Class = "frame"
			c.Add(*cs)
			nf++
		}
	}
	c.Res.Extra["raw_frames_through_parse_and_handler"] = nf
}

var Runner = core.Runner{Gen: Gen, Eval: Eval}

// FrameRunner is the raw-frame function mode alone (Parse + dispatch + arp.ProcessPacket on any bytes);
// C08 ("no input panics") runs it as one of its areas.
var FrameRunner = core.Runner{
	Gen: func(c *core.Ctx) {
		c.Res.Rule = "arp.frame: raw frames through Session.Parse, the PayloadID dispatch and arp.ProcessPacket (see C13)"
		for _, l := range genFrames(c) {
			if cs := evalFrame(c, l); cs != nil {
				cs.Class = "arp-frame"
				c.Add(*cs)
			}
		}
	},
	Eval: func(c *core.Ctx, line string) *core.Case {
		if strings.HasPrefix(line, "arp.frame ") {
			return evalFrame(c, line)
		}
		return nil
	},
}

// GenFrameLines exposes the raw-frame generator (arp.frame lines) to the C08 handler-body harness.
func GenFrameLines(c *core.Ctx) []string { return genFrames(c) }
