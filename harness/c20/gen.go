package c20

import (
	"fmt"
	"math"
	"strings"
	"time"

	"verif/harness/core"
)

func add(c *core.Ctx, class, line string) {
	if cs := Eval(c, line); cs != nil {
		cs.Class = class
		c.Add(*cs)
	} else {
		panic("c20 generator produced a line Eval rejects: " + cut(line))
	}
}

// both: the line on the real code + model, and the same fields through the Lean Spec vs the stdlib
func both(c *core.Ctx, class, init string, toks ...string) {
	add(c, class, "fl "+init+" "+strings.Join(toks, " "))
	ln := "spec " + init + " " + strings.Join(toks, " ")
	if cs := Eval(c, ln); cs != nil { // nil: no stdlib reference for one of the values
		cs.Class = "spec:" + class
		c.Add(*cs)
	}
}

func h(b []byte) string  { return core.Hex(b) }
func hs(s string) string { return core.Hex([]byte(s)) }
func tok(p ...any) string {
	var sb strings.Builder
	for _, x := range p {
		fmt.Fprint(&sb, x)
	}
	return sb.String()
}

var names = []string{"a", "ip", "mac", "name", "payload", "srcIP", "", "x=y z", "operation", "len", "ttl", "a-rather-long-field-name-for-a-log-line"}

func (g *gen) name() string { return hs(names[g.c.Rnd.Intn(len(names))]) }

type gen struct{ c *core.Ctx }

func (g *gen) text(n int) []byte {
	b := make([]byte, n)
	for i := range b {
		switch g.c.Rnd.Intn(20) {
		case 0:
			b[i] = byte(g.c.Rnd.Intn(256))
		case 1:
			b[i] = ' '
		default:
			b[i] = byte('a' + g.c.Rnd.Intn(26))
		}
	}
	return b
}

var smallGroups = []uint16{0x1, 0x10, 0x100, 0x1000, 0xf, 0xff, 0xfff, 0xffff, 0xa, 0xa0, 0xa00, 0xa000, 0x101, 0x1001, 0x8000, 0x00ff, 0xff00}

// ip6 builds an address whose zero groups are exactly the bits of pattern.
func (g *gen) ip6(pattern int) []byte {
	a := make([]byte, 16)
	for i := 0; i < 8; i++ {
		if pattern&(1<<i) != 0 {
			continue
		}
		var v uint16
		if g.c.Rnd.Intn(3) == 0 {
			v = uint16(1 + g.c.Rnd.Intn(65535))
		} else {
			v = smallGroups[g.c.Rnd.Intn(len(smallGroups))]
		}
		a[2*i], a[2*i+1] = byte(v>>8), byte(v)
	}
	return a
}

func (g *gen) mapped() []byte {
	a := make([]byte, 16)
	a[10], a[11] = 0xff, 0xff
	g.c.Rnd.Read(a[12:])
	return a
}

func (g *gen) anyIP() string {
	switch g.c.Rnd.Intn(8) {
	case 0:
		return h(g.mapped())
	case 1, 2:
		return h(g.c.RandBytes(4))
	case 3:
		return h(g.c.RandBytes(16))
	default:
		return h(g.ip6(g.c.Rnd.Intn(256)))
	}
}

func (g *gen) duration() int64 {
	r := g.c.Rnd
	var d int64
	switch r.Intn(6) {
	case 0:
		d = r.Int63n(2000)
	case 1:
		d = r.Int63n(2000000)
	case 2:
		d = r.Int63n(2000000000)
	case 3:
		d = r.Int63n(int64(100 * time.Hour))
	case 4:
		d = r.Int63()
	default:
		d = int64(r.Intn(5000)) * int64([]time.Duration{time.Microsecond, time.Millisecond, time.Second, time.Minute, time.Hour}[r.Intn(5)])
	}
	if r.Intn(4) == 0 {
		d = -d
	}
	return d
}

// field returns one random field token of the given approximate text size class.
func (g *gen) field() string {
	r := g.c.Rnd
	n := g.name()
	switch r.Intn(27) {
	case 0:
		return tok("str:", n, ":", h(g.text(r.Intn(40))))
	case 1:
		return tok("lab:", h(g.text(r.Intn(20))))
	case 2:
		return tok("bool:", n, ":", r.Intn(2))
	case 3:
		return tok("int:", n, ":", g.int64())
	case 4:
		return tok("u8:", n, ":", r.Intn(256))
	case 5:
		return tok("u16:", n, ":", r.Intn(65536))
	case 6:
		return tok("u32:", n, ":", g.u32())
	case 7:
		return tok("x8:", n, ":", r.Intn(256))
	case 8:
		return tok("x16:", n, ":", r.Intn(65536))
	case 9:
		if r.Intn(10) == 0 {
			return tok("mac:", n, ":", h(g.c.RandBytes(r.Intn(9))))
		}
		return tok("mac:", n, ":", h(g.c.RandBytes(6)))
	case 10, 11:
		if r.Intn(12) == 0 {
			return tok("ip:", n, ":-")
		}
		return tok("ip:", n, ":", g.anyIP())
	case 12:
		switch r.Intn(12) {
		case 0:
			return tok("ips:", n, ":~")
		case 1:
			return tok("ips:", n, ":", h(g.c.RandBytes(r.Intn(20))))
		}
		return tok("ips:", n, ":", g.anyIP())
	case 13:
		return tok("ba:", n, ":", h(g.c.RandBytes(r.Intn(30))))
	case 14:
		k := r.Intn(5)
		if k == 0 {
			return tok("sa:", n, ":_")
		}
		e := make([]string, k)
		for i := range e {
			e[i] = h(g.text(r.Intn(12)))
		}
		return tok("sa:", n, ":", strings.Join(e, ","))
	case 15:
		k := r.Intn(5)
		if k == 0 {
			return tok("ipa:", n, ":_")
		}
		e := make([]string, k)
		for i := range e {
			if r.Intn(10) == 0 {
				e[i] = "~"
			} else {
				e[i] = g.anyIP()
			}
		}
		return tok("ipa:", n, ":", strings.Join(e, ","))
	case 16:
		return tok("dur:", n, ":", g.duration())
	case 17:
		ms := r.Int63n(4102444800000)
		return tok("time:", n, ":", ms, ":", hs(time.UnixMilli(ms).UTC().Format(time.StampMilli)))
	case 18:
		return tok("txt:", n, ":", h(g.text(r.Intn(30))))
	case 19:
		return tok("err:", h(g.text(r.Intn(30))))
	case 20:
		return tok("bytes:", n, ":", h(g.c.RandBytes(r.Intn(20))))
	case 21:
		return tok("stg:", h(g.text(r.Intn(20))))
	case 22:
		return tok("mod:", hs([]string{"", "ip", "ether", "module", "verylongmodule"}[r.Intn(5)]), ":", h(g.text(r.Intn(3)*r.Intn(10))))
	case 23:
		return "lf"
	case 24:
		return tok("pint:", g.u32())
	case 25:
		return []string{tok("whex:", r.Intn(256)), tok("wnlz:", r.Intn(256)), tok("ab:", r.Intn(256))}[r.Intn(3)]
	default:
		return tok("ip6:", h(g.ip6(r.Intn(256))))
	}
}

func (g *gen) u32() uint32 {
	r := g.c.Rnd
	switch r.Intn(4) {
	case 0:
		return uint32(r.Intn(1000))
	case 1:
		return uint32(math.Pow10(r.Intn(10))) + uint32(r.Intn(3)) - 1
	case 2:
		return uint32(1)<<uint(r.Intn(32)) + uint32(r.Intn(3)) - 1
	}
	return r.Uint32()
}

func (g *gen) int64() int64 {
	r := g.c.Rnd
	var v int64
	switch r.Intn(4) {
	case 0:
		v = int64(r.Intn(1000))
	case 1:
		v = int64(math.Pow10(r.Intn(19))) + int64(r.Intn(3)) - 1
	case 2:
		v = int64(1)<<uint(r.Intn(63)) + int64(r.Intn(3)) - 1
	default:
		v = r.Int63()
	}
	if r.Intn(2) == 0 {
		v = -v
	}
	return v
}

// refLen is the reference text length of a token (0 when there is no reference).
func refLen(t string) int {
	f := parseField(t)
	if f == nil {
		return 0
	}
	s, _ := f.ref()
	return len(s)
}

// Gen is the C20 correspondence run.
func Gen(c *core.Ctx) {
	c.Res.Rule = "fl/fls/flw: field sequences applied to a real fastlog.Line (state: cursor, buffer[:cursor], hash of the rest) vs the Lean model; oracle = standard-library rendering whenever the line and its newline fit 2048 bytes, and no panic / cursor <= 2048 for ByteArray, StringArray, IPArray in every state; spec: Lean Spec rendering vs the standard library. Generators: all 65536 uint16 (decimal + hex), boundary and random uint32/int, all 256 byte values in every hex/decimal/MAC/IPv4 position, all 256 IPv6 zero-group layouts x small and random group values through appendIP6, IPSlice, IP and IPArray, IPv4-mapped addresses, durations at every unit boundary, random field sequences landing within +-40 bytes of the buffer end, every field kind at every start index 1960..2052, arrays longer than the buffer, views. distinct = distinct protocol lines; non-trivial = at least one field applied"
	g := &gen{c: c}
	r := c.Rnd
	for _, l := range c.CorpusLines() {
		add(c, "corpus", l)
	}
	ether := "msg:" + hs("ether") + ":-:0"

	// 1. every uint16 value: decimal, fixed-width hex, printInt
	for v := 0; v < 65536; v += 4 { // four values per line: the per-line cost dominates
		var t []string
		for w := v; w < v+4; w++ {
			t = append(t, tok("u16:70:", w), tok("x16:78:", w), tok("pint:", w))
		}
		both(c, "u16-all", ether, t...)
	}
	// 2. every byte value in decimal / hex / nibble helpers / IPv4 octets / MAC octets
	for v := 0; v < 256; v++ {
		both(c, "byte-all", "raw:0:0", tok("u8:70:", v), tok("x8:78:", v), tok("whex:", v), tok("wnlz:", v), tok("ab:", v))
		for p := 0; p < 6; p++ {
			m := c.RandBytes(6)
			m[p] = byte(v)
			both(c, "mac-all", ether, tok("mac:6d:", h(m)))
		}
		both(c, "mac-all", ether, tok("mac:6d:", h([]byte{byte(v), byte(v), byte(v), byte(v), byte(v), byte(v)})))
		for p := 0; p < 4; p++ {
			a := c.RandBytes(4)
			a[p] = byte(v)
			m := make([]byte, 16)
			m[10], m[11] = 0xff, 0xff
			copy(m[12:], a)
			both(c, "ip4-all", ether, tok("ip:69:", h(a)), tok("ips:69:", h(a)), tok("ip:69:", h(m)), tok("ips:69:", h(m)), tok("ipa:61:", h(a), ",", h(m)))
		}
	}
	// 3. boundary uint32 / int values
	var u32s []uint64
	for k := 0; k <= 9; k++ {
		p := uint64(math.Pow10(k))
		u32s = append(u32s, p-1, p, p+1)
	}
	for k := 0; k <= 32; k++ {
		p := uint64(1) << uint(k)
		u32s = append(u32s, p-1, p, p+1)
	}
	for _, v := range u32s {
		if v <= math.MaxUint32 {
			both(c, "u32-boundary", "raw:3:0", tok("u32:6e:", v), tok("pint:", v), tok("int:69:", v), tok("int:69:-", v))
		}
	}
	var ints []int64
	for k := 0; k <= 18; k++ {
		p := int64(math.Pow10(k))
		ints = append(ints, p-1, p, p+1, -p+1, -p, -p-1)
	}
	for k := 0; k <= 62; k++ {
		p := int64(1) << uint(k)
		ints = append(ints, p-1, p, p+1, -p+1, -p, -p-1)
	}
	ints = append(ints, math.MaxInt64, math.MinInt64, math.MinInt64+1, math.MaxInt64-1)
	for _, v := range ints {
		both(c, "int-boundary", ether, tok("int:69:", v))
	}
	for k := 0; k < c.Scale(4000, 250000); k++ {
		both(c, "int-random", "raw:0:0", tok("u32:6e:", g.u32()), tok("pint:", g.u32()), tok("int:69:", g.int64()))
	}
	// 4. every IPv6 zero-group layout x group values, through all four IPv6 paths
	for pat := 0; pat < 256; pat++ {
		for k := 0; k < c.Scale(24, 900); k++ {
			a, b := g.ip6(pat), g.ip6(r.Intn(256))
			both(c, "ip6-layout", "raw:0:0", tok("ip6:", h(a)), tok("ips:69:", h(a)), tok("ip:69:", h(a)), tok("ipa:61:", h(a), ",", h(b)))
		}
		// one line of each layout ending exactly one byte before the buffer end
		a := g.ip6(pat)
		n := refLen(tok("ips:69:", h(a)))
		both(c, "ip6-layout-end", tok("raw:", bufSize-1-n, ":58"), tok("ips:69:", h(a)))
		both(c, "ip6-layout-end", tok("raw:", bufSize-1-n, ":58"), tok("ip:69:", h(a)))
	}
	for k := 0; k < c.Scale(500, 20000); k++ {
		both(c, "ip6-mapped", ether, tok("ip:69:", h(g.mapped())), tok("ips:69:", h(g.mapped())), tok("ip6:", h(g.mapped())))
		both(c, "ip6-random", ether, tok("ip:69:", h(c.RandBytes(16))), tok("ips:69:", h(c.RandBytes(16))), tok("ip6:", h(c.RandBytes(16))))
	}
	// 5. durations
	var durs []int64
	for _, u := range []int64{1, 1000, 1000000, 1000000000, 60 * 1000000000, 3600 * 1000000000} {
		for _, m := range []int64{1, 2, 10, 59, 60, 61, 100, 999, 1000} {
			for _, d := range []int64{-1, 0, 1} {
				durs = append(durs, u*m+d, -(u*m + d))
			}
		}
	}
	durs = append(durs, 0, math.MaxInt64, math.MinInt64, math.MinInt64+1, 1500000000, 1000000001, 100000000, 3723000001000)
	for _, d := range durs {
		both(c, "duration-boundary", ether, tok("dur:64:", d))
	}
	for k := 0; k < c.Scale(3000, 120000); k++ {
		both(c, "duration-random", "raw:1:0", tok("dur:64:", g.duration()))
	}
	// 6. every field kind at every start index around the buffer end
	for start := 1960; start <= 2052; start++ {
		for k := 0; k < c.Scale(40, 400); k++ {
			add(c, "near-end", tok("fl raw:", start, ":170 ", g.field()))
		}
		for _, t := range []string{"ba:61:0102030405", "ba:-:-", "sa:61:78,79", "sa:61:_", "ipa:61:01020304,20010db8000000000000000000000001", "ipa:61:_",
			"ipa:61:ffffffffffffffffffffffffffffffff,ffffffffffffffffffffffffffffffff", "ips:69:ffffffffffffffffffffffffffffffff", "str:6e:76616c7565", "mod:6970:-", "lf"} {
			add(c, "near-end", tok("fl raw:", start, ":170 ", t))
			add(c, "near-end", tok("flw raw:", start, ":170 ", t))
			add(c, "near-end", tok("fls raw:", start, ":170 ", t))
		}
	}
	// 7. random field sequences; half of them padded to land within +-40 bytes of the buffer end
	for k := 0; k < c.Scale(6000, 150000); k++ {
		nf := 1 + r.Intn(12)
		toks := make([]string, nf)
		total := 0
		for i := range toks {
			toks[i] = g.field()
			total += refLen(toks[i])
		}
		init := ether
		base := 7
		switch r.Intn(4) {
		case 0:
			m, t := names[r.Intn(len(names))], g.text(r.Intn(3)*r.Intn(20))
			init = tok("msg:", hs(m), ":", h(t), ":", r.Intn(256))
			base = len((&initSpec{module: []byte(m), msg: t}).prefixRef())
		case 1:
			base = r.Intn(200)
			init = tok("raw:", base, ":", r.Intn(256))
		}
		if k%2 == 0 {
			target := bufSize - 41 + r.Intn(81)
			if pad := target - base - total - 5; pad >= 0 {
				toks = append([]string{tok("str:70:", h(g.text(pad)))}, toks...)
			}
		}
		op := []string{"fl", "fl", "fl", "fls", "flw"}[r.Intn(5)]
		add(c, "sequence", op+" "+init+" "+strings.Join(toks, " "))
		if k%8 == 0 {
			if cs := Eval(c, "spec "+init+" "+strings.Join(toks, " ")); cs != nil {
				cs.Class = "spec:sequence"
				c.Add(*cs)
			}
		}
	}
	// 8. arrays longer than the buffer
	starts := []int{0, 7, 100, 1000, 1500, 1900, 2000, 2020, 2030, 2035, 2036, 2037, 2040, 2047, 2048}
	for _, s := range starts {
		for _, n := range []int{0, 1, 2, 3, 5, 16, 300, 600, 640, 660, 680, 700, 1000, 2047, 2048, 2049, 2500, 5000} {
			add(c, "bytearray-long", tok("fl raw:", s, ":170 ba:", hs("payload"), ":", h(c.RandBytes(n))))
		}
		for k := 0; k < c.Scale(6, 60); k++ {
			add(c, "bytearray-long", tok("fl raw:", s+r.Intn(12), ":", r.Intn(256), " ba:", g.name(), ":", h(c.RandBytes(r.Intn(3000)))))
			ne := 1 + r.Intn(700)
			e := make([]string, ne)
			for i := range e {
				e[i] = h(g.text(r.Intn(1 + r.Intn(12))))
			}
			add(c, "stringarray-long", tok("fl raw:", s+r.Intn(12), ":", r.Intn(256), " sa:", g.name(), ":", strings.Join(e, ",")))
			ne = 1 + r.Intn(150)
			e = make([]string, ne)
			for i := range e {
				if r.Intn(20) == 0 {
					e[i] = "~"
				} else {
					e[i] = g.anyIP()
				}
			}
			add(c, "iparray-long", tok("fl raw:", s+r.Intn(12), ":", r.Intn(256), " ipa:", g.name(), ":", strings.Join(e, ",")))
		}
		for _, n := range []int{2000, 2030, 2039, 2040, 2041, 2044, 2048, 2100} {
			add(c, "stringarray-long", tok("fl raw:", s, ":170 sa:61:", h(g.text(n%(bufSize-s+40))), ",", h(g.text(3))))
		}
	}
	// 9. texts that do not fit String / Msg / Label (outside the statement; correspondence only)
	for k := 0; k < c.Scale(300, 5000); k++ {
		n := 2020 + r.Intn(60)
		add(c, "overlong", tok("fl msg:", hs("ether"), ":", h(g.text(n)), ":0 ", g.field()))
		add(c, "overlong", tok("fl raw:", r.Intn(40), ":0 str:", g.name(), ":", h(g.text(n)), " ", g.field()))
		add(c, "overlong", tok("fl raw:", r.Intn(40), ":0 lab:", h(g.text(n)), " ", g.field()))
		add(c, "overlong", tok("fl raw:", 2000+r.Intn(49), ":0 ip:69:", g.anyIP(), " ", g.field()))
	}
	// 10. views
	for k := 0; k < c.Scale(2000, 60000); k++ {
		init := ether
		if k%3 == 0 {
			init = tok("raw:", 1900+r.Intn(150), ":", r.Intn(256))
		}
		mac := h(c.RandBytes(6))
		if r.Intn(10) == 0 {
			mac = "-"
		}
		ip := g.anyIP()
		if r.Intn(10) == 0 {
			ip = "-"
		}
		port := 0
		if r.Intn(2) == 0 {
			port = r.Intn(65536)
		}
		add(c, "view-addr", tok("vaddr ", init, " ", mac, " ", ip, " ", port))
		add(c, "view-arp", tok("varp ", init, " ", h(c.RandBytes(28+r.Intn(3)))))
		p := c.RandBytes(20 + r.Intn(3))
		if r.Intn(2) == 0 {
			p[0] = 0x45
		}
		add(c, "view-ip4", tok("vip4 ", init, " ", h(p)))
	}
	// 11. table entries: a MAC entry with 0 … 70000 linked hosts (every count up to 300, then powers of two and their neighbours)
	counts := []int{}
	for n := 0; n <= 300; n++ {
		counts = append(counts, n)
	}
	for _, n := range []int{511, 512, 513, 1000, 4095, 4096, 32767, 32768, 65535, 65536, 65537, 70000} {
		counts = append(counts, n)
	}
	for _, n := range counts {
		add(c, "entry-mac", tok("vmacentry ", h(c.RandBytes(6)), " ", r.Intn(4), " ", h(c.RandBytes(4)), " ", n))
	}
}
