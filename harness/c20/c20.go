// Package c20: correspondence + oracle for C20 (fastlog formatting is faithful and stays within
// its 2048-byte buffer).  The real fastlog.Line appenders are driven in-process (unexported helpers
// through the export overlay); the oracle is the Go standard library (strconv, fmt, net, net/netip,
// time); the Lean Spec renderings are compared with the same standard-library texts (`spec` op).
package c20

import (
	"bytes"
	"errors"
	"fmt"
	"hash/fnv"
	"io"
	"math"
	"net"
	"net/netip"
	"strconv"
	"strings"
	"time"

	"github.com/irai/packet"
	"github.com/irai/packet/fastlog"
	"verif/harness/core"
)

const bufSize = fastlog.VerifBufSize

var Runner = core.Runner{Gen: Gen, Eval: Eval}

type field struct {
	kind  string
	name  []byte
	a, b  []byte // value / second text
	n     int64
	u     uint64
	list  [][]byte
	isNil []bool // per list element (ipa) or for a (ips)
	tok   string
}

type stringer string

func (s stringer) String() string { return string(s) }

// bothStringer implements fmt.Stringer AND fastlog.FastLog with different texts, as the library's own views and table
// entries do (their String() is a whole log text, their FastLog the bare fields): Line.Stringer must render String().
type bothStringer string

func (s bothStringer) String() string { return string(s) }
func (s bothStringer) FastLog(l *fastlog.Line) *fastlog.Line {
	return l.String("fastlog-rendering-of", string(s))
}

func unhex(s string) ([]byte, bool) {
	if s == "-" {
		return []byte{}, true
	}
	if len(s)%2 != 0 {
		return nil, false
	}
	b := make([]byte, len(s)/2)
	for i := 0; i < len(b); i++ {
		v, err := strconv.ParseUint(s[2*i:2*i+2], 16, 8)
		if err != nil {
			return nil, false
		}
		b[i] = byte(v)
	}
	return b, true
}

func parseField(tok string) *field {
	p := strings.Split(tok, ":")
	f := &field{kind: p[0], tok: tok}
	ok := true
	hx := func(i int) []byte {
		if i >= len(p) {
			ok = false
			return nil
		}
		b, k := unhex(p[i])
		if !k {
			ok = false
		}
		return b
	}
	num := func(i int, max uint64) uint64 {
		if i >= len(p) {
			ok = false
			return 0
		}
		v, err := strconv.ParseUint(p[i], 10, 64)
		if err != nil || v > max {
			ok = false
		}
		return v
	}
	want := func(n int) {
		if len(p) != n {
			ok = false
		}
	}
	switch f.kind {
	case "str", "bytes", "mod", "nmod", "txt", "mac", "ip", "ba":
		want(3)
		f.name, f.a = hx(1), hx(2)
	case "lab", "err", "stg", "ip6":
		want(2)
		f.a = hx(1)
	case "bool":
		want(3)
		f.name, f.u = hx(1), num(2, 1)
	case "int", "dur":
		want(3)
		f.name = hx(1)
		if len(p) == 3 {
			v, err := strconv.ParseInt(p[2], 10, 64)
			if err != nil {
				ok = false
			}
			f.n = v
		}
	case "u8", "x8":
		want(3)
		f.name, f.u = hx(1), num(2, 255)
	case "u16", "x16":
		want(3)
		f.name, f.u = hx(1), num(2, 65535)
	case "u32":
		want(3)
		f.name, f.u = hx(1), num(2, math.MaxUint32)
	case "pint":
		want(2)
		f.u = num(1, math.MaxUint32)
	case "whex", "wnlz", "ab":
		want(2)
		f.u = num(1, 255)
	case "lf":
		want(1)
	case "time":
		want(4)
		f.name = hx(1)
		if len(p) == 4 {
			v, err := strconv.ParseInt(p[2], 10, 64)
			if err != nil {
				ok = false
			}
			f.n = v
			f.a = hx(3)
			if ok && time.UnixMilli(f.n).UTC().Format(time.StampMilli) != string(f.a) {
				ok = false
			}
		}
	case "ips":
		want(3)
		f.name = hx(1)
		if len(p) == 3 {
			if p[2] == "~" {
				f.isNil = []bool{true}
			} else {
				f.a = hx(2)
				f.isNil = []bool{false}
			}
		}
	case "sa", "ipa":
		want(3)
		f.name = hx(1)
		if len(p) == 3 && p[2] != "_" {
			for _, e := range strings.Split(p[2], ",") {
				if e == "~" && f.kind == "ipa" {
					f.list = append(f.list, nil)
					f.isNil = append(f.isNil, true)
					continue
				}
				b, k := unhex(e)
				if !k {
					ok = false
				}
				f.list = append(f.list, b)
				f.isNil = append(f.isNil, false)
			}
		}
	default:
		return nil
	}
	if !ok {
		return nil
	}
	return f
}

func (f *field) isArray() bool { return f.kind == "ba" || f.kind == "sa" || f.kind == "ipa" }

func netIP(b []byte, isNil bool) net.IP {
	if isNil {
		return nil
	}
	return net.IP(append([]byte{}, b...))
}

func addrOf(b []byte) (netip.Addr, bool) {
	switch len(b) {
	case 0:
		return netip.Addr{}, true
	case 4:
		return netip.AddrFrom4(*(*[4]byte)(b)), true
	case 16:
		return netip.AddrFrom16(*(*[16]byte)(b)), true
	}
	return netip.Addr{}, false
}

// apply calls the real appender.
func (f *field) apply(l *fastlog.Line) {
	name := string(f.name)
	switch f.kind {
	case "str":
		l.String(name, string(f.a))
	case "lab":
		l.Label(string(f.a))
	case "bool":
		l.Bool(name, f.u == 1)
	case "int":
		l.Int(name, int(f.n))
	case "u8":
		l.Uint8(name, uint8(f.u))
	case "u16":
		l.Uint16(name, uint16(f.u))
	case "u32":
		l.Uint32(name, uint32(f.u))
	case "x8":
		l.Uint8Hex(name, uint8(f.u))
	case "x16":
		l.Uint16Hex(name, uint16(f.u))
	case "mac":
		l.MAC(name, net.HardwareAddr(f.a))
	case "ip":
		a, _ := addrOf(f.a)
		l.IP(name, a)
	case "ips":
		l.IPSlice(name, netIP(f.a, f.isNil[0]))
	case "ba":
		l.ByteArray(name, f.a)
	case "sa":
		v := make([]string, len(f.list))
		for i, e := range f.list {
			v[i] = string(e)
		}
		l.StringArray(name, v)
	case "ipa":
		v := make([]net.IP, len(f.list))
		for i, e := range f.list {
			v[i] = netIP(e, f.isNil[i])
		}
		l.IPArray(name, v)
	case "dur":
		l.Duration(name, time.Duration(f.n))
	case "time":
		l.Time(name, time.UnixMilli(f.n).UTC())
	case "txt":
		l.Sprintf(name, string(f.a))
	case "err":
		l.Error(errors.New(string(f.a)))
	case "bytes":
		l.Bytes(name, f.a)
	case "stg":
		if len(f.a)%2 == 1 { // every other value also implements FastLog (the reference is String() either way)
			l.Stringer(bothStringer(f.a))
		} else {
			l.Stringer(stringer(f.a))
		}
	case "mod":
		l.Module(name, string(f.a))
	case "nmod":
		l.VerifNewModule(name, string(f.a))
	case "lf":
		l.LF()
	case "pint":
		l.VerifPrintInt(uint32(f.u))
	case "whex":
		l.VerifWriteHex(byte(f.u))
	case "wnlz":
		l.VerifWriteHexNoLeadingZeros(byte(f.u))
	case "ip6":
		l.VerifAppendIP6(net.IP(f.a))
	case "ab":
		l.VerifAppendByte(byte(f.u))
	}
}

func isMapped(b []byte) bool {
	return len(b) == 16 && bytes.Equal(b[:12], []byte{0, 0, 0, 0, 0, 0, 0, 0, 0, 0, 0xff, 0xff})
}

func ipSliceRef(b []byte, isNil bool) (string, bool) {
	if isNil {
		return "nil", true
	}
	if len(b) == 4 || len(b) == 16 {
		return net.IP(b).String(), true
	}
	return "nil", false // malformed net.IP: outside the reference
}

func moduleRef(name, msg []byte) string {
	s := ""
	if len(name) > 0 {
		// the module column: six bytes, cut or padded with blanks, then ':'
		col := append([]byte{}, name...)
		for len(col) < 6 {
			col = append(col, ' ')
		}
		s = string(col[:6]) + ":"
	}
	if len(msg) > 0 {
		s += ` "` + string(msg) + `"`
	}
	return s
}

// ref is the standard-library rendering of the field; ok=false when the value is outside the
// domain for which a reference exists (malformed MAC / net.IP lengths, mapped address handed to
// the unexported appendIP6).
func (f *field) ref() (string, bool) {
	named := func(v string) string { return " " + string(f.name) + "=" + v }
	switch f.kind {
	case "str":
		return named(`"` + string(f.a) + `"`), true
	case "lab", "stg":
		return " " + string(f.a), true
	case "bool":
		return named(strconv.FormatBool(f.u == 1)), true
	case "int":
		return named(strconv.FormatInt(f.n, 10)), true
	case "u8", "u16", "u32":
		return named(strconv.FormatUint(f.u, 10)), true
	case "x8":
		return named(fmt.Sprintf("0x%02x", f.u)), true
	case "x16":
		return named(fmt.Sprintf("0x%04x", f.u)), true
	case "mac":
		if len(f.a) == 6 {
			return named(net.HardwareAddr(f.a).String()), true
		}
		return named("nil"), false
	case "ip":
		a, okLen := addrOf(f.a)
		if !okLen {
			return named("nil"), false
		}
		if !a.IsValid() {
			return named("nil"), true
		}
		return named(a.String()), true
	case "ips":
		s, ok := ipSliceRef(f.a, f.isNil[0])
		return named(s), ok
	case "ba":
		return named(fmt.Sprintf("[% x]", f.a)), true
	case "sa":
		s := "["
		for _, e := range f.list {
			s += `"` + string(e) + `", `
		}
		if len(f.list) > 0 {
			s = s[:len(s)-1]
		}
		return named(s + "]"), true
	case "ipa":
		s := "["
		ok := true
		for i, e := range f.list {
			if !f.isNil[i] {
				t, k := ipSliceRef(e, false)
				ok = ok && k
				s += t
			}
			s += ", "
		}
		if len(f.list) > 0 {
			s = s[:len(s)-1]
		}
		return named(s + "]"), ok
	case "dur":
		return named(time.Duration(f.n).String()), true
	case "time":
		return named(time.UnixMilli(f.n).UTC().Format(time.StampMilli)), true
	case "txt", "bytes":
		return named(string(f.a)), true
	case "err":
		return " error=[" + string(f.a) + "]", true
	case "mod":
		return "\n" + moduleRef(f.name, f.a), true
	case "nmod":
		return moduleRef(f.name, f.a), true
	case "lf":
		return "\n", true
	case "pint":
		return strconv.FormatUint(f.u, 10), true
	case "whex":
		return fmt.Sprintf("%02x", f.u), true
	case "wnlz":
		return fmt.Sprintf("%x", f.u), true
	case "ip6":
		if len(f.a) != 16 {
			return "nil", len(f.a) == 0
		}
		if isMapped(f.a) {
			return "", false
		}
		return netip.AddrFrom16(*(*[16]byte)(f.a)).String(), true
	case "ab":
		return string([]byte{byte(f.u)}), true
	}
	return "", false
}

// slack: room beyond its own text that an appender needs so that nothing is dropped
// (IPArray reserves 41 bytes per element whatever the element is).
func (f *field) slack() int {
	if f.kind == "ipa" {
		return 41
	}
	return 0
}

type initSpec struct {
	raw    bool
	start  int
	fill   byte
	module []byte
	msg    []byte
}

func parseInit(tok string) *initSpec {
	p := strings.Split(tok, ":")
	switch {
	case p[0] == "raw" && len(p) == 3:
		s, e1 := strconv.Atoi(p[1])
		f, e2 := strconv.ParseUint(p[2], 10, 8)
		if e1 != nil || e2 != nil || s < 0 || s > 1<<20 {
			return nil
		}
		return &initSpec{raw: true, start: s, fill: byte(f)}
	case p[0] == "msg" && len(p) == 4:
		m, k1 := unhex(p[1])
		t, k2 := unhex(p[2])
		f, e := strconv.ParseUint(p[3], 10, 8)
		if !k1 || !k2 || e != nil {
			return nil
		}
		return &initSpec{module: m, msg: t, fill: byte(f)}
	}
	return nil
}

func (in *initSpec) prefixRef() string {
	if in.raw {
		return ""
	}
	m := in.module
	if len(m) == 0 {
		m = []byte(" ")
	}
	return moduleRef(m, in.msg)
}

// line builds the real line.
func (in *initSpec) line() *fastlog.Line {
	if in.raw {
		return fastlog.VerifNewLine(in.start, in.fill)
	}
	l := fastlog.New(string(in.module)).Msg(string(in.msg))
	idx, _ := l.VerifState()
	l.VerifFill(idx, in.fill)
	return l
}

func stateStr(l *fastlog.Line) string {
	idx, buf := l.VerifState()
	if idx > bufSize {
		return fmt.Sprintf("ok %d over", idx)
	}
	if idx < 0 {
		return fmt.Sprintf("ok %d negative", idx)
	}
	h := fnv.New32a()
	h.Write(buf[idx:])
	return fmt.Sprintf("ok %d %s %d", idx, core.Hex(buf[:idx]), h.Sum32())
}

type capture struct{ b []byte }

func (c *capture) Write(p []byte) (int, error) { c.b = append([]byte{}, p...); return len(p), nil }

func init() { fastlog.DefaultIOWriter = io.Discard }

// Eval: one protocol line -> real code (see lean/PacketVerif/Drv/Fastlog.lean for the grammar).
func Eval(c *core.Ctx, line string) *core.Case {
	t := strings.Fields(line)
	if len(t) < 2 {
		return nil
	}
	op := t[0]
	switch op {
	case "vaddr", "varp", "vip4":
		return evalView(t, line)
	case "vmacentry":
		return evalMACEntry(t, line)
	case "fl", "fls", "flw", "spec":
	default:
		return nil
	}
	in := parseInit(t[1])
	if in == nil {
		return nil
	}
	fs := make([]*field, 0, len(t)-2)
	for _, tok := range t[2:] {
		f := parseField(tok)
		if f == nil {
			return nil
		}
		fs = append(fs, f)
	}
	// reference text
	refOK := true
	ref := ""
	slack := 0
	for _, f := range fs {
		s, ok := f.ref()
		refOK = refOK && ok
		ref += s
		if f.slack() > slack {
			slack = f.slack()
		}
	}
	if op == "spec" {
		if !refOK {
			return nil
		}
		return &core.Case{Line: line, Impl: core.Hex([]byte(in.prefixRef() + ref)), Trivial: len(fs) == 0}
	}

	// run the real code field by field
	var l *fastlog.Line
	start := -1
	failedAt := -1
	arrayBad := ""
	res := core.Safely(func() string {
		l = in.line()
		start, _ = l.VerifState()
		return "ok"
	})
	if res == "ok" {
		for i, f := range fs {
			before, _ := l.VerifState()
			r := core.Safely(func() string { f.apply(l); return "ok" })
			if r != "ok" {
				res, failedAt = "panic", i
				if f.isArray() && before >= 0 {
					arrayBad = fmt.Sprintf("%s appender panicked (cursor before the call %d): %s", f.kind, before, cut(f.tok))
				}
				break
			}
			after, _ := l.VerifState()
			if f.isArray() && before <= bufSize && (after > bufSize || after < 0) {
				arrayBad = fmt.Sprintf("%s appender left the cursor at %d (outside the %d-byte buffer; before the call %d): %s", f.kind, after, bufSize, before, cut(f.tok))
			}
		}
	}
	impl := res
	var text []byte
	idx := -1
	if res == "ok" {
		impl = stateStr(l)
		var buf []byte
		idx, buf = l.VerifState()
		if idx >= 0 && idx <= bufSize {
			text = buf[:idx]
		}
		switch op {
		case "fls":
			impl = core.Safely(func() string { return "ok " + core.Hex([]byte(l.ToString())) })
		case "flw":
			impl = core.Safely(func() string {
				w := &capture{}
				fastlog.DefaultIOWriter = w
				defer func() { fastlog.DefaultIOWriter = io.Discard }()
				l.Write()
				return "ok " + core.Hex(w.b)
			})
		}
	}
	prefix := in.prefixRef()
	oracle := func() (string, string) {
		if arrayBad != "" {
			return "array appender must truncate inside the buffer: " + arrayBad, ""
		}
		if !refOK {
			return "", ""
		}
		// a line prefix that does not fit is outside the statement
		if !in.raw && len(prefix) > bufSize-1 {
			return "", ""
		}
		if in.raw && in.start > bufSize {
			return "", ""
		}
		base := in.start
		if !in.raw {
			base = len(prefix)
		}
		// "whenever it fits the line buffer": the text and the newline Write() appends fit
		if base+len(ref)+slack > bufSize-1 {
			return "", ""
		}
		if res != "ok" {
			return fmt.Sprintf("line of %d bytes fits the buffer but appender #%d (%s) panicked", base+len(ref), failedAt, cut(fs[failedAt].tok)), ""
		}
		if start != base || idx != base+len(ref) || !bytes.Equal(text[base:], []byte(ref)) || (!in.raw && !bytes.Equal(text[:base], []byte(prefix))) {
			// name the appender whose text contains the first differing byte
			got := text[min(base, len(text)):]
			pos := 0
			for pos < len(got) && pos < len(ref) && got[pos] == ref[pos] {
				pos++
			}
			kind, off := "prefix", 0
			for _, f := range fs {
				t, _ := f.ref()
				kind = f.kind
				if pos < off+len(t) {
					break
				}
				off += len(t)
			}
			return fmt.Sprintf("the text written by the `%s` appender differs from the standard-library rendering of the value: line got %q want %q", kind, cut(string(got)), cut(ref)), ""
		}
		switch op {
		case "fls":
			if impl != "ok "+core.Hex(text) {
				return "ToString() differs from buffer[:index]", ""
			}
		case "flw":
			if impl != "ok "+core.Hex(append(append([]byte{}, text...), '\n')) {
				return "Write() did not emit the line followed by a newline", ""
			}
		}
		return "", ""
	}
	return &core.Case{Line: line, Impl: impl, Trivial: len(fs) == 0, Oracle: oracle}
}

func min(a, b int) int {
	if a < b {
		return a
	}
	return b
}

func cut(s string) string {
	if len(s) > 160 {
		return s[:160] + "…"
	}
	return s
}

// ---------------------------------------------------------------------------------------------
// table entries: vmacentry <mac> <flags> <ip4> <nhosts> - the String() / FastLog text of a MAC entry with that many linked
// hosts (flags: bit 0 captured, bit 1 online).  The text contains the wall-clock age of the entry, so the oracle compares
// the deterministic head of the line - module prefix, mac, flags, the three addresses and the host COUNT in decimal -
// with the standard library's rendering (strconv.Itoa(len(HostList)), netip text).  Oracle only: the model has no entries.
func evalMACEntry(t []string, line string) *core.Case {
	if len(t) != 5 {
		return nil
	}
	mac, k1 := unhex(t[1])
	flags, e1 := strconv.Atoi(t[2])
	ipb, k2 := unhex(t[3])
	n, e2 := strconv.Atoi(t[4])
	if !k1 || !k2 || e1 != nil || e2 != nil || len(mac) != 6 || n < 0 || n > 70000 {
		return nil
	}
	e := &packet.MACEntry{MAC: net.HardwareAddr(mac), Captured: flags&1 != 0, Online: flags&2 != 0, LastSeen: time.Now()}
	if a, ok := addrOf(ipb); ok && a.Is4() {
		e.IP4 = a
	}
	for i := 0; i < n; i++ {
		e.HostList = append(e.HostList, &packet.Host{MACEntry: e})
	}
	text := core.Safely(func() string { return e.String() })
	want := " mac=" + net.HardwareAddr(mac).String()
	if e.Captured {
		want += " captured=true"
	}
	if e.Online {
		want += " online=true"
	}
	ipText := func(a netip.Addr) string {
		if a.IsValid() {
			return a.String()
		}
		return "nil"
	}
	want += " ip=" + ipText(e.IP4) + " ip6=nil lla=nil hosts=" + strconv.Itoa(n) + " lastSeen="
	return &core.Case{Line: line, Impl: "text " + strconv.Itoa(len(text)), Cmp: func(string, string) bool { return true },
		Oracle: func() (string, string) {
			if text == "panic" {
				return "String() of a MAC entry whose text fits the buffer panicked", ""
			}
			if !strings.Contains(text, want) {
				return fmt.Sprintf("String() of a MAC entry with %d hosts differs from the standard-library rendering of its fields: got %q, want it to contain %q", n, cut(text), want), ""
			}
			return "", ""
		}}
}

// ---------------------------------------------------------------------------------------------
// views: Addr.FastLog, ARP.FastLog, IP4.FastLog composed from the appenders

type viewer interface {
	FastLog(*fastlog.Line) *fastlog.Line
}

func evalView(t []string, line string) *core.Case {
	in := parseInit(t[1])
	if in == nil {
		return nil
	}
	var v viewer
	var ref string
	switch t[0] {
	case "vaddr":
		if len(t) != 5 {
			return nil
		}
		mac, k1 := unhex(t[2])
		ipb, k2 := unhex(t[3])
		port, err := strconv.ParseUint(t[4], 10, 16)
		ip, k3 := addrOf(ipb)
		if !k1 || !k2 || !k3 || err != nil {
			return nil
		}
		a := packet.Addr{MAC: net.HardwareAddr(mac), IP: ip, Port: uint16(port)}
		if len(mac) == 0 {
			a.MAC = nil
		}
		v = a
		ms := "nil"
		if len(mac) == 6 {
			ms = a.MAC.String()
		}
		is := "nil"
		if ip.IsValid() {
			is = ip.String()
		}
		ref = " mac=" + ms + " ip=" + is
		if port != 0 {
			ref += " port=" + strconv.Itoa(int(port))
		}
	case "varp":
		if len(t) != 3 {
			return nil
		}
		b, k := unhex(t[2])
		if !k || len(b) < 28 {
			return nil
		}
		p := packet.ARP(b)
		v = p
		ref = fmt.Sprintf(" operation=%d srcMAC=%s srcIP=%s dstMAC=%s dstIP=%s", uint16(b[6])<<8|uint16(b[7]),
			net.HardwareAddr(b[8:14]), net.IP(b[14:18]), net.HardwareAddr(b[18:24]), net.IP(b[24:28]))
	case "vip4":
		if len(t) != 3 {
			return nil
		}
		b, k := unhex(t[2])
		if !k || len(b) < 20 {
			return nil
		}
		v = packet.IP4(b)
		ref = fmt.Sprintf(" version=%d src=%s dst=%s proto=%d ttl=%d tos=%d flags=0x%02x", b[0]>>4, net.IP(b[12:16]), net.IP(b[16:20]), b[9], b[8], b[1], b[6]&0xe0)
		if fr := packet.IP4(b).Fragment(); fr != 0 {
			ref += fmt.Sprintf(" fragment=%d", fr)
		}
		ref += fmt.Sprintf(" totallen=%d", int(b[2])<<8|int(b[3]))
	}
	var l *fastlog.Line
	start := 0
	res := core.Safely(func() string {
		l = in.line()
		start, _ = l.VerifState()
		v.FastLog(l)
		return "ok"
	})
	impl := res
	var text []byte
	idx := -1
	if res == "ok" {
		impl = stateStr(l)
		var buf []byte
		idx, buf = l.VerifState()
		if idx >= 0 && idx <= bufSize {
			text = buf[:idx]
		}
	}
	return &core.Case{Line: line, Impl: impl, Oracle: func() (string, string) {
		if start > bufSize || start+len(ref) > bufSize-1 {
			return "", ""
		}
		if res != "ok" {
			return "FastLog of a view whose text fits the buffer panicked", ""
		}
		if idx != start+len(ref) || string(text[start:]) != ref {
			return fmt.Sprintf("view FastLog differs from the standard-library rendering: got %q want %q", cut(string(text[min(start, len(text)):])), cut(ref)), ""
		}
		return "", ""
	}}
}
