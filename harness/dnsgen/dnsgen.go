// Package dnsgen is the harness's own DNS wire-format builder and reference decoder.
// It shares no code with the library under test nor with dnsmessage: messages are assembled
// byte by byte from label lists (with optional RFC 1035 §4.1.4 compression, pointer chains through a
// scratch record, every section placement) and every position a corruption generator may want
// to hit (count fields, RDLENGTH, label length octets, pointers) is recorded.
package dnsgen

import (
	"bytes"
	"math/rand"
)

// Name is a list of labels (no dots implied inside labels).
type Name [][]byte

func (n Name) Text() []byte { return bytes.Join(n, []byte(".")) }

// WireLen is the length of the uncompressed encoding (RFC 1035 §3.1: at most 255).
func (n Name) WireLen() int {
	l := 1
	for _, x := range n {
		l += len(x) + 1
	}
	return l
}

func N(s string) Name {
	if s == "" {
		return Name{}
	}
	var n Name
	for _, l := range bytes.Split([]byte(s), []byte(".")) {
		n = append(n, l)
	}
	return n
}

const (
	TypeA      = 1
	TypeCNAME  = 5
	TypePTR    = 12
	TypeMX     = 15
	TypeTXT    = 16
	TypeAAAA   = 28
	TypeSRV    = 33
	TypeOPT    = 41
	TypeNSEC   = 47
	TypeNB     = 0x20
	TypeNBSTAT = 0x21
)

// RR is one resource record; exactly one of Raw / Target is used for RDATA.
type RR struct {
	Name   Name
	Type   uint16
	Class  uint16
	TTL    uint32
	Raw    []byte // literal RDATA
	Target Name   // RDATA is a (compressible) domain name (CNAME, PTR)
	IsName bool
	Prefix []byte // literal bytes before Target (SRV priority/weight/port)
}

type Question struct {
	Name  Name
	Type  uint16
	Class uint16
}

type Msg struct {
	ID    uint16
	Flags uint16
	Q     []Question
	An    []RR
	Ns    []RR
	Ar    []RR
}

// Opts selects the encoding of names.
type Opts struct {
	Compress bool // reuse earlier suffixes through pointers
	Chain    int  // >0: first answer is a scratch record holding every name plus Chain stub pointers; names become pointers into it
	Rnd      *rand.Rand
}

// Marks are byte offsets of interest for corruption.
type Marks struct {
	Counts   []int // offsets of QD/AN/NS/AR count fields
	RDLen    []int // offsets of RDLENGTH fields
	LabelLen []int // offsets of label length octets
	Ptr      []int // offsets of compression pointers
	NameOff  []int // offsets where a name starts (questions, owners, rdata names)
	RRStart  []int // offsets where a resource record starts
}

type Built struct {
	Bytes []byte
	Marks Marks
	QOff  []int // offset of each question name
	QEnd  []int // offset after each question
	AnOff int   // offset of the first answer record
}

type builder struct {
	buf      []byte
	o        Opts
	suffixes map[string]int // text of a label suffix → offset where it is encoded
	stubs    map[string]int // text of a full name → offset of the last stub pointer of its chain
	m        Marks
}

func (b *builder) u16(v uint16) { b.buf = append(b.buf, byte(v>>8), byte(v)) }
func (b *builder) u32(v uint32) { b.buf = append(b.buf, byte(v>>24), byte(v>>16), byte(v>>8), byte(v)) }

func (b *builder) ptr(target int) {
	b.m.Ptr = append(b.m.Ptr, len(b.buf))
	b.buf = append(b.buf, 0xc0|byte(target>>8), byte(target))
}

// name writes a name, compressed according to the options.
func (b *builder) name(n Name) int {
	start := len(b.buf)
	b.m.NameOff = append(b.m.NameOff, start)
	if b.o.Chain > 0 && len(n) > 0 {
		if t, ok := b.stubs[string(n.Text())]; ok && t < 0x4000 && t < start {
			// optionally keep the first label literal and point at the rest through the chain of its suffix
			b.ptr(t)
			return start
		}
	}
	for i := range n {
		suffix := string(Name(n[i:]).Text())
		if b.o.Compress {
			if t, ok := b.suffixes[suffix]; ok && t < 0x4000 && t < start {
				b.ptr(t)
				return start
			}
		}
		if len(b.buf) < 0x4000 {
			if _, ok := b.suffixes[suffix]; !ok {
				b.suffixes[suffix] = len(b.buf)
			}
		}
		b.m.LabelLen = append(b.m.LabelLen, len(b.buf))
		b.buf = append(b.buf, byte(len(n[i])))
		b.buf = append(b.buf, n[i]...)
	}
	b.buf = append(b.buf, 0)
	return start
}

func (b *builder) rr(r RR) {
	b.m.RRStart = append(b.m.RRStart, len(b.buf))
	b.name(r.Name)
	b.u16(r.Type)
	b.u16(r.Class)
	b.u32(r.TTL)
	b.m.RDLen = append(b.m.RDLen, len(b.buf))
	b.u16(0)
	s := len(b.buf)
	if r.IsName {
		b.buf = append(b.buf, r.Prefix...)
		b.name(r.Target)
	} else {
		b.buf = append(b.buf, r.Raw...)
	}
	l := len(b.buf) - s
	b.buf[s-2], b.buf[s-1] = byte(l>>8), byte(l)
}

// scratch writes an answer record of an unassigned type whose RDATA holds an uncompressed copy of
// every name followed by Chain stub pointers (stub k points at stub k-1, stub 0 at the copy).
func (b *builder) scratch(names []Name) {
	b.m.RRStart = append(b.m.RRStart, len(b.buf))
	b.buf = append(b.buf, 0) // root owner
	b.u16(0xff01)
	b.u16(1)
	b.u32(0)
	b.m.RDLen = append(b.m.RDLen, len(b.buf))
	b.u16(0)
	s := len(b.buf)
	for _, n := range names {
		if len(n) == 0 {
			continue
		}
		key := string(n.Text())
		if _, ok := b.stubs[key]; ok {
			continue
		}
		at := len(b.buf)
		for _, l := range n {
			b.m.LabelLen = append(b.m.LabelLen, len(b.buf))
			b.buf = append(b.buf, byte(len(l)))
			b.buf = append(b.buf, l...)
		}
		b.buf = append(b.buf, 0)
		for k := 0; k < b.o.Chain; k++ {
			if at >= 0x4000 {
				break
			}
			p := len(b.buf)
			b.ptr(at)
			at = p
		}
		b.stubs[key] = at
	}
	l := len(b.buf) - s
	b.buf[s-2], b.buf[s-1] = byte(l>>8), byte(l)
}

// Build encodes the message.
func Build(m Msg, o Opts) Built {
	b := &builder{o: o, suffixes: map[string]int{}, stubs: map[string]int{}}
	an := len(m.An)
	if o.Chain > 0 {
		an++
	}
	b.u16(m.ID)
	b.u16(m.Flags)
	b.m.Counts = []int{4, 6, 8, 10}
	b.u16(uint16(len(m.Q)))
	b.u16(uint16(an))
	b.u16(uint16(len(m.Ns)))
	b.u16(uint16(len(m.Ar)))
	var out Built
	if o.Chain > 0 && len(m.Q) == 0 {
		// no question: the scratch record can come first
	}
	// questions cannot use the chain (nothing precedes them); they are written plainly/compressed
	save := b.o.Chain
	b.o.Chain = 0
	for _, q := range m.Q {
		out.QOff = append(out.QOff, b.name(q.Name))
		b.u16(q.Type)
		b.u16(q.Class)
		out.QEnd = append(out.QEnd, len(b.buf))
	}
	b.o.Chain = save
	out.AnOff = len(b.buf)
	if o.Chain > 0 {
		var names []Name
		for _, q := range m.Q {
			names = append(names, q.Name)
		}
		for _, sec := range [][]RR{m.An, m.Ns, m.Ar} {
			for _, r := range sec {
				names = append(names, r.Name)
				if r.IsName {
					names = append(names, r.Target)
				}
			}
		}
		b.scratch(names)
	}
	for _, sec := range [][]RR{m.An, m.Ns, m.Ar} {
		for _, r := range sec {
			b.rr(r)
		}
	}
	out.Bytes = b.buf
	out.Marks = b.m
	return out
}

// ---------------------------------------------------------------------------------------------
// generators of names

// RandLabel returns a label of length n over a hostname-ish alphabet (never '.', ':' or '%').
func RandLabel(r *rand.Rand, n int) []byte {
	const alpha = "abcdefghijklmnopqrstuvwxyzABCDEFGHIJKLMNOPQRSTUVWXYZ0123456789-_"
	l := make([]byte, n)
	for i := range l {
		l[i] = alpha[r.Intn(len(alpha))]
	}
	return l
}

// RandName returns a name with 1..maxLabels labels whose wire length stays within 255.
func RandName(r *rand.Rand, maxLabels int) Name {
	k := 1 + r.Intn(maxLabels)
	var n Name
	total := 1
	for i := 0; i < k; i++ {
		ln := 1 + r.Intn(63)
		switch r.Intn(4) {
		case 0:
			ln = 1 + r.Intn(3)
		case 1:
			ln = 1 + r.Intn(12)
		}
		if total+ln+1 > 255 {
			ln = 255 - total - 1
			if ln < 1 {
				break
			}
		}
		n = append(n, RandLabel(r, ln))
		total += ln + 1
	}
	return n
}

// HostName returns a short realistic name under the given suffix.
func HostName(r *rand.Rand, suffix string) Name {
	n := Name{RandLabel(r, 1+r.Intn(12))}
	if r.Intn(3) == 0 {
		n = append(n, RandLabel(r, 1+r.Intn(8)))
	}
	return append(n, N(suffix)...)
}

// ---------------------------------------------------------------------------------------------
// reference decoder (RFC 1035 §3.1, §4.1.4), independent of the library and of dnsmessage

type Class int

const (
	OK        Class = iota
	Truncated       // runs off the end of the message
	Reserved        // label type 01 / 10
	Forward         // pointer that does not point strictly before the name containing it (includes loops)
	TooLong         // uncompressed wire length above 256
	Edge            // uncompressed wire length exactly 256: one more than RFC 1035 allows, tolerated by the implementation (unjudged)
)

func (c Class) String() string {
	return [...]string{"ok", "truncated", "reserved", "forward", "toolong", "edge"}[c]
}

// RefName decodes the name at off. end is the offset after the name's own encoding, ptrs the
// number of pointers followed. "Prior occurrence" is enforced structurally: a pointer must target
// an offset strictly below the start of the name that contains it.
func RefName(m []byte, off int) (labels Name, end int, ptrs int, c Class) {
	start := off
	pos := off
	end = -1
	for {
		if pos >= len(m) {
			return nil, 0, ptrs, Truncated
		}
		b := int(m[pos])
		switch {
		case b == 0:
			if end < 0 {
				end = pos + 1
			}
			if labels.WireLen() > 256 {
				return labels, end, ptrs, TooLong
			}
			if labels.WireLen() == 256 {
				return labels, end, ptrs, Edge
			}
			return labels, end, ptrs, OK
		case b < 64:
			if pos+1+b > len(m) {
				return nil, 0, ptrs, Truncated
			}
			labels = append(labels, append([]byte{}, m[pos+1:pos+1+b]...))
			pos += 1 + b
		case b >= 192:
			if pos+1 >= len(m) {
				return nil, 0, ptrs, Truncated
			}
			t := (b-192)<<8 | int(m[pos+1])
			if t >= start {
				return nil, 0, ptrs, Forward
			}
			if end < 0 {
				end = pos + 2
			}
			ptrs++
			start, pos = t, t
		default:
			return nil, 0, ptrs, Reserved
		}
	}
}

// RefRR is a decoded resource record.
type RefRR struct {
	Name   []byte
	Type   uint16
	Class  uint16
	TTL    uint32
	RData  []byte
	RDOff  int
	Target []byte // decoded RDATA name for CNAME / PTR
	TClass Class  // class of the RDATA name
}

type RefMsg struct {
	ID, Flags      uint16
	QD, AN, NS, AR int
	QName          []byte
	QType, QClass  uint16
	QEnd           int
	Answers        []RefRR
	Authorities    []RefRR
	Additionals    []RefRR
	Edge           bool // a name of exactly 256 wire bytes occurs (unjudged)
}

// RefRRs decodes count records starting at off; ok=false when the list is not well-formed.
func RefRRs(m []byte, off, count int) ([]RefRR, int, bool) {
	r, o, good, _ := RefRRsEdge(m, off, count)
	return r, o, good
}

// RefRRsEdge is RefRRs that also reports whether a name of exactly 256 wire bytes was met (such
// names are treated as well-formed here; callers leave the case unjudged).
func RefRRsEdge(m []byte, off, count int) ([]RefRR, int, bool, bool) {
	var out []RefRR
	edge := false
	for i := 0; i < count; i++ {
		n, e, _, c := RefName(m, off)
		if c == Edge {
			edge, c = true, OK
		}
		if c != OK || e+10 > len(m) {
			return out, 0, false, edge
		}
		r := RefRR{Name: n.Text()}
		r.Type = uint16(m[e])<<8 | uint16(m[e+1])
		r.Class = uint16(m[e+2])<<8 | uint16(m[e+3])
		r.TTL = uint32(m[e+4])<<24 | uint32(m[e+5])<<16 | uint32(m[e+6])<<8 | uint32(m[e+7])
		l := int(m[e+8])<<8 | int(m[e+9])
		if e+10+l > len(m) {
			return out, 0, false, edge
		}
		r.RDOff = e + 10
		r.RData = m[e+10 : e+10+l]
		if r.Type == TypeCNAME || r.Type == TypePTR {
			t, _, _, tc := RefName(m, e+10)
			if tc == Edge {
				edge, tc = true, OK
			}
			r.TClass = tc
			if tc == OK {
				r.Target = t.Text()
			}
		}
		out = append(out, r)
		off = e + 10 + l
	}
	return out, off, true, edge
}

// RefMessage decodes a whole message with at most one question; ok=false when it is not well-formed.
func RefMessage(m []byte) (r RefMsg, ok bool) { return refMessage(m, true) }

// RefQA decodes the header, the question and the answer section only (what a resolver-side
// consumer of answers looks at).
func RefQA(m []byte) (r RefMsg, ok bool) { return refMessage(m, false) }

func refMessage(m []byte, all bool) (r RefMsg, ok bool) {
	if len(m) < 12 {
		return r, false
	}
	g := func(i int) int { return int(m[i])<<8 | int(m[i+1]) }
	r.ID, r.Flags = uint16(g(0)), uint16(g(2))
	r.QD, r.AN, r.NS, r.AR = g(4), g(6), g(8), g(10)
	off := 12
	if r.QD > 1 {
		return r, false
	}
	if r.QD == 1 {
		n, e, _, c := RefName(m, 12)
		if c == Edge {
			r.Edge, c = true, OK
		}
		if c != OK || e+4 > len(m) {
			return r, false
		}
		r.QName = n.Text()
		r.QType, r.QClass = uint16(g(e)), uint16(g(e+2))
		off = e + 4
	}
	r.QEnd = off
	var good bool
	var edge bool
	if r.Answers, off, good, edge = RefRRsEdge(m, off, r.AN); !good {
		r.Edge = r.Edge || edge
		return r, false
	}
	r.Edge = r.Edge || edge
	if !all {
		return r, true
	}
	if r.Authorities, off, good, edge = RefRRsEdge(m, off, r.NS); !good {
		r.Edge = r.Edge || edge
		return r, false
	}
	r.Edge = r.Edge || edge
	if r.Additionals, _, good, edge = RefRRsEdge(m, off, r.AR); !good {
		r.Edge = r.Edge || edge
		return r, false
	}
	r.Edge = r.Edge || edge
	return r, true
}

// ---------------------------------------------------------------------------------------------
// protocol-aware message generators (mDNS, NBNS)

func TxtData(ss ...string) []byte {
	var b []byte
	for _, s := range ss {
		b = append(b, byte(len(s)))
		b = append(b, s...)
	}
	return b
}

// RandMDNSRecord returns a record of one of the types the handler distinguishes.
func RandMDNSRecord(r *rand.Rand, host Name, ipPool [][]byte) RR {
	ttl := uint32(r.Intn(5000))
	svc := append(Name{RandLabel(r, 1+r.Intn(10))}, N("_airplay._tcp.local")...)
	switch r.Intn(10) {
	case 0, 1:
		return RR{Name: host, Type: TypeA, Class: 1, TTL: ttl, Raw: ipPool[r.Intn(len(ipPool))][:4]}
	case 2:
		return RR{Name: host, Type: TypeAAAA, Class: 1, TTL: ttl, Raw: ipPool[r.Intn(len(ipPool))]}
	case 3:
		return RR{Name: N("_airplay._tcp.local"), Type: TypePTR, Class: 1, TTL: ttl, Target: svc, IsName: true}
	case 4:
		return RR{Name: svc, Type: TypeSRV, Class: 1, TTL: ttl, Prefix: []byte{0, 0, 0, 0, 0x1b, 0x58}, Target: host, IsName: true}
	case 5:
		return RR{Name: svc, Type: TypeTXT, Class: 1, TTL: ttl, Raw: TxtData("deviceid=AA:BB", "features=0x1", []string{"model=MacBookPro14,1", "md=Chromecast", "ty=Printer X", "x=y"}[r.Intn(4)])}
	case 6:
		return RR{Name: Name{}, Type: TypeOPT, Class: 1440, TTL: 0x1194, Raw: []byte{0, 4, 0, 14, 0, 1, 2, 3, 4, 5, 6, 7, 8, 9, 10, 11, 12, 13}}
	case 7:
		return RR{Name: host, Type: TypeNSEC, Class: 0x8001, TTL: ttl, Raw: []byte{0xc0, 12, 0, 4, 0x40, 0, 0, 8}}
	case 8:
		return RR{Name: host, Type: uint16(100 + r.Intn(60000)), Class: 1, TTL: ttl, Raw: RandLabel(r, r.Intn(12))}
	}
	return RR{Name: svc, Type: TypeTXT, Class: 1, TTL: ttl, Raw: TxtData()}
}

func RandMDNS(r *rand.Rand, ipPool [][]byte) Msg {
	host := HostName(r, "local")
	m := Msg{ID: uint16(r.Intn(65536)), Flags: 0x8400}
	if r.Intn(4) == 0 {
		// query
		m.Flags = 0
		for i := 1 + r.Intn(3); i > 0; i-- {
			qn := host
			switch r.Intn(4) {
			case 0:
				qn = N("_sleep-proxy._udp.local")
			case 1:
				qn = append(Name{RandLabel(r, 5)}, N("_ipp._tcp.local")...)
			case 2:
				qn = HostName(r, "example.com")
			}
			m.Q = append(m.Q, Question{Name: qn, Type: 255, Class: 1})
		}
		return m
	}
	if r.Intn(5) == 0 {
		m.Q = []Question{{Name: host, Type: 255, Class: 1}}
	}
	for i := r.Intn(4); i > 0; i-- {
		m.An = append(m.An, RandMDNSRecord(r, host, ipPool))
	}
	for i := r.Intn(3); i > 0; i-- {
		m.Ns = append(m.Ns, RandMDNSRecord(r, host, ipPool))
	}
	for i := r.Intn(4); i > 0; i-- {
		m.Ar = append(m.Ar, RandMDNSRecord(r, host, ipPool))
	}
	return m
}

func NBName(s string) []byte {
	b := []byte(s)
	for len(b) < 16 {
		b = append(b, ' ')
	}
	return b[:16]
}

// NBNSEncode is the RFC 1001 first-level encoding (independent of the library's encoder).
func NBNSEncode(name []byte) []byte {
	out := []byte{32}
	for _, ch := range name {
		out = append(out, 'A'+ch>>4, 'A'+ch&0x0f)
	}
	return append(out, 0)
}

func NodeArray(r *rand.Rand, n int) []byte {
	b := []byte{byte(n)}
	for i := 0; i < n; i++ {
		nm := NBName([]string{"DESKTOP-EQ0BFB7", "WORKGROUP", "A", "", "PRINTER\x00\x00"}[r.Intn(5)])
		if r.Intn(3) == 0 {
			nm = RandLabel(r, 16)
		}
		b = append(b, nm...)
		fl := []byte{0x04, 0x00}
		if r.Intn(3) == 0 {
			fl[0] = 0x84 // group name
		}
		b = append(b, fl...)
	}
	return b
}

// NodeStatusRData is a node status RDATA announcing n names whose length is 1+18n+delta: delta < 0
// cuts the array short (delta = -1: only the last flags octet is missing), delta > 0 appends
// STATISTICS bytes.  Lengths below zero give an empty RDATA.
func NodeStatusRData(r *rand.Rand, n, delta int) []byte {
	arr := NodeArray(r, n)
	// make the last entry a unique name so that accepting a short array is visible in the result
	if n > 0 {
		arr[len(arr)-2] &= 0x7f
	}
	l := len(arr) + delta
	if l < 0 {
		l = 0
	}
	for len(arr) < l {
		arr = append(arr, byte(r.Intn(256)))
	}
	return arr[:l]
}

func RandNBNS(r *rand.Rand) Msg {
	owner := Name{NBNSEncode(NBName("*"))[1:33]}
	m := Msg{ID: uint16(r.Intn(65536)), Flags: 0x8400}
	if r.Intn(6) == 0 {
		m.Flags = 0x0010
		m.Q = []Question{{Name: owner, Type: TypeNBSTAT, Class: 1}}
		return m
	}
	if r.Intn(4) == 0 {
		m.Q = []Question{{Name: owner, Type: TypeNBSTAT, Class: 1}}
	}
	for i := 1 + r.Intn(3); i > 0; i-- {
		switch r.Intn(5) {
		case 0:
			m.An = append(m.An, RR{Name: owner, Type: TypeNB, Class: 1, TTL: 300000, Raw: []byte{0, 0, 192, 168, 0, 5}})
		case 1:
			m.An = append(m.An, RR{Name: owner, Type: uint16(r.Intn(65536)), Class: 1, TTL: 0, Raw: RandLabel(r, r.Intn(10))})
		default:
			arr := NodeArray(r, r.Intn(5))
			switch r.Intn(6) {
			case 0: // exactly the array
			case 1: // cut short, mostly right at the end of the array
				cut := []int{1, 1, 2, 17, 18, 19}[r.Intn(6)]
				if cut > len(arr) {
					cut = len(arr)
				}
				arr = arr[:len(arr)-cut]
			default:
				arr = append(arr, make([]byte, r.Intn(47))...) // statistics
			}
			m.An = append(m.An, RR{Name: owner, Type: TypeNBSTAT, Class: 1, TTL: 0, Raw: arr})
		}
	}
	return m
}
