package c18

// The state a crash between the write of the temporary file and its rename leaves behind: "<leasefile>.tmp" exists when
// the next process saves.  saveConfig must start that file afresh; if it writes over the old content instead, what the old
// file had beyond the new length stays, the result is renamed over the lease file, its integrity line no longer matches,
// and the NEXT start finds a damaged file and forgets every lease (recorded library changes C18-w9s2, C18-w10s1).
// plantStaleTmp is called before every `reload` of a dhcp.rsim history; leaseFileIntact after it.

import (
	"bytes"
	"fmt"
	"os"
)

// plantStaleTmp leaves a temporary file that is longer than anything the history will save: the current lease file (what
// a crashed save had written so far) followed by YAML comment lines.
func plantStaleTmp(file string) {
	old, _ := os.ReadFile(file)
	stale := append(append([]byte{}, old...), bytes.Repeat([]byte("# left behind by a crashed save\n"), 256)...)
	_ = os.WriteFile(file+".tmp", stale, 0o644)
}

// leaseFileIntact: "" when the lease file is absent, has no integrity line, or matches it.
func leaseFileIntact(file string) string {
	data, err := os.ReadFile(file)
	if err != nil {
		return ""
	}
	if sealOf(data) == "mismatch" {
		return fmt.Sprintf("the lease file written by the restarted handler (%d bytes) does not match its integrity line: a temporary file left by a crashed save was not started afresh; the next start finds a damaged file and forgets every lease", len(data))
	}
	return ""
}
