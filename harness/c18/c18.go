// Package c18: lease-file correspondence and oracle (C18).
//
//	dhcp.restart <cfg>:<mode> <op>;<op>;…                       run the history with a lease file, restart from that file
//	dhcp.load <cfg>:<mode> <capturedMacs> <hexfile> <hexorig>   construct a handler from the given bytes (orig: the intact file the bytes were derived from, or -)
//	dhcp.loadlegacy …                                           the same for a file WITHOUT integrity line (written by an older version): outside the repaired code path
//
// All are completed with ` @ <home> <netfilter> <captured> <record of the file> <record of the file after byte 75> <first 75 bytes> <sha256 of the rest>`
// where the records are what the real yaml.v2 decoded from those bytes into the library's record type; the model
// (Model/Dhcp4File.openFile + construct) decides from the first 75 bytes and the hash whether the integrity line is
// well formed and matches, picks the record accordingly and must return the table and subnets the real constructor built.
package c18

import (
	"bytes"
	"crypto/sha256"
	"encoding/hex"
	"fmt"
	"net"
	"net/netip"
	"os"
	"path/filepath"
	"sort"
	"strconv"
	"strings"
	"time"

	dhcp "github.com/irai/packet/handlers/dhcp4_spoofer"
	"verif/harness/c11"
	"verif/harness/core"
)

var Runner = core.Runner{Gen: Gen, Eval: Eval}

var tmpDir string

func leaseFile() string {
	if tmpDir == "" {
		d, err := os.MkdirTemp("", "verif-c18-")
		if err != nil {
			panic(err)
		}
		tmpDir = d
	}
	return filepath.Join(tmpDir, "leases.yaml")
}

func fa(a netip.Addr) string {
	switch {
	case !a.IsValid():
		return "i"
	case a.Is4():
		return "4:" + strconv.FormatUint(uint64(c11.U32(a)), 10)
	default:
		return "6:" + strconv.Itoa(b2i(a.IsUnspecified()))
	}
}

func b2i(b bool) int {
	if b {
		return 1
	}
	return 0
}

func fp(p netip.Prefix) string {
	switch {
	case !p.IsValid():
		return "i"
	case p.Addr().Is4():
		return fmt.Sprintf("4:%d:%d", c11.U32(p.Addr()), p.Bits())
	default:
		return "6"
	}
}

// unmodelled: values of the decoded record the model's types do not cover (the case is still run
// against the oracle, only the model comparison is skipped)
func subRec(s *dhcp.SubnetConfig, unmodelled *bool) string {
	if s == nil {
		return "~"
	}
	if s.Duration < 0 || s.Duration%time.Second != 0 {
		*unmodelled = true
	}
	return fmt.Sprintf("%s,%s,%s,%s,%s,%d,%d", fp(s.LAN), fa(s.DefaultGW), fa(s.DHCPServer), fa(s.DNSServer), fa(s.FirstIP),
		int64(s.Duration/time.Second), int(s.Stage))
}

func record(f dhcp.VerifFile) (string, bool) {
	if f.Err {
		return "E", false
	}
	unmodelled := false
	ls := "~"
	if !f.LeasesNil {
		parts := make([]string, len(f.Leases))
		for i, l := range f.Leases {
			offer := "~"
			if l.Offer.IsValid() {
				if l.Offer.Is4() {
					offer = strconv.FormatUint(uint64(c11.U32(l.Offer)), 10)
				} else {
					unmodelled = true
				}
			}
			parts[i] = fmt.Sprintf("%s,%d,%s,%s,%s,%s,%d", core.Hex(l.CID), l.State, core.Hex(l.MAC), fa(l.IP), offer, core.Hex(l.XID), c11.Canon(l.Expiry))
		}
		ls = "-"
		if len(parts) > 0 {
			ls = strings.Join(parts, ";")
		}
	}
	return subRec(f.Net1, &unmodelled) + "|" + subRec(f.Net2, &unmodelled) + "|" + ls, unmodelled
}

func expected(cfgIdx int) (home, nf string) {
	c := &c11.Cfgs[cfgIdx]
	home = fmt.Sprintf("%d,%d,%d,%d,%d,1", c11.U32(c.Home.Addr()), c.Home.Bits(), c11.U32(c.Router), c11.U32(c.Host), c11.U32(c.DNS))
	nfm := c.Netfilter.Masked()
	nf = fmt.Sprintf("%d,%d,%d,%d,%d,3", c11.U32(nfm.Addr()), nfm.Bits(), c11.U32(c.Netfilter.Addr()), c11.U32(c.Host), c11.U32(netip.MustParseAddr("1.1.1.3")))
	return
}

type bindingT struct {
	cid, mac string
	ip       uint32
}

// built renders what the constructor produced in the model's output syntax and returns the bindings.
func built(st dhcp.VerifState) (string, []bindingT) {
	sub := func(v dhcp.VerifSubnet) string {
		c := v.Cfg
		return fmt.Sprintf("%d,%d,%d,%s,%s,%d,%d", c11.U32(c.LAN.Addr()), c.LAN.Bits(), c11.U32(c.DefaultGW), fa(c.DHCPServer), fa(c.DNSServer),
			c11.U32(c.FirstIP), int64(c.Duration/time.Second))
	}
	var ls []string
	var bs []bindingT
	for _, l := range st.Leases {
		ip, offer := "~", "~"
		if l.IP.Is4() {
			ip = strconv.FormatUint(uint64(c11.U32(l.IP)), 10)
			bs = append(bs, bindingT{string(l.CID), string(l.MAC), c11.U32(l.IP)})
		} else {
			bs = append(bs, bindingT{string(l.CID), string(l.MAC), 0})
		}
		if l.Offer.Is4() {
			offer = strconv.FormatUint(uint64(c11.U32(l.Offer)), 10)
		}
		ls = append(ls, fmt.Sprintf("%s:%d:%s:%s:%s:%s:%d:%d", core.Hex(l.CID), l.State, core.Hex(l.MAC), ip, offer, core.Hex(l.XID), l.Subnet, c11.Canon(l.Expiry)))
	}
	sort.Strings(ls)
	tbl := "-"
	if len(ls) > 0 {
		tbl = strings.Join(ls, ";")
	}
	return fmt.Sprintf("ok %s %s %s", sub(st.Net1), sub(st.Net2), tbl), bs
}

type loadResult struct {
	impl     string // ok … | err | panic | hang
	bindings []bindingT
	world    *c11.World
}

// construct runs the real constructor on the file (hang detection by timeout).
func construct(cfgIdx, mode int, file string, captured [][]byte, reset bool) loadResult {
	type res struct {
		w   *c11.World
		err error
		pan bool
	}
	ch := make(chan res, 1)
	go func() {
		defer func() {
			if r := recover(); r != nil {
				ch <- res{pan: true}
			}
		}()
		w, err := c11.NewWorldCaptured(cfgIdx, mode, file, captured, reset)
		ch <- res{w: w, err: err}
	}()
	select {
	case r := <-ch:
		switch {
		case r.pan:
			return loadResult{impl: "panic"}
		case r.err != nil:
			return loadResult{impl: "err"}
		}
		s, bs := built(r.w.H.VerifDump())
		return loadResult{impl: s, bindings: bs, world: r.w}
	case <-time.After(10 * time.Second):
		return loadResult{impl: "hang"}
	}
}

func capturedStr(capt [][]byte) string {
	if len(capt) == 0 {
		return "-"
	}
	parts := make([]string, len(capt))
	for i, m := range capt {
		parts[i] = core.Hex(m)
	}
	return strings.Join(parts, ";")
}

func parseCaptured(s string) ([][]byte, bool) {
	if s == "-" {
		return nil, true
	}
	var out [][]byte
	for _, p := range strings.Split(s, ";") {
		b := core.UnHex(p)
		if len(b) != 6 {
			return nil, false
		}
		out = append(out, b)
	}
	return out, true
}

const sealLen = 75 // "# sha256: " + 64 hex digits + line break

func modelTail(cfgIdx int, capt [][]byte, data []byte, noFile bool) (string, bool) {
	home, nf := expected(cfgIdx)
	rec, recBody, unmodelled, u2 := "E", "E", false, false
	head, rest := data, []byte(nil)
	if len(data) > sealLen {
		head, rest = data[:sealLen], data[sealLen:]
	}
	if !noFile {
		rec, unmodelled = record(dhcp.VerifDecode(data))
		if len(data) >= sealLen {
			recBody, u2 = record(dhcp.VerifDecode(rest))
		}
	}
	sum := sha256.Sum256(rest)
	return fmt.Sprintf(" @ %s %s %s %s %s %s %s", home, nf, capturedStr(capt), rec, recBody, core.Hex(head), hex.EncodeToString(sum[:])), unmodelled || u2
}

// sealOf: the harness's own reading of the integrity line: "" when the file has no well-formed one (legacy path),
// else "ok" / "mismatch".
func sealOf(data []byte) string {
	if len(data) < sealLen || string(data[:10]) != "# sha256: " || data[sealLen-1] != '\n' {
		return ""
	}
	want, err := hex.DecodeString(string(data[10 : sealLen-1]))
	if err != nil {
		return ""
	}
	if sum := sha256.Sum256(data[sealLen:]); bytes.Equal(sum[:], want) {
		return "ok"
	}
	return "mismatch"
}

func inHome(cfgIdx int, ip uint32) bool { return c11.Cfgs[cfgIdx].Home.Contains(c11.Addr(ip)) }

func structural(cfgIdx int, r loadResult) string {
	if r.impl == "panic" || r.impl == "hang" {
		return "constructing the handler from the lease file ended in " + r.impl
	}
	seen := map[uint32]string{}
	for _, b := range r.bindings {
		if len(b.cid) == 0 {
			return fmt.Sprintf("loaded a binding without client identifier (ip %s)", c11.Addr(b.ip))
		}
		if !inHome(cfgIdx, b.ip) {
			return fmt.Sprintf("loaded a binding outside the home subnet: %s", c11.Addr(b.ip))
		}
		_ = seen
	}
	return ""
}

func parseCfg(s string) (int, int, bool) {
	cm := strings.Split(s, ":")
	if len(cm) != 2 {
		return 0, 0, false
	}
	a, e1 := strconv.Atoi(cm[0])
	b, e2 := strconv.Atoi(cm[1])
	return a, b, e1 == nil && e2 == nil && a >= 0 && a < len(c11.Cfgs) && b >= 1 && b <= 3
}

// files produced by restart runs (input of the fault generators): cfg, mode, captured, bytes
type savedFile struct {
	cfgIdx, mode int
	capt         [][]byte
	data         []byte
}

var saved []savedFile
var savedSeen = map[string]bool{}

// loads of the intact original files (every fault line of a file repeats it)
var origCache = map[string]*loadResult{}

// Legacy counts the documented outcomes of damaged files WITHOUT integrity line (class dhcp.loadlegacy).
var Legacy = map[string]int{}

// fileVsTable compares the lease file on disk with the allocated leases the handler holds (client id, MAC, address and
// expiry instant): "" when the file is save(table).
func fileVsTable(w *c11.World, file, when string) string {
	now, err := os.ReadFile(file)
	if err != nil {
		return fmt.Sprintf("%s the lease file cannot be read: %v", when, err)
	}
	dec := dhcp.VerifDecode(now)
	if dec.Err || dec.Net1 == nil || dec.Net2 == nil {
		return when + " the lease file does not decode or lacks the subnet sections"
	}
	type rec struct {
		mac    string
		ip     netip.Addr
		expiry time.Time
	}
	got := map[string]rec{}
	for _, l := range dec.Leases {
		got[string(l.CID)] = rec{string(l.MAC), l.IP, l.Expiry}
	}
	n := 0
	for _, l := range w.H.VerifDump().Leases {
		if l.State != 2 {
			continue
		}
		n++
		g, ok := got[string(l.CID)]
		switch {
		case !ok:
			return fmt.Sprintf("%s the lease file lacks the allocated lease of client %x (%s)", when, l.CID, l.IP)
		case g.mac != string(l.MAC) || g.ip != l.IP:
			return fmt.Sprintf("%s the lease file holds %s / mac %x for client %x, the server %s / mac %x", when, g.ip, g.mac, l.CID, l.IP, l.MAC)
		case !g.expiry.Equal(l.Expiry):
			return fmt.Sprintf("%s the lease file holds a stale expiry for client %x (%s): file %s, server %s (difference %s): the file was not rewritten",
				when, l.CID, l.IP, g.expiry.UTC().Format(time.RFC3339Nano), l.Expiry.UTC().Format(time.RFC3339Nano), l.Expiry.Sub(g.expiry))
		}
	}
	if n != len(dec.Leases) {
		return fmt.Sprintf("%s the lease file holds %d records for %d allocated leases", when, len(dec.Leases), n)
	}
	return ""
}

func evalRestart(c *core.Ctx, f []string) *core.Case {
	cfgIdx, mode, ok := parseCfg(f[1])
	if !ok {
		return nil
	}
	var ops []*c11.Op
	if f[2] != "-" {
		for _, s := range strings.Split(f[2], ";") {
			o, k := c11.ParseOp(s)
			if !k {
				return nil
			}
			ops = append(ops, o)
		}
	}
	file := leaseFile()
	os.Remove(file)
	w, err := c11.NewWorld(cfgIdx, mode, file)
	if err != nil {
		return nil
	}
	// "rewritten after every ACK": right after a step that sent an ACK the file on disk must be save(table) for the
	// table in memory (Model/Dhcp4File.save): exactly the allocated leases, each with the expiry the server holds —
	// compared as instants, not on the canonical clock (a renewal moves the expiry by the real time that passed)
	ackSaveProblem := ""
	_, led := c11.RunOnEach(w, ops, func(st *c11.Step) {
		acked := false
		for _, rp := range st.Replies {
			acked = acked || rp.Type == 5
		}
		if !acked || ackSaveProblem != "" {
			return
		}
		ackSaveProblem = fileVsTable(w, file, fmt.Sprintf("after the ACK of step %q", st.Op.String()))
	})
	data, rerr := os.ReadFile(file)
	var capt [][]byte
	for _, m := range w.S.VerifCaptured() {
		capt = append(capt, m)
	}
	// restart: a new handler over the same session from the file as it is on disk
	r := construct(cfgIdx, mode, file, nil, false)
	tail, unmodelled := modelTail(cfgIdx, capt, data, rerr != nil)
	line := "dhcp.restart " + f[1] + " " + f[2]
	// saveConfig itself: what the old handler writes now must be exactly its allocated leases
	saveProblem := ""
	if err := w.H.VerifSave(); err == nil {
		if now, err2 := os.ReadFile(file); err2 == nil {
			dec := dhcp.VerifDecode(now)
			want := map[string]bool{}
			for _, l := range w.H.VerifDump().Leases {
				if l.State == 2 {
					want[fmt.Sprintf("%x/%x/%s/%d", l.CID, l.MAC, l.IP, c11.Canon(l.Expiry))] = true
				}
			}
			got := map[string]bool{}
			for _, l := range dec.Leases {
				got[fmt.Sprintf("%x/%x/%s/%d", l.CID, l.MAC, l.IP, c11.Canon(l.Expiry))] = true
			}
			if dec.Err || dec.Net1 == nil || dec.Net2 == nil || len(got) != len(want) {
				saveProblem = fmt.Sprintf("saveConfig wrote %d lease records for %d allocated leases (or no subnet sections)", len(got), len(want))
			}
			for k := range want {
				if !got[k] {
					saveProblem = "saveConfig did not write the allocated lease " + k
				}
			}
		}
	}
	if k := string(data); !savedSeen[k] && rerr == nil && len(saved) < 4000 {
		savedSeen[k] = true
		saved = append(saved, savedFile{cfgIdx, mode, capt, data})
	}
	acked := led.Acked()
	oracle := func() (string, string) {
		if s := structural(cfgIdx, r); s != "" {
			return s, ""
		}
		if saveProblem != "" {
			return saveProblem, ""
		}
		if ackSaveProblem != "" {
			return ackSaveProblem, ""
		}
		have := map[bindingT]bool{}
		byIP := map[uint32]int{}
		for _, b := range r.bindings {
			have[b] = true
			byIP[b.ip]++
			if !led.EverAcked(b.ip, []byte(b.cid), []byte(b.mac)) {
				return fmt.Sprintf("after restart the table holds %s -> client %x mac %x which was never acknowledged", c11.Addr(b.ip), b.cid, b.mac), ""
			}
		}
		for ip, b := range acked {
			if !have[bindingT{string(b.CID), string(b.MAC), ip}] {
				return fmt.Sprintf("acknowledged binding %s -> client %x mac %x is missing after restart", c11.Addr(ip), b.CID, b.MAC), ""
			}
		}
		for ip, b := range acked {
			if byIP[ip] > 1 {
				return fmt.Sprintf("address %s bound to %d clients after restart while acknowledged to %x", c11.Addr(ip), byIP[ip], b.CID), ""
			}
		}
		if r.world == nil {
			return "", ""
		}
		// probes on the restarted handler: renewals are acknowledged, the addresses are not offered to others
		ips := make([]int, 0, len(acked))
		for ip := range acked {
			ips = append(ips, int(ip))
		}
		sort.Ints(ips)
		for _, ipi := range ips {
			ip := uint32(ipi)
			b := acked[ip]
			if b.Expiry < c11.NowH*c11.Hour {
				continue // lease time ran out on the canonical clock
			}
			captured := r.world.S.IsCaptured(net.HardwareAddr(b.MAC))
			lan := r.world.Cfg.Home
			if captured {
				lan = r.world.Cfg.Netfilter.Masked()
			}
			stranger := &c11.Op{Kind: "discover", CHAddr: []byte{0, 9, 9, 9, 9, 9}, XID: []byte{9, 9, 9, 9}, Req: c11.Addr(ip).AsSlice()}
			st := r.world.Apply(stranger)
			for _, rp := range st.Replies {
				if rp.Type == 2 && rp.YIAddr == ip {
					return fmt.Sprintf("after restart %s (acknowledged to %x) is offered to another client", c11.Addr(ip), b.CID), ""
				}
			}
			if !lan.Contains(c11.Addr(ip)) {
				continue // the client changed capture state since the ACK: its next request is NAKed before and after restart alike
			}
			// two hours later (still inside the lease period the last ACK announced): a restarted server that loaded an
			// older expiry than the one it acknowledged refuses this renewal
			if b.Expiry-2*c11.Hour > c11.NowH*c11.Hour {
				r.world.H.VerifAge(b.CID, 2*time.Hour)
			}
			renew := &c11.Op{Kind: "request", CHAddr: b.MAC, XID: []byte{8, 8, 8, 8}, CIAddr: ip, Src: ip}
			if !bytes.Equal(b.CID, b.MAC) {
				renew.CID = b.CID
			}
			st = r.world.Apply(renew)
			ok := false
			for _, rp := range st.Replies {
				if rp.Type == 5 && rp.YIAddr == ip {
					ok = true
				}
			}
			if !ok && !st.Skipped && os.Getenv("C18DEBUG") != "" {
				fmt.Fprintf(os.Stderr, "DEBUG renew %x ip=%s\n pre=%s\n post=%s\n replies=%d impl=%s\n", b.CID, c11.Addr(ip), st.Pre, st.Post, len(st.Replies), r.impl)
				for _, rp := range st.Replies {
					fmt.Fprintf(os.Stderr, "   reply %s\n", rp.String())
				}
			}
			gw := r.world.Cfg.Router
			if captured {
				gw = r.world.Cfg.Netfilter.Addr()
			}
			reserved := ip == c11.U32(lan.Addr()) || ip == c11.U32(lan.Addr())|(uint32(0xffffffff)>>uint(lan.Bits())) ||
				c11.Addr(ip) == r.world.Cfg.Host || c11.Addr(ip) == r.world.Cfg.Router || c11.Addr(ip) == gw
			if reserved {
				// not a host address of the subnet the client is in now (it changed capture state since the ACK)
				if ok {
					return fmt.Sprintf("after restart %s, a reserved address of the client's subnet %s, is acknowledged to client %x", c11.Addr(ip), lan, b.CID), ""
				}
				continue
			}
			if !ok && !st.Skipped {
				return fmt.Sprintf("after restart the renewal of %s by client %x is not acknowledged", c11.Addr(ip), b.CID), ""
			}
		}
		return "", ""
	}
	// the probes use the shared session: evaluate the oracle now, not when the batch is flushed
	what, known := oracle()
	cs := &core.Case{Line: line + tail, Impl: r.impl, Oracle: func() (string, string) { return what, known }, Trivial: len(acked) == 0}
	if unmodelled {
		cs.Cmp = func(a, b string) bool { return true }
	}
	return cs
}

func evalLoad(c *core.Ctx, f []string) *core.Case {
	cfgIdx, mode, ok := parseCfg(f[1])
	capt, ok2 := parseCaptured(f[2])
	if !ok || !ok2 {
		return nil
	}
	data := core.UnHex(f[3])
	file := leaseFile()
	load := func(b []byte) loadResult {
		os.Remove(file)
		if err := os.WriteFile(file, b, 0o644); err != nil {
			panic(err)
		}
		return construct(cfgIdx, mode, file, capt, true)
	}
	var orig *loadResult
	if f[4] != "-" {
		key := f[1] + " " + f[2] + " " + f[4]
		if o, ok := origCache[key]; ok {
			orig = o
		} else {
			o := load(core.UnHex(f[4]))
			o.world = nil
			orig = &o
			if len(origCache) < 64 {
				origCache[key] = orig
			}
		}
	}
	r := load(data)
	tail, unmodelled := modelTail(cfgIdx, capt, data, false)
	oracle := func() (string, string) {
		if s := structural(cfgIdx, r); s != "" {
			return s, ""
		}
		if orig == nil {
			return "", ""
		}
		origData := core.UnHex(f[4])
		class := faultClass(data, origData)
		dRecs, oRecs := dhcp.VerifDecode(data).Leases, dhcp.VerifDecode(origData).Leases
		// the reference set "bindings of the original file" is built from the RECORDS of the intact file (decoded
		// independently of the constructor) by the documented acceptance rule - allocated, IPv4 address inside the home LAN,
		// non-empty client identifier, the last record of a client identifier wins - not from the implementation's own
		// load of that file (audit G2); the implementation's load of the intact file must be exactly this set
		byCID := map[string]bindingT{}
		for _, o := range oRecs {
			if o.State == 2 && o.IP.Is4() && inHome(cfgIdx, ipOf(o.IP)) && len(o.CID) > 0 {
				byCID[string(o.CID)] = bindingT{string(o.CID), string(o.MAC), ipOf(o.IP)}
			}
		}
		in := map[bindingT]bool{}
		for _, b := range byCID {
			in[b] = true
		}
		if orig.impl != "err" && !strings.HasPrefix(orig.impl, "ok") {
			return "constructing the handler from the intact file ended in " + orig.impl, ""
		}
		if strings.HasPrefix(orig.impl, "ok") && origResetFree(cfgIdx, origData) {
			if len(orig.bindings) != len(in) {
				return fmt.Sprintf("the intact file holds %d acceptable lease records, the constructor loads %d bindings", len(in), len(orig.bindings)), ""
			}
			for _, b := range orig.bindings {
				if !in[b] {
					return fmt.Sprintf("the constructor loads %s -> client %x from the intact file, which holds no such acceptable record", c11.Addr(b.ip), b.cid), ""
				}
			}
		} else {
			// the intact file is not accepted under this configuration (changed-config class): the reference is the empty table
			in = map[bindingT]bool{}
		}
		nOrig := len(in)
		// files of the repaired saveConfig (dhcp.load): intact or empty, nothing else, no exception.
		// legacy files (dhcp.loadlegacy: no integrity line, outside the quantifier of C18 since the repaired saveConfig
		// never writes one): the documented behaviour of the unchanged legacy path is tolerated in exactly the shapes
		// recorded when it was a known finding (forgedShape; leading records of a truncated file) and counted.
		legacy := f[0] == "dhcp.loadlegacy"
		if legacy && sealOf(origData) != "" {
			return "dhcp.loadlegacy line whose original file carries an integrity line", ""
		}
		n := 0
		for _, b := range r.bindings {
			if !in[b] {
				what := fmt.Sprintf("damaged lease file (%s) yields binding %s -> client %x mac %x that is absent from the original file", class, c11.Addr(b.ip), b.cid, b.mac)
				if legacy && forgedShape(class, b, dRecs, oRecs) {
					Legacy["forged-binding"]++
					return "", ""
				}
				return what, ""
			}
			n++
		}
		if n != 0 && n != nOrig {
			what := fmt.Sprintf("damaged lease file (%s) yields %d of the %d original bindings (neither intact nor empty)", class, n, nOrig)
			if !legacy {
				return what, ""
			}
			if class == "truncation" {
				// a cut file may only keep the LEADING records: the survivors must be the first n accepted records of the original
				k := 0
				for _, o := range oRecs {
					ob := bindingT{string(o.CID), string(o.MAC), ipOf(o.IP)}
					if !in[ob] {
						continue
					}
					if k < n && !hasBinding(r.bindings, ob) {
						return what + ": the survivors are not the leading records of the original", ""
					}
					k++
				}
			}
			Legacy["partial-table"]++
			return "", ""
		}
		return "", ""
	}
	what, known := oracle()
	cs := &core.Case{Line: strings.Join(f[:5], " ") + tail, Impl: r.impl, Oracle: func() (string, string) { return what, known }, Trivial: len(data) == 0}
	if unmodelled {
		cs.Cmp = func(a, b string) bool { return true }
	}
	return cs
}

// origResetFree reports whether the intact file's subnet sections are the configured ones, i.e. the constructor has no
// reason to reset (decided from the decoded records, not from the constructor's result).
func origResetFree(cfgIdx int, origData []byte) bool {
	d := dhcp.VerifDecode(origData)
	if d.Err || d.Net1 == nil || d.Net2 == nil {
		return false
	}
	k := &c11.Cfgs[cfgIdx]
	return d.Net1.LAN.Masked() == k.Home.Masked() && d.Net1.DefaultGW == k.Router && d.Net1.DNSServer == k.DNS && d.Net1.DHCPServer == k.Host &&
		d.Net2.LAN.Masked() == k.Netfilter.Masked() && d.Net2.DefaultGW == k.Netfilter.Addr() && d.Net2.DHCPServer == k.Host &&
		d.Net2.DNSServer == netip.MustParseAddr("1.1.1.3")
}

func ipOf(a netip.Addr) uint32 {
	if a.Is4() {
		return c11.U32(a)
	}
	return 0
}

func hasBinding(bs []bindingT, b bindingT) bool {
	for _, x := range bs {
		if x == b {
			return true
		}
	}
	return false
}

// faultClass recognises how the bytes were derived from the original file.
func faultClass(data, orig []byte) string {
	switch {
	case bytes.Equal(data, orig):
		return "intact"
	case len(data) < len(orig) && bytes.HasPrefix(orig, data):
		return "truncation"
	case len(data) == len(orig):
		d := 0
		for i := range data {
			if data[i] != orig[i] {
				d++
			}
		}
		if d == 1 {
			return "substitution"
		}
	}
	dl, ol := bytes.SplitAfter(data, []byte("\n")), bytes.SplitAfter(orig, []byte("\n"))
	if len(dl) == len(ol)-1 || len(dl) == len(ol)+1 {
		short, long := dl, ol
		if len(dl) > len(ol) {
			short, long = ol, dl
		}
		i := 0
		for i < len(short) && bytes.Equal(short[i], long[i]) {
			i++
		}
		if bytes.Equal(bytes.Join(short[i:], nil), bytes.Join(long[i+1:], nil)) {
			if len(dl) < len(ol) {
				return "line-deletion"
			}
			if i > 0 && bytes.Equal(long[i], long[i-1]) {
				return "line-duplication"
			}
		}
	}
	return "other"
}

func diffCount(a, b []byte) int {
	if len(a) != len(b) {
		return -1
	}
	n := 0
	for i := range a {
		if a[i] != b[i] {
			n++
		}
	}
	return n
}

// forgedShape is the matcher of the known finding `forged-binding` (KNOWN_FINDINGS.txt): the lease file has no
// integrity check, so ONE damaged scalar of an otherwise intact record yields a well-formed different binding:
//   - truncation: only the address of the LAST record cut short (same client id and MAC, the loaded address
//     text is a proper prefix of the original one);
//   - single-byte substitution: the record at the same position differs in exactly one of client id / MAC
//     (one element changed or voided; MAC field dropped) / address;
//   - line deletion / duplication: the record at the same position differs only by one element removed from /
//     repeated in its client id or MAC list.
//
// Anything else (e.g. a truncated file producing another client id) is not this finding.
func forgedShape(class string, b bindingT, dRecs, oRecs []dhcp.VerifFileLease) bool {
	idx := -1
	for i, d := range dRecs {
		if string(d.CID) == b.cid && string(d.MAC) == b.mac && ipOf(d.IP) == b.ip {
			idx = i
			break
		}
	}
	if idx < 0 || idx >= len(oRecs) {
		return false
	}
	o := oRecs[idx]
	sameCID, sameMAC, sameIP := string(o.CID) == b.cid, string(o.MAC) == b.mac, ipOf(o.IP) == b.ip
	switch class {
	case "truncation":
		return idx == len(dRecs)-1 && sameCID && sameMAC && !sameIP && o.IP.IsValid() &&
			strings.HasPrefix(o.IP.String(), c11.Addr(b.ip).String()) && o.IP.String() != c11.Addr(b.ip).String()
	case "substitution":
		// one element changed, or one element voided (its line turned into a comment), or the MAC dropped with its damaged key
		switch {
		case !sameCID && sameMAC && sameIP:
			return diffCount(o.CID, []byte(b.cid)) == 1 || len(b.cid)+1 == len(o.CID)
		case sameCID && !sameMAC && sameIP:
			return diffCount(o.MAC, []byte(b.mac)) == 1 || len(b.mac)+1 == len(o.MAC) || len(b.mac) == 0
		case sameCID && sameMAC && !sameIP:
			return true
		}
	case "line-deletion", "line-duplication":
		oneOff := func(x, y []byte) bool { return len(x) == len(y)+1 || len(x)+1 == len(y) }
		switch {
		case !sameCID && sameMAC && sameIP:
			return oneOff(o.CID, []byte(b.cid))
		case sameCID && !sameMAC && sameIP:
			return oneOff(o.MAC, []byte(b.mac))
		}
	}
	return false
}

func Eval(c *core.Ctx, line string) *core.Case {
	defer func() { // leave nothing behind (also in replay mode)
		if tmpDir != "" {
			os.RemoveAll(tmpDir)
			tmpDir = ""
		}
	}()
	f := strings.Fields(line)
	switch {
	case len(f) >= 3 && f[0] == "dhcp.restart":
		return evalRestart(c, f)
	case len(f) >= 3 && f[0] == "dhcp.rsim":
		return evalRsim(c, f)
	case len(f) >= 5 && (f[0] == "dhcp.load" || f[0] == "dhcp.loadlegacy"):
		return evalLoad(c, f)
	}
	return nil
}

// peekOffer runs the history of a dhcp.restart line and returns the last address offered to mac.
func peekOffer(cfgIdx, mode int, line string, mac []byte) uint32 {
	f := strings.Fields(line)
	var ops []*c11.Op
	for _, s := range strings.Split(f[2], ";") {
		if o, ok := c11.ParseOp(s); ok {
			ops = append(ops, o)
		}
	}
	w, err := c11.NewWorld(cfgIdx, mode, "")
	if err != nil {
		return 0
	}
	run, _ := c11.RunOn(w, ops)
	var offer uint32
	for _, st := range run.Steps {
		for _, r := range st.Replies {
			if r.Type == 2 && bytes.Equal(r.CHAddr, mac) {
				offer = r.YIAddr
			}
		}
	}
	return offer
}

func Gen(c *core.Ctx) {
	c11.Canon(time.Now())
	if !c.Verbose {
		if f, err := os.OpenFile(os.DevNull, os.O_WRONLY, 0); err == nil {
			os.Stdout = f
		}
	}
	defer func() {
		if tmpDir != "" {
			os.RemoveAll(tmpDir)
		}
	}()
	c.Res.Rule = "non-trivial = restart with at least one acknowledged binding, or load of a non-empty byte string"
	for _, l := range c.CorpusLines() {
		if cs := Eval(c, l); cs != nil {
			cs.Class = "corpus"
			c.Add(*cs)
		}
	}
	// restarts after random histories (the generator of C11), all modes and configurations
	nh := c.Scale(150, 3000)
	for k := 0; k < nh; k++ {
		cfgIdx := k % c11.NumBase
		mode := 1 + (k/c11.NumBase)%3
		ops := c11.RandomHistory(c, cfgIdx, 8+c.Rnd.Intn(40))
		parts := make([]string, len(ops))
		for i, o := range ops {
			parts[i] = o.String()
		}
		if cs := Eval(c, fmt.Sprintf("dhcp.restart %d:%d %s", cfgIdx, mode, strings.Join(parts, ";"))); cs != nil {
			cs.Class = "restart"
			c.Add(*cs)
		}
	}
	// happy-path populations: k clients obtain leases (some captured), then the server restarts
	for k := 0; k < c.Scale(36, 400); k++ {
		cfgIdx := k % c11.NumBase
		mode := 1 + (k/c11.NumBase)%3
		var parts []string
		n := 1 + c.Rnd.Intn(4)
		host := c11.Cfgs[cfgIdx].Host.AsSlice()
		for i := 0; i < n; i++ {
			m := c11.Mac(i)
			if c.Rnd.Intn(2) == 0 {
				parts = append(parts, (&c11.Op{Kind: "capture", MAC: m}).String())
			}
			d := &c11.Op{Kind: "discover", CHAddr: m, XID: []byte{0xb0, 0, 0, byte(i)}}
			if c.Rnd.Intn(3) == 0 {
				d.CID = append([]byte{1}, m...)
			}
			parts = append(parts, d.String())
			// the client learns the offer from a dry run of the history so far
			line := fmt.Sprintf("dhcp.restart %d:%d %s", cfgIdx, mode, strings.Join(parts, ";"))
			offer := peekOffer(cfgIdx, mode, line, m)
			if offer == 0 {
				continue
			}
			rq := &c11.Op{Kind: "request", CHAddr: m, XID: d.XID, CID: d.CID, Srv: host, Req: c11.Addr(offer).AsSlice()}
			parts = append(parts, rq.String())
			if c.Rnd.Intn(5) == 0 {
				parts = append(parts, (&c11.Op{Kind: "uncapture", MAC: m}).String())
			}
		}
		if cs := Eval(c, fmt.Sprintf("dhcp.restart %d:%d %s", cfgIdx, mode, strings.Join(parts, ";"))); cs != nil {
			cs.Class = "restart-populated"
			c.Add(*cs)
		}
	}
	// renewed populations: a client obtains a lease, hours pass, it extends the lease (renew / rebind / init-reboot /
	// select again), possibly more than once, then the server restarts: the file must carry the EXTENDED lease
	for k := 0; k < c.Scale(27, 108); k++ {
		cfgIdx := k % c11.NumBase
		mode := 1 + (k/c11.NumBase)%3
		variant := (k / 9) % 4
		m := c11.Mac(k % 3)
		host := c11.Cfgs[cfgIdx].Host.AsSlice()
		var parts []string
		if k%2 == 1 && cfgIdx != 2 {
			parts = append(parts, (&c11.Op{Kind: "capture", MAC: m}).String())
		}
		d := &c11.Op{Kind: "discover", CHAddr: m, XID: []byte{0xb1, 0, 0, byte(k)}}
		if k%4 == 3 {
			d.CID = append([]byte{1}, m...)
		}
		parts = append(parts, d.String())
		offer := peekOffer(cfgIdx, mode, fmt.Sprintf("dhcp.restart %d:%d %s", cfgIdx, mode, strings.Join(parts, ";")), m)
		if offer == 0 {
			continue
		}
		sel := &c11.Op{Kind: "request", CHAddr: m, XID: d.XID, CID: d.CID, Srv: host, Req: c11.Addr(offer).AsSlice()}
		parts = append(parts, sel.String())
		cid := sel.ClientID()
		for round := 0; round <= k%2; round++ {
			parts = append(parts, (&c11.Op{Kind: "age", CID: cid, Hours: int64(1 + (k+round)%3)}).String())
			ext := &c11.Op{Kind: "request", CHAddr: m, XID: []byte{0xb2, 0, byte(round), byte(k)}, CID: d.CID}
			switch variant {
			case 0: // renewing
				ext.CIAddr, ext.Src = offer, offer
			case 1: // rebinding
				ext.CIAddr, ext.Src = offer, 0xffffffff
			case 2: // init-reboot
				ext.Req = c11.Addr(offer).AsSlice()
			default: // select again
				ext.Srv, ext.Req = host, c11.Addr(offer).AsSlice()
			}
			parts = append(parts, ext.String())
		}
		if cs := Eval(c, fmt.Sprintf("dhcp.restart %d:%d %s", cfgIdx, mode, strings.Join(parts, ";"))); cs != nil {
			cs.Class = "restart-renewed"
			c.Add(*cs)
		}
	}
	// histories with restarts in the middle, step by step against the process model of Props/C18Restart
	genRsim(c)
	// fault enumeration over the files those histories left behind
	files := saved
	sort.SliceStable(files, func(i, j int) bool {
		return bytes.Count(files[i].data, []byte("clientid")) > bytes.Count(files[j].data, []byte("clientid"))
	})
	nf := c.Scale(4, 40)
	if len(files) > nf {
		// keep the richest files and a few small ones
		files = append(files[:nf-1:nf-1], files[len(files)-1])
	}
	cmd := "dhcp.load"
	add := func(sf savedFile, data []byte, class string) {
		line := fmt.Sprintf("%s %d:%d %s %s %s", cmd, sf.cfgIdx, sf.mode, capturedStr(sf.capt), core.Hex(data), core.Hex(sf.data))
		if cs := Eval(c, line); cs != nil {
			cs.Class = class
			c.Add(*cs)
		}
	}
	// a lease file of configuration h24n29 under configurations that differ in one SubnetConfig field: the constructor must reset
	nch := 0
	for _, sf := range saved {
		if sf.cfgIdx != 0 || bytes.Count(sf.data, []byte("state: 2")) == 0 || nch >= c.Scale(3, 30) {
			continue
		}
		nch++
		for v := c11.NumBase; v < len(c11.Cfgs); v++ {
			other := sf
			other.cfgIdx = v
			add(other, sf.data, "changed-config")
		}
	}
	// every file is enumerated as the repaired saveConfig wrote it (strict: intact or empty) and, with the integrity line
	// removed, as a legacy file (documented legacy behaviour, fewer samples)
	nfiles := len(files)
	for k, sf := range files[:nfiles] {
		if sealOf(sf.data) != "" && k < c.Scale(4, 12) {
			files = append(files, savedFile{sf.cfgIdx, sf.mode, sf.capt, append([]byte{}, sf.data[sealLen:]...)})
		}
	}
	unsealed := 0
	for fi, sf := range files {
		d := sf.data
		cmd = "dhcp.load"
		if fi >= nfiles {
			cmd = "dhcp.loadlegacy"
		} else if sealOf(d) == "" {
			unsealed++
		}
		add(sf, d, "intact")
		if fi < nfiles && sealOf(d) != "" && fi < c.Scale(2, 16) {
			// the integrity line itself: every byte of it (keyword, hex digits, line break) replaced: by every other value at
			// the positions where the line starts / the keyword ends / the digits start and end / the line ends (all positions
			// for the richest files in the thorough tier), elsewhere by the values that matter to a YAML reader or a hex decoder
			special := []byte("\n\r\t #\"':-,.0aAfFgGzZ[]{}|>&*!%?@`~x\x00\x7f\x80\xc3\xff")
			for pos := 0; pos < sealLen; pos++ {
				vals := special
				if fi < c.Scale(0, 2) || pos == 0 || pos == 9 || pos == 10 || pos == sealLen-2 || pos == sealLen-1 {
					vals = make([]byte, 256)
					for v := range vals {
						vals[v] = byte(v)
					}
				}
				for _, v := range vals {
					if v == d[pos] {
						continue
					}
					b := append([]byte{}, d...)
					b[pos] = v
					add(sf, b, "subst-seal")
				}
			}
		}

		step := 1
		if fi >= c.Scale(2, 12) {
			step = 7
		}
		if fi >= nfiles && fi-nfiles >= c.Scale(1, 6) {
			step = 13
		}
		for n := 0; n < len(d); n += step { // every prefix (truncation at every byte offset)
			add(sf, d[:n], "prefix")
		}
		nsub := c.Scale(400, 4000)
		if fi >= nfiles {
			nsub = c.Scale(100, 1000)
		}
		for k := 0; k < nsub; k++ { // single-byte substitutions
			b := append([]byte{}, d...)
			pos := c.Rnd.Intn(len(b))
			alt := []byte("0123456789abcdef:. -\n/[]~x")
			nb := alt[c.Rnd.Intn(len(alt))]
			if c.Rnd.Intn(4) == 0 {
				nb = byte(c.Rnd.Intn(256))
			}
			if nb == b[pos] {
				nb ^= 1
			}
			b[pos] = nb
			add(sf, b, "subst")
		}
		lines := bytes.SplitAfter(d, []byte("\n"))
		for i := range lines { // line deletions and duplications
			del := bytes.Join(append(append([][]byte{}, lines[:i]...), lines[i+1:]...), nil)
			add(sf, del, "linedel")
			dup := bytes.Join(append(append(append([][]byte{}, lines[:i+1]...), lines[i]), lines[i+1:]...), nil)
			add(sf, dup, "linedup")
		}
	}
	c.Res.Extra["lease_files"] = nfiles
	c.Res.Extra["lease_files_without_integrity_line"] = unsealed
	c.Res.Extra["legacy_files_documented_outcomes"] = Legacy
}
