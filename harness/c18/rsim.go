package c18

// dhcp.rsim: the PROCESS model of Props/C18Restart (Model/Dhcp4Restart.stepP: handler state + lease file, restart as an
// operation) against the real process, step by step.
//
//	dhcp.rsim <cfg>:<mode> <op>;<op>;…
//
// ops are the C11 op syntax (discover / request / decline / release / tick / age / capture / uncapture / host / nohost) plus
//
//	reload         the process ends here — whatever was written last is in the lease file — and a new handler is
//	               constructed from that file over the SAME session (hosts and captures as they are)
//	restart:<cfg>  the same over a FRESH session (nothing captured, no hosts); <cfg> must be the line's configuration
//	probes         for every acknowledgement in force (ledger of the C11 oracle): a stranger's DISCOVER naming the address,
//	               then, two hours later, the holder's RENEW — the probes of dhcp.restart, here as steps of the history
//
// The line is completed with ` @ <newcfg> <cfgdump> (<pre> <filepre> <op> <post> <filepost> <replies>)*`: what Config.New
// was called with (dhcp.new syntax), the subnets of the real handler, and for every step the handler state and the lease
// records the real yaml.v2 decodes from the file on disk, before and after.  The model must accept every group as a step
// of stepP: an ACK rewrites the file from the table, nothing else does, a restart rebuilds table and cursors from the file.
//
// Oracles (independent of the model): the C11 / C12 ledger oracles over the whole history (an address acknowledged to
// two clients across a restart, an OFFER / ACK of an address acknowledged to another client, …), and at every restart
// "every acknowledgement in force is a binding of the new table"; at `probes` the two C18 statements.

import (
	"bytes"
	"fmt"
	"net"
	"os"
	"sort"
	"strconv"
	"strings"

	dhcp "github.com/irai/packet/handlers/dhcp4_spoofer"
	"verif/harness/c11"
	"verif/harness/core"
)

// fileTable renders the lease records of the file on disk in the model's lease syntax (subnet field 1: not saved).
func fileTable(file string) (string, bool) {
	data, err := os.ReadFile(file)
	if err != nil {
		return "-", true
	}
	body := data
	if sealOf(data) != "" {
		body = data[sealLen:]
	}
	dec := dhcp.VerifDecode(body)
	if dec.Err {
		return "-", false
	}
	ok := true
	var ls []string
	for _, l := range dec.Leases {
		ip, offer := "~", "~"
		switch {
		case l.IP.Is4():
			ip = strconv.FormatUint(uint64(c11.U32(l.IP)), 10)
		case l.IP.IsValid():
			ok = false
		}
		switch {
		case l.Offer.Is4():
			offer = strconv.FormatUint(uint64(c11.U32(l.Offer)), 10)
		case l.Offer.IsValid():
			ok = false
		}
		if l.State < 0 || l.State > 2 {
			ok = false
		}
		ls = append(ls, fmt.Sprintf("%s:%d:%s:%s:%s:%s:1:%d", core.Hex(l.CID), l.State, core.Hex(l.MAC), ip, offer, core.Hex(l.XID), c11.Canon(l.Expiry)))
	}
	sort.Strings(ls)
	if len(ls) == 0 {
		return "-", ok
	}
	return strings.Join(ls, ";"), ok
}

func newCfgSpec(cfgIdx, mode int) string {
	k := &c11.Cfgs[cfgIdx]
	return fmt.Sprintf("%d,%d,%d,%d,%d,%d,%d,%d", mode, c11.U32(k.Host), c11.U32(k.Router), c11.U32(k.Home.Addr()), k.Home.Bits(),
		c11.U32(k.Netfilter.Addr()), k.Netfilter.Bits(), c11.U32(k.DNS))
}

func repliesOf(st *c11.Step) string {
	if len(st.Replies) == 0 {
		return "-"
	}
	parts := make([]string, len(st.Replies))
	for i, r := range st.Replies {
		parts[i] = r.String()
	}
	return strings.Join(parts, ";")
}

func evalRsim(c *core.Ctx, f []string) *core.Case {
	cfgIdx, mode, ok := parseCfg(f[1])
	if !ok {
		return nil
	}
	toks := []string{}
	if f[2] != "-" {
		toks = strings.Split(f[2], ";")
	}
	file := leaseFile()
	os.Remove(file)
	w, err := c11.NewWorld(cfgIdx, mode, file)
	if err != nil {
		return nil
	}
	led := c11.NewLedger(w.Cfg, mode)
	_, cfgDump, _ := w.Dump()
	var groups []string
	modelled := true
	problem := ""
	fail := func(format string, a ...any) {
		if problem == "" {
			problem = fmt.Sprintf(format, a...)
		}
	}
	restarts, ackedAtRestart := 0, 0
	ftab := func() string {
		s, k := fileTable(file)
		modelled = modelled && k
		return s
	}
	step := func(o *c11.Op) *c11.Step {
		fpre := ftab()
		st := w.Apply(o)
		for _, fd := range led.Observe(st) {
			fail("%s: %s", fd.Prop, fd.What)
		}
		if st.Err != "" {
			fail("step %q: %s", o.String(), st.Err)
		}
		if !st.Skipped && st.Pre != "" {
			groups = append(groups, st.Pre+" "+fpre+" "+st.ModelOp+" "+st.Post+" "+ftab()+" "+repliesOf(st))
		}
		return st
	}
	restart := func(fresh bool) bool {
		pre, _, _ := w.Dump()
		fpre := ftab()
		acked := led.Acked()
		if fresh {
			o := &c11.Op{Kind: "restart", Cfg: cfgIdx}
			st := w.Apply(o) // replaces *w
			led.Observe(st)
			if st.Err != "" {
				fail("%s", st.Err)
				return false
			}
		} else {
			plantStaleTmp(file) // a crash between the temp-file write and the rename left "<file>.tmp" behind
			r := construct(cfgIdx, mode, file, nil, false)
			if r.world == nil {
				fail("constructing the handler from the lease file ended in %s", r.impl)
				return false
			}
			if bad := leaseFileIntact(file); bad != "" {
				fail("%s", bad)
			}
			w = r.world
			led.Observe(&c11.Step{Op: &c11.Op{Kind: "restart", Cfg: cfgIdx}, Skipped: true})
		}
		post, cfgNow, bad := w.Dump()
		if bad != "" {
			fail("after restart: %s", bad)
		}
		if cfgNow != cfgDump {
			fail("the restarted handler runs with other subnets: %s, before %s", cfgNow, cfgDump)
		}
		groups = append(groups, pre+" "+fpre+" restart "+post+" "+ftab()+" -")
		restarts++
		// leases survive: every acknowledgement in force is a binding of the new table
		_, bs := built(w.H.VerifDump())
		have := map[bindingT]bool{}
		for _, b := range bs {
			have[b] = true
		}
		for ip, b := range acked {
			ackedAtRestart++
			if !have[bindingT{string(b.CID), string(b.MAC), ip}] {
				fail("acknowledged binding %s -> client %x mac %x is missing after restart", c11.Addr(ip), b.CID, b.MAC)
			}
		}
		return true
	}
	probes := func() {
		acked := led.Acked()
		ips := make([]int, 0, len(acked))
		for ip := range acked {
			ips = append(ips, int(ip))
		}
		sort.Ints(ips)
		for _, ipi := range ips {
			ip := uint32(ipi)
			b := acked[ip]
			if b.Expiry < c11.NowH*c11.Hour {
				continue // lease time ran out on the canonical clock
			}
			captured := w.S.IsCaptured(net.HardwareAddr(b.MAC))
			lan := w.Cfg.Home
			gw := w.Cfg.Router
			if captured {
				lan = w.Cfg.Netfilter.Masked()
				gw = w.Cfg.Netfilter.Addr()
			}
			st := step(&c11.Op{Kind: "discover", CHAddr: []byte{0, 9, 9, 9, 9, 9}, XID: []byte{9, 9, 9, 9}, Req: c11.Addr(ip).AsSlice()})
			for _, rp := range st.Replies {
				if rp.Type == 2 && rp.YIAddr == ip {
					fail("after restart %s (acknowledged to %x) is offered to another client", c11.Addr(ip), b.CID)
				}
			}
			if !lan.Contains(c11.Addr(ip)) {
				continue // the client changed capture state since the ACK: its next request is NAKed before and after restart alike
			}
			if b.Expiry-2*c11.Hour > c11.NowH*c11.Hour {
				step(&c11.Op{Kind: "age", CID: b.CID, Hours: 2})
			}
			renew := &c11.Op{Kind: "request", CHAddr: b.MAC, XID: []byte{8, 8, 8, 8}, CIAddr: ip, Src: ip}
			if !bytes.Equal(b.CID, b.MAC) {
				renew.CID = b.CID
			}
			tracked := false // the session tracks the address for another MAC: the renewal is refused by design (C11 (d))
			for _, a := range w.S.VerifHosts() {
				if a.IP == c11.Addr(ip) && !bytes.Equal(a.MAC, b.MAC) {
					tracked = true
				}
			}
			st = step(renew)
			got := false
			for _, rp := range st.Replies {
				if rp.Type == 5 && rp.YIAddr == ip {
					got = true
				}
			}
			reserved := ip == c11.U32(lan.Addr()) || ip == c11.U32(lan.Addr())|(uint32(0xffffffff)>>uint(lan.Bits())) ||
				c11.Addr(ip) == w.Cfg.Host || c11.Addr(ip) == w.Cfg.Router || c11.Addr(ip) == gw
			switch {
			case reserved && got:
				fail("after restart %s, a reserved address of the client's subnet %s, is acknowledged to client %x", c11.Addr(ip), lan, b.CID)
			case !reserved && !tracked && !got && !st.Skipped:
				fail("after restart the renewal of %s by client %x is not acknowledged", c11.Addr(ip), b.CID)
			}
		}
	}
	for _, t := range toks {
		switch {
		case t == "reload":
			if !restart(false) {
				toks = nil
			}
		case t == "probes":
			if restarts > 0 {
				probes()
			}
		case strings.HasPrefix(t, "restart:"):
			if t != fmt.Sprintf("restart:%d", cfgIdx) {
				return nil // a restart under another configuration is the subject of dhcp.restart / the C11 scenarios
			}
			if !restart(true) {
				toks = nil
			}
		default:
			o, k := c11.ParseOp(t)
			if !k {
				return nil
			}
			step(o)
		}
		if toks == nil {
			break
		}
	}
	line := "dhcp.rsim " + f[1] + " " + f[2] + " @ " + newCfgSpec(cfgIdx, mode) + " " + cfgDump
	if len(groups) > 0 {
		line += " " + strings.Join(groups, " ")
	}
	what := problem
	cs := &core.Case{Line: line, Impl: "accept", Oracle: func() (string, string) { return what, "" }, Trivial: restarts == 0 || ackedAtRestart == 0}
	if !modelled {
		cs.Cmp = func(a, b string) bool { return true }
	}
	return cs
}

// genRsim: histories with restarts in the middle.
// rsimDiv thins the generated histories when they run as a stage of another property
var rsimDiv = 1

// RsimStage: the restart simulation as a stage of C11 (harness/main.go).  C11's statement quantifies over histories with
// restarts and lease expiry ("… across restarts"): an address must not be handed to a second client because a renewal was
// not written to the lease file and the restarted server let the lease expire early.  A third of the dhcp.rsim histories
// of C18 (random histories cut by restarts; populations with stale files, capture changes, renewals and strangers asking
// for every bound address after each restart), step by step against Model.Dhcp4Restart.stepP.
var RsimStage = core.Runner{Gen: func(c *core.Ctx) {
	c.Res.Rule = "dhcp.rsim (stage): op histories with reload / restart / probes on the real handler with a real lease file, every step - the restart included - against Model.Dhcp4Restart.stepP and the ledger oracle of C11"
	for _, l := range c.CorpusLines() {
		if strings.HasPrefix(l, "dhcp.rsim ") {
			if cs := Eval(c, l); cs != nil {
				cs.Class = "corpus"
				c.Add(*cs)
			}
		}
	}
	rsimDiv = 3
	defer func() { rsimDiv = 1 }()
	genRsim(c)
}, Eval: func(c *core.Ctx, line string) *core.Case {
	if strings.HasPrefix(line, "dhcp.rsim ") {
		return Eval(c, line)
	}
	return nil
}}

func genRsim(c *core.Ctx) {
	emit := func(cfgIdx, mode int, parts []string, class string) {
		if cs := Eval(c, fmt.Sprintf("dhcp.rsim %d:%d %s", cfgIdx, mode, strings.Join(parts, ";"))); cs != nil {
			cs.Class = class
			c.Add(*cs)
		}
	}
	strs := func(ops []*c11.Op) []string {
		out := make([]string, len(ops))
		for i, o := range ops {
			out[i] = o.String()
		}
		return out
	}
	// random histories (the generator of C11) cut by restarts
	for k := 0; k < c.Scale(60, 1200)/rsimDiv; k++ {
		cfgIdx := k % c11.NumBase
		mode := 1 + (k/c11.NumBase)%3
		parts := strs(c11.RandomHistory(c, cfgIdx, 6+c.Rnd.Intn(30)))
		rs := "reload"
		if k%4 == 3 {
			rs = fmt.Sprintf("restart:%d", cfgIdx)
		}
		parts = append(parts, rs, "probes")
		parts = append(parts, strs(c11.RandomHistory(c, cfgIdx, 4+c.Rnd.Intn(16)))...)
		if k%3 == 0 {
			parts = append(parts, "reload", "probes")
		}
		emit(cfgIdx, mode, parts, "rsim-random")
	}
	// populations: clients obtain leases (some captured, some with a client identifier), some give their lease up after
	// the last ACK (stale file), the capture state of some changes, the process restarts, every holder renews, a stranger
	// asks for every bound address; then capture states change again, a second restart, the probes again
	for k := 0; k < c.Scale(45, 600)/rsimDiv; k++ {
		cfgIdx := k % c11.NumBase
		mode := 1 + (k/c11.NumBase)%3
		host := c11.Cfgs[cfgIdx].Host.AsSlice()
		var parts []string
		n := 2 + c.Rnd.Intn(3)
		var holders [][]byte
		for i := 0; i < n; i++ {
			m := c11.Mac(i)
			if c.Rnd.Intn(2) == 0 {
				parts = append(parts, (&c11.Op{Kind: "capture", MAC: m}).String())
			}
			d := &c11.Op{Kind: "discover", CHAddr: m, XID: []byte{0xb3, 0, 0, byte(i)}}
			if c.Rnd.Intn(3) == 0 {
				d.CID = append([]byte{1}, m...)
			}
			parts = append(parts, d.String())
			offer := peekOffer(cfgIdx, mode, fmt.Sprintf("dhcp.restart %d:%d %s", cfgIdx, mode, strings.Join(parts, ";")), m)
			if offer == 0 {
				continue
			}
			rq := &c11.Op{Kind: "request", CHAddr: m, XID: d.XID, CID: d.CID, Srv: host, Req: c11.Addr(offer).AsSlice()}
			parts = append(parts, rq.String())
			holders = append(holders, m)
			switch c.Rnd.Intn(8) {
			case 0: // gives the address up: not written to the file
				parts = append(parts, (&c11.Op{Kind: "decline", CHAddr: m, XID: d.XID, CID: d.CID, Srv: host, Req: c11.Addr(offer).AsSlice()}).String())
			case 1:
				parts = append(parts, (&c11.Op{Kind: "release", CHAddr: m, XID: d.XID, CID: d.CID, Srv: host, CIAddr: offer, Src: offer}).String())
			case 2: // starts over: lease in discover state when the process ends
				parts = append(parts, (&c11.Op{Kind: "discover", CHAddr: m, XID: []byte{0xb4, 0, 0, byte(i)}, CID: d.CID}).String())
			}
		}
		toggle := func() {
			for _, m := range holders {
				switch c.Rnd.Intn(5) {
				case 0:
					parts = append(parts, (&c11.Op{Kind: "capture", MAC: m}).String())
				case 1:
					parts = append(parts, (&c11.Op{Kind: "uncapture", MAC: m}).String())
				}
			}
		}
		toggle()
		if k%5 == 4 {
			parts = append(parts, fmt.Sprintf("restart:%d", cfgIdx))
		} else {
			parts = append(parts, "reload")
		}
		parts = append(parts, "probes")
		toggle()
		parts = append(parts, "reload", "probes")
		emit(cfgIdx, mode, parts, "rsim-populated")
	}
}
