// Package c08dns: the DNS / naming share of C08 (protocol handlers terminate without panic on
// arbitrary packets): ProcessDNS, ProcessMDNS, ProcessNBNS, ProcessSSDP and the exported /
// unexported DNS decoders on protocol-aware inputs closed under truncation, count / RDLENGTH /
// pointer corruption, section placement and random mutation.  Every call runs under a 2 s
// watchdog (hang) with panic recovery; results are also compared with the Lean model.
package c08dns

import (
	"fmt"
	"strings"

	"verif/harness/c17"
	"verif/harness/core"
	g "verif/harness/dnsgen"
	"verif/harness/dnsimpl"
	"verif/harness/dnsops"
)

var Runner = core.Runner{Gen: Gen, Eval: dnsops.Eval}

func add(c *core.Ctx, class, line string) {
	cs := dnsops.Eval(c, line)
	switch {
	case cs == nil:
		c.Drop(class, "not evaluated")
	case dnsimpl.Skipped(cs.Impl):
		c.Drop(class, "skipped: hang budget of the operation spent")
	default:
		cs.Class = class
		c.Add(*cs)
	}
}

func clone(b []byte) []byte { return append([]byte{}, b...) }

func hexList(ss ...string) string {
	if len(ss) == 0 {
		return "none"
	}
	var h []string
	for _, s := range ss {
		h = append(h, core.Hex([]byte(s)))
	}
	return strings.Join(h, ",")
}

// Gen is the C08dns run.
func Gen(c *core.Ctx) {
	r := c.Rnd
	c.Res.Rule = "mdns/nbns/dns.process: protocol-aware messages from the independent builder (every record type the handlers distinguish, in every section, plain / compressed / pointer chains, queries and responses) closed under truncation at every offset, count / RDLENGTH / pointer / label-length corruption and random mutation; nbns / nbns.names / nbns.decode: node status RDATA, arrays and names around every length boundary (RDLENGTH 18n-18 … 18n+2, 18n+47; exact-capacity and roomy backing arrays); after every dns.process / mdns / nbns / ssdp call the same handler is probed (DNSFind, DNSExist, an empty response) under the same watchdog, malformed-then-well-formed sequences on one handler; ssdp.cc / ssdp: cache-control values of every split shape and raw NOTIFY / M-SEARCH / response payloads with truncation and mutation; dns.name / dns.question / dns.rrs on the same malformed streams. Every call under a 2 s watchdog with panic recovery. distinct = distinct protocol lines; non-trivial = the payload has at least a DNS header (12 bytes) / passes the first length test"
	for _, l := range c.CorpusLines() {
		add(c, "corpus", l)
	}
	ipPool := make([][]byte, 6)
	for i := range ipPool {
		ipPool[i] = c.RandBytes(16)
	}
	full := func(op string, b g.Built, i int, nameOps bool) {
		add(c, op, op+" "+core.Hex(b.Bytes))
		if i%6 == 0 {
			for cut := 0; cut < len(b.Bytes); cut++ { // every offset
				add(c, op+"-trunc", op+" "+core.Hex(b.Bytes[:cut]))
			}
		}
		if i%4 == 0 {
			for _, cm := range c17.Corruptions(r, b, c.Thorough()) {
				add(c, op+"-corrupt", op+" "+core.Hex(cm))
				if nameOps && len(b.Marks.NameOff) > 0 && r.Intn(6) == 0 {
					add(c, "dns-corrupt", fmt.Sprintf("dns.name %s %d", core.Hex(cm), b.Marks.NameOff[r.Intn(len(b.Marks.NameOff))]))
					add(c, "dns-corrupt", fmt.Sprintf("dns.rrs %d %d %s", 1+r.Intn(3), b.AnOff, core.Hex(cm)))
					add(c, "dns-corrupt", "dns.process "+core.Hex(cm))
					add(c, "dns-corrupt", fmt.Sprintf("dns.answers0 %d %s", b.AnOff, core.Hex(cm)))
				}
			}
		}
		for k := 0; k < 2; k++ {
			mm := c17.Mutate(r, b.Bytes)
			add(c, op+"-mutated", op+" "+core.Hex(mm))
		}
	}
	for i, n := 0, c.Scale(500, 25000); i < n; i++ {
		m := g.RandMDNS(r, ipPool)
		o := g.Opts{Compress: r.Intn(3) != 0}
		if r.Intn(4) == 0 {
			o.Chain = []int{1, 2, 9, 10, 11}[r.Intn(5)]
		}
		full("mdns", g.Build(m, o), i, true)
	}
	// the Parser model against the real dnsmessage.Parser on arbitrary API call sequences
	opsAll := []string{"Q", "SQ", "SAQ", "AH", "NH", "XH", "SA", "SN", "SX", "A", "AAAA", "PTR", "SRV", "OPT", "TXT", "UNK"}
	typed := map[uint16]string{1: "A", 28: "AAAA", 12: "PTR", 33: "SRV", 41: "OPT", 16: "TXT"}
	for i, n := 0, c.Scale(400, 20000); i < n; i++ {
		m := g.RandMDNS(r, ipPool)
		b := g.Build(m, g.Opts{Compress: r.Intn(2) == 0})
		msg := b.Bytes
		switch r.Intn(4) {
		case 0:
			msg = c17.Mutate(r, msg)
		case 1:
			cs := c17.Corruptions(r, b, false)
			msg = cs[r.Intn(len(cs))]
		case 2:
			msg = msg[:r.Intn(len(msg)+1)]
		}
		// a sensible walk (the order a careful caller would use) with random deviations
		var ops []string
		ops = append(ops, "SAQ")
		for si, sec := range [][]g.RR{m.An, m.Ns, m.Ar} {
			hdr, skip := []string{"AH", "NH", "XH"}[si], []string{"SA", "SN", "SX"}[si]
			for _, rr := range sec {
				ops = append(ops, hdr)
				if t, ok := typed[rr.Type]; ok && r.Intn(3) != 0 {
					ops = append(ops, t)
				} else if r.Intn(4) == 0 {
					ops = append(ops, "UNK")
				} else {
					ops = append(ops, skip)
				}
			}
			ops = append(ops, hdr)
		}
		for k := r.Intn(4); k > 0; k-- {
			at := r.Intn(len(ops) + 1)
			ops = append(ops[:at], append([]string{opsAll[r.Intn(len(opsAll))]}, ops[at:]...)...)
		}
		add(c, "dnsparser", "dnsparser "+strings.Join(ops, ",")+" "+core.Hex(msg))
		// pure random sequences
		var rnd []string
		for k := 1 + r.Intn(12); k > 0; k-- {
			rnd = append(rnd, opsAll[r.Intn(len(opsAll))])
		}
		add(c, "dnsparser-rand", "dnsparser "+strings.Join(rnd, ",")+" "+core.Hex(msg))
	}
	// every record type alone in every section
	host := g.N("host.local")
	for sec := 0; sec < 3; sec++ {
		for k := 0; k < 40; k++ {
			rr := g.RandMDNSRecord(r, host, ipPool)
			m := g.Msg{Flags: 0x8400}
			switch sec {
			case 0:
				m.An = []g.RR{rr}
			case 1:
				m.Ns = []g.RR{rr}
			case 2:
				m.Ar = []g.RR{rr}
			}
			b := g.Build(m, g.Opts{})
			add(c, "mdns-section", "mdns "+core.Hex(b.Bytes))
			// RDLENGTH beyond the message, record body cut short
			for _, off := range b.Marks.RDLen {
				cm := clone(b.Bytes)
				cm[off] = 0xff
				add(c, "mdns-section-rdlen", "mdns "+core.Hex(cm))
				add(c, "mdns-section-cut", "mdns "+core.Hex(b.Bytes[:len(b.Bytes)-1]))
			}
		}
	}
	for i, n := 0, c.Scale(300, 12000); i < n; i++ {
		full("nbns", g.Build(g.RandNBNS(r), g.Opts{Compress: r.Intn(2) == 0}), i, false)
	}
	c17.NBNSBoundary(c)
	// a malformed message must leave the handler usable (every dns.process / mdns / nbns / ssdp case ends with
	// a probe of the same handler; here: malformed first, then well-formed messages on the same handler)
	for i, n := 0, c.Scale(200, 8000); i < n; i++ {
		qn := g.HostName(r, []string{"example.com", "local"}[r.Intn(2)])
		b := g.Build(c17.RandResponse(r, qn, ipPool), g.Opts{Compress: r.Intn(2) == 0})
		b2 := g.Build(c17.RandResponse(r, qn, ipPool), g.Opts{Compress: r.Intn(2) == 0})
		cs := c17.Corruptions(r, b, false)
		add(c, "dns-seq-bad-first", "dns.process "+core.Hex(cs[r.Intn(len(cs))])+" "+core.Hex(b2.Bytes))
		add(c, "dns-seq-bad-first", "dns.process "+core.Hex(b.Bytes[:len(b.Bytes)-1-r.Intn(len(b.Bytes)/2)])+" "+core.Hex(b2.Bytes))
		add(c, "dns-seq-bad-first", "dns.process "+core.Hex(c17.Mutate(r, b.Bytes))+" "+core.Hex(b2.Bytes))
	}
	// node name arrays around the boundaries n*16+2 and n*18
	for n := 0; n <= 6; n++ {
		arr := g.NodeArray(r, n)
		for _, l := range []int{0, 1, 2, n*16 + 1, n*16 + 2, n*16 + 3, n * 18, n*18 + 1, n*18 + 2} {
			b := append(clone(arr), make([]byte, 40)...)
			if l <= len(b) {
				add(c, "nbns.names", "nbns.names "+core.Hex(b[:l]))
			}
		}
	}
	for i, n := 0, c.Scale(300, 10000); i < n; i++ {
		arr := g.NodeArray(r, r.Intn(7))
		if r.Intn(2) == 0 {
			arr = c17.Mutate(r, arr)
		}
		add(c, "nbns.names-rand", "nbns.names "+core.Hex(arr))
		nm := g.NBNSEncode(g.NBName(string(g.RandLabel(r, r.Intn(17)))))
		switch r.Intn(4) {
		case 0:
			nm = c17.Mutate(r, nm)
		case 1:
			nm = append(nm[:len(nm)-1], append(g.RandLabel(r, r.Intn(6)), 0)...)
		case 2:
			raw := c.RandBytes(32)
			nm = append(append([]byte{32}, raw...), 0)
		}
		add(c, "nbns.decode", "nbns.decode "+core.Hex(nm))
		if i%10 == 0 {
			add(c, "nbns.decode-short", "nbns.decode "+core.Hex(nm[:r.Intn(len(nm))]))
		}
	}
	// SSDP
	ccs := []string{"max-age=1800", "max-age = 1800", "MAX-AGE=5", "Max-Age=120", "x=max-age", "max-age", "no-cache", "", "=", "==", "a=b=c", "a=b=c=d",
		"max-age=5=x=y", "x=y=max-age=7", "x=max-age=7=z", "max-age=", "=max-age", "max-age=-5", "max-age=+7", "max-age=0", "max-age=007", "max-age=99999999999",
		"max-age=123456789", "max-age=1234567890", "max-age=12a", "public, max-age=60", "max-age=60, public", "a=max-age=max-age=3", "max-age=max-age"}
	for _, v := range ccs {
		add(c, "ssdp.cc", "ssdp.cc "+core.Hex([]byte(v)))
	}
	for i, n := 0, c.Scale(300, 10000); i < n; i++ {
		parts := []string{"max-age", "MAX-AGE", "x", "1800", "5", "", "-3", "no-cache", "max-age ", "y1"}
		var v []string
		for k := r.Intn(6); k >= 0; k-- {
			v = append(v, parts[r.Intn(len(parts))])
		}
		add(c, "ssdp.cc-rand", "ssdp.cc "+core.Hex([]byte(strings.TrimSpace(strings.Join(v, "=")))))
	}
	raws := []string{
		"NOTIFY * HTTP/1.1\r\nHOST: 239.255.255.250:1900\r\nCACHE-CONTROL: max-age=1800\r\nLOCATION: http://192.168.0.1:80/d.xml\r\nNT: upnp:rootdevice\r\nNTS: ssdp:alive\r\nSERVER: Linux UPnP/1.0\r\nUSN: uuid:1\r\n\r\n",
		"NOTIFY * HTTP/1.1\r\nHOST: 239.255.255.250:1900\r\nNT: upnp:rootdevice\r\nNTS: ssdp:byebye\r\nUSN: uuid:1\r\n\r\n",
		"NOTIFY * HTTP/1.1\r\nNTS: ssdp:alive\r\nCACHE-CONTROL: x=max-age\r\n\r\n",
		"M-SEARCH * HTTP/1.1\r\nHOST: 239.255.255.250:1900\r\nMAN: \"ssdp:discover\"\r\nMX: 1\r\nST: ssdp:all\r\nUSER-AGENT: Chromium/74.0 Linux\r\n\r\n",
		"M-SEARCH * HTTP/1.1\r\nMAN: \"ssdp:discover\"\r\nUSER-AGENT: My App/4 (iPhone; iOS 12.4)\r\n\r\n",
		"HTTP/1.1 200 OK\r\nCACHE-CONTROL: max-age=100\r\nLOCATION: http://192.168.0.1/x.xml\r\nST: upnp:rootdevice\r\n\r\n",
		"HTTP/1.1 404 Not Found\r\n\r\n",
	}
	// more shapes for the dispatch model (ssdp.disp): cache-control spellings, NTS values, MAN, user agents, responses
	for _, s := range []string{
		"NOTIFY * HTTP/1.1\r\nNTS: ssdp:alive\r\nCACHE-CONTROL: MAX-AGE=60\r\nLOCATION: http://10.0.0.1/a\r\n\r\n",
		"NOTIFY * HTTP/1.1\r\nNTS: ssdp:alive\r\nCACHE-CONTROL: max-age=0\r\n\r\n",
		"NOTIFY * HTTP/1.1\r\nNTS: ssdp:alive\r\nCACHE-CONTROL: a=b=max-age=7\r\n\r\n",
		"NOTIFY * HTTP/1.1\r\nNTS: ssdp:alive\r\nCACHE-CONTROL: max-age=-5\r\n\r\n",
		"NOTIFY * HTTP/1.1\r\nNTS: ssdp:alive\r\nCACHE-CONTROL: no-cache\r\n\r\n",
		"NOTIFY * HTTP/1.1\r\nNTS: ssdp:alive\r\nCACHE-CONTROL: max-age=\r\n\r\n",
		"NOTIFY * HTTP/1.1\r\nnts: ssdp:alive\r\ncache-control: max-age=12\r\nlocation: x\r\n\r\n",
		"NOTIFY * HTTP/1.1\r\nNTS: ssdp:update\r\n\r\n",
		"NOTIFY * HTTP/1.1\r\n\r\n",
		"NOTIFY  HTTP/1.1\r\nNTS: ssdp:alive\r\n\r\n",
		"M-SEARCH * HTTP/1.1\r\nMAN: ssdp:discover\r\n\r\n",
		"M-SEARCH * HTTP/1.1\r\nMAN: \"ssdp:discover\"\r\nUSER-AGENT: Microsoft Edge/91.0.864.64 Windows\r\n\r\n",
		"M-SEARCH * HTTP/1.1\r\nMAN: \"ssdp:discover\"\r\nUSER-AGENT: iPad iOS Linux Windows\r\n\r\n",
		"M-SEARCH * HTTP/1.1\r\nMAN: \"ssdp:discover\"\r\n\r\n",
		"HTTP/1.1 200 OK\r\n\r\n",
		"HTTP/1.1 200 OK\r\nlocation: http://h/\r\nContent-Length: 3\r\n\r\nabc",
		"HTTP/1.0 301 Moved\r\nLOCATION: http://h/\r\n\r\n",
		"HTTP/1.1 200\r\nLOCATION: a\r\n\r\n",
		"GET / HTTP/1.1\r\nHost: a\r\n\r\n",
	} {
		b := []byte(s)
		add(c, "ssdp.disp", "ssdp.disp "+core.Hex(b))
		for k, n := 0, c.Scale(12, 600); k < n; k++ {
			add(c, "ssdp.disp-mutated", "ssdp.disp "+core.Hex(c17.Mutate(r, b)))
		}
	}
	for _, s := range raws {
		b := []byte(s)
		add(c, "ssdp", "ssdp "+core.Hex(b))
		add(c, "ssdp.disp", "ssdp.disp "+core.Hex(b))
		for cut := 0; cut < len(b); cut += 1 + r.Intn(c.Scale(4, 1)) {
			add(c, "ssdp-trunc", "ssdp "+core.Hex(b[:cut]))
			add(c, "ssdp.disp-trunc", "ssdp.disp "+core.Hex(b[:cut]))
		}
		for k, n := 0, c.Scale(60, 3000); k < n; k++ {
			m := c17.Mutate(r, b)
			add(c, "ssdp-mutated", "ssdp "+core.Hex(m))
			add(c, "ssdp.disp-mutated", "ssdp.disp "+core.Hex(m))
		}
	}
	// parseTXT
	txts := [][]string{{}, {"model=X"}, {"a=b", "model=X"}, {"a=b", "c=d", "model=MacBook"}, {"a", "b", "c"}, {"ty=P", "x", "y"}, {"a=b", "c", "md=Chromecast=1"},
		{"=", "=", "="}, {"model", "ty", "DvTy=iPad", "md=z"}, {"", "", ""}, {"model=", "a", "b"}}
	for _, t := range txts {
		add(c, "mdns.txt", "mdns.txt "+hexList(t...))
	}
	// malformed streams straight into the decoders
	for i, n := 0, c.Scale(400, 30000); i < n; i++ {
		b := c.RandBytes(r.Intn(60))
		if len(b) >= 12 && r.Intn(2) == 0 {
			b[2] |= 0x80
			b[4], b[5], b[6], b[7], b[8], b[9], b[10], b[11] = 0, byte(r.Intn(2)), 0, byte(r.Intn(3)), 0, byte(r.Intn(2)), 0, byte(r.Intn(2))
		}
		h := core.Hex(b)
		add(c, "noise", "mdns "+h)
		add(c, "noise", "nbns "+h)
		add(c, "noise", "dns.process "+h)
		add(c, "noise", fmt.Sprintf("dns.name %s %d", h, r.Intn(len(b)+1)))
		add(c, "noise", fmt.Sprintf("dns.question %s %d", h, 12))
		add(c, "noise", fmt.Sprintf("dns.rrs %d %d %s", r.Intn(5), 12, h))
		add(c, "noise", fmt.Sprintf("dns.answers %d %s", 12, h))
		add(c, "noise", fmt.Sprintf("dns.answers0 %d %s", 12, h))
		add(c, "noise", "nbns.names "+h)
		add(c, "noise", "ssdp "+h)
	}
	genBig(c)
}
