package c08dns

// Frame-sized and larger messages for every naming protocol: the other generator families of this package stay below
// ~500 bytes (class_max_input_bytes in the evidence), yet the handlers log what they decode into a 2048-byte line and
// walk whatever the datagram holds.  Many records, names of the maximum length, long TXT strings, long SSDP header
// values, many headers.

import (
	"strings"

	"verif/harness/c17"
	"verif/harness/core"
	g "verif/harness/dnsgen"
)

func longName(c *core.Ctx, labels int, suffix string) g.Name {
	var n g.Name
	for i := 0; i < labels; i++ {
		n = append(n, g.RandLabel(c.Rnd, 63))
	}
	return append(n, g.N(suffix)...)
}

func genBig(c *core.Ctx) {
	r := c.Rnd
	ipPool := make([][]byte, 6)
	for i := range ipPool {
		ipPool[i] = c.RandBytes(16)
	}
	// the DNS / mDNS / NBNS lines travel through Session.Parse as one UDP datagram in an Ethernet frame: fill up to sizes
	// at and just below the 1472-byte limit (records are added while the built message still fits the target)
	targets := []int{600, 1000, 1300, 1440, 1472}
	fill := func(m *g.Msg, target int, compress bool, next func(i int) (sec int, rr g.RR)) g.Built {
		best := g.Build(*m, g.Opts{Compress: compress})
		for i := 0; i < 400; i++ {
			sec, rr := next(i)
			try := *m
			switch sec {
			case 0:
				try.An = append(append([]g.RR{}, m.An...), rr)
			case 1:
				try.Ns = append(append([]g.RR{}, m.Ns...), rr)
			default:
				try.Ar = append(append([]g.RR{}, m.Ar...), rr)
			}
			b := g.Build(try, g.Opts{Compress: compress})
			if len(b.Bytes) > target {
				break
			}
			*m, best = try, b
		}
		return best
	}
	for _, target := range targets {
		for rep := 0; rep < c.Scale(2, 40); rep++ {
			// mDNS responses: records spread over the three sections, long owner names and long TXT strings
			host := g.HostName(r, "local")
			if rep%2 == 1 {
				host = longName(c, 3, "local") // 3*64 + 7 = 199 bytes: near the 255 limit
			}
			m := g.Msg{ID: 0, Flags: 0x8400}
			b := fill(&m, target, rep%2 == 0, func(i int) (int, g.RR) {
				rr := g.RandMDNSRecord(r, host, ipPool)
				if i%7 == 3 {
					rr = g.RR{Name: host, Type: g.TypeTXT, Class: 1, TTL: 120, Raw: g.TxtData(strings.Repeat("m", 60+r.Intn(140)), "model="+strings.Repeat("X", 40+r.Intn(200)))}
				}
				return i % 3, rr
			})
			add(c, "mdns-big", "mdns "+core.Hex(b.Bytes))
			add(c, "mdns-big", "mdns "+core.Hex(c17.Mutate(r, b.Bytes)))
			add(c, "mdns-big", "mdns "+core.Hex(b.Bytes[:len(b.Bytes)-1-r.Intn(len(b.Bytes)/3)]))
			// an mDNS query with many long questions
			q := g.Msg{ID: 0, Flags: 0}
			for {
				try := q
				try.Q = append(append([]g.Question{}, q.Q...), g.Question{Name: longName(c, 1+r.Intn(3), "local"), Type: 255, Class: 1})
				if len(g.Build(try, g.Opts{Compress: true}).Bytes) > target {
					break
				}
				q = try
			}
			add(c, "mdns-big", "mdns "+core.Hex(g.Build(q, g.Opts{Compress: true}).Bytes))
			// unicast DNS responses: address / CNAME / PTR records for one long name
			qn := longName(c, 1+r.Intn(3), "example.com")
			d := c17.RandResponse(r, qn, ipPool)
			db := fill(&d, target, rep%2 == 0, func(i int) (int, g.RR) {
				switch i % 4 {
				case 0:
					return 0, g.RR{Name: qn, Type: g.TypeA, Class: 1, TTL: 60, Raw: c.RandBytes(4)}
				case 1:
					return 0, g.RR{Name: qn, Type: g.TypeAAAA, Class: 1, TTL: 60, Raw: c.RandBytes(16)}
				case 2:
					return 0, g.RR{Name: qn, Type: g.TypeCNAME, Class: 1, TTL: 60, Target: longName(c, 1+r.Intn(3), "cdn.example.net"), IsName: true}
				}
				return 2, g.RR{Name: g.N("9.0.168.192.in-addr.arpa"), Type: g.TypePTR, Class: 1, TTL: 60, Target: longName(c, 2, "example.org"), IsName: true}
			})
			add(c, "dns-big", "dns.process "+core.Hex(db.Bytes))
			add(c, "dns-big", "dns.process "+core.Hex(c17.Mutate(r, db.Bytes)))
			add(c, "dns-big", "dns.process "+core.Hex(db.Bytes[:len(db.Bytes)-1-r.Intn(len(db.Bytes)/3)])+" "+core.Hex(db.Bytes))
			// NBNS with many records
			nb := g.RandNBNS(r)
			nbb := fill(&nb, target, rep%2 == 0, func(i int) (int, g.RR) {
				more := g.RandNBNS(r)
				if len(more.An) > 0 {
					return 0, more.An[0]
				}
				if len(more.Ar) > 0 {
					return 2, more.Ar[0]
				}
				return 0, g.RR{Name: g.N("x"), Type: 0x21, Class: 1, TTL: 0, Raw: g.NodeArray(r, 1+r.Intn(4))}
			})
			add(c, "nbns-big", "nbns "+core.Hex(nbb.Bytes))
			add(c, "nbns-big", "nbns "+core.Hex(c17.Mutate(r, nbb.Bytes)))
		}
	}
	// SSDP: header values and header counts up to and beyond a frame
	for _, k := range []int{200, 600, 700, 1000, 1400, 2100, 4000} {
		long := strings.Repeat("a", k)
		many := ""
		for i := 0; i < k/12; i++ {
			many += "X-H" + strings.Repeat("z", i%5) + ": v\r\n"
		}
		for _, s := range []string{
			"NOTIFY * HTTP/1.1\r\nHOST: 239.255.255.250:1900\r\nCACHE-CONTROL: max-age=1800\r\nLOCATION: http://192.168.0.1/" + long + "\r\nNT: upnp:rootdevice\r\nNTS: ssdp:alive\r\nSERVER: " + long + "\r\nUSN: uuid:" + long + "\r\n\r\n",
			"NOTIFY * HTTP/1.1\r\nNTS: ssdp:alive\r\nCACHE-CONTROL: " + strings.Repeat("a=b=", k/4) + "max-age=7\r\n\r\n",
			"NOTIFY * HTTP/1.1\r\n" + many + "NTS: ssdp:alive\r\nCACHE-CONTROL: max-age=60\r\nLOCATION: http://h/\r\n\r\n",
			"M-SEARCH * HTTP/1.1\r\nMAN: \"ssdp:discover\"\r\nUSER-AGENT: " + long + " iPhone Windows\r\nST: " + long + "\r\n\r\n",
			"HTTP/1.1 200 OK\r\nCACHE-CONTROL: max-age=100\r\nLOCATION: http://192.168.0.1/" + long + "\r\nST: upnp:rootdevice\r\nSERVER: " + long + "\r\n\r\n",
			"HTTP/1.1 200 OK\r\nLOCATION: http://h/\r\nContent-Length: " + "3" + "\r\n\r\n" + long,
		} {
			b := []byte(s)
			add(c, "ssdp-big", "ssdp "+core.Hex(b))
			add(c, "ssdp-big", "ssdp.disp "+core.Hex(b))
			add(c, "ssdp-big", "ssdp "+core.Hex(c17.Mutate(r, b)))
			add(c, "ssdp-big", "ssdp "+core.Hex(b[:len(b)-1-r.Intn(len(b)/2)]))
		}
	}
}
