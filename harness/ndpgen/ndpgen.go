// Package ndpgen: independent builder of NDP options / router advertisements, canonical rendering of
// packet.NewOptions, and an independent (RFC 4861 / 4191 / 8106) reference decoder used as the Go-side
// oracle of C14.  Nothing here calls the library's own encoders or decoders.
package ndpgen

import (
	"encoding/binary"
	"encoding/hex"
	"fmt"
	"io"
	"math/rand"
	"os"
	"strings"
	"sync"
	"time"

	"github.com/irai/packet"
	"github.com/irai/packet/fastlog"
)

var (
	quietMu sync.Mutex
	devnull *os.File
)

// Quietly runs f with the library's logger discarded and os.Stdout pointing at /dev/null (the
// handlers print with fmt.Printf on malformed input).
func Quietly(f func()) {
	quietMu.Lock()
	defer quietMu.Unlock()
	if devnull == nil {
		devnull, _ = os.OpenFile(os.DevNull, os.O_WRONLY, 0)
		fastlog.DefaultIOWriter = io.Discard
	}
	old := os.Stdout
	os.Stdout = devnull
	defer func() { os.Stdout = old }()
	f()
}

type Opt struct {
	Type byte
	Len  int    // value of the length field; -1 = derive from the body
	Body []byte // everything after type and length
}

func (o Opt) Bytes() []byte {
	l := o.Len
	if l < 0 {
		l = (len(o.Body) + 2 + 7) / 8
	}
	b := make([]byte, 2, 2+len(o.Body))
	b[0], b[1] = o.Type, byte(l)
	b = append(b, o.Body...)
	if o.Len < 0 {
		for len(b)%8 != 0 {
			b = append(b, 0)
		}
	}
	return b
}

func Prefix(plen byte, onLink, auto bool, valid, pref uint32, prefix [16]byte) Opt {
	body := make([]byte, 30)
	body[0] = plen
	if onLink {
		body[1] |= 0x80
	}
	if auto {
		body[1] |= 0x40
	}
	binary.BigEndian.PutUint32(body[2:6], valid)
	binary.BigEndian.PutUint32(body[6:10], pref)
	copy(body[14:30], prefix[:])
	return Opt{Type: 3, Len: -1, Body: body}
}

func MTU(v uint32) Opt {
	body := make([]byte, 6)
	binary.BigEndian.PutUint32(body[2:6], v)
	return Opt{Type: 5, Len: -1, Body: body}
}

func LLA(t byte, mac []byte) Opt { return Opt{Type: t, Len: -1, Body: append([]byte{}, mac...)} }

func RDNSS(lifetime uint32, servers ...[16]byte) Opt {
	body := make([]byte, 6)
	binary.BigEndian.PutUint32(body[2:6], lifetime)
	for _, s := range servers {
		body = append(body, s[:]...)
	}
	return Opt{Type: 25, Len: -1, Body: body}
}

// DNSSL: names are lists of labels
func DNSSL(lifetime uint32, names ...[]string) Opt {
	body := make([]byte, 6)
	binary.BigEndian.PutUint32(body[2:6], lifetime)
	for _, n := range names {
		for _, l := range n {
			body = append(body, byte(len(l)))
			body = append(body, l...)
		}
		body = append(body, 0)
	}
	return Opt{Type: 31, Len: -1, Body: body}
}

func RouteInfo(plen, pref byte, lifetime uint32, prefix []byte) Opt {
	body := make([]byte, 6)
	body[0] = plen
	body[1] = pref << 3
	binary.BigEndian.PutUint32(body[2:6], lifetime)
	body = append(body, prefix...)
	return Opt{Type: 24, Len: -1, Body: body}
}

func Unknown(t byte, units int, r *rand.Rand) Opt {
	body := make([]byte, units*8-2)
	r.Read(body)
	return Opt{Type: t, Len: units, Body: body}
}

func Join(opts ...Opt) []byte {
	var b []byte
	for _, o := range opts {
		b = append(b, o.Bytes()...)
	}
	return b
}

// RA builds the ICMPv6 router advertisement message (checksum left zero).
func RA(hop, flags byte, lifetime uint16, reach, retrans uint32, opts []byte) []byte {
	b := make([]byte, 16, 16+len(opts))
	b[0] = 134
	b[4], b[5] = hop, flags
	binary.BigEndian.PutUint16(b[6:8], lifetime)
	binary.BigEndian.PutUint32(b[8:12], reach)
	binary.BigEndian.PutUint32(b[12:16], retrans)
	return append(b, opts...)
}

// ---------------------------------------------------------------------------------------------
// canonical rendering (must match Drv/Ndp.lean optionsStr)

func hx(b []byte) string {
	if len(b) == 0 {
		return "-"
	}
	return hex.EncodeToString(b)
}

func b01(v bool) string {
	if v {
		return "1"
	}
	return "0"
}

func secs(d time.Duration) uint64 { return uint64(d / time.Second) }

func Canon(o packet.NewOptions) string {
	pf := "-"
	if len(o.Prefixes) > 0 {
		ps := []string{}
		for _, p := range o.Prefixes {
			ps = append(ps, fmt.Sprintf("%d/%s%s/%d/%d/%s", p.PrefixLength, b01(p.OnLink), b01(p.AutonomousAddressConfiguration),
				secs(p.ValidLifetime), secs(p.PreferredLifetime), hx(p.Prefix)))
		}
		pf = strings.Join(ps, ";")
	}
	srv := "-"
	if len(o.RDNSS.Servers) > 0 {
		ss := []string{}
		for _, s := range o.RDNSS.Servers {
			ss = append(ss, hx(s))
		}
		srv = strings.Join(ss, ",")
	}
	dn := "-"
	if len(o.DNSSearchList.DomainNames) > 0 {
		ss := []string{}
		for _, s := range o.DNSSearchList.DomainNames {
			ss = append(ss, hx([]byte(s)))
		}
		dn = strings.Join(ss, ",")
	}
	return fmt.Sprintf("mtu=%d pfx=%s first=%s rdnss=%d:%s slla=%d:%s tlla=%d:%s dnssl=%d:%s ri=%d/%d/%d/%s",
		uint32(o.MTU), pf, hx(o.FirstPrefix), secs(o.RDNSS.Lifetime), srv,
		int(o.SourceLLA.Direction), hx(o.SourceLLA.MAC), int(o.TargetLLA.Direction), hx(o.TargetLLA.MAC),
		secs(o.DNSSearchList.Lifetime), dn,
		o.RouteInformation.PrefixLength, int(o.RouteInformation.Preference), secs(o.RouteInformation.RouteLifetime), hx(o.RouteInformation.Prefix))
}

// SameModuloPuny compares two canonical option strings; when the model left the DNSSL names
// unspecified ("dnssl=puny") that field is not compared.
func SameModuloPuny(impl, model string) bool {
	if impl == model {
		return true
	}
	if !strings.Contains(model, "dnssl=puny") {
		return false
	}
	strip := func(s string) string {
		f := strings.Fields(s)
		for i := range f {
			if strings.HasPrefix(f[i], "dnssl=") {
				f[i] = "dnssl=?"
			}
		}
		return strings.Join(f, " ")
	}
	return strip(impl) == strip(model)
}

// ---------------------------------------------------------------------------------------------
// generators

func RandIP6(r *rand.Rand) (a [16]byte) {
	r.Read(a[:])
	switch r.Intn(4) {
	case 0:
		a[0], a[1] = 0x20, 0x01
	case 1:
		a[0], a[1] = 0xfe, 0x80
	}
	return
}

var labelAlphabet = "abcdefghijklmnopqrstuvwxyz0123456789-_"

func RandLabel(r *rand.Rand) string {
	n := 1 + r.Intn(10)
	b := make([]byte, n)
	for i := range b {
		b[i] = labelAlphabet[r.Intn(len(labelAlphabet))]
	}
	return string(b)
}

// RandOption returns one mostly well-formed option.
func RandOption(r *rand.Rand) Opt {
	switch r.Intn(10) {
	case 0:
		plen := byte(r.Intn(129))
		if r.Intn(8) == 0 {
			plen = byte(r.Intn(256))
		}
		return Prefix(plen, r.Intn(2) == 0, r.Intn(2) == 0, r.Uint32(), r.Uint32(), RandIP6(r))
	case 1:
		return MTU([]uint32{1500, 1280, 9000, r.Uint32()}[r.Intn(4)])
	case 2:
		mac := make([]byte, 6)
		r.Read(mac)
		return LLA(1, mac)
	case 3:
		mac := make([]byte, 6)
		r.Read(mac)
		return LLA(2, mac)
	case 4:
		n := 1 + r.Intn(3)
		srv := make([][16]byte, n)
		for i := range srv {
			srv[i] = RandIP6(r)
		}
		return RDNSS(r.Uint32(), srv...)
	case 5:
		n := 1 + r.Intn(3)
		names := make([][]string, n)
		for i := range names {
			k := 1 + r.Intn(3)
			for j := 0; j < k; j++ {
				names[i] = append(names[i], RandLabel(r))
			}
		}
		return DNSSL(r.Uint32(), names...)
	case 6:
		plen := byte(r.Intn(129))
		n := 16
		if plen == 0 && r.Intn(2) == 0 {
			n = 0
		} else if plen <= 64 && r.Intn(2) == 0 {
			n = 8
		}
		p := make([]byte, n)
		r.Read(p)
		return RouteInfo(plen, byte(r.Intn(4)), r.Uint32(), p)
	default:
		t := byte(r.Intn(256))
		return Unknown(t, 1+r.Intn(4), r)
	}
}

func RandOptions(r *rand.Rand, max int) []byte {
	n := r.Intn(max + 1)
	var b []byte
	for i := 0; i < n; i++ {
		b = append(b, RandOption(r).Bytes()...)
	}
	return b
}

// Mutate applies one corruption: length field, type, truncation, byte flip, insertion of a zero-length option.
func Mutate(r *rand.Rand, b []byte) []byte {
	b = append([]byte{}, b...)
	if len(b) == 0 {
		return []byte{byte(r.Intn(256)), byte(r.Intn(3))}[:1+r.Intn(2)]
	}
	switch r.Intn(6) {
	case 0: // a length field (walk the TLVs to find one)
		offs := []int{}
		for i := 0; i+1 < len(b); {
			offs = append(offs, i)
			l := int(b[i+1]) * 8
			if l == 0 {
				break
			}
			i += l
		}
		if len(offs) == 0 {
			b[0] ^= 0xff
			break
		}
		o := offs[r.Intn(len(offs))]
		b[o+1] = []byte{0, 1, 2, 3, 4, 5, 31, 32, 33, 255, byte(r.Intn(256))}[r.Intn(11)]
	case 1:
		b = b[:r.Intn(len(b))]
	case 2:
		b[r.Intn(len(b))] ^= byte(1 << r.Intn(8))
	case 3:
		b[r.Intn(len(b))] = byte(r.Intn(256))
	case 4:
		z := []byte{[]byte{1, 2, 3, 5, 24, 25, 31, 99}[r.Intn(8)], 0}
		p := (r.Intn(len(b)/8+1) * 8)
		if p > len(b) {
			p = len(b)
		}
		b = append(b[:p:p], append(z, b[p:]...)...)
	case 5:
		b = append(b, byte(r.Intn(256)))
	}
	return b
}

// ---------------------------------------------------------------------------------------------
// independent reference decoder (same reading policy as lean/PacketVerif/Spec/NdpWire.lean):
// frame into (type, len, body); fixed layouts read by offset arithmetic on the body only.

type RefPrefix struct {
	Plen         int
	OnLink, Auto bool
	Valid, Pref  uint32
	Prefix       []byte
}

type RefOptions struct {
	MTU          uint32
	Prefixes     []RefPrefix
	RdnssLT      uint32
	Rdnss        [][]byte
	SLLA, TLLA   []byte
	DnsslLT      uint32
	Dnssl        []string
	HasRoute     bool
	RPlen, RPref int
	RLT          uint32
	RPrefix      []byte
	// Unclear: the option area contains a DNSSL option outside the region where the reading is
	// unambiguous (Punycode marker, or non-zero bytes after the zero padding began)
	Unclear bool
}

func u32(b []byte) uint32 {
	return uint32(b[0])<<24 | uint32(b[1])<<16 | uint32(b[2])<<8 | uint32(b[3])
}

func maskBits(a []byte, n int) []byte {
	if n > 128 {
		return nil
	}
	out := make([]byte, len(a))
	for i := range a {
		k := n - 8*i
		switch {
		case k >= 8:
			out[i] = a[i]
		case k <= 0:
			out[i] = 0
		default:
			d := 1 << (8 - k)
			out[i] = byte(int(a[i]) / d * d)
		}
	}
	return out
}

// RefDecode returns (options, true) or (_, false) when the reference reader rejects the option area.
func RefDecode(b []byte) (RefOptions, bool) {
	var o RefOptions
	for len(b) > 0 {
		if len(b) < 2 || b[1] == 0 || int(b[1])*8 > len(b) {
			return o, false
		}
		t, l := b[0], int(b[1])
		body := b[2 : l*8]
		b = b[l*8:]
		switch t {
		case 1, 2:
			if l != 1 {
				return o, false
			}
			if t == 1 {
				o.SLLA = append([]byte{}, body...)
			} else {
				o.TLLA = append([]byte{}, body...)
			}
		case 5:
			if l == 1 {
				o.MTU = u32(body[2:6])
			}
		case 3:
			if l != 4 {
				return o, false
			}
			o.Prefixes = append(o.Prefixes, RefPrefix{Plen: int(body[0]), OnLink: body[1] >= 128, Auto: body[1]/64%2 == 1,
				Valid: u32(body[2:6]), Pref: u32(body[6:10]), Prefix: maskBits(body[14:30], int(body[0]))})
		case 24:
			pl, pref := int(body[0]), int(body[1])/8%4
			ok := (pl == 0 && l <= 3) || (pl >= 1 && pl <= 64 && (l == 2 || l == 3)) || (pl >= 65 && pl <= 128 && l == 3)
			if ok && pref != 2 {
				o.HasRoute, o.RPlen, o.RPref, o.RLT = true, pl, pref, u32(body[2:6])
				o.RPrefix = append([]byte{}, body[6:6+pl/8]...)
			}
		case 25:
			addrs := body[6:]
			if len(addrs) >= 16 {
				o.RdnssLT = u32(body[2:6])
				for len(addrs) >= 16 {
					o.Rdnss = append(o.Rdnss, append([]byte{}, addrs[:16]...))
					addrs = addrs[16:]
				}
			}
		case 31:
			names, unclear, ok := refNames(body[6:])
			if unclear {
				o.Unclear = true
			}
			if ok && len(names) > 0 {
				o.DnsslLT, o.Dnssl = u32(body[2:6]), names
			}
		}
	}
	return o, true
}

func allZero(b []byte) bool {
	for _, c := range b {
		if c != 0 {
			return false
		}
	}
	return true
}

// refNames: sequence of names (labels up to a zero byte) up to the first empty name or the end of the area.
func refNames(b []byte) (names []string, unclear, ok bool) {
	if strings.Contains(string(b), "xn--") {
		unclear = true
	}
	for !allZero(b) {
		var labels []string
		for {
			if len(b) == 0 {
				return nil, unclear, false
			}
			n := int(b[0])
			b = b[1:]
			if n == 0 {
				break
			}
			if len(b) < n {
				return nil, unclear, false
			}
			lab := b[:n]
			for _, c := range lab {
				if c >= 0x80 || c == '.' || c == ' ' {
					return nil, unclear, false
				}
			}
			labels = append(labels, string(lab))
			b = b[n:]
		}
		if len(labels) == 0 {
			// an empty name where a name would start, followed by non-zero bytes: RFC 8106 5.2 obliges the sender to pad
			// with zeros and is silent about the receiver. The reference is the receiver that stops at the first empty
			// name and does not look at what follows it (Spec/DnsslLenient.lean; Props/C14Dnssl dnssl_exact_lenient
			// proves that the library's walk is that receiver) - formerly marked "unclear" and not compared
			return names, unclear, true
		}
		names = append(names, strings.Join(labels, "."))
	}
	return names, unclear, true
}

// RefCanon renders the reference reading in the canonical form of Canon.
func RefCanon(o RefOptions) string {
	pf := "-"
	if len(o.Prefixes) > 0 {
		ps := []string{}
		for _, p := range o.Prefixes {
			ps = append(ps, fmt.Sprintf("%d/%s%s/%d/%d/%s", p.Plen, b01(p.OnLink), b01(p.Auto), p.Valid, p.Pref, hx(p.Prefix)))
		}
		pf = strings.Join(ps, ";")
	}
	first := "-"
	if len(o.Prefixes) > 0 {
		first = hx(o.Prefixes[0].Prefix)
	}
	srv := "-"
	if len(o.Rdnss) > 0 {
		ss := []string{}
		for _, s := range o.Rdnss {
			ss = append(ss, hx(s))
		}
		srv = strings.Join(ss, ",")
	}
	dn := "-"
	if len(o.Dnssl) > 0 {
		ss := []string{}
		for _, s := range o.Dnssl {
			ss = append(ss, hx([]byte(s)))
		}
		dn = strings.Join(ss, ",")
	}
	sl, tl := "0:-", "0:-"
	if o.SLLA != nil {
		sl = "1:" + hx(o.SLLA)
	}
	if o.TLLA != nil {
		tl = "2:" + hx(o.TLLA)
	}
	ri := "0/0/0/-"
	if o.HasRoute {
		ri = fmt.Sprintf("%d/%d/%d/%s", o.RPlen, o.RPref, o.RLT, hx(o.RPrefix))
	}
	return fmt.Sprintf("mtu=%d pfx=%s first=%s rdnss=%d:%s slla=%s tlla=%s dnssl=%d:%s ri=%s",
		o.MTU, pf, first, o.RdnssLT, srv, sl, tl, o.DnsslLT, dn, ri)
}

// Boundary returns option areas that cross every known option type with every size 1..5 units and, in the byte that
// the parsers use as a second length (prefix length of types 3 and 24, first label length of type 31, anything else:
// first body byte), the values around every threshold the decoders test.  Each option is produced twice: alone (it ends
// the area: a read past its declared size leaves the slice) and followed by a well-formed MTU option (a read past its
// size stays inside the slice and silently takes foreign bytes).  The size field and the inner length deliberately
// disagree in most combinations - that is the point (wave-7 seed C01-w7s2: route information with 2 units and a prefix
// length of 72..128 was never produced by the consistent generators).
func Boundary(r *rand.Rand) [][]byte {
	inner := []byte{0, 1, 7, 8, 9, 15, 16, 17, 31, 32, 33, 48, 56, 63, 64, 65, 71, 72, 73, 80, 96, 104, 120, 127, 128, 129, 130, 192, 254, 255}
	var out [][]byte
	tail := MTU(1500).Bytes()
	for _, t := range []byte{1, 2, 3, 5, 24, 25, 31, 99} {
		for units := 1; units <= 5; units++ {
			for _, v := range inner {
				b := make([]byte, units*8)
				r.Read(b)
				b[0], b[1] = t, byte(units)
				pos := 2
				if t == 31 || t == 25 {
					pos = 8 // DNSSL: first label length; RDNSS: first server byte
				}
				if pos < len(b) {
					b[pos] = v
				}
				if t == 24 {
					b[3] &^= 0x18 // keep the route preference legal half of the time, else the option is ignored
					if r.Intn(2) == 0 {
						b[3] |= byte(r.Intn(4)) << 3
					}
				}
				out = append(out, b, append(append([]byte{}, b...), tail...))
			}
		}
	}
	return out
}
