// Package frames is an independent frame builder (it shares no code with the library's encoders):
// Ethernet II / 802.1Q / 802.1ad / 802.3, IPv4, IPv6, UDP, TCP, ICMP, ARP, with every length and
// count field overridable so that boundary, truncated and inconsistent frames can be produced.
package frames

import (
	"encoding/binary"
	"math/rand"
)

type MAC = []byte

func be16(v int) []byte { return []byte{byte(v >> 8), byte(v)} }

// Ether builds dst|src|[tags]|type|payload. vlan: 0 none, 1 = 802.1Q, 2 = 802.1ad (double tag).
func Ether(dst, src MAC, etherType int, vlan int, payload []byte) []byte {
	b := append(append([]byte{}, dst...), src...)
	switch vlan {
	case 1:
		b = append(b, 0x81, 0x00, 0x00, 0x07)
	case 2:
		b = append(b, 0x88, 0xa8, 0x00, 0x07, 0x81, 0x00, 0x00, 0x08)
	}
	b = append(b, be16(etherType)...)
	return append(b, payload...)
}

type IP4Opts struct {
	IHL      int // in 32-bit words; 0 = 5
	TotalLen int // -1 = computed
	Proto    int
	Src, Dst []byte
	Frag     int
	TTL      int
	Options  []byte
}

func IP4(o IP4Opts, payload []byte) []byte {
	ihl := o.IHL
	if ihl == 0 {
		ihl = 5 + (len(o.Options)+3)/4
	}
	h := make([]byte, 20)
	h[0] = 0x40 | byte(ihl&0x0f)
	tl := o.TotalLen
	if tl < 0 {
		tl = 20 + len(o.Options) + len(payload)
	}
	binary.BigEndian.PutUint16(h[2:], uint16(tl))
	binary.BigEndian.PutUint16(h[4:], 0x1234)
	binary.BigEndian.PutUint16(h[6:], uint16(o.Frag))
	h[8] = byte(o.TTL)
	h[9] = byte(o.Proto)
	copy(h[12:16], o.Src)
	copy(h[16:20], o.Dst)
	h = append(h, o.Options...)
	for len(h)%4 != 0 {
		h = append(h, 0)
	}
	return append(h, payload...)
}

type IP6Opts struct {
	PayloadLen int // -1 = computed
	Next       int
	Hop        int
	Src, Dst   []byte
}

func IP6(o IP6Opts, payload []byte) []byte {
	h := make([]byte, 40)
	h[0] = 0x60
	pl := o.PayloadLen
	if pl < 0 {
		pl = len(payload)
	}
	binary.BigEndian.PutUint16(h[4:], uint16(pl))
	h[6] = byte(o.Next)
	h[7] = byte(o.Hop)
	copy(h[8:24], o.Src)
	copy(h[24:40], o.Dst)
	return append(h, payload...)
}

func UDP(sp, dp int, length int, payload []byte) []byte {
	if length < 0 {
		length = 8 + len(payload)
	}
	h := append(append(append(be16(sp), be16(dp)...), be16(length)...), 0, 0)
	return append(h, payload...)
}

// TCP builds a header with data offset doff (32-bit words; 0 = 5) followed by payload; rsv = low nibble of byte 12.
func TCP(sp, dp int, doff int, flags byte, payload []byte, rsv ...int) []byte {
	if doff == 0 {
		doff = 5
	}
	h := make([]byte, 20)
	copy(h[0:], be16(sp))
	copy(h[2:], be16(dp))
	binary.BigEndian.PutUint32(h[4:], 0x01020304)
	binary.BigEndian.PutUint32(h[8:], 0x05060708)
	h[12] = byte(doff << 4)
	if len(rsv) > 0 {
		h[12] |= byte(rsv[0] & 0x0f) // reserved bits / NS
	}
	h[13] = flags
	binary.BigEndian.PutUint16(h[14:], 0xffff)
	for len(h) < doff*4 && len(h) < 60 {
		h = append(h, 1)
	}
	return append(h, payload...)
}

func ICMP(t, code int, id, seq int, data []byte) []byte {
	h := []byte{byte(t), byte(code), 0, 0}
	h = append(h, be16(id)...)
	h = append(h, be16(seq)...)
	return append(h, data...)
}

func ARP(op int, hlen, plen int, smac MAC, sip []byte, tmac MAC, tip []byte) []byte {
	b := []byte{0, 1, 8, 0, byte(hlen), byte(plen)}
	b = append(b, be16(op)...)
	b = append(b, smac...)
	b = append(b, sip...)
	b = append(b, tmac...)
	return append(b, tip...)
}

// Port classes of the documented UDP table plus neutral ports.
var Ports = []int{443, 67, 68, 546, 547, 53, 5353, 5355, 123, 1900, 3702, 137, 138, 32412, 32414, 10001, 0, 1, 80, 5000, 65535, 52, 54, 442, 444}

var EtherTypes = []int{0x0800, 0x86dd, 0x0806, 0x8808, 0x8899, 0x88cc, 0x890d, 0x893a, 0x6970, 0x880a, 0x8100, 0x88a8, 0x0000, 0x05dc, 0x05ff, 0x0600, 0x0801, 0x9000, 0xffff}

var Protos = []int{17, 6, 1, 58, 2, 0, 41, 47, 50, 89, 255}

func Pick(r *rand.Rand, xs []int) int { return xs[r.Intn(len(xs))] }

// ---- application payload builders (independent of the library) ----

// DNSName encodes a dotted name without compression.
func DNSName(name string) []byte {
	var b []byte
	start := 0
	for i := 0; i <= len(name); i++ {
		if i == len(name) || name[i] == '.' {
			if i > start {
				b = append(b, byte(i-start))
				b = append(b, name[start:i]...)
			}
			start = i + 1
		}
	}
	return append(b, 0)
}

type RR struct {
	Name  string
	Type  int
	Class int
	TTL   int
	Data  []byte
}

// DNSMsg builds a DNS message (uncompressed names; pointer 0xc00c used for answer names when ptr is true).
func DNSMsg(id int, flags int, qname string, qtype int, answers []RR, ptr bool) []byte {
	b := append(be16(id), be16(flags)...)
	qd := 0
	if qname != "" {
		qd = 1
	}
	b = append(b, be16(qd)...)
	b = append(b, be16(len(answers))...)
	b = append(b, 0, 0, 0, 0)
	if qname != "" {
		b = append(b, DNSName(qname)...)
		b = append(b, be16(qtype)...)
		b = append(b, 0, 1)
	}
	for _, a := range answers {
		if ptr && a.Name == qname && qname != "" {
			b = append(b, 0xc0, 0x0c)
		} else {
			b = append(b, DNSName(a.Name)...)
		}
		b = append(b, be16(a.Type)...)
		cl := a.Class
		if cl == 0 {
			cl = 1
		}
		b = append(b, be16(cl)...)
		b = append(b, byte(a.TTL>>24), byte(a.TTL>>16), byte(a.TTL>>8), byte(a.TTL))
		b = append(b, be16(len(a.Data))...)
		b = append(b, a.Data...)
	}
	return b
}

// DHCP builds a BOOTP/DHCP message with the given options (code → value), message type first, End last.
func DHCP(op int, xid []byte, flags int, ciaddr, yiaddr []byte, chaddr []byte, msgType int, opts [][2][]byte) []byte {
	b := make([]byte, 240)
	b[0] = byte(op)
	b[1] = 1
	b[2] = 6
	copy(b[4:8], xid)
	b[10], b[11] = byte(flags>>8), byte(flags)
	copy(b[12:16], ciaddr)
	copy(b[16:20], yiaddr)
	copy(b[28:34], chaddr)
	copy(b[236:240], []byte{99, 130, 83, 99})
	b = append(b, 53, 1, byte(msgType))
	for _, o := range opts {
		b = append(b, o[0][0], byte(len(o[1])))
		b = append(b, o[1]...)
	}
	b = append(b, 255)
	for len(b) < 300 {
		b = append(b, 0)
	}
	return b
}

// RA builds an ICMPv6 router advertisement with raw option bytes appended.
func RA(hop int, flags int, lifetime int, opts []byte) []byte {
	b := []byte{134, 0, 0, 0, byte(hop), byte(flags), byte(lifetime >> 8), byte(lifetime), 0, 0, 0, 0, 0, 0, 0, 0}
	return append(b, opts...)
}

func RAPrefixOpt(plen int, flags int, valid, pref int, prefix []byte) []byte {
	b := []byte{3, 4, byte(plen), byte(flags), byte(valid >> 24), byte(valid >> 16), byte(valid >> 8), byte(valid), byte(pref >> 24), byte(pref >> 16), byte(pref >> 8), byte(pref), 0, 0, 0, 0}
	return append(b, prefix...)
}
func RAMTUOpt(mtu int) []byte {
	return []byte{5, 1, 0, 0, byte(mtu >> 24), byte(mtu >> 16), byte(mtu >> 8), byte(mtu)}
}
func RASLLAOpt(mac []byte) []byte { return append([]byte{1, 1}, mac...) }
func RARDNSSOpt(lifetime int, servers ...[]byte) []byte {
	b := []byte{25, byte(1 + 2*len(servers)), 0, 0, byte(lifetime >> 24), byte(lifetime >> 16), byte(lifetime >> 8), byte(lifetime)}
	for _, s := range servers {
		b = append(b, s...)
	}
	return b
}
