package c03dhcp

// dhcp.inplace lines (builder D): EncodeDHCP4 IN PLACE with ALIASED arguments — the destination is the request
// buffer and option values / the order list are slices INTO that buffer, the way ParseOptions returns them and the
// way handlers/dhcp4_spoofer and the documentation of EncodeDHCP4 use the encoder ("When replying to a DHCP request,
// you can pass nil to chaddr, ciaddr, yiadd, and xid to keep the underlying values").
//
//	dhcp.inplace <hex backing array> <opcode> <mt> <chaddr|~> <ciaddr|~> <yiaddr|~> <xid|~> <bcast> <opts> <order> <wire|~>
//
// <opts> = `-` or `code=<hex>` (a value of its own) / `code=@<off>+<len>` (the window [off, off+len) of the backing
// array) joined by `,`; <order> likewise (`-`: nil).  Compared with Model.Dhcp4Opt.encodeDHCP4Mem (memory-level) and,
// when no header write touches a window, with the value-level encodeDHCP4 of the CALL-TIME values (the driver prints
// both; Props/C03InPlace.encodeDHCP4_inplace_alias proves they agree).  Oracle (the property clause, independent):
// the result decodes to exactly the values SUPPLIED — the bytes every argument held when the encoder was called —
// and the options named by the supplied order list come in that order behind the subnet mask.

import (
	"bytes"
	"fmt"
	"net"
	"net/netip"
	"sort"
	"strconv"
	"strings"

	"github.com/irai/packet"
	"verif/harness/core"
)

type src struct {
	lit      []byte
	off, len int
	ref      bool
}

func parseSrc(s string, capacity int) (src, bool) {
	if strings.HasPrefix(s, "@") {
		p := strings.Split(s[1:], "+")
		if len(p) != 2 {
			return src{}, false
		}
		o, e1 := strconv.Atoi(p[0])
		l, e2 := strconv.Atoi(p[1])
		if e1 != nil || e2 != nil || o < 0 || l < 0 || o+l > capacity {
			return src{}, false
		}
		return src{off: o, len: l, ref: true}, true
	}
	for _, ch := range s {
		if !(ch == '-' || ch >= '0' && ch <= '9' || ch >= 'a' && ch <= 'f') {
			return src{}, false
		}
	}
	return src{lit: unOpt(s)}, true
}

// slice: the argument as the Go slice handed to the encoder.
func (s src) slice(buf []byte) []byte {
	if s.ref {
		return buf[s.off : s.off+s.len : s.off+s.len]
	}
	return append([]byte{}, s.lit...)
}

// touched: a header write of EncodeDHCP4 overlaps the window (the same list of writes as Model.Dhcp4Opt.hdrWrites:
// zeroes(p[34:236]), op / htype / hlen / hops, xid when given, secs, flags, cookie, ciaddr / yiaddr when given, siaddr,
// giaddr, chaddr + hlen when given, the broadcast bit when set).
func (s src) touched(xid, ci, yi, ch, bcast bool) bool {
	if !s.ref {
		return false
	}
	w := [][2]int{{34, 202}, {0, 1}, {1, 1}, {2, 1}, {3, 1}, {8, 2}, {10, 2}, {236, 4}, {20, 4}, {24, 4}}
	if xid {
		w = append(w, [2]int{4, 4})
	}
	if ci {
		w = append(w, [2]int{12, 4})
	}
	if yi {
		w = append(w, [2]int{16, 4})
	}
	if ch {
		w = append(w, [2]int{28, 6}, [2]int{2, 1})
	}
	if bcast {
		w = append(w, [2]int{10, 1})
	}
	for _, x := range w {
		if !(s.off+s.len <= x[0] || x[0]+x[1] <= s.off) {
			return true
		}
	}
	return false
}

func evalInplace(c *core.Ctx, f []string) *core.Case {
	b := core.UnHex(f[1])
	opcode, _ := strconv.Atoi(f[2])
	mt, _ := strconv.Atoi(f[3])
	ch, ci, yi, xid := unOpt(f[4]), unOpt(f[5]), unOpt(f[6]), unOpt(f[7])
	if len(b) > 1600 || (ci != nil && len(ci) != 4) || (yi != nil && len(yi) != 4) || (xid != nil && len(xid) != 4) || (ch != nil && len(ch) != 6) {
		return nil
	}
	buf := append([]byte{}, b...)
	buf = buf[:len(buf):len(buf)]
	type arg struct {
		k int
		s src
	}
	var args []arg
	if f[9] != "-" {
		for _, kv := range strings.Split(f[9], ",") {
			p := strings.Split(kv, "=")
			if len(p) != 2 {
				return nil
			}
			k, err := strconv.Atoi(p[0])
			s, ok := parseSrc(p[1], len(buf))
			if err != nil || k < 0 || k > 255 || !ok {
				return nil
			}
			args = append(args, arg{k, s})
		}
	}
	var order src
	orderNil := f[10] == "-"
	if !orderNil {
		var ok bool
		if order, ok = parseSrc(f[10], len(buf)); !ok {
			return nil
		}
	}
	om := packet.DHCP4Options{}
	supplied := map[byte][]byte{} // the values at call time
	safe := true
	for _, a := range args {
		if _, dup := om[packet.DHCP4OptionCode(a.k)]; dup {
			return nil
		}
		v := a.s.slice(buf)
		om[packet.DHCP4OptionCode(a.k)] = v
		supplied[byte(a.k)] = append([]byte{}, v...)
		if a.s.touched(xid != nil, ci != nil, yi != nil, ch != nil, f[8] == "1") {
			safe = false
		}
	}
	var orderArg, orderSupplied []byte
	if !orderNil {
		orderArg = order.slice(buf)
		orderSupplied = append([]byte{}, orderArg...)
		if order.touched(xid != nil, ci != nil, yi != nil, ch != nil, f[8] == "1") {
			safe = false
		}
	}
	toAddr := func(x []byte) netip.Addr {
		if x == nil {
			return netip.Addr{}
		}
		a, _ := netip.AddrFromSlice(x)
		return a
	}
	var chw net.HardwareAddr
	if ch != nil {
		chw = net.HardwareAddr(ch)
	}
	var out []byte
	res := core.Safely(func() string {
		r := packet.EncodeDHCP4(buf, packet.DHCP4OpCode(opcode), packet.DHCP4MessageType(mt), chw, toAddr(ci), toAddr(yi), xid, f[8] == "1", om, orderArg)
		if r == nil {
			return "nil"
		}
		out = append([]byte{}, r...)
		return "ok " + core.Hex(out)
	})
	want := map[byte][]byte{}
	for k, v := range supplied {
		want[k] = v
	}
	want[53] = []byte{byte(mt)}
	wire := "~"
	if res == "nil" {
		wire = "nil"
	}
	var ref map[byte][]byte
	var worder []byte
	wf := false
	if out != nil && len(out) > 240 {
		ref, worder, wf = refParse(out[240:])
		wire = core.Hex(worder)
		if len(worder) == 0 {
			wire = "-"
		}
	}
	f[11] = wire
	fits := len(b) >= 300
	total := 1
	for k, v := range want {
		if k == 0 || k == 255 || len(v) > 255 {
			fits = false
		}
		total += 2 + len(v)
	}
	if total > 1024 || 240+total > len(b) {
		fits = false
	}
	impl := res
	if safe {
		impl = res + " | values " + res
	}
	return &core.Case{Line: strings.Join(f, " "), Impl: impl, Trivial: len(b) < 300,
		Oracle: func() (string, string) {
			if !safe || !fits {
				return "", "" // an argument that overlaps a header field the caller asked the encoder to rewrite has no "value supplied"
			}
			if res == "panic" || res == "nil" {
				return "EncodeDHCP4 in place: " + res + " although the encoding fits", ""
			}
			if !wf || showOpts(ref) != showOpts(want) {
				return fmt.Sprintf("in place over the request buffer the options decode to %s, the values supplied (slices of that buffer at call time) were %s", showOpts(ref), showOpts(want)), ""
			}
			// options named by the supplied order list come in that order, behind the subnet mask
			var expect []byte
			seen := map[byte]bool{}
			for _, k := range append(append([]byte{1}, orderSupplied...), 1, 33, 3) {
				if _, ok := want[k]; ok && !seen[k] {
					seen[k] = true
					expect = append(expect, k)
				}
			}
			if len(worder) < len(expect) || !bytes.Equal(worder[:len(expect)], expect) {
				return fmt.Sprintf("in place over the request buffer the options come in the order %v; the order list supplied (a slice of that buffer at call time) was %v: want %v first", worder, orderSupplied, expect), ""
			}
			if xid == nil && !bytes.Equal(out[4:8], b[4:8]) || ch == nil && !bytes.Equal(out[28:34], b[28:34]) ||
				ci == nil && !bytes.Equal(out[12:16], b[12:16]) || yi == nil && !bytes.Equal(out[16:20], b[16:20]) {
				return "in place: xid / ciaddr / yiaddr / chaddr of the request not kept although nil was passed", ""
			}
			return "", ""
		}}
}

// genInplace: requests built with random options (always a parameter request list and mostly a client identifier),
// received in buffers with 0..1200 bytes of spare capacity; the reply is encoded in place echoing any subset of the
// PARSED options (windows of the buffer, located with the real ParseOptions) plus values of its own, order = the
// request's option 55 window (or a value, or nil); also windows of kept header fields (chaddr as client identifier:
// what nakPacket does), windows beyond len(p) in the spare capacity, and a few windows anywhere (tie only).
func genInplace(c *core.Ctx) {
	r := c.Rnd
	for i, n := 0, c.Scale(1500, 30000); i < n; i++ {
		p := make([]byte, 240)
		p[0], p[1], p[2] = 1, 1, 6
		copy(p[4:8], c.RandBytes(4))
		copy(p[12:20], c.RandBytes(8))
		copy(p[28:34], c.RandBytes(6))
		copy(p[44:60], c.RandBytes(16)) // sname / file: whatever the client left there
		copy(p[236:240], []byte{99, 130, 83, 99})
		prl := []byte{1, 3, 6, 15, 121, 33, 51, 54, 12}
		r.Shuffle(len(prl), func(i, j int) { prl[i], prl[j] = prl[j], prl[i] })
		prl = prl[:1+r.Intn(len(prl))]
		ro := [][]byte{{53, 1, byte(1 + r.Intn(8))}, append([]byte{55, byte(len(prl))}, prl...)}
		if r.Intn(4) != 0 {
			id := c.RandBytes(1 + r.Intn(19))
			ro = append(ro, append([]byte{61, byte(len(id))}, id...))
		}
		for k := r.Intn(4); k > 0; k-- {
			v := c.RandBytes(r.Intn(12))
			ro = append(ro, append([]byte{[]byte{12, 50, 54, 57, 60, 81}[r.Intn(6)], byte(len(v))}, v...))
		}
		r.Shuffle(len(ro), func(i, j int) { ro[i], ro[j] = ro[j], ro[i] })
		for _, o := range ro {
			p = append(p, o...)
		}
		p = append(p, 255)
		if r.Intn(2) == 0 && len(p) < 300 {
			p = append(p, make([]byte, 300-len(p))...)
		}
		buf := append(append([]byte{}, p...), c.RandBytes([]int{0, 0, 20, 60, 300, 1200}[r.Intn(6)])...)
		if len(buf) < 300 && r.Intn(8) != 0 {
			buf = append(buf, c.RandBytes(300-len(buf))...)
		}
		// windows of the parsed options, located with the library's own parser
		type win struct{ k, off, len int }
		var wins []win
		parsed := packet.DHCP4(buf[:len(p)]).ParseOptions()
		var ks []int
		for k := range parsed {
			ks = append(ks, int(k))
		}
		sort.Ints(ks)
		for _, k := range ks {
			v := parsed[packet.DHCP4OptionCode(k)]
			if len(v) == 0 {
				continue
			}
			for off := 240; off+len(v) <= len(p); off++ {
				if &buf[off] == &v[0] || bytes.Equal(buf[off:off+len(v)], v) && off >= 2 && buf[off-2] == byte(k) && int(buf[off-1]) == len(v) {
					wins = append(wins, win{k, off, len(v)})
					break
				}
			}
		}
		var opts []string
		used := map[int]bool{53: true}
		order := "-"
		for _, w := range wins {
			if w.k == 55 {
				switch r.Intn(6) {
				case 0:
				case 1:
					order = core.Hex(buf[w.off : w.off+w.len])
				default:
					order = fmt.Sprintf("@%d+%d", w.off, w.len)
				}
				continue
			}
			if w.k != 53 && !used[w.k] && r.Intn(3) != 0 { // echoed: a window of the request
				used[w.k] = true
				opts = append(opts, fmt.Sprintf("%d=@%d+%d", w.k, w.off, w.len))
			}
		}
		if !used[61] && r.Intn(2) == 0 { // no client identifier: the hardware address stands in (getClientID), a window of the header
			used[61] = true
			opts = append(opts, "61=@28+6")
		}
		for _, k := range []int{1, 3, 6, 51, 54, 15, 33} { // the server's own values
			if !used[k] && r.Intn(3) != 0 {
				used[k] = true
				opts = append(opts, fmt.Sprintf("%d=%s", k, core.Hex(c.RandBytes(4))))
			}
		}
		if r.Intn(10) == 0 && len(buf) > len(p)+4 { // a window in the spare capacity behind the request
			k := 200 + r.Intn(20)
			if !used[k] {
				used[k] = true
				opts = append(opts, fmt.Sprintf("%d=@%d+%d", k, len(p)+r.Intn(len(buf)-len(p)-3), 1+r.Intn(3)))
			}
		}
		if r.Intn(12) == 0 { // a window anywhere, header included: no "value supplied" when the encoder rewrites it (tie only)
			k := 180 + r.Intn(10)
			if !used[k] {
				used[k] = true
				off := r.Intn(len(buf) - 8)
				opts = append(opts, fmt.Sprintf("%d=@%d+%d", k, off, 1+r.Intn(8)))
			}
		}
		r.Shuffle(len(opts), func(i, j int) { opts[i], opts[j] = opts[j], opts[i] })
		os := "-"
		if len(opts) > 0 {
			os = strings.Join(opts, ",")
		}
		pick := func(n int) string {
			if r.Intn(3) != 0 {
				return "~"
			}
			return core.Hex(c.RandBytes(n))
		}
		line := fmt.Sprintf("dhcp.inplace %s 2 %d %s %s %s %s %d %s %s ~", core.Hex(buf), []int{2, 5, 6}[r.Intn(3)], pick(6), pick(4), pick(4), pick(4), r.Intn(2), os, order)
		cs := Eval(c, line)
		if cs == nil {
			c.Drop("inplace", "not evaluated")
			continue
		}
		c.Add(*withClass(cs, "inplace"))
	}
}
