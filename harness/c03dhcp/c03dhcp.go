// Package c03dhcp: correspondence + oracle for the DHCPv4 option layer (layer_dhcp4.go):
// validateOptions / ParseOptions / AppendOptions / EncodeDHCP4 against Model/Dhcp4Opt.lean.
//
//	dhcp.parse <hex packet>
//	dhcp.enc <hex buffer> <opcode> <mt> <chaddr|~> <ciaddr|~> <yiaddr|~> <xid|~> <bcast> <opts> <order> <wire|~>
package c03dhcp

import (
	"bytes"
	"errors"
	"fmt"
	"net"
	"net/netip"
	"sort"
	"strconv"
	"strings"

	"github.com/irai/packet"
	"verif/harness/core"
)

var Runner = core.Runner{Gen: Gen, Eval: Eval}

func showOpts(m map[byte][]byte) string {
	if len(m) == 0 {
		return "-"
	}
	codes := make([]int, 0, len(m))
	for c := range m {
		codes = append(codes, int(c))
	}
	sort.Ints(codes)
	parts := make([]string, len(codes))
	for i, c := range codes {
		parts[i] = fmt.Sprintf("%d=%s", c, core.Hex(m[byte(c)]))
	}
	return strings.Join(parts, ",")
}

// reference TLV decoder (RFC 2132 section 2): returns the map (last occurrence wins), the wire order and
// whether the area is well formed up to the end option
func refParse(o []byte) (m map[byte][]byte, order []byte, wellFormed bool) {
	m = map[byte][]byte{}
	i := 0
	for i < len(o) {
		c := o[i]
		if c == 255 {
			return m, order, true
		}
		if c == 0 {
			i++
			continue
		}
		if i+1 >= len(o) || i+2+int(o[i+1]) > len(o) {
			return m, order, false
		}
		m[c] = o[i+2 : i+2+int(o[i+1])]
		order = append(order, c)
		i += 2 + int(o[i+1])
	}
	return m, order, false
}

func optHex(b []byte) string {
	if b == nil {
		return "~"
	}
	return core.Hex(b)
}

func unOpt(s string) []byte {
	if s == "~" {
		return nil
	}
	if s == "-" {
		return []byte{}
	}
	return core.UnHex(s)
}

func parseOpts(s string) (map[byte][]byte, bool) {
	m := map[byte][]byte{}
	if s == "-" {
		return m, true
	}
	for _, kv := range strings.Split(s, ",") {
		p := strings.Split(kv, "=")
		if len(p) != 2 {
			return nil, false
		}
		k, err := strconv.Atoi(p[0])
		if err != nil || k < 0 || k > 255 {
			return nil, false
		}
		m[byte(k)] = unOpt(p[1])
	}
	return m, true
}

func Eval(c *core.Ctx, line string) *core.Case {
	f := strings.Fields(line)
	switch {
	case len(f) == 2 && f[0] == "dhcp.parse":
		p := core.UnHex(f[1])
		var parsed map[byte][]byte
		v := core.Safely(func() string {
			if err := packet.VerifDHCP4ValidateOptions(packet.DHCP4(p)); err != nil {
				if errors.Is(err, packet.ErrParseFrame) {
					return "err ErrParseFrame"
				}
				return "err other"
			}
			return "ok -"
		})
		ps := core.Safely(func() string {
			o := packet.DHCP4(p).ParseOptions()
			parsed = map[byte][]byte{}
			for k, val := range o {
				parsed[byte(k)] = val
			}
			return "ok " + showOpts(parsed)
		})
		return &core.Case{Line: line, Impl: v + " | " + ps, Trivial: len(p) <= 240,
			Oracle: func() (string, string) {
				if v == "panic" || ps == "panic" {
					return "option parsing panics on " + f[1], ""
				}
				if len(p) > 240 {
					ref, _, wf := refParse(p[240:])
					if wf != (v == "ok -") && len(p) >= 242 {
						// validateOptions accepts exactly the well-formed areas, plus areas that run out of bytes without an end option
						if wf {
							return "validateOptions rejects a well-formed option area", ""
						}
					}
					if v == "ok -" && wf && showOpts(ref) != showOpts(parsed) {
						return fmt.Sprintf("ParseOptions=%s, reference decoder=%s", showOpts(parsed), showOpts(ref)), ""
					}
				}
				return "", ""
			}}
	case len(f) == 12 && f[0] == "dhcp.inplace":
		return evalInplace(c, f) // inplace.go
	case len(f) == 12 && f[0] == "dhcp.enc":
		b := core.UnHex(f[1])
		opcode, _ := strconv.Atoi(f[2])
		mt, _ := strconv.Atoi(f[3])
		ch, ci, yi, xid := unOpt(f[4]), unOpt(f[5]), unOpt(f[6]), unOpt(f[7])
		opts, ok := parseOpts(f[9])
		if !ok {
			return nil
		}
		order := unOpt(f[10])
		buf := append([]byte{}, b...)
		buf = buf[:len(buf):len(buf)]
		// the parameter request list and the option values are handed over the way a zero-copy server
		// does it: as sub-slices of one array (the request), the list with spare capacity in front of the
		// values.  An encoder that appends to its `order` argument writes into that array.
		arena := append([]byte{}, order...)
		arena = append(arena, 0xa5, 0xa5, 0xa5, 0xa5, 0xa5, 0xa5, 0xa5, 0xa5)
		om := packet.DHCP4Options{}
		ks := make([]int, 0, len(opts))
		for k := range opts {
			ks = append(ks, int(k))
		}
		sort.Ints(ks)
		type span struct{ k, lo, hi int }
		var spans []span
		for _, k := range ks {
			spans = append(spans, span{k, len(arena), len(arena) + len(opts[byte(k)])})
			arena = append(arena, opts[byte(k)]...)
		}
		arena = arena[:len(arena):len(arena)]
		for _, sp := range spans {
			om[packet.DHCP4OptionCode(sp.k)] = arena[sp.lo:sp.hi:sp.hi]
		}
		arenaBefore := append([]byte{}, arena...)
		var orderArg []byte
		if order != nil {
			orderArg = arena[:len(order)]
		}
		toAddr := func(x []byte) netip.Addr {
			if x == nil {
				return netip.Addr{}
			}
			a, _ := netip.AddrFromSlice(x)
			return a
		}
		var out []byte
		var chw net.HardwareAddr
		if ch != nil {
			chw = net.HardwareAddr(ch)
		}
		res := core.Safely(func() string {
			r := packet.EncodeDHCP4(buf, packet.DHCP4OpCode(opcode), packet.DHCP4MessageType(mt), chw, toAddr(ci), toAddr(yi), xid, f[8] == "1", om,
				orderArg)
			if r == nil {
				return "nil"
			}
			out = append([]byte{}, r...)
			return "ok " + core.Hex(out)
		})
		wire := "~"
		if res == "nil" {
			wire = "nil" // no packet to read the iteration order from; tells the driver which of the order-dependent outcomes happened
		}
		var ref map[byte][]byte
		var worder []byte
		wf := false
		if out != nil && len(out) > 240 {
			ref, worder, wf = refParse(out[240:])
			// order in which the implementation wrote the options: walk the area with the true value lengths
			// (the length byte wraps for values longer than 255 bytes, so it cannot be trusted here)
			all := map[byte][]byte{53: {byte(mt)}}
			for k, v := range opts {
				if k != 53 {
					all[k] = v
				}
			}
			var w []byte
			area := out[240:]
			for i := 0; len(w) < len(all) && i < len(area); {
				v, known := all[area[i]]
				if !known {
					break
				}
				w = append(w, area[i])
				i += 2 + len(v)
			}
			wire = core.Hex(w)
		}
		f[11] = wire
		// well-formed input of the round-trip claim
		fits := true
		total := 3
		for k, v := range opts {
			if k == 0 || k == 255 || len(v) > 255 {
				fits = false
			}
			if k != 53 {
				total += 2 + len(v)
			}
		}
		if total > 1024 || 240+total+1 > len(b) || (ch != nil && len(ch) != 6) || (xid != nil && len(xid) != 4) {
			fits = false
		}
		return &core.Case{Line: strings.Join(f, " "), Impl: res, Trivial: len(b) < 300,
			Oracle: func() (string, string) {
				// the encoder's inputs (parameter request list, option values – here sub-slices of one array
				// as in a zero-copy server) are read-only: only the destination buffer may be written
				if !bytes.Equal(arena, arenaBefore) {
					return fmt.Sprintf("EncodeDHCP4 modified its inputs: the array holding the order list (with spare capacity) and the option values was %x, is %x", arenaBefore, arena), ""
				}
				if !fits || len(b) < 300 {
					return "", "" // outside "all option maps whose encoding fits"
				}
				if res == "panic" || res == "nil" {
					return "EncodeDHCP4 " + res + " although the encoding fits", ""
				}
				want := map[byte][]byte{53: {byte(mt)}}
				for k, v := range opts {
					if k != 53 {
						want[k] = v
					}
				}
				if !wf || showOpts(ref) != showOpts(want) {
					return fmt.Sprintf("options decode to %s, supplied %s", showOpts(ref), showOpts(want)), ""
				}
				seen := map[byte]bool{}
				for _, cde := range worder {
					if seen[cde] {
						return fmt.Sprintf("option %d encoded twice", cde), ""
					}
					seen[cde] = true
				}
				if i1, i3 := bytes.IndexByte(worder, 1), bytes.IndexByte(worder, 3); i1 >= 0 && i3 >= 0 && i1 > i3 {
					return fmt.Sprintf("router option before subnet mask (order %v)", worder), ""
				}
				d := packet.DHCP4(out)
				if len(out) < 300 || d.IsValid() != nil {
					return "encoded packet shorter than 300 bytes or rejected by IsValid", ""
				}
				if byte(d.OpCode()) != byte(opcode) || (xid != nil && !bytes.Equal(d.XId(), xid)) || (ch != nil && !bytes.Equal(d.CHAddr(), ch)) ||
					(len(ci) == 4 && !bytes.Equal(out[12:16], ci)) || (len(yi) == 4 && !bytes.Equal(out[16:20], yi)) || d.Broadcast() != (f[8] == "1") ||
					!bytes.Equal(out[236:240], []byte{99, 130, 83, 99}) {
					return "fixed fields do not decode to the supplied values", ""
				}
				if xid == nil && !bytes.Equal(out[4:8], b[4:8]) || ch == nil && !bytes.Equal(out[28:34], b[28:34]) {
					return "xid/chaddr of the request not kept", ""
				}
				return "", ""
			}}
	}
	return nil
}

func Gen(c *core.Ctx) {
	c.Res.Rule = "non-trivial = packet longer than 240 bytes (parse) / buffer of at least 300 bytes (encode)"
	for _, l := range c.CorpusLines() {
		if cs := Eval(c, l); cs != nil {
			cs.Class = "corpus"
			c.Add(*cs)
		}
	}
	r := c.Rnd
	randOpts := func(n, maxLen int) map[byte][]byte {
		m := map[byte][]byte{}
		for i := 0; i < n; i++ {
			k := byte(1 + r.Intn(254))
			if r.Intn(3) == 0 {
				k = []byte{1, 3, 6, 33, 51, 53, 54, 61, 121, 12}[r.Intn(10)]
			}
			l := r.Intn(maxLen + 1)
			if r.Intn(30) == 0 {
				l = 250 + r.Intn(12)
			}
			m[k] = c.RandBytes(l)
		}
		if r.Intn(40) == 0 {
			m[0] = c.RandBytes(2)
		}
		if r.Intn(40) == 0 {
			m[255] = c.RandBytes(1)
		}
		return m
	}
	tlv := func(m map[byte][]byte) []byte {
		var o []byte
		for k, v := range m {
			o = append(o, k, byte(len(v)))
			o = append(o, v...)
			if r.Intn(8) == 0 {
				o = append(o, 0)
			}
		}
		return o
	}
	// parsing: valid areas, every truncation, length corruption, zero-length options, pads, no end
	np := c.Scale(400, 20000)
	for i := 0; i < np; i++ {
		hdr := c.RandBytes(240)
		area := append(tlv(randOpts(r.Intn(8), 20)), 255)
		if r.Intn(4) == 0 {
			area = append(area, c.RandBytes(r.Intn(6))...)
		}
		pkt := append(hdr, area...)
		c.Add(*withClass(Eval(c, "dhcp.parse "+core.Hex(pkt)), "valid"))
		if i%8 == 0 {
			for n := 236; n <= len(pkt); n++ {
				c.Add(*withClass(Eval(c, "dhcp.parse "+core.Hex(pkt[:n])), "truncated"))
			}
		}
		for k := 0; k < 3 && len(area) > 0; k++ {
			q := append([]byte{}, pkt...)
			pos := 240 + r.Intn(len(area))
			q[pos] = []byte{0, 1, 2, 255, 254, byte(r.Intn(256))}[r.Intn(6)]
			c.Add(*withClass(Eval(c, "dhcp.parse "+core.Hex(q)), "corrupt"))
		}
	}
	for n := 0; n < 6; n++ { // tiny areas exhaustively over a small alphabet
		alpha := []byte{0, 1, 2, 3, 255}
		var rec func(p []byte)
		rec = func(p []byte) {
			if len(p) == n {
				c.Add(*withClass(Eval(c, "dhcp.parse "+core.Hex(append(make([]byte, 240), p...))), "tiny"))
				return
			}
			for _, a := range alpha {
				rec(append(append([]byte{}, p...), a))
			}
		}
		rec(nil)
	}
	// encoding
	ne := c.Scale(3000, 150000)
	orders := [][]byte{nil, {1, 3, 6}, {3, 1}, {6, 3, 1, 51, 54}, {1, 121, 3, 6, 15, 119, 252}, {33, 3, 1, 121}, {53, 1, 1, 3, 3}, {0, 255, 1}}
	for i := 0; i < ne; i++ {
		capb := []int{300, 301, 310, 400, 576, 1514, 1514, 1514, 299, 240, 100}[r.Intn(11)]
		b := c.RandBytes(capb)
		nopt, maxLen := r.Intn(10), 24
		switch r.Intn(25) {
		case 0:
			nopt, maxLen = 5+r.Intn(4), 255 // may overflow the 1024-byte scratch buffer or the packet
		case 1:
			nopt, maxLen = 40+r.Intn(40), 30
		}
		opts := randOpts(nopt, maxLen)
		if r.Intn(3) != 0 {
			opts[1], opts[3] = c.RandBytes(4), c.RandBytes(4)
		}
		order := orders[r.Intn(len(orders))]
		if r.Intn(3) == 0 {
			order = c.RandBytes(r.Intn(12))
		}
		pick := func(n int) []byte {
			switch r.Intn(6) {
			case 0:
				return nil
			case 1:
				return c.RandBytes([]int{0, 2, 16, 20}[r.Intn(4)])
			}
			return c.RandBytes(n)
		}
		ci, yi := pick(4), pick(4)
		// boundary addresses: an explicitly supplied 0.0.0.0 / 255.255.255.255 must be written like any other
		switch r.Intn(8) {
		case 0:
			ci = []byte{0, 0, 0, 0}
		case 1:
			yi = []byte{0, 0, 0, 0}
		case 2:
			ci, yi = []byte{0, 0, 0, 0}, []byte{255, 255, 255, 255}
		}
		if len(ci) != 4 && len(ci) != 16 {
			ci = nil
		}
		if len(yi) != 4 && len(yi) != 16 {
			yi = nil
		}
		if len(ci) == 16 {
			ci = nil // an IPv6 address is not Is4: kept; same as absent for the model
		}
		if len(yi) == 16 {
			yi = nil
		}
		line := fmt.Sprintf("dhcp.enc %s %d %d %s %s %s %s %d %s %s ~", core.Hex(b), 1+r.Intn(2), 1+r.Intn(8), optHex(pick(6)), optHex(ci), optHex(yi),
			optHex(pick(4)), r.Intn(2), showOpts(opts), core.Hex(order))
		c.Add(*withClass(Eval(c, line), "encode"))
	}
	genInplace(c) // inplace.go: EncodeDHCP4 in place with aliased arguments
}

func withClass(cs *core.Case, class string) *core.Case {
	cs.Class = class
	return cs
}
