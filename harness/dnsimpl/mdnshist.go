package dnsimpl

import (
	"encoding/binary"
	"fmt"
	"net"
	"net/netip"
	"strings"
	"time"

	dn "github.com/irai/packet/handlers/dns_naming"
)

// HistStep is one message of an mDNS history: the clock advances by Dt, then the station MAC sends Payload.
type HistStep struct {
	Dt      time.Duration
	MAC     net.HardwareAddr
	Payload []byte
}

// HistResult is what ProcessMDNS returned for one message and the cache keys afterwards.
type HistResult struct {
	Impl string // "ok v4=[…] v6=[…] err=…" | panic | hang …
	Keys []string
}

// frameFrom is UDPFrame with the source MAC of the station and an IPv4 source address of its own.
func frameFrom(mac net.HardwareAddr, payload []byte) []byte {
	fr := UDPFrame(5353, 5353, netip.MustParseAddr("224.0.0.251"), payload)
	if fr == nil || len(mac) != 6 {
		return nil
	}
	copy(fr[6:12], mac)
	ip := fr[14:34]
	ip[15] = 30 + mac[5]%200 // 192.168.0.x
	ip[10], ip[11] = 0, 0
	var sum uint32
	for i := 0; i < 20; i += 2 {
		sum += uint32(binary.BigEndian.Uint16(ip[i:]))
	}
	for sum > 0xffff {
		sum = sum&0xffff + sum>>16
	}
	binary.BigEndian.PutUint16(ip[10:], ^uint16(sum))
	return fr
}

// MDNSHist runs the messages through ProcessMDNS of ONE handler, in order.  The handler's only clock-dependent
// state is the expiry of its response cache entries: a time step is applied by moving them into the past.
// ok = false when a payload does not fit a frame / is not handed on by Session.Parse.
func MDNSHist(steps []HistStep) ([]HistResult, bool) {
	setup()
	h := dn.VerifNew(Session)
	var out []HistResult
	for _, st := range steps {
		fr := frameFrom(st.MAC, st.Payload)
		if fr == nil {
			return nil, false
		}
		if st.Dt > 0 {
			h.VerifMDNSCacheShift(st.Dt)
		}
		r := GuardProbe("mdns.hist", h, func() string {
			frame, err := Session.Parse(fr)
			if err != nil || len(frame.Payload()) != len(st.Payload) {
				return "noparse"
			}
			a, b, err := h.ProcessMDNS(frame)
			return fmt.Sprintf("ok v4=[%s] v6=[%s] err=%v", ipNames(a), ipNames(b), err != nil)
		})
		if r == "noparse" {
			return nil, false
		}
		res := HistResult{Impl: r}
		if !strings.HasPrefix(r, "ok ") {
			out = append(out, res)
			return out, true // the handler may be blocked / gone: stop here
		}
		res.Keys = h.VerifMDNSCacheKeys()
		out = append(out, res)
	}
	return out, true
}
