// Package dnsimpl calls the real DNS / naming code of the library (through the verif export
// overlay where the functions are unexported) and renders results in the canonical form of the
// Lean driver (Drv/Dns.lean).  Every call runs under a watchdog: a Go panic becomes "panic",
// no return within 2 s becomes "hang".
package dnsimpl

import (
	"errors"
	"fmt"
	"io"
	"net"
	"net/netip"
	"os"
	"sort"
	"strings"
	"sync"
	"sync/atomic"
	"syscall"
	"time"

	"github.com/irai/packet"
	"github.com/irai/packet/fastlog"
	dn "github.com/irai/packet/handlers/dns_naming"
	"verif/harness/core"
	"verif/harness/sess"
)

var (
	once    sync.Once
	Session *packet.Session
	devnull *os.File
	// HangsBy counts, per operation, the calls that did not return within the watchdog: every one
	// leaves a spinning goroutine behind, so an operation is given up after HangBudget witnesses —
	// the other operations go on (a hang in one decoder must not hide a defect in another).
	HangsBy = map[string]int{}
	// BlockedBy counts, per operation, handler calls that returned but left the handler blocked (see GuardProbe)
	BlockedBy = map[string]int{}
)

// HangBudget is the number of hang witnesses taken per operation; TotalHangBudget bounds the
// spinning goroutines of the whole run.
const (
	HangBudget      = 3
	TotalHangBudget = 18
)

func totalHangs() int {
	n := 0
	for _, v := range HangsBy {
		n += v
	}
	return n
}

// Skipped reports a result that was not observed at all because the run had already given up on
// the watchdog (too many spinning goroutines left behind): such a case says nothing about its input.
func Skipped(impl string) bool { return strings.Contains(impl, "hang-skipped") }

var guarded int

func setup() {
	once.Do(func() {
		Session, _ = sess.New(nil)
		devnull, _ = os.OpenFile(os.DevNull, os.O_WRONLY, 0)
		fastlog.DefaultIOWriter = io.Discard
	})
}

// Watchdog is how long a call may run before it is reported as a hang.
var Watchdog = 2 * time.Second

// Guard is GuardOp for callers without an operation name of their own.
func Guard(f func() string) string { return GuardOp("misc", f) }

// GuardOp runs f with stdout silenced (the handlers print), converting panic and non-termination
// into canonical outcomes.  op is the operation the hang budget is charged to.
func GuardOp(op string, f func() string) string {
	setup()
	// every other guarded call (the first one - a replayed line - included) runs with the naming handler's and the
	// session's loggers at debug level: every log line is formatted (output discarded); a panicking log call is a handler panic
	guarded++
	lvl := fastlog.LevelInfo
	if guarded%2 == 1 {
		lvl = fastlog.LevelDebug
	}
	dn.Logger.SetLevel(lvl)
	packet.Logger.SetLevel(lvl)
	if HangsBy[op] >= HangBudget || totalHangs() >= TotalHangBudget {
		// every hung call leaves a spinning goroutine behind; stop feeding this operation
		return "hang-skipped"
	}
	done := make(chan string, 1)
	saved := os.Stdout
	os.Stdout = devnull
	go func() {
		defer func() {
			if r := recover(); r != nil {
				done <- "panic"
			}
		}()
		done <- f()
	}()
	var res string
	select {
	case res = <-done:
	case <-time.After(Watchdog):
		// a loaded machine must not produce a false "hang": wait four times as long again
		select {
		case res = <-done:
		case <-time.After(4 * Watchdog):
			res = "hang"
			HangsBy[op]++
		}
	}
	os.Stdout = saved
	return res
}

// Blocked is appended to the result of a handler call that returned but left the handler unusable:
// the follow-up calls on the same handler (Probe) did not return (a lock taken by the call was not
// released on the path it took) or panicked.
const Blocked = "+blocked"

var (
	probeOnce  sync.Once
	probeFrame packet.Frame
	probeAddr  = netip.MustParseAddr("192.0.2.77")
)

// ProbePayload is the trivial well-formed packet of the probe: a response to `verif.probe. A IN`
// without any record (ProcessDNS takes the handler's write lock and leaves the table as it is).
var ProbePayload = []byte{0x56, 0x50, 0x81, 0x80, 0, 1, 0, 0, 0, 0, 0, 0, 5, 'v', 'e', 'r', 'i', 'f', 5, 'p', 'r', 'o', 'b', 'e', 0, 0, 1, 0, 1}

// Probe is what the packet loop and its readers do next with the same handler, reduced to the
// cheapest calls: DNSFind and DNSExist (read lock) and ProcessDNS of ProbePayload (write lock).
// "Terminates on arbitrary packets" includes that these still return after any packet.
func Probe(h *dn.DNSHandler) {
	probeOnce.Do(func() {
		fr := UDPFrame(53, 40001, netip.MustParseAddr("192.168.0.129"), ProbePayload)
		probeFrame, _ = Session.Parse(fr)
	})
	h.DNSFind("verif.probe")
	h.DNSExist(probeAddr)
	h.ProcessDNS(probeFrame)
}

// GuardProbe is Guard(f) followed, inside the same watchdog, by Probe(h).  When f returned r but
// the probe did not return (or panicked) the outcome is r+Blocked.
func GuardProbe(op string, h *dn.DNSHandler, f func() string) string {
	setup()
	if BlockedBy[op] >= 3 {
		// every blocked handler costs a full watchdog period; three witnesses per operation are enough
		return GuardOp(op, f)
	}
	var first atomic.Value
	res := GuardOp(op, func() string {
		r := f()
		first.Store(r)
		Probe(h)
		return r
	})
	if r, ok := first.Load().(string); ok && (res == "hang" || res == "panic") {
		if r == "noparse" {
			return r
		}
		if res == "hang" {
			HangsBy[op]-- // the abandoned goroutine is parked on a lock, it does not spin
		}
		BlockedBy[op]++
		return r + Blocked
	}
	return res
}

// IsBlocked reports whether a canonical result carries the Blocked mark and describes it.
func IsBlocked(call, impl string) (string, bool) {
	i := strings.Index(impl, Blocked)
	if i < 0 {
		return "", false
	}
	j := strings.LastIndexByte(impl[:i], ' ') + 1
	return call + " returned (" + strings.TrimSpace(impl[j:i]) + ") but left the handler blocked: DNSFind / DNSExist / ProcessDNS(empty response) on the same handler afterwards do not return normally (a lock is still held on that path)", true
}

// Exact returns a copy whose capacity equals its length (so that slicing past the length panics
// exactly as the Go spec says, instead of reading spare capacity).
func Exact(b []byte) []byte {
	c := make([]byte, len(b))
	copy(c, b)
	return c[:len(b):len(b)]
}

func ErrName(err error) string {
	switch {
	case errors.Is(err, packet.ErrFrameLen):
		return "ErrFrameLen"
	case errors.Is(err, packet.ErrParseFrame):
		return "ErrParseFrame"
	case errors.Is(err, packet.ErrInvalidLen):
		return "ErrInvalidLen"
	}
	return "other"
}

// DecodeName: canonical `ok <name> <end>` | `err X` | panic | hang
func DecodeName(msg []byte, off int) string {
	return GuardOp("dns.name", func() string {
		buf := make([]byte, 0, 64)
		n, end, err := packet.VerifDecodeName(Exact(msg), off, &buf, 1)
		if err != nil {
			return "err " + ErrName(err)
		}
		return fmt.Sprintf("ok %s %d", core.Hex(n), end)
	})
}

func DecodeQuestion(msg []byte, index int) string {
	return GuardOp("dns.question", func() string {
		q, off, err := packet.DecodeQuestion(Exact(msg), index, make([]byte, 0, 64))
		if err != nil {
			return "err " + ErrName(err)
		}
		return fmt.Sprintf("ok %s %d %d %d", core.Hex(q.Name), q.Type, q.Class, off)
	})
}

func ipRec(r packet.IPResourceRecord) string {
	return fmt.Sprintf("%s/%s/%d", core.Hex(r.IP.AsSlice()), core.Hex([]byte(r.Name)), r.TTL)
}

func EntryStr(e packet.DNSEntry) string {
	var a, aaaa, cn, ptr []string
	for _, r := range e.IP4Records {
		a = append(a, ipRec(r))
	}
	for _, r := range e.IP6Records {
		aaaa = append(aaaa, ipRec(r))
	}
	for _, r := range e.CNameRecords {
		cn = append(cn, fmt.Sprintf("%s/%s/%d", core.Hex([]byte(r.Name)), core.Hex([]byte(r.CName)), r.TTL))
	}
	for _, r := range e.PTRRecords {
		ptr = append(ptr, fmt.Sprintf("%s/%s/%d", core.Hex([]byte(r.Name)), core.Hex(r.IP.AsSlice()), r.TTL))
	}
	sort.Strings(a)
	sort.Strings(aaaa)
	sort.Strings(cn)
	sort.Strings(ptr)
	return fmt.Sprintf("name=%s a=[%s] aaaa=[%s] cname=[%s] ptr=[%s]", core.Hex([]byte(e.Name)),
		strings.Join(a, ";"), strings.Join(aaaa, ";"), strings.Join(cn, ";"), strings.Join(ptr, ";"))
}

// DecodeAnswersZero runs the exported DecodeAnswers on the zero DNSEntry (nil maps).
func DecodeAnswersZero(off int, msg []byte) string {
	var e packet.DNSEntry
	res := GuardOp("dns.answers0", func() string {
		o, upd, err := e.DecodeAnswers(Exact(msg), off, make([]byte, 0, 64))
		if err != nil {
			return "err " + ErrName(err)
		}
		return fmt.Sprintf("ok %d %v", o, upd)
	})
	if res == "panic" || strings.HasPrefix(res, "hang") {
		return res
	}
	return res + " " + EntryStr(e)
}

// DecodeRRs runs decodeRRs (count given) or DecodeAnswers (count<0) on a fresh entry.
func DecodeRRs(count int, off int, msg []byte) (string, packet.DNSEntry) {
	e := packet.NewDNSEntry()
	res := GuardOp("dns.rrs", func() string {
		var o int
		var upd bool
		var err error
		if count < 0 {
			o, upd, err = e.DecodeAnswers(Exact(msg), off, make([]byte, 0, 64))
		} else {
			o, upd, err = e.VerifDecodeRRs(count, Exact(msg), off, make([]byte, 0, 64))
		}
		if err != nil {
			return "err " + ErrName(err)
		}
		return fmt.Sprintf("ok %d %v", o, upd)
	})
	if res == "panic" || strings.HasPrefix(res, "hang") {
		return res, e
	}
	return res + " " + EntryStr(e), e
}

var srcMAC = net.HardwareAddr{2, 0, 0, 0, 0, 0x22}

// UDPFrame wraps a payload in Ethernet/IPv4/UDP; nil when it does not fit an Ethernet frame.
func UDPFrame(srcPort, dstPort uint16, dst netip.Addr, payload []byte) []byte {
	if len(payload) > 1400 {
		return nil
	}
	ether := packet.Ether(make([]byte, packet.EthMaxSize))
	ether = packet.EncodeEther(ether, syscall.ETH_P_IP, srcMAC, packet.EthBroadcast)
	ip4 := packet.EncodeIP4(ether.Payload(), 255, netip.MustParseAddr("192.168.0.5"), dst)
	udp := packet.EncodeUDP(ip4.Payload(), srcPort, dstPort)
	udp, err := udp.AppendPayload(payload)
	if err != nil {
		return nil
	}
	ip4 = ip4.SetPayload(udp, syscall.IPPROTO_UDP)
	ether, err = ether.SetPayload(ip4)
	if err != nil {
		return nil
	}
	return Exact(ether)
}

// Process runs the payloads through ProcessDNS on a fresh handler (frames built and parsed by the
// library's own Session.Parse); returns per-call results, the final table and the handler.
func Process(payloads [][]byte) (string, map[string]packet.DNSEntry, bool) {
	setup()
	h := dn.VerifNew(Session)
	var rs []string
	for _, p := range payloads {
		fr := UDPFrame(53, 40000, netip.MustParseAddr("192.168.0.129"), p)
		if fr == nil {
			return "", nil, false
		}
		var frame packet.Frame
		var perr error
		r := GuardProbe("dns.process", h, func() string {
			frame, perr = Session.Parse(fr)
			if perr != nil {
				return "noparse"
			}
			if len(frame.Payload()) != len(p) {
				return "noparse"
			}
			e, err := h.ProcessDNS(frame)
			if err != nil {
				return "err:" + ErrName(err)
			}
			if e.Name == "" && e.IP4Records == nil {
				return "same"
			}
			return "upd(" + strings.ReplaceAll(EntryStr(e), " ", ",") + ")"
		})
		if r == "noparse" {
			return "", nil, false
		}
		rs = append(rs, r)
		if strings.HasSuffix(r, Blocked) || strings.HasPrefix(r, "hang") {
			break // the handler is gone: every further call on it would only wait for the watchdog
		}
	}
	var es []string
	for _, e := range h.DNSTable {
		es = append(es, EntryStr(e))
	}
	sort.Strings(es)
	return strings.Join(rs, " ") + " tbl=" + strings.Join(es, "|"), h.DNSTable, true
}

func ipNames(l []packet.IPNameEntry) string {
	var s []string
	for _, e := range l {
		var ip []byte
		if e.Addr.IP.IsValid() {
			ip = e.Addr.IP.AsSlice()
		}
		s = append(s, fmt.Sprintf("%s:%s:%s:%s", core.Hex([]byte(e.NameEntry.Name)), core.Hex(ip),
			core.Hex([]byte(e.NameEntry.Model)), core.Hex([]byte(e.NameEntry.Manufacturer))))
	}
	return strings.Join(s, ",")
}

// MDNS runs ProcessMDNS on a frame carrying the payload (response cache emptied first).
func MDNS(payload []byte) (string, []packet.IPNameEntry, []packet.IPNameEntry, bool) {
	setup()
	fr := UDPFrame(5353, 5353, netip.MustParseAddr("224.0.0.251"), payload)
	if fr == nil {
		return "", nil, nil, false
	}
	h := dn.VerifNew(Session)
	var v4, v6 []packet.IPNameEntry
	r := GuardProbe("mdns", h, func() string {
		frame, err := Session.Parse(fr)
		if err != nil || len(frame.Payload()) != len(payload) {
			return "noparse"
		}
		a, b, err := h.ProcessMDNS(frame)
		v4, v6 = a, b
		return fmt.Sprintf("ok v4=[%s] v6=[%s] err=%v", ipNames(a), ipNames(b), err != nil)
	})
	if r == "noparse" {
		return "", nil, nil, false
	}
	return r, v4, v6, true
}

func NBNS(payload []byte) string {
	setup()
	h := dn.VerifNew(Session)
	return GuardProbe("nbns", h, func() string {
		n, err := h.ProcessNBNS(nil, nil, Exact(payload))
		return fmt.Sprintf("ok %s %s err=%v", core.Hex([]byte(n.Type)), core.Hex([]byte(n.Name)), err != nil)
	})
}

// Slack marks a parseNodeNameArray result that depends on what lies beyond the slice length.
const Slack = " | spare-capacity: "

// NodeNames runs parseNodeNameArray twice: on a backing array that ends with the slice (every access
// past the length panics) and on the same bytes followed by 64 spare bytes of capacity (a re-slice
// past the length silently reads them).  The canonical result is the tight one; when the slack run
// differs it is appended after Slack.
func NodeNames(b []byte) string {
	run := func(buf []byte) string {
		return GuardOp("nbns.names", func() string {
			names, err := dn.VerifParseNodeNameArray(buf)
			if err != nil {
				return "err " + ErrName(err)
			}
			var s []string
			for _, n := range names {
				s = append(s, core.Hex([]byte(n)))
			}
			return "ok [" + strings.Join(s, ",") + "]"
		})
	}
	tight := run(Exact(b))
	roomy := make([]byte, len(b)+64)
	copy(roomy, b)
	for i := len(b); i < len(roomy); i++ {
		roomy[i] = 0x04 // would read as the flags of a unique name
	}
	if slack := run(roomy[:len(b)]); slack != tight {
		return tight + Slack + slack
	}
	return tight
}

func DecodeNBNSName(b []byte) string {
	return GuardOp("nbns.decode", func() string {
		n, name, err := dn.VerifDecodeNBNSName(Exact(b))
		if err != nil {
			return "err " + ErrName(err)
		}
		return fmt.Sprintf("ok %d %s", n, core.Hex([]byte(name)))
	})
}

// SSDP runs ProcessSSDP on the payload; returns outcome kind, the expiry in whole seconds from now
// (0 when the returned entry has no expiry) and the location.
func SSDP(payload []byte) (kind string, secs int64, name packet.NameEntry, loc string) {
	setup()
	h := dn.VerifNew(Session)
	before := time.Now()
	kind = GuardProbe("ssdp", h, func() string {
		n, l, err := h.ProcessSSDP(nil, nil, Exact(payload))
		name, loc = n, l
		if err != nil {
			return "err"
		}
		return "ok"
	})
	if kind == "ok" && !name.Expire.IsZero() {
		secs = int64(name.Expire.Sub(before).Round(time.Second) / time.Second)
	}
	return
}

func ParseTXT(txt []string) string {
	return GuardOp("mdns.txt", func() string { return "ok " + core.Hex([]byte(dn.VerifParseTXT(txt))) })
}

func EncodeName(name []byte, dataLen, off int) string {
	return GuardOp("dns.encname", func() string {
		data := make([]byte, dataLen)
		n := packet.VerifEncodeName(Exact(name), data, off)
		return fmt.Sprintf("ok %s %d", core.Hex(data), n)
	})
}

func EncodeQuery(id, flags uint16, name []byte, qt uint16) string {
	return GuardOp("dns.encquery", func() string {
		return "ok " + core.Hex(packet.EncodeDNSQuery(id, flags, Exact(name), qt))
	})
}

// SSDPFull is SSDP with the name of the returned error ("err <name>" | "ok" | panic | hang | …+blocked).
func SSDPFull(payload []byte) (kind string, secs int64, name packet.NameEntry, loc string) {
	setup()
	h := dn.VerifNew(Session)
	before := time.Now()
	kind = GuardProbe("ssdp", h, func() string {
		n, l, err := h.ProcessSSDP(nil, nil, Exact(payload))
		name, loc = n, l
		if err != nil {
			return "err " + ErrName(err)
		}
		return "ok"
	})
	if kind == "ok" && !name.Expire.IsZero() {
		secs = int64(name.Expire.Sub(before).Round(time.Second) / time.Second)
	}
	return
}
