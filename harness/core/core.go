// Package core: shared machinery of the correspondence harness — deterministic PRNG,
// the pipe to the compiled Lean model (pktmodel), batching, result accounting.
package core

import (
	"bufio"
	"encoding/hex"
	"encoding/json"
	"fmt"
	"io"
	"math/rand"
	"os"
	"os/exec"
	"runtime"
	"sort"
	"strings"
	"sync/atomic"
	"time"
)

// Case is one protocol line with the implementation's canonical answer.
type Case struct {
	Line    string // line sent to the model
	Impl    string // canonical result of the real code
	Class   string // generator class (for the distribution in the evidence)
	Trivial bool   // trivial by the property's rule (e.g. rejected at the first length test)
	// Cmp, when set, decides whether the model reply explains Impl (default: string equality).
	Cmp func(impl, model string) bool
	// Oracle, when set, is the property oracle evaluated on the implementation alone:
	// it returns "" when the property holds on this case, else a description of the failure
	// and (optionally) the id of the known finding whose matcher this failure satisfies.
	Oracle func() (what string, knownID string)
	// OracleR is like Oracle but also sees the model's reply line (the driver may append the
	// independent Lean `Spec.*` answer to the model's answer, e.g. "<model> | spec: <spec>").
	OracleR func(reply string) (what string, knownID string)
}

// Runner is one property's correspondence machinery: Gen produces cases (corpus first),
// Eval turns one protocol line back into a case (replay, corpus).
type Runner struct {
	Gen  func(c *Ctx)
	Eval func(c *Ctx, line string) *Case
}

type Disagreement struct {
	Line   string `json:"line"`
	Impl   string `json:"impl"`
	Model  string `json:"model"`
	Class  string `json:"class"`
	Oracle string `json:"oracle,omitempty"` // non-empty: the property fails on the implementation for this input
}

type Violation struct {
	Kind   string   `json:"kind"`   // "property" (concrete failing input) | "tie" (correspondence broke, no failing input)
	What   string   `json:"what"`   // description
	Replay []string `json:"replay"` // protocol lines reproducing it
	Known  string   `json:"known,omitempty"`
}

// Result is what a property run reports to ./check.
type Result struct {
	Property    string         `json:"property"`
	Seed        int64          `json:"seed"`
	Tier        string         `json:"tier"`
	Evaluations int            `json:"evaluations"`
	Distinct    int            `json:"distinct_nontrivial"`
	Rule        string         `json:"rule"`
	Samples     []string       `json:"samples"`
	Classes     map[string]int `json:"classes"`
	// ClassMaxBytes: per class, the longest hex argument (in bytes) of any evaluated line - shows at a glance
	// which generator families never reach frame-sized inputs (input distribution, evidence)
	ClassMaxBytes map[string]int `json:"class_max_input_bytes"`
	ImplKinds     map[string]int `json:"impl_result_kinds"`
	Disagreements []Disagreement `json:"disagreements"`
	TieBroken     int            `json:"tie_broken"`
	Violations    []Violation    `json:"violations"`
	KnownHits     map[string]int `json:"known_findings_replayed"`
	Extra         map[string]any `json:"extra,omitempty"`
	// Dropped counts generated lines that were NOT evaluated (could not be dispatched to the code
	// under test, outside an operation's domain, skipped after the hang budget), per class and reason.
	Dropped  map[string]int `json:"dropped"`
	distinct map[string]struct{}
}

// Out is the process's real stdout (os.Stdout is redirected to /dev/null to silence library prints).
var Out io.Writer = os.Stdout

type Ctx struct {
	Prop    string
	Seed    int64
	Tier    string // quick | thorough
	Rnd     *rand.Rand
	Model   string // path of pktmodel
	Corpus  string // corpus dir for this property
	Res     *Result
	batch   []Case
	Known   map[string]bool // ids of known findings for this property (from KNOWN_FINDINGS.txt)
	Verbose bool
	// Why is set by an Eval that returns nil to say why the line was not evaluated (read and reset by Drop).
	Why string
}

func NewCtx(prop string, seed int64, tier, model, corpus string) *Ctx {
	return &Ctx{Prop: prop, Seed: seed, Tier: tier, Rnd: rand.New(rand.NewSource(seed)), Model: model, Corpus: corpus,
		Known: map[string]bool{},
		Res: &Result{Property: prop, Seed: seed, Tier: tier, Classes: map[string]int{}, ClassMaxBytes: map[string]int{}, ImplKinds: map[string]int{},
			KnownHits: map[string]int{}, Extra: map[string]any{}, Dropped: map[string]int{}, distinct: map[string]struct{}{},
			Samples: []string{}, Disagreements: []Disagreement{}, Violations: []Violation{}}}
}

// Drop records that a generated line of the given class was not evaluated (Eval returned nil or the
// case was skipped); the reason is c.Why when the Eval left one.  The counts go into the evidence
// (coverage.dropped), and ./check enforces per-class floors on what WAS evaluated (checks.json class_floors).
func (c *Ctx) Drop(class, why string) {
	atomic.AddInt64(&progress, 1)
	if class == "corpus" && c.Why == "" {
		return // corpus files are shared by the sub-runners of a property: a line of another runner is not a drop
	}
	if c.Why != "" {
		why = c.Why
		c.Why = ""
	}
	c.Res.Dropped[class+": "+why]++
}

func (c *Ctx) Thorough() bool { return c.Tier == "thorough" }

// Scale returns q for the quick tier and t for the thorough tier.
func (c *Ctx) Scale(q, t int) int {
	if c.Thorough() {
		return t
	}
	return q
}

func Hex(b []byte) string {
	if len(b) == 0 {
		return "-"
	}
	return hex.EncodeToString(b)
}

func UnHex(s string) []byte {
	if s == "-" {
		return nil
	}
	b, err := hex.DecodeString(s)
	if err != nil {
		panic("bad hex in corpus: " + s)
	}
	return b
}

func (c *Ctx) RandBytes(n int) []byte {
	b := make([]byte, n)
	c.Rnd.Read(b)
	return b
}

// Add queues a case; batches are flushed to the model automatically.
func (c *Ctx) Add(cs Case) {
	atomic.AddInt64(&progress, 1)
	c.batch = append(c.batch, cs)
	if len(c.batch) >= 20000 {
		c.Flush()
	}
}

// maxHexBytes: length in bytes of the longest token of the line that consists of hex digits only
func maxHexBytes(line string) int {
	best, run := 0, 0
	for i := 0; i <= len(line); i++ {
		if i < len(line) && (line[i] >= '0' && line[i] <= '9' || line[i] >= 'a' && line[i] <= 'f') {
			run++
			continue
		}
		if run > best {
			best = run
		}
		run = 0
	}
	return best / 2
}

func kindOf(s string) string {
	f := strings.Fields(s)
	if len(f) == 0 {
		return "empty"
	}
	if f[0] == "err" && len(f) > 1 {
		return "err:" + f[1]
	}
	if f[0] == "ok" || f[0] == "panic" || f[0] == "hang" || f[0] == "timeout" {
		return f[0]
	}
	return "value"
}

// Flush pipes the queued lines through pktmodel and compares.
func (c *Ctx) Flush() {
	if len(c.batch) == 0 {
		return
	}
	replies := RunModel(c.Model, c.batch)
	for i, cs := range c.batch {
		r := c.Res
		r.Evaluations++
		r.Classes[cs.Class]++
		if n := maxHexBytes(cs.Line); n > r.ClassMaxBytes[cs.Class] {
			r.ClassMaxBytes[cs.Class] = n
		}
		r.ImplKinds[kindOf(cs.Impl)]++
		if !cs.Trivial {
			r.distinct[cs.Line] = struct{}{}
		}
		if len(r.Samples) < 12 && (r.Evaluations%97 == 1 || len(r.Samples) < 3) {
			r.Samples = append(r.Samples, cs.Line+" => "+cs.Impl)
		}
		ok := false
		if cs.Cmp != nil {
			ok = cs.Cmp(cs.Impl, replies[i])
		} else {
			ok = cs.Impl == replies[i]
		}
		orc, kid := "", ""
		if cs.Oracle != nil {
			orc, kid = cs.Oracle()
		}
		if orc == "" && cs.OracleR != nil {
			orc, kid = cs.OracleR(replies[i])
		}
		if orc != "" {
			c.Violate(Violation{Kind: "property", What: orc, Replay: []string{cs.Line}, Known: kid})
		}
		if !ok {
			r.TieBroken++
			if len(r.Disagreements) < 100 {
				r.Disagreements = append(r.Disagreements, Disagreement{Line: cs.Line, Impl: cs.Impl, Model: replies[i], Class: cs.Class, Oracle: orc})
			}
		}
		if c.Verbose {
			fmt.Fprintf(Out, "%s\n  impl : %s\n  model: %s\n  oracle: %q %s\n", cs.Line, cs.Impl, replies[i], orc, kid)
		}
	}
	c.batch = c.batch[:0]
}

// RunModel runs the lines through the model process and returns one reply per line.
func RunModel(model string, cases []Case) []string {
	cmd := exec.Command(model)
	stdin, _ := cmd.StdinPipe()
	stdout, _ := cmd.StdoutPipe()
	cmd.Stderr = os.Stderr
	if err := cmd.Start(); err != nil {
		fmt.Fprintln(os.Stderr, "cannot start model:", err)
		os.Exit(3)
	}
	go func() {
		w := bufio.NewWriterSize(stdin, 1<<20)
		for _, cs := range cases {
			w.WriteString(cs.Line)
			w.WriteByte('\n')
		}
		w.Flush()
		stdin.Close()
	}()
	out := make([]string, 0, len(cases))
	sc := bufio.NewScanner(stdout)
	sc.Buffer(make([]byte, 1<<20), 1<<26)
	for sc.Scan() {
		out = append(out, sc.Text())
	}
	cmd.Wait()
	for len(out) < len(cases) {
		out = append(out, "model-died")
	}
	return out
}

// Ask runs a few lines through the model synchronously (used by search stages).
func (c *Ctx) Ask(lines ...string) []string {
	cs := make([]Case, len(lines))
	for i, l := range lines {
		cs[i] = Case{Line: l}
	}
	return RunModel(c.Model, cs)
}

func (c *Ctx) Violate(v Violation) {
	if v.Known != "" && c.Known[v.Known] {
		c.Res.KnownHits[v.Known]++
		return
	}
	v.Known = ""
	// one entry per distinct kind of failure (keyed by the head of the description), shortest replay wins
	key := v.What
	if len(key) > 70 {
		key = key[:70]
	}
	size := func(x Violation) int {
		n := 0
		for _, l := range x.Replay {
			n += len(l)
		}
		return n
	}
	for i, o := range c.Res.Violations {
		ok := o.What
		if len(ok) > 70 {
			ok = ok[:70]
		}
		if ok == key {
			if size(v) < size(o) {
				c.Res.Violations[i] = v
			}
			return
		}
	}
	if len(c.Res.Violations) < 60 {
		c.Res.Violations = append(c.Res.Violations, v)
	}
}

// progress counts evaluated or dropped cases; the stall watchdog looks at it.
var progress int64

// Tick tells the stall watchdog that the run is alive (for phases that evaluate long traces before adding their cases).
func Tick() { atomic.AddInt64(&progress, 1) }

// Watch starts the stall watchdog: a library call that never returns (a mutex left locked by an earlier panic, a
// deadlock, an endless loop outside the per-call watchdogs of the runners) would otherwise hold the whole run until the
// check's own time limit and lose everything found so far.  When no case has been evaluated for `limit`, the oracles of
// the cases gathered since the last flush are evaluated (without the model), a violation describing the stall - with the
// stacks of the goroutines that stand inside the library - is recorded, the result file is written and the process ends.
// blocking: true for the properties whose statement forbids blocking (the stall is then a property violation and the
// lines evaluated last are its replay); otherwise the stall is reported as a check that could not be completed.
func (c *Ctx) Watch(out string, limit time.Duration, blocking bool) {
	go func() {
		last, since := int64(-1), time.Now()
		for {
			time.Sleep(2 * time.Second)
			if p := atomic.LoadInt64(&progress); p != last {
				last, since = p, time.Now()
				continue
			}
			if time.Since(since) < limit {
				continue
			}
			buf := make([]byte, 1<<22)
			buf = buf[:runtime.Stack(buf, true)]
			var lib []string
			for _, g := range strings.Split(string(buf), "\n\n") {
				if strings.Contains(g, "github.com/irai/packet") && !strings.Contains(g, "core.(*Ctx).Watch") {
					if len(g) > 1800 {
						g = g[:1800] + " …"
					}
					lib = append(lib, g)
				}
			}
			if len(lib) > 6 {
				lib = lib[:6]
			}
			var tail []string
			for i := len(c.batch) - 1; i >= 0 && len(tail) < 3; i-- {
				tail = append([]string{c.batch[i].Line}, tail...)
			}
			for _, cs := range c.batch { // keep what the oracles of the unflushed cases already know
				if cs.Oracle != nil {
					if orc, kid := cs.Oracle(); orc != "" {
						c.Violate(Violation{Kind: "property", What: orc, Replay: []string{cs.Line}, Known: kid})
					}
				}
				c.Res.Evaluations++
				c.Res.Classes[cs.Class]++
			}
			kind := "stall"
			if blocking {
				kind = "property"
			}
			c.Violate(Violation{Kind: kind, What: fmt.Sprintf("a library call did not return: no case was evaluated for %s (the run was stopped; lines evaluated last are given as context, the blocked call is the one AFTER them in the generator's order).  Goroutines standing inside the library:\n%s", limit, strings.Join(lib, "\n\n")), Replay: tail})
			c.batch = c.batch[:0]
			c.Res.Extra["stalled"] = true
			c.Finish(out)
			os.Exit(0)
		}
	}()
}

// Finish writes the result file.
func (c *Ctx) Finish(out string) {
	c.Flush()
	c.Res.Distinct = len(c.Res.distinct)
	if v, ok := c.Res.Extra["distinct_override"].(int); ok {
		c.Res.Distinct = v
	}
	if c.Res.Samples == nil {
		c.Res.Samples = []string{}
	}
	b, _ := json.MarshalIndent(c.Res, "", " ")
	if err := os.WriteFile(out, b, 0o644); err != nil {
		fmt.Fprintln(os.Stderr, err)
		os.Exit(3)
	}
}

// CorpusLines returns the protocol lines stored under corpus/<prop>/*.ops (sorted, comments skipped).
func (c *Ctx) CorpusLines() []string {
	var out []string
	ents, _ := os.ReadDir(c.Corpus)
	names := []string{}
	for _, e := range ents {
		if strings.HasSuffix(e.Name(), ".ops") {
			names = append(names, e.Name())
		}
	}
	sort.Strings(names)
	for _, n := range names {
		b, _ := os.ReadFile(c.Corpus + "/" + n)
		for _, l := range strings.Split(string(b), "\n") {
			l = strings.TrimSpace(l)
			if l == "" || strings.HasPrefix(l, "#") {
				continue
			}
			out = append(out, l)
		}
	}
	return out
}

// FrameCase is an oracle-only case for a frame the library wrote to the connection: the Lean reference wire
// decoder (Spec.Wire.wfAny) must accept it as a complete, length-consistent packet sourced from hostMAC.
func FrameCase(what string, hostMAC []byte, frame []byte) Case {
	return Case{Line: "wf any " + Hex(hostMAC) + " " + Hex(frame), Impl: "ok", Class: "emitted-frame", Cmp: func(a, b string) bool { return true },
		OracleR: func(reply string) (string, string) {
			if reply != "ok" {
				return what + ": reference decoder rejects a transmitted frame: " + reply, ""
			}
			return "", ""
		}}
}

// WithTimeout runs f in a goroutine; when it does not return within d the result is "hang"
// (the goroutine is abandoned – callers should stop issuing that operation).
func WithTimeout(d time.Duration, f func() string) string {
	ch := make(chan string, 1)
	go func() { ch <- Safely(f) }()
	select {
	case r := <-ch:
		return r
	case <-time.After(d):
	}
	// a loaded machine must not produce a false "hang": give the same call four times as long again
	select {
	case r := <-ch:
		return r
	case <-time.After(4 * d):
		return "hang"
	}
}

// Safely runs f converting a Go panic into the canonical outcome "panic".
func Safely(f func() string) (res string) {
	defer func() {
		if r := recover(); r != nil {
			res = "panic"
		}
	}()
	return f()
}
