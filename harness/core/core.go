// Package core: shared machinery of the correspondence harness — deterministic PRNG,
// the pipe to the compiled Lean model (pktmodel), batching, result accounting.
package core

import (
	"bufio"
	"encoding/hex"
	"encoding/json"
	"fmt"
	"io"
	"math"
	"math/rand"
	"os"
	"os/exec"
	"runtime"
	"sort"
	"strings"
	"sync/atomic"
	"time"
)

// Case is one protocol line with the implementation's canonical answer.
type Case struct {
	Line    string // line sent to the model
	Impl    string // canonical result of the real code
	Class   string // generator class (for the distribution in the evidence)
	Trivial bool   // trivial by the property's rule (e.g. rejected at the first length test)
	// Cmp, when set, decides whether the model reply explains Impl (default: string equality).
	Cmp func(impl, model string) bool
	// Oracle, when set, is the property oracle evaluated on the implementation alone:
	// it returns "" when the property holds on this case, else a description of the failure
	// and (optionally) the id of the known finding whose matcher this failure satisfies.
	Oracle func() (what string, knownID string)
	// OracleR is like Oracle but also sees the model's reply line (the driver may append the
	// independent Lean `Spec.*` answer to the model's answer, e.g. "<model> | spec: <spec>").
	OracleR func(reply string) (what string, knownID string)
}

// Runner is one property's correspondence machinery: Gen produces cases (corpus first),
// Eval turns one protocol line back into a case (replay, corpus).
type Runner struct {
	Gen  func(c *Ctx)
	Eval func(c *Ctx, line string) *Case
}

type Disagreement struct {
	Line   string `json:"line"`
	Impl   string `json:"impl"`
	Model  string `json:"model"`
	Class  string `json:"class"`
	Oracle string `json:"oracle,omitempty"` // non-empty: the property fails on the implementation for this input
}

type Violation struct {
	Kind   string   `json:"kind"`   // "property" (concrete failing input) | "tie" (correspondence broke, no failing input)
	What   string   `json:"what"`   // description
	Replay []string `json:"replay"` // protocol lines reproducing it
	Known  string   `json:"known,omitempty"`
}

// Result is what a property run reports to ./check.
type Result struct {
	Property    string         `json:"property"`
	Seed        int64          `json:"seed"`
	Tier        string         `json:"tier"`
	Evaluations int            `json:"evaluations"`
	Distinct    int            `json:"distinct_nontrivial"`
	Rule        string         `json:"rule"`
	Samples     []string       `json:"samples"`
	Classes     map[string]int `json:"classes"`
	// ClassMaxBytes: per class, the longest hex argument (in bytes) of any evaluated line - shows at a glance
	// which generator families never reach frame-sized inputs (input distribution, evidence)
	ClassMaxBytes map[string]int `json:"class_max_input_bytes"`
	ImplKinds     map[string]int `json:"impl_result_kinds"`
	Disagreements []Disagreement `json:"disagreements"`
	TieBroken     int            `json:"tie_broken"`
	Violations    []Violation    `json:"violations"`
	KnownHits     map[string]int `json:"known_findings_replayed"`
	Extra         map[string]any `json:"extra,omitempty"`
	// Dropped counts generated lines that were NOT evaluated (could not be dispatched to the code
	// under test, outside an operation's domain, skipped after the hang budget), per class and reason.
	Dropped  map[string]int `json:"dropped"`
	distinct map[string]struct{}
}

// Out is the process's real stdout (os.Stdout is redirected to /dev/null to silence library prints).
var Out io.Writer = os.Stdout

type Ctx struct {
	Prop    string
	Seed    int64
	Tier    string // quick | thorough
	Rnd     *rand.Rand
	Model   string // path of pktmodel
	Corpus  string // corpus dir for this property
	Res     *Result
	batch   []Case
	Known   map[string]bool // ids of known findings for this property (from KNOWN_FINDINGS.txt)
	Verbose bool
	// Why is set by an Eval that returns nil to say why the line was not evaluated (read and reset by Drop).
	Why string
	// Sharding (VERIF_SHARD="k/N", set by ./check for the properties with "shards" in checks.json): N harness
	// processes run side by side, each evaluates the generator units u with u % N == k and ./check adds the results
	// up.  A generator draws from c.Rnd for EVERY unit (so that all shards see the same stream) and only skips the
	// evaluation of units that are not its own.  Replay runs are never sharded.
	Shard, Shards int
	unit          int
	// pipelining: the batch handed to the model process while the generator goes on (joined by the next flush)
	inflight *inflight
	runner   *modelRunner
	lastAdd  time.Time
	classSec map[string]float64
	modelSec float64
}

type inflight struct {
	cases []Case
	ch    chan []string
}

// modelRunner: the two goroutines that run the model processes of the pipelined batches.  They are started with the
// context and live for the whole run, so the number of goroutines of the process does not change when a batch
// starts or ends - several generators count goroutines around a call of the library (leak checks, "wait until the
// senders the handler started are gone").
type modelRunner struct {
	jobs   chan *inflight
	writes chan writeJob
}

type writeJob struct {
	w     io.WriteCloser
	cases []Case
}

func writeCases(j writeJob) {
	w := bufio.NewWriterSize(j.w, 1<<20)
	for _, cs := range j.cases {
		w.WriteString(cs.Line)
		w.WriteByte('\n')
	}
	w.Flush()
	j.w.Close()
}

func startRunner(model string) *modelRunner {
	r := &modelRunner{jobs: make(chan *inflight), writes: make(chan writeJob)}
	go func() {
		for j := range r.writes {
			writeCases(j)
		}
	}()
	go func() {
		for f := range r.jobs {
			f.ch <- runModel(model, f.cases, func(j writeJob) { r.writes <- j })
		}
	}()
	return r
}

func NewCtx(prop string, seed int64, tier, model, corpus string) *Ctx {
	c := newCtx(prop, seed, tier, model, corpus)
	c.runner = startRunner(model)
	if k, n := 0, 0; os.Getenv("VERIF_SHARD") != "" {
		if _, err := fmt.Sscanf(os.Getenv("VERIF_SHARD"), "%d/%d", &k, &n); err == nil && n > 1 && k >= 0 && k < n {
			c.Shard, c.Shards = k, n
		}
	}
	return c
}

func newCtx(prop string, seed int64, tier, model, corpus string) *Ctx {
	return &Ctx{Prop: prop, Seed: seed, Tier: tier, Rnd: rand.New(rand.NewSource(seed)), Model: model, Corpus: corpus,
		Known: map[string]bool{},
		Res: &Result{Property: prop, Seed: seed, Tier: tier, Classes: map[string]int{}, ClassMaxBytes: map[string]int{}, ImplKinds: map[string]int{},
			KnownHits: map[string]int{}, Extra: map[string]any{}, Dropped: map[string]int{}, distinct: map[string]struct{}{},
			Samples: []string{}, Disagreements: []Disagreement{}, Violations: []Violation{}}}
}

// Drop records that a generated line of the given class was not evaluated (Eval returned nil or the
// case was skipped); the reason is c.Why when the Eval left one.  The counts go into the evidence
// (coverage.dropped), and ./check enforces per-class floors on what WAS evaluated (checks.json class_floors).
func (c *Ctx) Drop(class, why string) {
	atomic.AddInt64(&progress, 1)
	if class == "corpus" && c.Why == "" {
		return // corpus files are shared by the sub-runners of a property: a line of another runner is not a drop
	}
	if c.Why != "" {
		why = c.Why
		c.Why = ""
	}
	c.Res.Dropped[class+": "+why]++
}

// Mine: is generator unit u evaluated by this process (always, when the run is not sharded).
func (c *Ctx) Mine(u int) bool { return c.Shards <= 1 || u%c.Shards == c.Shard }

// NextMine numbers the units itself (round robin over the calls).
func (c *Ctx) NextMine() bool { c.unit++; return c.Mine(c.unit - 1) }

// First: the shard that runs what is not split (stages of a few cases, the schedule search).
func (c *Ctx) First() bool { return c.Shards <= 1 || c.Shard == 0 }

func (c *Ctx) Thorough() bool { return c.Tier == "thorough" }

// Scale returns q for the quick tier and t for the thorough tier.
func (c *Ctx) Scale(q, t int) int {
	if c.Thorough() {
		return t
	}
	return q
}

func Hex(b []byte) string {
	if len(b) == 0 {
		return "-"
	}
	return hex.EncodeToString(b)
}

func UnHex(s string) []byte {
	if s == "-" {
		return nil
	}
	b, err := hex.DecodeString(s)
	if err != nil {
		panic("bad hex in corpus: " + s)
	}
	return b
}

func (c *Ctx) RandBytes(n int) []byte {
	b := make([]byte, n)
	c.Rnd.Read(b)
	return b
}

// Add queues a case; batches are flushed to the model automatically.
func (c *Ctx) Add(cs Case) {
	atomic.AddInt64(&progress, 1)
	now := time.Now()
	if c.classSec == nil {
		c.classSec = map[string]float64{}
	} else {
		c.classSec[cs.Class] += now.Sub(c.lastAdd).Seconds() // generation + evaluation on the implementation, per class (evidence: seconds_by_class)
	}
	c.batch = append(c.batch, cs)
	if len(c.batch) >= 20000 {
		c.flushAsync()
	}
	c.lastAdd = time.Now()
}

// maxHexBytes: length in bytes of the longest token of the line that consists of hex digits only
func maxHexBytes(line string) int {
	best, run := 0, 0
	for i := 0; i <= len(line); i++ {
		if i < len(line) && (line[i] >= '0' && line[i] <= '9' || line[i] >= 'a' && line[i] <= 'f') {
			run++
			continue
		}
		if run > best {
			best = run
		}
		run = 0
	}
	return best / 2
}

func kindOf(s string) string {
	f := strings.Fields(s)
	if len(f) == 0 {
		return "empty"
	}
	if f[0] == "err" && len(f) > 1 {
		return "err:" + f[1]
	}
	if f[0] == "ok" || f[0] == "panic" || f[0] == "hang" || f[0] == "timeout" {
		return f[0]
	}
	return "value"
}

// Flush pipes the queued lines through pktmodel and compares; when it returns every case added so far is judged.
func (c *Ctx) Flush() {
	c.flushAsync()
	c.join()
}

// flushAsync hands the queued lines to a model process of their own and returns: the model works on batch k while
// the generator evaluates batch k+1 on the implementation.  The comparison and the oracles of a batch run on the
// caller's goroutine (join), in the order the cases were added, exactly as before - only the external process overlaps.
func (c *Ctx) flushAsync() {
	c.join()
	if len(c.batch) == 0 {
		return
	}
	f := &inflight{cases: c.batch, ch: make(chan []string, 1)}
	c.batch = nil
	c.runner.jobs <- f
	c.inflight = f
}

// join waits for the batch in flight and judges it.
func (c *Ctx) join() {
	f := c.inflight
	if f == nil {
		return
	}
	c.inflight = nil
	t0 := time.Now()
	replies := <-f.ch
	c.modelSec += time.Since(t0).Seconds()
	c.judge(f.cases, replies)
}

func (c *Ctx) judge(batch []Case, replies []string) {
	for i, cs := range batch {
		r := c.Res
		r.Evaluations++
		r.Classes[cs.Class]++
		if n := maxHexBytes(cs.Line); n > r.ClassMaxBytes[cs.Class] {
			r.ClassMaxBytes[cs.Class] = n
		}
		r.ImplKinds[kindOf(cs.Impl)]++
		if !cs.Trivial {
			r.distinct[cs.Line] = struct{}{}
		}
		if len(r.Samples) < 12 && (r.Evaluations%97 == 1 || len(r.Samples) < 3) {
			r.Samples = append(r.Samples, cs.Line+" => "+cs.Impl)
		}
		ok := false
		if cs.Cmp != nil {
			ok = cs.Cmp(cs.Impl, replies[i])
		} else {
			ok = cs.Impl == replies[i]
		}
		orc, kid := "", ""
		if cs.Oracle != nil {
			orc, kid = cs.Oracle()
		}
		if orc == "" && cs.OracleR != nil {
			orc, kid = cs.OracleR(replies[i])
		}
		if orc != "" {
			c.Violate(Violation{Kind: "property", What: orc, Replay: []string{cs.Line}, Known: kid})
		}
		if !ok {
			r.TieBroken++
			if len(r.Disagreements) < 100 {
				r.Disagreements = append(r.Disagreements, Disagreement{Line: cs.Line, Impl: cs.Impl, Model: replies[i], Class: cs.Class, Oracle: orc})
			}
		}
		if c.Verbose {
			fmt.Fprintf(Out, "%s\n  impl : %s\n  model: %s\n  oracle: %q %s\n", cs.Line, cs.Impl, replies[i], orc, kid)
		}
	}
}

// RunModel runs the lines through the model process and returns one reply per line.
func RunModel(model string, cases []Case) []string {
	return runModel(model, cases, func(j writeJob) { go writeCases(j) })
}

func runModel(model string, cases []Case, write func(writeJob)) []string {
	cmd := exec.Command(model)
	stdin, _ := cmd.StdinPipe()
	stdout, _ := cmd.StdoutPipe()
	cmd.Stderr = os.Stderr
	if err := cmd.Start(); err != nil {
		fmt.Fprintln(os.Stderr, "cannot start model:", err)
		os.Exit(3)
	}
	write(writeJob{w: stdin, cases: cases})
	out := make([]string, 0, len(cases))
	sc := bufio.NewScanner(stdout)
	sc.Buffer(make([]byte, 1<<20), 1<<26)
	for sc.Scan() {
		out = append(out, sc.Text())
	}
	cmd.Wait()
	for len(out) < len(cases) {
		out = append(out, "model-died")
	}
	return out
}

// Ask runs a few lines through the model synchronously (used by search stages).
func (c *Ctx) Ask(lines ...string) []string {
	cs := make([]Case, len(lines))
	for i, l := range lines {
		cs[i] = Case{Line: l}
	}
	return RunModel(c.Model, cs)
}

func (c *Ctx) Violate(v Violation) {
	if v.Known != "" && c.Known[v.Known] {
		c.Res.KnownHits[v.Known]++
		return
	}
	v.Known = ""
	// one entry per distinct kind of failure (keyed by the head of the description), shortest replay wins
	key := v.What
	if len(key) > 70 {
		key = key[:70]
	}
	size := func(x Violation) int {
		n := 0
		for _, l := range x.Replay {
			n += len(l)
		}
		return n
	}
	for i, o := range c.Res.Violations {
		ok := o.What
		if len(ok) > 70 {
			ok = ok[:70]
		}
		if ok == key {
			if size(v) < size(o) {
				c.Res.Violations[i] = v
			}
			return
		}
	}
	if len(c.Res.Violations) < 60 {
		c.Res.Violations = append(c.Res.Violations, v)
	}
}

// progress counts evaluated or dropped cases; the stall watchdog looks at it.
var progress int64

// Tick tells the stall watchdog that the run is alive (for phases that evaluate long traces before adding their cases).
func Tick() { atomic.AddInt64(&progress, 1) }

// Watch starts the stall watchdog: a library call that never returns (a mutex left locked by an earlier panic, a
// deadlock, an endless loop outside the per-call watchdogs of the runners) would otherwise hold the whole run until the
// check's own time limit and lose everything found so far.  When no case has been evaluated for `limit`, the oracles of
// the cases gathered since the last flush are evaluated (without the model), a violation describing the stall - with the
// stacks of the goroutines that stand inside the library - is recorded, the result file is written and the process ends.
// blocking: true for the properties whose statement forbids blocking (the stall is then a property violation and the
// lines evaluated last are its replay); otherwise the stall is reported as a check that could not be completed.
func (c *Ctx) Watch(out string, limit time.Duration, blocking bool) {
	go func() {
		last, since := int64(-1), time.Now()
		for {
			time.Sleep(2 * time.Second)
			if p := atomic.LoadInt64(&progress); p != last {
				last, since = p, time.Now()
				continue
			}
			if time.Since(since) < limit {
				continue
			}
			buf := make([]byte, 1<<22)
			buf = buf[:runtime.Stack(buf, true)]
			var lib []string
			for _, g := range strings.Split(string(buf), "\n\n") {
				if strings.Contains(g, "github.com/irai/packet") && !strings.Contains(g, "core.(*Ctx).Watch") {
					if len(g) > 1800 {
						g = g[:1800] + " …"
					}
					lib = append(lib, g)
				}
			}
			if len(lib) > 6 {
				lib = lib[:6]
			}
			var tail []string
			for i := len(c.batch) - 1; i >= 0 && len(tail) < 3; i-- {
				tail = append([]string{c.batch[i].Line}, tail...)
			}
			for _, cs := range c.batch { // keep what the oracles of the unflushed cases already know
				if cs.Oracle != nil {
					if orc, kid := cs.Oracle(); orc != "" {
						c.Violate(Violation{Kind: "property", What: orc, Replay: []string{cs.Line}, Known: kid})
					}
				}
				c.Res.Evaluations++
				c.Res.Classes[cs.Class]++
			}
			kind := "stall"
			if blocking {
				kind = "property"
			}
			c.Violate(Violation{Kind: kind, What: fmt.Sprintf("a library call did not return: no case was evaluated for %s (the run was stopped; lines evaluated last are given as context, the blocked call is the one AFTER them in the generator's order).  Goroutines standing inside the library:\n%s", limit, strings.Join(lib, "\n\n")), Replay: tail})
			c.batch = c.batch[:0]
			c.Res.Extra["stalled"] = true
			c.Finish(out)
			os.Exit(0)
		}
	}()
}

// Finish writes the result file.
func (c *Ctx) Finish(out string) {
	c.Flush()
	if _, ok := c.Res.Extra["seconds_by_class"]; !ok && len(c.classSec) > 0 {
		sec := map[string]float64{}
		for k, v := range c.classSec {
			sec[k] = math.Round(v*10) / 10
		}
		c.Res.Extra["seconds_by_class"] = sec
		c.Res.Extra["seconds_waiting_for_model"] = math.Round(c.modelSec*10) / 10
	}
	c.Res.Distinct = len(c.Res.distinct)
	if v, ok := c.Res.Extra["distinct_override"].(int); ok {
		c.Res.Distinct = v
	}
	if c.Res.Samples == nil {
		c.Res.Samples = []string{}
	}
	b, _ := json.MarshalIndent(c.Res, "", " ")
	if err := os.WriteFile(out, b, 0o644); err != nil {
		fmt.Fprintln(os.Stderr, err)
		os.Exit(3)
	}
}

// CorpusLines returns the protocol lines stored under corpus/<prop>/*.ops (sorted, comments skipped).
func (c *Ctx) CorpusLines() []string {
	var out []string
	ents, _ := os.ReadDir(c.Corpus)
	names := []string{}
	for _, e := range ents {
		if strings.HasSuffix(e.Name(), ".ops") {
			names = append(names, e.Name())
		}
	}
	sort.Strings(names)
	for _, n := range names {
		b, _ := os.ReadFile(c.Corpus + "/" + n)
		for _, l := range strings.Split(string(b), "\n") {
			l = strings.TrimSpace(l)
			if l == "" || strings.HasPrefix(l, "#") {
				continue
			}
			out = append(out, l)
		}
	}
	return out
}

// FrameCase is an oracle-only case for a frame the library wrote to the connection: the Lean reference wire
// decoder (Spec.Wire.wfAny) must accept it as a complete, length-consistent packet sourced from hostMAC.
func FrameCase(what string, hostMAC []byte, frame []byte) Case {
	return Case{Line: "wf any " + Hex(hostMAC) + " " + Hex(frame), Impl: "ok", Class: "emitted-frame", Cmp: func(a, b string) bool { return true },
		OracleR: func(reply string) (string, string) {
			if reply != "ok" {
				return what + ": reference decoder rejects a transmitted frame: " + reply, ""
			}
			return "", ""
		}}
}

// WithTimeout runs f in a goroutine; when it does not return within d the result is "hang"
// (the goroutine is abandoned – callers should stop issuing that operation).
func WithTimeout(d time.Duration, f func() string) string {
	ch := make(chan string, 1)
	go func() { ch <- Safely(f) }()
	select {
	case r := <-ch:
		return r
	case <-time.After(d):
	}
	// a loaded machine must not produce a false "hang": give the same call four times as long again
	select {
	case r := <-ch:
		return r
	case <-time.After(4 * d):
		return "hang"
	}
}

// Safely runs f converting a Go panic into the canonical outcome "panic".
func Safely(f func() string) (res string) {
	defer func() {
		if r := recover(); r != nil {
			res = "panic"
		}
	}()
	return f()
}
