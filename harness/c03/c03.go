// Package c03: encoders and decoders are mutually inverse (Ethernet, IPv4, IPv6, UDP, ARP, ICMP echo,
// NDP NS/NA) — the library encoders are called directly on buffers of arbitrary capacity.
// Tie: the Lean memory model of the same composition must produce the same bytes / error / panic.
// Oracles: the Lean reference wire decoder (Spec.Wire) accepts the frame with the supplied values, the
// library's own views read back the supplied values, Parse classifies a composed Ethernet/IP/UDP frame as
// the encoded protocol, and AppendPayload rejects what does not fit without writing past the buffer.
package c03

import (
	"bytes"
	"errors"
	"fmt"
	"net"
	"net/netip"
	"strconv"
	"strings"
	"syscall"

	"github.com/irai/packet"
	"verif/harness/core"
	"verif/harness/frames"
	"verif/harness/sess"
)

var session *packet.Session

func ipOf(b []byte) netip.Addr {
	switch len(b) {
	case 4:
		return netip.AddrFrom4(*(*[4]byte)(b))
	case 16:
		return netip.AddrFrom16(*(*[16]byte)(b))
	}
	return netip.Addr{}
}

func hx(b []byte) string { return core.Hex(b) }

// rfc1071 returns the ones-complement of the ones-complement sum of b (0 for data that carries a valid checksum).
func rfc1071(b []byte) uint16 {
	var sum uint32
	for i := 0; i+1 < len(b); i += 2 {
		sum += uint32(b[i])<<8 | uint32(b[i+1])
	}
	if len(b)%2 == 1 {
		sum += uint32(b[len(b)-1]) << 8
	}
	for sum>>16 != 0 {
		sum = sum&0xffff + sum>>16
	}
	return ^uint16(sum)
}

func short(s string) string {
	if len(s) > 60 {
		return s[:60] + "…"
	}
	return s
}

func errStr(err error) string {
	if errors.Is(err, packet.ErrPayloadTooBig) {
		return "err ErrPayloadTooBig"
	}
	return "err other"
}

// guard region behind the buffer to detect writes past the capacity
const guardLen = 64

func mkbuf(capacity int, poison byte) (buf []byte, full []byte) {
	full = make([]byte, capacity+guardLen)
	for i := range full {
		full[i] = poison
	}
	for i := capacity; i < len(full); i++ {
		full[i] = 0x5c
	}
	return full[:capacity:capacity], full
}

func guardIntact(full []byte, capacity int) bool {
	for i := capacity; i < len(full); i++ {
		if full[i] != 0x5c {
			return false
		}
	}
	return true
}

var udpClass = []struct {
	side string
	port int
	pid  int
}{{"e", 443, 14}, {"d", 67, 10}, {"d", 68, 10}, {"d", 546, 11}, {"d", 547, 11}, {"e", 53, 12}, {"e", 5353, 13}, {"e", 5355, 21}, {"e", 123, 15},
	{"e", 1900, 16}, {"e", 3702, 17}, {"d", 137, 18}, {"d", 138, 18}, {"d", 32412, 19}, {"d", 32414, 19}, {"e", 10001, 20}}

func classOf(sp, dp int) int {
	for _, r := range udpClass {
		if (r.side == "e" && (sp == r.port || dp == r.port)) || (r.side == "d" && dp == r.port) {
			return r.pid
		}
	}
	return 8
}

// Eval lines:
//
//	compose udp4|udp6 <cap> <poison> <srcMAC> <dstMAC> <ttl> <sip> <dip> <sp> <dp> <payload>
//	compose icmp4|icmp6 <cap> <poison> <srcMAC> <dstMAC> <ttl> <sip> <dip> <id> <seq> <data>      (echo request through Encode*/AppendPayload/SetPayload)
//	compose arp <cap> <poison> <hostMAC> <dst> <op> <smac> <sip> <tmac> <tip>
//	append ether <cap> <ethertype> <payloadlen> <payloadcap>
//	msg echo <t> <code> <id> <seq> <data> | msg na <r> <s> <o> <ip> <mac> | msg ns <ip> <mac>
func Eval(c *core.Ctx, line string) *core.Case {
	cs := EvalAll(c, line)
	if len(cs) == 0 {
		return nil
	}
	for _, x := range cs[1:] {
		c.Add(*x)
	}
	return cs[0]
}

func EvalAll(c *core.Ctx, line string) []*core.Case {
	f := strings.Fields(line)
	if len(f) < 3 {
		return nil
	}
	atoi := func(s string) int { n, _ := strconv.Atoi(s); return n }
	switch f[0] {
	case "compose":
		kind := f[1]
		capacity := atoi(f[2])
		pb := core.UnHex(f[3])
		if len(pb) != 1 || capacity > 70000 {
			return nil
		}
		a := f[4:]
		buf, full := mkbuf(capacity, pb[0])
		var frame []byte
		var impl string
		pool := f[3] + ":" + f[2]
		var sendLine, wfLine string
		var viewOracle func() string
		switch kind {
		case "udp4", "udp6":
			if len(a) != 8 {
				return nil
			}
			sm, dm, ttl, sip, dip, sp, dp, pl := core.UnHex(a[0]), core.UnHex(a[1]), atoi(a[2]), core.UnHex(a[3]), core.UnHex(a[4]), atoi(a[5]), atoi(a[6]), core.UnHex(a[7])
			impl = core.Safely(func() string {
				var err error
				if kind == "udp4" {
					ether := packet.EncodeEther(packet.Ether(buf), syscall.ETH_P_IP, sm, dm)
					ip4 := packet.EncodeIP4(ether.Payload(), byte(ttl), ipOf(sip), ipOf(dip))
					udp := packet.EncodeUDP(ip4.Payload(), uint16(sp), uint16(dp))
					if udp, err = udp.AppendPayload(pl); err != nil {
						return errStr(err)
					}
					ip4 = ip4.SetPayload(udp, syscall.IPPROTO_UDP)
					if ether, err = ether.SetPayload(ip4); err != nil {
						return errStr(err)
					}
					frame = ether
				} else {
					ether := packet.EncodeEther(packet.Ether(buf), syscall.ETH_P_IPV6, sm, dm)
					if cap(ether.Payload()) < 40 {
						return "skip" // EncodeIP6 allocates a private buffer: not an in-place composition
					}
					ip6 := packet.EncodeIP6(ether.Payload(), byte(ttl), ipOf(sip), ipOf(dip))
					udp := packet.EncodeUDP(ip6.Payload(), uint16(sp), uint16(dp))
					if udp, err = udp.AppendPayload(pl); err != nil {
						return errStr(err)
					}
					ip6 = ip6.SetPayload(udp, syscall.IPPROTO_UDP)
					if ether, err = ether.SetPayload(ip6); err != nil {
						return errStr(err)
					}
					frame = ether
				}
				return "ok " + hx(frame)
			})
			if impl == "skip" {
				return nil
			}
			sendLine = fmt.Sprintf("compose-%s %s %s %s %d %s %s %d %d %s", kind, pool, a[0], a[1], ttl, a[3], a[4], sp, dp, a[7])
			if len(sm) == 6 && len(dm) == 6 && ((kind == "udp4" && len(sip) == 4 && len(dip) == 4) || (kind == "udp6" && len(sip) == 16 && len(dip) == 16)) {
				wfLine = fmt.Sprintf("wf %s %s %s %s %s %d %d %s", kind, a[0], a[1], a[3], a[4], sp, dp, a[7])
				if kind == "udp6" {
					wfLine = "" // the library's UDP encoder writes no checksum; over IPv6 that is the sender's job (sendMDNS does it) – the reference framing check is done through C07
				}
			}
			viewOracle = func() string {
				if session == nil {
					session, _ = sess.New(nil)
				}
				if len(sm) != 6 || len(dm) != 6 || sm[0]&1 == 1 {
					return ""
				}
				// the same frame as it arrives from the wire: frames below the Ethernet minimum are padded with zeros
				// (Ether.AppendPayload pads to 60 bytes as well); padding must not make a well-formed datagram invalid
				if len(frame) < 60 {
					padded := append(append([]byte{}, frame...), make([]byte, 60-len(frame))...)
					pf, perr := session.Parse(padded)
					if perr != nil {
						return "Parse rejects a frame composed by the library's own encoders once it is padded to the Ethernet minimum of 60 bytes: " + perr.Error()
					}
					if want := classOf(sp, dp); int(pf.PayloadID) != want {
						return fmt.Sprintf("composed UDP frame %d->%d padded to 60 bytes is classified as PayloadID %d, expected %d", sp, dp, pf.PayloadID, want)
					}
					if pu := pf.UDP(); pu == nil || int(pu.SrcPort()) != sp || int(pu.DstPort()) != dp || int(pu.Len()) != 8+len(pl) {
						return "library UDP view of the padded frame does not read back the encoded ports/length"
					}
				}
				fr, err := session.Parse(frame)
				if err != nil {
					return "Parse rejects a frame composed by the library's own encoders: " + err.Error()
				}
				if want := classOf(sp, dp); int(fr.PayloadID) != want {
					return fmt.Sprintf("composed UDP frame %d->%d classified as PayloadID %d, expected %d", sp, dp, fr.PayloadID, want)
				}
				u := fr.UDP()
				if u == nil || int(u.SrcPort()) != sp || int(u.DstPort()) != dp || int(u.Len()) != 8+len(pl) || !bytes.Equal(u.Payload(), pl) {
					return "library UDP view does not read back the encoded ports/length/payload"
				}
				if kind == "udp4" {
					ip := fr.IP4()
					if ip == nil || ip.TotalLen() != 28+len(pl) || int(ip.Protocol()) != 17 || int(ip.TTL()) != ttl || !bytes.Equal(ip.Payload(), u) {
						return "library IP4 view does not read back consistent length fields"
					}
					if len(sip) == 4 && (ip.Src() != ipOf(sip) || ip.Dst() != ipOf(dip)) {
						return "library IP4 view does not read back the encoded addresses"
					}
					if rfc1071(frame[14:34]) != 0 {
						return fmt.Sprintf("IPv4 header checksum of the composed frame does not verify (header %x)", frame[14:34])
					}
				} else {
					ip := fr.IP6()
					if ip == nil || int(ip.PayloadLen()) != 8+len(pl) || int(ip.NextHeader()) != 17 || int(ip.HopLimit()) != ttl {
						return "library IP6 view does not read back consistent length fields"
					}
				}
				return ""
			}
		case "icmp4", "icmp6":
			if len(a) != 8 {
				return nil
			}
			sm, dm, ttl, sip, dip, id, seq, data := core.UnHex(a[0]), core.UnHex(a[1]), atoi(a[2]), core.UnHex(a[3]), core.UnHex(a[4]), atoi(a[5]), atoi(a[6]), core.UnHex(a[7])
			var msg []byte
			impl = core.Safely(func() string {
				var err error
				if kind == "icmp4" {
					msg = packet.EncodeICMPEcho(make([]byte, 8+len(data)), 8, 0, uint16(id), uint16(seq), data)
					ether := packet.EncodeEther(packet.Ether(buf), syscall.ETH_P_IP, sm, dm)
					ip4 := packet.EncodeIP4(ether.Payload(), byte(ttl), ipOf(sip), ipOf(dip))
					if ip4, err = ip4.AppendPayload(msg, syscall.IPPROTO_ICMP); err != nil {
						return errStr(err)
					}
					if ether, err = ether.SetPayload(ip4); err != nil {
						return errStr(err)
					}
					frame = ether
				} else {
					msg = packet.EncodeICMPEcho(make([]byte, 8+len(data)), 128, 0, uint16(id), uint16(seq), data)
					ether := packet.EncodeEther(packet.Ether(buf), syscall.ETH_P_IPV6, sm, dm)
					if cap(ether.Payload()) < 40 {
						return "skip"
					}
					ip6 := packet.EncodeIP6(ether.Payload(), byte(ttl), ipOf(sip), ipOf(dip))
					if ip6, err = ip6.AppendPayload(msg, syscall.IPPROTO_ICMPV6); err != nil {
						return errStr(err)
					}
					if ether, err = ether.SetPayload(ip6); err != nil {
						return errStr(err)
					}
					frame = ether
				}
				return "ok " + hx(frame)
			})
			if impl == "skip" {
				return nil
			}
			sendLine = fmt.Sprintf("compose-%s %s %s %s %d %s %s %d %d %s", kind, pool, a[0], a[1], ttl, a[3], a[4], id, seq, a[7])
			viewOracle = func() string {
				off := 34
				if kind == "icmp6" {
					off = 54
				}
				e := packet.ICMPEcho(frame[off:])
				if e.IsValid() != nil || int(e.EchoID()) != id || int(e.EchoSeq()) != seq || !bytes.Equal(e.EchoData(), data) && len(data) > 0 {
					return "library ICMPEcho view does not read back id/seq/data"
				}
				if kind == "icmp4" {
					// the header IP4.AppendPayload completed: lengths, protocol and a header checksum that
					// verifies (RFC 791: the ones-complement sum over the header, checksum field included, is 0xffff)
					ip := frame[14:34]
					if int(ip[2])<<8|int(ip[3]) != 28+len(data) || ip[9] != 1 || int(ip[8]) != ttl {
						return "IPv4 header of the composed frame does not carry the total length / protocol / TTL supplied"
					}
					if rfc1071(ip) != 0 {
						return fmt.Sprintf("IPv4 header checksum of the composed frame does not verify (header %x)", ip)
					}
					// (EncodeICMPEcho leaves the ICMP checksum to the send path – icmp4SendPacket fills it in; C07/C15)
				}
				return ""
			}
		case "arp":
			if len(a) != 7 {
				return nil
			}
			hm, dst, op, smac, sip, tmac, tip := core.UnHex(a[0]), core.UnHex(a[1]), atoi(a[2]), core.UnHex(a[3]), core.UnHex(a[4]), core.UnHex(a[5]), core.UnHex(a[6])
			impl = core.Safely(func() string {
				ether := packet.EncodeEther(packet.Ether(buf), syscall.ETH_P_ARP, hm, dst)
				arp := packet.EncodeARP(ether.Payload(), uint16(op), packet.Addr{MAC: net.HardwareAddr(smac), IP: ipOf(sip)}, packet.Addr{MAC: net.HardwareAddr(tmac), IP: ipOf(tip)})
				ether, err := ether.SetPayload(arp)
				if err != nil {
					return errStr(err)
				}
				frame = ether
				return "ok " + hx(frame)
			})
			sendLine = fmt.Sprintf("send arp %s %s %s %d %s %s %s %s", pool, a[0], a[1], op, a[3], a[4], a[5], a[6])
			if len(hm) == 6 && len(dst) == 6 && len(sip) == 4 && len(tip) == 4 && len(smac) == 6 && len(tmac) == 6 {
				wfLine = fmt.Sprintf("wf arp %s %s %d %s %s %s %s", a[0], a[1], op, a[3], a[4], a[5], a[6])
			}
			viewOracle = func() string {
				v := packet.ARP(frame[14:])
				if err := v.IsValid(); err != nil {
					return "library ARP view rejects the library's own encoding: " + err.Error()
				}
				if int(v.Operation()) != op || !bytes.Equal(v.SrcMAC(), smac[:6]) || !bytes.Equal(v.DstMAC(), tmac[:6]) {
					return "library ARP view does not read back operation/MACs"
				}
				if len(sip) == 4 && (v.SrcIP() != ipOf(sip) || v.DstIP() != ipOf(tip)) {
					return "library ARP view does not read back the IPs"
				}
				return ""
			}
		default:
			return nil
		}
		// headers + payload of this composition (for the "rejects only what does not fit" oracle)
		need := -1
		switch kind {
		case "udp4":
			need = 42 + len(core.UnHex(a[7]))
		case "udp6":
			need = 62 + len(core.UnHex(a[7]))
		case "icmp4":
			need = 42 + len(core.UnHex(a[7]))
		case "icmp6":
			need = 62 + len(core.UnHex(a[7]))
		}
		out := []*core.Case{{Line: sendLine, Impl: impl, Class: "compose-" + kind, Trivial: !strings.HasPrefix(impl, "ok "),
			Oracle: func() (string, string) {
				if !guardIntact(full, capacity) {
					return "encoder wrote past the capacity of the buffer it was given", ""
				}
				if impl == "err ErrPayloadTooBig" && need >= 0 && need <= capacity && need-14 < 65536 {
					return fmt.Sprintf("AppendPayload rejects a payload that fits: %d bytes needed, buffer capacity %d", need, capacity), ""
				}
				if strings.HasPrefix(impl, "ok ") && need > capacity {
					return fmt.Sprintf("composition succeeded although %d bytes are needed and the buffer holds %d", need, capacity), ""
				}
				if strings.HasPrefix(impl, "ok ") && viewOracle != nil {
					return viewOracle(), ""
				}
				return "", ""
			},
			// the capacity clause: where the model (udp4_too_big, … : theorems) rejects with ErrPayloadTooBig the
			// implementation must do the same, not panic or write on
			OracleR: func(reply string) (string, string) {
				if reply == "err ErrPayloadTooBig" && impl != reply {
					return fmt.Sprintf("a payload exceeding the remaining capacity (%d bytes needed, buffer holds %d) must be rejected with ErrPayloadTooBig; the encoders returned %s", need, capacity, short(impl)), ""
				}
				return "", ""
			}}}
		if strings.HasPrefix(impl, "ok ") && wfLine != "" {
			w := &core.Case{Line: wfLine + " " + impl[3:], Impl: "ok", Class: "wf-" + kind, Cmp: func(a, b string) bool { return true },
				OracleR: func(reply string) (string, string) {
					if reply != "ok" {
						return "reference decoder rejects a frame built by the library encoders: " + reply, ""
					}
					return "", ""
				}}
			out = append(out, w)
		}
		return out
	case "append":
		if len(f) != 6 || f[1] != "ether" {
			return nil
		}
		capacity, et, plen, pcap := atoi(f[2]), atoi(f[3]), atoi(f[4]), atoi(f[5])
		if pcap < plen || capacity > 70000 || pcap > 70000 {
			return nil
		}
		buf, full := mkbuf(capacity, 0x11)
		payload := make([]byte, plen, pcap)
		impl := core.Safely(func() string {
			ether := packet.EncodeEther(packet.Ether(buf), uint16(et), make([]byte, 6), make([]byte, 6))
			r, err := ether.AppendPayload(payload)
			if err != nil {
				return errStr(err)
			}
			return fmt.Sprintf("ok %d", len(r))
		})
		return []*core.Case{{Line: fmt.Sprintf("append ether 11:%d %d %d %d", capacity, et, plen, pcap), Impl: impl, Class: "ether-append",
			Oracle: func() (string, string) {
				if !guardIntact(full, capacity) {
					return "Ether.AppendPayload wrote past the capacity of the buffer", ""
				}
				if impl == "panic" && plen+14 <= capacity && capacity >= 60 && pcap == plen && et != 0x8100 && et != 0x88a8 { // EncodeEther builds untagged frames
					return "Ether.AppendPayload panics although the payload fits", ""
				}
				return "", ""
			}}}
	case "msg":
		switch f[1] {
		case "echo":
			if len(f) != 7 {
				return nil
			}
			data := core.UnHex(f[6])
			dirty := make([]byte, 8+len(data)) // a reused buffer: every byte of the message must be written
			for i := range dirty {
				dirty[i] = 0xd7 ^ byte(i)
			}
			b := packet.EncodeICMPEcho(dirty, byte(atoi(f[2])), byte(atoi(f[3])), uint16(atoi(f[4])), uint16(atoi(f[5])), data)
			return []*core.Case{{Line: line, Impl: hx(b), Class: "msg-echo",
				Oracle: func() (string, string) {
					if len(b) >= 4 && (b[2] != 0 || b[3] != 0) {
						return "EncodeICMPEcho leaves the checksum field of a reused buffer unwritten (the send paths compute the checksum over the message as given)", ""
					}
					return "", ""
				}}}
		case "na":
			if len(f) != 7 {
				return nil
			}
			ip, mac := core.UnHex(f[5]), core.UnHex(f[6])
			b := packet.ICMP6NeighborAdvertisementMarshal(f[2] == "1", f[3] == "1", f[4] == "1", packet.Addr{MAC: mac, IP: ipOf(ip)})
			return []*core.Case{{Line: line, Impl: hx(b), Class: "msg-na",
				Oracle: func() (string, string) {
					v := packet.ICMP6NeighborAdvertisement(b)
					if v.IsValid() != nil || v.Type() != 136 || v.Router() != (f[2] == "1") || v.Solicited() != (f[3] == "1") || v.Override() != (f[4] == "1") {
						return "NA marshal does not decode to the supplied flags through the library view", ""
					}
					if len(ip) == 16 && v.TargetAddress() != ipOf(ip) {
						return "NA marshal: target address not read back", ""
					}
					if len(mac) == 6 && !bytes.Equal(v.TargetLLA(), mac) {
						return "NA marshal: target link-layer address option not read back", ""
					}
					return "", ""
				}}}
		case "ns":
			if len(f) != 4 {
				return nil
			}
			ip, mac := core.UnHex(f[2]), core.UnHex(f[3])
			b, _ := packet.ICMP6NeighborSolicitationMarshal(ipOf(ip), mac)
			return []*core.Case{{Line: line, Impl: hx(b), Class: "msg-ns",
				Oracle: func() (string, string) {
					v := packet.ICMP6NeighborSolicitation(b)
					if v.IsValid() != nil || v.Type() != 135 {
						return "NS marshal does not produce a valid neighbour solicitation", ""
					}
					if len(ip) == 16 && v.TargetAddress() != ipOf(ip) {
						return "NS marshal: target address not read back", ""
					}
					if len(mac) == 6 && !bytes.Equal(v.SourceLLA(), mac) {
						return "NS marshal: source link-layer address option not read back by the library's own SourceLLA()", ""
					}
					return "", ""
				}}}
		}
	}
	return nil
}

func add(c *core.Ctx, line string) {
	for _, cs := range EvalAll(c, line) {
		c.Add(*cs)
	}
}

func Gen(c *core.Ctx) {
	c.Res.Rule = "library encoders called directly: Ethernet+IPv4/IPv6+UDP and +ICMP echo compositions, Ethernet+ARP, with all MAC/IP/port/ttl/id/seq values random or boundary, every UDP port class, payload lengths 0..MTU and around the remaining capacity, buffer capacities from 0 to 1522 and beyond with a guard region behind the buffer; Ether.AppendPayload with payload len/cap around the room; NDP NS/NA marshal. distinct = distinct protocol lines; non-trivial = encoder returned a frame"
	for _, l := range c.CorpusLines() {
		add(c, l)
	}
	r := c.Rnd
	mac := func() string {
		m := c.RandBytes(6)
		m[0] &^= 1
		return hx(m)
	}
	N := c.Scale(1200, 40000)
	for i := 0; i < N; i++ {
		capacity := 1522
		switch r.Intn(6) {
		case 0:
			capacity = r.Intn(120)
		case 1:
			capacity = 60 + r.Intn(1600)
		}
		plen := r.Intn(64)
		switch r.Intn(8) {
		case 0:
			plen = r.Intn(1600)
		case 1: // around the remaining room
			plen = capacity - 42 + r.Intn(5) - 2
			if plen < 0 {
				plen = 0
			}
		}
		po := hx([]byte{byte(r.Intn(256))})
		sp, dp := frames.Pick(r, frames.Ports), frames.Pick(r, frames.Ports)
		if r.Intn(3) == 0 {
			sp, dp = r.Intn(65536), r.Intn(65536)
		}
		add(c, fmt.Sprintf("compose udp4 %d %s %s %s %d %s %s %d %d %s", capacity, po, mac(), mac(), r.Intn(256), hx(c.RandBytes(4)), hx(c.RandBytes(4)), sp, dp, hx(c.RandBytes(plen))))
		plen6 := plen
		if plen6 > 20 && r.Intn(2) == 0 {
			plen6 -= 20
		}
		add(c, fmt.Sprintf("compose udp6 %d %s %s %s %d %s %s %d %d %s", capacity, po, mac(), mac(), r.Intn(256), hx(c.RandBytes(16)), hx(c.RandBytes(16)), sp, dp, hx(c.RandBytes(plen6))))
		add(c, fmt.Sprintf("compose icmp4 %d %s %s %s %d %s %s %d %d %s", capacity, po, mac(), mac(), r.Intn(256), hx(c.RandBytes(4)), hx(c.RandBytes(4)), r.Intn(65536), r.Intn(65536), hx(c.RandBytes(plen))))
		add(c, fmt.Sprintf("compose icmp6 %d %s %s %s %d %s %s %d %d %s", capacity, po, mac(), mac(), r.Intn(256), hx(c.RandBytes(16)), hx(c.RandBytes(16)), r.Intn(65536), r.Intn(65536), hx(c.RandBytes(plen6))))
		acap := []int{1522, 42, 41, 43, 60, 14 + r.Intn(40)}[r.Intn(6)]
		add(c, fmt.Sprintf("compose arp %d %s %s %s %d %s %s %s %s", acap, po, mac(), mac(), 1+r.Intn(2), mac(), hx(c.RandBytes(4)), mac(), hx(c.RandBytes(4))))
		pl := r.Intn(80)
		pc := pl + []int{0, 0, 0, 1, 8, 2000}[r.Intn(6)]
		add(c, fmt.Sprintf("append ether %d %d %d %d", []int{1522, 60, 100, 14 + pl, 13 + pl, 15 + pl, 59}[r.Intn(7)], []int{0x0800, 0x86dd, 0x8100, 0x88a8}[r.Intn(4)], pl, pc))
		add(c, fmt.Sprintf("msg echo %d %d %d %d %s", r.Intn(256), r.Intn(256), r.Intn(65536), r.Intn(65536), hx(c.RandBytes(r.Intn(40)))))
		add(c, fmt.Sprintf("msg na %d %d %d %s %s", r.Intn(2), r.Intn(2), r.Intn(2), hx(c.RandBytes(16)), mac()))
		add(c, fmt.Sprintf("msg ns %s %s", hx(c.RandBytes(16)), mac()))
	}
	// unusual argument shapes: nil / short MACs, IPv4 where IPv6 is expected and vice versa, zero Addr
	for _, m := range []string{"-", "0102", "010203040506", "01020304050607"} {
		for _, ip := range []string{"-", "c0a80001", "fe800000000000000000000000000001"} {
			add(c, fmt.Sprintf("compose udp4 1522 aa %s 020000000001 64 %s %s 53 53 0102", m, ip, ip))
			add(c, fmt.Sprintf("compose udp6 1522 aa 020000000001 %s 64 %s %s 53 53 0102", m, ip, ip))
			add(c, fmt.Sprintf("compose arp 1522 aa 020000000001 ffffffffffff 1 %s %s 020000000002 %s", m, ip, ip))
			add(c, fmt.Sprintf("msg na 0 0 1 %s %s", ip, m))
			add(c, fmt.Sprintf("msg ns %s %s", ip, m))
		}
	}
}

var Runner = core.Runner{Gen: Gen, Eval: Eval}
