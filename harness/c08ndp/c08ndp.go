// Package c08ndp: correspondence + oracle for the NDP / ICMP / ARP share of C08 (handlers terminate
// without panic on arbitrary packets): newParseOptions and every option unmarshal,
// icmp6.ProcessPacket parse/dispatch, icmp4 logger incl. the embedded-IP walk, hop-by-hop extension
// parsing, arp.ProcessPacket parsing.  Function mode.
package c08ndp

import (
	"encoding/binary"
	"errors"
	"fmt"
	"net/netip"
	"strings"
	"sync"
	"sync/atomic"
	"time"

	"github.com/irai/packet"
	"github.com/irai/packet/handlers/arp_spoofer"
	"github.com/irai/packet/handlers/icmp_spoofer"
	"verif/harness/core"
	"verif/harness/ndpgen"
	"verif/harness/sess"
)

var (
	once    sync.Once
	session *packet.Session
	conn    *sess.RecConn
	h4      *icmp_spoofer.Handler4
	harp    *arp_spoofer.Handler
)

func setup() {
	once.Do(func() {
		session, conn = sess.New(nil)
		h4, _ = icmp_spoofer.New4(session)
		var err error
		harp, err = arp_spoofer.New(session)
		if err != nil {
			panic(err)
		}
	})
}

// guarded runs f with panic recovery and a deadline: "panic" / "hang" are canonical outcomes.
func guarded(f func() string) string {
	res := "hang"
	ndpgen.Quietly(func() {
		done := make(chan string, 1)
		go func() { done <- core.Safely(f) }()
		select {
		case r := <-done:
			res = r
		case <-time.After(2 * time.Second):
			// a loaded machine must not produce a false "hang": wait four times as long again
			select {
			case r := <-done:
				res = r
			case <-time.After(8 * time.Second):
				hangs++ // the goroutine keeps spinning; the operation is given up after a few of them (see add)
				hangOp = true
			}
		}
	})
	return res
}

// blocked marks a call that returned but left its handler unusable: the follow-up call on the same
// handler (probe) did not return normally — a lock taken by the call is still held.
const blocked = " +blocked"

// guardedProbe is guarded(f) followed, inside the same watchdog, by probe().
func guardedProbe(f func() string, probe func()) string {
	var first atomic.Value
	res := guarded(func() string {
		r := f()
		first.Store(r)
		probe()
		return r
	})
	if r, ok := first.Load().(string); ok && (res == "hang" || res == "panic") {
		if res == "hang" {
			hangs-- // parked on a lock, not spinning
			hangOp = false
		}
		return r + blocked
	}
	return res
}

// blockedOps counts, per operation, the calls that left their handler blocked; every witness costs a
// full watchdog period, so an operation is given up after two of them (the others go on).
var blockedOps = map[string]int{}

func errClass(err error) string {
	switch {
	case err == nil:
		return "nil"
	case errors.Is(err, packet.ErrFrameLen):
		return "ErrFrameLen"
	case errors.Is(err, packet.ErrInvalidMAC):
		return "ErrInvalidMAC"
	case errors.Is(err, packet.ErrParseFrame):
		return "ErrParseFrame"
	case errors.Is(err, packet.ErrParseProtocol):
		return "ErrParseProtocol"
	case errors.Is(err, packet.ErrInvalidLen):
		return "ErrInvalidLen"
	}
	return "other"
}

func totalOracle(what string, impl *string) func() (string, string) {
	return func() (string, string) {
		if strings.HasSuffix(*impl, blocked) {
			return what + ": the call returned (" + strings.TrimSuffix(*impl, blocked) + ") but left the handler blocked: the next call on the same handler that takes the handler lock does not return normally (lock still held on that path)", ""
		}
		if *impl == "panic" || *impl == "hang" {
			return what + ": the call did not return normally (" + *impl + ")", ""
		}
		return "", ""
	}
}

func stripClass(s string) string {
	if i := strings.Index(s, " class="); i >= 0 {
		return s[:i]
	}
	return s
}

var peerMAC = []byte{0x02, 0xbb, 0, 0, 0, 9}

func frame6(src, dst netip.Addr, payload []byte) []byte {
	b := make([]byte, 14+40+len(payload))
	copy(b[0:6], sess.HostMAC)
	copy(b[6:12], peerMAC)
	b[12], b[13] = 0x86, 0xdd
	ip := b[14:54]
	ip[0] = 0x60
	binary.BigEndian.PutUint16(ip[4:6], uint16(len(payload)))
	ip[6], ip[7] = 58, 255
	s, d := src.As16(), dst.As16()
	copy(ip[8:24], s[:])
	copy(ip[24:40], d[:])
	copy(b[54:], payload)
	return b
}

func frame4(payload []byte) []byte {
	b := make([]byte, 14+20+len(payload))
	copy(b[0:6], sess.HostMAC)
	copy(b[6:12], peerMAC)
	b[12], b[13] = 0x08, 0x00
	ip := b[14:34]
	ip[0] = 0x45
	binary.BigEndian.PutUint16(ip[2:4], uint16(20+len(payload)))
	ip[8], ip[9] = 64, 1
	copy(ip[12:16], []byte{192, 168, 0, 77})
	copy(ip[16:20], []byte{192, 168, 0, 129})
	copy(b[34:], payload)
	return b
}

var probeIP = netip.MustParseAddr("192.0.2.77")

var (
	srcLLA   = netip.MustParseAddr("fe80::bb:9")
	srcMcast = netip.MustParseAddr("ff02::1")
	dstAll   = netip.MustParseAddr("ff02::1")
)

func Eval(c *core.Ctx, line string) *core.Case {
	f := strings.Fields(line)
	if len(f) < 2 {
		return nil
	}
	setup()
	switch f[0] {
	case "ndp.opts":
		b := core.UnHex(f[1])
		impl := guarded(func() string {
			o, err := packet.VerifNewParseOptions(append([]byte{}, b...))
			if err != nil {
				return "err other"
			}
			return "ok " + ndpgen.Canon(o)
		})
		return &core.Case{Line: line, Impl: impl, Trivial: len(b) < 8,
			Cmp:    ndpgen.SameModuloPuny,
			Oracle: totalOracle("newParseOptions("+f[1]+")", &impl)}
	case "ndp.icmp6":
		if len(f) != 3 || len(f[1]) != 3 {
			return nil
		}
		p := core.UnHex(f[2])
		src := srcLLA
		switch {
		case f[1][0] == '1':
			src = netip.IPv6Unspecified()
		case f[1][1] == '0':
			src = srcMcast
		}
		// flags are derived from the source address actually used
		u, k := "0", "1"
		if src == netip.IPv6Unspecified() {
			u, k = "1", "0"
		} else if src == srcMcast {
			k = "0"
		}
		r := string(f[1][2])
		nl := fmt.Sprintf("ndp.icmp6 %s%s%s %s", u, k, r, f[2])
		var done6 atomic.Value // set once ProcessPacket has returned (FindRouter below takes the handler lock)
		impl := guarded(func() string {
			h6, _ := icmp_spoofer.New6(session)
			if r == "1" {
				icmp_spoofer.VerifSetRepeat(-1)
			} else {
				icmp_spoofer.VerifSetRepeat(0)
			}
			conn.Take()
			fr, err := session.Parse(frame6(src, dstAll, p))
			if err == nil {
				err = h6.ProcessPacket(fr)
			}
			ns := 0
			for _, w := range conn.Take() {
				if len(w) > 54 && w[12] == 0x86 && w[13] == 0xdd && w[54] == 135 {
					ns++
				}
			}
			done6.Store(fmt.Sprintf("ok ret=%s ns=%d", errClass(err), ns))
			ra := "-"
			if rt := h6.FindRouter(src); rt.Addr.IP.IsValid() {
				ra = strings.ReplaceAll(ndpgen.Canon(rt.Options), " ", "|")
			}
			return fmt.Sprintf("ok ret=%s ns=%d ra=%s", errClass(err), ns, ra)
		})
		if d, ok := done6.Load().(string); ok && (impl == "hang" || impl == "panic") {
			if impl == "hang" {
				hangs--
				hangOp = false
			}
			impl = d + blocked
			blockedOps[f[0]]++
		}
		return &core.Case{Line: nl, Impl: impl, Trivial: len(p) < 8,
			Cmp: func(a, b string) bool {
				return ndpgen.SameModuloPuny(strings.ReplaceAll(a, "|", " "), strings.ReplaceAll(stripClass(b), "|", " "))
			},
			Oracle: totalOracle("icmp6.ProcessPacket", &impl)}
	case "ndp.icmp4":
		p := core.UnHex(f[1])
		impl := guarded(func() string {
			fr, err := session.Parse(frame4(p))
			if err == nil {
				err = h4.ProcessPacket(fr)
			}
			return "ok ret=" + errClass(err)
		})
		return &core.Case{Line: line, Impl: impl, Trivial: len(p) < 8,
			Cmp:    func(a, b string) bool { return a == stripClass(b) },
			Oracle: totalOracle("icmp4.ProcessPacket", &impl)}
	case "ndp.hop":
		p := core.UnHex(f[1])
		impl := guarded(func() string {
			_, err := packet.HopByHopExtensionHeader(append([]byte{}, p...)).ParseHopByHopExtensions()
			if err != nil {
				return "err " + errClass(err)
			}
			return "ok"
		})
		return &core.Case{Line: line, Impl: impl, Trivial: len(p) < 2,
			Oracle: totalOracle("ParseHopByHopExtensions("+f[1]+")", &impl)}
	case "ndp.arp":
		p := core.UnHex(f[1])
		impl := guardedProbe(func() string {
			eth := make([]byte, 14+len(p))
			copy(eth[0:6], []byte{0xff, 0xff, 0xff, 0xff, 0xff, 0xff})
			copy(eth[6:12], peerMAC)
			eth[12], eth[13] = 0x08, 0x06
			copy(eth[14:], p)
			fr := session.VerifFrame(eth, 14, packet.PayloadARP)
			err := harp.ProcessPacket(fr)
			return "ok ret=" + errClass(err)
		}, func() { harp.IsHunting(probeIP) }) // IsHunting takes the handler's write lock
		if strings.HasSuffix(impl, blocked) {
			// the shared handler is gone: later cases get a fresh one
			harp, _ = arp_spoofer.New(session)
			blockedOps[f[0]]++
		}
		return &core.Case{Line: line, Impl: impl, Trivial: len(p) < 28,
			Cmp:    func(a, b string) bool { return a == stripClass(b) },
			Oracle: totalOracle("arp.ProcessPacket", &impl)}
	}
	return nil
}

// hangs counts all hang witnesses of the run (bounded by 12 spinning goroutines); hangsByOp charges
// them to the operation of the line being evaluated: an operation is given up after 3 witnesses, the
// other operations go on (a hang in one handler must not hide a defect in another).
var (
	hangs     int
	hangOp    bool
	hangsByOp = map[string]int{}
)

func add(c *core.Ctx, class, line string) {
	op := strings.SplitN(line, " ", 2)[0]
	if hangs >= 12 || hangsByOp[op] >= 3 || blockedOps[op] >= 2 {
		c.Drop(class, "skipped: hang budget of "+op+" spent")
		return
	}
	hangOp = false
	cs := Eval(c, line)
	if hangOp {
		hangsByOp[op]++
	}
	if cs == nil {
		c.Drop(class, "not evaluated")
		return
	}
	cs.Class = class
	c.Add(*cs)
}

func arpMsg(op uint16, smac []byte, sip [4]byte, tmac []byte, tip [4]byte) []byte {
	b := make([]byte, 28)
	binary.BigEndian.PutUint16(b[0:2], 1)
	binary.BigEndian.PutUint16(b[2:4], 0x0800)
	b[4], b[5] = 6, 4
	binary.BigEndian.PutUint16(b[6:8], op)
	copy(b[8:14], smac)
	copy(b[14:18], sip[:])
	copy(b[18:24], tmac)
	copy(b[24:28], tip[:])
	return b
}

// Gen is the C08 (NDP share) correspondence run.
func Gen(c *core.Ctx) {
	c.Res.Rule = "ndp.opts: option strings from an independent builder (prefix, MTU, RDNSS, DNSSL, route information, source/target LLA, unknown types) closed under truncation at every offset, length-field corruption incl. zero-length options of every known type, byte flips, plus random strings; ndp.icmp6: every ICMPv6 type with valid bodies, truncations and random bodies through Parse + Handler6.ProcessPacket with the three source-address classes and the RA throttle on/off; ndp.icmp4: every ICMPv4 type, destination-unreachable with embedded IPv4/UDP/TCP headers and corrupted IHL / total length / data offset, truncation at every offset; ndp.hop: extension headers with pad1/padN/router-alert/unknown options, truncations, random; ndp.arp: all operation / address classes, corrupted header fields, truncations.  non-trivial = input long enough to pass the first length test"
	for _, l := range c.CorpusLines() {
		add(c, "corpus", l)
	}
	r := c.Rnd
	// ---- options
	for _, t := range []byte{0, 1, 2, 3, 5, 24, 25, 31, 99, 255} {
		for _, tail := range [][]byte{nil, {0}, {0, 0}, {0, 0, 0, 0, 0, 0}} {
			add(c, "opts-zero-len", "ndp.opts "+core.Hex(append([]byte{t, 0}, tail...)))
		}
		for l := 1; l <= 5; l++ {
			b := make([]byte, 8*l)
			b[0], b[1] = t, byte(l)
			add(c, "opts-zero-body", "ndp.opts "+core.Hex(b))
			r.Read(b[2:])
			add(c, "opts-rand-body", "ndp.opts "+core.Hex(b))
		}
	}
	for _, b := range ndpgen.Boundary(r) {
		add(c, "opts-boundary", "ndp.opts "+core.Hex(b))
	}
	n := c.Scale(20000, 600000)
	for i := 0; i < n; i++ {
		b := ndpgen.RandOptions(r, 5)
		add(c, "opts-valid", "ndp.opts "+core.Hex(b))
		m := ndpgen.Mutate(r, b)
		add(c, "opts-mutated", "ndp.opts "+core.Hex(m))
		if i%8 == 0 {
			add(c, "opts-mutated2", "ndp.opts "+core.Hex(ndpgen.Mutate(r, m)))
		}
	}
	for i := 0; i < c.Scale(40, 2000); i++ {
		b := ndpgen.RandOptions(r, 3)
		for k := 0; k <= len(b); k++ {
			add(c, "opts-trunc", "ndp.opts "+core.Hex(b[:k]))
		}
	}
	for i := 0; i < c.Scale(2000, 200000); i++ {
		add(c, "opts-random", "ndp.opts "+core.Hex(c.RandBytes(r.Intn(40))))
	}
	// DNSSL label corner cases incl. punycode markers, dots, spaces, high bytes, missing terminators
	for _, lab := range []string{"xn--bcher-kva", "a.b", "a b", "caf\xc3\xa9", "x", "XN--ABC", "a@xn--bcher-kva", ""} {
		o := ndpgen.DNSSL(60, []string{lab, "example"}, []string{"org"})
		add(c, "opts-dnssl-label", "ndp.opts "+core.Hex(o.Bytes()))
	}
	for i := 0; i < c.Scale(300, 20000); i++ {
		o := ndpgen.DNSSL(r.Uint32(), []string{ndpgen.RandLabel(r), ndpgen.RandLabel(r)}, []string{ndpgen.RandLabel(r)})
		b := o.Bytes()
		for k := 0; k < 1+r.Intn(3); k++ {
			b[8+r.Intn(len(b)-8)] = byte(r.Intn(256))
		}
		add(c, "opts-dnssl-mut", "ndp.opts "+core.Hex(b))
	}
	// ---- icmp6 dispatch
	flags := []string{"011", "010", "001", "100", "101"}
	for t := 0; t < 256; t++ {
		for _, n := range []int{0, 4, 7, 8, 15, 16, 23, 24, 31, 32, 39, 40, 48} {
			p := make([]byte, n)
			if n > 0 {
				p[0] = byte(t)
			}
			if n > 4 && t == 136 {
				p[4] = []byte{0x20, 0x60, 0xe0, 0}[r.Intn(4)]
			}
			add(c, "icmp6-types", fmt.Sprintf("ndp.icmp6 %s %s", flags[r.Intn(len(flags))], core.Hex(p)))
		}
	}
	for i := 0; i < c.Scale(6000, 200000); i++ {
		opts := ndpgen.RandOptions(r, 4)
		if r.Intn(3) == 0 {
			opts = ndpgen.Mutate(r, opts)
		}
		ra := ndpgen.RA(byte(r.Intn(256)), byte(r.Intn(256)), uint16(r.Intn(65536)), r.Uint32(), r.Uint32(), opts)
		add(c, "icmp6-ra", fmt.Sprintf("ndp.icmp6 %s %s", flags[r.Intn(len(flags))], core.Hex(ra)))
		// NA / NS / redirect with option area
		t := []byte{135, 136, 137, 133}[r.Intn(4)]
		body := c.RandBytes(4 + r.Intn(60))
		msg := append([]byte{t, 0, 0, 0}, body...)
		if t == 135 && r.Intn(2) == 0 && len(msg) >= 24 { // global unicast / special targets
			tg := ndpgen.RandIP6(r)
			if r.Intn(4) == 0 {
				tg = [16]byte{0, 0, 0, 0, 0, 0, 0, 0, 0, 0, 0xff, 0xff, byte(r.Intn(256)), byte(r.Intn(256)), 1, 1}
			}
			copy(msg[8:24], tg[:])
		}
		if t == 136 && len(msg) >= 32 && r.Intn(2) == 0 {
			msg[4] = 0x20
			msg[24], msg[25] = 2, 1
		}
		add(c, "icmp6-nd", fmt.Sprintf("ndp.icmp6 %s %s", flags[r.Intn(len(flags))], core.Hex(msg)))
	}
	// ---- icmp4 logger
	for t := 0; t < 256; t++ {
		for _, n := range []int{0, 7, 8, 27, 28, 36, 48, 60} {
			p := make([]byte, n)
			if n > 0 {
				p[0] = byte(t)
			}
			add(c, "icmp4-types", "ndp.icmp4 "+core.Hex(p))
		}
	}
	for i := 0; i < c.Scale(10000, 300000); i++ {
		inner := make([]byte, 20+r.Intn(44))
		r.Read(inner)
		inner[0] = 0x40 | []byte{5, 5, 5, 6, 15, 0, 4, byte(r.Intn(16))}[r.Intn(8)]
		tl := []int{len(inner), len(inner), 0, 19, 20, 28, len(inner) + 1, r.Intn(80)}[r.Intn(8)]
		binary.BigEndian.PutUint16(inner[2:4], uint16(tl))
		inner[9] = []byte{17, 6, 1, byte(r.Intn(256))}[r.Intn(4)]
		if inner[9] == 6 && len(inner) >= 33 && r.Intn(2) == 0 {
			inner[32] = []byte{0x50, 0x40, 0xf0, 0x00}[r.Intn(4)]
		}
		p := append([]byte{3, byte(r.Intn(5)), 0, 0, 0, 0, 0, 0}, inner...)
		add(c, "icmp4-unreach", "ndp.icmp4 "+core.Hex(p))
		if i%10 == 0 {
			for k := 0; k <= len(p); k += 1 + r.Intn(3) {
				add(c, "icmp4-trunc", "ndp.icmp4 "+core.Hex(p[:k]))
			}
		}
	}
	// ---- hop by hop
	for i := 0; i < c.Scale(10000, 300000); i++ {
		var data []byte
		for k := 0; k < r.Intn(6); k++ {
			switch r.Intn(5) {
			case 0:
				data = append(data, 0)
			case 1:
				n := r.Intn(6)
				data = append(append(data, 1, byte(n)), make([]byte, n)...)
			case 2:
				data = append(data, 5, 2, 0, byte(r.Intn(4)))
			case 3:
				n := r.Intn(8)
				data = append(append(data, byte(r.Intn(256)), byte(n)), c.RandBytes(n)...)
			case 4:
				data = append(data, byte(r.Intn(256)), byte(r.Intn(256)))
			}
		}
		units := (len(data) + 2 + 7) / 8
		if units == 0 {
			units = 1
		}
		p := append([]byte{58, byte(units - 1)}, data...)
		for len(p) < units*8+2 {
			p = append(p, 0)
		}
		switch r.Intn(5) {
		case 0:
			p = p[:r.Intn(len(p)+1)]
		case 1:
			p[1] = byte(r.Intn(256))
		case 2:
			p[r.Intn(len(p))] = byte(r.Intn(256))
		}
		add(c, "hop", "ndp.hop "+core.Hex(p))
	}
	for n := 0; n <= 20; n++ {
		add(c, "hop-zero", "ndp.hop "+core.Hex(make([]byte, n)))
		add(c, "hop-rand", "ndp.hop "+core.Hex(c.RandBytes(n)))
	}
	// ---- arp
	ips := [][4]byte{{192, 168, 0, 5}, {192, 168, 0, 11}, {0, 0, 0, 0}, {169, 254, 1, 1}, {8, 8, 8, 8}, {192, 168, 0, 129}}
	for i := 0; i < c.Scale(8000, 200000); i++ {
		m := arpMsg([]uint16{1, 2, 1, 2, 3, 0, uint16(r.Intn(65536))}[r.Intn(7)], c.RandBytes(6), ips[r.Intn(len(ips))], c.RandBytes(6), ips[r.Intn(len(ips))])
		switch r.Intn(8) {
		case 0:
			m[r.Intn(8)] = byte(r.Intn(256))
		case 1:
			m = m[:r.Intn(len(m)+1)]
		case 2:
			m = append(m, c.RandBytes(r.Intn(20))...)
		}
		add(c, "arp", "ndp.arp "+core.Hex(m))
	}
	for n := 0; n <= 30; n++ {
		add(c, "arp-len", "ndp.arp "+core.Hex(arpMsg(1, peerMAC, ips[0], make([]byte, 6), ips[1])[:min(n, 28)]))
		add(c, "arp-rand", "ndp.arp "+core.Hex(c.RandBytes(n)))
	}
}

func min(a, b int) int {
	if a < b {
		return a
	}
	return b
}

var Runner = core.Runner{Gen: Gen, Eval: Eval}
