package c19

import (
	"fmt"
	"sort"
	"strconv"
	"strings"
	"sync"
	"time"

	"github.com/irai/packet"
	"verif/harness/core"
	"verif/harness/sess"
)

// Several sessions in one process: icmpTable is a package-level variable of the library, so every session of the
// process shares it.  Session 0 is the long-lived harness session (its timers are stopped, it is never closed);
// sessions 1.. are created on first use, with their own connection writing into the scenario log, and closed with
// the real Session.Close (which sleeps one second) or, when the scenario ends without closing them, stopped
// through the overlay without the sleep.

type multi struct {
	mu     sync.Mutex
	log    *scenarioLog
	s      map[int]*packet.Session
	closed map[int]bool
}

func newMulti(l *scenarioLog) *multi {
	return &multi{log: l, s: map[int]*packet.Session{0: session}, closed: map[int]bool{}}
}

func (m *multi) get(j int) *packet.Session {
	m.mu.Lock()
	defer m.mu.Unlock()
	if s, ok := m.s[j]; ok {
		return s
	}
	c := &conn{closed: make(chan struct{}), log: m.log}
	s, err := packet.Config{Conn: c, NICInfo: sess.DefaultNIC()}.NewSession("")
	if err != nil {
		panic(err)
	}
	m.s[j] = s
	return s
}

// close runs the real Session.Close of session j; x<j> / z<j> are logged around it.
func (m *multi) close(j int, async bool, wg *sync.WaitGroup) {
	s := m.get(j)
	m.mu.Lock()
	m.closed[j] = true
	m.mu.Unlock()
	do := func() {
		m.log.add(fmt.Sprintf("x%d", j))
		s.Close()
		m.log.add(fmt.Sprintf("z%d", j))
	}
	if async {
		wg.Add(1)
		go func() { defer wg.Done(); do() }()
		return
	}
	do()
}

// stopAll ends the sessions the scenario opened and did not close (no sleep).
func (m *multi) stopAll() {
	m.mu.Lock()
	defer m.mu.Unlock()
	for j, s := range m.s {
		if j != 0 && !m.closed[j] {
			s.VerifStop()
		}
	}
}

// at is the session suffix of a token (session 0: none, so that single-session logs read as before)
func at(j int) string {
	if j == 0 {
		return ""
	}
	return "@" + strconv.Itoa(j)
}

// splitSess splits "<step>@<j>"
func splitSess(st string) (string, int) {
	if i := strings.LastIndexByte(st, '@'); i > 0 {
		if j, err := strconv.Atoi(st[i+1:]); err == nil && j >= 0 {
			return st[:i], j
		}
	}
	return st, 0
}

// withDeadlines returns the observed tokens with d<p> placed before the first event whose time stamp is at least
// (time the request of p was written) + (effective timeout of p) - 2 ms.  The library arms time.After(timeout)
// after the write returned, so its timer cannot fire before that moment; the Lean machine enables the timeout
// branch of p's select only after d<p>.
func withDeadlines(obs []event, threads map[int]*thread) []string {
	const tol = 2 * time.Millisecond
	sentAt := map[int]time.Duration{}
	emitted := map[int]bool{}
	var out []string
	for _, e := range obs {
		var due []int
		for p, at := range sentAt {
			if th := threads[p]; th != nil && !emitted[p] && e.at >= at+th.tmo-tol {
				due = append(due, p)
			}
		}
		sort.Ints(due)
		for _, p := range due {
			emitted[p] = true
			out = append(out, fmt.Sprintf("d%d", p))
		}
		if e.tok[0] == 's' {
			f := strings.Split(e.tok[1:], ":")
			if p, err := strconv.Atoi(f[0]); err == nil {
				sentAt[p] = e.at
			}
		}
		out = append(out, e.tok)
	}
	return out
}

const multiRule = "ping.mtrace: the same scenarios over SEVERAL sessions of one process (calls made on sessions 0..2, every echo reply handed to the Parse of the calling session or of another one, Session.Close of a session while calls of other sessions and of the session itself are pending, sync and async; the identifier counter started at 65530..65535 so that calls get the identifiers 65535 and 0 and the replies carrying them are parsed) against the multi-session machine of Model/PingMulti.lean, in which the timer branch of a call is enabled only after the measured deadline d<p>.  "

// genMulti adds the multi-session scenarios; returns how many.
func genMulti(c *core.Ctx) int {
	n := 0
	m := func(class, scn string) {
		add(c, class, "ping.mtrace 0 scn="+scn)
		n++
	}
	// identifier wrap: the uint16 counter goes 65535 -> 0; every identifier, 0 included, is completed by its own reply only
	for _, s := range []string{
		"n65535,p0:4:60,p1:4:60,e1,e0", "n65535,p0:6:60,p1:6:60,e1,e0", "n65534,p0:4:60,p1:6:60,p2:4:60,e2,f1,e0",
		"n65535,p0:4:40,p1:4:40,f1,q1,m1,u1", "n0,p0:4:60,e0", "n0,p0:6:60,f0", "n65535,p0:4:60,e0", "n65535,p0:6:60,y0",
		"n65533,p0:4:60,p1:6:60,p2:4:60,p3:6:60,p4:4:60,E4,E3,E2,E1,E0,t", "n65535,p0:b:40,p1:4:60,e1", "n65535,p0:4:60,p1:w:40,p2:6:60,e2,e0",
		"n65535,p0:4:60,p1:4:60@1,e1,e0@1",
	} {
		m("wrap", s)
	}
	// a reply parsed by ANOTHER session completes the call (the table is process-wide); a foreign one does not
	for _, s := range []string{
		"p0:4:60,e0@1", "p0:6:60,e0@1", "p0:4:60@1,e0", "p0:6:60@1,e0@2", "p0:4:40,f0@1", "p0:4:60,p1:6:60@1,e0@1,e1",
		"p0:4:50@1,q0,m0@2,u0@1", "p0:4:60@1,p1:4:60@2,t,E1,E0@1",
	} {
		m("cross-session", s)
	}
	// Close of a session: never completes and never cancels a pending call – of another session or of its own
	for _, s := range []string{
		"p1:4:60@1,e1,p0:4:1600,x1,e0",                                          // B used and closed while A's call is pending; A's reply then completes it
		"p0:6:1600,p1:4:1600@2,x1,t,e0,e1@0",                                    // a session that never pinged is closed; both calls stay registered
		"p0:4:1600@1,x1,t,e0",                                                   // the call's OWN session is closed: the reply parsed by session 0 completes it
		"p0:4:300,X1,w40,e0", "p0:6:300,X1,w40,t,e0@2", "p0:4:200,X1,X2,w40,f0", // async: Close runs while the reply arrives
		"p0:4:150,X1",                           // nothing arrives: ErrTimeout, and not before 150 ms
		"n65535,p0:4:300,p1:6:300,X1,w30,e1,e0", // identifier 0 pending across a Close
	} {
		m("close", s)
	}
	for i, k := 0, c.Scale(6, 200); i < k; i++ {
		m("close-random", genMultiScenario(c, true))
	}
	for i, k := 0, c.Scale(150, 2000); i < k; i++ {
		m("multi-random", genMultiScenario(c, false))
	}
	return n
}

// genMultiScenario: calls on sessions 0..2, replies parsed by any session that is not closed; with closes: one or two
// async Close steps of sessions 1..2 (no call is made on and no frame handed to a session after its Close).
func genMultiScenario(c *core.Ctx, closes bool) string {
	r := c.Rnd
	var st []string
	if r.Intn(3) == 0 {
		st = append(st, fmt.Sprintf("n%d", 65530+r.Intn(6)))
	}
	closedS := map[int]bool{}
	open := func() int {
		for {
			if j := r.Intn(3); !closedS[j] {
				return j
			}
		}
	}
	live := []int{}
	next := 0
	ms := func() int {
		if closes {
			return 150 + 50*r.Intn(4)
		}
		return 30 + 10*r.Intn(6)
	}
	steps := 4 + r.Intn(7)
	for i := 0; i < steps; i++ {
		switch x := r.Intn(12); {
		case x < 4 && next < 4:
			k := next
			next++
			kind := []string{"4", "6", "4", "6", "4", "6", "b"}[r.Intn(7)]
			st = append(st, fmt.Sprintf("p%d:%s:%d%s", k, kind, ms(), at(open())))
			if kind != "b" {
				live = append(live, k)
			}
		case x < 5:
			st = append(st, fmt.Sprintf("w%d", []int{1, 3, 10, 35}[r.Intn(4)]))
		case x < 6:
			st = append(st, "t")
		case x < 8 && closes && len(live) > 0:
			if j := 1 + r.Intn(2); !closedS[j] {
				closedS[j] = true
				st = append(st, fmt.Sprintf("X%d", j))
			}
		default:
			if len(live) == 0 {
				continue
			}
			k := live[r.Intn(len(live))]
			op := "eeeeEEyfqmu"[r.Intn(11)]
			st = append(st, fmt.Sprintf("%c%d%s", op, k, at(open())))
		}
	}
	if closes && len(closedS) == 0 && len(live) > 0 {
		st = append(st, "X1", "w20", fmt.Sprintf("e%d", live[0]))
	}
	return strings.Join(st, ",")
}
