// Package c19: correspondence + oracle for C19 (Ping completes exactly on a matching echo reply).
//
// Trace-acceptance mode: a scenario (concurrent Ping/Ping6 calls, echo replies injected through the
// real Session.Parse) is executed in real time on the real code; the totally ordered log of observed
// events is sent to the Lean ping machine, which must accept it; the Go-side oracle checks the
// property directly on the log.  Function mode (`ping.cls`) ties the echo-reply dispatch of Parse.
package c19

import (
	"encoding/binary"
	"errors"
	"fmt"
	"net"
	"net/netip"
	"sort"
	"strconv"
	"strings"
	"sync"
	"time"

	"github.com/irai/packet"
	"verif/harness/core"
	"verif/harness/sess"
)

// ---------------------------------------------------------------------------------------------
// recording connection that logs echo requests into the scenario log, in write order

type event struct {
	tok string
	at  time.Duration
}

type scenarioLog struct {
	mu   sync.Mutex
	t0   time.Time
	evs  []event
	idOf map[int]uint16 // thread -> identifier seen on the wire
	idCh map[int]chan struct{}
	byID map[uint16]int
	fail map[int]bool // WriteTo returns an error for these threads
	// a panic recovered around Session.Parse (injected frame): the icmpTable mutex may be left locked
	parsePanic string
}

// wedged: a scenario ended in a state this process cannot recover from (Parse panicked inside echoNotify, or the
// scenario blocked: icmpTable left locked).  No further case is evaluated: each would block as well.
var wedged bool

func (l *scenarioLog) add(tok string) {
	l.mu.Lock()
	l.evs = append(l.evs, event{tok, time.Since(l.t0)})
	l.mu.Unlock()
}

type conn struct {
	log    *scenarioLog
	closed chan struct{}
	once   sync.Once
}

var errWrite = errors.New("verif: injected write error")

func (c *conn) ReadFrom(b []byte) (int, net.Addr, error) { <-c.closed; return 0, nil, net.ErrClosed }
func (c *conn) WriteTo(b []byte, addr net.Addr) (int, error) {
	select {
	case <-c.closed:
		return 0, net.ErrClosed // a closed session's connection refuses writes, like a socket
	default:
	}
	// echo request?  ether(14) + ip4(20) + icmp  |  ether(14) + ip6(40) + icmp
	var icmp []byte
	switch {
	case len(b) >= 14+20+8 && b[12] == 0x08 && b[13] == 0x00 && b[23] == 1:
		icmp = b[34:]
	case len(b) >= 14+40+8 && b[12] == 0x86 && b[13] == 0xdd && b[20] == 58:
		icmp = b[54:]
	}
	if icmp == nil || (icmp[0] != 8 && icmp[0] != 128) {
		return len(b), nil
	}
	id := binary.BigEndian.Uint16(icmp[4:6])
	l := c.log
	l.mu.Lock()
	defer l.mu.Unlock()
	// the thread is identified by the destination MAC's last byte (scenario convention)
	p := int(b[5])
	if l.fail[p] {
		return 0, errWrite
	}
	l.idOf[p] = id
	l.byID[id] = p
	if ch, ok := l.idCh[p]; ok {
		close(ch)
		delete(l.idCh, p)
	}
	l.evs = append(l.evs, event{fmt.Sprintf("s%d:%d", p, id), time.Since(l.t0)})
	return len(b), nil
}
func (c *conn) Close() error                       { c.once.Do(func() { close(c.closed) }); return nil }
func (c *conn) LocalAddr() net.Addr                { return nil }
func (c *conn) SetDeadline(t time.Time) error      { return nil }
func (c *conn) SetReadDeadline(t time.Time) error  { return nil }
func (c *conn) SetWriteDeadline(t time.Time) error { return nil }

var (
	once    sync.Once
	session *packet.Session
	theConn *conn
	hostLLA = netip.MustParseAddr("fe80::1")
)

func setup() {
	once.Do(func() {
		theConn = &conn{closed: make(chan struct{}), log: &scenarioLog{}}
		s, err := packet.Config{Conn: theConn, NICInfo: sess.DefaultNIC()}.NewSession("")
		if err != nil {
			panic(err)
		}
		s.VerifStopTimers() // long-lived session: no wall-clock purge, no NIC monitor SIGTERM
		session = s
	})
}

// ---------------------------------------------------------------------------------------------
// frames for injection (independent builder)

func cksum(b []byte) uint16 {
	var sum uint32
	for i := 0; i+1 < len(b); i += 2 {
		sum += uint32(b[i])<<8 | uint32(b[i+1])
	}
	if len(b)%2 == 1 {
		sum += uint32(b[len(b)-1]) << 8
	}
	for sum > 0xffff {
		sum = sum&0xffff + sum>>16
	}
	return ^uint16(sum)
}

func peerMAC(p int) net.HardwareAddr { return net.HardwareAddr{0x02, 0xaa, 0, 0, 0, byte(p)} }
func peerIP4(p int) netip.Addr       { return netip.AddrFrom4([4]byte{192, 168, 0, byte(20 + p%200)}) }
func peerIP6(p int) netip.Addr {
	a := [16]byte{0xfe, 0x80}
	a[15] = byte(20 + p%200)
	return netip.AddrFrom16(a)
}

func frame4(p int, icmp []byte) []byte {
	b := make([]byte, 14+20+len(icmp))
	copy(b[0:6], sess.HostMAC)
	copy(b[6:12], peerMAC(p))
	b[12], b[13] = 0x08, 0x00
	ip := b[14:34]
	ip[0] = 0x45
	binary.BigEndian.PutUint16(ip[2:4], uint16(20+len(icmp)))
	ip[8] = 64
	ip[9] = 1
	s4 := peerIP4(p).As4()
	d4 := sess.HostIP4.As4()
	copy(ip[12:16], s4[:])
	copy(ip[16:20], d4[:])
	binary.BigEndian.PutUint16(ip[10:12], cksum(ip))
	copy(b[34:], icmp)
	return b
}

func frame6(p int, icmp []byte) []byte {
	b := make([]byte, 14+40+len(icmp))
	copy(b[0:6], sess.HostMAC)
	copy(b[6:12], peerMAC(p))
	b[12], b[13] = 0x86, 0xdd
	ip := b[14:54]
	ip[0] = 0x60
	binary.BigEndian.PutUint16(ip[4:6], uint16(len(icmp)))
	ip[6] = 58
	ip[7] = 64
	s6 := peerIP6(p).As16()
	d6 := hostLLA.As16()
	copy(ip[8:24], s6[:])
	copy(ip[24:40], d6[:])
	copy(b[54:], icmp)
	return b
}

func echoMsg(t byte, id uint16, n int) []byte {
	m := make([]byte, 8+n)
	m[0] = t
	binary.BigEndian.PutUint16(m[4:6], id)
	binary.BigEndian.PutUint16(m[6:8], 1)
	for i := 8; i < len(m); i++ {
		m[i] = byte(i)
	}
	binary.BigEndian.PutUint16(m[2:4], cksum(m))
	return m
}

// ---------------------------------------------------------------------------------------------
// scenario language (scn=…, steps separated by ','):
//   p<k>:<4|6|b|w>:<ms>  start thread k: Ping / Ping6 / Ping with an IPv6 destination (ErrInvalidIP) /
//                        Ping while the connection refuses writes; timeout ms
//   w<ms>                sleep
//   e<k> | E<k>          inject the matching echo reply for thread k (same family), sync | async
//   y<k>                 matching identifier, other IP family's echo reply
//   f<k>                 foreign identifier (k's id + 1000) echo reply
//   q<k>                 echo REQUEST carrying k's identifier
//   m<k>                 truncated echo reply (7 bytes of ICMP) carrying k's identifier
//   u<k>                 some other ICMP type (destination unreachable) carrying k's id bytes
//   t                    dump icmpTable
//   j                    wait for every thread to return
// several sessions (ping.mtrace lines; session 0 is the long-lived one, sessions 1.. are created on first use with
// their own connection and share the process-global icmpTable with it):
//   <step>@<j>           the step on session j: p…@j = the call is made on session j, e/E/y/f/q/m/u…@j = the frame is
//                        handed to session j's Parse
//   x<j> | X<j>          Session.Close of session j (j >= 1), sync | async; waits first until every call already made
//                        on j has written its request (Close sleeps one second)
//   n<id>                (first step only) the package-level identifier counter is set to id before the scenario

type thread struct {
	kind    string
	sess    int           // the session the call is made on
	req     time.Duration // the timeout argument of the call
	tmo     time.Duration // the effective timeout (effTimeout(req))
	callAt  time.Duration
	retAt   time.Duration
	ret     string
	started bool
	done    chan struct{}
}

type injection struct {
	id     uint16
	echo   bool // would call echoNotify(id)
	startI int  // index in log
	endI   int
	start  time.Duration
	end    time.Duration
}

func runScenario(scn string) (obs []event, threads map[int]*thread, injs []*injection, id0 uint16, dumps []string, parsePanic string) {
	setup()
	l := &scenarioLog{t0: time.Now(), idOf: map[int]uint16{}, idCh: map[int]chan struct{}{}, byID: map[uint16]int{}, fail: map[int]bool{}}
	theConn.log = l
	id0 = packet.VerifICMPNextID()
	threads = map[int]*thread{}
	var wg sync.WaitGroup
	mss := newMulti(l)
	defer mss.stopAll()
	var injMu sync.Mutex
	nInj := 0
	waitID := func(k int) (uint16, bool) {
		l.mu.Lock()
		if id, ok := l.idOf[k]; ok {
			l.mu.Unlock()
			return id, true
		}
		ch, ok := l.idCh[k]
		if !ok {
			ch = make(chan struct{})
			l.idCh[k] = ch
		}
		l.mu.Unlock()
		select {
		case <-ch:
		case <-time.After(200 * time.Millisecond):
			return 0, false
		}
		l.mu.Lock()
		defer l.mu.Unlock()
		return l.idOf[k], true
	}
	inject := func(fr []byte, id uint16, echo bool, async bool, j int) {
		sx := mss.get(j)
		injMu.Lock()
		k := nInj
		nInj++
		in := &injection{id: id, echo: echo}
		injs = append(injs, in)
		injMu.Unlock()
		do := func() {
			tok := fmt.Sprintf("i%d:x", k)
			if echo {
				tok = fmt.Sprintf("i%d:%d", k, id)
			}
			tok += at(j)
			l.mu.Lock()
			in.startI = len(l.evs)
			in.start = time.Since(l.t0)
			l.evs = append(l.evs, event{tok, in.start})
			l.mu.Unlock()
			if core.Safely(func() string { sx.Parse(fr); return "" }) == "panic" {
				l.mu.Lock()
				if l.parsePanic == "" {
					l.parsePanic = fmt.Sprintf("Session.Parse panicked on injected frame %d (ICMP %s)", k, core.Hex(fr[len(fr)-min(len(fr), 16):]))
				}
				l.mu.Unlock()
			}
			l.mu.Lock()
			in.endI = len(l.evs)
			in.end = time.Since(l.t0)
			l.evs = append(l.evs, event{fmt.Sprintf("j%d", k), in.end})
			l.mu.Unlock()
		}
		if async {
			wg.Add(1)
			go func() { defer wg.Done(); do() }()
		} else {
			do()
		}
	}
	panicked := func() string {
		l.mu.Lock()
		defer l.mu.Unlock()
		return l.parsePanic
	}
	for _, st := range strings.Split(scn, ",") {
		if st == "" {
			continue
		}
		if pp := panicked(); pp != "" {
			// Parse panicked (inside echoNotify the table mutex stays locked): nothing after this can be trusted to return
			l.mu.Lock()
			obs = append(obs, l.evs...)
			l.mu.Unlock()
			return obs, threads, injs, id0, dumps, pp
		}
		st, sj := splitSess(st)
		op, arg := st[0], st[1:]
		switch op {
		case 'x', 'X':
			j, _ := strconv.Atoi(arg)
			if j < 1 {
				continue
			}
			for k, th := range threads { // every call already made on j has written its request (or failed to)
				if th.sess == j {
					waitID(k)
				}
			}
			mss.close(j, op == 'X', &wg)
		case 'p':
			f := strings.Split(arg, ":")
			if len(f) != 3 {
				continue
			}
			sx := mss.get(sj)
			k, _ := strconv.Atoi(f[0])
			ms, _ := strconv.Atoi(f[2])
			th := &thread{kind: f[1], sess: sj, req: time.Duration(ms) * time.Millisecond, tmo: effTimeout(time.Duration(ms) * time.Millisecond), done: make(chan struct{})}
			threads[k] = th
			if f[1] == "w" {
				l.mu.Lock()
				l.fail[k] = true
				l.mu.Unlock()
			}
			th.started = true
			th.callAt = time.Since(l.t0)
			l.add(fmt.Sprintf("c%d", k) + at(sj))
			wg.Add(1)
			go func(k int, th *thread) {
				defer wg.Done()
				var err error
				switch th.kind {
				case "4", "w":
					err = sx.Ping(packet.Addr{MAC: peerMAC(k), IP: peerIP4(k)}, th.req)
				case "6":
					err = sx.Ping6(packet.Addr{MAC: sess.HostMAC, IP: hostLLA}, packet.Addr{MAC: peerMAC(k), IP: peerIP6(k)}, th.req)
				case "b":
					err = sx.Ping(packet.Addr{MAC: peerMAC(k), IP: peerIP6(k)}, th.req)
				}
				r := "e"
				switch {
				case err == nil:
					r = "n"
				case errors.Is(err, packet.ErrTimeout):
					r = "t"
				}
				l.mu.Lock()
				th.ret = r
				th.retAt = time.Since(l.t0)
				l.evs = append(l.evs, event{fmt.Sprintf("r%d:%s", k, r), th.retAt})
				l.mu.Unlock()
				close(th.done)
			}(k, th)
		case 'w':
			ms, _ := strconv.Atoi(arg)
			time.Sleep(time.Duration(ms) * time.Millisecond)
		case 'e', 'E', 'y', 'f', 'q', 'm', 'u':
			k, _ := strconv.Atoi(arg)
			th := threads[k]
			if th == nil {
				continue
			}
			id, ok := waitID(k)
			if !ok {
				id = id0 // thread never sent (error path): use the first id of the scenario
			}
			v6 := th.kind == "6"
			if op == 'y' {
				v6 = !v6
			}
			rep, req := byte(0), byte(8)
			if v6 {
				rep, req = 129, 128
			}
			var msg []byte
			echo := false
			switch op {
			case 'e', 'E', 'y':
				msg, echo = echoMsg(rep, id, 8), true
			case 'f':
				id += 1000
				msg, echo = echoMsg(rep, id, 8), true
			case 'q':
				msg = echoMsg(req, id, 8)
			case 'm':
				msg = echoMsg(rep, id, 0)[:7]
			case 'u':
				msg = echoMsg(3, id, 28)
				if v6 {
					msg[0] = 1
				}
			}
			fr := frame4(k, msg)
			if v6 {
				fr = frame6(k, msg)
			}
			inject(fr, id, echo, op == 'E', sj)
		case 't':
			// atomic observation of the table, placed in the log while the log lock is held
			l.mu.Lock()
			ids := packet.VerifICMPTableIDs()
			s := "-"
			if len(ids) > 0 {
				ss := make([]string, len(ids))
				for i, v := range ids {
					ss[i] = strconv.Itoa(int(v))
				}
				s = strings.Join(ss, ",")
			}
			dumps = append(dumps, s)
			l.evs = append(l.evs, event{"t:" + s, time.Since(l.t0)})
			l.mu.Unlock()
		case 'j':
			wg.Wait()
		}
	}
	if pp := panicked(); pp != "" {
		l.mu.Lock()
		obs = append(obs, l.evs...)
		l.mu.Unlock()
		return obs, threads, injs, id0, dumps, pp
	}
	wg.Wait()
	l.mu.Lock()
	obs = append(obs, l.evs...)
	l.mu.Unlock()
	return obs, threads, injs, id0, dumps, panicked()
}

// scenarioBudget: how long a scenario may take before it counts as blocked – its sleeps and the effective timeouts
// of its calls, plus ten seconds for a loaded machine.
func scenarioBudget(scn string) time.Duration {
	d := 10 * time.Second
	for _, st := range strings.Split(scn, ",") {
		if st == "" {
			continue
		}
		switch st[0] {
		case 'w':
			ms, _ := strconv.Atoi(st[1:])
			d += time.Duration(ms) * time.Millisecond
		case 'x', 'X':
			d += 1500 * time.Millisecond // Close sleeps one second
		case 'p':
			st, _ = splitSess(st)
			if f := strings.Split(st[1:], ":"); len(f) == 3 {
				ms, _ := strconv.Atoi(f[2])
				d += effTimeout(time.Duration(ms) * time.Millisecond)
			}
		}
	}
	return d
}

// oracle: the property evaluated directly on the observed log
func oracle(obs []event, threads map[int]*thread, injs []*injection, dumps []string) (string, string) {
	const slack = 25 * time.Millisecond
	idOf := map[int]uint16{}
	sentAt := map[int]time.Duration{}
	sentIdx := map[int]int{}
	retIdx := map[int]int{}
	callIdx := map[int]int{}
	for i, e := range obs {
		e.tok, _ = splitSess(e.tok)
		if e.tok[0] == 'c' {
			p, _ := strconv.Atoi(e.tok[1:])
			callIdx[p] = i
		}
		if e.tok[0] == 's' {
			f := strings.Split(e.tok[1:], ":")
			p, _ := strconv.Atoi(f[0])
			id, _ := strconv.Atoi(f[1])
			idOf[p] = uint16(id)
			sentAt[p] = e.at
			sentIdx[p] = i
		}
		if e.tok[0] == 'r' {
			f := strings.Split(e.tok[1:], ":")
			p, _ := strconv.Atoi(f[0])
			retIdx[p] = i
		}
	}
	ks := []int{}
	for k := range threads {
		ks = append(ks, k)
	}
	sort.Ints(ks)
	for _, k := range ks {
		th := threads[k]
		id, sent := idOf[k]
		switch th.kind {
		case "b", "w":
			if th.ret != "e" {
				return fmt.Sprintf("thread %d: send must fail but the call returned %q", k, th.ret), ""
			}
			continue
		}
		if !sent {
			return fmt.Sprintf("thread %d: no echo request was written", k), ""
		}
		// own replies parsed entirely inside / overlapping the call
		inside, overlap, intime := false, false, false
		// a reply that is handed to Parse this long after the effective timeout cannot be what completed the call
		// (generous: the timer of a loaded machine fires late, and until it has fired a reply still counts)
		const lateMargin = 500 * time.Millisecond
		for _, in := range injs {
			if !in.echo || in.id != id {
				continue
			}
			if in.startI < retIdx[k] && in.endI > callIdx[k] && in.start <= sentAt[k]+th.tmo+lateMargin {
				intime = true
			}
			if in.startI > sentIdx[k] && in.end < sentAt[k]+th.tmo-slack && in.endI < retIdx[k] {
				inside = true
			}
			if in.startI < retIdx[k] && in.endI > callIdx[k] {
				overlap = true
			}
		}
		switch th.ret {
		case "n":
			if !overlap {
				return fmt.Sprintf("thread %d (id %d) returned nil but no echo reply with its identifier was parsed during the call", k, id), ""
			}
			if !intime {
				return fmt.Sprintf("thread %d (id %d, timeout %v) returned nil although every echo reply with its identifier was parsed more than %v after its timeout", k, id, th.tmo, lateMargin), ""
			}
		case "t":
			if inside {
				return fmt.Sprintf("thread %d (id %d) returned ErrTimeout although its own echo reply was parsed well before the timeout", k, id), ""
			}
			if th.retAt-sentAt[k] < th.tmo-2*time.Millisecond {
				return fmt.Sprintf("thread %d returned ErrTimeout after %v, before its timeout %v", k, th.retAt-sentAt[k], th.tmo), ""
			}
			// measured on the library: a timeout argument outside (0, 10 s] means two seconds – not less (above) and
			// not much more (2.5 s of slack for a loaded machine; the general bound below is only a hang detector)
			if (th.req <= 0 || th.req > 10*time.Second) && th.retAt-th.callAt > th.tmo+2500*time.Millisecond {
				return fmt.Sprintf("thread %d (timeout argument %v: the default of 2 s applies) returned ErrTimeout only after %v", k, th.req, th.retAt-th.callAt), ""
			}
		default:
			return fmt.Sprintf("thread %d returned an unexpected error", k), ""
		}
		if th.retAt-th.callAt > th.tmo+5*time.Second { // only a hang detector: wall-clock latency is not part of the property and depends on machine load
			return fmt.Sprintf("thread %d returned after %v, timeout was %v", k, th.retAt-th.callAt, th.tmo), ""
		}
	}
	// distinct identifiers among overlapping calls
	for i, a := range ks {
		for _, b := range ks[i+1:] {
			ia, oka := idOf[a]
			ib, okb := idOf[b]
			if oka && okb && ia == ib && threads[a].callAt < threads[b].retAt && threads[b].callAt < threads[a].retAt {
				return fmt.Sprintf("concurrent pings %d and %d share identifier %d", a, b, ia), ""
			}
		}
	}
	// no waiter left behind: the final dump (after every thread returned) must be empty
	if len(dumps) > 0 && dumps[len(dumps)-1] != "-" {
		return "icmpTable still holds waiter(s) " + dumps[len(dumps)-1] + " after every ping returned", ""
	}
	return "", ""
}

func evalTrace(c *core.Ctx, line string) *core.Case {
	defer core.Tick() // liveness for the stall watchdog: traces run for seconds before their cases are added
	scn := ""
	for _, f := range strings.Fields(line) {
		if strings.HasPrefix(f, "scn=") {
			scn = f[4:]
		}
	}
	if scn == "" {
		return nil
	}
	if !strings.HasSuffix(scn, ",j,t") {
		scn += ",j,t"
	}
	if wedged {
		return nil
	}
	type result struct {
		obs     []event
		threads map[int]*thread
		injs    []*injection
		id0     uint16
		dumps   []string
		pp      string
	}
	ch := make(chan result, 1)
	multi := strings.HasPrefix(line, "ping.mtrace ")
	cmd := "ping.trace"
	if multi {
		cmd = "ping.mtrace"
	}
	go func() {
		next := packet.VerifICMPNextID() // start from an empty table, keep the counter …
		if multi && strings.HasPrefix(scn, "n") {
			if v, err := strconv.Atoi(strings.SplitN(scn[1:], ",", 2)[0]); err == nil {
				next = uint16(v) // … unless the scenario starts near the wrap of the uint16 counter
			}
		}
		packet.VerifICMPReset(next)
		var r result
		r.obs, r.threads, r.injs, r.id0, r.dumps, r.pp = runScenario(scn)
		ch <- r
	}()
	var r result
	select {
	case r = <-ch:
	case <-time.After(scenarioBudget(scn)):
		// the scenario did not come back: a ping, a table dump or Parse waits for icmpTable's mutex for ever
		wedged = true
		what := fmt.Sprintf("scenario blocked for more than %v (icmpTable left locked? a Ping, Parse or the table dump never returned)", scenarioBudget(scn))
		return &core.Case{Line: cmd + " 0 scn=" + scn, Impl: "hang", Trivial: false,
			Oracle: func() (string, string) { return what, "" }}
	}
	toks := make([]string, len(r.obs))
	for i, e := range r.obs {
		toks[i] = e.tok
	}
	if multi {
		toks = withDeadlines(r.obs, r.threads)
	}
	nl := fmt.Sprintf("%s %d scn=%s %s", cmd, r.id0, scn, strings.Join(toks, " "))
	if r.pp != "" {
		wedged = true
		return &core.Case{Line: nl, Impl: "panic", Trivial: false,
			Oracle: func() (string, string) {
				return r.pp + ": a received frame must never make Parse panic (the panic was raised with the icmpTable mutex held – every later Ping / Parse of an echo reply blocks)", ""
			}}
	}
	return &core.Case{Line: nl, Impl: "accept", Trivial: len(r.threads) == 0,
		Oracle: func() (string, string) { return oracle(r.obs, r.threads, r.injs, r.dumps) }}
}

func evalCls(c *core.Ctx, line string) *core.Case {
	f := strings.Fields(line)
	if len(f) != 4 {
		return nil
	}
	setup()
	msg := core.UnHex(f[2])
	var ids []uint16
	if f[3] != "-" {
		for _, s := range strings.Split(f[3], ",") {
			v, _ := strconv.Atoi(s)
			ids = append(ids, uint16(v))
		}
	}
	fr := frame4(1, msg)
	if f[1] == "6" {
		fr = frame6(1, msg)
	}
	if wedged {
		return nil
	}
	var got []uint16
	res := core.WithTimeout(3*time.Second, func() string { // 3 s + 12 s before it counts as blocked
		got = packet.VerifICMPProbe(ids, func() { session.Parse(fr) })
		return "ok"
	})
	if res == "panic" || res == "hang" {
		wedged = true
		what := "Session.Parse panicked on an ICMP message while waiters were registered (the icmpTable mutex may be left locked)"
		if res == "hang" {
			what = "Parse / the waiter probe blocked for more than 15 s (icmpTable left locked?)"
		}
		return &core.Case{Line: line, Impl: res, Trivial: false, Oracle: func() (string, string) { return what, "" }}
	}
	impl := res
	if res == "ok" {
		impl = "n=-"
		if len(got) > 0 {
			ss := make([]string, len(got))
			for i, v := range got {
				ss[i] = strconv.Itoa(int(v))
			}
			impl = "n=" + strings.Join(ss, ",")
		}
	}
	// oracle: completes exactly the waiter whose id is in bytes 4..5 of a well-formed echo reply
	want := "n=-"
	rep := byte(0)
	if f[1] == "6" {
		rep = 129
	}
	if len(msg) >= 8 && msg[0] == rep {
		id := binary.BigEndian.Uint16(msg[4:6])
		for _, v := range ids {
			if v == id {
				want = "n=" + strconv.Itoa(int(id))
			}
		}
	}
	return &core.Case{Line: line, Impl: impl, Trivial: len(msg) < 8,
		Oracle: func() (string, string) {
			if impl != want {
				return fmt.Sprintf("Parse of ICMP %s (family %s) completed waiters %s, an echo reply completes exactly %s", f[2], f[1], impl, want), ""
			}
			return "", ""
		}}
}

// effTimeout mirrors Model.Ping.effTimeout (the clamp at the head of Ping6 / ping).  The ping.eff cases compare
// this MIRROR with the Lean function – the library is not called there.  The library is held to it by the trace
// oracle, which measures real calls: ErrTimeout comes no earlier than the effective timeout (every scenario) and,
// for arguments outside (0, 10 s] with nothing received, no later than 2 s + 2.5 s (the fixed scenarios with
// timeout arguments 0, -7, 10001, 20000, 3600000 ms); a nil return needs an own reply parsed no later than
// 500 ms after the effective timeout.
func effTimeout(d time.Duration) time.Duration {
	if d <= 0 || d > 10*time.Second {
		return 2 * time.Second
	}
	return d
}

func evalEff(c *core.Ctx, line string) *core.Case {
	f := strings.Fields(line)
	if len(f) != 3 {
		return nil
	}
	ns, err := strconv.ParseInt(f[2], 10, 64)
	if err != nil {
		return nil
	}
	return &core.Case{Line: line, Impl: strconv.FormatInt(int64(effTimeout(time.Duration(ns))), 10)}
}

func Eval(c *core.Ctx, line string) *core.Case {
	switch {
	case strings.HasPrefix(line, "ping.eff "):
		return evalEff(c, line)
	case strings.HasPrefix(line, "ping.trace "), strings.HasPrefix(line, "ping.mtrace "):
		return evalTrace(c, line)
	case strings.HasPrefix(line, "ping.cls "):
		return evalCls(c, line)
	}
	return nil
}

// add evaluates one generated line.  Every line is a unit of the sharded run (core.Ctx.NextMine): the scenarios are
// real-time (each waits out its timeouts, a Session.Close sleeps a second) and independent of one another, so the
// shards of ./check run a third of them each, side by side in separate processes (icmpTable is process-wide).
func add(c *core.Ctx, class, line string) {
	if !c.NextMine() {
		return
	}
	if cs := Eval(c, line); cs != nil {
		cs.Class = class
		c.Add(*cs)
	}
}

func genScenario(c *core.Ctx, n int) string {
	r := c.Rnd
	var st []string
	kinds := []string{"4", "6", "4", "6", "4", "6", "b", "w"}
	live := []int{}
	next := 0
	steps := 3 + r.Intn(8)
	for i := 0; i < steps; i++ {
		switch x := r.Intn(12); {
		case x < 4 && next < n:
			k := next
			next++
			kind := kinds[r.Intn(len(kinds))]
			ms := 30 + 10*r.Intn(6)
			if (kind == "4" || kind == "6") && r.Intn(60) == 0 { // out-of-range argument: the 2 s default applies
				ms = []int{0, -1, -2000, 10001, 3600000}[r.Intn(5)]
			}
			st = append(st, fmt.Sprintf("p%d:%s:%d", k, kind, ms))
			if kind == "4" || kind == "6" {
				live = append(live, k)
			}
			if ms < 30 || ms > 80 {
				if r.Intn(5) > 0 { // mostly answered, else the call lasts the full two seconds
					st = append(st, fmt.Sprintf("w%d", []int{1, 10, 40}[r.Intn(3)]), fmt.Sprintf("e%d", k))
				}
			}
		case x < 5:
			st = append(st, fmt.Sprintf("w%d", []int{1, 3, 10, 35, 70}[r.Intn(5)]))
		case x < 6:
			st = append(st, "t")
		default:
			if len(live) == 0 {
				continue
			}
			k := live[r.Intn(len(live))]
			op := "eeeEEyfqmu"[r.Intn(10)]
			st = append(st, fmt.Sprintf("%c%d", op, k))
		}
	}
	return strings.Join(st, ",")
}

// Gen is the C19 correspondence run.
func Gen(c *core.Ctx) {
	c.Res.Rule = multiRule + "ping.trace: real-time scenarios of up to 5 concurrent Ping/Ping6 calls (timeouts 30–80 ms and arguments outside (0, 10 s] for which the 2 s default applies; incl. calls whose send fails) with matching / other-family / foreign / duplicate / request / truncated / other-type ICMP injected through Session.Parse before and after the timeout, icmpTable dumped; the observed event log must be accepted by the Lean ping machine and satisfy the Go-side oracle.  ping.eff: the effective timeout of the model against the harness's mirror, to which the trace oracle holds the implementation.  ping.cls: ICMP messages (all types, lengths 0..16, id bytes) through Parse with probe waiters registered.  non-trivial = scenario with at least one call / message of at least 8 bytes"
	for _, l := range c.CorpusLines() {
		add(c, "corpus", l)
	}
	// function mode: dispatch of echo replies
	for _, fam := range []string{"4", "6"} {
		for t := 0; t < 256; t++ {
			id := uint16(c.Rnd.Intn(65536))
			m := echoMsg(byte(t), id, c.Rnd.Intn(6))
			ids := fmt.Sprintf("%d,%d,%d", id, id<<8|id>>8, uint16(c.Rnd.Intn(65536)))
			add(c, "cls-type", fmt.Sprintf("ping.cls %s %s %s", fam, core.Hex(m), ids))
		}
		for n := 0; n <= 16; n++ {
			for _, t := range []byte{0, 129, 8, 128} {
				m := echoMsg(t, 0x0102, 8)[:n]
				add(c, "cls-trunc", fmt.Sprintf("ping.cls %s %s %d,%d", fam, core.Hex(m), 0x0102, 0x0201))
			}
		}
		for i := 0; i < c.Scale(300, 20000); i++ {
			m := c.RandBytes(c.Rnd.Intn(24))
			if len(m) > 0 && c.Rnd.Intn(2) == 0 {
				m[0] = []byte{0, 129}[c.Rnd.Intn(2)]
			}
			id := uint16(0)
			if len(m) >= 6 {
				id = binary.BigEndian.Uint16(m[4:6])
			}
			add(c, "cls-rand", fmt.Sprintf("ping.cls %s %s %d,%d", fam, core.Hex(m), id, uint16(c.Rnd.Intn(65536))))
		}
	}
	// fixed scenarios
	for _, s := range []string{
		"p0:4:60,e0", "p0:6:60,e0", "p0:4:40", "p0:6:40", "p0:4:40,f0", "p0:4:50,q0,m0,u0", "p0:6:50,q0,m0,u0",
		"p0:4:60,e0,e0", "p0:4:40,w70,e0", "p0:b:50,t", "p0:w:50,t", "p0:4:60,y0", "p0:6:60,y0",
		"p0:4:60,p1:6:60,p2:4:60,e1,e0,f2", "p0:4:60,p1:4:60,E0,E1,E0", "p0:b:40,p1:4:40,e0,e1",
		// timeout argument outside (0, 10 s]: the default of two seconds applies
		"p0:4:0,w40,e0", "p0:6:0,w40,e0", "p0:4:-7,w40,e0", "p0:6:-7,w40,e0", "p0:4:10001,w40,e0", "p0:6:3600000,w40,e0",
		"p0:4:0,p1:6:0,p2:4:10001,p3:6:-1,w30,f0,f1", "p0:4:10000,w40,e0", "p0:4:1,w30,e0",
		// a reply long after the timeout (400 ms) does not complete the call; measured default: argument 0 and an
		// argument above 10 s last two seconds when nothing is received
		"p0:4:400,w1000,e0", "p0:6:400,w1000,e0", "p0:4:0,p1:6:20000",
		// the upper end of the accepted range, 10 s exactly, is a timeout of ten seconds and not the default: a reply
		// parsed after 2.3 s completes both calls (bO: `timeout >= 10 s` in Ping6 went unnoticed - every scenario with
		// the argument 10000 was answered after 40 ms, which the default of two seconds allows as well)
		"p0:4:10000,p1:6:10000,w2300,e0,e1",
	} {
		add(c, "fixed", "ping.trace 0 scn="+s)
	}
	for _, ns := range []int64{0, 1, -1, -2e9, 29e6, 2e9, 1e10 - 1, 1e10, 1e10 + 1, 11e9, 36e11, 1 << 62, -(1 << 62)} {
		add(c, "eff", fmt.Sprintf("ping.eff 4 %d", ns))
	}
	for i := 0; i < 200; i++ {
		add(c, "eff", fmt.Sprintf("ping.eff 6 %d", c.Rnd.Int63n(3e10)-1e10))
	}
	n := c.Scale(450, 5000)
	for i := 0; i < n; i++ {
		add(c, "random", "ping.trace 0 scn="+genScenario(c, 2+c.Rnd.Intn(4)))
	}
	n += genMulti(c)
	if c.First() {
		c.Res.Extra["traces_validated_against_impl"] = n + 29
	}
}

var Runner = core.Runner{Gen: Gen, Eval: Eval}
