// Package c15: correspondence + oracle for C15 (Internet checksums).
package c15

import (
	"fmt"
	"github.com/irai/packet/fastlog"
	"math/rand"
	"net/netip"
	"strconv"
	"strings"
	"sync"

	"github.com/irai/packet"
	"verif/harness/core"
	"verif/harness/sess"
)

// independent RFC 1071 (big-endian words, unbounded accumulator, iterated end-around carry)
func rfc1071(b []byte) uint16 {
	var sum uint64
	for i := 0; i+1 < len(b); i += 2 {
		sum += uint64(b[i])<<8 | uint64(b[i+1])
	}
	if len(b)%2 == 1 {
		sum += uint64(b[len(b)-1]) << 8
	}
	for sum > 0xffff {
		sum = (sum & 0xffff) + (sum >> 16)
	}
	return ^uint16(sum)
}

func verifies(b []byte) bool { return rfc1071(b) == 0 }

func swap(v uint16) uint16 { return v<<8 | v>>8 }

var (
	session *packet.Session
	conn    *sess.RecConn
)

// Eval: one protocol line -> real code.
//
//	cks <hex>                      Checksum(b) and the harness's RFC 1071 in library byte order
//	ip4set <hdr20>                 IP4.SetPayload on that header (payload length/protocol taken from the header); bytes 10..11 are ignored
//	ip4app <hdr20>                 same through AppendPayload
//	icmp4cks <msg>                 Session.icmp4SendPacket, ICMP part of the emitted frame
//	icmp6cks <src16> <dst16> <msg> Session.icmp6SendPacket, ICMP part of the emitted frame
//	par <seed> <goroutines> <iters> Checksum / IP4.SetPayload / IP4.AppendPayload / IP4.CalculateChecksum called from several
//	                               goroutines at once, each on buffers of its own: the routines are functions of their
//	                               arguments, so every result must equal the one the same call gave sequentially (a shared
//	                               scratch buffer or cached state inside the library shows up here; no model counterpart)
func Eval(c *core.Ctx, line string) *core.Case {
	f := strings.Fields(line)
	if len(f) < 2 {
		return nil
	}
	switch f[0] {
	case "par":
		if len(f) != 4 {
			return nil
		}
		var seed, g, iters int
		fmt.Sscan(f[1], &seed)
		fmt.Sscan(f[2], &g)
		fmt.Sscan(f[3], &iters)
		bad := parallelPurity(int64(seed), g, iters)
		return &core.Case{Line: line, Impl: "par", Trivial: true, Cmp: func(a, b string) bool { return true },
			Oracle: func() (string, string) { return bad, "" }}
	case "cks":
		b := core.UnHex(f[1])
		impl := packet.Checksum(b)
		ref := swap(rfc1071(b))
		return &core.Case{Line: line, Impl: fmt.Sprintf("%d %d", impl, ref), Trivial: len(b) == 0,
			Oracle: func() (string, string) {
				if impl != ref {
					return fmt.Sprintf("Checksum=%#04x but RFC1071 (library byte order)=%#04x", impl, ref), ""
				}
				return "", ""
			}}
	case "ip4set", "ip4app":
		hdr := core.UnHex(f[1])
		if len(hdr) != 20 {
			return nil
		}
		plen := (int(hdr[2])<<8 | int(hdr[3])) - 20
		if plen < 0 {
			plen = 0
		}
		buf := make([]byte, 20, 20+plen)
		copy(buf, hdr)
		payload := make([]byte, plen)
		var out []byte
		res := core.Safely(func() string {
			if f[0] == "ip4app" {
				p, err := packet.IP4(buf).AppendPayload(payload, hdr[9])
				if err != nil {
					return "err"
				}
				out = p[:20]
			} else {
				out = packet.IP4(buf).SetPayload(payload, hdr[9])[:20]
			}
			return "ok"
		})
		if res != "ok" {
			return &core.Case{Line: "ip4set " + f[1], Impl: res, Trivial: true, Cmp: func(a, b string) bool { return true }}
		}
		v := verifies(out)
		in := append([]byte{}, out...)
		in[10], in[11] = hdr[10], hdr[11] // the model must recompute the field from the other 18 bytes
		return &core.Case{Line: "ip4set " + core.Hex(in), Impl: fmt.Sprintf("ok %s verifies=%v", core.Hex(out), v),
			Oracle: func() (string, string) {
				if !v {
					return "IPv4 header completed by SetPayload/AppendPayload does not sum to zero under RFC 1071: " + core.Hex(out), ""
				}
				return "", ""
			}}
	case "icmp4cks":
		if session == nil {
			session, conn = sess.New(nil)
		}
		in := core.UnHex(f[1])
		m4 := append([]byte{}, in...)
		conn.Take()
		if err := session.VerifICMP4SendPacket(packet.Addr{MAC: sess.HostMAC, IP: sess.HostIP4}, packet.Addr{MAC: sess.RouterMAC, IP: sess.RouterIP4}, m4); err != nil {
			return nil
		}
		fr := conn.Take()
		if len(fr) != 1 || len(fr[0]) != 14+20+len(in) {
			return &core.Case{Line: line, Impl: "no-frame"}
		}
		o4 := fr[0][34:]
		v4 := verifies(o4) && verifies(fr[0][14:34])
		zero := in[2] == 0 && in[3] == 0
		return &core.Case{Line: line, Impl: fmt.Sprintf("%s verifies=%v", core.Hex(o4), verifies(o4)),
			Oracle: func() (string, string) {
				if zero && !v4 {
					return "frame emitted by icmp4SendPacket: ICMP or IPv4 header checksum does not verify", ""
				}
				return "", ""
			}}
	case "send":
		// send <echo4|echo6|na|ns> <debug|info|error> <id> <seq> <dst16>: the EXPORTED send function at that log level;
		// the emitted frame's IPv4 header / ICMP checksums must verify under the independent RFC 1071 (with the IPv6
		// pseudo header).  A frame must not depend on the log level (statements inside `if Logger.IsDebug()` run at debug).
		if len(f) != 6 {
			return nil
		}
		if session == nil {
			session, conn = sess.New(nil)
		}
		lvl, ok := map[string]fastlog.LogLevel{"debug": fastlog.LevelDebug, "info": fastlog.LevelInfo, "error": fastlog.LevelError}[f[2]]
		id, e1 := strconv.Atoi(f[3])
		seq, e2 := strconv.Atoi(f[4])
		db := core.UnHex(f[5])
		if !ok || e1 != nil || e2 != nil || len(db) != 16 {
			return nil
		}
		old := packet.Logger.Level()
		packet.Logger.SetLevel(lvl)
		defer packet.Logger.SetLevel(old)
		dst6 := netip.AddrFrom16(*(*[16]byte)(db))
		src6 := sess.HostLLA.Addr()
		conn.Take()
		var err error
		switch f[1] {
		case "echo4":
			err = session.ICMP4SendEchoRequest(packet.Addr{MAC: sess.HostMAC, IP: sess.HostIP4}, packet.Addr{MAC: sess.RouterMAC, IP: sess.RouterIP4}, uint16(id), uint16(seq))
		case "echo6":
			err = session.ICMP6SendEchoRequest(packet.Addr{MAC: sess.HostMAC, IP: src6}, packet.Addr{MAC: sess.RouterMAC, IP: dst6}, uint16(id), uint16(seq))
		case "na":
			err = session.ICMP6SendNeighborAdvertisement(packet.Addr{MAC: sess.HostMAC, IP: src6}, packet.Addr{MAC: sess.RouterMAC, IP: dst6}, packet.Addr{MAC: sess.HostMAC, IP: src6})
		case "ns":
			err = session.ICMP6SendNeighbourSolicitation(packet.Addr{MAC: sess.HostMAC, IP: src6}, packet.Addr{MAC: sess.RouterMAC, IP: dst6}, dst6)
		default:
			return nil
		}
		fr := conn.Take()
		if err != nil || len(fr) != 1 {
			return nil
		}
		b := fr[0]
		bad := ""
		switch {
		case f[1] == "echo4" && len(b) >= 42:
			if !verifies(b[14:34]) {
				bad = "IPv4 header checksum does not verify"
			} else if !verifies(b[34:]) {
				bad = "ICMPv4 checksum does not verify"
			}
		case f[1] != "echo4" && len(b) >= 58:
			ln := len(b) - 54
			psh := append(append(append([]byte{}, b[22:38]...), b[38:54]...), byte(ln>>24), byte(ln>>16), byte(ln>>8), byte(ln), 0, 0, 0, 58)
			if !verifies(append(psh, b[54:]...)) {
				bad = "ICMPv6 checksum does not verify with its pseudo header"
			}
		default:
			bad = "frame too short"
		}
		return &core.Case{Line: line, Impl: fmt.Sprintf("frame %d bytes bad=%q", len(b), bad), Cmp: func(string, string) bool { return true },
			Oracle: func() (string, string) {
				if bad != "" {
					return "frame emitted by the exported send function " + f[1] + " at log level " + f[2] + ": " + bad, ""
				}
				return "", ""
			}}
	case "icmp6cks":
		if len(f) != 4 {
			return nil
		}
		if session == nil {
			session, conn = sess.New(nil)
		}
		sb, db, in := core.UnHex(f[1]), core.UnHex(f[2]), core.UnHex(f[3])
		if len(sb) != 16 || len(db) != 16 || len(in) < 4 {
			return nil
		}
		src, dst := netip.AddrFrom16(*(*[16]byte)(sb)), netip.AddrFrom16(*(*[16]byte)(db))
		msg := append([]byte{}, in...)
		ln := len(msg)
		conn.Take()
		if err := session.VerifICMP6SendPacket(packet.Addr{MAC: sess.HostMAC, IP: src}, packet.Addr{MAC: sess.RouterMAC, IP: dst}, msg); err != nil {
			return nil
		}
		fr := conn.Take()
		if len(fr) != 1 || len(fr[0]) != 14+40+ln {
			return &core.Case{Line: line, Impl: "no-frame"}
		}
		out := fr[0][54:]
		psh := append(append(append([]byte{}, sb...), db...), byte(ln>>24), byte(ln>>16), byte(ln>>8), byte(ln), 0, 0, 0, 58)
		psh = append(psh, out...)
		v := verifies(psh)
		zero := in[2] == 0 && in[3] == 0
		return &core.Case{Line: line, Impl: fmt.Sprintf("%s verifies=%v", core.Hex(out), v),
			Oracle: func() (string, string) {
				if zero && !v {
					return "ICMPv6 message emitted by icmp6SendPacket does not verify with its pseudo header", ""
				}
				return "", ""
			}}
	}
	return nil
}

// parallelPurity: g goroutines, each with its own PRNG stream and its own buffers, run the checksum routines iters times;
// every call is made twice - once inside the concurrent phase, once afterwards sequentially - and the results must agree
// and must verify under the independent RFC 1071.  Returns "" or the first difference.
func parallelPurity(seed int64, g, iters int) string {
	type rec struct {
		hdr  []byte // the 20-byte header handed to SetPayload / AppendPayload
		app  bool
		out  []byte // completed header observed in the concurrent phase
		data []byte // input of Checksum
		cks  uint16
		calc uint16 // IP4.CalculateChecksum of the completed header
	}
	run := func(r *rec) {
		plen := (int(r.hdr[2])<<8 | int(r.hdr[3])) - 20
		buf := make([]byte, 20, 20+plen)
		copy(buf, r.hdr)
		payload := make([]byte, plen)
		if r.app {
			p, err := packet.IP4(buf).AppendPayload(payload, r.hdr[9])
			if err != nil {
				r.out = nil
				return
			}
			r.out = append([]byte{}, p[:20]...)
		} else {
			r.out = append([]byte{}, packet.IP4(buf).SetPayload(payload, r.hdr[9])[:20]...)
		}
		r.calc = packet.IP4(r.out).CalculateChecksum()
		r.cks = packet.Checksum(r.data)
	}
	all := make([][]rec, g)
	var wg sync.WaitGroup
	start := make(chan struct{})
	for i := 0; i < g; i++ {
		rnd := rand.New(rand.NewSource(seed*1000 + int64(i)))
		recs := make([]rec, iters)
		for k := range recs {
			h := make([]byte, 20)
			rnd.Read(h)
			h[0], h[2], h[3] = 0x45, 0, byte(20+rnd.Intn(64))
			d := make([]byte, rnd.Intn(120))
			rnd.Read(d)
			recs[k] = rec{hdr: h, app: k%2 == 0, data: d}
		}
		all[i] = recs
		wg.Add(1)
		go func(recs []rec) {
			defer wg.Done()
			defer func() { recover() }()
			<-start
			for k := range recs {
				run(&recs[k])
			}
		}(recs)
	}
	close(start)
	wg.Wait()
	for i := range all {
		for k := range all[i] {
			c := all[i][k]
			seq := rec{hdr: c.hdr, app: c.app, data: c.data}
			run(&seq)
			switch {
			case string(seq.out) != string(c.out):
				return fmt.Sprintf("IPv4 header completed by SetPayload/AppendPayload while %d goroutines encode in buffers of their own differs from the same call made alone: concurrent %s alone %s (verifies=%v / %v)", g, core.Hex(c.out), core.Hex(seq.out), verifies(c.out), verifies(seq.out))
			case c.out != nil && !verifies(c.out):
				return "IPv4 header completed concurrently does not sum to zero under RFC 1071: " + core.Hex(c.out)
			case seq.calc != c.calc:
				return fmt.Sprintf("IP4.CalculateChecksum of %s gave %#04x concurrently and %#04x alone", core.Hex(c.out), c.calc, seq.calc)
			case seq.cks != c.cks || c.cks != swap(rfc1071(c.data)):
				return fmt.Sprintf("Checksum(%s) gave %#04x concurrently, %#04x alone, RFC 1071 %#04x", core.Hex(c.data), c.cks, seq.cks, swap(rfc1071(c.data)))
			}
		}
	}
	return ""
}

func add(c *core.Ctx, class, line string) {
	if cs := Eval(c, line); cs != nil {
		cs.Class = class
		c.Add(*cs)
	}
}

// Gen is the C15 correspondence run.
func Gen(c *core.Ctx) {
	c.Res.Rule = "cks: every string of length 0..2 exhaustively and a stride of length 3 (quick) / all of length 3 (thorough), carry-chain patterns, single-word perturbations of carriers, random strings of every length 0..1522 and some above; ip4set/ip4app: random 20-byte headers through SetPayload/AppendPayload; icmp4cks/icmp6cks: random messages through the real send paths. distinct = distinct protocol lines; non-trivial = non-empty input that the real code accepted"
	for _, l := range c.CorpusLines() {
		add(c, "corpus", l)
	}
	cks := func(b []byte, class string) { add(c, class, "cks "+core.Hex(b)) }
	cks(nil, "exh0")
	for a := 0; a < 256; a++ {
		cks([]byte{byte(a)}, "exh1")
	}
	for a := 0; a < 65536; a++ {
		cks([]byte{byte(a >> 8), byte(a)}, "exh2")
	}
	stride := c.Scale(251, 1)
	for a := c.Rnd.Intn(stride); a < 1<<24; a += stride {
		cks([]byte{byte(a >> 16), byte(a >> 8), byte(a)}, "exh3")
	}
	for n := 0; n <= 1522; n += 1 + c.Rnd.Intn(c.Scale(7, 1)) {
		b := make([]byte, n)
		for i := range b {
			b[i] = 0xff
		}
		cks(b, "allff")
		if n >= 2 {
			b2 := append([]byte{}, b...)
			b2[c.Rnd.Intn(n)] = 0x00
			cks(b2, "allff-hole")
			b3 := make([]byte, n)
			b3[c.Rnd.Intn(n)] = 0x01
			cks(b3, "single-bit")
		}
	}
	reps := c.Scale(4, 40)
	for n := 0; n <= 1522; n++ {
		for r := 0; r < reps; r++ {
			cks(c.RandBytes(n), "random")
		}
	}
	for k := 0; k < c.Scale(20, 400); k++ {
		n := 2 + c.Rnd.Intn(200)
		carrier := c.RandBytes(n)
		pos := c.Rnd.Intn(n - 1)
		for _, w := range []uint16{0, 1, 0xff, 0x100, 0x7fff, 0x8000, 0xfffe, 0xffff, uint16(c.Rnd.Intn(65536))} {
			b := append([]byte{}, carrier...)
			b[pos], b[pos+1] = byte(w>>8), byte(w)
			cks(b, "perturb")
		}
	}
	for k := 0; k < c.Scale(5, 100); k++ {
		cks(c.RandBytes(1523+c.Rnd.Intn(8000)), "big")
	}
	for k := 0; k < c.Scale(3000, 100000); k++ {
		h := c.RandBytes(20)
		if k%8 != 0 {
			h[0] = 0x45
			h[2], h[3] = 0, byte(20+c.Rnd.Intn(64))
		}
		op := "ip4set "
		if k%2 == 0 && h[0] == 0x45 {
			op = "ip4app "
		}
		add(c, "ip4hdr", op+core.Hex(h))
	}
	for k := 0; k < c.Scale(4, 40); k++ {
		add(c, "parallel", fmt.Sprintf("par %d 8 %d", c.Rnd.Intn(1<<30), c.Scale(4000, 20000)))
	}
	ff := make([]byte, 20)
	add(c, "ip4hdr-edge", "ip4set "+core.Hex(ff))
	for i := range ff {
		ff[i] = 0xff
	}
	ff[0], ff[2], ff[3] = 0x45, 0, 20
	add(c, "ip4hdr-edge", "ip4set "+core.Hex(ff))
	for i := 0; i < c.Scale(1500, 30000); i++ {
		ln := 8 + c.Rnd.Intn(64)
		if c.Rnd.Intn(8) == 0 {
			ln = 8 + c.Rnd.Intn(1400)
		}
		msg := c.RandBytes(ln)
		cls := "icmp6-dirtyfield"
		if c.Rnd.Intn(4) != 0 {
			msg[2], msg[3] = 0, 0
			cls = "icmp6-zeroed"
		}
		add(c, cls, "icmp6cks "+core.Hex(c.RandBytes(16))+" "+core.Hex(c.RandBytes(16))+" "+core.Hex(msg))
		m4 := c.RandBytes(8 + c.Rnd.Intn(64))
		m4[2], m4[3] = 0, 0
		add(c, "icmp4", "icmp4cks "+core.Hex(m4))
	}
	// the exported send functions at every log level; destinations of every class, so that consecutive sends leave
	// different bytes behind in the pooled frame buffer
	dsts := [][]byte{{0xff, 2, 0, 0, 0, 0, 0, 0, 0, 0, 0, 0, 0, 0, 0, 1}, {0xff, 2, 0, 0, 0, 0, 0, 0, 0, 0, 0, 0, 0, 0, 0, 2},
		append([]byte{0xfe, 0x80, 0, 0, 0, 0, 0, 0}, c.RandBytes(8)...), append([]byte{0xff, 2, 0, 0, 0, 0, 0, 0, 0, 0, 0, 1, 0xff}, c.RandBytes(3)...),
		append([]byte{0x20, 1, 0xd, 0xb8}, c.RandBytes(12)...)}
	for i, n := 0, c.Scale(600, 20000); i < n; i++ {
		kind := []string{"echo4", "echo6", "na", "ns"}[c.Rnd.Intn(4)]
		lvl := []string{"debug", "info", "error"}[c.Rnd.Intn(3)]
		add(c, "send-"+lvl, fmt.Sprintf("send %s %s %d %d %s", kind, lvl, c.Rnd.Intn(65536), c.Rnd.Intn(65536), core.Hex(dsts[c.Rnd.Intn(len(dsts))])))
	}
}

var Runner = core.Runner{Gen: Gen, Eval: Eval}
