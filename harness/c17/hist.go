package c17

import (
	"fmt"
	"math/rand"
	"strings"

	"verif/harness/core"
	g "verif/harness/dnsgen"
)

// mDNS HISTORIES (mdns.hist lines): response / query mixes from a few stations, transaction ids including 0 (what
// mDNS uses for practically everything), time steps around the five minutes a response is remembered.  All time
// steps are multiples of two seconds: the handler reads the real clock, the harness moves the cache expiries instead,
// and the few microseconds a history takes to run must not decide a comparison.

var histMACs = []string{"02aa00000001", "02aa00000002", "02bb00000003"}

const histTTL = 300000 // ms

func histResponse(r *rand.Rand, ipPool [][]byte, id uint16) []byte {
	for {
		m := g.RandMDNS(r, ipPool)
		if m.Flags&0x8000 != 0 {
			m.ID = id
			return g.Build(m, g.Opts{Compress: r.Intn(3) != 0}).Bytes
		}
	}
}

func histQuery(r *rand.Rand, ipPool [][]byte, id uint16) []byte {
	for {
		m := g.RandMDNS(r, ipPool)
		if m.Flags&0x8000 == 0 {
			m.ID = id
			return g.Build(m, g.Opts{Compress: r.Intn(2) == 0}).Bytes
		}
	}
}

// probeQuery: the query a station multicasts to check that its host name is unique
func probeQuery(id uint16, host string) []byte {
	m := g.Msg{ID: id, Q: []g.Question{{Name: g.N(host + ".local"), Type: 255, Class: 1}}}
	return g.Build(m, g.Opts{}).Bytes
}

func histStep(dt int, mac string, p []byte) string {
	return fmt.Sprintf("%d,%s,%s", dt, mac, core.Hex(p))
}

func genHist(c *core.Ctx, ipPool [][]byte) {
	r := c.Rnd
	h := func(class string, steps ...string) { add(c, class, "mdns.hist "+strings.Join(steps, " ")) }
	A, B := histMACs[0], histMACs[1]
	// fixed shapes, each with fresh random messages
	for i, n := 0, c.Scale(12, 200); i < n; i++ {
		for _, id := range []uint16{0, 0, 1, uint16(r.Intn(65536))} {
			resp, resp2, q := histResponse(r, ipPool, id), histResponse(r, ipPool, id), probeQuery(id, "Johns-iPad")
			// a query after a response of the same station with the same id: never a duplicate
			h("hist-query-after-response", histStep(0, A, resp), histStep(2000, A, q))
			h("hist-query-after-response", histStep(0, A, resp), histStep(0, A, histQuery(r, ipPool, id)), histStep(2000, A, resp))
			// the same response again: inside / at / after the five minutes
			h("hist-expiry", histStep(0, A, resp), histStep(histTTL-2000, A, resp), histStep(2000, A, resp), histStep(2000, A, resp))
			h("hist-expiry", histStep(0, A, resp), histStep(histTTL, A, resp2), histStep(histTTL-2000, A, resp))
			h("hist-expiry", histStep(0, A, resp), histStep(150000, A, resp), histStep(150000, A, resp), histStep(histTTL+2000, A, resp))
			// other station / other id: not a duplicate
			h("hist-other-key", histStep(0, A, resp), histStep(2000, B, resp), histStep(0, A, histResponse(r, ipPool, id+1)), histStep(0, B, resp))
			h("hist-other-key", histStep(0, A, resp), histStep(0, A, histResponse(r, ipPool, id^0x0100)), histStep(0, A, histResponse(r, ipPool, id^0x0001)))
			// a response that fails is not remembered: the complete one after it is processed
			cut := resp[:len(resp)-1-r.Intn(len(resp)/2)]
			h("hist-failed-first", histStep(0, A, cut), histStep(2000, A, resp), histStep(2000, A, resp))
			h("hist-failed-first", histStep(0, A, resp[:11]), histStep(0, A, q), histStep(0, A, resp))
		}
	}
	// random histories
	dts := []int{0, 0, 0, 2000, 2000, 60000, 150000, histTTL - 2000, histTTL, histTTL + 2000, 2 * histTTL}
	for i, n := 0, c.Scale(400, 8000); i < n; i++ {
		ids := []uint16{0, 0, 1, uint16(r.Intn(65536))}
		pool := [][]byte{} // a few messages that recur in the history
		for j := 0; j < 3; j++ {
			pool = append(pool, histResponse(r, ipPool, ids[r.Intn(len(ids))]))
		}
		var steps []string
		for j, k := 0, 2+r.Intn(7); j < k; j++ {
			var p []byte
			switch x := r.Intn(10); {
			case x < 5:
				p = pool[r.Intn(len(pool))]
			case x < 7:
				p = histQuery(r, ipPool, ids[r.Intn(len(ids))])
			case x < 8:
				p = probeQuery(ids[r.Intn(len(ids))], string(g.RandLabel(r, 1+r.Intn(10))))
			case x < 9:
				p = histResponse(r, ipPool, ids[r.Intn(len(ids))])
			default:
				q := pool[r.Intn(len(pool))]
				p = q[:len(q)-1-r.Intn(len(q)-1)]
			}
			steps = append(steps, histStep(dts[r.Intn(len(dts))], histMACs[r.Intn(len(histMACs))], p))
		}
		h("hist-random", steps...)
	}
}
