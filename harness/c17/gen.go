package c17

import (
	"fmt"
	"math/rand"
	"strings"

	"verif/harness/core"
	g "verif/harness/dnsgen"
	"verif/harness/dnsimpl"
	"verif/harness/dnsops"
)

var Runner = core.Runner{Gen: Gen, Eval: dnsops.Eval}

var Eval = dnsops.Eval

func add(c *core.Ctx, class, line string) {
	cs := Eval(c, line)
	switch {
	case cs == nil:
		c.Drop(class, "not evaluated")
	case dnsimpl.Skipped(cs.Impl):
		c.Drop(class, "skipped: hang budget of the operation spent")
	default:
		cs.Class = class
		c.Add(*cs)
	}
}

func nameLine(b []byte, off int) string { return fmt.Sprintf("dns.name %s %d", core.Hex(b), off) }
func questionLine(b []byte, idx int) string {
	return fmt.Sprintf("dns.question %s %d", core.Hex(b), idx)
}
func processLine(ps ...[]byte) string {
	var h []string
	for _, p := range ps {
		h = append(h, core.Hex(p))
	}
	return "dns.process " + strings.Join(h, " ")
}

func clone(b []byte) []byte { return append([]byte{}, b...) }

// RandResponse builds a DNS response for qname with a random answer set (A, AAAA, CNAME chains,
// PTR, MX, TXT, unassigned types) and a few records in the authority / additional sections.
func RandResponse(r *rand.Rand, qname g.Name, ipPool [][]byte) g.Msg {
	m := g.Msg{ID: uint16(r.Intn(65536)), Flags: 0x8180}
	qt := []uint16{g.TypeA, g.TypeAAAA, g.TypeA, 255}[r.Intn(4)]
	m.Q = []g.Question{{Name: qname, Type: qt, Class: 1}}
	owner := qname
	k := r.Intn(7)
	for i := 0; i < k; i++ {
		ttl := uint32(r.Intn(100000))
		switch r.Intn(11) {
		case 9:
			// PTR records whose owner is not an IPv4 reverse name, next to the address records: DNS-SD
			// service enumeration / instance PTRs, ip6.arpa nibble names, arbitrary owners
			var o g.Name
			switch r.Intn(4) {
			case 0:
				o = g.N("_services._dns-sd._udp.local")
			case 1:
				o = g.N([]string{"_http._tcp.local", "_airplay._tcp.local", "_ipp._tcp.example.com"}[r.Intn(3)])
			case 2:
				o = g.N("b.a.9.8.7.6.5.0.0.0.0.0.0.0.0.0.0.0.0.0.0.0.0.0.8.b.d.0.1.0.0.2.ip6.arpa")
			default:
				o = owner
			}
			m.An = append(m.An, g.RR{Name: o, Type: g.TypePTR, Class: 1, TTL: ttl, Target: g.HostName(r, "local"), IsName: true})
		case 10:
			// … and an IPv4 reverse PTR in the same answer section
			o := g.N(fmt.Sprintf("%d.%d.%d.%d.in-addr.arpa", r.Intn(256), r.Intn(256), r.Intn(256), r.Intn(256)))
			m.An = append(m.An, g.RR{Name: o, Type: g.TypePTR, Class: 1, TTL: ttl, Target: g.HostName(r, "example.net"), IsName: true})
		case 0, 1, 2:
			m.An = append(m.An, g.RR{Name: owner, Type: g.TypeA, Class: 1, TTL: ttl, Raw: ipPool[r.Intn(len(ipPool))][:4]})
		case 3, 4:
			m.An = append(m.An, g.RR{Name: owner, Type: g.TypeAAAA, Class: 1, TTL: ttl, Raw: ipPool[r.Intn(len(ipPool))]})
		case 5:
			t := g.HostName(r, []string{"example.net", "cdn.example.com", "l.google.com"}[r.Intn(3)])
			m.An = append(m.An, g.RR{Name: owner, Type: g.TypeCNAME, Class: 1, TTL: ttl, Target: t, IsName: true})
			if r.Intn(2) == 0 {
				owner = t
			}
		case 6:
			m.An = append(m.An, g.RR{Name: owner, Type: g.TypeMX, Class: 1, TTL: ttl, Raw: []byte{0, 10, 2, 'm', 'x', 0}})
		case 7:
			m.An = append(m.An, g.RR{Name: owner, Type: g.TypeTXT, Class: 1, TTL: ttl, Raw: append([]byte{5}, g.RandLabel(r, 5)...)})
		case 8:
			m.An = append(m.An, g.RR{Name: owner, Type: uint16(64 + r.Intn(1000)), Class: 1, TTL: ttl, Raw: g.RandLabel(r, r.Intn(9))})
		}
	}
	for i := r.Intn(3); i > 0; i-- {
		m.Ns = append(m.Ns, g.RR{Name: qname[len(qname)-1:], Type: 2, Class: 1, TTL: 60, Target: g.HostName(r, "ns.example.com"), IsName: true})
	}
	for i := r.Intn(3); i > 0; i-- {
		m.Ar = append(m.Ar, g.RR{Name: g.HostName(r, "ns.example.com"), Type: g.TypeA, Class: 1, TTL: 60, Raw: ipPool[r.Intn(len(ipPool))][:4]})
	}
	return m
}

func ptrResponse(r *rand.Rand) g.Msg {
	a, b, cc, d := r.Intn(256), r.Intn(256), r.Intn(256), r.Intn(256)
	qn := g.N(fmt.Sprintf("%d.%d.%d.%d.in-addr.arpa", d, cc, b, a))
	m := g.Msg{ID: uint16(r.Intn(65536)), Flags: 0x8180, Q: []g.Question{{Name: qn, Type: g.TypePTR, Class: 1}}}
	for i := 1 + r.Intn(3); i > 0; i-- {
		m.An = append(m.An, g.RR{Name: qn, Type: g.TypePTR, Class: 1, TTL: uint32(r.Intn(5000)), Target: g.HostName(r, "aaplimg.com"), IsName: true})
	}
	return m
}

func randOpts(r *rand.Rand) g.Opts {
	o := g.Opts{Compress: r.Intn(3) != 0}
	if r.Intn(3) == 0 {
		o.Chain = 1 + r.Intn(4)
	}
	return o
}

// corruptions of one built message
func Corruptions(r *rand.Rand, b g.Built, heavy bool) [][]byte {
	var out [][]byte
	m := b.Bytes
	set16 := func(off int, v int) {
		c := clone(m)
		c[off], c[off+1] = byte(v>>8), byte(v)
		out = append(out, c)
	}
	for _, off := range b.Marks.Counts {
		v := int(m[off])<<8 | int(m[off+1])
		for _, nv := range []int{0, v + 1, v - 1, 0xffff, 2} {
			if nv >= 0 && nv != v {
				set16(off, nv)
			}
		}
	}
	for _, off := range b.Marks.RDLen {
		v := int(m[off])<<8 | int(m[off+1])
		for _, nv := range []int{0, v + 1, v - 1, v + 4, 0xffff, len(m) - off - 2, len(m) - off - 1} {
			if nv >= 0 && nv != v {
				set16(off, nv)
			}
		}
	}
	for _, off := range b.Marks.Ptr {
		for _, t := range []int{off, off - 1, off + 2, len(m), len(m) - 1, 0, 12, 0x3fff, r.Intn(len(m))} {
			if t >= 0 {
				set16(off, 0xc000|t)
			}
		}
		// the start of the name that holds the pointer (a loop through labels)
		for _, n := range b.Marks.NameOff {
			if n <= off && off-n < 256 {
				set16(off, 0xc000|n)
			}
		}
		c := clone(m)
		c[off] = 0x40 | (c[off] & 0x3f) // reserved label type
		out = append(out, c)
		c = clone(m)
		c[off] = 0x80 | (c[off] & 0x3f)
		out = append(out, c)
	}
	lab := b.Marks.LabelLen
	if !heavy && len(lab) > 6 {
		lab = lab[:6]
	}
	for _, off := range lab {
		for _, v := range []int{0, int(m[off]) + 1, int(m[off]) - 1, 63, 64, 0x80 | int(m[off]), 0xc0, 0xff, len(m) - off, len(m) - off - 1} {
			if v >= 0 && v < 256 && v != int(m[off]) {
				c := clone(m)
				c[off] = byte(v)
				out = append(out, c)
			}
		}
	}
	return out
}

func Mutate(r *rand.Rand, m []byte) []byte {
	c := clone(m)
	for k := 1 + r.Intn(3); k > 0 && len(c) > 0; k-- {
		i := r.Intn(len(c))
		switch r.Intn(4) {
		case 0:
			c[i] ^= 1 << uint(r.Intn(8))
		case 1:
			c[i] = byte(r.Intn(256))
		case 2:
			c[i] = []byte{0, 0xc0, 0xff, 0x3f, 0x40, 12}[r.Intn(6)]
		case 3:
			c = append(c[:i], c[i+1:]...)
		}
	}
	return c
}

// longViaPointer builds a message where a name of `tail` wire bytes at offset 12 is continued by a
// second name consisting of labels of `head` bytes total followed by a pointer to 12.
func longViaPointer(r *rand.Rand, head, tail int) ([]byte, int) {
	m := make([]byte, 12)
	fill := func(total int) {
		// labels whose length octets + contents sum to `total`
		for total > 0 {
			l := 63
			if total < 64 {
				l = total - 1
			} else if total == 65 {
				l = 62
			}
			if l < 1 {
				l = 1
			}
			m = append(m, byte(l))
			m = append(m, g.RandLabel(r, l)...)
			total -= l + 1
		}
	}
	fill(tail)
	m = append(m, 0)
	at := len(m)
	fill(head)
	m = append(m, 0xc0, 12)
	return m, at
}

// NBNSBoundary: node status RDATA on every acceptance boundary.  For NUM_NAMES = n the array needs
// 1+18n bytes; RDLENGTH takes the values 18n-18 … 18n+2 and 18n+47 (one entry short, one byte short
// = 18n, exact = 18n+1, with statistics), each as the last bytes of the message (the RDATA copy has
// no room behind it), followed by a second complete record, followed by stray bytes, and as an
// RDLENGTH field overwritten on a longer record; the same byte strings go to parseNodeNameArray
// directly (exact-capacity and roomy backing arrays, see dnsimpl.NodeNames).
func NBNSBoundary(c *core.Ctx) {
	r := c.Rnd
	owner := g.Name{g.NBNSEncode(g.NBName("*"))[1:33]}
	second := g.RR{Name: owner, Type: g.TypeNBSTAT, Class: 1, Raw: append(append([]byte{1}, g.NBName("SECOND")...), 0x04, 0)}
	for _, n := range []int{0, 1, 2, 3, 5, 7, 14} {
		for _, delta := range []int{-37, -19, -18, -17, -3, -2, -1, 0, 1, 2, 46, 47} {
			rd := g.NodeStatusRData(r, n, delta)
			if len(rd) == 0 && delta < -1 {
				continue
			}
			add(c, "nbns.names-boundary", "nbns.names "+core.Hex(rd))
			rr := g.RR{Name: owner, Type: g.TypeNBSTAT, Class: 1, Raw: rd}
			m := g.Msg{ID: uint16(r.Intn(65536)), Flags: 0x8400, An: []g.RR{rr}}
			b := g.Build(m, g.Opts{})
			add(c, "nbns-boundary", "nbns "+core.Hex(b.Bytes))
			add(c, "nbns-boundary-stray", "nbns "+core.Hex(append(clone(b.Bytes), c.RandBytes(1+r.Intn(40))...)))
			mq := m
			mq.Q = []g.Question{{Name: owner, Type: g.TypeNBSTAT, Class: 1}}
			add(c, "nbns-boundary", "nbns "+core.Hex(g.Build(mq, g.Opts{Compress: true}).Bytes))
			m2 := m
			m2.An = []g.RR{rr, second}
			add(c, "nbns-boundary-second", "nbns "+core.Hex(g.Build(m2, g.Opts{Compress: r.Intn(2) == 0}).Bytes))
			// the RDLENGTH field alone says where the RDATA ends: a complete record with statistics, field overwritten
			full := g.NodeStatusRData(r, n, 46)
			bf := g.Build(g.Msg{Flags: 0x8400, An: []g.RR{{Name: owner, Type: g.TypeNBSTAT, Class: 1, Raw: full}}}, g.Opts{})
			if l := len(full) - 46 + delta; l >= 0 && len(bf.Marks.RDLen) == 1 {
				cm := clone(bf.Bytes)
				off := bf.Marks.RDLen[0]
				cm[off], cm[off+1] = byte(l>>8), byte(l)
				add(c, "nbns-boundary-rdlen", "nbns "+core.Hex(cm))
			}
		}
	}
	for _, l := range []int{1, 2, 3, 19, 37, 18*14 + 1} {
		rd := append([]byte{255}, g.NodeStatusRData(r, 14, 0)[1:]...)[:l]
		add(c, "nbns.names-boundary", "nbns.names "+core.Hex(rd))
		b := g.Build(g.Msg{Flags: 0x8400, An: []g.RR{{Name: owner, Type: g.TypeNBSTAT, Class: 1, Raw: rd}, second}}, g.Opts{})
		add(c, "nbns-boundary-second", "nbns "+core.Hex(b.Bytes))
	}
}

// Gen is the C17 correspondence run.
func Gen(c *core.Ctx) {
	r := c.Rnd
	c.Res.Rule = "mdns.hist: HISTORIES of mDNS messages through one handler (responses, queries, probe queries, truncated responses from three stations, transaction ids 0 / 1 / random, time steps 0 s … 10 min around the five minutes a response is remembered) against the Lean state machine message by message incl. the cache keys, each message judged against the reference decoder unless it repeats a response of the same station and id processed less than five minutes before; dns.name/dns.question: names of 1..127 labels (1..63 bytes) from the independent builder, plain / compressed / through pointer chains of depth 1..300, at every name offset of built messages, every truncation, pointer / label-length / count / RDLENGTH corruption, names assembled through pointers around the 255 byte limit, random mutation; mdns/nbns/nbns.names: well-formed mDNS and NBNS messages (names returned vs reference decoder), node status RDATA of every length around 1+18*NUM_NAMES (one entry / one byte short, exact, with statistics; last in the message, followed by a record / stray bytes, RDLENGTH overwritten; exact-capacity and roomy backing arrays); dns.rrs/dns.answers/dns.answers0 (DecodeAnswers on the zero DNSEntry)/dns.process: random responses (A, AAAA, CNAME chains, IPv4 reverse PTR, PTR records with other owners — DNS-SD service names, ip6.arpa nibble names, arbitrary owners — before / between / after the address records, MX, TXT, unassigned types, records in all sections) singly and in sequences of 1..3 responses (also malformed first, then well-formed, on the same handler; after every message the handler is probed with DNSFind / DNSExist / an empty response), with the same closure; merge/hostupd: random entries and update sequences from the five sources over a small value pool; dns.encname/dns.encquery: valid and boundary names. distinct = distinct protocol lines; non-trivial = the input passed the first length / offset test"
	for _, l := range c.CorpusLines() {
		add(c, "corpus", l)
	}
	ipPool := make([][]byte, 6)
	for i := range ipPool {
		ipPool[i] = c.RandBytes(16)
	}

	// A. plain names of every shape
	for i, n := 0, c.Scale(400, 10000); i < n; i++ {
		nm := g.RandName(r, []int{1, 2, 4, 20, 127}[r.Intn(5)])
		b := g.Build(g.Msg{Q: []g.Question{{Name: nm, Type: 1, Class: 1}}}, g.Opts{})
		add(c, "name-plain", nameLine(b.Bytes, 12))
		add(c, "question-plain", questionLine(b.Bytes, 12))
		if i%8 == 0 {
			for cut := 12; cut < len(b.Bytes); cut += 1 + r.Intn(c.Scale(5, 1)) {
				add(c, "name-trunc", nameLine(b.Bytes[:cut], 12))
				add(c, "question-trunc", questionLine(b.Bytes[:cut], 12))
			}
		}
		if i%16 == 0 {
			add(c, "question-index", questionLine(b.Bytes, []int{-1, 0, 11, 13, len(b.Bytes) - 6, len(b.Bytes) - 5, len(b.Bytes)}[r.Intn(7)]))
			add(c, "name-offset", nameLine(b.Bytes, []int{-1, 0, 13, len(b.Bytes) - 1, len(b.Bytes), len(b.Bytes) + 1}[r.Intn(6)]))
		}
	}
	// 127 one-byte labels, 63-byte labels, the exact size limits
	for _, shape := range [][2]int{{127, 1}, {126, 1}, {4, 63}, {3, 63}, {1, 63}, {1, 1}, {2, 62}} {
		var nm g.Name
		for i := 0; i < shape[0]; i++ {
			nm = append(nm, g.RandLabel(r, shape[1]))
		}
		b := g.Build(g.Msg{Q: []g.Question{{Name: nm, Type: 1, Class: 1}}}, g.Opts{})
		add(c, "name-limits", nameLine(b.Bytes, 12))
		add(c, "question-limits", questionLine(b.Bytes, 12))
	}

	// B. names assembled through a pointer around the 255 byte limit
	for _, total := range []int{200, 250, 253, 254, 255, 256, 257, 258, 300, 383, 500} {
		for _, tail := range []int{2, 64, 128, 192} {
			if total-tail < 2 || total-tail > 255 || tail > 255 {
				continue
			}
			m, at := longViaPointer(r, total-tail, tail)
			add(c, "name-long-ptr", nameLine(m, at))
		}
	}

	// C. pointer chains of every depth
	depths := []int{1, 2, 3, 9, 10, 11, 12, 100, 252, 253, 254, 255, 256, 257, 300}
	for _, d := range depths {
		nm := g.HostName(r, "local")
		b := g.Build(g.Msg{Flags: 0x8400, An: []g.RR{{Name: nm, Type: g.TypeA, Class: 1, TTL: 1, Raw: []byte{1, 2, 3, 4}}}}, g.Opts{Chain: d})
		for _, off := range b.Marks.NameOff {
			add(c, "name-chain", nameLine(b.Bytes, off))
		}
		for _, off := range b.Marks.Ptr {
			if r.Intn(1+d/8) == 0 {
				add(c, "name-chain", nameLine(b.Bytes, off))
			}
		}
		add(c, "rrs-chain", fmt.Sprintf("dns.answers %d %s", b.AnOff, core.Hex(b.Bytes)))
	}

	// D. whole responses: function mode on every name, record lists, ProcessDNS singly and in sequences
	var recent [][]byte
	for i, n := 0, c.Scale(700, 14000); i < n; i++ {
		var m g.Msg
		if r.Intn(5) == 0 {
			m = ptrResponse(r)
		} else {
			qn := g.HostName(r, []string{"example.com", "facebook.com", "local"}[r.Intn(3)])
			if r.Intn(10) == 0 {
				qn = g.RandName(r, 20)
			}
			m = RandResponse(r, qn, ipPool)
		}
		b := g.Build(m, randOpts(r))
		recent = append(recent, b.Bytes)
		if len(recent) > 8 {
			recent = recent[1:]
		}
		add(c, "process", processLine(b.Bytes))
		add(c, "answers", fmt.Sprintf("dns.answers %d %s", b.QEnd[0], core.Hex(b.Bytes)))
		if i%4 == 0 {
			// the exported DecodeAnswers on the zero DNSEntry (nil maps)
			add(c, "answers-zero-entry", fmt.Sprintf("dns.answers0 %d %s", b.QEnd[0], core.Hex(b.Bytes)))
		}
		add(c, "question", questionLine(b.Bytes, 12))
		for _, off := range b.Marks.NameOff {
			add(c, "name-in-msg", nameLine(b.Bytes, off))
		}
		if i%3 == 0 {
			// sequences: the same question again with another answer set, or an unrelated one
			m2 := RandResponse(r, m.Q[0].Name, ipPool)
			b2 := g.Build(m2, randOpts(r))
			add(c, "process-seq", processLine(b.Bytes, b2.Bytes))
			add(c, "process-seq", processLine(b.Bytes, recent[r.Intn(len(recent))], b2.Bytes))
		}
		if i%10 == 0 {
			step := 1 + r.Intn(c.Scale(4, 1))
			for cut := 0; cut < len(b.Bytes); cut += step {
				add(c, "process-trunc", processLine(b.Bytes[:cut]))
				if cut > b.QEnd[0] {
					add(c, "answers-trunc", fmt.Sprintf("dns.answers %d %s", b.QEnd[0], core.Hex(b.Bytes[:cut])))
				}
			}
			// a truncated second message after a good first one for the same name
			add(c, "process-seq-trunc", processLine(b.Bytes, b.Bytes[:len(b.Bytes)-1-r.Intn(len(b.Bytes)/2)]))
		}
		if i%5 == 0 {
			for _, cm := range Corruptions(r, b, c.Thorough()) {
				add(c, "process-corrupt", processLine(cm))
				if r.Intn(4) == 0 {
					add(c, "answers-corrupt", fmt.Sprintf("dns.answers %d %s", b.QEnd[0], core.Hex(cm)))
					off := b.Marks.NameOff[r.Intn(len(b.Marks.NameOff))]
					add(c, "name-corrupt", nameLine(cm, off))
				}
			}
		}
		if i%2 == 0 {
			mm := Mutate(r, b.Bytes)
			add(c, "process-mutated", processLine(mm))
			add(c, "answers-mutated", fmt.Sprintf("dns.rrs %d %d %s", len(m.An), b.QEnd[0], core.Hex(mm)))
			add(c, "name-mutated", nameLine(mm, b.Marks.NameOff[r.Intn(len(b.Marks.NameOff))]))
			add(c, "question-mutated", questionLine(mm, 12))
		}
	}
	// D1. address records next to PTR records the table does not use (owner not an IPv4 reverse name):
	// the PTR record before, between and after the A / AAAA records; singly and after a first response
	otherOwners := []string{"_services._dns-sd._udp.local", "_http._tcp.local", "_airplay._tcp.local",
		"b.a.9.8.7.6.5.0.0.0.0.0.0.0.0.0.0.0.0.0.0.0.0.0.8.b.d.0.1.0.0.2.ip6.arpa", "1.0.0.127.in-addr.arpa.example", "x"}
	for i, n := 0, c.Scale(150, 4000); i < n; i++ {
		qn := g.HostName(r, []string{"example.com", "local"}[r.Intn(2)])
		m := g.Msg{ID: uint16(r.Intn(65536)), Flags: 0x8180, Q: []g.Question{{Name: qn, Type: 255, Class: 1}}}
		na := 1 + r.Intn(3)
		pos := r.Intn(na + 1)
		for k := 0; k <= na; k++ {
			if k == pos {
				o := g.N(otherOwners[r.Intn(len(otherOwners))])
				if r.Intn(6) == 0 {
					o = qn
				}
				m.An = append(m.An, g.RR{Name: o, Type: g.TypePTR, Class: 1, TTL: uint32(r.Intn(5000)), Target: g.HostName(r, "local"), IsName: true})
			}
			if k < na {
				if r.Intn(3) == 0 {
					m.An = append(m.An, g.RR{Name: qn, Type: g.TypeAAAA, Class: 1, TTL: uint32(r.Intn(5000)), Raw: ipPool[r.Intn(len(ipPool))]})
				} else {
					m.An = append(m.An, g.RR{Name: qn, Type: g.TypeA, Class: 1, TTL: uint32(r.Intn(5000)), Raw: ipPool[r.Intn(len(ipPool))][:4]})
				}
			}
		}
		b := g.Build(m, randOpts(r))
		add(c, "process-ptr-other-owner", processLine(b.Bytes))
		add(c, "answers-ptr-other-owner", fmt.Sprintf("dns.answers %d %s", b.QEnd[0], core.Hex(b.Bytes)))
		if i%3 == 0 {
			add(c, "process-ptr-other-owner", processLine(recent[r.Intn(len(recent))], b.Bytes))
			add(c, "answers-zero-entry", fmt.Sprintf("dns.answers0 %d %s", b.QEnd[0], core.Hex(b.Bytes)))
		}
	}
	// pure noise
	for i, n := 0, c.Scale(300, 10000); i < n; i++ {
		b := c.RandBytes(r.Intn(80))
		if len(b) > 12 && r.Intn(2) == 0 {
			b[4], b[5] = 0, 1
		}
		add(c, "noise", nameLine(b, r.Intn(len(b)+1)))
		add(c, "noise", questionLine(b, 12))
		add(c, "noise", fmt.Sprintf("dns.rrs %d %d %s", r.Intn(4), r.Intn(len(b)+1), core.Hex(b)))
		add(c, "noise", processLine(b))
	}

	// D2. names extracted by the mDNS / NBNS handlers (well-formed messages, compression, chains)
	for i, n := 0, c.Scale(400, 10000); i < n; i++ {
		o := g.Opts{Compress: r.Intn(3) != 0}
		if r.Intn(4) == 0 {
			o.Chain = []int{1, 2, 5, 9, 10}[r.Intn(5)]
		}
		add(c, "mdns", "mdns "+core.Hex(g.Build(g.RandMDNS(r, ipPool), o).Bytes))
		add(c, "nbns", "nbns "+core.Hex(g.Build(g.RandNBNS(r), g.Opts{Compress: r.Intn(2) == 0}).Bytes))
		if i%4 == 0 {
			add(c, "nbns.names", "nbns.names "+core.Hex(g.NodeArray(r, r.Intn(6))))
		}
	}
	NBNSBoundary(c)
	// a rejected message must leave the handler usable: malformed first, then a good one for the same name
	for i, n := 0, c.Scale(150, 4000); i < n; i++ {
		qn := g.HostName(r, []string{"example.com", "facebook.com", "local"}[r.Intn(3)])
		b := g.Build(RandResponse(r, qn, ipPool), randOpts(r))
		b2 := g.Build(RandResponse(r, qn, ipPool), randOpts(r))
		cs := Corruptions(r, b, false)
		add(c, "process-seq-bad-first", processLine(cs[r.Intn(len(cs))], b2.Bytes))
		add(c, "process-seq-bad-first", processLine(b.Bytes[:len(b.Bytes)-1-r.Intn(len(b.Bytes)/2)], b2.Bytes))
		add(c, "process-seq-bad-first", processLine(Mutate(r, b.Bytes), b2.Bytes, b.Bytes))
	}

	// E. merge algebra and Update*Name sequences
	for i, n := 0, c.Scale(1500, 40000); i < n; i++ {
		a, b := dnsops.RandNE(r), dnsops.RandNE(r)
		add(c, "merge", fmt.Sprintf("merge %s %s", a, b))
	}
	for i, n := 0, c.Scale(150, 6000); i < n; i++ {
		var hs, ms [5]dnsops.NE
		dirty := false
		for k := 0; k < 5; k++ {
			hs[k], ms[k] = dnsops.NE{}, dnsops.NE{}
		}
		if r.Intn(3) == 0 {
			for k := 0; k < 5; k++ {
				hs[k], ms[k] = dnsops.RandNE(r), dnsops.RandNE(r)
			}
		}
		for step := 0; step < 8; step++ {
			src := r.Intn(5)
			nn := dnsops.RandNE(r)
			line := fmt.Sprintf("hostupd %s %v %s %s %s", dnsops.Sources[src], dirty, dnsops.NamesStr(hs), dnsops.NamesStr(ms), nn)
			cs := Eval(c, line)
			if cs == nil {
				break
			}
			cs.Class = "hostupd-seq"
			c.Add(*cs)
			f := strings.Fields(cs.Impl)
			if len(f) != 3 {
				break
			}
			hs, _ = dnsops.ParseNames(f[0])
			ms, _ = dnsops.ParseNames(f[1])
			dirty = f[2] == "true"
			if r.Intn(3) == 0 {
				dirty = false // notification delivered
			}
		}
	}

	// F. encoders
	for i, n := 0, c.Scale(200, 5000); i < n; i++ {
		nm := g.RandName(r, []int{1, 3, 10}[r.Intn(3)])
		txt := nm.Text()
		if r.Intn(10) == 0 {
			txt = nil
		}
		off := r.Intn(20)
		room := off + len(txt) + 2 + r.Intn(4) - 1
		add(c, "encname", fmt.Sprintf("dns.encname %s %d %d", core.Hex(txt), room, off))
		if r.Intn(5) == 0 {
			add(c, "encname-odd", fmt.Sprintf("dns.encname %s %d %d", core.Hex(Mutate(r, append(txt, '.'))), room+2, off))
		}
		wire := g.Build(g.Msg{Q: []g.Question{{Name: nm}}}, g.Opts{}).Bytes
		wire = wire[12 : len(wire)-4]
		add(c, "encquery", fmt.Sprintf("dns.encquery %d %d %s %d", r.Intn(65536), r.Intn(65536), core.Hex(wire), r.Intn(65536)))
	}
	for _, l := range []int{0, 1, 34, 495, 496, 497, 498, 499, 500, 501, 600} {
		add(c, "encquery-len", fmt.Sprintf("dns.encquery 1 0 %s 33", core.Hex(make([]byte, l))))
	}
	genHist(c, ipPool) // ProcessMDNS over message histories (the duplicate-response cache)
}
