package dnsops

import (
	"bytes"
	"fmt"
	"strconv"
	"strings"

	"golang.org/x/net/dns/dnsmessage"
	"verif/harness/core"
	g "verif/harness/dnsgen"
	"verif/harness/dnsimpl"
)

// EvalHandlers: protocol lines of the handler entry points
//
//	mdns <payload>        ProcessMDNS on a parsed frame carrying the payload
//	nbns <payload>        ProcessNBNS
//	nbns.names <b>        parseNodeNameArray
//	nbns.decode <b>       decodeNBNSName
//	ssdp.cc <value>       ProcessSSDP on an ssdp:alive NOTIFY whose CACHE-CONTROL header is <value>
//	ssdp <payload>        ProcessSSDP on raw bytes (panic / hang observation only; not modelled)
//	ssdp.disp <payload> … ProcessSSDP on raw bytes against the dispatch model (ssdpdisp.go)
//	mdns.txt <s1,s2,…>    parseTXT
func EvalHandlers(c *core.Ctx, line string) *core.Case {
	f := strings.Fields(line)
	if len(f) == 3 && f[0] == "dnsparser" {
		msg := core.UnHex(f[2])
		impl := ParserSeq(strings.Split(f[1], ","), msg)
		// these lines tie the Lean model of golang.org/x/net/dns/dnsmessage (trusted base of the mDNS / NBNS
		// theorems) to the real Parser, not /repo code: they do not count as distinct non-trivial cases
		return &core.Case{Line: line, Impl: impl, Trivial: true,
			Oracle: func() (string, string) {
				if impl == "panic" || strings.HasPrefix(impl, "hang") {
					return "dnsmessage.Parser " + impl + " on call sequence " + f[1], ""
				}
				return "", ""
			}}
	}
	if len(f) >= 2 && f[0] == "ssdp.disp" {
		return evalSsdpDisp(c, f)
	}
	if len(f) >= 2 && f[0] == "mdns.hist" {
		return evalMdnsHist(c, line, f[1:])
	}
	if len(f) != 2 {
		return nil
	}
	bad := func(what, impl string) (string, string) {
		if w, b := dnsimpl.IsBlocked(what, impl); b {
			return w, ""
		}
		if impl == "panic" || strings.HasPrefix(impl, "hang") {
			return what + " " + impl, ""
		}
		return "", ""
	}
	switch f[0] {
	case "mdns":
		p := core.UnHex(f[1])
		impl, _, _, ok := dnsimpl.MDNS(p)
		if !ok {
			c.Why = "payload does not fit an Ethernet frame / is not parsed as mDNS by Session.Parse"
			return nil
		}
		return &core.Case{Line: line, Impl: impl, Trivial: len(p) < 12,
			Oracle: func() (string, string) {
				if w, k := bad("ProcessMDNS", impl); w != "" {
					return w, k
				}
				return mdnsOracle(p, impl)
			}}
	case "nbns":
		p := core.UnHex(f[1])
		impl := dnsimpl.NBNS(p)
		return &core.Case{Line: line, Impl: impl, Trivial: len(p) < 12,
			Oracle: func() (string, string) {
				if w, k := bad("ProcessNBNS", impl); w != "" {
					return w, k
				}
				return nbnsOracle(p, impl)
			}}
	case "nbns.names":
		b := core.UnHex(f[1])
		impl := dnsimpl.NodeNames(b)
		return &core.Case{Line: line, Impl: impl, Trivial: len(b) == 0,
			Oracle: func() (string, string) {
				if i := strings.Index(impl, dnsimpl.Slack); i >= 0 {
					return fmt.Sprintf("node name array: parseNodeNameArray reads beyond the slice: %s on an exact-capacity array, %s with spare capacity behind it (reference: %s)",
						impl[:i], impl[i+len(dnsimpl.Slack):], refNodeNames(b)), ""
				}
				if w, k := bad("parseNodeNameArray", impl); w != "" {
					return w, k
				}
				want := refNodeNames(b)
				if want == "err" {
					if !strings.HasPrefix(impl, "err ") {
						return fmt.Sprintf("truncated node name array (%d bytes, NUM_NAMES %s needs %s) accepted: parseNodeNameArray gives %s", len(b), numNames(b), needBytes(b), impl), ""
					}
				} else if impl != want {
					return fmt.Sprintf("node name array: parseNodeNameArray gives %s, reference %s", impl, want), ""
				}
				return "", ""
			}}
	case "nbns.decode":
		b := core.UnHex(f[1])
		impl := dnsimpl.DecodeNBNSName(b)
		return &core.Case{Line: line, Impl: impl, Trivial: len(b) < 34,
			Oracle: func() (string, string) { return bad("decodeNBNSName", impl) }}
	case "ssdp.cc":
		v := core.UnHex(f[1])
		if string(v) != strings.TrimSpace(string(v)) {
			c.Why = "header value with leading / trailing space (net/http trims it: outside the ssdp.cc domain)"
			return nil
		}
		for _, ch := range v {
			if ch < 0x20 || ch >= 0x7f {
				c.Why = "header value with control / non-ASCII octets (outside the ssdp.cc domain)"
				return nil
			}
		}
		payload := []byte("NOTIFY * HTTP/1.1\r\nHOST: 239.255.255.250:1900\r\nNTS: ssdp:alive\r\nLOCATION: http://192.168.0.1/d.xml\r\nCACHE-CONTROL: " + string(v) + "\r\n\r\n")
		kind, secs, _, _ := dnsimpl.SSDP(payload)
		impl := kind
		if kind == "ok" {
			impl = "ok " + strconv.FormatInt(secs, 10)
		}
		// an ssdp:alive NOTIFY with a printable CACHE-CONTROL value is never an error for the model:
		// "err" stays in the case and disagrees with it (it used to be dropped silently)
		return &core.Case{Line: line, Impl: impl,
			Cmp: func(impl, model string) bool {
				return model == "ok big" && strings.HasPrefix(impl, "ok ") || impl == model
			},
			Oracle: func() (string, string) { return bad("ProcessSSDP", impl) }}
	case "ssdp":
		p := core.UnHex(f[1])
		kind, _, _, _ := dnsimpl.SSDP(p)
		return &core.Case{Line: line, Impl: kind, Trivial: true, Cmp: func(string, string) bool { return true },
			Oracle: func() (string, string) { return bad("ProcessSSDP", kind) }}
	case "mdns.txt":
		var txt []string
		if f[1] != "none" {
			for _, h := range strings.Split(f[1], ",") {
				txt = append(txt, string(core.UnHex(h)))
			}
		}
		impl := dnsimpl.ParseTXT(txt)
		return &core.Case{Line: line, Impl: impl, Trivial: len(txt) <= 2,
			Oracle: func() (string, string) { return bad("parseTXT", impl) }}
	}
	return nil
}

// names dnsmessage can represent: at most 10 pointers, no dots inside labels, at most 253 text bytes
func dnsmessageOK(m []byte, off int) bool {
	labels, _, ptrs, cl := g.RefName(m, off)
	if cl != g.OK || ptrs > 10 || labels.WireLen() > 254 {
		return false
	}
	for _, l := range labels {
		if bytes.IndexByte(l, '.') >= 0 {
			return false
		}
	}
	return true
}

// mdnsOracle: for a well-formed response the A / AAAA owner names and addresses returned must be
// those of the reference decoder, in message order over the three record sections.
func mdnsOracle(p []byte, impl string) (string, string) {
	m, wf := g.RefMessage(p)
	if !wf || m.Edge || m.Flags&0x8000 == 0 || m.QD > 1 {
		return "", ""
	}
	if m.QD == 1 && !dnsmessageOK(p, 12) {
		return "", ""
	}
	var v4, v6 []string
	off := m.QEnd
	for _, sec := range [][]g.RefRR{m.Answers, m.Authorities, m.Additionals} {
		for _, r := range sec {
			if !dnsmessageOK(p, off) {
				return "", ""
			}
			off = r.RDOff + len(r.RData)
			name := strings.TrimSuffix(string(r.Name)+".", ".local.")
			if len(r.Name) == 0 {
				name = "."
			}
			switch r.Type {
			case g.TypeA:
				if len(r.RData) != 4 {
					return "", ""
				}
				v4 = append(v4, fmt.Sprintf("%s:%s", core.Hex([]byte(name)), core.Hex(r.RData)))
			case g.TypeAAAA:
				if len(r.RData) != 16 {
					return "", ""
				}
				v6 = append(v6, fmt.Sprintf("%s:%s", core.Hex([]byte(name)), core.Hex(r.RData)))
			}
		}
	}
	// strip model / manufacturer from the implementation's entries
	strip := func(list string) []string {
		var out []string
		if list == "" {
			return out
		}
		for _, e := range strings.Split(list, ",") {
			f := strings.Split(e, ":")
			out = append(out, f[0]+":"+f[1])
		}
		return out
	}
	i1, i2 := strings.Index(impl, "v4=["), strings.Index(impl, "] v6=[")
	i3 := strings.LastIndex(impl, "] err=")
	if i1 < 0 || i2 < 0 || i3 < 0 {
		return "ProcessMDNS result not understood: " + impl, ""
	}
	g4, g6 := strip(impl[i1+4:i2]), strip(impl[i2+6:i3])
	if impl[i3+6:] != "false" {
		return "well-formed mDNS response rejected: " + impl, ""
	}
	if strings.Join(g4, ",") != strings.Join(v4, ",") || strings.Join(g6, ",") != strings.Join(v6, ",") {
		return fmt.Sprintf("mDNS response: ProcessMDNS names v4=%v v6=%v, reference decoder v4=%v v6=%v", g4, g6, v4, v6), ""
	}
	return "", ""
}

// refNodeNames: RFC 1002 §4.2.18 NODE_NAME array: NUM_NAMES, then 18-byte entries (16 byte name,
// 16 bit flags with G = 0x8000); unique names, trailing NUL and space padding removed.  The array
// is acceptable exactly when the NUM_NAMES octet is there and 18*NUM_NAMES bytes follow it (whatever
// comes after is the STATISTICS field); otherwise the answer is "err" (truncated: to be rejected).
func refNodeNames(b []byte) string {
	if len(b) < 1 || len(b)-1 < int(b[0])*18 {
		return "err"
	}
	var s []string
	for i := 0; i < int(b[0]); i++ {
		e := b[1+18*i : 1+18*i+18]
		if e[16]&0x80 == 0 {
			n := bytes.TrimRight(bytes.TrimRight(e[:16], "\x00"), " ")
			s = append(s, core.Hex(n))
		}
	}
	return "ok [" + strings.Join(s, ",") + "]"
}

func numNames(b []byte) string {
	if len(b) == 0 {
		return "missing"
	}
	return strconv.Itoa(int(b[0]))
}

func needBytes(b []byte) string {
	if len(b) == 0 {
		return "1"
	}
	return strconv.Itoa(1 + 18*int(b[0]))
}

func nbnsOracle(p []byte, impl string) (string, string) {
	m, wf := g.RefMessage(p)
	if !wf || m.Edge || m.Flags&0x8000 == 0 || m.QD > 1 || (m.QD == 1 && !dnsmessageOK(p, 12)) {
		return "", ""
	}
	want := ""
	off := m.QEnd
	for _, r := range m.Answers {
		if !dnsmessageOK(p, off) {
			return "", ""
		}
		off = r.RDOff + len(r.RData)
		if r.Type != g.TypeNBSTAT || len(r.RData) < 3 {
			continue
		}
		// a truncated array (RDLENGTH < 1 + 18*NUM_NAMES) or one without a unique name yields
		// nothing and the scan goes on with the next answer
		ns := refNodeNames(r.RData)
		if ns == "err" || ns == "ok []" {
			continue
		}
		want = strings.Split(strings.TrimSuffix(strings.TrimPrefix(ns, "ok ["), "]"), ",")[0]
		if want == "" {
			want = "-"
		}
		break
	}
	if want == "" {
		want = "-"
	}
	exp := fmt.Sprintf("ok %s %s err=false", core.Hex([]byte("nbns")), want)
	if impl != exp {
		return fmt.Sprintf("well-formed NBNS response: ProcessNBNS gives %q, reference %q", impl, exp), ""
	}
	return "", ""
}

// ParserSeq runs an API call sequence on the real dnsmessage.Parser (the Parser model of the Lean
// driver replays the same sequence): Q, SQ, SAQ, AH/NH/XH (Answer/Authority/Additional header),
// SA/SN/SX (skips), A, AAAA, PTR, SRV, OPT, TXT, UNK (typed resources).
func ParserSeq(ops []string, msg []byte) string {
	return dnsimpl.GuardOp("dnsparser", func() string {
		var p dnsmessage.Parser
		h, err := p.Start(dnsimpl.Exact(msg))
		if err != nil {
			return "starterr"
		}
		es := func(err error) string {
			switch err {
			case nil:
				return "ok"
			case dnsmessage.ErrSectionDone:
				return "done"
			case dnsmessage.ErrNotStarted:
				return "notstarted"
			}
			return "err"
		}
		hs := func(h dnsmessage.ResourceHeader, err error) string {
			if err != nil {
				return es(err)
			}
			return fmt.Sprintf("ok:%s:%d:%d:%d:%d", core.Hex([]byte(h.Name.String())), h.Type, h.Class, h.TTL, h.Length)
		}
		out := []string{fmt.Sprintf("resp=%v", h.Response)}
		for _, op := range ops {
			var r string
			switch op {
			case "Q":
				q, err := p.Question()
				if r = es(err); err == nil {
					r = "ok:" + core.Hex([]byte(q.Name.String()))
				}
			case "SQ":
				r = es(p.SkipQuestion())
			case "SAQ":
				r = es(p.SkipAllQuestions())
			case "AH":
				r = hs(p.AnswerHeader())
			case "NH":
				r = hs(p.AuthorityHeader())
			case "XH":
				r = hs(p.AdditionalHeader())
			case "SA":
				r = es(p.SkipAnswer())
			case "SN":
				r = es(p.SkipAuthority())
			case "SX":
				r = es(p.SkipAdditional())
			case "A":
				b, err := p.AResource()
				if r = es(err); err == nil {
					r = "ok:" + core.Hex(b.A[:])
				}
			case "AAAA":
				b, err := p.AAAAResource()
				if r = es(err); err == nil {
					r = "ok:" + core.Hex(b.AAAA[:])
				}
			case "PTR":
				_, err := p.PTRResource()
				r = es(err)
			case "SRV":
				_, err := p.SRVResource()
				r = es(err)
			case "OPT":
				_, err := p.OPTResource()
				r = es(err)
			case "TXT":
				b, err := p.TXTResource()
				if r = es(err); err == nil {
					var hx []string
					for _, t := range b.TXT {
						hx = append(hx, core.Hex([]byte(t)))
					}
					r = "ok:" + strings.Join(hx, "/")
				}
			case "UNK":
				b, err := p.UnknownResource()
				if r = es(err); err == nil {
					r = "ok:" + core.Hex(b.Data)
				}
			default:
				r = "bad-op"
			}
			out = append(out, r)
		}
		return strings.Join(out, " ")
	})
}
