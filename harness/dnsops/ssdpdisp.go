package dnsops

import (
	"bufio"
	"bytes"
	"fmt"
	"net/http"
	"strings"

	"verif/harness/core"
	"verif/harness/dnsimpl"
)

// ssdp.disp <payload> [<rq> <rs>]: ProcessSSDP on raw bytes against the dispatch model of Model/Ssdp.lean, whose
// parser parameters are instantiated with what the real net/http parsers return for this payload (computed here,
// whatever the line carried): rq = E | method:NTS:LOCATION:CACHE-CONTROL:MAN:USER-AGENT, rs = E | status:LOCATION.

func hexOrDash(s string) string { return core.Hex([]byte(s)) }

// SSDPParsed renders what http.ReadRequest / http.ReadResponse return for the payload.
func SSDPParsed(p []byte) (rq, rs string) {
	rq, rs = "E", "E"
	func() {
		defer func() { recover() }()
		if req, err := http.ReadRequest(bufio.NewReader(bytes.NewReader(p))); err == nil {
			g := req.Header.Get
			rq = strings.Join([]string{hexOrDash(req.Method), hexOrDash(g("NTS")), hexOrDash(g("LOCATION")), hexOrDash(g("CACHE-CONTROL")),
				hexOrDash(g("MAN")), hexOrDash(g("USER-AGENT"))}, ":")
		}
	}()
	func() {
		defer func() { recover() }()
		if resp, err := http.ReadResponse(bufio.NewReader(bytes.NewReader(p)), nil); err == nil {
			rs = fmt.Sprintf("%d:%s", resp.StatusCode, hexOrDash(resp.Header.Get("LOCATION")))
			resp.Body.Close()
		}
	}()
	return
}

func SSDPDispLine(p []byte) string {
	rq, rs := SSDPParsed(p)
	return fmt.Sprintf("ssdp.disp %s %s %s", core.Hex(p), rq, rs)
}

func evalSsdpDisp(c *core.Ctx, f []string) *core.Case {
	p := core.UnHex(f[1])
	line := SSDPDispLine(p)
	kind, secs, name, loc := dnsimpl.SSDPFull(p)
	impl := kind
	if kind == "ok" {
		impl = fmt.Sprintf("ok type=%s model=%s manuf=%s os=%s exp=%d loc=%s", hexOrDash(name.Type), hexOrDash(name.Model),
			hexOrDash(name.Manufacturer), hexOrDash(name.OS), secs, hexOrDash(loc))
	}
	rq, rs := SSDPParsed(p)
	return &core.Case{Line: line, Impl: impl, Trivial: rq == "E" && rs == "E",
		Cmp: func(impl, model string) bool {
			if impl == model {
				return true
			}
			// a max-age digit string longer than the modelled Atoi domain: everything but the expiry is compared
			if i := strings.Index(model, " exp=big "); i >= 0 && strings.HasPrefix(impl, model[:i]+" exp=") {
				return strings.HasSuffix(impl, model[i+len(" exp=big"):])
			}
			return false
		},
		Oracle: func() (string, string) {
			if w, b := dnsimpl.IsBlocked("ProcessSSDP", impl); b {
				return w, ""
			}
			if impl == "panic" || strings.HasPrefix(impl, "hang") {
				return "ProcessSSDP " + impl, ""
			}
			// independent reading of the property-relevant part: a 200 response yields its LOCATION
			if rs != "E" && !bytes.HasPrefix(p, []byte("NOTIFY ")) && !bytes.HasPrefix(p, []byte("M-SEARCH ")) {
				want := "err ErrParseFrame"
				if strings.HasPrefix(rs, "200:") {
					want = "ok type=- model=- manuf=- os=- exp=0 loc=" + strings.TrimPrefix(rs, "200:")
				}
				if impl != want {
					return fmt.Sprintf("ProcessSSDP on an HTTP response returned %q, expected %q", impl, want), ""
				}
			}
			return "", ""
		}}
}
