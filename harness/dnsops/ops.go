// Package dnsops: Eval (protocol line -> real code + oracle) for every DNS / naming operation of
// C17 (DNS records and names decode as a reference decoder; merges are monotone) and of the
// DNS share of C08 (handlers terminate without panic).
//
// Oracles are independent of the library: the harness's own RFC 1035 reference decoder
// (dnsgen.RefName / RefMessage), golang.org/x/net/dns/dnsmessage as a second implementation for
// messages it accepts, and the merge laws evaluated directly on the implementation's results.
package dnsops

import (
	"bytes"
	"fmt"
	"math/rand"
	"net/netip"
	"sort"
	"strconv"
	"strings"
	"time"

	"github.com/irai/packet"
	"golang.org/x/net/dns/dnsmessage"
	"verif/harness/core"
	g "verif/harness/dnsgen"
	"verif/harness/dnsimpl"
)

// ---------------------------------------------------------------------------------------------
// comparison with the model reply `… | spec=…`

func splitSpec(model string) (string, string) {
	i := strings.Index(model, " | spec=")
	if i < 0 {
		return model, ""
	}
	return model[:i], model[i+8:]
}

// cmpName: the model part must equal the implementation; when the Lean spec accepts the name
// (well-formed, at most 254 pointers) the implementation must return exactly the spec's value.
func cmpName(impl, model string) bool {
	m, spec := splitSpec(model)
	if m != impl {
		return false
	}
	if spec == "" || spec == "none" {
		return true
	}
	f := strings.Split(spec, ":")
	if len(f) != 3 {
		return false
	}
	if d, _ := strconv.Atoi(f[2]); d > 254 {
		return true
	}
	return impl == "ok "+f[0]+" "+f[1]
}

func cmpQuestion(impl, model string) bool {
	m, spec := splitSpec(model)
	if m != impl {
		return false
	}
	if spec == "" || spec == "none" {
		return true
	}
	f := strings.Split(spec, ":")
	if len(f) != 4 {
		return false
	}
	// the spec has no opinion on QDCOUNT or on the pointer-depth limit; only compare when the implementation accepted
	if !strings.HasPrefix(impl, "ok ") {
		return true
	}
	return impl == "ok "+strings.Join(f, " ")
}

// ---------------------------------------------------------------------------------------------
// reference expectations

type expEntry struct {
	name  string
	a     map[string]string // ip hex -> record
	aaaa  map[string]string
	cname map[string]string
	ptr   map[string]string
}

func newExp(name string) *expEntry {
	return &expEntry{name: name, a: map[string]string{}, aaaa: map[string]string{}, cname: map[string]string{}, ptr: map[string]string{}}
}

func vals(m map[string]string) string {
	var s []string
	for _, v := range m {
		s = append(s, v)
	}
	sort.Strings(s)
	return strings.Join(s, ";")
}

func (e *expEntry) String() string {
	return fmt.Sprintf("name=%s a=[%s] aaaa=[%s] cname=[%s] ptr=[%s]", core.Hex([]byte(e.name)), vals(e.a), vals(e.aaaa), vals(e.cname), vals(e.ptr))
}

func (e *expEntry) empty() bool { return len(e.a)+len(e.aaaa)+len(e.cname)+len(e.ptr) == 0 }

// apply adds the records the way the property demands (first record for a key wins).
// reject: the message must be refused (bad A/AAAA length, undecodable RDATA name, PTR owner that is
// not an address); skip: outside what the oracle can judge (IPv6 literal owner names).
func (e *expEntry) apply(rrs []g.RefRR) (updated, reject, skip bool) {
	for _, r := range rrs {
		switch r.Type {
		case g.TypeA:
			if len(r.RData) != 4 {
				return updated, true, false
			}
			k := core.Hex(r.RData)
			if _, ok := e.a[k]; !ok {
				e.a[k] = fmt.Sprintf("%s/%s/%d", k, core.Hex(r.Name), r.TTL)
				updated = true
			}
		case g.TypeAAAA:
			if len(r.RData) != 16 {
				return updated, true, false
			}
			k := core.Hex(r.RData)
			if _, ok := e.aaaa[k]; !ok {
				e.aaaa[k] = fmt.Sprintf("%s/%s/%d", k, core.Hex(r.Name), r.TTL)
				updated = true
			}
		case g.TypeCNAME:
			if r.TClass != g.OK {
				return updated, true, false
			}
			k := core.Hex(r.Name)
			if _, ok := e.cname[k]; !ok {
				e.cname[k] = fmt.Sprintf("%s/%s/%d", k, core.Hex(r.Target), r.TTL)
				updated = true
			}
		case g.TypePTR:
			s := strings.TrimSuffix(string(r.Name), ".in-addr.arpa")
			if i := strings.IndexAny(s, ".:%"); i >= 0 && s[i] != '.' {
				if s[i] == ':' {
					return updated, false, true
				}
			}
			ip, err := netip.ParseAddr(s)
			if err != nil || !ip.Is4() {
				// not an IPv4 reverse name (ip6.arpa nibble name, DNS-SD service PTR, any other owner): a
				// well-formed record the table does not use — it contributes nothing and must not make
				// the message fail
				continue
			}
			if r.TClass != g.OK {
				return updated, true, false
			}
			b := ip.As4()
			k := core.Hex(r.Target)
			if _, ok := e.ptr[k]; !ok {
				e.ptr[k] = fmt.Sprintf("%s/%s/%d", k, core.Hex([]byte{b[3], b[2], b[1], b[0]}), r.TTL)
				updated = true
			}
		}
	}
	return updated, false, false
}

// dnsmessage as the second implementation: question name and records of a message it accepts.
func viaDnsmessage(m []byte) (qname string, rrs []g.RefRR, ok bool) {
	var p dnsmessage.Parser
	if _, err := p.Start(m); err != nil {
		return "", nil, false
	}
	q, err := p.Question()
	if err != nil {
		return "", nil, false
	}
	if err := p.SkipAllQuestions(); err != nil {
		return "", nil, false
	}
	trim := func(n dnsmessage.Name) []byte {
		s := n.String()
		if s == "." {
			return nil
		}
		return []byte(strings.TrimSuffix(s, "."))
	}
	qname = string(trim(q.Name))
	for {
		h, err := p.AnswerHeader()
		if err == dnsmessage.ErrSectionDone {
			break
		}
		if err != nil {
			return "", nil, false
		}
		r := g.RefRR{Name: trim(h.Name), Type: uint16(h.Type), Class: uint16(h.Class), TTL: h.TTL}
		switch h.Type {
		case dnsmessage.TypeA:
			b, err := p.AResource()
			if err != nil || h.Length != 4 {
				return "", nil, false
			}
			r.RData = b.A[:]
		case dnsmessage.TypeAAAA:
			b, err := p.AAAAResource()
			if err != nil || h.Length != 16 {
				return "", nil, false
			}
			r.RData = b.AAAA[:]
		case dnsmessage.TypeCNAME:
			b, err := p.CNAMEResource()
			if err != nil {
				return "", nil, false
			}
			r.Target = trim(b.CNAME)
		case dnsmessage.TypePTR:
			b, err := p.PTRResource()
			if err != nil {
				return "", nil, false
			}
			r.Target = trim(b.PTR)
		default:
			if err := p.SkipAnswer(); err != nil {
				return "", nil, false
			}
		}
		rrs = append(rrs, r)
	}
	return qname, rrs, true
}

// ---------------------------------------------------------------------------------------------
// merge helpers

type NE struct {
	Typ, Name, Model, Manuf, OS []byte
	Expire                      int64
}

func parseNE(s string) (NE, bool) {
	f := strings.Split(s, ",")
	if len(f) != 6 {
		return NE{}, false
	}
	ex, err := strconv.ParseInt(f[5], 10, 64)
	if err != nil {
		return NE{}, false
	}
	return NE{core.UnHex(f[0]), core.UnHex(f[1]), core.UnHex(f[2]), core.UnHex(f[3]), core.UnHex(f[4]), ex}, true
}

func (n NE) toPacket() packet.NameEntry {
	e := packet.NameEntry{Type: string(n.Typ), Name: string(n.Name), Model: string(n.Model), Manufacturer: string(n.Manuf), OS: string(n.OS)}
	if n.Expire != 0 {
		e.Expire = time.Unix(0, n.Expire)
	}
	return e
}

func fromPacket(e packet.NameEntry) NE {
	n := NE{[]byte(e.Type), []byte(e.Name), []byte(e.Model), []byte(e.Manufacturer), []byte(e.OS), 0}
	if e.Expire != (time.Time{}) {
		n.Expire = e.Expire.UnixNano()
	}
	return n
}

func (n NE) String() string {
	return fmt.Sprintf("%s,%s,%s,%s,%s,%d", core.Hex(n.Typ), core.Hex(n.Name), core.Hex(n.Model), core.Hex(n.Manuf), core.Hex(n.OS), n.Expire)
}

func (n NE) attrs() [4]string {
	return [4]string{string(n.Name), string(n.Model), string(n.Manuf), string(n.OS)}
}

// mergeLaws checks the three laws of the property on one Merge call of the implementation.
func mergeLaws(old, in, res NE, modified bool, again NE, againMod bool) string {
	o, r := old.attrs(), res.attrs()
	changed := false
	for i := range o {
		if o[i] != "" && r[i] == "" {
			return fmt.Sprintf("Merge erased a known attribute: %q -> %q (entry %s merged with %s)", o[i], r[i], old, in)
		}
		if o[i] != r[i] {
			changed = true
		}
	}
	if changed != modified {
		return fmt.Sprintf("Merge reported modified=%v but attributes changed=%v (entry %s merged with %s -> %s)", modified, changed, old, in, res)
	}
	if againMod || again.String() != res.String() {
		return fmt.Sprintf("Merge is not idempotent: %s merged twice with %s gives %s then %s (modified=%v)", old, in, res, again, againMod)
	}
	return ""
}

var Sources = []string{"dhcp4", "llmnr", "mdns", "ssdp", "nbns"}

func slots(h *packet.Host) [5]*packet.NameEntry {
	return [5]*packet.NameEntry{&h.DHCP4Name, &h.LLMNRName, &h.MDNSName, &h.SSDPName, &h.NBNSName}
}
func macSlots(m *packet.MACEntry) [5]*packet.NameEntry {
	return [5]*packet.NameEntry{&m.DHCP4Name, &m.LLMNRName, &m.MDNSName, &m.SSDPName, &m.NBNSName}
}

func update(h *packet.Host, src int, n packet.NameEntry) {
	switch src {
	case 0:
		h.UpdateDHCP4Name(n)
	case 1:
		h.UpdateLLMNRName(n)
	case 2:
		h.UpdateMDNSName(n)
	case 3:
		h.UpdateSSDPName(n)
	case 4:
		h.UpdateNBNSName(n)
	}
}

func ParseNames(s string) ([5]NE, bool) {
	var out [5]NE
	f := strings.Split(s, ";")
	if len(f) != 5 {
		return out, false
	}
	for i := range f {
		n, ok := parseNE(f[i])
		if !ok {
			return out, false
		}
		out[i] = n
	}
	return out, true
}

func NamesStr(n [5]NE) string {
	var s []string
	for _, x := range n {
		s = append(s, x.String())
	}
	return strings.Join(s, ";")
}

// ---------------------------------------------------------------------------------------------
// Eval

func Eval(c *core.Ctx, line string) *core.Case {
	f := strings.Fields(line)
	if len(f) < 2 {
		return nil
	}
	switch f[0] {
	case "dns.name":
		if len(f) != 3 {
			return nil
		}
		msg := core.UnHex(f[1])
		off, err := strconv.Atoi(f[2])
		if err != nil {
			return nil
		}
		impl := dnsimpl.DecodeName(msg, off)
		return &core.Case{Line: line, Impl: impl, Cmp: cmpName, Trivial: off < 0 || off >= len(msg),
			Oracle: func() (string, string) { return nameOracle(msg, off, impl) }}
	case "dns.question":
		if len(f) != 3 {
			return nil
		}
		msg := core.UnHex(f[1])
		idx, err := strconv.Atoi(f[2])
		if err != nil {
			return nil
		}
		impl := dnsimpl.DecodeQuestion(msg, idx)
		return &core.Case{Line: line, Impl: impl, Cmp: cmpQuestion, Trivial: len(msg) < 12 || idx < 0 || idx+5 > len(msg),
			Oracle: func() (string, string) { return questionOracle(msg, idx, impl) }}
	case "dns.answers0":
		// the exported DecodeAnswers on the zero DNSEntry (nil maps); same model and oracle as dns.answers
		if len(f) != 3 {
			return nil
		}
		off, err := strconv.Atoi(f[1])
		if err != nil {
			return nil
		}
		msg := core.UnHex(f[2])
		impl := dnsimpl.DecodeAnswersZero(off, msg)
		return &core.Case{Line: line, Impl: impl, Trivial: off < 0 || off >= len(msg),
			Oracle: func() (string, string) { return rrsOracle(msg, off, -1, impl) }}
	case "dns.rrs", "dns.answers":
		var msg []byte
		var off, count int
		var err error
		if f[0] == "dns.rrs" {
			if len(f) != 4 {
				return nil
			}
			count, err = strconv.Atoi(f[1])
			if err != nil || count < 0 {
				return nil
			}
			off, err = strconv.Atoi(f[2])
			msg = core.UnHex(f[3])
		} else {
			if len(f) != 3 {
				return nil
			}
			count = -1
			off, err = strconv.Atoi(f[1])
			msg = core.UnHex(f[2])
		}
		if err != nil {
			return nil
		}
		impl, _ := dnsimpl.DecodeRRs(count, off, msg)
		return &core.Case{Line: line, Impl: impl, Trivial: off < 0 || off >= len(msg) || count == 0,
			Oracle: func() (string, string) { return rrsOracle(msg, off, count, impl) }}
	case "dns.process":
		var ps [][]byte
		for _, h := range f[1:] {
			ps = append(ps, core.UnHex(h))
		}
		impl, tbl, ok := dnsimpl.Process(ps)
		if !ok {
			c.Why = "a payload does not fit an Ethernet frame / is not parsed as DNS by Session.Parse"
			return nil
		}
		return &core.Case{Line: line, Impl: impl, Trivial: strings.HasPrefix(impl, "err:ErrFrameLen tbl="),
			Oracle: func() (string, string) { return processOracle(ps, impl, tbl) }}
	case "dns.encname":
		if len(f) != 4 {
			return nil
		}
		name := core.UnHex(f[1])
		dl, e1 := strconv.Atoi(f[2])
		off, e2 := strconv.Atoi(f[3])
		if e1 != nil || e2 != nil || dl < 0 || dl > 4096 || off < 0 {
			return nil
		}
		impl := dnsimpl.EncodeName(name, dl, off)
		return &core.Case{Line: line, Impl: impl, Trivial: impl == "panic",
			Oracle: func() (string, string) { return encNameOracle(name, dl, off, impl) }}
	case "dns.encquery":
		if len(f) != 5 {
			return nil
		}
		id, e1 := strconv.Atoi(f[1])
		fl, e2 := strconv.Atoi(f[2])
		qt, e3 := strconv.Atoi(f[4])
		if e1 != nil || e2 != nil || e3 != nil {
			return nil
		}
		name := core.UnHex(f[3])
		impl := dnsimpl.EncodeQuery(uint16(id), uint16(fl), name, uint16(qt))
		return &core.Case{Line: line, Impl: impl,
			Oracle: func() (string, string) { return encQueryOracle(uint16(id), uint16(fl), name, uint16(qt), impl) }}
	case "merge":
		if len(f) != 3 {
			return nil
		}
		a, ok1 := parseNE(f[1])
		b, ok2 := parseNE(f[2])
		if !ok1 || !ok2 {
			return nil
		}
		var res, again NE
		var mod, mod2 bool
		r := dnsimpl.GuardOp("merge", func() string {
			x, m := a.toPacket().Merge(b.toPacket())
			y, m2 := x.Merge(b.toPacket())
			res, mod, again, mod2 = fromPacket(x), m, fromPacket(y), m2
			return "ok"
		})
		impl := r
		if r == "ok" {
			impl = fmt.Sprintf("%s %v", res, mod)
		}
		return &core.Case{Line: line, Impl: impl,
			Oracle: func() (string, string) {
				if r != "ok" {
					return "Merge " + r, ""
				}
				return mergeLaws(a, b, res, mod, again, mod2), ""
			}}
	case "hostupd":
		if len(f) != 6 {
			return nil
		}
		src := -1
		for i, s := range Sources {
			if s == f[1] {
				src = i
			}
		}
		hs, ok1 := ParseNames(f[3])
		ms, ok2 := ParseNames(f[4])
		n, ok3 := parseNE(f[5])
		if src < 0 || !ok1 || !ok2 || !ok3 {
			return nil
		}
		dirty := f[2] == "true"
		return evalHostUpd(line, src, dirty, hs, ms, n)
	}
	return EvalHandlers(c, line)
}

func evalHostUpd(line string, src int, dirty bool, hs, ms [5]NE, n NE) *core.Case {
	var h *packet.Host
	var host2, mac2 [5]NE
	var dirty2 bool
	// state after a second identical update with the flag cleared in between (idempotence)
	var host3, mac3 [5]NE
	var dirty3 bool
	r := dnsimpl.GuardOp("merge", func() string {
		h = &packet.Host{MACEntry: &packet.MACEntry{}}
		for i, s := range slots(h) {
			*s = hs[i].toPacket()
		}
		for i, s := range macSlots(h.MACEntry) {
			*s = ms[i].toPacket()
		}
		h.VerifSetDirty(dirty)
		update(h, src, n.toPacket())
		for i, s := range slots(h) {
			host2[i] = fromPacket(*s)
		}
		for i, s := range macSlots(h.MACEntry) {
			mac2[i] = fromPacket(*s)
		}
		dirty2 = h.Dirty()
		h.VerifSetDirty(false)
		update(h, src, n.toPacket())
		for i, s := range slots(h) {
			host3[i] = fromPacket(*s)
		}
		for i, s := range macSlots(h.MACEntry) {
			mac3[i] = fromPacket(*s)
		}
		dirty3 = h.Dirty()
		return "ok"
	})
	impl := r
	if r == "ok" {
		impl = fmt.Sprintf("%s %s %v", NamesStr(host2), NamesStr(mac2), dirty2)
	}
	return &core.Case{Line: line, Impl: impl, Oracle: func() (string, string) {
		if r != "ok" {
			return "Update*Name " + r, ""
		}
		changed := false
		for i := 0; i < 5; i++ {
			if i != src && (host2[i].String() != hs[i].String() || mac2[i].String() != ms[i].String()) {
				return fmt.Sprintf("Update%sName changed the %s slot", Sources[src], Sources[i]), ""
			}
		}
		o, rr := hs[src].attrs(), host2[src].attrs()
		mo, mr := ms[src].attrs(), mac2[src].attrs()
		for i := range o {
			if o[i] != "" && rr[i] == "" || mo[i] != "" && mr[i] == "" {
				return fmt.Sprintf("Update%sName erased a known attribute (host %q->%q, mac %q->%q)", Sources[src], o[i], rr[i], mo[i], mr[i]), ""
			}
			if o[i] != rr[i] {
				changed = true
			}
		}
		if dirty2 != (dirty || changed) {
			return fmt.Sprintf("Update%sName: dirty=%v after the call, before=%v, attributes changed=%v", Sources[src], dirty2, dirty, changed), ""
		}
		if !changed && NamesStr(mac2) != NamesStr(ms) {
			return fmt.Sprintf("Update%sName changed the MAC entry although the host entry did not change", Sources[src]), ""
		}
		if dirty3 || NamesStr(host3) != NamesStr(host2) || NamesStr(mac3) != NamesStr(mac2) {
			return fmt.Sprintf("Update%sName is not idempotent (second identical update: dirty=%v)", Sources[src], dirty3), ""
		}
		return "", ""
	}}
}

// ---------------------------------------------------------------------------------------------
// oracles

func nameOracle(msg []byte, off int, impl string) (string, string) {
	if impl == "panic" || strings.HasPrefix(impl, "hang") {
		return "decodeName " + impl + " at offset " + strconv.Itoa(off), ""
	}
	if off < 0 || off >= len(msg) {
		if strings.HasPrefix(impl, "ok") {
			return "decodeName accepted an offset outside the message", ""
		}
		return "", ""
	}
	labels, end, ptrs, cl := g.RefName(msg, off)
	ok := strings.HasPrefix(impl, "ok ")
	switch cl {
	case g.OK:
		if ptrs > 254 {
			return "", "" // beyond the implementation's recursion limit (stated domain)
		}
		want := fmt.Sprintf("ok %s %d", core.Hex(labels.Text()), end)
		if impl != want {
			return fmt.Sprintf("well-formed name at %d: decodeName gives %q, reference decoder %q", off, impl, want), ""
		}
	case g.Edge:
		// exactly one byte more than RFC 1035 allows: tolerated by the implementation, left unjudged
	case g.TooLong:
		if ok {
			return fmt.Sprintf("name of %d wire bytes (limit 255) accepted: %s", labels.WireLen(), impl), ""
		}
	default:
		if ok {
			return fmt.Sprintf("malformed name (%s) at %d accepted: %s", cl, off, impl), ""
		}
	}
	return "", ""
}

func questionOracle(msg []byte, idx int, impl string) (string, string) {
	if impl == "panic" || strings.HasPrefix(impl, "hang") {
		return "DecodeQuestion " + impl, ""
	}
	ok := strings.HasPrefix(impl, "ok ")
	if len(msg) < 12 || idx < 0 || idx >= len(msg) {
		if ok {
			return "DecodeQuestion accepted a message without header / an index outside the message", ""
		}
		return "", ""
	}
	qd := int(msg[4])<<8 | int(msg[5])
	labels, end, ptrs, cl := g.RefName(msg, idx)
	if cl == g.Edge {
		return "", ""
	}
	if cl == g.OK && ptrs <= 254 && end+4 <= len(msg) && qd == 1 {
		want := fmt.Sprintf("ok %s %d %d %d", core.Hex(labels.Text()), int(msg[end])<<8|int(msg[end+1]), int(msg[end+2])<<8|int(msg[end+3]), end+4)
		if impl != want {
			return fmt.Sprintf("well-formed question: DecodeQuestion gives %q, reference %q", impl, want), ""
		}
		if idx == 12 {
			var p dnsmessage.Parser
			if _, err := p.Start(msg); err == nil {
				if q, err := p.Question(); err == nil {
					n := strings.TrimSuffix(q.Name.String(), ".")
					if n != string(labels.Text()) || int(q.Type) != int(msg[end])<<8|int(msg[end+1]) {
						return fmt.Sprintf("oracles disagree on the question name: dnsmessage %q, reference %q", n, labels.Text()), ""
					}
				}
			}
		}
		return "", ""
	}
	if ok && (cl == g.Truncated || cl == g.Reserved || cl == g.Forward || (cl == g.OK && end+4 > len(msg))) {
		return fmt.Sprintf("malformed question (%s) accepted: %s", cl, impl), ""
	}
	return "", ""
}

func rrsOracle(msg []byte, off, count int, impl string) (string, string) {
	if impl == "panic" || strings.HasPrefix(impl, "hang") {
		return "decodeRRs " + impl, ""
	}
	if count < 0 {
		if len(msg) < 12 {
			if strings.HasPrefix(impl, "ok") {
				return "DecodeAnswers accepted a message without header", ""
			}
			return "", ""
		}
		count = int(msg[6])<<8 | int(msg[7])
	}
	if off < 0 {
		return "", ""
	}
	rrs, end, wf, edge := g.RefRRsEdge(msg, off, count)
	if edge {
		return "", ""
	}
	ok := strings.HasPrefix(impl, "ok ")
	if !wf {
		if ok {
			return "malformed / truncated record list accepted: " + impl, ""
		}
		return "", ""
	}
	if deepPointers(msg, off, count) {
		return "", ""
	}
	e := newExp("")
	upd, reject, skip := e.apply(rrs)
	if skip {
		return "", ""
	}
	if reject {
		if ok {
			return "record list with an invalid record accepted: " + impl, ""
		}
		return "", ""
	}
	want := fmt.Sprintf("ok %d %v %s", end, upd, e)
	if impl != want {
		return fmt.Sprintf("well-formed records: decodeRRs gives %q, reference %q", impl, want), ""
	}
	return "", ""
}

// deepPointers: some owner name of the record list needs more than 254 pointer hops
func deepPointers(msg []byte, off, count int) bool {
	for i := 0; i < count; i++ {
		_, e, p, c := g.RefName(msg, off)
		if c != g.OK && c != g.Edge {
			return false
		}
		if p > 254 {
			return true
		}
		l := int(msg[e+8])<<8 | int(msg[e+9])
		if _, _, p2, c2 := g.RefName(msg, e+10); c2 == g.OK && p2 > 254 {
			return true
		}
		off = e + 10 + l
	}
	return false
}

func processOracle(ps [][]byte, impl string, tbl map[string]packet.DNSEntry) (string, string) {
	if w, b := dnsimpl.IsBlocked("ProcessDNS", impl); b {
		n := len(strings.Fields(impl[:strings.Index(impl, dnsimpl.Blocked)]))
		return fmt.Sprintf("%s (message %d of the line)", w, n-1), ""
	}
	if strings.Contains(impl, "panic") || strings.Contains(impl, "hang") {
		rs := strings.Fields(impl[:strings.Index(impl+" tbl=", " tbl=")])
		for i, r := range rs {
			if r == "panic" || strings.HasPrefix(r, "hang") {
				if i == 0 {
					return "ProcessDNS " + r, ""
				}
				return fmt.Sprintf("ProcessDNS %s on message %d of the line, on the handler that had answered %s to the message before", r, i, rs[i-1]), ""
			}
		}
		return "ProcessDNS " + impl[:strings.Index(impl+" ", " ")], ""
	}
	results := strings.Fields(impl[:strings.Index(impl, " tbl=")])
	exp := map[string]*expEntry{}
	judge := true
	for i, p := range ps {
		if i >= len(results) {
			break
		}
		res := results[i]
		ok := !strings.HasPrefix(res, "err:")
		m, wf := g.RefQA(p)
		if m.Edge {
			judge = false
			continue
		}
		if !wf || m.QD != 1 {
			if ok {
				return fmt.Sprintf("message %d is not well-formed (truncated / bad name / question count) but ProcessDNS accepted it: %s", i, res), ""
			}
			judge = false
			continue
		}
		if deepPointers(p, m.QEnd, m.AN) {
			judge = false
			continue
		}
		if _, _, pp, _ := g.RefName(p, 12); pp > 254 {
			judge = false
			continue
		}
		// second implementation
		if qn, drr, dok := viaDnsmessage(p); dok {
			if qn != string(m.QName) || len(drr) != len(m.Answers) {
				return fmt.Sprintf("oracles disagree on message %d: dnsmessage question %q (%d answers), reference %q (%d answers)", i, qn, len(drr), m.QName, len(m.Answers)), ""
			}
			for k := range drr {
				a, b := drr[k], m.Answers[k]
				if !bytes.Equal(a.Name, b.Name) || a.Type != b.Type || a.TTL != b.TTL ||
					((a.Type == g.TypeCNAME || a.Type == g.TypePTR) && b.TClass == g.OK && !bytes.Equal(a.Target, b.Target)) ||
					((a.Type == g.TypeA || a.Type == g.TypeAAAA) && !bytes.Equal(a.RData, b.RData)) {
					return fmt.Sprintf("oracles disagree on message %d answer %d: dnsmessage %q/%q, reference %q/%q", i, k, a.Name, a.Target, b.Name, b.Target), ""
				}
			}
		}
		e := exp[string(m.QName)]
		fresh := e == nil
		if fresh {
			e = newExp(string(m.QName))
		}
		// judge on a copy: a rejected message must not be required to leave records behind
		cp := newExp(e.name)
		for k, v := range e.a {
			cp.a[k] = v
		}
		for k, v := range e.aaaa {
			cp.aaaa[k] = v
		}
		for k, v := range e.cname {
			cp.cname[k] = v
		}
		for k, v := range e.ptr {
			cp.ptr[k] = v
		}
		upd, reject, skip := cp.apply(m.Answers)
		if skip {
			judge = false
			continue
		}
		if reject {
			if ok {
				return fmt.Sprintf("message %d carries an invalid record but ProcessDNS accepted it: %s", i, res), ""
			}
			judge = false // what a rejected message leaves behind is not part of the property
			continue
		}
		if !ok {
			return fmt.Sprintf("well-formed message %d rejected: %s", i, res), ""
		}
		if upd {
			exp[string(m.QName)] = cp
			want := "upd(" + strings.ReplaceAll(cp.String(), " ", ",") + ")"
			if judge && res != want {
				return fmt.Sprintf("message %d: ProcessDNS returned %s, reference decoder expects %s", i, res, want), ""
			}
		} else if res != "same" {
			return fmt.Sprintf("message %d adds nothing new but ProcessDNS returned %s", i, res), ""
		}
	}
	if judge {
		var es []string
		for _, e := range exp {
			es = append(es, e.String())
		}
		sort.Strings(es)
		want := strings.Join(es, "|")
		got := impl[strings.Index(impl, " tbl=")+5:]
		if got != want {
			return fmt.Sprintf("DNS table after the messages is %q, reference decoder expects %q", got, want), ""
		}
		// DNSFind returns the same records
		for name := range exp {
			if _, ok := tbl[name]; !ok {
				return fmt.Sprintf("DNSTable has no entry for question name %q", name), ""
			}
		}
	}
	return "", ""
}

func validDotted(name []byte) (g.Name, bool) {
	if len(name) == 0 {
		return g.Name{}, true
	}
	n := g.N(string(name))
	for _, l := range n {
		if len(l) == 0 || len(l) > 63 {
			return nil, false
		}
	}
	return n, n.WireLen() <= 255
}

func encNameOracle(name []byte, dl, off int, impl string) (string, string) {
	n, valid := validDotted(name)
	if !valid {
		return "", ""
	}
	need := off + n.WireLen()
	if len(name) > 0 {
		need = off + len(name) + 2
	}
	if need > dl {
		return "", "" // buffer too small: a panic is the caller's fault
	}
	if !strings.HasPrefix(impl, "ok ") {
		return fmt.Sprintf("encodeName %s on a valid name with enough room", impl), ""
	}
	f := strings.Fields(impl)
	data := core.UnHex(f[1])
	labels, end, _, cl := g.RefName(data, off)
	if cl != g.OK || !bytes.Equal(labels.Text(), name) || strconv.Itoa(end) != f[2] {
		return fmt.Sprintf("encodeName(%q) does not decode back: reference decoder reads %q end=%d (%s), returned offset %s", name, labels.Text(), end, cl, f[2]), ""
	}
	return "", ""
}

func encQueryOracle(id, fl uint16, name []byte, qt uint16, impl string) (string, string) {
	labels, end, _, cl := g.RefName(name, 0)
	if cl != g.OK || end != len(name) || len(name) > 496 {
		return "", ""
	}
	if !strings.HasPrefix(impl, "ok ") {
		return "EncodeDNSQuery " + impl + " on a valid encoded name", ""
	}
	b := core.UnHex(strings.Fields(impl)[1])
	m, wf := g.RefMessage(b)
	if !wf || m.ID != id || m.Flags != fl || m.QD != 1 || m.AN+m.NS+m.AR != 0 || !bytes.Equal(m.QName, labels.Text()) || m.QType != qt || m.QClass != 1 || m.QEnd != len(b) {
		return fmt.Sprintf("EncodeDNSQuery output is not the query asked for: %+v", m), ""
	}
	return "", ""
}

// RandNE draws a name entry over a small value pool (so that equal / empty attributes are frequent).
func RandNE(r *rand.Rand) NE {
	pool := []string{"", "", "a", "b", "iPhone", "Apple", "Windows"}
	pick := func() []byte { return []byte(pool[r.Intn(len(pool))]) }
	ex := int64(0)
	if r.Intn(2) == 0 {
		ex = int64(1+r.Intn(5)) * 1000000007
	}
	return NE{Typ: []byte([]string{"", "mdns", "ssdp", "nbns"}[r.Intn(4)]), Name: pick(), Model: pick(), Manuf: pick(), OS: pick(), Expire: ex}
}
