package dnsops

import (
	"encoding/binary"
	"fmt"
	"net"
	"strconv"
	"strings"
	"time"

	"verif/harness/core"
	g "verif/harness/dnsgen"
	"verif/harness/dnsimpl"
)

// mdns.hist <dt>,<mac>,<payload> …   a HISTORY of mDNS messages through ProcessMDNS of one handler: dt = milliseconds
// the clock advances before the message, mac = source MAC, payload = the UDP payload (hex).  Canonical result: per
// message "<result as in the mdns line> c=[<response cache keys afterwards>]", joined by " | " (the Lean state
// machine Model/MdnsHist answers the same line).
//
// Oracle (the property, evaluated per message with the independent reference decoder of harness/dnsgen; it keeps its
// own record of which (source MAC, transaction id) answered when and never looks at the handler's cache):
//   - a QUERY must yield what the reference reads from THAT message's question section – whatever came before;
//   - a RESPONSE must yield the reference's (name, address) pairs of THAT message – unless the same station sent a
//     response with the same transaction id that was processed without error less than five minutes before (then the
//     empty result is also in order: the handler drops duplicate responses).

const mdnsTTL = 5 * time.Minute

type histStep struct {
	dt      time.Duration
	mac     net.HardwareAddr
	payload []byte
}

func parseHist(toks []string) ([]histStep, bool) {
	var out []histStep
	for _, t := range toks {
		f := strings.Split(t, ",")
		if len(f) != 3 {
			return nil, false
		}
		ms, err := strconv.Atoi(f[0])
		if err != nil || ms < 0 {
			return nil, false
		}
		mac := core.UnHex(f[1])
		if len(mac) != 6 {
			return nil, false
		}
		out = append(out, histStep{time.Duration(ms) * time.Millisecond, mac, core.UnHex(f[2])})
	}
	return out, len(out) > 0
}

func evalMdnsHist(c *core.Ctx, line string, toks []string) *core.Case {
	steps, ok := parseHist(toks)
	if !ok {
		return nil
	}
	in := make([]dnsimpl.HistStep, len(steps))
	for i, s := range steps {
		in[i] = dnsimpl.HistStep{Dt: s.dt, MAC: s.mac, Payload: s.payload}
	}
	res, ok := dnsimpl.MDNSHist(in)
	if !ok {
		c.Why = "a payload does not fit an Ethernet frame / is not parsed as mDNS by Session.Parse"
		return nil
	}
	parts := make([]string, len(res))
	for i, r := range res {
		parts[i] = r.Impl
		if strings.HasPrefix(r.Impl, "ok ") {
			parts[i] = r.Impl[3:]
			parts[i] = "ok " + parts[i] + " c=[" + strings.Join(r.Keys, ",") + "]"
		}
	}
	impl := strings.Join(parts, " | ")
	trivial := true
	for _, s := range steps {
		if len(s.payload) >= 12 {
			trivial = false
		}
	}
	return &core.Case{Line: line, Impl: impl, Trivial: trivial,
		Oracle: func() (string, string) { return mdnsHistOracle(steps, res) }}
}

func mdnsHistOracle(steps []histStep, res []dnsimpl.HistResult) (string, string) {
	type key struct {
		mac string
		id  uint16
	}
	answered := map[key]time.Duration{} // virtual time of the last response of (mac, id) processed without error and not dropped
	var now time.Duration
	for i, s := range steps {
		now += s.dt
		if i >= len(res) {
			break
		}
		impl := res[i].Impl
		where := fmt.Sprintf("message %d of the history (from %s at +%v)", i+1, s.mac, now)
		if w, b := dnsimpl.IsBlocked("ProcessMDNS", impl); b {
			return where + ": " + w, ""
		}
		if impl == "panic" || strings.HasPrefix(impl, "hang") {
			return where + ": ProcessMDNS " + impl, ""
		}
		if len(s.payload) < 12 {
			continue
		}
		k := key{string(s.mac), binary.BigEndian.Uint16(s.payload[0:2])}
		if s.payload[2]&0x80 == 0 {
			want, judged := refQuery(s.payload)
			if judged && impl != want {
				return fmt.Sprintf("%s: mDNS query: ProcessMDNS gives %s, the reference decoder reads %s from this message (a query is never a duplicate: only responses are remembered)", where, impl, want), ""
			}
			continue
		}
		empty := impl == "ok v4=[] v6=[] err=false"
		t, seen := answered[k]
		dup := seen && now-t < mdnsTTL
		if !(dup && empty) {
			if w, id := mdnsOracle(s.payload, impl); w != "" {
				if empty && !dup {
					w = fmt.Sprintf("mDNS response dropped as a duplicate although station %s sent no response with transaction id %d that was processed in the five minutes before; %s", s.mac, k.id, w)
				}
				return where + ": " + w, id
			}
		}
		if !(dup && empty) && strings.HasSuffix(impl, "err=false") {
			answered[k] = now
		}
	}
	return "", ""
}

// refQuery: what the query branch must return for a message whose questions the reference decodes: the entry
// (name, manufacturer) inferred from the question names – the last name under ".local." that is not a service
// type ("_tcp.local." / "_udp.local."), without that suffix; manufacturer Apple when a name mentions sleep-proxy.
func refQuery(p []byte) (string, bool) {
	qd := int(binary.BigEndian.Uint16(p[4:6]))
	off := 12
	name, manuf := "", ""
	for i := 0; i < qd; i++ {
		labels, end, _, cl := g.RefName(p, off)
		if cl != g.OK || !dnsmessageOK(p, off) || end+4 > len(p) {
			return "", false
		}
		off = end + 4
		var parts []string
		for _, l := range labels {
			parts = append(parts, string(l))
		}
		text := strings.Join(parts, ".") + "."
		if strings.HasSuffix(text, ".local.") && !strings.HasSuffix(text, "_tcp.local.") && !strings.HasSuffix(text, "_udp.local.") {
			name = strings.TrimSuffix(text, ".local.")
		}
		if strings.Contains(text, "sleep-proxy") {
			manuf = "Apple"
		}
	}
	if name == "" && manuf == "" {
		return "ok v4=[] v6=[] err=false", true
	}
	return fmt.Sprintf("ok v4=[%s:-:-:%s] v6=[] err=false", core.Hex([]byte(name)), core.Hex([]byte(manuf))), true
}
