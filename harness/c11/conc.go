package c11

// Concurrent stage of the C12 check (added after wave-8 seed C12-w8s1).  The DHCP handler runs on the packet goroutine
// while the application calls Session.Capture / Release from other goroutines (the supported pattern of C09).  The
// capture state may therefore change at any moment of a transaction; whichever state the server acts on, every reply
// must CONFORM TO ITSELF: an OFFER / ACK carries the complete option set of ONE of the two subnets (mask, router, DNS
// of the home LAN or of the netfilter subnet - never a mixture) and its yiaddr lies inside that subnet.  (C12:
// "OFFERs and ACKs to captured clients carry the netfilter subnet's address / router / DNS, others the home LAN's".)
// No model counterpart: the server model's step is atomic (Props/C09AtomicTie.model_steps_atomic says which code
// sections it stands for); this stage explores the interleavings inside one transaction that the model does not have.

import (
	"encoding/binary"
	"fmt"
	"net"
	"net/netip"
	"os"
	"sync"
	"sync/atomic"

	"verif/harness/core"
)

func maskOf(p netip.Prefix) uint32 { return ^(uint32(0xffffffff) >> uint(p.Bits())) }

// selfConsistent judges one OFFER / ACK against the two option sets of the configuration.
func selfConsistent(c *NetCfg, r *Reply) string {
	if r.Type != 2 && r.Type != 5 {
		return ""
	}
	get := func(code byte) (uint32, bool) {
		v, ok := r.Opts[code]
		if !ok || len(v) < 4 {
			return 0, false
		}
		return binary.BigEndian.Uint32(v[:4]), true
	}
	mask, okm := get(1)
	router, okr := get(3)
	dns, okd := get(6)
	if !okm || !okr || !okd {
		return fmt.Sprintf("%s without mask / router / DNS option", r.typeName())
	}
	type set struct {
		name          string
		lan           netip.Prefix
		gw, dns, mask uint32
	}
	home := set{"home LAN", c.Home, u32(c.Router), u32(c.DNS), maskOf(c.Home)}
	nf := set{"netfilter subnet", c.Netfilter.Masked(), u32(c.Netfilter.Addr()), u32(netip.MustParseAddr("1.1.1.3")), maskOf(c.Netfilter)}
	for _, s := range []set{home, nf} {
		if mask == s.mask && router == s.gw && dns == s.dns {
			if !s.lan.Contains(addr(r.YIAddr)) {
				return fmt.Sprintf("%s yiaddr=%s with the option set of the %s (mask %s router %s dns %s): the address is outside the subnet its own options describe",
					r.typeName(), addr(r.YIAddr), s.name, addr(mask), addr(router), addr(dns))
			}
			return ""
		}
	}
	return fmt.Sprintf("%s yiaddr=%s carries a mixture of the two subnets' options: mask %s router %s dns %s", r.typeName(), addr(r.YIAddr), addr(mask), addr(router), addr(dns))
}

// concRound: one client obtains a lease and keeps renewing / re-requesting it on the packet goroutine while another
// goroutine toggles the capture state of its MAC.  Returns "" or the first inconsistent reply.
func concRound(cfgIdx, mode int, seed int64, rounds int) string {
	initOnce()
	w, err := NewWorld(cfgIdx, mode, "")
	if err != nil {
		return ""
	}
	m := mac(int(seed % 6))
	var stop atomic.Bool
	var wg sync.WaitGroup
	wg.Add(1)
	go func() {
		defer wg.Done()
		defer func() { recover() }()
		for i := 0; !stop.Load(); i++ {
			if i%2 == 0 {
				w.S.Capture(net.HardwareAddr(m))
			} else {
				w.S.Release(net.HardwareAddr(m))
			}
		}
	}()
	bad := ""
	send := func(o *Op) []*Reply {
		var out []*Reply
		res := core.Safely(func() string {
			frame, err := w.S.Parse(BuildFrame(w.rx, o))
			if err != nil {
				return "ok"
			}
			w.H.ProcessPacket(frame)
			return "ok"
		})
		if res != "ok" && bad == "" {
			bad = "panic in ProcessPacket while the capture state changes concurrently"
		}
		for _, fr := range w.Conn.Take() {
			if r, ok := DecodeReply(fr); ok {
				out = append(out, r)
			}
		}
		return out
	}
	var lease, offer uint32
	var offerSrv, offerXID []byte
	stats := map[byte]int{}
	for k := 0; k < rounds && bad == ""; k++ {
		var o *Op
		switch {
		case lease != 0 && k%3 != 0: // renew (unicast, ciaddr = lease)
			o = &Op{Kind: "request", CHAddr: m, XID: xid(1, k), CIAddr: lease, Src: lease}
		case offer != 0: // select the last offer
			o = &Op{Kind: "request", CHAddr: m, XID: offerXID, Req: ipBytes(offer), Srv: offerSrv}
		default:
			o = &Op{Kind: "discover", CHAddr: m, XID: xid(1, k)}
		}
		offer = 0
		for _, r := range send(o) {
			if what := selfConsistent(w.Cfg, r); what != "" && bad == "" {
				bad = what + fmt.Sprintf("   [after %d messages; %s; Capture/Release of %s toggled concurrently]", k+1, o.String(), net.HardwareAddr(m))
			}
			stats[r.Type]++
			switch r.Type {
			case 2:
				offer, offerSrv, offerXID = r.YIAddr, append([]byte{}, r.Opts[54]...), append([]byte{}, r.XID...)
			case 5:
				lease = r.YIAddr
			case 6:
				lease = 0
			}
		}
	}
	stop.Store(true)
	wg.Wait()
	if os.Getenv("VERIF_CONC_DEBUG") != "" {
		fmt.Fprintf(os.Stderr, "dhcp.conc cfg=%d mode=%d: replies by type %v, lease=%s\n", cfgIdx, mode, stats, addr(lease))
	}
	w.S.Release(net.HardwareAddr(m))
	return bad
}

func ipBytes(v uint32) []byte { return []byte{byte(v >> 24), byte(v >> 16), byte(v >> 8), byte(v)} }
